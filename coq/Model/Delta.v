(* Model/Delta.v — executable, code-shaped models of Sequence.sigma / deltaForm / delta /
   deltaMax / kappa (backend/sequence.py).  Loops are folds; Qred keeps numbers small. *)
From Coq Require Import QArith Qabs Qreduction ZArith List Bool Lia.
From LC Require Import Core.Residue Core.Lists Core.QTools Spec.Delta.
Import ListNotations.
Local Open Scope Z_scope.

(* Sequence.sigma: countNeut == len -> 0, else NCPR**2/FCR *)
Definition m_sigma (l : list Z) : Q :=
  if nneut l =? len l then 0%Q
  else Qred (((npos l - nneg l) # Z.to_pos (len l)) * ((npos l - nneg l) # Z.to_pos (len l))
             / ((npos l + nneg l) # Z.to_pos (len l)))%Q.

(* blob sigma inside deltaForm: bfcr == 0 -> 0 else bncpr**2/bfcr, denominators bloblen *)
Definition m_bsigma (w : Z) (b : list Z) : Q :=
  if npos b + nneg b =? 0 then 0%Q
  else Qred (((npos b - nneg b) # Z.to_pos w) * ((npos b - nneg b) # Z.to_pos w)
             / ((npos b + nneg b) # Z.to_pos w))%Q.

(* deltaForm: nblobs = len - bloblen + 1 (may be <= 0: empty loop), ans += (sigma-bsig)**2/nblobs *)
Definition m_deltaForm (w : nat) (l : list Z) : Q :=
  let s := m_sigma l in
  let nblobs := len l - Z.of_nat w + 1 in
  fold_left (fun ans i =>
               let b := firstn w (skipn i l) in
               Qred (ans + sqQ (s - m_bsigma (Z.of_nat w) b) / inject_Z nblobs)%Q)
            (seq 0 (Z.to_nat nblobs)) 0%Q.

Definition m_delta (l : list Z) : Q := Qred ((m_deltaForm 5 l + m_deltaForm 6 l) / 2)%Q.

(* deltaMax search: running maximum from -1 with strict <, keeping the first maximiser *)
Definition m_search (cs : list (list Z)) : Q * option (list Z) :=
  fold_left (fun (acc : Q * option (list Z)) c =>
               let d := m_delta c in
               if Qlt_le_dec (fst acc) d then (d, Some c) else acc)
            cs ((-1)%Q, None).

Definition m_dmax_arg (l : list Z) : Q * option (list Z) :=
  let '(p, n, z) := natcomp l in
  if (p + n =? 0)%nat then (0%Q, None) else m_search (cands p n z).

Definition m_dmax (l : list Z) : Q := fst (m_dmax_arg l).

Definition m_kappa (l : list Z) : Q :=
  let dm := m_dmax l in
  if Qeq_bool dm 0 then (-1)%Q
  else let k := Qred (m_delta l / dm)%Q in
       if Qlt_le_dec 1 k then (if Qlt_le_dec k (11 # 10) then 1%Q else k) else k.

(* __permutant_from_reduced_seq: refill a +/-/0 arrangement with the parent's residues,
   each class consumed in order of appearance *)
Fixpoint refill (cand : list Z) (ps ns zs : list aa) : list aa :=
  match cand with
  | [] => []
  | q :: cand' =>
      if 0 <? q then match ps with x :: ps' => x :: refill cand' ps' ns zs | [] => [] end
      else if q <? 0 then match ns with x :: ns' => x :: refill cand' ps ns' zs | [] => [] end
      else match zs with x :: zs' => x :: refill cand' ps ns zs' | [] => [] end
  end.

Definition permutant (parent : list aa) (cand : list Z) : list aa :=
  refill cand (filter (fun a => 0 <? chg a) parent) (filter (fun a => chg a <? 0) parent)
         (filter (fun a => chg a =? 0) parent).
