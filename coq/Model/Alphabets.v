(* Model/Alphabets.v — executable model of SequenceComplexity.reduce_alphabet (C12).
   The per-residue cascade is a parameter f (instantiated with the generated cascade
   in Props/Tie and in the correspondence cases); the user-alphabet path is modelled
   here as written in the code. *)
From Coq Require Import String Ascii ZArith Bool List.
From LC Require Import Core.Residue Spec.Alphabets.
Import ListNotations.
Local Open Scope Z_scope.

Definition memZ (k : Z) (l : list Z) : bool := existsb (Z.eqb k) l.

(* predefined alphabets: None = rejected *)
Definition reduce_predef (allowed : list Z) (f : Z -> aa -> aa) (k : Z) (s : list aa)
  : option (list aa) :=
  if memZ k allowed then Some (map (f k) s) else None.

(* user alphabets: a Python dict is an association list from key strings to value
   strings (non-string keys/values are canonicalised by the harness to tokens that
   are not amino-acid letters). *)
Definition udict := list (string * string).

Definition ulookup (u : udict) (x : aa) : option aa :=
  match assoc (aa_str x) u with
  | Some v => match list_ascii_of_string v with
              | [c] => aa_of_char c
              | _ => None
              end
  | None => None
  end.

Definition user_accepted (u : udict) : bool :=
  forallb (fun x => match ulookup u x with Some _ => true | None => false end) all20.

Definition uapply (u : udict) (x : aa) : aa :=
  match ulookup u x with Some y => y | None => x end.

Fixpoint dedup (l : list aa) : list aa :=
  match l with
  | [] => []
  | x :: l' => if mem_aa x l' then dedup l' else x :: dedup l'
  end.

(* result = (reduced sequence, alphabet as a duplicate-free list) *)
Definition reduce_user (u : udict) (s : list aa) : option (list aa * list aa) :=
  if user_accepted u then Some (map (uapply u) s, dedup (map (uapply u) all20)) else None.
