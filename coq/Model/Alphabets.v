(* Model/Alphabets.v — executable model of SequenceComplexity.reduce_alphabet (C12).
   The per-residue cascade is a parameter f (instantiated with the generated cascade
   in Props/Tie and in the correspondence cases); the user-alphabet path is modelled
   here as written in the code. *)
From Coq Require Import String Ascii ZArith Bool List.
From LC Require Import Core.Residue Spec.Alphabets.
Import ListNotations.
Local Open Scope Z_scope.

Definition memZ (k : Z) (l : list Z) : bool := existsb (Z.eqb k) l.

(* predefined alphabets: None = rejected *)
Definition reduce_predef (allowed : list Z) (f : Z -> aa -> aa) (k : Z) (s : list aa)
  : option (list aa) :=
  if memZ k allowed then Some (map (f k) s) else None.

(* user alphabets: a Python dict is an association list from key strings to value
   strings (non-string keys/values are canonicalised by the harness to tokens that
   are not amino-acid letters). *)
Definition udict := list (string * string).

Definition ulookup (u : udict) (x : aa) : option aa :=
  match assoc (aa_str x) u with
  | Some v => match list_ascii_of_string v with
              | [c] => aa_of_char c
              | _ => None
              end
  | None => None
  end.

Definition user_accepted (u : udict) : bool :=
  forallb (fun x => match ulookup u x with Some _ => true | None => false end) all20.

Definition uapply (u : udict) (x : aa) : aa :=
  match ulookup u x with Some y => y | None => x end.

Fixpoint dedup (l : list aa) : list aa :=
  match l with
  | [] => []
  | x :: l' => if mem_aa x l' then dedup l' else x :: dedup l'
  end.

(* result = (reduced sequence, alphabet as a duplicate-free list) *)
Definition reduce_user (u : udict) (s : list aa) : option (list aa * list aa) :=
  if user_accepted u then Some (map (uapply u) s, dedup (map (uapply u) all20)) else None.

(* the public entry point: userAlphabet is a non-empty dict (UDict), an empty
   container / the default (UNone), or a non-empty non-dict (UNotDict) *)
Inductive ualpha := UNone | UDict (u : udict) | UNotDict.

Definition reduce_api (allowed : list Z) (f : Z -> aa -> aa) (alph : Z -> list aa)
           (k : Z) (ua : ualpha) (s : list aa) : option (list aa * list aa) :=
  match ua with
  | UNotDict => None
  | UDict (p :: u) => reduce_user (p :: u) s
  | _ => match reduce_predef allowed f k s with
         | Some r => Some (r, alph k)
         | None => None
         end
  end.

Fixpoint list_aa_eqb (a b : list aa) : bool :=
  match a, b with
  | [], [] => true
  | x :: a', y :: b' => aa_eqb x y && list_aa_eqb a' b'
  | _, _ => false
  end.

(* alphabets are compared as duplicate-free sets: the property fixes their members, not their order *)
Fixpoint nodup_aa_b (l : list aa) : bool :=
  match l with [] => true | x :: l' => negb (mem_aa x l') && nodup_aa_b l' end.
Definition set_aa_eqb (a b : list aa) : bool :=
  nodup_aa_b b && Nat.eqb (length a) (length b) &&
  forallb (fun x => mem_aa x b) a && forallb (fun x => mem_aa x a) b.

Definition res_eqb (a b : option (list aa * list aa)) : bool :=
  match a, b with
  | None, None => true
  | Some (s1, a1), Some (s2, a2) => list_aa_eqb s1 s2 && set_aa_eqb a1 a2
  | _, _ => false
  end.

(* one correspondence case: (size, user alphabet, input, implementation's answer) *)
Definition check_c12 (allowed : list Z) (f : Z -> aa -> aa) (alph : Z -> list aa)
           (c : Z * ualpha * list aa * option (list aa * list aa)) : bool :=
  let '(k, ua, s, r) := c in res_eqb (reduce_api allowed f alph k ua s) r.
