(* Model/Region.v — Sequence.phasePlotRegion as written: the if/elif cascade over the four
   fractions, once over exact rationals and once over binary64 (bit-exact with CPython:
   int -> float conversion, /, <, <=, abs are IEEE operations).  Raises are -1 / -2. *)
From Coq Require Import ZArith QArith Qabs Bool PrimFloat Uint63 List String.
From LC Require Import Core.Residue Core.Lists Spec.Delta Model.DeltaCheck.
Import ListNotations.

Definition m_regionQ (fcr ncpr fplus fminus : Q) : Z :=
 (let v_fcr0 := fcr in
 (let v_ncpr1 := ncpr in
 (if (negb (Qle_bool (1 # 4) v_fcr0)) then 1%Z
 else (if (andb (Qle_bool (1 # 4) v_fcr0) (Qle_bool v_fcr0 (7 # 20))) then 2%Z
 else (if (andb (negb (Qle_bool v_fcr0 (7 # 20))) (negb (Qle_bool (7 # 20) (Qabs v_ncpr1)))) then 3%Z
 else (if (negb (Qle_bool fplus (7 # 20))) then (if (negb (Qle_bool fminus (7 # 20))) then (-1)%Z
 else 5%Z)
 else (if (negb (Qle_bool fminus (7 # 20))) then 4%Z
 else (-2)%Z))))))).

Definition m_regionF (fcr ncpr fplus fminus : float) : Z :=
 (let v_fcr0 := fcr in
 (let v_ncpr1 := ncpr in
 (if (PrimFloat.ltb v_fcr0 (0x1.0000000000000p-2)%float) then 1%Z
 else (if (andb (PrimFloat.leb (0x1.0000000000000p-2)%float v_fcr0) (PrimFloat.leb v_fcr0 (0x1.6666666666666p-2)%float)) then 2%Z
 else (if (andb (PrimFloat.ltb (0x1.6666666666666p-2)%float v_fcr0) (PrimFloat.ltb (PrimFloat.abs v_ncpr1) (0x1.6666666666666p-2)%float)) then 3%Z
 else (if (PrimFloat.ltb (0x1.6666666666666p-2)%float fplus) then (if (PrimFloat.ltb (0x1.6666666666666p-2)%float fminus) then (-1)%Z
 else 5%Z)
 else (if (PrimFloat.ltb (0x1.6666666666666p-2)%float fminus) then 4%Z
 else (-2)%Z))))))).

(* the four fractions of a composition, as the code forms them: count / (len + 0.0) *)
Definition regionQ_counts (p n N : Z) : Z :=
  let d := Z.to_pos N in
  m_regionQ ((p + n) # d) ((p - n) # d) (p # d) (n # d).

Definition fz (z : Z) : float :=
  if (z <? 0)%Z then PrimFloat.opp (of_uint63 (Uint63.of_Z (- z))) else of_uint63 (Uint63.of_Z z).

Definition regionF_counts (p n N : Z) : Z :=
  let Nf := PrimFloat.add (fz N) 0%float in
  m_regionF (PrimFloat.div (fz (p + n)) Nf) (PrimFloat.div (fz (p - n)) Nf)
            (PrimFloat.div (fz p) Nf) (PrimFloat.div (fz n) Nf).

Definition annotation (r : Z) : string :=
  (if r =? 1 then "Globule/Tadpole" else if r =? 2 then "Boundary Region"
   else if r =? 3 then "Coils,Hairpins and Chimeras" else if r =? 4 then "Negatively Charged Swollen Coils"
   else if r =? 5 then "Positively Charged Swollen Coils" else "ERROR, NOT A REAL REGION")%Z%string.

(* C08 correspondence: (sequence, get_phasePlotRegion() or 0 when it raised) *)
Definition check_c08 (c : string * Z) : bool :=
  let '(s, r) := c in
  let l := pat (sq s) in
  Z.eqb r (regionF_counts (npos l) (nneg l) (len l)).
