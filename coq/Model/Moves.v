(* Model/Moves.v — the permutation moves (Sequence.swapRes, swapRandChargeRes, full_shuffle,
   permute_block_swap, permute_cluster_charges; get_shuffled_sequence / get_permutant are
   full_shuffle) as functions of the parent and of the explicit outcomes of the random choices
   (C17).  Every move is an index rearrangement built by one device, fill2. *)
From Coq Require Import QArith ZArith List Bool Arith.
From LC Require Import Core.Residue Core.Lists Spec.Delta Model.Delta Model.Phospho.
Import ListNotations.

Record mobj := { mseq : list aa; mpat : list Z; mdmax : option Q }.
Definition mfresh (s : list aa) : mobj := {| mseq := s; mpat := pat s; mdmax := None |}.

(* walk over the positions; a position in A takes the next index of stack sa, a position in B the
   next index of stack sb, every other position keeps its own index *)
Fixpoint fill2 (positions A B sa sb : list nat) : list nat :=
  match positions with
  | [] => []
  | p :: ps =>
      if memn p A then match sa with x :: sa' => x :: fill2 ps A B sa' sb | [] => p :: fill2 ps A B sa sb end
      else if memn p B then match sb with x :: sb' => x :: fill2 ps A B sa sb' | [] => p :: fill2 ps A B sa sb end
      else p :: fill2 ps A B sa sb
  end.

Definition rearrange {X} (d : X) (l : list X) (idx : list nat) : list X := map (fun j => nth j l d) idx.
Definition positions_of {X} (l : list X) : list nat := seq 0 (List.length l).

(* --- swapRes(index1, index2): equal indices give a brand-new object; otherwise residues and charge
   entries are swapped and dmax is carried --- *)
Definition swap_idx (n i j : nat) : list nat := fill2 (seq 0 n) [i] [j] [j] [i].
Definition swapRes (o : mobj) (i j : nat) : mobj :=
  if Nat.eqb i j then mfresh (mseq o)
  else let ix := swap_idx (List.length (mseq o)) i j in
       {| mseq := rearrange Ala (mseq o) ix; mpat := rearrange 0%Z (mpat o) ix; mdmax := mdmax o |}.

(* --- swapRandChargeRes(frozen) --- *)
Definition idxs (f : Z -> bool) (p : list Z) (frozen : list nat) : list nat :=
  filter (fun i => f (nth i p 0%Z) && negb (memn i frozen)) (seq 0 (List.length p)).

Definition charge_types (P Nn Z0 : list nat) (ct : nat * nat) : option (option (nat * nat)) :=
  (* Some None = "swap will not change kappa": the object itself is returned; None = invalid random outcome *)
  match Z0, Nn, P with
  | [], _, _ => match P, Nn with [], _ | _, [] => Some None | _, _ => Some (Some (1, 2)%nat) end
  | _, [], _ => match P with [] => Some None | _ => Some (Some (1, 3)%nat) end
  | _, _, [] => Some (Some (2, 3)%nat)
  | _, _, _ => let '(a, b) := ct in
               if (1 <=? a) && (a <=? 3) && (1 <=? b) && (b <=? 3) && negb (a =? b) then Some (Some ct) else None
  end%nat.

Definition pick (P Nn Z0 : list nat) (t : nat) : list nat :=
  if Nat.eqb t 1 then P else if Nat.eqb t 2 then Nn else Z0.

(* ct: outcome of sample([1,2,3],2) (only consulted in the general case); a, b: the two sampled indices *)
Definition swapRand (o : mobj) (frozen : list nat) (ct : nat * nat) (a b : nat) : option mobj :=
  let P := idxs isposb (mpat o) frozen in
  let Nn := idxs isnegb (mpat o) frozen in
  let Z0 := idxs (Z.eqb 0) (mpat o) frozen in
  match charge_types P Nn Z0 ct with
  | None => None
  | Some None => Some o
  | Some (Some (t1, t2)) =>
      if memn a (pick P Nn Z0 t1) && memn b (pick P Nn Z0 t2) then Some (swapRes o a b) else None
  end.

(* --- full_shuffle(frozen): perm is the shuffled list of movable indices, consumed from its end --- *)
Definition movable (n : nat) (frozen : list nat) : list nat := filter (fun i => negb (memn i frozen)) (seq 0 n).

Fixpoint nodupn (l : list nat) : bool :=
  match l with [] => true | x :: l' => negb (memn x l') && nodupn l' end.
Definition same_set (a b : list nat) : bool :=
  Nat.eqb (List.length a) (List.length b) && nodupn a && forallb (fun x => memn x b) a && forallb (fun x => memn x a) b.

Definition rebuilt (o : mobj) (s : list aa) : mobj := {| mseq := s; mpat := pat s; mdmax := mdmax o |}.

Definition fullShuffle (o : mobj) (frozen perm : list nat) : option mobj :=
  let n := List.length (mseq o) in
  if same_set perm (movable n frozen)
  then Some (rebuilt o (rearrange Ala (mseq o) (fill2 (seq 0 n) (movable n frozen) [] (rev perm) [])))
  else None.

(* --- permute_block_swap: the last try decides; bs = block size, i1 < i2 the sorted sampled starts.
   The code's min:max slices move bs-1 residues of each block --- *)
Definition blockSwap (o : mobj) (bs i1 i2 : nat) : option mobj :=
  let n := List.length (mseq o) in
  let L := (bs - 1)%nat in
  let j := (i2 + bs - 1)%nat in
  if (2 <=? bs) && (bs <=? n / 2) && (i1 <? i2) && (i2 <? n - (bs - 1) * 2)
  then Some (rebuilt o (rearrange Ala (mseq o) (fill2 (seq 0 n) (seq i1 L) (seq j L) (seq j L) (seq i1 L))))
  else None.

(* --- permute_cluster_charges: the last iteration decides; cl = the contiguous cluster positions,
   sw = the sampled swap positions (taken in ascending order), same size, disjoint --- *)
Fixpoint insert_sorted (x : nat) (l : list nat) : list nat :=
  match l with [] => [x] | y :: l' => if (x <=? y)%nat then x :: l else y :: insert_sorted x l' end.
Definition sort_nat (l : list nat) : list nat := fold_right insert_sorted [] l.

Definition clusterMove (o : mobj) (start size : nat) (sw : list nat) : option mobj :=
  let n := List.length (mseq o) in
  let cl := seq start size in
  let sws := sort_nat sw in
  if (2 <=? size) && (start + size <=? n) && Nat.eqb (List.length sw) size && nodupn sw &&
     forallb (fun x => (x <? n) && negb (memn x cl)) sw
  then Some (rebuilt o (rearrange Ala (mseq o) (fill2 (seq 0 n) sws cl cl sws)))
  else None.

(* ---- correspondence ---- *)
Inductive move :=
  MSwap (i j : nat) | MSwapRand (frozen : list nat) (ct : nat * nat) (a b : nat) | MSwapRandSelf (frozen : list nat)
| MShuffle (frozen perm : list nat) | MBlock (bs i1 i2 : nat) | MCluster (start size : nat) (sw : list nat)
| MKappa.     (* a read-only kappa query in between: fills the parent's dmax cache *)

(* dmax as carried by the code: -1 (None) or a float close to the model value *)
Definition dmax_ok (m : option Q) (impl : option Q) (s : list aa) : bool :=
  match m, impl with
  | None, None => true
  | Some _, Some x => Model.DeltaCheck.check_c03v (show_seq s, x)
  | _, _ => false
  end.

Definition with_dmax (o : mobj) : mobj := {| mseq := mseq o; mpat := mpat o; mdmax := Some (m_dmax (mpat o)) |}.

Definition apply_move (o : mobj) (m : move) : option mobj :=
  let n := List.length (mseq o) in
  match m with
  | MSwap i j => if (i <? n) && (j <? n) then Some (swapRes o i j) else None
  | MSwapRand fr ct a b => swapRand o fr ct a b
  | MSwapRandSelf fr =>
      match charge_types (idxs isposb (mpat o) fr) (idxs isnegb (mpat o) fr) (idxs (Z.eqb 0) (mpat o) fr) (1, 2)%nat with
      | Some None => Some o
      | _ => None
      end
  | MShuffle fr perm => fullShuffle o fr perm
  | MBlock bs i1 i2 => blockSwap o bs i1 i2
  | MCluster st sz sw => clusterMove o st sz sw
  | MKappa => Some (with_dmax o)
  end.

(* observation after a move: (child sequence, child chargePattern, child dmax (None = -1)) *)
Definition child_ok (c : mobj) (x : String.string * list Z * option Q) : bool :=
  let '(str, p, d) := x in
  laa_eqb (Model.DeltaCheck.sq str) (mseq c) && lz_eqb p (mpat c) && dmax_ok (mdmax c) d (mseq c).

Fixpoint chain_ok (o : mobj) (h : list (move * (String.string * list Z * option Q))) : bool :=
  match h with
  | [] => true
  | (m, x) :: h' => match apply_move o m with
                    | Some c => child_ok c x && chain_ok c h'
                    | None => false
                    end
  end.

Definition check_c17 (c : String.string * list (move * (String.string * list Z * option Q))) : bool :=
  let '(s, h) := c in chain_ok (mfresh (Model.DeltaCheck.sq s)) h.
