(* Model/Obj.v — a SequenceParameters object as a state machine over read-only queries (C15).
   State = exactly the instance attributes the code can write: seq, phosphosites, palette,
   the delta-max cache (dmax) and the cached delta-max permutant (seqDeltaMax). *)
From Coq Require Import QArith Qabs ZArith List Bool String.
From LC Require Import Core.Residue Core.Lists Core.QTools Spec.Delta Model.Delta Model.DeltaCheck
     Model.PatternCheck Model.Recode Model.SCD Model.Composition Model.Region Model.Phospho Model.Html.
Import ListNotations.

Record obj := {
  oseq : list aa;
  ophos : list nat;
  opal : palette;
  odmax : option Q;               (* None = the code's sentinel -1 *)
  operm : option (list aa) }.     (* seqDeltaMax *)

Definition fresh (s : list aa) (ph : list nat) (pal : palette) : obj :=
  {| oseq := s; ophos := ph; opal := pal; odmax := None; operm := None |}.
Definition fresh_of (o : obj) : obj := fresh (oseq o) (ophos o) (opal o).

Inductive query :=
  QKappa | QDelta | QDmax (withseq : bool) | QOmega | QFCR | QNCPR | QRegion | QKD | QScd
| QKappaAfter | QSites | QPhosSeq | QHtml | QLen | QSeq.

Inductive result :=
  RQ (q : Q) | RZ (z : Z) | RSeq (s : list aa) | RStr (s : string) | RZs (l : list Z)
| RPair (q : Q) (s : list aa) | RCoeffs (l : list Z).

(* what the search computes for a sequence: value and permutant (the sequence itself when uncharged) *)
Definition search (s : list aa) : Q * list aa :=
  match m_dmax_arg (pat s) with
  | (d, Some c) => (d, permutant s c)
  | (d, None) => (d, s)
  end.

(* Sequence.deltaMax as repaired (fix D2: restart the search when the value is cached but the
   permutant is not) — returns the updated cache fields and the answer *)
Definition dmax_step (o : obj) (withseq : bool) : obj * result :=
  let dm0 := match odmax o, withseq, operm o with
             | Some _, true, None => None          (* reset *)
             | d, _, _ => d
             end in
  match dm0, withseq, operm o with
  | Some d, false, _ => ({| oseq := oseq o; ophos := ophos o; opal := opal o; odmax := Some d; operm := operm o |}, RQ d)
  | Some d, true, Some t => (o, RPair d t)
  | _, _, _ =>
      let '(d, t) := search (oseq o) in
      if withseq
      then ({| oseq := oseq o; ophos := ophos o; opal := opal o; odmax := Some d; operm := Some t |}, RPair d t)
      else ({| oseq := oseq o; ophos := ophos o; opal := opal o; odmax := Some d; operm := operm o |}, RQ d)
  end.

(* the pinned (pre-fix) behaviour: no reset, the running maximum starts from the cached value so no
   candidate is ever recorded *)
Definition dmax_step_pinned (o : obj) (withseq : bool) : obj * result :=
  match odmax o, withseq, operm o with
  | Some d, false, _ => (o, RQ d)
  | Some d, true, Some t => (o, RPair d t)
  | Some d, true, None => (o, RPair d [])           (* (dmax, None) *)
  | None, _, _ =>
      let '(d, t) := search (oseq o) in
      if withseq
      then ({| oseq := oseq o; ophos := ophos o; opal := opal o; odmax := Some d; operm := Some t |}, RPair d t)
      else ({| oseq := oseq o; ophos := ophos o; opal := opal o; odmax := Some d; operm := operm o |}, RQ d)
  end.

Definition kappa_of (dl dm : Q) : Q :=
  if Qeq_bool dm 0 then (-1)%Q
  else let k := Qred (dl / dm)%Q in
       if Qlt_le_dec 1 k then (if Qlt_le_dec k (11 # 10) then 1%Q else k) else k.

Definition as_pobj (o : obj) : pobj := {| pseq := oseq o; psites := ophos o |}.

Definition qstep_with (dstep : obj -> bool -> obj * result) (o : obj) (q : query) : obj * result :=
  match q with
  | QKappa =>
      (* kappa(): deltaMax() == 0 ? ... : delta()/deltaMax() — fills the cache *)
      let '(o1, r) := dstep o false in
      (o1, match r with RQ dm => RQ (kappa_of (m_delta (pat (oseq o))) dm) | x => x end)
  | QDmax b => dstep o b
  | QDelta => (o, RQ (m_delta (pat (oseq o))))
  | QOmega => (o, RQ (m_Omega (oseq o)))                      (* builds a fresh object; o untouched *)
  | QFCR => (o, RQ (FCR (oseq o)))
  | QNCPR => (o, RQ (NCPR (oseq o)))
  | QRegion => (o, RZ (let l := pat (oseq o) in regionF_counts (npos l) (nneg l) (len l)))
  | QKD => (o, RQ (meanKD (oseq o)))
  | QScd => (o, RCoeffs (scd_coeffs (pat (oseq o))))
  | QKappaAfter => (o, RQ (m_kappa (pat (phosphoseq (as_pobj o)))))
  | QSites => (o, RZs (get_sites (as_pobj o)))
  | QPhosSeq => (o, RSeq (phosphoseq (as_pobj o)))
  | QHtml => (o, RStr (m_render (opal o) (oseq o)))
  | QLen => (o, RZ (Z.of_nat (List.length (oseq o))))
  | QSeq => (o, RSeq (oseq o))
  end.

Definition qstep := qstep_with dmax_step.
Definition qstep_pinned := qstep_with dmax_step_pinned.

Definition run (qs : list query) (o : obj) : obj := fold_left (fun o q => fst (qstep o q)) qs o.

(* ---- correspondence: implementation observations ---- *)
Inductive obs := OQ (q : Q) | OZ (z : Z) | OStr (s : string) | OZs (l : list Z) | OPair (q : Q) (s : string).

Definition obs_ok (o : obj) (q : query) (r : result) (x : obs) : bool :=
  match q, r, x with
  | QKappa, RQ _, OQ k => kappa_ok (pat (oseq o)) k
  | QOmega, RQ _, OQ k => kappa_ok (recode1 omega_group (oseq o)) k
  | QKappaAfter, RQ _, OQ k => kappa_ok (pat (phosphoseq (as_pobj o))) k
  | QScd, RCoeffs _, OQ v => check_scd (pat (oseq o)) v
  | QDmax true, RPair d t, OPair v s =>
      close v d && same_multiset (sq s) (oseq o) && close (m_delta (pat (sq s))) d
  | _, RQ m, OQ v => close v m
  | _, RZ m, OZ v => Z.eqb v m
  | _, RSeq m, OStr s => laa_eqb (sq s) m
  | _, RStr m, OStr s => String.eqb s m
  | _, RZs m, OZs l => lz_eqb l m
  | _, _, _ => false
  end.

Fixpoint hist_ok (o : obj) (h : list (query * obs)) : bool :=
  match h with
  | [] => true
  | (q, x) :: h' => let '(o', r) := qstep o q in obs_ok o q r x && hist_ok o' h'
  end.

(* (sequence, phosphosites set before the history (1-based requests), history) *)
Definition check_c15 (c : string * list Z * list (query * obs)) : bool :=
  let '(s, req, h) := c in
  let p := pstep {| pseq := sq s; psites := [] |} (PSet req) in
  hist_ok (fresh (sq s) (psites p) default_palette) h.
