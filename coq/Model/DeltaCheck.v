(* Model/DeltaCheck.v — correspondence predicates for C01–C03, C05 (run inside Coq on the
   implementation's outputs written into Cases/*.v). *)
From Coq Require Import QArith Qabs ZArith List Bool String.
From LC Require Import Core.Residue Core.Lists Core.QTools Spec.Delta Model.Delta.
Import ListNotations.

Definition sq (s : string) : list aa := match parse_seq s with Some l => l | None => [] end.

(* C02: (sequence, get_delta()) *)
Definition check_c02 (c : string * Q) : bool :=
  let '(s, x) := c in close x (m_delta (pat (sq s))).

Definition same_multiset (a b : list aa) : bool :=
  Nat.eqb (List.length a) (List.length b) &&
  forallb (fun r => Z.eqb (cnt (aa_eqb r) a) (cnt (aa_eqb r) b)) all20.

(* C03: (sequence, get_deltaMax(), permutant returned by get_deltaMax(True)) *)
Definition check_c03 (c : string * Q * string) : bool :=
  let '(s, v, t) := c in
  let dm := m_dmax (pat (sq s)) in
  close v dm && same_multiset (sq t) (sq s) && close (m_delta (pat (sq t))) dm.

(* C03, value only *)
Definition check_c03v (c : string * Q) : bool :=
  let '(s, v) := c in close v (m_dmax (pat (sq s))).

(* C01: (sequence, get_kappa(), get_delta(), get_deltaMax()) *)
Definition check_c01 (c : string * Q * Q * Q) : bool :=
  let '(s, k, d, m) := c in
  let l := pat (sq s) in
  let dm := m_dmax l in
  let dl := m_delta l in
  close d dl && close m dm &&
  (if Qeq_bool dm 0 then Qeq_bool k (-1) && Qeq_bool m 0
   else let r := (dl / dm)%Q in
        if near r 1 || near r (11 # 10) then close k r || Qeq_bool k 1   (* boundary-ambiguity rule *)
        else close k (m_kappa l)).
