(* Model/Phospho.v — phosphosite bookkeeping and derived values (Sequence.setPhosPhoSites,
   clear_phosphosites, get_phosphosites, get_phosphosequence, kappa_at_maxPhos,
   calculateKappaDistOfPhosphoStates, get_STY_residues) — C16. *)
From Coq Require Import QArith Qabs ZArith List Bool String Arith.
From LC Require Import Core.Residue Core.Lists Core.QTools Spec.Delta Spec.Tables Model.Delta Model.DeltaCheck
     Model.PatternCheck Model.Composition.
Import ListNotations.

Definition sty (a : aa) : bool := match a with Ser | Thr | Tyr => true | _ => false end.

Record pobj := { pseq : list aa; psites : list nat }.   (* sites: 0-based indices, in first-set order *)

Definition memn (i : nat) (l : list nat) : bool := existsb (Nat.eqb i) l.

(* one requested 1-based position *)
Definition valid_site (s : list aa) (site : Z) : bool :=
  (1 <=? site)%Z && (site <=? Z.of_nat (List.length s))%Z &&
  match nth_error s (Z.to_nat (site - 1)) with Some a => sty a | None => false end.

Definition set_site (o : pobj) (site : Z) : pobj :=
  if valid_site (pseq o) site then
    let idx := Z.to_nat (site - 1) in
    if memn idx (psites o) then o else {| pseq := pseq o; psites := psites o ++ [idx] |}
  else o.

(* PQuery: a read-only query point (kappa and kappa-after-phosphorylation are observed); no state change *)
Inductive pop := PSet (req : list Z) | PClear | PQuery.

Definition pstep (o : pobj) (op : pop) : pobj :=
  match op with
  | PSet req => fold_left set_site req o
  | PClear => {| pseq := pseq o; psites := [] |}
  | PQuery => o
  end.

Definition prun (ops : list pop) (o : pobj) : pobj := fold_left pstep ops o.

Definition get_sites (o : pobj) : list Z := map (fun i => Z.of_nat (S i)) (psites o).

(* the sequence with E at the given indices *)
Definition subst_at (s : list aa) (idxs : list nat) : list aa :=
  map (fun p => if memn (fst p) idxs then Glu else snd p) (combine (seq 0 (List.length s)) s).

Definition phosphoseq (o : pobj) : list aa := subst_at (pseq o) (psites o).

Definition sty_positions (s : list aa) : list Z :=
  map (fun p => Z.of_nat (S (fst p))) (filter (fun p => sty (snd p)) (combine (seq 0 (List.length s)) s)).

(* all on/off assignments of k sites in itertools.product("01") order: binary counting,
   first site most significant *)
Fixpoint bitsets (k : nat) : list (list bool) :=
  match k with
  | O => [[]]
  | S k' => map (cons false) (bitsets k') ++ map (cons true) (bitsets k')
  end.

Fixpoint bits_msb (k j : nat) : list bool :=
  match k with
  | O => []
  | S k' => (2 ^ k' <=? j)%nat :: bits_msb k' (j mod 2 ^ k')
  end.

Definition chosen (sites : list nat) (bs : list bool) : list nat :=
  map fst (filter snd (combine sites bs)).

Definition states (o : pobj) : list (list bool * list aa) :=
  map (fun bs => (bs, subst_at (pseq o) (chosen (psites o) bs))) (bitsets (List.length (psites o))).

(* ---- correspondence ---- *)
Fixpoint lz_eqb (a b : list Z) : bool :=
  match a, b with
  | [], [] => true
  | x :: a', y :: b' => Z.eqb x y && lz_eqb a' b'
  | _, _ => false
  end.

Fixpoint laa_eqb (a b : list aa) : bool :=
  match a, b with
  | [], [] => true
  | x :: a', y :: b' => aa_eqb x y && laa_eqb a' b'
  | _, _ => false
  end.

(* per op: what get_phosphosites / get_phosphosequence / get_sequence answered afterwards *)
Definition step_ok (o : pobj) (obs : list Z * string * string * option (Q * Q)) : bool :=
  let '(sites, pseq_s, seq_s, kk) := obs in
  lz_eqb sites (get_sites o) && laa_eqb (sq pseq_s) (phosphoseq o) && laa_eqb (sq seq_s) (pseq o) &&
  match kk with
  | None => true
  | Some (k, ka) => kappa_ok (pat (pseq o)) k && kappa_ok (pat (phosphoseq o)) ka
  end.

Fixpoint run_ok (o : pobj) (h : list (pop * (list Z * string * string * option (Q * Q)))) : bool * pobj :=
  match h with
  | [] => (true, o)
  | (op, obs) :: h' =>
      let o' := pstep o op in
      if step_ok o' obs then run_ok o' h' else (false, o')
  end.

(* one entry of get_full_phosphostatus_kappa_distribution *)
Definition entry := (Q * Q * Q * Q * Q * Q * list bool)%type.

Definition entry_ok (e : entry) (st : list bool * list aa) : bool :=
  let '(k, fp, fn, fcr, ncpr, hyd, bs) := e in
  let '(mbs, s) := st in
  bools_eqb bs mbs && kappa_ok (pat s) k && close fp (fpos s) && close fn (fneg s) &&
  close fcr (FCR s) && close ncpr (NCPR s) && close hyd (meanKD s).

Fixpoint entries_ok (es : list entry) (sts : list (list bool * list aa)) : bool :=
  match es, sts with
  | [], [] => true
  | e :: es', st :: sts' => entry_ok e st && entries_ok es' sts'
  | _, _ => false
  end.

(* (sequence, history of (op, observation), kappa_after_phosphorylation, all S/T/Y positions,
    the full distribution when it was requested) *)
Definition check_c16 (c : string * list (pop * (list Z * string * string * option (Q * Q))) * Q * list Z * option (list entry)) : bool :=
  let '(str, h, ka, stys, dist) := c in
  let o0 := {| pseq := sq str; psites := [] |} in
  let '(ok, o) := run_ok o0 h in
  ok && kappa_ok (pat (phosphoseq o)) ka && lz_eqb stys (sty_positions (pseq o)) &&
  match dist with None => true | Some es => entries_ok es (states o) end.
