(* Model/PatternCheck.v — correspondence predicates for C05, C06, C07. *)
From Coq Require Import QArith Qabs ZArith List Bool String.
From LC Require Import Core.Residue Core.Lists Core.QTools Spec.Delta Model.Delta Model.DeltaCheck
     Model.Recode Model.SCD.
Import ListNotations.

(* implementation kappa k agrees with the model on pattern l (boundary-ambiguity rule at 1 and 1.1) *)
Definition kappa_ok (l : list Z) (k : Q) : bool :=
  let dm := m_dmax l in
  let dl := m_delta l in
  if Qeq_bool dm 0 then Qeq_bool k (-1)
  else let r := (dl / dm)%Q in
       if near r 1 || near r (11 # 10) then close k r || Qeq_bool k 1
       else close k (m_kappa l).

Definition kappa_boundary (l : list Z) : bool :=
  let dm := m_dmax l in
  if Qeq_bool dm 0 then false
  else let r := (m_delta l / dm)%Q in near r 1 || near r (11 # 10).

(* C07: (sequence, get_SCD()) *)
Definition check_c07 (c : string * Q) : bool :=
  let '(s, x) := c in check_scd (pat (sq s)) x.

(* the five patterning outputs of one sequence: kappa, delta, delta-max, SCD, Omega *)
Definition vals_ok (s : string) (v : Q * Q * Q * Q * Q) : bool :=
  let '(k, d, m, c, o) := v in
  let l := pat (sq s) in
  kappa_ok l k && close d (m_delta l) && close m (m_dmax l) && check_scd l c &&
  kappa_ok (recode1 omega_group (sq s)) o.

(* C05: (x, outputs on x, [(T x, compare kappa/delta/delta-max/SCD?, compare Omega?, outputs on T x)]):
   the outputs on x agree with the model (whose invariance is proved), and the implementation's own
   outputs on every T x equal those on x *)
Definition vals5 : Type := (Q * Q * Q * Q * Q)%type.
Definition check_c05 (c : string * vals5 * list (string * bool * bool * vals5)) : bool :=
  let '(s, v, ts) := c in
  let '(k, d, m, sc, o) := v in
  let kb := kappa_boundary (pat (sq s)) in
  let ob := kappa_boundary (recode1 omega_group (sq s)) in
  vals_ok s v &&
  forallb (fun t => let '(_, all, om, w) := t in
                    let '(k', d', m', sc', o') := w in
                    (negb om || ob || close o o') &&
                    (negb all || ((kb || close k k') && close d d' && close m m' && close sc sc'))) ts.

(* C06 *)
Definition kappaX_pattern (g1 : list string) (g2 : option (list string)) (s : list aa) : option (list Z) :=
  match parse_group g1 with
  | None => None
  | Some a =>
      match g2 with
      | Some (x :: g) => match parse_group (x :: g) with
                         | None => None
                         | Some b => Some (recode2 a b s)
                         end
      | _ => Some (recode1 a s)
      end
  end.

(* (sequence, group1, group2, get_kappa_X result or None when rejected) *)
Definition check_c06x (c : string * list string * option (list string) * option Q) : bool :=
  let '(s, g1, g2, r) := c in
  match kappaX_pattern g1 g2 (sq s), r with
  | None, None => true
  | Some l, Some k => kappa_ok l k
  | _, _ => false
  end.

Fixpoint bools_eqb (a b : list bool) : bool :=
  match a, b with
  | [], [] => true
  | x :: a', y :: b' => Bool.eqb x y && bools_eqb a' b'
  | _, _ => false
  end.

(* (sequence, get_Omega(), get_Omega_sequence() as X=true/O=false, get_kappa()) *)
Definition check_c06o (c : string * Q * list bool * Q) : bool :=
  let '(s, o, xs, k) := c in
  kappa_ok (recode1 omega_group (sq s)) o && bools_eqb xs (Omega_seq (sq s)) && kappa_ok (pat (sq s)) k.
