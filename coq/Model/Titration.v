(* Model/Titration.v — pH-dependent charge (Sequence.charge_at_pH, FCR/NCPR/FER(pH)) and the
   isoelectric-point bisection (C09).  The exact discrete data are the titratable counts; the loop
   is modelled over Q with the charge function as an oracle (the code's charge_at_pH maps floats,
   i.e. rationals, to floats). *)
From Coq Require Import QArith Qabs ZArith List Bool String.
From LC Require Import Core.Residue Core.Lists Core.QTools Spec.Tables Model.DeltaCheck.
Import ListNotations.

(* titratable groups: (residue, positive?) in the order the code tests them *)
Definition titratable : list (aa * bool) :=
  [(Lys, true); (Arg, true); (His, true); (Glu, false); (Asp, false); (Tyr, false); (Cys, false)].

Definition count_res (r : aa) (s : list aa) : Z := cnt (aa_eqb r) s.

(* (count, pKa, positive?) for every titratable kind present or not *)
Definition titr_terms (s : list aa) : list (Z * Q * bool) :=
  map (fun rb => (count_res (fst rb) s, match pka (fst rb) with Some q => q | None => 0 end, snd rb)) titratable.

Definition ntit (s : list aa) : Z := fold_right Z.add 0%Z (map (fun t => fst (fst t)) (titr_terms s)).

(* __verify_pH *)
Definition pH_ok (x : Q) : bool := Qle_bool 0 x && Qle_bool x 14.

(* isoelectric_point: result None = exception / out of fuel; the mid-pH values visited are returned too *)
Fixpoint pi_loop (f : Q -> Q) (fuel : nat) (lo hi : Q) (breakcount errorcount : nat) (prev : Q) (visited : list Q)
  : option Q * list Q :=
  match fuel with
  | O => (None, rev visited)
  | S fuel' =>
      let bc := S breakcount in
      let esc := Nat.eqb bc 20 in
      if esc && Nat.eqb errorcount 10 then (None, rev visited)
      else
        let ec := if esc then S errorcount else errorcount in
        let bc' := if esc then 0%nat else bc in
        let hi1 := if esc && negb (Qle_bool prev 0) then (hi + 1)%Q else hi in
        let lo1 := if esc && Qle_bool prev 0 then (lo - 1)%Q else lo in
        let mid := Qred ((1 # 2) * (hi1 + lo1))%Q in
        let c := f mid in
        if negb (Qle_bool c (2 # 100)) then pi_loop f fuel' mid hi1 bc' ec c (mid :: visited)
        else if negb (Qle_bool (- (2 # 100)) c) then pi_loop f fuel' lo1 mid bc' ec c (mid :: visited)
        else (Some mid, rev (mid :: visited))
  end.

Definition isoelectric (f : Q -> Q) : option Q * list Q := pi_loop f 221 0 14 0 0 0 [].

(* oracle from a recorded table of (mid_pH, charge) pairs *)
Fixpoint table_f (t : list (Q * Q)) (x : Q) : Q :=
  match t with
  | [] => 0
  | (k, v) :: t' => if Qeq_bool k x then v else table_f t' x
  end.

(* ---- correspondence ---- *)
Fixpoint qs_eqb (a b : list Q) : bool :=
  match a, b with
  | [], [] => true
  | x :: a', y :: b' => Qeq_bool x y && qs_eqb a' b'
  | _, _ => false
  end.

Fixpoint zs_eqbT (a b : list Z) : bool :=
  match a, b with
  | [], [] => true
  | x :: a', y :: b' => Z.eqb x y && zs_eqbT a' b'
  | _, _ => false
  end.

(* (sequence, the 7 titratable counts + proline count + length as the harness counted them,
    the recorded (mid_pH, charge) calls of one get_isoelectric_point(), its result) *)
Definition check_c09 (c : string * list Z * list (Q * Q) * option Q) : bool :=
  let '(str, counts, calls, r) := c in
  let s := sq str in
  zs_eqbT counts (map (fun t => fst (fst t)) (titr_terms s) ++ [count_res Pro s; Z.of_nat (List.length s)]) &&
  let '(res, visited) := isoelectric (table_f calls) in
  qs_eqb visited (map fst calls) &&
  match res, r with
  | Some x, Some y => Qeq_bool x y
  | None, None => true
  | _, _ => false
  end.
