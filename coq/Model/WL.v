(* Model/WL.v — Wang–Landau density-of-states run over kappa (WangLandauMachine.run_normal_WL and
   __run_flatcheck) as a state machine driven by events (C18).  ln f is the exact dyadic 2^-k, so g is
   a rational vector.  The two decisions the code takes on computed floats — the bin of the proposal's
   kappa and the Metropolis test u < exp(g_old - g_new) — enter as event fields with side conditions. *)
From Coq Require Import Qround QArith Qabs ZArith List Bool String Arith.
From LC Require Import Core.Residue Core.Lists Core.QTools Spec.Delta Model.Delta Model.DeltaCheck Model.PatternCheck.
Import ListNotations.

Record wlcfg := {
  nb_target : nat;      (* bins requested = bins of the relevant window *)
  nb_actual : nat;      (* bins of the partition of [0,1] *)
  rmin : nat;           (* first relevant bin *)
  nflat : nat;          (* flat-check period *)
  crit : Q }.           (* flatness criterion *)

Definition rmax (c : wlcfg) : nat := (rmin c + nb_target c - 1)%nat.
Definition in_range (c : wlcfg) (i : nat) : bool := (rmin c <=? i)%nat && (i <=? rmax c)%nat.

(* bin centres: midpoints of an equal partition of [0,1] *)
Definition centre (c : wlcfg) (i : nat) : Q := (Z.of_nat (2 * i + 1) # Pos.of_nat (2 * nb_actual c)).
Definition centres (c : wlcfg) : list Q := map (centre c) (seq 0 (nb_actual c)).

(* WangLandauMachine.__init__ (NORMAL run): the geometry derived from the requested range [bmin, bmax] cut into
   nb bins: binWidth = (bmax - bmin) / nb, nbins_actual = round(1 / binWidth), relevant_min = argmin over the
   centres of |centre - (bmin + binWidth / 2)| (numpy argmin: the first minimum) *)
(* Python's round(): to the nearest integer, exact halves to the even neighbour *)
Definition round_half_even (x : Q) : Z :=
  let fl := Qfloor x in
  let fr := (x - inject_Z fl)%Q in
  if Qle_bool fr (1 # 2) then (if Qeq_bool fr (1 # 2) then (if Z.even fl then fl else fl + 1)%Z else fl) else (fl + 1)%Z.
Definition is_half (x : Q) : bool := Qeq_bool (x - inject_Z (Qfloor x)) (1 # 2).

Definition rmin_of (na : nat) (w bmin : Q) : nat :=
  let target := bmin + w / 2 in
  let dist (i : nat) := Qabs ((Z.of_nat (2 * i + 1) # Pos.of_nat (2 * na)) - target) in
  fold_left (fun best i => if Qle_bool (dist best) (dist i) then best else i) (seq 1 (na - 1)) 0%nat.

Definition geom_of (nb : nat) (bmin bmax : Q) : nat * nat :=
  let w := (bmax - bmin) / inject_Z (Z.of_nat nb) in
  let na := Z.to_nat (round_half_even (1 / w)) in
  (na, rmin_of na w bmin).

(* what the machine may hold: the geometry of the requested range; when 1 / binWidth is an exact half the float quotient may
   land on either side of it, so either neighbour is accepted there *)
Definition geom_ok (c : wlcfg) (bmin bmax : Q) : bool :=
  let w := (bmax - bmin) / inject_Z (Z.of_nat (nb_target c)) in
  let ok (na : nat) := Nat.eqb (nb_actual c) na && Nat.eqb (rmin c) (rmin_of na w bmin) in
  if is_half (1 / w) then ok (Z.to_nat (Qfloor (1 / w))) || ok (Z.to_nat (Qfloor (1 / w) + 1)) else ok (fst (geom_of (nb_target c) bmin bmax)).

Record wlst := {
  cur : list aa;        (* current sequence *)
  idx_old : nat;        (* its bin *)
  gv : list Q;          (* g = log density of states *)
  hv : list Z;          (* histogram of the current iteration *)
  kexp : nat;           (* f = exp(2^-kexp) *)
  nstep : nat;
  niter : nat;
  gbase : list Q;       (* ghost: g at the start of the current iteration *)
  counted : Z }.        (* ghost: counted steps since the histogram was last reset *)

Definition lnf (k : nat) : Q := 1 # Pos.of_nat (2 ^ k).

Fixpoint upd {X} (l : list X) (i : nat) (f : X -> X) : list X :=
  match l, i with
  | [], _ => []
  | x :: l', O => f x :: l'
  | x :: l', S i' => x :: upd l' i' f
  end.

Definition sumZ (l : list Z) : Z := fold_right Z.add 0%Z l.
Definition hlocal (c : wlcfg) (h : list Z) : list Z := firstn (nb_target c) (skipn (rmin c) h).

(* every relevant bin holds at least crit x the mean count (0/0 compares false, as NaN does) *)
Definition flatness_number (c : wlcfg) (h : list Z) : nat :=
  let hl := hlocal c h in
  let tot := sumZ hl in
  if (tot =? 0)%Z then 0%nat
  else List.length (filter (fun x => Qle_bool (crit c * inject_Z tot) (inject_Z x * inject_Z (Z.of_nat (nb_target c)))) hl).
Definition is_flat (c : wlcfg) (h : list Z) : bool := Nat.eqb (flatness_number c h) (nb_target c).

Record event := {
  e_prop : list aa;     (* proposed sequence *)
  e_idx : nat;          (* bin the run assigned to the proposal's kappa *)
  e_skip : bool;
  e_ap : Q;             (* acceptance probability the run computed *)
  e_u : Q;              (* the uniform random number it drew *)
  e_acc : bool }.

(* |c_i - k| minimal among the centres, up to the rounding tolerance *)
Definition nearest_ok (c : wlcfg) (i : nat) (k : Q) : bool :=
  (i <? nb_actual c)%nat &&
  forallb (fun j => Qle_bool (Qabs (centre c i - k)) (Qabs (centre c j - k) + tol)) (seq 0 (nb_actual c)).

(* the model kappa values the implementation may have seen (clamp boundary ambiguity) *)
Definition kappa_candidates (l : list Z) : list Q :=
  let dm := m_dmax l in
  if Qeq_bool dm 0 then [(-1)%Q]
  else let r := Qred (m_delta l / dm)%Q in
       if near r 1 || near r (11 # 10) then [r; 1%Q] else [m_kappa l].

Definition side_ok (c : wlcfg) (s : wlst) (e : event) : bool :=
  same_multiset (e_prop e) (cur s) &&
  existsb (nearest_ok c (e_idx e)) (kappa_candidates (pat (e_prop e))) &&
  Bool.eqb (e_skip e) (negb (in_range c (e_idx e))) &&
  (if e_skip e then negb (e_acc e) && Qeq_bool (e_ap e) 0
   else let d := (nth (idx_old s) (gv s) 0 - nth (e_idx e) (gv s) 0)%Q in
        if Qle_bool 0 d then Qeq_bool (e_ap e) 1 && e_acc e
        else negb (Qle_bool (e_ap e) 0) && negb (Qle_bool 1 (e_ap e)) &&
             Bool.eqb (e_acc e) (negb (Qle_bool (e_ap e) (e_u e)))).

Definition zeros (n : nat) : list Z := repeat 0%Z n.

Definition wl_step (c : wlcfg) (s : wlst) (e : event) : wlst :=
  let cur' := if e_acc e then e_prop e else cur s in
  let idx' := if e_acc e then e_idx e else idx_old s in
  let g' := if e_skip e then gv s else upd (gv s) idx' (fun x => Qred (x + lnf (kexp s))%Q) in
  let h' := if e_skip e then hv s else upd (hv s) idx' (fun x => (x + 1)%Z) in
  let cnt' := if e_skip e then counted s else (counted s + 1)%Z in
  let n' := S (nstep s) in
  if (n' mod nflat c =? 0)%nat then
    if is_flat c h' then
      {| cur := cur'; idx_old := idx'; gv := g'; hv := zeros (nb_actual c); kexp := S (kexp s); nstep := 0;
         niter := S (niter s); gbase := g'; counted := 0 |}
    else
      {| cur := cur'; idx_old := idx'; gv := g'; hv := h'; kexp := kexp s; nstep := 0; niter := niter s;
         gbase := gbase s; counted := cnt' |}
  else
    {| cur := cur'; idx_old := idx'; gv := g'; hv := h'; kexp := kexp s; nstep := n'; niter := niter s;
       gbase := gbase s; counted := cnt' |}.

Definition wl_init (c : wlcfg) (start : list aa) (idx0 : nat) : wlst :=
  {| cur := start; idx_old := idx0; gv := repeat 0%Q (nb_actual c); hv := zeros (nb_actual c); kexp := 0; nstep := 0;
     niter := 0; gbase := repeat 0%Q (nb_actual c); counted := 0 |}.

(* ---- correspondence: replay of a recorded run ---- *)
(* per step the hook reports: idx_old after the step, g[idx_old], H[idx_old]; per flat check: Hlocal,
   the flatness number, niter and the whole g vector *)
Inductive rec :=
  RStep (e : event) (idx_after : nat) (g_after : Q) (h_after : Z)
| RFlat (hl : list Z) (fnum : nat) (niter_after : nat) (g_all : list Q).

Fixpoint zs_eq (a b : list Z) : bool :=
  match a, b with [], [] => true | x :: a', y :: b' => Z.eqb x y && zs_eq a' b' | _, _ => false end.
Fixpoint closeQs (xs qs : list Q) : bool :=
  match xs, qs with [] , [] => true | x :: xs', q :: qs' => close x q && closeQs xs' qs' | _, _ => false end.

(* pending: the pre-flat-check histogram is needed to check an RFlat record, so the replay keeps the
   state before the check as well *)
Fixpoint replay (c : wlcfg) (s : wlst) (hprev : list Z) (rs : list rec) : bool :=
  match rs with
  | [] => true
  | RStep e ia ga ha :: rs' =>
      side_ok c s e &&
      let idx' := if e_acc e then e_idx e else idx_old s in
      let h' := if e_skip e then hv s else upd (hv s) idx' (fun x => (x + 1)%Z) in
      let s' := wl_step c s e in
      Nat.eqb ia (idx_old s') && close ga (nth ia (gv s') 0) && Z.eqb ha (nth ia h' 0%Z) &&
      replay c s' h' rs'
  | RFlat hl fn ni gall :: rs' =>
      zs_eq hl (hlocal c hprev) && Nat.eqb fn (flatness_number c hprev) && Nat.eqb ni (niter s) &&
      closeQs gall (gv s) && Nat.eqb (nstep s) 0 && replay c s hprev rs'
  end.

(* (config, requested range, input sequence, start sequence = its delta-max permutant, start bin, records,
    returned array = (centres, g)) *)
Definition check_c18 (x : wlcfg * (Q * Q) * string * string * nat * list rec * (list Q * list Q)) : bool :=
  let '(c, (bmin, bmax), input, start, idx0, rs, (cts, gfinal)) := x in
  geom_ok c bmin bmax &&
  same_multiset (sq start) (sq input) &&
  existsb (nearest_ok c idx0) (kappa_candidates (pat (sq start))) &&
  closeQs cts (centres c) &&
  let fix final (s : wlst) (rs : list rec) : wlst :=
    match rs with
    | [] => s
    | RStep e _ _ _ :: rs' => final (wl_step c s e) rs'
    | RFlat _ _ _ _ :: rs' => final s rs'
    end in
  replay c (wl_init c (sq start) idx0) (zeros (nb_actual c)) rs &&
  closeQs gfinal (gv (final (wl_init c (sq start) idx0) rs)).
