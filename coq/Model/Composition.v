(* Model/Composition.v — composition parameters (C04): every quantity is a per-residue table
   summed over the sequence and divided by the length. *)
From Coq Require Import QArith Qabs ZArith List Bool String.
From LC Require Import Core.Residue Core.Lists Core.QTools Spec.Delta Spec.Tables Model.DeltaCheck.
Import ListNotations.
Local Open Scope Q_scope.

Definition lenQ (s : list aa) : Q := inject_Z (Z.of_nat (List.length s)).
Definition meanT (t : aa -> Q) (s : list aa) : Q := sumQ (map t s) / lenQ s.
Definition ind (b : bool) : Q := if b then 1 else 0.

Definition countPos (s : list aa) : Z := npos (pat s).
Definition countNeg (s : list aa) : Z := nneg (pat s).
Definition countNeut (s : list aa) : Z := nneut (pat s).
Definition fpos (s : list aa) : Q := meanT (fun a => ind (isposb (chg a))) s.
Definition fneg (s : list aa) : Q := meanT (fun a => ind (isnegb (chg a))) s.
Definition FCR (s : list aa) : Q := meanT (fun a => ind (isposb (chg a) || isnegb (chg a))) s.
Definition NCPR (s : list aa) : Q := meanT (fun a => inject_Z (chg a)) s.
Definition mean_net_charge (s : list aa) : Q := Qabs (NCPR s).
Definition FER (s : list aa) : Q := meanT (fun a => ind (mem_aa a expanding)) s.
Definition fdisorder (s : list aa) : Q := meanT (fun a => ind (mem_aa a disorder_promoting)) s.
Definition aafrac (r : aa) (s : list aa) : Q := meanT (fun a => ind (aa_eqb a r)) s.
Definition meanKD (s : list aa) : Q := meanT kd_shifted s.
Definition uversky (s : list aa) : Q := meanT kd_uversky s.
Definition meanWW (s : list aa) : Q := meanT ww s.
Definition PPII (t : aa -> Q) (s : list aa) : Q := meanT t s.
Definition molw (s : list aa) : Q := sumQ (map mw s) - water * (lenQ s - 1).

(* one correspondence case: the sequence with every getter's value *)
Record comp_obs := {
  o_cpos : Z; o_cneg : Z; o_cneut : Z; o_fpos : Q; o_fneg : Q; o_fcr : Q; o_ncpr : Q; o_mnc : Q; o_fer : Q;
  o_dis : Q; o_fracs : list (string * Q); o_kd : Q; o_uv : Q; o_ww : Q; o_hil : Q; o_cre : Q; o_kal : Q; o_mw : Q }.

Definition fracs_ok (s : list aa) (l : list (string * Q)) : bool :=
  Nat.eqb (List.length l) 20 &&
  forallb (fun r => match assoc (aa_str r) l with Some x => close x (aafrac r s) | None => false end) all20.

Definition check_c04 (c : string * comp_obs) : bool :=
  let '(str, o) := c in
  let s := sq str in
  Z.eqb (o_cpos o) (countPos s) && Z.eqb (o_cneg o) (countNeg s) && Z.eqb (o_cneut o) (countNeut s) &&
  close (o_fpos o) (fpos s) && close (o_fneg o) (fneg s) && close (o_fcr o) (FCR s) && close (o_ncpr o) (NCPR s) &&
  close (o_mnc o) (mean_net_charge s) && close (o_fer o) (FER s) && close (o_dis o) (fdisorder s) &&
  fracs_ok s (o_fracs o) &&
  close (o_kd o) (meanKD s) && close (o_uv o) (uversky s) && close (o_ww o) (meanWW s) &&
  close (o_hil o) (PPII ppii_hilser s) && close (o_cre o) (PPII ppii_creamer s) && close (o_kal o) (PPII ppii_kallenbach s) &&
  close (o_mw o) (molw s).
