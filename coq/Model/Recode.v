(* Model/Recode.v — Omega, Omega sequence and kappa_X (Sequence.Omega / Omega_seq / kappa_X /
   __parse_group): recode the sequence to a two- or three-letter charge pattern, then kappa. *)
From Coq Require Import QArith ZArith List Bool Ascii String.
From LC Require Import Core.Residue Core.Lists Core.QTools Spec.Delta Model.Delta.
Import ListNotations.
Local Open Scope Z_scope.

(* the code writes 'E' for group 1, 'K' for group 2 / the rest, 'G' for neither *)
Definition recode1 (g : list aa) (s : list aa) : list Z :=
  map (fun r => if mem_aa r g then -1 else 1) s.
Definition recode2 (g1 g2 : list aa) (s : list aa) : list Z :=
  map (fun r => if mem_aa r g1 then -1 else if mem_aa r g2 then 1 else 0) s.

Definition omega_group : list aa := [Pro; Glu; Asp; Lys; Arg].

Definition Omega (s : list aa) : Q := kappa (recode1 omega_group s).
Definition m_Omega (s : list aa) : Q := m_kappa (recode1 omega_group s).

(* Omega_seq: X at the P/E/D/K/R positions, O elsewhere (true = X) *)
Definition Omega_seq (s : list aa) : list bool := map (fun r => mem_aa r omega_group) s.

(* an empty second group behaves as an absent one (`if grp2:`) *)
Definition kappaX (g1 : list aa) (g2 : option (list aa)) (s : list aa) : Q :=
  match g2 with
  | Some (x :: g) => kappa (recode2 g1 (x :: g) s)
  | _ => kappa (recode1 g1 s)
  end.
Definition m_kappaX (g1 : list aa) (g2 : option (list aa)) (s : list aa) : Q :=
  match g2 with
  | Some (x :: g) => m_kappa (recode2 g1 (x :: g) s)
  | _ => m_kappa (recode1 g1 s)
  end.

(* __parse_group: every member, upper-cased, must be one of the 20 one-letter codes *)
Definition upper_ascii (c : ascii) : ascii :=
  let n := nat_of_ascii c in
  if (Nat.leb 97 n && Nat.leb n 122)%bool then ascii_of_nat (n - 32) else c.
Definition lower_ascii (c : ascii) : ascii :=
  let n := nat_of_ascii c in
  if (Nat.leb 65 n && Nat.leb n 90)%bool then ascii_of_nat (n + 32) else c.

Definition parse_member (x : string) : option aa :=
  match x with
  | String c EmptyString => aa_of_char (upper_ascii c)
  | _ => None
  end.

Fixpoint parse_group (l : list string) : option (list aa) :=
  match l with
  | [] => Some []
  | x :: l' => match parse_member x, parse_group l' with
               | Some a, Some g => Some (a :: g)
               | _, _ => None
               end
  end.

(* the public call: groups as lists of strings; None = rejected with an exception *)
Definition kappaX_api (g1 : list string) (g2 : option (list string)) (s : list aa) : option Q :=
  match parse_group g1 with
  | None => None
  | Some a =>
      match g2 with
      | Some (x :: g) => match parse_group (x :: g) with
                         | None => None
                         | Some b => Some (m_kappaX a (Some b) s)
                         end
      | _ => Some (m_kappaX a None s)
      end
  end.

Definition complement (g : list aa) : list aa := filter (fun r => negb (mem_aa r g)) all20.
