(* Model/Normalise.v — SequenceParameters(sequence=...) / Sequence.__init__(validateSeq=True) /
   validateSequence: strings are normalised or rejected (C13).  Characters are code points (N);
   Python's str.upper and str.isspace are parameters (Section variables), with an ASCII instance
   and a table-driven instance used by the correspondence. *)
From Coq Require Import NArith List Bool String Ascii.
From LC Require Import Core.Residue.
Import ListNotations.
Local Open Scope N_scope.

Definition code (a : aa) : N := N_of_ascii (aa_char a).
Definition aa_of_code (c : N) : option aa := find (fun a => N.eqb (code a) c) all20.

Section Norm.
  Variable upper : N -> list N.      (* str.upper() of one character (may be several, e.g. ß -> SS) *)
  Variable isspace : N -> bool.      (* str.isspace() *)

  (* validateSequence on the upper-cased text: keep residues, drop whitespace, reject anything else *)
  Fixpoint validate (cs : list N) : option (list aa) :=
    match cs with
    | [] => Some []
    | c :: cs' =>
        match aa_of_code c with
        | Some a => match validate cs' with Some w => Some (a :: w) | None => None end
        | None => if isspace c then validate cs' else None
        end
    end.

  (* None = an exception is raised and no object is produced *)
  Definition normalise (s : list N) : option (list aa) :=
    match s with
    | [] => None                                  (* "Empty sequence/sequence file" *)
    | _ => match validate (flat_map upper s) with
           | Some [] => None                      (* proline-content division by zero *)
           | r => r
           end
    end.
End Norm.

(* ASCII instance *)
Definition upper_ascii_N (c : N) : list N := [if (97 <=? c) && (c <=? 122) then c - 32 else c].
Definition isspace_ascii_N (c : N) : bool :=
  ((9 <=? c) && (c <=? 13)) || ((28 <=? c) && (c <=? 32)).

(* table-driven instance: Python's own answers for the characters that occur *)
Fixpoint assocN {B} (k : N) (l : list (N * B)) : option B :=
  match l with [] => None | (k', v) :: l' => if N.eqb k k' then Some v else assocN k l' end.
Definition upper_tbl (t : list (N * list N)) (c : N) : list N :=
  match assocN c t with Some u => u | None => upper_ascii_N c end.
Definition isspace_tbl (t : list (N * bool)) (c : N) : bool :=
  match assocN c t with Some b => b | None => isspace_ascii_N c end.

Fixpoint laa_eqbN (a b : list aa) : bool :=
  match a, b with
  | [], [] => true
  | x :: a', y :: b' => aa_eqb x y && laa_eqbN a' b'
  | _, _ => false
  end.

(* (code points, upper table, isspace table, result: None = rejected,
    Some (get_sequence as codes, get_length, len(), SeqObj.len)) *)
Definition check_c13 (c : list N * list (N * list N) * list (N * bool) * option (list N * N * N * N)) : bool :=
  let '(s, ut, st, r) := c in
  match normalise (upper_tbl ut) (isspace_tbl st) s, r with
  | None, None => true
  | Some w, Some (cs, l1, l2, l3) =>
      let n := N.of_nat (List.length w) in
      match validate (fun _ => false) cs with
      | Some w' => laa_eqbN w w'
      | None => false
      end && N.eqb l1 n && N.eqb l2 n && N.eqb l3 n
  | _, _ => false
  end.
