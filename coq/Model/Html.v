(* Model/Html.v — get_HTMLColorString and set_HTMLColorResiduePalette (C20). *)
From Coq Require Import List Bool String Ascii Arith.
From LC Require Import Core.Residue Model.DeltaCheck.
Import ListNotations.
Local Open Scope string_scope.

Definition colours17 : list string :=
  ["aqua"; "black"; "blue"; "fuchsia"; "gray"; "green"; "lime"; "maroon"; "navy"; "olive"; "orange"; "purple";
   "red"; "silver"; "teal"; "white"; "yellow"].

Definition palette := aa -> string.

Definition default_palette : palette := fun a =>
  match a with
  | Ala | Cys | Ile | Leu | Met | Val => "black"
  | Asp | Glu => "red"
  | Phe | Trp | Tyr => "orange"
  | Gly | His | Asn | Gln | Ser | Thr => "green"
  | Lys | Arg => "blue"
  | Pro => "fuchsia"
  end.

Definition in_strs (x : string) (l : list string) : bool := existsb (String.eqb x) l.

(* a user dictionary: association list from keys to colour names (first binding of a key counts;
   the harness passes Python dict items, whose keys are unique) *)
Fixpoint lookup_rs (d : list (string * string)) (rs : list aa) : option (list (aa * string)) :=
  match rs with
  | [] => Some []
  | r :: rs' => match assoc (aa_str r) d with
                | Some c => if in_strs c colours17
                            then match lookup_rs d rs' with Some t => Some ((r, c) :: t) | None => None end
                            else None
                | None => None
                end
  end.
Definition lookup_all (d : list (string * string)) : option (list (aa * string)) := lookup_rs d all20.

Definition pal_of (t : list (aa * string)) (old : palette) : palette :=
  fun a => match find (fun p => aa_eqb (fst p) a) t with Some p => snd p | None => old a end.

(* None = rejected; the palette is then left as it was *)
Definition set_palette (pal : palette) (d : list (string * string)) : option palette :=
  match lookup_all d with Some t => Some (pal_of t pal) | None => None end.

Definition pal_step (pal : palette) (d : list (string * string)) : palette :=
  match set_palette pal d with Some p => p | None => pal end.

(* rendering *)
Definition header : string := "<p style=""font-family:Courier;"">".
Definition footer : string := "</p>".
Definition span (c : string) (r : aa) : string :=
  "<span style=""color:" ++ c ++ """>" ++ aa_str r ++ "</span>".

Definition piece (pal : palette) (i : nat) (r : aa) : string :=
  (if (i mod 10 =? 0)%nat then " " else "") ++ (if (i mod 50 =? 0)%nat then "<br>" else "") ++ span (pal r) r.

Fixpoint pieces (pal : palette) (i : nat) (s : list aa) : string :=
  match s with [] => "" | r :: s' => piece pal i r ++ pieces pal (S i) s' end.

Definition render (pal : palette) (s : list aa) : string := header ++ pieces pal 0 s ++ footer.

(* code-shaped: the accumulating loop with count starting at -1 *)
Definition m_render (pal : palette) (s : list aa) : string :=
  fst (fold_left (fun (acc : string * nat) r =>
                    let '(str, count) := acc in
                    let str1 := if (count mod 10 =? 0)%nat then str ++ " " else str in
                    let str2 := if (count mod 50 =? 0)%nat then str1 ++ "<br>" else str1 in
                    (str2 ++ span (pal r) r, S count)) s (header, 0%nat)) ++ footer.

(* dropping the markup: everything between < and >, and blanks *)
Fixpoint strip (intag : bool) (cs : list ascii) : list ascii :=
  match cs with
  | [] => []
  | c :: r =>
      if intag then (if Ascii.eqb c ">" then strip false r else strip true r)
      else if Ascii.eqb c "<" then strip true r
      else if Ascii.eqb c " " then strip false r
      else c :: strip false r
  end.

Definition strip_markup (s : string) : list ascii := strip false (list_ascii_of_string s).

(* ---- correspondence: a history of palette updates, each followed by a rendering ---- *)
Fixpoint hist_ok (pal : palette) (s : list aa) (h : list (list (string * string) * bool * string)) : bool :=
  match h with
  | [] => true
  | (d, accepted, html) :: h' =>
      let r := set_palette pal d in
      let pal' := match r with Some p => p | None => pal end in
      Bool.eqb accepted (match r with Some _ => true | None => false end) &&
      String.eqb html (m_render pal' s) && hist_ok pal' s h'
  end.

(* (sequence, rendering with the default palette, history) *)
Definition check_c20 (c : string * string * list (list (string * string) * bool * string)) : bool :=
  let '(str, html0, h) := c in
  let s := sq str in
  String.eqb html0 (m_render default_palette s) && hist_ok default_palette s h.
