(* Model/SCD.v — sequence charge decoration (Sawle & Ghosh): the exact integer data
   c_d = sum_{m-n=d} q_m q_n, and a rational enclosure of (1/N) sum_d c_d sqrt d. *)
From Coq Require Import QArith Qabs Qreduction ZArith List Bool.
From LC Require Import Core.Residue Core.Lists Core.QTools Spec.Delta.
Import ListNotations.
Local Open Scope Z_scope.

Fixpoint dot (a b : list Z) : Z :=
  match a, b with
  | x :: a', y :: b' => x * y + dot a' b'
  | _, _ => 0
  end.

(* c_d: pairs of residues d apart *)
Definition coeff (l : list Z) (d : nat) : Z := dot l (skipn d l).
Definition scd_coeffs (l : list Z) : list Z := map (coeff l) (seq 1 (length l - 1)).

(* code-shaped accumulation: for m in 2..N, for n in 1..m-1: total += q[m-1]*q[n-1]*(m-n)**0.5;
   here the contribution of each (m, n) is added to the coefficient of distance m-n *)
Definition add_at (d : nat) (v : Z) (cs : list Z) : list Z :=
  firstn d cs ++ match skipn d cs with [] => [] | c :: r => (c + v) :: r end.
Definition m_scd_coeffs (l : list Z) : list Z :=
  let N := length l in
  fold_left (fun cs m =>
     fold_left (fun cs n => add_at (m - n - 1) (nth (m - 1) l 0 * nth (n - 1) l 0) cs)
               (seq 1 (m - 1)) cs)
    (seq 2 (N - 1)) (repeat 0 (N - 1)).

(* rational enclosure of sqrt d to 12 decimal places *)
Definition sq_scale : Z := 1000000000000.
Definition sqrt_lo (d : Z) : Q := Z.sqrt (d * sq_scale * sq_scale) # Z.to_pos sq_scale.
Definition sqrt_hi (d : Z) : Q := (Z.sqrt (d * sq_scale * sq_scale) + 1) # Z.to_pos sq_scale.

Fixpoint enc (cs : list Z) (d : Z) : Q * Q :=
  match cs with
  | [] => (0, 0)%Q
  | c :: cs' =>
      let '(lo, hi) := enc cs' (d + 1) in
      if 0 <=? c then (Qred (inject_Z c * sqrt_lo d + lo), Qred (inject_Z c * sqrt_hi d + hi))%Q
      else (Qred (inject_Z c * sqrt_hi d + lo), Qred (inject_Z c * sqrt_lo d + hi))%Q
  end.

(* lower and upper bound of SCD; (0,0) for the empty sequence *)
Definition scd_bounds (l : list Z) : Q * Q :=
  let '(lo, hi) := enc (scd_coeffs l) 1 in
  let N := inject_Z (Z.of_nat (length l)) in
  (lo / N, hi / N)%Q.

Definition check_scd (l : list Z) (x : Q) : bool :=
  let '(lo, hi) := scd_bounds l in
  let slack := (tol * Qmaxb 1 (Qabs x))%Q in
  Qle_bool (lo - slack) x && Qle_bool x (hi + slack).
