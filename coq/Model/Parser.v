(* Model/Parser.v — SequenceFileParser.parseSeqFile / __validSeq / __final_validation (C14),
   over ASCII text.  None = SequenceFileParserException. *)
From Coq Require Import List Bool String Ascii Arith.
From LC Require Import Core.Residue.
Import ListNotations.

Definition nl : ascii := "010"%char.
Definition cr : ascii := "013"%char.

(* text-mode reading: \r\n and \r are translated to \n *)
Fixpoint unl (prev_cr : bool) (cs : list ascii) : list ascii :=
  match cs with
  | [] => []
  | c :: r =>
      if Ascii.eqb c cr then nl :: unl true r
      else if Ascii.eqb c nl then (if prev_cr then unl false r else nl :: unl false r)
      else c :: unl false r
  end.

(* readlines: split after every \n (the terminators themselves are stripped later anyway) *)
Fixpoint split_nl (cs : list ascii) : list (list ascii) :=
  match cs with
  | [] => [[]]
  | c :: r =>
      if Ascii.eqb c nl then [] :: split_nl r
      else match split_nl r with
           | l :: ls => (c :: l) :: ls
           | [] => [[c]]
           end
  end.

(* str.strip(): ASCII whitespace is \t \n \v \f \r, \x1c-\x1f and the blank *)
Definition is_ws (c : ascii) : bool :=
  let n := nat_of_ascii c in ((9 <=? n) && (n <=? 13) || (28 <=? n) && (n <=? 32))%nat.

Fixpoint dropws (cs : list ascii) : list ascii :=
  match cs with
  | [] => []
  | c :: r => if is_ws c then dropws r else cs
  end.

Definition strip (cs : list ascii) : list ascii := rev (dropws (rev (dropws cs))).

Definition is_digit (c : ascii) : bool := let n := nat_of_ascii c in ((48 <=? n) && (n <=? 57))%nat.

(* __validSeq: residues kept, blanks and digits skipped, '*' kept for the final check (None below) *)
Fixpoint valid_seq (cs : list ascii) : option (list (option aa)) :=
  match cs with
  | [] => Some []
  | c :: r =>
      match aa_of_char c with
      | Some a => match valid_seq r with Some t => Some (Some a :: t) | None => None end
      | None =>
          if Ascii.eqb c " " then valid_seq r
          else if Ascii.eqb c "*" then match valid_seq r with Some t => Some (None :: t) | None => None end
          else if is_digit c then valid_seq r
          else None
      end
  end.

(* the line loop: header flag and the growing sequence *)
Fixpoint parse_lines (ls : list (list ascii)) (header : bool) (acc : list (option aa)) : option (list (option aa)) :=
  match ls with
  | [] => Some acc
  | l :: ls' =>
      match strip l with
      | [] => parse_lines ls' header acc
      | (c :: _) as sl =>
          if Ascii.eqb c ">" then (if header then None else parse_lines ls' true acc)
          else match valid_seq sl with
               | Some t => parse_lines ls' header (acc ++ t)
               | None => None
               end
      end
  end.

Definition is_star (x : option aa) : bool := match x with None => true | Some _ => false end.

Fixpoint unsome (l : list (option aa)) : list aa :=
  match l with [] => [] | Some a :: r => a :: unsome r | None :: r => unsome r end.

(* __final_validation *)
Definition final_validation (acc : list (option aa)) : option (list aa) :=
  let n := List.length (filter is_star acc) in
  if (n =? 0)%nat then Some (unsome acc)
  else if (1 <? n)%nat then None
  else match rev acc with
       | None :: r => Some (unsome (rev r))
       | _ => None
       end.

Definition parse (text : list ascii) : option (list aa) :=
  match parse_lines (split_nl (unl false text)) false [] with
  | Some acc => final_validation acc
  | None => None
  end.

(* correspondence: (file content as a string, parseSeqFile result as residue string or None) *)
Fixpoint laa_eqbP (a b : list aa) : bool :=
  match a, b with
  | [], [] => true
  | x :: a', y :: b' => aa_eqb x y && laa_eqbP a' b'
  | _, _ => false
  end.

Definition check_c14 (c : list nat * option string) : bool :=
  let '(bytes, r) := c in
  match parse (map ascii_of_nat bytes), r with
  | None, None => true
  | Some w, Some s => match parse_seq s with Some w' => laa_eqbP w w' | None => false end
  | _, _ => false
  end.
