(* Model/PlotCheck.v — executable counterparts of the polygon predicates and the forwarding-table
   predicate (C19). *)
From Coq Require Import QArith ZArith List Bool String.
From LC Require Import Core.Residue Core.QTools Spec.Region Spec.Polygons Model.Region.
Import ListNotations.
Local Open Scope string_scope.

Definition inside_b (l : list pt) (p : pt) : bool :=
  forallb (fun e => Qle_bool (cross (fst e) (snd e) p) 0) (edges l).
(* with the float-rounding slack used for drawn (binary64) coordinates *)
Definition inside_tol_b (l : list pt) (p : pt) : bool :=
  forallb (fun e => Qle_bool (cross (fst e) (snd e) p) tol) (edges l).

Definition pt_eqb (a b : pt) : bool := close (fst a) (fst b) && close (snd a) (snd b).
Fixpoint pts_eqb (a b : list pt) : bool :=
  match a, b with
  | [], [] => true
  | x :: a', y :: b' => pt_eqb x y && pts_eqb a' b'
  | _, _ => false
  end.

(* one figure of the diagram of states: marker offsets, region reported by get_phasePlotRegion, the
   five drawn patches (vertex lists as handed to matplotlib, closing vertex dropped) *)
Definition check_c19 (c : Z * Z * Z * Q * Q * Z * list (list pt)) : bool :=
  let '(p, n, N, fp, fn, r, patches) := c in
  Z.eqb r (Spec.Region.regionZ p n N) &&
  close fp (p # Z.to_pos N) && close fn (n # Z.to_pos N) &&
  Nat.eqb (List.length patches) 5 &&
  forallb (fun k => pts_eqb (nth (Z.to_nat (k - 1)) patches []) (poly k)) [1; 2; 3; 4; 5]%Z &&
  inside_tol_b (nth (Z.to_nat (r - 1)) patches []) (fp, fn).

(* ---- forwarding table ---- *)
Definition binding_ok (b : string * string) : bool :=
  let '(p, e) := b in
  String.eqb p e ||
  existsb (fun s => String.eqb p (fst s) && String.eqb e (snd s))
    [("fp", "self.get_fraction_positive()"); ("fn", "self.get_fraction_negative()");
     ("hydropathy", "self.get_uversky_hydropathy()"); ("mean_net_charge", "self.get_mean_net_charge()");
     ("label", "label_list"); ("seqlen", "len(self.SeqObj.seq)"); ("complexityVector", "linear_complexity_vector");
     ("SeqObj", "self.SeqObj"); ("build_fun", "plotting.build_NCPR_plot"); ("build_fun", "plotting.build_FCR_plot");
     ("build_fun", "plotting.build_sigma_plot"); ("build_fun", "plotting.build_hydropathy_plot");
     ("residue_number", "residues"); ("density_vectors", "density"); ("legend_color", "colors"); ("legend_names", "names")].

Definition has_param (bs : list (string * string)) (p : string) : bool := existsb (fun b => String.eqb (fst b) p) bs.

Definition starts_with (pre s : string) : bool := String.eqb (substring 0 (String.length pre) s) pre.

(* what the property needs of each entry point: coordinates, label(s), title, axis limits are handed on,
   and show_ entry points hand on getFig *)
Definition required (callee : string) : list string :=
  let common := ["label"; "title"; "xLim"; "yLim"] in
  let coords :=
    if String.eqb callee "show_single_phasePlot" || String.eqb callee "save_single_phasePlot" then ["fp"; "fn"]
    else if String.eqb callee "show_multiple_phasePlot" || String.eqb callee "save_multiple_phasePlot" then ["fp_list"; "fn_list"]
    else if String.eqb callee "show_single_uverskyPlot" || String.eqb callee "save_single_uverskyPlot" then ["hydropathy"; "mean_net_charge"]
    else if String.eqb callee "show_multiple_uverskyPlot" || String.eqb callee "save_multiple_uverskyPlot" then ["hydropathy_list"; "mean_net_charge_list"]
    else [] in
  match coords with
  | [] => if starts_with "show_" callee then ["getFig"] else ["filename"]
  | _ => coords ++ common ++ (if starts_with "show_" callee then ["getFig"] else ["filename"])
  end.

Definition row_ok (r : string * string * list (string * string)) : bool :=
  let '(entry, callee, bs) := r in
  forallb binding_ok bs && forallb (has_param bs) (required callee).
