(* Model/Windows.v — sliding-window profiles (Sequence.linearDistOf*, linearDenistyOfAAs,
   linearCompositions): one value per full window, placed at the window's centre position,
   zero-padded to the sequence length (C10). *)
From Coq Require Import QArith Qabs ZArith List Bool String Arith.
From LC Require Import Core.Residue Core.Lists Core.QTools Spec.Delta Spec.Tables Model.DeltaCheck
     Model.Recode Model.Composition.
Import ListNotations.

(* the code's flank computation: flank = int(w/2); nblobs = N - w + 1;
   if 2*flank + nblobs == N then (flank, flank) else (flank - 1, flank) *)
Definition flanks (w N : nat) : nat * nat :=
  let f := (w / 2)%nat in
  let nb := (N + 1 - w)%nat in
  if (2 * f + nb =? N)%nat then (f, f) else ((f - 1)%nat, f).

(* None = rejected (window longer than the sequence; w = 0 divides by zero) *)
Definition profile {A} (stat : list A -> Q) (w : nat) (l : list A) : option (list Q) :=
  if ((List.length l <? w) || (w =? 0))%nat then None
  else let '(fs, fe) := flanks w (List.length l) in
       Some (repeat 0%Q fs ++ map stat (blobs w l) ++ repeat 0%Q fe).

Definition wQ (w : nat) : Q := inject_Z (Z.of_nat w).

Definition ncpr_w (w : nat) (b : list Z) : Q := (inject_Z (npos b - nneg b) / wQ w)%Q.
Definition fcr_w (w : nat) (b : list Z) : Q := (inject_Z (npos b + nneg b) / wQ w)%Q.
Definition sigma_w (w : nat) (b : list Z) : Q := sigma_c (npos b) (nneg b) (Z.of_nat w).
Definition hydro_w (w : nat) (b : list aa) : Q := (sumQ (map kd_uversky b) / wQ w)%Q.
Definition density_w (g : list aa) (w : nat) (b : list aa) : Q :=
  (sumQ (map (fun a => ind (mem_aa a g)) b) / wQ w)%Q.

Definition lin_NCPR (w : nat) (s : list aa) := profile (ncpr_w w) w (pat s).
Definition lin_FCR (w : nat) (s : list aa) := profile (fcr_w w) w (pat s).
Definition lin_sigma (w : nat) (s : list aa) := profile (sigma_w w) w (pat s).
Definition lin_hydro (w : nat) (s : list aa) := profile (hydro_w w) w s.

Definition default_groups : list (list aa) :=
  [[Glu; Asp]; [Arg; Lys]; [Arg; Lys; Glu; Asp]; [Gln; Asn; Ser; Thr; Gly; His; Cys];
   [Ala; Leu; Met; Ile; Val]; [Phe; Tyr; Trp]; [Pro]].

Fixpoint all_some {A} (l : list (option A)) : option (list A) :=
  match l with
  | [] => Some []
  | Some x :: l' => match all_some l' with Some r => Some (x :: r) | None => None end
  | None :: _ => None
  end.

(* groups given as lists of strings (parsed like kappa_X groups); [] means the default groups *)
Definition lin_comp (w : nat) (grps : list (list string)) (s : list aa) : option (list (list Q)) :=
  match grps with
  | [] => all_some (map (fun g => profile (density_w g w) w s) default_groups)
  | _ => match all_some (map parse_group grps) with
         | None => None
         | Some gs => all_some (map (fun g => profile (density_w g w) w s) gs)
         end
  end.

(* ---- correspondence predicates ---- *)
Fixpoint closeL (xs qs : list Q) : bool :=
  match xs, qs with
  | [], [] => true
  | x :: xs', q :: qs' => close x q && closeL xs' qs'
  | _, _ => false
  end.

Definition positions_ok (ps : list Q) (N : nat) : bool :=
  closeL ps (map (fun i => inject_Z (Z.of_nat i)) (seq 1 N)).

Definition row_ok (impl : option (list Q * list Q)) (model : option (list Q)) (N : nat) : bool :=
  match impl, model with
  | None, None => true
  | Some (ps, vs), Some m => positions_ok ps N && closeL vs m
  | _, _ => false
  end.

(* (sequence, window, [NCPR; FCR; sigma; hydropathy] each as (positions, values) or None if rejected) *)
Definition check_c10 (c : string * nat * list (option (list Q * list Q))) : bool :=
  let '(str, w, rows) := c in
  let s := sq str in
  let N := List.length s in
  match rows with
  | [a; b; c'; d] => row_ok a (lin_NCPR w s) N && row_ok b (lin_FCR w s) N &&
                     row_ok c' (lin_sigma w s) N && row_ok d (lin_hydro w s) N
  | _ => false
  end.

Fixpoint rows_ok (vs : list (list Q)) (m : list (list Q)) : bool :=
  match vs, m with
  | [], [] => true
  | v :: vs', q :: m' => closeL v q && rows_ok vs' m'
  | _, _ => false
  end.

(* (sequence, window, groups, (positions, value rows) or None) *)
Definition check_c10c (c : string * nat * list (list string) * option (list Q * list (list Q))) : bool :=
  let '(str, w, grps, r) := c in
  let s := sq str in
  match r, lin_comp w grps s with
  | None, None => true
  | Some (ps, vs), Some m => positions_ok ps (List.length s) && rows_ok vs m
  | _, _ => false
  end.
