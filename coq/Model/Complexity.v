(* Model/Complexity.v — get_linear_complexity: sliding windows over the reduced sequence,
   window positions, Wootton–Federhen counts, linguistic complexity, LZW complexity (C11). *)
From Coq Require Import QArith ZArith List Bool String Arith.
From LC Require Import Core.Residue Core.Lists Core.QTools Model.Alphabets Model.DeltaCheck.
Import ListNotations.

(* number of windows: while step <= N - w *)
Definition nwin (N w s : nat) : nat := if (N <? w)%nat then 0%nat else ((N - w) / s + 1)%nat.
Definition window (w s : nat) (l : list aa) (i : nat) : list aa := firstn w (skipn (i * s) l).
Definition windows (w s : nat) (l : list aa) : list (list aa) :=
  map (window w s l) (seq 0 (nwin (List.length l) w s)).

(* get_indexed_complexity_vector: K positions spread evenly over 1..N *)
Definition positions (N K : Z) : list Z :=
  let spacing := (N / K)%Z in
  let remainder := (N - spacing * K)%Z in
  let flank_start := (if (remainder mod 2 =? 0)%Z then remainder / 2 else (remainder - 1) / 2)%Z in
  let index_start := (flank_start + 1 + spacing / 2)%Z in
  map (fun i => (index_start + Z.of_nat i * spacing)%Z) (seq 0 (Z.to_nat K)).

(* WF: occurrences of every alphabet letter in the window *)
Definition count_aa (x : aa) (win : list aa) : Z := cnt (aa_eqb x) win.
Definition wf_counts (alphabet win : list aa) : list Z := map (fun x => count_aa x win) alphabet.

Fixpoint laa_eqb2 (a b : list aa) : bool :=
  match a, b with
  | [], [] => true
  | x :: a', y :: b' => aa_eqb x y && laa_eqb2 a' b'
  | _, _ => false
  end.

Fixpoint dedup_words (l : list (list aa)) : list (list aa) :=
  match l with
  | [] => []
  | x :: l' => if existsb (laa_eqb2 x) l' then dedup_words l' else x :: dedup_words l'
  end.

(* LC: distinct words of length ws starting at the first w - ws positions of the window, divided by
   min(k^ws, w - 1 + ws).  (the words are read from the sequence, so they may extend past a window
   only if ws > w, in which case there is no start position at all) *)
Definition lc_words (w ws : nat) (win : list aa) : list (list aa) :=
  map (fun i => firstn ws (skipn i win)) (seq 0 (w - ws)).
Definition lc_value (k w ws : nat) (win : list aa) : Q :=
  let v := List.length (dedup_words (lc_words w ws win)) in
  let vmax := Nat.min (k ^ ws) (w - 1 + ws) in
  (Z.of_nat v # Pos.of_nat vmax).

(* LZW as written: w <- c + w when the extended word is known, else the word is recorded and w <- c *)
Definition lzw_step (st : list (list aa) * list aa) (c : aa) : list (list aa) * list aa :=
  let '(dict, wd) := st in
  let cand := wd ++ [c] in
  if existsb (laa_eqb2 cand) dict then (dict, c :: wd) else (cand :: dict, [c]).
Definition lzw_value (w : nat) (win : list aa) : Q :=
  let '(dict, _) := fold_left lzw_step win ([], []) in
  (Z.of_nat (List.length dict) # Pos.of_nat w).

(* the reduction step in front (predefined size or user alphabet), as in C12 *)
Definition reduced (allowed : list Z) (f : Z -> aa -> aa) (alph : Z -> list aa) (k : Z) (ua : ualpha) (s : list aa)
  : option (list aa * list aa) := reduce_api allowed f alph k ua s.

Inductive ctype := CWF | CLC | CLZW | COther.

(* result: None = rejected; Some (positions, per-window data).  For WF the data are the count
   vectors (the entropy itself is a real number, see Proofs/Entropy.v); for LC / LZW the values. *)
Inductive cres := RWF (pos : list Z) (k : nat) (w : nat) (counts : list (list Z)) | RVal (pos : list Z) (vals : list Q).

Definition complexity (allowed : list Z) (f : Z -> aa -> aa) (alph : Z -> list aa)
           (ct : ctype) (k : Z) (ua : ualpha) (w s ws : nat) (l : list aa) : option cres :=
  match ct with
  | COther => None
  | _ =>
      if (List.length l <? w)%nat then None          (* __check_window_to_length *)
      else match reduced allowed f alph k ua l with
           | None => None
           | Some (red, alphabet) =>
               let wins := windows w s red in
               let pos := positions (Z.of_nat (List.length l)) (Z.of_nat (List.length wins)) in
               match ct with
               | CWF => Some (RWF pos (List.length alphabet) w (map (wf_counts alphabet) wins))
               | CLC => Some (RVal pos (map (lc_value (List.length alphabet) w ws) wins))
               | _ => Some (RVal pos (map (lzw_value w) wins))
               end
           end
  end.

(* ---- correspondence ---- *)
Fixpoint lzs_eqb (a b : list Z) : bool :=
  match a, b with
  | [], [] => true
  | x :: a', y :: b' => Z.eqb x y && lzs_eqb a' b'
  | _, _ => false
  end.
Fixpoint llzs_eqb (a b : list (list Z)) : bool :=
  match a, b with
  | [], [] => true
  | x :: a', y :: b' => lzs_eqb x y && llzs_eqb a' b'
  | _, _ => false
  end.
(* count vectors are compared as multisets: the order of the alphabet letters is immaterial to the entropy *)
Fixpoint insZ (x : Z) (l : list Z) : list Z :=
  match l with [] => [x] | y :: l' => if (x <=? y)%Z then x :: l else y :: insZ x l' end.
Definition sortZ (l : list Z) : list Z := fold_right insZ [] l.

Fixpoint closeLq (xs qs : list Q) : bool :=
  match xs, qs with
  | [], [] => true
  | x :: xs', q :: qs' => close x q && closeLq xs' qs'
  | _, _ => false
  end.

(* implementation side: None = rejected; Some (positions, values, count vectors recomputed by the
   harness from the implementation's own reduced sequence — used for WF only) *)
Definition check_c11 (allowed : list Z) (f : Z -> aa -> aa) (alph : Z -> list aa)
  (c : string * ctype * Z * ualpha * nat * nat * nat * option (list Z * list Q * list (list Z))) : bool :=
  let '(str, ct, k, ua, w, s, ws, r) := c in
  match complexity allowed f alph ct k ua w s ws (sq str), r with
  | None, None => true
  | Some (RWF pos _ _ cs), Some (p, _, counts) => lzs_eqb p pos && llzs_eqb (map sortZ counts) (map sortZ cs)
  | Some (RVal pos vs), Some (p, vals, _) => lzs_eqb p pos && closeLq vals vs
  | _, _ => false
  end.
