(* C07 — SCD = (1/N) sum_{m>n} q_m q_n sqrt(m-n).  The exact integer data of the formula are the
   distance coefficients c_d = sum_{m-n=d} q_m q_n (Model.SCD.scd_coeffs); the square roots are
   enclosed by rationals inside Coq when the implementation's value is compared (check_scd). *)
From Coq Require Import Reals QArith Qreals ZArith List.
From LC Require Import Core.Residue Core.Lists Core.QTools Spec.Delta Model.SCD Proofs.SCD Proofs.SCDReal.
Import ListNotations.

Theorem C07_coefficient_form l : SCD_R l = (coefsumR l / INR (length l))%R.
Proof. exact (SCD_coeff_form l). Qed.
Print Assumptions C07_coefficient_form.

Theorem C07_enclosure l : l <> [] ->
  (Q2R (fst (scd_bounds l)) <= SCD_R l <= Q2R (snd (scd_bounds l)))%R.
Proof. exact (scd_bounds_sound l). Qed.
Print Assumptions C07_enclosure.

Theorem C07_few_charges_coeffs l : (cnt nzb l <= 1)%Z -> Forall (fun c => c = 0%Z) (scd_coeffs l).
Proof. exact (scd_few_charges l). Qed.
Print Assumptions C07_few_charges_coeffs.

Theorem C07_few_charges l : (cnt nzb l <= 1)%Z -> SCD_R l = 0%R.
Proof. exact (SCD_few_charges l). Qed.
Print Assumptions C07_few_charges.

Theorem C07_depends_on_pattern_only s t : pat s = pat t -> SCD_R (pat s) = SCD_R (pat t).
Proof. intros H. exact (f_equal SCD_R H). Qed.

Theorem C07_loop_model_agrees_upto_7 :
  forallb (fun k => forallb (fun l => lZ_eqb (m_scd_coeffs l) (scd_coeffs l)) (all_patterns k)) (seq 0 8) = true.
Proof. exact m_scd_coeffs_agree_upto_7. Qed.
