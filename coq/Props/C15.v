(* C15 — read-only queries are history-independent and never change the object. *)
From Coq Require Import QArith ZArith List Bool.
From LC Require Import Core.Residue Model.Phospho Model.Html Model.Obj Proofs.Obj.
Import ListNotations.

Theorem C15_fresh_objects_satisfy_invariant s ph pal : Inv (fresh s ph pal).
Proof. exact (inv_fresh s ph pal). Qed.

Theorem C15_query_keeps_view o q : view (fst (qstep o q)) = view o.
Proof. exact (qstep_view o q). Qed.
Print Assumptions C15_query_keeps_view.

Theorem C15_query_keeps_invariant o q : Inv o -> Inv (fst (qstep o q)).
Proof. exact (qstep_inv o q). Qed.
Print Assumptions C15_query_keeps_invariant.

(* any history qs, then any query q: same answer as on a freshly constructed object; sequence,
   phosphosites and palette unchanged; the delta-max cache is unobservable *)
Theorem C15_history_independent o qs q : Inv o ->
  snd (qstep (run qs o) q) = snd (qstep (fresh_of o) q) /\ view (run qs o) = view o.
Proof. exact (query_history_independent o qs q). Qed.
Print Assumptions C15_history_independent.

Theorem C15_other_objects_do_not_interfere os iq : Forall Inv os ->
  Forall2 (fun o o' => view o' = view o /\ Inv o') os (step_family os iq).
Proof. exact (step_family_pointwise os iq). Qed.
Print Assumptions C15_other_objects_do_not_interfere.

(* the pinned tree violated it (get_kappa() then get_deltaMax(True)): defect D2, repaired in /repo *)
Theorem C15_pinned_cache_was_observable : exists s,
  snd (qstep_pinned (fst (qstep_pinned (fresh s [] default_palette) QKappa)) (QDmax true)) <>
  snd (qstep_pinned (fresh s [] default_palette) (QDmax true)).
Proof. exact history_dependence_refuted. Qed.

Example C15_invariant_nonvacuous :
  let o := run [QKappa; QOmega; QDelta; QHtml; QKappaAfter] (fresh [Glu; Lys; Glu; Lys; Gly; Gly; Glu; Lys; Glu; Lys] [] default_palette) in
  odmax o <> None /\ operm o = None.
Proof. exact inv_nonvacuous. Qed.
