(* C06 — Omega and kappa_X are kappa of the recoded sequence. *)
From Coq Require Import QArith ZArith List String.
From LC Require Import Core.Residue Core.Lists Core.QTools Spec.Delta Model.Delta Model.Recode
     Proofs.Delta Proofs.DeltaMax Proofs.Invariance Proofs.Recode.
Import ListNotations.

Theorem C06_Omega_is_kappa_recoded s : Omega s = kappa (recode1 omega_group s).
Proof. exact (Omega_is_kappa_recoded s). Qed.

Theorem C06_Omega_eq_kappaX_PEDKR s : Omega s = kappaX [Pro; Glu; Asp; Lys; Arg] None s.
Proof. exact (Omega_eq_kappaX_PEDKR s). Qed.

Theorem C06_kappa_eq_kappaX_ED_KR s : kappa (pat s) = kappaX [Glu; Asp] (Some [Lys; Arg]) s.
Proof. exact (kappa_eq_kappaX_ED_KR s). Qed.
Print Assumptions C06_kappa_eq_kappaX_ED_KR.

Theorem C06_kappaX_swap g1 g2 s : g1 <> [] -> g2 <> [] ->
  (forall r, mem_aa r g1 = true -> mem_aa r g2 = false) ->
  (kappaX g2 (Some g1) s == kappaX g1 (Some g2) s)%Q.
Proof. exact (kappaX_swap g1 g2 s). Qed.
Print Assumptions C06_kappaX_swap.

Theorem C06_kappaX_member_order_irrelevant g1 g1' g2 g2' s :
  (forall r, mem_aa r g1 = mem_aa r g1') -> (forall r, mem_aa r g2 = mem_aa r g2') ->
  g2 <> [] -> g2' <> [] ->
  kappaX g1 (Some g2) s = kappaX g1' (Some g2') s /\ kappaX g1 None s = kappaX g1' None s.
Proof. exact (kappaX_members g1 g1' g2 g2' s). Qed.
Print Assumptions C06_kappaX_member_order_irrelevant.

Theorem C06_letter_case_irrelevant c :
  parse_member (String (lower_ascii c) EmptyString) = parse_member (String c EmptyString) /\
  parse_member (String (upper_ascii c) EmptyString) = parse_member (String c EmptyString).
Proof. exact (parse_member_case c). Qed.
Print Assumptions C06_letter_case_irrelevant.

Theorem C06_kappaX_complement g s : (kappaX (complement g) None s == kappaX g None s)%Q.
Proof. exact (kappaX_complement g s). Qed.
Print Assumptions C06_kappaX_complement.

Theorem C06_non_amino_acid_rejected g1 g2 s x : In x g1 -> parse_member x = None -> kappaX_api g1 g2 s = None.
Proof. exact (kappaX_api_rejects g1 g2 s x). Qed.
Theorem C06_non_amino_acid_rejected_2 g1 g2 s x : In x g2 -> parse_member x = None -> kappaX_api g1 (Some g2) s = None.
Proof. exact (kappaX_api_rejects2 g1 g2 s x). Qed.
Print Assumptions C06_non_amino_acid_rejected_2.

Theorem C06_Omega_sequence (s : list aa) i : (i < List.length s)%nat ->
  nth i (Omega_seq s) false = mem_aa (nth i s Ala) omega_group /\ List.length (Omega_seq s) = List.length s.
Proof. exact (Omega_seq_spec s i). Qed.
Print Assumptions C06_Omega_sequence.

Example C06_nonvacuous_reject : parse_member "X" = None /\ parse_member "ED" = None /\ parse_member "e" = Some Glu.
Proof. vm_compute. repeat split. Qed.
