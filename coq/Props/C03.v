(* C03 — delta-max: attained, composition-only, the documented search. *)
From Coq Require Import QArith ZArith List Permutation.
From LC Require Import Core.Residue Core.Lists Core.QTools Spec.Delta Model.Delta
     Proofs.Delta Proofs.DeltaMax Proofs.Permutant.
Import ListNotations.

Theorem C03_model_is_spec l : (m_dmax l == dmax_of l)%Q.
Proof. exact (m_dmax_spec l). Qed.
Print Assumptions C03_model_is_spec.

Theorem C03_candidates_are_arrangements p n z l : In l (cands p n z) -> is_arr p n z l.
Proof. exact (cands_arrangement p n z l). Qed.
Print Assumptions C03_candidates_are_arrangements.

Theorem C03_dmax_is_max_of_family p n z l : In l (cands p n z) -> (delta l <= dmax p n z)%Q.
Proof. exact (dmax_is_max p n z l). Qed.
Print Assumptions C03_dmax_is_max_of_family.

Theorem C03_dmax_attained p n z : (p + n <> 0)%nat -> exists l, In l (cands p n z) /\ dmax p n z = delta l.
Proof. exact (dmax_attained p n z). Qed.
Print Assumptions C03_dmax_attained.

Theorem C03_dmax_uncharged z : dmax 0 0 z = 0%Q.
Proof. exact (dmax_uncharged z). Qed.

Theorem C03_composition_only l l' : comp l = comp l' -> dmax_of l = dmax_of l'.
Proof. exact (dmax_comp_only l l'). Qed.
Print Assumptions C03_composition_only.

Theorem C03_permutation_invariant l l' : Permutation l l' -> dmax_of l = dmax_of l'.
Proof. exact (dmax_perm l l'). Qed.
Print Assumptions C03_permutation_invariant.

Theorem C03_permutant_is_rearrangement s cand : Forall trit cand -> comp cand = comp (pat s) ->
  Permutation (permutant s cand) s.
Proof. exact (permutant_perm s cand). Qed.
Print Assumptions C03_permutant_is_rearrangement.

Theorem C03_permutant_has_candidate_pattern s cand : Forall trit cand -> comp cand = comp (pat s) ->
  pat (permutant s cand) = cand.
Proof. exact (permutant_pat s cand). Qed.
Print Assumptions C03_permutant_has_candidate_pattern.

Theorem C03_value_with_permutant s d c : m_dmax_arg (pat s) = (d, Some c) ->
  let t := permutant s c in
  Permutation t s /\ pat t = c /\ (delta (pat t) == d)%Q /\ (d == dmax_of (pat s))%Q.
Proof. exact (deltaMax_with_seq s d c). Qed.
Print Assumptions C03_value_with_permutant.

Theorem C03_uncharged_sequence_attains_0 l : (npos l + nneg l = 0)%Z -> (delta l == 0)%Q.
Proof. exact (delta_uncharged l). Qed.

(* regime boundary examples (n0 = 17 vs 18) and non-vacuity of C03_value_with_permutant *)
Example C03_regime_sizes :
  (length (cands 2 2 17), length (cands 2 2 18), length (cands 3 0 5), length (cands 3 2 0)) = (171, 49, 6, 4)%nat.
Proof. vm_compute. reflexivity. Qed.

Example C03_permutant_example :
  exists d c, m_dmax_arg (pat [Glu; Lys; Glu; Lys; Gly; Gly; Glu; Lys; Glu; Lys]) = (d, Some c) /\
              permutant [Glu; Lys; Glu; Lys; Gly; Gly; Glu; Lys; Glu; Lys] c =
              [Lys; Lys; Lys; Lys; Gly; Gly; Glu; Glu; Glu; Glu].
Proof. eexists. eexists. split; vm_compute; reflexivity. Qed.
