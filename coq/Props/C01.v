(* C01 — kappa = delta/delta-max, -1 exactly when delta-max = 0, the (1,1.1) -> 1 rule,
   and the range [0,1].  The range clause is FALSE of the documented delta-max heuristic
   (kappa_range_refuted, witness KEEEEK): recorded as known finding D1. *)
From Coq Require Import QArith ZArith List.
From LC Require Import Core.Residue Core.Lists Core.QTools Spec.Delta Model.Delta
     Proofs.Delta Proofs.DeltaMax Proofs.Flat Proofs.FlatBounded.
Import ListNotations.

Theorem C01_model_is_spec l : (m_kappa l == kappa l)%Q.
Proof. exact (m_kappa_spec l). Qed.
Print Assumptions C01_model_is_spec.

Theorem C01_sentinel_iff_dmax_zero l : (kappa l == -1)%Q <-> (dmax_of l == 0)%Q.
Proof. exact (kappa_sentinel_iff l). Qed.
Print Assumptions C01_sentinel_iff_dmax_zero.

Theorem C01_ratio_with_clamp l : ~ (dmax_of l == 0)%Q -> kappa l = clamp (delta l / dmax_of l)%Q.
Proof. exact (kappa_ratio l). Qed.
Print Assumptions C01_ratio_with_clamp.

Theorem C01_nonneg_or_sentinel l : kappa l = (-1)%Q \/ (0 <= kappa l)%Q.
Proof. exact (kappa_nonneg_or_sentinel l). Qed.
Print Assumptions C01_nonneg_or_sentinel.

Theorem C01_le1_iff l : (0 < dmax_of l)%Q -> ((kappa l <= 1)%Q <-> (delta l < (11 # 10) * dmax_of l)%Q).
Proof. exact (kappa_le1_iff l). Qed.
Print Assumptions C01_le1_iff.

Theorem C01_family_in_range p n z l : In l (cands p n z) -> (0 < dmax p n z)%Q ->
  natcomp l = (p, n, z) -> (kappa l <= 1)%Q.
Proof. exact (kappa_family_le1 p n z l). Qed.
Print Assumptions C01_family_in_range.

(* delta-max = 0 means no arrangement has any variance: bounded characterisation + unbounded converse *)
Theorem C01_dmax0_only_flat_upto_16 :
  forallb (fun c => let '(p, n, z) := c in implb (Qeq_bool (dmax p n z) 0) (flat_b p n z)) (all_comps 16) = true.
Proof. exact dmax0_flat_upto_16. Qed.
Print Assumptions C01_dmax0_only_flat_upto_16.

Theorem C01_flat_all_arrangements p n z l : flat_b p n z = true -> natcomp l = (p, n, z) -> (delta l == 0)%Q.
Proof. exact (flat_all_arrangements p n z l). Qed.
Print Assumptions C01_flat_all_arrangements.

(* the range clause, refuted on the faithful model: kappa(KEEEEK) = 98/53 *)
Theorem C01_range_refuted : exists l, (1 < kappa l)%Q.
Proof. exact kappa_range_refuted. Qed.
Print Assumptions C01_range_refuted.
