(* C05 — patterning parameters see only charge classes; reversal / inversion invariance. *)
From Coq Require Import QArith ZArith List.
From LC Require Import Core.Residue Core.Lists Core.QTools Spec.Delta Model.Delta Model.Recode Model.SCD
     Proofs.Delta Proofs.DeltaMax Proofs.Invariance Proofs.Recode Proofs.SCD.
Import ListNotations.

(* same charge class -> same pattern -> same kappa, delta, delta-max, SCD data *)
Theorem C05_respell s t : pat s = pat t ->
  delta (pat s) = delta (pat t) /\ dmax_of (pat s) = dmax_of (pat t) /\ kappa (pat s) = kappa (pat t).
Proof. exact (respell_invariant s t). Qed.
Print Assumptions C05_respell.

Theorem C05_scd_respell s t : pat s = pat t -> scd_coeffs (pat s) = scd_coeffs (pat t).
Proof. intros H. exact (f_equal scd_coeffs H). Qed.

Theorem C05_Omega_respell s t :
  map (fun r => mem_aa r omega_group) s = map (fun r => mem_aa r omega_group) t -> Omega s = Omega t.
Proof. exact (Omega_respell s t). Qed.
Print Assumptions C05_Omega_respell.

Theorem C05_delta_rev l : (delta (rev l) == delta l)%Q.
Proof. exact (delta_rev l). Qed.
Print Assumptions C05_delta_rev.

Theorem C05_delta_inv l : delta (map Z.opp l) = delta l.
Proof. exact (delta_inv l). Qed.
Print Assumptions C05_delta_inv.

Theorem C05_dmax_rev l : dmax_of (rev l) = dmax_of l.
Proof. exact (dmax_rev l). Qed.
Print Assumptions C05_dmax_rev.

Theorem C05_dmax_swap p n z : (dmax n p z == dmax p n z)%Q.
Proof. exact (dmax_swap p n z). Qed.
Print Assumptions C05_dmax_swap.

Theorem C05_dmax_inv l : (dmax_of (map Z.opp l) == dmax_of l)%Q.
Proof. exact (dmax_inv l). Qed.
Print Assumptions C05_dmax_inv.

Theorem C05_kappa_rev l : (kappa (rev l) == kappa l)%Q.
Proof. exact (kappa_rev l). Qed.
Print Assumptions C05_kappa_rev.

Theorem C05_kappa_inv l : (kappa (map Z.opp l) == kappa l)%Q.
Proof. exact (kappa_inv l). Qed.
Print Assumptions C05_kappa_inv.

Theorem C05_scd_rev l : scd_coeffs (rev l) = scd_coeffs l.
Proof. exact (scd_rev l). Qed.
Print Assumptions C05_scd_rev.

Theorem C05_scd_inv l : scd_coeffs (map Z.opp l) = scd_coeffs l.
Proof. exact (scd_inv l). Qed.
Print Assumptions C05_scd_inv.

Theorem C05_Omega_rev s : (Omega (rev s) == Omega s)%Q.
Proof. exact (Omega_rev s). Qed.
Print Assumptions C05_Omega_rev.

Theorem C05_Omega_inv s : Omega (map invert_res s) = Omega s.
Proof. exact (Omega_inv s). Qed.
Print Assumptions C05_Omega_inv.

(* reversal / inversion of residues act on the pattern as rev / opp *)
Theorem C05_pat_rev s : pat (rev s) = rev (pat s).
Proof. exact (pat_rev s). Qed.
Theorem C05_pat_invert s : pat (map invert_res s) = map Z.opp (pat s).
Proof. exact (pat_invert s). Qed.
