(* C19 — plots place sequences at true coordinates in the regions that classify them. *)
From Coq Require Import QArith ZArith List Bool.
From LC Require Import Spec.Polygons Model.Region Model.PlotCheck Proofs.Polygons.
Import ListNotations.
Local Open Scope Q_scope.

(* every admissible pair of fractions lies inside (boundary included) the drawn polygon of the region
   the classifier assigns to it, and that region is one of 1..5 *)
Theorem C19_marker_in_own_region fp fn : 0 <= fp -> 0 <= fn -> fp + fn <= 1 ->
  inside (poly (regionFrac fp fn)) (fp, fn) /\ (1 <= regionFrac fp fn <= 5)%Z.
Proof. exact (marker_in_own_region fp fn). Qed.
Print Assumptions C19_marker_in_own_region.

(* conversely a point strictly inside a drawn polygon is classified into that region: the five regions
   drawn are the ones the classifier uses (they overlap only on their common boundary lines) *)
Theorem C19_interior_classifies r fp fn : (1 <= r <= 5)%Z -> inside_strict (poly r) (fp, fn) -> regionFrac fp fn = r.
Proof. exact (interior_classifies r fp fn). Qed.
Print Assumptions C19_interior_classifies.

Example C19_example : regionFrac (4 # 10) (4 # 10) = 3%Z /\ inside_b (poly 3) (4 # 10, 4 # 10) = true
                      /\ inside_b (poly 4) (4 # 10, 4 # 10) = false.
Proof. vm_compute. repeat split. Qed.
