(* Tie (C14) — SEMANTIC: the bodies of SequenceFileParser.parseSeqFile and __final_validation, translated from the working
   tree into Core.MiniPy terms on every run, are proved equal to Model.Parser for EVERY file: __final_validation on any
   string; parseSeqFile on any list of lines (its two method calls interpreted by the functions their own ties
   establish: minipy_validseq_tie, final_validation_tie); and, through readlines_same, on the text of any file:
   parseSeqFile(readlines(text)) = Model.Parser.parse text.  open()/readlines() are modelled (universal newlines). *)
From Coq Require Import List String Ascii ZArith Bool Lia.
From LC Require Import Core.Residue Core.MiniPy Model.Parser Proofs.Parser Gen.GMiniPy.
Import ListNotations.
Local Open Scope Z_scope.

Local Notation star := ("*"%char).
(* ---------- SequenceFileParser.__final_validation, on ANY string ---------- *)
Definition fv_str (s : list ascii) : option (list ascii) :=
  let n := count_substr1 star s in
  if n =? 0 then Some s
  else if n >? 1 then None
  else match rev s with
       | c :: r => if Ascii.eqb c star then Some (rev r) else None
       | [] => None
       end.

Definition fv_env (s : list ascii) (n : value) : env :=
  [("self"%string, VNone); ("seq"%string, VStr s); ("number_of_asterisk"%string, n)].

Ltac mp0 := cbn [MiniPy.exec MiniPy.eval lookup set String.eqb Ascii.eqb Bool.eqb truthy v_in v_not cmp_int bad2 is_bad as_Q
                fv_env existsb veqb orb list_ascii_of_string].

Lemma index_last {A} (l : list A) x : index_val (l ++ [x]) (-1) = Some x.
Proof.
  unfold index_val. rewrite app_length. cbn [List.length]. change (-1 <? 0) with true. cbv iota.
  replace (Z.of_nat (Datatypes.length l + 1) + -1) with (Z.of_nat (Datatypes.length l)) by lia.
  replace ((Z.of_nat (Datatypes.length l) <? 0) || (Z.of_nat (Datatypes.length l + 1) <=? Z.of_nat (Datatypes.length l))) with false
    by (symmetry; apply orb_false_iff; split; [apply Z.ltb_ge | apply Z.leb_gt]; lia).
  rewrite Nat2Z.id, nth_error_app2 by lia. rewrite Nat.sub_diag. reflexivity.
Qed.

Lemma slice_init {A} (l : list A) x : firstn (clip (List.length (l ++ [x])) (-1) - clip (List.length (l ++ [x])) 0) (skipn (clip (List.length (l ++ [x])) 0) (l ++ [x])) = l.
Proof.
  unfold clip. rewrite app_length. cbn [List.length]. change (-1 <? 0) with true. change (0 <? 0) with false. cbv iota.
  replace (Z.to_nat (Z.max 0 (Z.min (Z.of_nat (Datatypes.length l + 1)) 0))) with 0%nat by lia.
  replace (Z.to_nat (Z.max 0 (Z.min (Z.of_nat (Datatypes.length l + 1)) (Z.of_nat (Datatypes.length l + 1) + -1)))) with (List.length l) by lia.
  cbn [skipn]. rewrite Nat.sub_0_r, firstn_app, firstn_all, Nat.sub_diag. cbn [firstn]. now rewrite app_nil_r.
Qed.

Theorem final_validation_tie s :
  MiniPy.exec noprim 0 g_final_validation (fv_env s VNone) = match fv_str s with Some w => ORet (VStr w) | None => ORaise end.
Proof.
  unfold g_final_validation, fv_str. mp0. change (list_ascii_of_string "*") with [star].
  set (n := count_substr1 star s).
  destruct (n =? 0) eqn:E0; mp0; [reflexivity|].
  destruct (n >? 1) eqn:E1; mp0; [reflexivity|].
  destruct s as [|c0 s0] using rev_ind.
  - exfalso. unfold n in E0. cbn in E0. discriminate.
  - clear IHs0. rewrite rev_app_distr. cbn [rev app]. rewrite index_last. mp0.
    change (ascii_list_eqb [c0] [star]) with (Ascii.eqb c0 star && true). rewrite andb_true_r.
    destruct (Ascii.eqb c0 star); mp0; [|reflexivity].
    unfold slice_bounds. rewrite slice_init, rev_involutive. reflexivity.
Qed.

(* ... and on token strings it is the model's final_validation *)
Definition tokchar (t : option aa) : ascii := match t with Some a => aa_char a | None => star end.

Lemma aa_char_not_star a : Ascii.eqb star (aa_char a) = false.
Proof. destruct a; reflexivity. Qed.

Lemma count_stars acc : count_substr1 star (map tokchar acc) = Z.of_nat (List.length (filter is_star acc)).
Proof.
  induction acc as [|[a|] acc IH]; [reflexivity| |]; cbn [map tokchar count_substr1 filter is_star].
  - rewrite aa_char_not_star, IH. lia.
  - change (Ascii.eqb star star) with true. cbv iota. cbn [List.length]. rewrite IH. lia.
Qed.

Lemma unsome_nostar acc : filter is_star acc = [] -> map tokchar acc = map aa_char (unsome acc).
Proof.
  induction acc as [|[a|] acc IH]; intros H; [reflexivity| |]; cbn [filter is_star] in H; [|discriminate H].
  cbn [map tokchar unsome]. now rewrite IH.
Qed.

Lemma fv_str_model acc : fv_str (map tokchar acc) = option_map (map aa_char) (final_validation acc).
Proof.
  unfold fv_str, final_validation. rewrite count_stars. set (n := List.length (filter is_star acc)).
  destruct (Nat.eqb_spec n 0) as [E0|N0].
  - replace (Z.of_nat n =? 0) with true by (symmetry; apply Z.eqb_eq; lia). cbn [option_map].
    f_equal. apply unsome_nostar. apply length_zero_iff_nil. exact E0.
  - replace (Z.of_nat n =? 0) with false by (symmetry; apply Z.eqb_neq; lia).
    destruct (Nat.ltb_spec 1 n) as [H1|H1].
    + replace (Z.of_nat n >? 1) with true by (symmetry; apply Z.gtb_lt; lia). reflexivity.
    + replace (Z.of_nat n >? 1) with false by (symmetry; rewrite Z.gtb_ltb; apply Z.ltb_ge; lia).
      assert (Hn : n = 1%nat) by lia.
      rewrite <- map_rev. destruct (rev acc) as [|[a|] r] eqn:Er; cbn [map tokchar]; [reflexivity| |].
      * rewrite Ascii.eqb_sym, aa_char_not_star. reflexivity.
      * change (Ascii.eqb star star) with true. cbv iota. cbn [option_map]. f_equal. rewrite <- map_rev. apply unsome_nostar.
        assert (Ha : acc = rev r ++ [None]) by (rewrite <- (rev_involutive acc), Er; reflexivity).
        unfold n in Hn. rewrite Ha, filter_app, app_length in Hn. cbn [filter is_star List.length] in Hn.
        apply length_zero_iff_nil. lia.
Qed.

(* ---------- SequenceFileParser.parseSeqFile ---------- *)
(* the two methods parseSeqFile calls, as established by minipy_validseq_tie / final_validation_tie *)
Definition ps_prim (name : string) (args : list value) : value :=
  if String.eqb name "__validSeq" then
    match args with [VStr cs] => match valid_seq cs with Some t => VStr (map tokchar t) | None => VExc end | _ => VErr end
  else if String.eqb name "__final_validation" then
    match args with [VStr s] => match fv_str s with Some w => VStr w | None => VExc end | _ => VErr end
  else VErr.

Local Notation exec := (MiniPy.exec ps_prim 0).
Local Notation exec_list := (MiniPy.exec_list ps_prim 0).
Local Notation run_loop := (MiniPy.run_loop ps_prim 0).
Local Notation eval := (MiniPy.eval ps_prim).

Definition pf_env (content : value) (silent : bool) (header : value) (sq : value) (line : value) : env :=
  [("self"%string, VNone); ("filename"%string, VNone); ("silent"%string, VBool silent); ("content"%string, content);
   ("header"%string, header); ("seq"%string, sq); ("line"%string, line)].

Definition pf_pre : list stmt := Eval vm_compute in match split_at_for g_parseSeqFile with Some (p, _, _) => p | None => [] end.
Definition pf_body : stmt := Eval vm_compute in match split_at_for g_parseSeqFile with Some (_, (_, _, b), _) => b | None => SSkip end.
Definition pf_rest : stmt := Eval vm_compute in match split_at_for g_parseSeqFile with Some (_, _, r) => r | None => SRaise end.
Lemma pf_split_eq : split_at_for g_parseSeqFile = Some (pf_pre, ("line"%string, EVar "content", pf_body), pf_rest).
Proof. vm_compute. reflexivity. Qed.

Ltac mp := cbn [MiniPy.exec MiniPy.eval lookup set String.eqb Ascii.eqb Bool.eqb truthy v_in v_not cmp_int bad2 is_bad as_Q
                pf_env ps_prim existsb veqb orb list_ascii_of_string].

Lemma ws_same c : is_ws_py c = is_ws c.
Proof. reflexivity. Qed.
Lemma drop_same l : drop_ws l = dropws l.
Proof. induction l as [|c l IH]; [reflexivity|]. cbn [drop_ws dropws]. rewrite ws_same, IH. reflexivity. Qed.
Lemma strip_same l : rev (drop_ws (rev (drop_ws l))) = strip l.
Proof. unfold strip. now rewrite !drop_same. Qed.

(* one line: the body of the loop does what one step of Model.Parser.parse_lines does *)
Definition pf_step (st : bool * list (option aa)) (l : list ascii) : option (bool * list (option aa)) :=
  let '(h, acc) := st in
  match strip l with
  | [] => Some (h, acc)
  | c :: sl => if Ascii.eqb c ">" then (if h then None else Some (true, acc))
               else match valid_seq (c :: sl) with Some t => Some (h, acc ++ t) | None => None end
  end.

Lemma pf_body_step content silent h acc lv l :
  match pf_step (h, acc) l with
  | Some (h', acc') => exists lv', exec pf_body (set "line" (VStr l) (pf_env content silent (VBool h) (VStr (map tokchar acc)) lv)) = ONorm (pf_env content silent (VBool h') (VStr (map tokchar acc')) lv') \/
                                   exec pf_body (set "line" (VStr l) (pf_env content silent (VBool h) (VStr (map tokchar acc)) lv)) = OCont (pf_env content silent (VBool h') (VStr (map tokchar acc')) lv')
  | None => exec pf_body (set "line" (VStr l) (pf_env content silent (VBool h) (VStr (map tokchar acc)) lv)) = ORaise
  end.
Proof.
  unfold pf_step, pf_body. mp. rewrite strip_same.
  destruct (strip l) as [|c sl] eqn:Es.
  - cbn [List.length]. change (Z.of_nat 0 =? 0) with true. mp. eexists. right. reflexivity.
  - replace (Z.of_nat (Datatypes.length (c :: sl)) =? 0) with false by (symmetry; apply Z.eqb_neq; cbn [List.length]; lia).
    mp. change (index_val (c :: sl) 0) with (Some c). mp.
    change (ascii_list_eqb [c] [">"%char]) with (Ascii.eqb c ">" && true). rewrite andb_true_r.
    destruct (Ascii.eqb c ">") eqn:Eg; mp.
    + destruct h; mp; [reflexivity|]. eexists. right. reflexivity.
    + replace (Z.of_nat (Datatypes.length (c :: sl)) >? 0) with true by (symmetry; apply Z.gtb_lt; cbn [List.length]; lia).
      mp. destruct (valid_seq (c :: sl)) as [t|]; mp; [|reflexivity].
      eexists. left. rewrite map_app. reflexivity.
Qed.

Lemma pf_fold ls : forall h acc,
  option_map snd (fold_step (fun st v => match v with VStr l => pf_step st l | _ => None end) (h, acc) (map VStr ls)) = parse_lines ls h acc.
Proof.
  induction ls as [|l ls IH]; intros h acc; cbn [map fold_step parse_lines]; [reflexivity|].
  unfold pf_step at 1. destruct (strip l) as [|c sl]; [apply IH|].
  destruct (Ascii.eqb c ">"); [destruct h; [reflexivity | apply IH]|].
  destruct (valid_seq (c :: sl)); [apply IH | reflexivity].
Qed.

Lemma pf_rest_spec content silent h acc lv :
  exec pf_rest (pf_env content silent (VBool h) (VStr (map tokchar acc)) lv) =
  match fv_str (map tokchar acc) with Some w => ORet (VStr w) | None => ORaise end.
Proof.
  unfold pf_rest. mp. destruct (fv_str (map tokchar acc)); mp; [|reflexivity]. destruct silent; mp; reflexivity.
Qed.

(* the whole of parseSeqFile on the lines of ANY file = Model.Parser (parse_lines, then final_validation) *)
Theorem parseSeqFile_tie lines silent :
  exec g_parseSeqFile (pf_env (VList (map VStr lines)) silent VNone VNone VNone) =
  match parse_lines lines false [] with
  | Some acc => match final_validation acc with Some w => ORet (VStr (map aa_char w)) | None => ORaise end
  | None => ORaise
  end.
Proof.
  rewrite (exec_split _ _ _ _ _ _ _ pf_split_eq).
  change (exec_list pf_pre (pf_env (VList (map VStr lines)) silent VNone VNone VNone))
    with (ONorm (pf_env (VList (map VStr lines)) silent (VBool false) (VStr (map tokchar [])) VNone)).
  cbv beta iota. rewrite exec_for.
  change (eval (EVar "content") (pf_env (VList (map VStr lines)) silent (VBool false) (VStr (map tokchar [])) VNone)) with (VList (map VStr lines)).
  cbn [elements].
  set (content := VList (map VStr lines)).
  pose proof (@run_loop_rule ps_prim 0%nat _ "line"%string pf_body
                (fun r st => exists lv, r = pf_env content silent (VBool (fst st)) (VStr (map tokchar (snd st))) lv)
                (fun st v => match v with VStr l => pf_step st l | _ => None end) (fun v => exists l, v = VStr l)) as HL.
  assert (Hstep : forall r st v, (exists l, v = VStr l) -> (exists lv, r = pf_env content silent (VBool (fst st)) (VStr (map tokchar (snd st))) lv) ->
            match (match v with VStr l => pf_step st l | _ => None end) with
            | Some st' => exists r', (exec pf_body (set "line" v r) = ONorm r' \/ exec pf_body (set "line" v r) = OCont r') /\
                                     (exists lv, r' = pf_env content silent (VBool (fst st')) (VStr (map tokchar (snd st'))) lv)
            | None => exec pf_body (set "line" v r) = ORaise
            end).
  { intros r [h acc] v [l ->] [lv ->]. cbn [fst snd]. pose proof (pf_body_step content silent h acc lv l) as H.
    destruct (pf_step (h, acc) l) as [[h' acc']|]; [|exact H]. destruct H as [lv' H]. eexists. split; [exact H|]. exists lv'. reflexivity. }
  specialize (HL Hstep (map VStr lines)).
  assert (HP : Forall (fun v => exists l, v = VStr l) (map VStr lines)).
  { apply Forall_forall. intros v Hv. apply in_map_iff in Hv. destruct Hv as [l [<- _]]. exists l. reflexivity. }
  specialize (HL HP (pf_env content silent (VBool false) (VStr (map tokchar [])) VNone) (false, []) (ex_intro _ VNone eq_refl)).
  rewrite <- (pf_fold lines false []).
  destruct (fold_step _ (false, []) (map VStr lines)) as [[h' acc']|]; cbn [option_map snd].
  - destruct HL as [r' [-> [lv ->]]]. cbn [fst snd]. rewrite pf_rest_spec, fv_str_model.
    destruct (final_validation acc'); reflexivity.
  - rewrite HL. reflexivity.
Qed.

(* readlines() keeps the line terminators and yields no extra empty last line; the model splits them off — the same for
   parse_lines, which strips every line and skips blank ones *)
Definition py_readlines (text : list ascii) : list (list ascii) :=
  let ls := split_nl (unl false text) in
  map (fun l => l ++ [nl]) (removelast ls) ++ (match last ls [] with [] => [] | l => [l] end).

Lemma strip_nl l : strip (l ++ [nl]) = strip l.
Proof. apply (strip_pad [] l [nl]); reflexivity. Qed.

Lemma parse_lines_blank ls : forall h acc, parse_lines (ls ++ [[]]) h acc = parse_lines ls h acc.
Proof.
  induction ls as [|l ls IH]; intros h acc; [reflexivity|].
  cbn [app parse_lines]. destruct (strip l) as [|c sl]; [apply IH|].
  destruct (Ascii.eqb c ">"); [destruct h; [reflexivity | apply IH]|]. destruct (valid_seq (c :: sl)); [apply IH | reflexivity].
Qed.

Lemma readlines_same text h acc : parse_lines (py_readlines text) h acc = parse_lines (split_nl (unl false text)) h acc.
Proof.
  unfold py_readlines. generalize (split_nl_nonempty (unl false text)). generalize (split_nl (unl false text)). intros ls Hne.
  pose proof (app_removelast_last [] Hne) as Hls. remember (removelast ls) as pre. remember (last ls []) as lst.
  rewrite Hls at 1. clear Hls Heqpre Heqlst Hne ls.
  assert (Hm : map strip (map (fun l => l ++ [nl]) pre) = map strip pre).
  { rewrite map_map. apply map_ext. intros l. apply strip_nl. }
  destruct lst as [|c l].
  - rewrite app_nil_r, parse_lines_blank. apply parse_lines_strip_ext. exact Hm.
  - apply parse_lines_strip_ext. rewrite !map_app, Hm. reflexivity.
Qed.

(* from the text of the file to the result: parseSeqFile on what readlines() yields = Model.Parser.parse *)
Corollary parseSeqFile_text_tie text silent :
  exec g_parseSeqFile (pf_env (VList (map VStr (py_readlines text))) silent VNone VNone VNone) =
  match parse text with Some w => ORet (VStr (map aa_char w)) | None => ORaise end.
Proof.
  rewrite parseSeqFile_tie, readlines_same. unfold parse.
  destruct (parse_lines (split_nl (unl false text)) false []) as [acc|]; [|reflexivity].
  destruct (final_validation acc); reflexivity.
Qed.
Print Assumptions parseSeqFile_text_tie.
