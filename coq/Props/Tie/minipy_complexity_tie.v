(* Tie (C11) — SEMANTIC: SequenceComplexity.LZW and SequenceComplexity.LC, translated from the working tree on every run
   into Core.MiniPy terms (while-loop over the window starts, for-loop inside a window, Python sets as duplicate-free
   lists, string concatenation / slicing / membership).  For EVERY residue word, window size >= 1 and step >= 1 the
   translated code returns, window by window, exactly Model.Complexity.lzw_value / lc_value.  float(a) / b is the
   primitive "fdiv": the exact rational a / b. *)
From Coq Require Import List String Ascii ZArith QArith Bool Arith Lia.
From LC Require Import Core.Residue Core.Lists Core.MiniPy Model.Complexity Proofs.Complexity Gen.GMiniPy.
Import ListNotations.
Local Open Scope Z_scope.

Notation VN k := (VInt (Z.of_nat k)).
Notation wv l := (VStr (map aa_char l)).
Ltac lk := repeat (rewrite lookup_set_eq || rewrite lookup_set_neq by reflexivity).

Definition cx_prim (name : string) (args : list value) : value :=
  if String.eqb name "fdiv" then
    match args with [VInt a; VInt b] => if 0 <? b then VQ (a # Z.to_pos b) else VExc | _ => VErr end
  else if String.eqb name "pow" then
    match args with [VInt a; VInt b] => if 0 <=? b then VInt (a ^ b) else VErr | _ => VErr end
  else if String.eqb name "min" then
    match args with [VList [VInt a; VInt b]] => VInt (Z.min a b) | _ => VErr end
  else VErr.
Local Notation exec := (MiniPy.exec cx_prim).
Local Notation eval := (MiniPy.eval cx_prim).

(* ---------- words as values ---------- *)
Lemma aa_char_eqb x y : Ascii.eqb (aa_char x) (aa_char y) = aa_eqb x y.
Proof. destruct x, y; reflexivity. Qed.

Lemma word_eqb a : forall b, ascii_list_eqb (map aa_char a) (map aa_char b) = laa_eqb2 a b.
Proof.
  induction a as [|x a IH]; intros [|y b]; try reflexivity. cbn [map ascii_list_eqb laa_eqb2]. now rewrite aa_char_eqb, IH.
Qed.

Lemma member_words cand dict : existsb (veqb (wv cand)) (map (fun l => wv l) dict) = existsb (laa_eqb2 cand) dict.
Proof.
  induction dict as [|d dict IH]; [reflexivity|]. cbn [map existsb]. rewrite IH.
  change (veqb (wv cand) (wv d)) with (ascii_list_eqb (map aa_char cand) (map aa_char d)). now rewrite word_eqb.
Qed.

Lemma existsb_rev {A} (f : A -> bool) l : existsb f (rev l) = existsb f l.
Proof.
  induction l as [|x l IH]; [reflexivity|]. cbn [rev existsb]. rewrite existsb_app. cbn [existsb]. rewrite IH, orb_false_r. apply orb_comm.
Qed.

Lemma index_chars (s : list aa) (d : aa) i : (i < List.length s)%nat -> index_val (map aa_char s) (Z.of_nat i) = Some (aa_char (nth i s d)).
Proof.
  intros H. unfold index_val. rewrite map_length.
  replace (Z.of_nat i <? 0) with false by (symmetry; apply Z.ltb_ge; lia).
  replace ((Z.of_nat i <? 0) || (Z.of_nat (List.length s) <=? Z.of_nat i)) with false
    by (symmetry; apply orb_false_iff; split; [apply Z.ltb_ge | apply Z.leb_gt]; lia).
  rewrite Nat2Z.id, nth_error_map, (nth_error_nth' _ d H). reflexivity.
Qed.

(* sequence[position] for a string: a one-character string *)
Lemma eval_index_str (e i : expr) r (s : list aa) k : MiniPy.eval cx_prim e r = wv s -> MiniPy.eval cx_prim i r = VN k -> (k < List.length s)%nat ->
  MiniPy.eval cx_prim (EIndex e i) r = wv [nth k s Ala].
Proof. intros He Hi Hk. cbn [MiniPy.eval]. rewrite He, Hi. cbn [bad2]. rewrite (index_chars s Ala k Hk). reflexivity. Qed.

Lemma eval_add_str (a b : expr) r (x y : list aa) : MiniPy.eval cx_prim a r = wv x -> MiniPy.eval cx_prim b r = wv y -> MiniPy.eval cx_prim (EAdd a b) r = wv (x ++ y).
Proof. intros Ha Hb. cbn [MiniPy.eval]. rewrite Ha, Hb. cbn [bad2]. now rewrite map_app. Qed.

Lemma nth_firstn' {A} (d : A) : forall (l : list A) n k, (k < n)%nat -> nth k (firstn n l) d = nth k l d.
Proof.
  induction l as [|x l IH]; intros n k H; [rewrite firstn_nil; reflexivity|].
  destruct n as [|n]; [lia|]. destruct k as [|k]; [reflexivity|]. cbn [firstn nth]. apply IH. lia.
Qed.
Lemma nth_skipn'' {A} (d : A) : forall (l : list A) n k, nth k (skipn n l) d = nth (n + k) l d.
Proof.
  induction l as [|x l IH]; intros n k; [rewrite skipn_nil; destruct k, n; reflexivity|].
  destruct n as [|n]; [reflexivity|]. cbn [skipn Nat.add nth]. apply IH.
Qed.

(* ---------- LZW ---------- *)
Section LZW.
Variable fuel : nat.
Variable s : list aa.
Variables w st : nat.
Local Notation N := (List.length s).

Definition lz_spine : list stmt := Eval vm_compute in spine g_LZW.
Definition lz_while_body : stmt := Eval vm_compute in match nth 2 lz_spine SSkip with SWhile _ b => b | _ => SSkip end.
Definition lz_cond : expr := Eval vm_compute in match nth 2 lz_spine SSkip with SWhile c _ => c | _ => EConst VNone end.
Definition lz_wspine : list stmt := Eval vm_compute in spine lz_while_body.
Definition lz_for_body : stmt := Eval vm_compute in match nth 4 lz_wspine SSkip with SFor _ _ b => b | _ => SSkip end.
Lemma lz_parts : lz_spine = [SAssign "step" (EConst (VInt 0)); SAssign "LZW_array" (EListLit []); SWhile lz_cond lz_while_body; SReturn (EVar "LZW_array")].
Proof. reflexivity. Qed.
Lemma lz_wparts : lz_wspine = [SAssign "LZW" (EConst (VInt 0)); SAssign "i" (EConst (VInt 0)); SAssign "w" (EConst (VStr [])); SAssign "ngrams" (EListLit []);
                               SFor "i" (ERange (EConst (VInt 0)) (EVar "windowSize")) lz_for_body; SAssign "n" (ELen (EVar "ngrams"));
                               nth 6 lz_wspine SSkip; SAssign "step" (EAdd (EVar "step") (EVar "stepSize"))].
Proof. reflexivity. Qed.

Definition words (dict : list (list aa)) : list value := map (fun l => wv l) (rev dict).

(* one window: the for-loop over its characters is the model's fold *)
Lemma lz_inner (p0 : nat) : forall (rem : list aa) (j0 : nat) dict wd r,
  lookup "sequence" r = wv s -> lookup "step" r = VN p0 -> lookup "ngrams" r = VList (words dict) -> lookup "w" r = wv wd ->
  (forall k, (k < List.length rem)%nat -> nth (p0 + j0 + k) s Ala = nth k rem Ala) -> (p0 + j0 + List.length rem <= N)%nat ->
  exists r', MiniPy.run_loop cx_prim fuel "i" lz_for_body (map (fun k => VInt (0 + Z.of_nat k)) (seq j0 (List.length rem))) r = ONorm r' /\
    lookup "ngrams" r' = VList (words (fst (fold_left lzw_step rem (dict, wd)))) /\
    lookup "w" r' = wv (snd (fold_left lzw_step rem (dict, wd))) /\
    (forall x, String.eqb x "ngrams" = false -> String.eqb x "w" = false -> String.eqb x "i" = false -> String.eqb x "position" = false ->
               lookup x r' = lookup x r).
Proof.
  induction rem as [|c rem IH]; intros j0 dict wd r Hs Hst Hng Hw Hnth Hlen.
  - exists r. cbn [List.length seq map MiniPy.run_loop fold_left fst snd]. repeat split; assumption || reflexivity.
  - cbn [List.length seq map MiniPy.run_loop fold_left].
    assert (Hc : nth (p0 + j0) s Ala = c) by (specialize (Hnth 0%nat); cbn [nth List.length] in Hnth; rewrite Nat.add_0_r in Hnth; apply Hnth; lia).
    set (r0 := set "i" (VInt (0 + Z.of_nat j0)) r).
    unfold lz_for_body at 1.
    assert (Ep : MiniPy.eval cx_prim (EAdd (EVar "step") (EVar "i")) r0 = VN (p0 + j0)).
    { rewrite (eval_add_int _ _ _ (Z.of_nat p0) (Z.of_nat j0)); [f_equal; lia | rewrite eval_var; unfold r0; lk; exact Hst | rewrite eval_var; unfold r0; lk; reflexivity]. }
    rewrite exec_seq, (exec_assign_ok _ _ _ _ Ep eq_refl).
    set (r1 := set "position" (VN (p0 + j0)) r0).
    assert (Ech : MiniPy.eval cx_prim (EIndex (EVar "sequence") (EVar "position")) r1 = wv [c]).
    { rewrite <- Hc. apply eval_index_str; [rewrite eval_var; unfold r1, r0; lk; exact Hs | rewrite eval_var; unfold r1; lk; reflexivity |].
      cbn [List.length] in Hlen. lia. }
    assert (Ecand : MiniPy.eval cx_prim (EAdd (EVar "w") (EIndex (EVar "sequence") (EVar "position"))) r1 = wv (wd ++ [c])).
    { apply eval_add_str; [rewrite eval_var; unfold r1, r0; lk; exact Hw | exact Ech]. }
    assert (Hng1 : lookup "ngrams" r1 = VList (words dict)) by (unfold r1, r0; lk; exact Hng).
    assert (Tin : truthy (MiniPy.eval cx_prim (EIn (EAdd (EVar "w") (EIndex (EVar "sequence") (EVar "position"))) (EVar "ngrams")) r1) =
                  VBool (existsb (laa_eqb2 (wd ++ [c])) dict)).
    { change (MiniPy.eval cx_prim (EIn ?a ?b) r1) with (v_in (MiniPy.eval cx_prim a r1) (MiniPy.eval cx_prim b r1)).
      rewrite Ecand, eval_var, Hng1. unfold v_in. cbn [bad2 truthy]. unfold words. now rewrite member_words, existsb_rev. }
    assert (Estep : lzw_step (dict, wd) c = if existsb (laa_eqb2 (wd ++ [c])) dict then (dict, c :: wd) else ((wd ++ [c]) :: dict, [c])) by reflexivity.
    rewrite !Estep. clear Estep. destruct (existsb (laa_eqb2 (wd ++ [c])) dict) eqn:Emem.
    + rewrite (exec_if_true _ _ _ _ Tin).
      assert (Ew : MiniPy.eval cx_prim (EAdd (EIndex (EVar "sequence") (EVar "position")) (EVar "w")) r1 = wv (c :: wd)).
      { rewrite (eval_add_str _ _ _ [c] wd); [reflexivity | exact Ech | rewrite eval_var; unfold r1, r0; lk; exact Hw]. }
      rewrite (exec_assign_ok _ _ _ _ Ew eq_refl).
      destruct (IH (S j0) dict (c :: wd) (set "w" (wv (c :: wd)) r1)) as [r' [E [H1 [H2 H3]]]].
      * unfold r1, r0. lk. exact Hs.
      * unfold r1, r0. lk. exact Hst.
      * lk. exact Hng1.
      * lk. reflexivity.
      * intros k Hk. replace (p0 + S j0 + k)%nat with (p0 + j0 + S k)%nat by lia. rewrite Hnth by (cbn [List.length]; lia). reflexivity.
      * cbn [List.length] in Hlen. lia.
      * exists r'. split; [exact E|]. split; [exact H1|]. split; [exact H2|].
        intros x X1 X2 X3 X4. rewrite H3 by assumption. unfold r1, r0. now rewrite !lookup_set_neq by assumption.
    + rewrite (exec_if_false _ _ _ _ Tin).
      assert (Tnot : truthy (MiniPy.eval cx_prim (ENotIn (EAdd (EVar "w") (EIndex (EVar "sequence") (EVar "position"))) (EVar "ngrams")) r1) = VBool true).
      { change (MiniPy.eval cx_prim (ENotIn ?a ?b) r1) with (v_not (v_in (MiniPy.eval cx_prim a r1) (MiniPy.eval cx_prim b r1))).
        rewrite Ecand, eval_var, Hng1. unfold v_in. cbn [bad2]. unfold words. rewrite member_words, existsb_rev, Emem. reflexivity. }
      rewrite exec_seq, (exec_if_true _ _ _ _ Tnot), (exec_append_ok _ _ _ _ _ Hng1 Ecand eq_refl).
      set (r2 := set "ngrams" _ r1).
      assert (Ech2 : MiniPy.eval cx_prim (EIndex (EVar "sequence") (EVar "position")) r2 = wv [c]).
      { rewrite <- Hc. apply eval_index_str; [rewrite eval_var; unfold r2, r1, r0; lk; exact Hs | rewrite eval_var; unfold r2, r1; lk; reflexivity |].
        cbn [List.length] in Hlen. lia. }
      rewrite (exec_assign_ok _ _ _ _ Ech2 eq_refl).
      destruct (IH (S j0) ((wd ++ [c]) :: dict) [c] (set "w" (wv [c]) r2)) as [r' [E [H1 [H2 H3]]]].
      * unfold r2, r1, r0. lk. exact Hs.
      * unfold r2, r1, r0. lk. exact Hst.
      * unfold r2. lk. unfold words. cbn [rev]. rewrite !map_app. cbn [map]. rewrite !map_app. reflexivity.
      * lk. reflexivity.
      * intros k Hk. replace (p0 + S j0 + k)%nat with (p0 + j0 + S k)%nat by lia. rewrite Hnth by (cbn [List.length]; lia). reflexivity.
      * cbn [List.length] in Hlen. lia.
      * exists r'. split; [exact E|]. split; [exact H1|]. split; [exact H2|].
        intros x X1 X2 X3 X4. rewrite H3 by assumption. unfold r2, r1, r0. now rewrite !lookup_set_neq by assumption.
Qed.

Lemma to_pos_of_nat n : (1 <= n)%nat -> Z.to_pos (Z.of_nat n) = Pos.of_nat n.
Proof. destruct n as [|n]; [lia|]. intros _. cbn [Z.of_nat Z.to_pos]. apply Pos.of_nat_succ. Qed.

Lemma nwin_lt i : (1 <= st)%nat -> (i < nwin N w st)%nat <-> (i * st + w <= N)%nat.
Proof.
  intros Hst. unfold nwin. destruct (Nat.ltb_spec N w) as [H|H]; [lia|].
  split; intros Hi.
  - assert (i <= (N - w) / st)%nat by lia. assert (st * i <= N - w)%nat; [|lia].
    transitivity (st * ((N - w) / st))%nat; [apply Nat.mul_le_mono_l; assumption | apply Nat.mul_div_le; lia].
  - assert (i <= (N - w) / st)%nat; [|lia]. apply Nat.div_le_lower_bound; lia.
Qed.

(* one pass of the while-body: the window starting at p0 *)
Lemma lz_window (p0 : nat) (arr : list value) r : (1 <= w)%nat -> (p0 + w <= N)%nat ->
  lookup "sequence" r = wv s -> lookup "windowSize" r = VN w -> lookup "stepSize" r = VN st ->
  lookup "step" r = VN p0 -> lookup "LZW_array" r = VList arr ->
  exists r', exec fuel lz_while_body r = ONorm r' /\
    lookup "LZW_array" r' = VList (arr ++ [VQ (lzw_value w (firstn w (skipn p0 s)))]) /\ lookup "step" r' = VN (p0 + st) /\
    lookup "sequence" r' = wv s /\ lookup "windowSize" r' = VN w /\ lookup "stepSize" r' = VN st.
Proof.
  intros Hw Hp Hs Hws Hss Hst Harr. set (win := firstn w (skipn p0 s)).
  assert (Lwin : List.length win = w) by (unfold win; rewrite firstn_length, skipn_length; lia).
  rewrite exec_spine. change (spine lz_while_body) with lz_wspine. rewrite lz_wparts.
  rewrite exec_list_cons, (exec_assign_ok _ _ _ (VInt 0)) by reflexivity.
  rewrite exec_list_cons, (exec_assign_ok _ _ _ (VInt 0)) by reflexivity.
  rewrite exec_list_cons, (exec_assign_ok _ _ _ (VStr [])) by reflexivity.
  rewrite exec_list_cons, (exec_assign_ok _ _ _ (VList [])) by reflexivity.
  set (r1 := set "ngrams" (VList []) (set "w" (VStr []) (set "i" (VInt 0) (set "LZW" (VInt 0) r)))).
  rewrite exec_list_cons, exec_for.
  assert (Er : MiniPy.eval cx_prim (ERange (EConst (VInt 0)) (EVar "windowSize")) r1 = VList (map (fun k => VInt (0 + Z.of_nat k)) (seq 0 w))).
  { cbn [MiniPy.eval]. unfold r1. lk. rewrite Hws. cbn [bad2]. now rewrite Z.sub_0_r, Nat2Z.id. }
  rewrite Er. cbn [elements].
  destruct (lz_inner p0 win 0 [] [] r1) as [r2 [E2 [Hng2 [Hw2 Hfr2]]]].
  { unfold r1. lk. exact Hs. } { unfold r1. lk. exact Hst. } { unfold r1. lk. reflexivity. } { unfold r1. lk. reflexivity. }
  { intros k Hk. rewrite Nat.add_0_r. unfold win. rewrite nth_firstn' by lia. now rewrite nth_skipn''. }
  { rewrite Lwin. lia. }
  rewrite Lwin in E2. rewrite E2.
  assert (L2 : forall x, String.eqb x "ngrams" = false -> String.eqb x "w" = false -> String.eqb x "i" = false -> String.eqb x "position" = false ->
                         String.eqb x "LZW" = false -> lookup x r2 = lookup x r).
  { intros x X1 X2 X3 X4 X5. rewrite Hfr2 by assumption. unfold r1. now rewrite !lookup_set_neq by assumption. }
  destruct (fold_left lzw_step win ([], [])) as [dict wd] eqn:Efold. cbn [fst snd] in Hng2, Hw2.
  assert (En : MiniPy.eval cx_prim (ELen (EVar "ngrams")) r2 = VN (List.length dict)).
  { cbn [MiniPy.eval]. rewrite Hng2. unfold words. now rewrite map_length, rev_length. }
  rewrite exec_list_cons, (exec_assign_ok _ _ _ _ En eq_refl).
  set (r3 := set "n" (VN (List.length dict)) r2).
  rewrite exec_list_cons. cbn [nth lz_wspine].
  assert (Tw : truthy (MiniPy.eval cx_prim (EGt (EVar "windowSize") (EConst (VInt 0))) r3) = VBool true).
  { cbn [MiniPy.eval]. unfold r3. lk. rewrite L2 by reflexivity. rewrite Hws. cbn [cmp_int bad2 truthy]. f_equal. apply Z.gtb_lt. lia. }
  rewrite (exec_if_true _ _ _ _ Tw).
  assert (Ev : MiniPy.eval cx_prim (ECall "fdiv" [EVar "n"; EVar "windowSize"]) r3 = VQ (lzw_value w win)).
  { rewrite (eval_call2 _ _ _ _ (VN (List.length dict)) (VN w)); [| rewrite eval_var; unfold r3; lk; reflexivity | rewrite eval_var; unfold r3; lk; rewrite L2 by reflexivity; exact Hws | reflexivity | reflexivity].
    unfold cx_prim. cbn [String.eqb Ascii.eqb Bool.eqb]. replace (0 <? Z.of_nat w) with true by (symmetry; apply Z.ltb_lt; lia).
    unfold lzw_value. rewrite Efold, to_pos_of_nat by exact Hw. reflexivity. }
  rewrite exec_seq, (exec_assign_ok _ _ _ _ Ev eq_refl).
  set (r4 := set "LZW" (VQ (lzw_value w win)) r3).
  rewrite (exec_append_ok _ _ _ arr (VQ (lzw_value w win))); [| unfold r4, r3; lk; rewrite L2 by reflexivity; exact Harr | rewrite eval_var; unfold r4; lk; reflexivity | reflexivity].
  set (r5 := set "LZW_array" _ r4).
  assert (Es : MiniPy.eval cx_prim (EAdd (EVar "step") (EVar "stepSize")) r5 = VN (p0 + st)).
  { rewrite (eval_add_int _ _ _ (Z.of_nat p0) (Z.of_nat st)); [f_equal; lia | rewrite eval_var; unfold r5, r4, r3; lk; rewrite L2 by reflexivity; exact Hst
                                                                | rewrite eval_var; unfold r5, r4, r3; lk; rewrite L2 by reflexivity; exact Hss]. }
  rewrite exec_list_cons, (exec_assign_ok _ _ _ _ Es eq_refl). cbn [MiniPy.exec_list].
  eexists. split; [reflexivity|]. unfold r5, r4, r3. lk. rewrite !L2 by reflexivity. repeat split; assumption || reflexivity.
Qed.

Lemma lz_cond_val prim i r : lookup "sequence" r = wv s -> lookup "windowSize" r = VN w -> lookup "step" r = VN (i * st) -> (1 <= st)%nat ->
  truthy (MiniPy.eval prim lz_cond r) = VBool (i <? nwin N w st)%nat.
Proof.
  intros Hs Hws Hst Hst1. unfold lz_cond. cbn [MiniPy.eval]. rewrite Hs, Hws, Hst. cbn [cmp_int bad2 truthy]. rewrite map_length. f_equal.
  destruct (Nat.ltb_spec i (nwin N w st)) as [H|H].
  - apply nwin_lt in H; [|exact Hst1]. apply Z.leb_le. lia.
  - apply Z.leb_gt. assert (~ (i * st + w <= N)%nat) by (intros C; apply nwin_lt in C; [lia | exact Hst1]). lia.
Qed.

(* the while-loop: the remaining m windows *)
Lemma lz_while : (1 <= w)%nat -> (1 <= st)%nat -> forall m i arr k r, (i + m = nwin N w st)%nat -> (m < k)%nat ->
  lookup "sequence" r = wv s -> lookup "windowSize" r = VN w -> lookup "stepSize" r = VN st ->
  lookup "step" r = VN (i * st) -> lookup "LZW_array" r = VList arr ->
  exists r', MiniPy.run_while cx_prim fuel lz_cond lz_while_body k r = ONorm r' /\
    lookup "LZW_array" r' = VList (arr ++ map (fun j => VQ (lzw_value w (window w st s j))) (seq i m)).
Proof.
  intros Hw Hst1. induction m as [|m IH]; intros i arr k r Him Hk Hs Hws Hss Hst Harr; (destruct k as [|k]; [lia|]); cbn [MiniPy.run_while].
  - rewrite (lz_cond_val cx_prim i r Hs Hws Hst Hst1). replace (i <? nwin N w st)%nat with false by (symmetry; apply Nat.ltb_ge; lia).
    exists r. split; [reflexivity|]. cbn [seq map]. now rewrite app_nil_r.
  - rewrite (lz_cond_val cx_prim i r Hs Hws Hst Hst1). replace (i <? nwin N w st)%nat with true by (symmetry; apply Nat.ltb_lt; lia).
    assert (Hin : (i * st + w <= N)%nat) by (apply nwin_lt; [exact Hst1 | lia]).
    destruct (lz_window (i * st) arr r Hw Hin Hs Hws Hss Hst Harr) as [r1 [E1 [Ha1 [Hs1 [Hq1 [Hw1 Hss1]]]]]].
    rewrite E1.
    destruct (IH (S i) (arr ++ [VQ (lzw_value w (firstn w (skipn (i * st) s)))]) k r1) as [r2 [E2 Ha2]]; try assumption; try lia.
    { rewrite Hs1. f_equal. f_equal. lia. }
    exists r2. split; [exact E2|]. rewrite Ha2, <- app_assoc. cbn [seq map app]. reflexivity.
Qed.

(* LZW on EVERY residue word, window size >= 1 and step >= 1 (with enough loop fuel): window by window, the model's value *)
Theorem LZW_tie r : (1 <= w)%nat -> (1 <= st)%nat -> (nwin N w st < fuel)%nat ->
  lookup "sequence" r = wv s -> lookup "windowSize" r = VN w -> lookup "stepSize" r = VN st ->
  exec fuel g_LZW r = ORet (VList (map (fun win => VQ (lzw_value w win)) (windows w st s))).
Proof.
  intros Hw Hst Hf Hs Hws Hss. rewrite exec_spine. change (spine g_LZW) with lz_spine. rewrite lz_parts.
  rewrite exec_list_cons, (exec_assign_ok _ _ _ (VInt 0)) by reflexivity.
  rewrite exec_list_cons, (exec_assign_ok _ _ _ (VList [])) by reflexivity.
  set (r1 := set "LZW_array" (VList []) (set "step" (VInt 0) r)).
  rewrite exec_list_cons, exec_while.
  destruct (lz_while Hw Hst (nwin N w st) 0 [] fuel r1) as [r2 [E2 Ha2]]; try (unfold r1; lk; assumption || reflexivity); try lia.
  rewrite E2, exec_list_cons. rewrite (exec_return_ok _ _ _ (eq_trans (eval_var _ _) Ha2) eq_refl).
  unfold windows. rewrite map_map. reflexivity.
Qed.
End LZW.
Print Assumptions LZW_tie.

(* ---------- LC ---------- *)
(* first occurrences, as the code's set keeps them *)
Definition fo_step (acc : list (list aa)) (x : list aa) : list (list aa) := if existsb (laa_eqb2 x) acc then acc else acc ++ [x].
Definition fo (acc l : list (list aa)) : list (list aa) := fold_left fo_step l acc.

Lemma existsb_laa x l : existsb (laa_eqb2 x) l = true <-> In x l.
Proof.
  rewrite existsb_exists. split.
  - intros [y [Hy E]]. apply laa_eqb2_eq in E. now subst y.
  - intros H. exists x. split; [exact H | now apply laa_eqb2_eq].
Qed.

Lemma fo_In l : forall acc x, In x (fo acc l) <-> In x acc \/ In x l.
Proof.
  induction l as [|y l IH]; intros acc x; unfold fo; cbn [fold_left]; [cbn [In]; tauto|]. fold (fo (fo_step acc y) l). rewrite IH. unfold fo_step.
  destruct (existsb (laa_eqb2 y) acc) eqn:E.
  - apply existsb_laa in E. cbn [In]. split; [tauto|]. intros [H|[H|H]]; [tauto | subst; tauto | tauto].
  - rewrite in_app_iff. cbn [In]. tauto.
Qed.

Lemma NoDup_snoc {A} (l : list A) y : NoDup l -> ~ In y l -> NoDup (l ++ [y]).
Proof.
  induction l as [|x l IH]; intros H Hy; cbn [app]; [constructor; [intros []|constructor]|].
  inversion H as [|? ? Hx Hl]; subst. constructor.
  - rewrite in_app_iff. cbn [In]. intros [C|[C|[]]]; [contradiction | subst; apply Hy; now left].
  - apply IH; [exact Hl | intros C; apply Hy; now right].
Qed.

Lemma fo_NoDup l : forall acc, NoDup acc -> NoDup (fo acc l).
Proof.
  induction l as [|y l IH]; intros acc H; unfold fo; cbn [fold_left]; [exact H|]. fold (fo (fo_step acc y) l). apply IH. unfold fo_step.
  destruct (existsb (laa_eqb2 y) acc) eqn:E; [exact H|].
  apply NoDup_snoc; [exact H|]. intros C. apply existsb_laa in C. congruence.
Qed.

Lemma dedup_complete l : forall x, In x l -> In x (dedup_words l).
Proof.
  induction l as [|y l IH]; intros x H; [destruct H|]. cbn [dedup_words]. destruct (existsb (laa_eqb2 y) l) eqn:E.
  - destruct H as [<-|H]; [apply IH; now apply existsb_laa | now apply IH].
  - destruct H as [<-|H]; [now left | right; now apply IH].
Qed.

(* the number of distinct words does not depend on which occurrence is kept *)
Lemma fo_length l : List.length (fo [] l) = List.length (dedup_words l).
Proof.
  apply Nat.le_antisymm; apply NoDup_incl_length.
  - apply fo_NoDup. constructor.
  - intros x Hx. apply fo_In in Hx. destruct Hx as [[]|Hx]. now apply dedup_complete.
  - apply dedup_words_NoDup.
  - intros x Hx. apply fo_In. right. now apply dedup_words_incl.
Qed.

Lemma join_chars_str (cs : list ascii) : join_strs [] (map (fun c => VStr [c]) cs) = Some cs.
Proof.
  induction cs as [|c cs IH]; [reflexivity|]. cbn [map join_strs]. destruct cs as [|d cs]; [reflexivity|].
  cbn [map] in *. rewrite IH. reflexivity.
Qed.

Lemma slice_word (s : list aa) p ws : (p + ws <= List.length s)%nat ->
  (match slice_bounds (List.length (map aa_char s)) (VN p) (VInt (Z.of_nat p + Z.of_nat ws)) with
   | Some (i, j) => VStr (firstn (j - i) (skipn i (map aa_char s)))
   | None => VErr
   end) = wv (firstn ws (skipn p s)).
Proof.
  intros H. unfold slice_bounds, clip. rewrite map_length.
  replace (Z.of_nat p <? 0) with false by (symmetry; apply Z.ltb_ge; lia).
  replace (Z.of_nat p + Z.of_nat ws <? 0) with false by (symmetry; apply Z.ltb_ge; lia).
  replace (Z.to_nat (Z.max 0 (Z.min (Z.of_nat (List.length s)) (Z.of_nat p)))) with p by lia.
  replace (Z.to_nat (Z.max 0 (Z.min (Z.of_nat (List.length s)) (Z.of_nat p + Z.of_nat ws)))) with (p + ws)%nat by lia.
  replace (p + ws - p)%nat with ws by lia. now rewrite skipn_map, firstn_map.
Qed.

Lemma word_in_window {A} (l : list A) p0 w i ws : (i + ws <= w)%nat ->
  firstn ws (skipn i (firstn w (skipn p0 l))) = firstn ws (skipn (p0 + i) l).
Proof.
  intros H. revert l. induction p0 as [|p0 IH]; intros l.
  - cbn [skipn Nat.add]. revert w i H. induction l as [|x l IHl]; intros w i H; [now rewrite firstn_nil, !skipn_nil|].
    destruct w as [|w]; [assert (i = 0%nat) by lia; assert (ws = 0%nat) by lia; subst; reflexivity|].
    destruct i as [|i]; cbn [firstn skipn].
    + clear IHl. revert ws H l x. induction w as [|w IHw]; intros ws H l x.
      * assert (ws <= 1)%nat by lia. destruct ws as [|[|ws]]; try lia; reflexivity.
      * destruct ws as [|ws]; [reflexivity|]. cbn [firstn]. f_equal. destruct l as [|y l]; [now rewrite firstn_nil|]. apply IHw. lia.
    + apply IHl. lia.
  - destruct l as [|x l]; [now rewrite !skipn_nil, firstn_nil, skipn_nil|]. cbn [skipn Nat.add]. apply IH.
Qed.

Section LC.
Variable fuel : nat.
Variable s : list aa.
Variables w st ws k : nat.
Local Notation N := (List.length s).

Definition lc_spine : list stmt := Eval vm_compute in spine g_LC.
Definition lc_while_body : stmt := Eval vm_compute in match nth 2 lc_spine SSkip with SWhile _ b => b | _ => SSkip end.
Definition lc_wspine : list stmt := Eval vm_compute in spine lc_while_body.
Definition lc_for_body : stmt := Eval vm_compute in match nth 4 lc_wspine SSkip with SFor _ _ b => b | _ => SSkip end.
Lemma lc_parts : lc_spine = [SAssign "step" (EConst (VInt 0)); SAssign "LC_array" (EListLit []); SWhile lz_cond lc_while_body; SReturn (EVar "LC_array")].
Proof. reflexivity. Qed.
Lemma lc_wparts : lc_wspine = [SAssign "LC" (EConst (VInt 0)); SAssign "i" (EConst (VInt 0)); SAssign "ngrams" (EListLit []); SAssign "ngram" (EConst (VStr []));
                               SFor "i" (ERange (EConst (VInt 0)) (ESub (EVar "windowSize") (EVar "wordSize"))) lc_for_body; SAssign "v" (ELen (EVar "ngrams"));
                               nth 6 lc_wspine SSkip; SAssign "LC" (ECall "fdiv" [EVar "v"; EVar "vmax"]); SAppend "LC_array" (EVar "LC");
                               SAssign "step" (EAdd (EVar "step") (EVar "stepSize"))].
Proof. reflexivity. Qed.

Definition wordsv (acc : list (list aa)) : list value := map (fun l => wv l) acc.

Lemma lc_inner (p0 : nat) : forall (js : list nat) acc r,
  lookup "sequence" r = wv s -> lookup "step" r = VN p0 -> lookup "wordSize" r = VN ws -> lookup "ngrams" r = VList (wordsv acc) ->
  (forall j, In j js -> (p0 + j + ws <= N)%nat) ->
  exists r', MiniPy.run_loop cx_prim fuel "i" lc_for_body (map (fun j => VInt (0 + Z.of_nat j)) js) r = ONorm r' /\
    lookup "ngrams" r' = VList (wordsv (fo acc (map (fun j => firstn ws (skipn (p0 + j) s)) js))) /\
    (forall x, String.eqb x "ngrams" = false -> String.eqb x "ngram" = false -> String.eqb x "i" = false -> String.eqb x "position" = false ->
               lookup x r' = lookup x r).
Proof.
  induction js as [|j js IH]; intros acc r Hs Hst Hws Hng Hin.
  - exists r. cbn [map MiniPy.run_loop fo fold_left]. repeat split; assumption || reflexivity.
  - cbn [map MiniPy.run_loop]. unfold fo. cbn [fold_left]. fold (fo (fo_step acc (firstn ws (skipn (p0 + j) s))) (map (fun j => firstn ws (skipn (p0 + j) s)) js)).
    set (wd := firstn ws (skipn (p0 + j) s)).
    set (r0 := set "i" (VInt (0 + Z.of_nat j)) r). unfold lc_for_body at 1.
    assert (Ep : MiniPy.eval cx_prim (EAdd (EVar "step") (EVar "i")) r0 = VN (p0 + j)).
    { rewrite (eval_add_int _ _ _ (Z.of_nat p0) (Z.of_nat j)); [f_equal; lia | rewrite eval_var; unfold r0; lk; exact Hst | rewrite eval_var; unfold r0; lk; reflexivity]. }
    rewrite exec_seq, (exec_assign_ok _ _ _ _ Ep eq_refl).
    set (r1 := set "position" (VN (p0 + j)) r0).
    assert (Eg : MiniPy.eval cx_prim (EJoin [] (ESlice (EVar "sequence") (EVar "position") (EAdd (EVar "position") (EVar "wordSize")))) r1 = wv wd).
    { assert (Esl : MiniPy.eval cx_prim (ESlice (EVar "sequence") (EVar "position") (EAdd (EVar "position") (EVar "wordSize"))) r1 = wv wd).
      { rewrite (eval_slice_str _ _ _ _ (map aa_char s) (Z.of_nat (p0 + j)) (Z.of_nat (p0 + j) + Z.of_nat ws)).
        - apply slice_word. apply Hin. now left.
        - rewrite eval_var. unfold r1, r0. lk. exact Hs.
        - rewrite eval_var. unfold r1. lk. reflexivity.
        - apply eval_add_int; rewrite eval_var; unfold r1, r0; lk; [reflexivity | exact Hws]. }
      change (MiniPy.eval cx_prim (EJoin [] ?a) r1) with
        (match MiniPy.eval cx_prim a r1 with
         | VList l => match join_strs [] l with Some t => VStr t | None => VErr end
         | VStr s0 => match join_strs [] (map (fun c => VStr [c]) s0) with Some t => VStr t | None => VErr end
         | VExc => VExc | _ => VErr end).
      rewrite Esl, join_chars_str. reflexivity. }
    rewrite exec_seq, (exec_assign_ok _ _ _ _ Eg eq_refl).
    set (r2 := set "ngram" (wv wd) r1).
    assert (Hng2 : lookup "ngrams" r2 = VList (wordsv acc)) by (unfold r2, r1, r0; lk; exact Hng).
    assert (Tn : truthy (MiniPy.eval cx_prim (ENotIn (EVar "ngram") (EVar "ngrams")) r2) = VBool (negb (existsb (laa_eqb2 wd) acc))).
    { change (MiniPy.eval cx_prim (ENotIn ?a ?b) r2) with (v_not (v_in (MiniPy.eval cx_prim a r2) (MiniPy.eval cx_prim b r2))).
      rewrite !eval_var, Hng2. unfold r2 at 1. lk. unfold v_in. cbn [bad2]. unfold wordsv. rewrite member_words. reflexivity. }
    unfold fo_step. destruct (existsb (laa_eqb2 wd) acc) eqn:Em; cbn [negb] in Tn.
    + rewrite (exec_if_false _ _ _ _ Tn). cbn [MiniPy.exec].
      destruct (IH acc r2) as [r' [E [H1 H3]]].
      * unfold r2, r1, r0. lk. exact Hs.
      * unfold r2, r1, r0. lk. exact Hst.
      * unfold r2, r1, r0. lk. exact Hws.
      * exact Hng2.
      * intros j' Hj'. apply Hin. now right.
      * exists r'. split; [exact E|]. split; [exact H1|].
        intros x X1 X2 X3 X4. rewrite H3 by assumption. unfold r2, r1, r0. now rewrite !lookup_set_neq by assumption.
    + rewrite (exec_if_true _ _ _ _ Tn), (exec_if_true _ _ _ _ Tn).
      rewrite (exec_append_ok _ _ _ (wordsv acc) (wv wd)); [| exact Hng2 | rewrite eval_var; unfold r2; lk; reflexivity | reflexivity].
      destruct (IH (acc ++ [wd]) (set "ngrams" (VList (wordsv acc ++ [wv wd])) r2)) as [r' [E [H1 H3]]].
      * unfold r2, r1, r0. lk. exact Hs.
      * unfold r2, r1, r0. lk. exact Hst.
      * unfold r2, r1, r0. lk. exact Hws.
      * lk. unfold wordsv. rewrite map_app. reflexivity.
      * intros j' Hj'. apply Hin. now right.
      * exists r'. split; [exact E|]. split; [exact H1|].
        intros x X1 X2 X3 X4. rewrite H3 by assumption. unfold r2, r1, r0. now rewrite !lookup_set_neq by assumption.
Qed.

Lemma lc_window (p0 : nat) (arr alph : list value) r : (1 <= w)%nat -> (1 <= Nat.min (k ^ ws) (w - 1 + ws))%nat -> (p0 + w <= N)%nat ->
  lookup "sequence" r = wv s -> lookup "windowSize" r = VN w -> lookup "stepSize" r = VN st -> lookup "wordSize" r = VN ws ->
  lookup "alphabet" r = VList alph -> List.length alph = k ->
  lookup "step" r = VN p0 -> lookup "LC_array" r = VList arr ->
  exists r', exec fuel lc_while_body r = ONorm r' /\
    lookup "LC_array" r' = VList (arr ++ [VQ (lc_value k w ws (firstn w (skipn p0 s)))]) /\ lookup "step" r' = VN (p0 + st) /\
    lookup "sequence" r' = wv s /\ lookup "windowSize" r' = VN w /\ lookup "stepSize" r' = VN st /\ lookup "wordSize" r' = VN ws /\
    lookup "alphabet" r' = VList alph.
Proof.
  intros Hw Hvm Hp Hs Hwsz Hss Hwd Hal Hk Hst Harr. set (win := firstn w (skipn p0 s)).
  rewrite exec_spine. change (spine lc_while_body) with lc_wspine. rewrite lc_wparts.
  rewrite exec_list_cons, (exec_assign_ok _ _ _ (VInt 0)) by reflexivity.
  rewrite exec_list_cons, (exec_assign_ok _ _ _ (VInt 0)) by reflexivity.
  rewrite exec_list_cons, (exec_assign_ok _ _ _ (VList [])) by reflexivity.
  rewrite exec_list_cons, (exec_assign_ok _ _ _ (VStr [])) by reflexivity.
  set (r1 := set "ngram" (VStr []) (set "ngrams" (VList []) (set "i" (VInt 0) (set "LC" (VInt 0) r)))).
  rewrite exec_list_cons, exec_for.
  assert (Er : MiniPy.eval cx_prim (ERange (EConst (VInt 0)) (ESub (EVar "windowSize") (EVar "wordSize"))) r1 =
               VList (map (fun j => VInt (0 + Z.of_nat j)) (seq 0 (w - ws)))).
  { cbn [MiniPy.eval]. unfold r1. lk. rewrite Hwsz, Hwd. cbn [bad2]. rewrite Z.sub_0_r. do 3 f_equal. lia. }
  rewrite Er. cbn [elements].
  destruct (lc_inner p0 (seq 0 (w - ws)) [] r1) as [r2 [E2 [Hng2 Hfr2]]].
  { unfold r1. lk. exact Hs. } { unfold r1. lk. exact Hst. } { unfold r1. lk. exact Hwd. } { unfold r1. lk. reflexivity. }
  { intros j Hj. apply in_seq in Hj. lia. }
  rewrite E2.
  assert (L2 : forall x, String.eqb x "ngrams" = false -> String.eqb x "ngram" = false -> String.eqb x "i" = false -> String.eqb x "position" = false ->
                         String.eqb x "LC" = false -> lookup x r2 = lookup x r).
  { intros x X1 X2 X3 X4 X5. rewrite Hfr2 by assumption. unfold r1. now rewrite !lookup_set_neq by assumption. }
  assert (Ewords : map (fun j => firstn ws (skipn (p0 + j) s)) (seq 0 (w - ws)) = lc_words w ws win).
  { unfold lc_words. apply map_ext_in. intros j Hj. apply in_seq in Hj. unfold win. symmetry. apply word_in_window. lia. }
  rewrite Ewords in Hng2.
  set (v := List.length (dedup_words (lc_words w ws win))).
  assert (Ev : MiniPy.eval cx_prim (ELen (EVar "ngrams")) r2 = VN v).
  { cbn [MiniPy.eval]. rewrite Hng2. unfold wordsv. rewrite map_length, fo_length. reflexivity. }
  rewrite exec_list_cons, (exec_assign_ok _ _ _ _ Ev eq_refl).
  set (r3 := set "v" (VN v) r2).
  set (vmax := Nat.min (k ^ ws) (w - 1 + ws)).
  assert (Em : MiniPy.eval cx_prim (ECall "min" [EListLit [ECall "pow" [ELen (EVar "alphabet"); EVar "wordSize"]; EAdd (ESub (EVar "windowSize") (EConst (VInt 1))) (EVar "wordSize")]]) r3 = VN vmax).
  { assert (Epow : MiniPy.eval cx_prim (ECall "pow" [ELen (EVar "alphabet"); EVar "wordSize"]) r3 = VInt (Z.of_nat k ^ Z.of_nat ws)).
    { rewrite (eval_call2 _ _ _ _ (VN k) (VN ws)); [| | rewrite eval_var; unfold r3; lk; rewrite L2 by reflexivity; exact Hwd | reflexivity | reflexivity].
      - unfold cx_prim. cbn [String.eqb Ascii.eqb Bool.eqb]. now replace (0 <=? Z.of_nat ws) with true by (symmetry; apply Z.leb_le; lia).
      - cbn [MiniPy.eval]. unfold r3. lk. rewrite L2 by reflexivity. rewrite Hal, Hk. reflexivity. }
    assert (Esum : MiniPy.eval cx_prim (EAdd (ESub (EVar "windowSize") (EConst (VInt 1))) (EVar "wordSize")) r3 = VInt (Z.of_nat w - 1 + Z.of_nat ws)).
    { apply eval_add_int; [apply eval_sub_int; [rewrite eval_var; unfold r3; lk; rewrite L2 by reflexivity; exact Hwsz | reflexivity]
                          | rewrite eval_var; unfold r3; lk; rewrite L2 by reflexivity; exact Hwd]. }
    rewrite (eval_call1 _ _ _ (VList [VInt (Z.of_nat k ^ Z.of_nat ws); VInt (Z.of_nat w - 1 + Z.of_nat ws)]));
      [| apply eval_listlit2; [exact Epow | exact Esum | reflexivity | reflexivity] | reflexivity].
    unfold cx_prim. cbn [String.eqb Ascii.eqb Bool.eqb]. f_equal. unfold vmax. rewrite Nat2Z.inj_min, Nat2Z.inj_pow. f_equal. lia. }
  rewrite exec_list_cons. cbn [nth lc_wspine]. rewrite (exec_assign_ok _ _ _ _ Em eq_refl).
  set (r4 := set "vmax" (VN vmax) r3).
  assert (Ed : MiniPy.eval cx_prim (ECall "fdiv" [EVar "v"; EVar "vmax"]) r4 = VQ (lc_value k w ws win)).
  { rewrite (eval_call2 _ _ _ _ (VN v) (VN vmax)); [| rewrite eval_var; unfold r4, r3; lk; reflexivity | rewrite eval_var; unfold r4; lk; reflexivity | reflexivity | reflexivity].
    unfold cx_prim. cbn [String.eqb Ascii.eqb Bool.eqb]. replace (0 <? Z.of_nat vmax) with true by (symmetry; apply Z.ltb_lt; unfold vmax; lia).
    unfold lc_value. fold vmax. fold v. rewrite to_pos_of_nat by (unfold vmax; lia). reflexivity. }
  rewrite exec_list_cons, (exec_assign_ok _ _ _ _ Ed eq_refl).
  set (r5 := set "LC" (VQ (lc_value k w ws win)) r4).
  rewrite exec_list_cons, (exec_append_ok _ _ _ arr (VQ (lc_value k w ws win)));
    [| unfold r5, r4, r3; lk; rewrite L2 by reflexivity; exact Harr | rewrite eval_var; unfold r5; lk; reflexivity | reflexivity].
  set (r6 := set "LC_array" _ r5).
  assert (Es : MiniPy.eval cx_prim (EAdd (EVar "step") (EVar "stepSize")) r6 = VN (p0 + st)).
  { rewrite (eval_add_int _ _ _ (Z.of_nat p0) (Z.of_nat st)); [f_equal; lia | rewrite eval_var; unfold r6, r5, r4, r3; lk; rewrite L2 by reflexivity; exact Hst
                                                                | rewrite eval_var; unfold r6, r5, r4, r3; lk; rewrite L2 by reflexivity; exact Hss]. }
  rewrite exec_list_cons, (exec_assign_ok _ _ _ _ Es eq_refl). cbn [MiniPy.exec_list].
  eexists. split; [reflexivity|]. unfold r6, r5, r4, r3. lk. rewrite !L2 by reflexivity. repeat split; assumption || reflexivity.
Qed.

Lemma lc_while (alph : list value) : (1 <= w)%nat -> (1 <= st)%nat -> (1 <= Nat.min (k ^ ws) (w - 1 + ws))%nat -> List.length alph = k ->
  forall m i arr n r, (i + m = nwin N w st)%nat -> (m < n)%nat ->
  lookup "sequence" r = wv s -> lookup "windowSize" r = VN w -> lookup "stepSize" r = VN st -> lookup "wordSize" r = VN ws ->
  lookup "alphabet" r = VList alph -> lookup "step" r = VN (i * st) -> lookup "LC_array" r = VList arr ->
  exists r', MiniPy.run_while cx_prim fuel lz_cond lc_while_body n r = ONorm r' /\
    lookup "LC_array" r' = VList (arr ++ map (fun j => VQ (lc_value k w ws (window w st s j))) (seq i m)).
Proof.
  intros Hw Hst1 Hvm Hk. induction m as [|m IH]; intros i arr n r Him Hn Hs Hwsz Hss Hwd Hal Hst Harr; (destruct n as [|n]; [lia|]); cbn [MiniPy.run_while].
  - rewrite (lz_cond_val s w st cx_prim i r Hs Hwsz Hst Hst1). replace (i <? nwin N w st)%nat with false by (symmetry; apply Nat.ltb_ge; lia).
    exists r. split; [reflexivity|]. cbn [seq map]. now rewrite app_nil_r.
  - rewrite (lz_cond_val s w st cx_prim i r Hs Hwsz Hst Hst1). replace (i <? nwin N w st)%nat with true by (symmetry; apply Nat.ltb_lt; lia).
    assert (Hin : (i * st + w <= N)%nat) by (apply (nwin_lt s w st); [exact Hst1 | lia]).
    destruct (lc_window (i * st) arr alph r Hw Hvm Hin Hs Hwsz Hss Hwd Hal Hk Hst Harr) as [r1 [E1 [Ha1 [Hs1 [Hq1 [Hw1 [Hss1 [Hwd1 Hal1]]]]]]]].
    rewrite E1.
    destruct (IH (S i) (arr ++ [VQ (lc_value k w ws (firstn w (skipn (i * st) s)))]) n r1) as [r2 [E2 Ha2]]; try assumption; try lia.
    { rewrite Hs1. f_equal. f_equal. lia. }
    exists r2. split; [exact E2|]. rewrite Ha2, <- app_assoc. cbn [seq map app]. reflexivity.
Qed.

(* LC on EVERY residue word, alphabet size, window, step and word size for which the denominator min(k^ws, w-1+ws) is
   positive (with enough loop fuel): window by window, the model's value — the number of DISTINCT words of the window
   (whichever occurrence the set keeps) over that denominator *)
Theorem LC_tie (alph : list value) r : (1 <= w)%nat -> (1 <= st)%nat -> (1 <= Nat.min (k ^ ws) (w - 1 + ws))%nat -> List.length alph = k ->
  (nwin N w st < fuel)%nat ->
  lookup "sequence" r = wv s -> lookup "windowSize" r = VN w -> lookup "stepSize" r = VN st -> lookup "wordSize" r = VN ws ->
  lookup "alphabet" r = VList alph ->
  exec fuel g_LC r = ORet (VList (map (fun win => VQ (lc_value k w ws win)) (windows w st s))).
Proof.
  intros Hw Hst Hvm Hk Hf Hs Hwsz Hss Hwd Hal. rewrite exec_spine. change (spine g_LC) with lc_spine. rewrite lc_parts.
  rewrite exec_list_cons, (exec_assign_ok _ _ _ (VInt 0)) by reflexivity.
  rewrite exec_list_cons, (exec_assign_ok _ _ _ (VList [])) by reflexivity.
  set (r1 := set "LC_array" (VList []) (set "step" (VInt 0) r)).
  rewrite exec_list_cons, exec_while.
  destruct (lc_while alph Hw Hst Hvm Hk (nwin N w st) 0 [] fuel r1) as [r2 [E2 Ha2]]; try (unfold r1; lk; assumption || reflexivity); try lia.
  rewrite E2, exec_list_cons. rewrite (exec_return_ok _ _ _ (eq_trans (eval_var _ _) Ha2) eq_refl).
  unfold windows. rewrite map_map. reflexivity.
Qed.
End LC.
Print Assumptions LC_tie.

(* ---------- CWF (Wootton-Federhen): the counting and accumulation; math.log is an ORACLE ---------- *)
Lemma count_chars x win : count_substr1 (aa_char x) (map aa_char win) = count_aa x win.
Proof.
  unfold count_aa. induction win as [|y win IH]; [reflexivity|]. cbn [map count_substr1 cnt]. rewrite IH, aa_char_eqb.
  destruct (aa_eqb x y); reflexivity.
Qed.

Section CWF.
Variable fuel : nat.
Variable L : Q -> Q.                 (* math.log(p, len(alphabet)): ANY function of p *)
Variable s : list aa.
Variables w st : nat.
Variable alph : list aa.
Local Notation N := (List.length s).

Definition cw_prim (name : string) (args : list value) : value :=
  if String.eqb name "math.log" then match args with [VQ p; VInt _] => VQ (L p) | _ => VErr end else cx_prim name args.

(* one alphabet letter: p = count / w; if p > 0 the accumulator becomes p * log(p) + accumulator *)
Definition cwf_step (acc : value) (c : Z) : value :=
  let p := c # Pos.of_nat w in
  if Qltb 0 p then match as_Q acc with Some a => VQ (Qred (Qred (p * L p) + a)) | None => VErr end else acc.
Definition neg_val (v : value) : value := match v with VInt z => VInt (0 - z) | VQ q => VQ (Qred (0 - q)) | _ => VErr end.
Definition cwf_value (win : list aa) : value := neg_val (fold_left cwf_step (wf_counts alph win) (VInt 0)).
Definition numv (v : value) : Prop := (exists z, v = VInt z) \/ (exists q, v = VQ q).

Definition cw_spine : list stmt := Eval vm_compute in spine g_CWF.
Definition cw_while_body : stmt := Eval vm_compute in match nth 2 cw_spine SSkip with SWhile _ b => b | _ => SSkip end.
Definition cw_wspine : list stmt := Eval vm_compute in spine cw_while_body.
Definition cw_for_body : stmt := Eval vm_compute in match nth 2 cw_wspine SSkip with SFor _ _ b => b | _ => SSkip end.
Lemma cw_parts : cw_spine = [SAssign "step" (EConst (VInt 0)); SAssign "CWF_array" (EListLit []); SWhile lz_cond cw_while_body; SReturn (EVar "CWF_array")].
Proof. reflexivity. Qed.
Lemma cw_wparts : cw_wspine = [SAssign "CWF" (EConst (VInt 0)); SAssign "window" (ESlice (EVar "sequence") (EVar "step") (EAdd (EVar "step") (EVar "windowSize")));
                               SFor "x" (EVar "alphabet") cw_for_body; SAppend "CWF_array" (ESub (EConst (VInt 0)) (EVar "CWF"));
                               SAssign "step" (EAdd (EVar "step") (EVar "stepSize"))].
Proof. reflexivity. Qed.

Notation alphv l := (map (fun a : aa => wv [a]) l).
Definition exec_w (r r' : env) : Prop := MiniPy.exec cw_prim fuel cw_while_body r = ONorm r'.

Lemma cwf_step_num acc c : numv acc -> numv (cwf_step acc c).
Proof.
  intros H. unfold cwf_step. destruct (Qltb 0 (c # Pos.of_nat w)); [|exact H].
  destruct H as [[z ->]|[q ->]]; right; eexists; reflexivity.
Qed.

Lemma cw_inner (win : list aa) : (1 <= w)%nat -> forall (al : list aa) acc r, numv acc ->
  lookup "window" r = wv win -> lookup "windowSize" r = VN w -> lookup "alphabet" r = VList (alphv alph) -> lookup "CWF" r = acc ->
  exists r', MiniPy.run_loop cw_prim fuel "x" cw_for_body (alphv al) r = ONorm r' /\
    lookup "CWF" r' = fold_left cwf_step (wf_counts al win) acc /\
    (forall y, String.eqb y "CWF" = false -> String.eqb y "x" = false -> String.eqb y "p" = false -> lookup y r' = lookup y r).
Proof.
  intros Hw. induction al as [|a al IH]; intros acc r Hnum Hwin Hws Hal Hacc.
  - exists r. cbn [map MiniPy.run_loop wf_counts fold_left]. repeat split; assumption || reflexivity.
  - cbn [map MiniPy.run_loop wf_counts fold_left]. set (c := count_aa a win).
    set (r0 := set "x" (wv [a]) r). unfold cw_for_body at 1.
    assert (Ep : MiniPy.eval cw_prim (ECall "fdiv" [ECount (EVar "window") (EVar "x"); EVar "windowSize"]) r0 = VQ (c # Pos.of_nat w)).
    { rewrite (eval_call2 _ _ _ _ (VInt c) (VN w)); [| | rewrite eval_var; unfold r0; lk; exact Hws | reflexivity | reflexivity].
      - unfold cw_prim, cx_prim. cbn [String.eqb Ascii.eqb Bool.eqb]. replace (0 <? Z.of_nat w) with true by (symmetry; apply Z.ltb_lt; lia).
        now rewrite to_pos_of_nat by exact Hw.
      - cbn [MiniPy.eval]. unfold r0. lk. rewrite Hwin. cbn [bad2 map]. unfold c. now rewrite count_chars. }
    rewrite exec_seq, (exec_assign_ok _ _ _ _ Ep eq_refl).
    set (p := c # Pos.of_nat w). set (r1 := set "p" (VQ p) r0).
    assert (Tp : truthy (MiniPy.eval cw_prim (EGt (EVar "p") (EConst (VInt 0))) r1) = VBool (Qltb 0 p)).
    { cbn [MiniPy.eval]. unfold r1. lk. reflexivity. }
    unfold cwf_step at 2. fold c. fold p. destruct (Qltb 0 p) eqn:Epos.
    + rewrite (exec_if_true _ _ _ _ Tp).
      assert (Hacc1 : lookup "CWF" r1 = acc) by (unfold r1, r0; lk; exact Hacc).
      assert (En : exists a0, as_Q acc = Some a0 /\
                   MiniPy.eval cw_prim (EAdd (EMul (EVar "p") (ECall "math.log" [EVar "p"; ELen (EVar "alphabet")])) (EVar "CWF")) r1 = VQ (Qred (Qred (p * L p) + a0))).
      { assert (El : MiniPy.eval cw_prim (ECall "math.log" [EVar "p"; ELen (EVar "alphabet")]) r1 = VQ (L p)).
        { rewrite (eval_call2 _ _ _ _ (VQ p) (VN (List.length alph))); [reflexivity | rewrite eval_var; unfold r1; lk; reflexivity | | reflexivity | reflexivity].
          cbn [MiniPy.eval]. unfold r1, r0. lk. rewrite Hal. now rewrite map_length. }
        assert (Em : MiniPy.eval cw_prim (EMul (EVar "p") (ECall "math.log" [EVar "p"; ELen (EVar "alphabet")])) r1 = VQ (Qred (p * L p))).
        { apply eval_mul_Q; [rewrite eval_var; unfold r1; lk; reflexivity | exact El]. }
        destruct Hnum as [[z ->]|[q ->]].
        - exists (inject_Z z). split; [reflexivity|]. apply eval_add_Q_int; [exact Em | rewrite eval_var; exact Hacc1].
        - exists q. split; [reflexivity|]. apply eval_add_Q; [exact Em | rewrite eval_var; exact Hacc1]. }
      destruct En as [a0 [Ea0 En]]. rewrite Ea0. rewrite (exec_assign_ok _ _ _ _ En eq_refl).
      destruct (IH (VQ (Qred (Qred (p * L p) + a0))) (set "CWF" (VQ (Qred (Qred (p * L p) + a0))) r1)) as [r' [E [H1 H3]]].
      * right. eexists. reflexivity.
      * unfold r1, r0. lk. exact Hwin.
      * unfold r1, r0. lk. exact Hws.
      * unfold r1, r0. lk. exact Hal.
      * lk. reflexivity.
      * exists r'. split; [exact E|]. split; [exact H1|].
        intros y Y1 Y2 Y3. rewrite H3 by assumption. unfold r1, r0. now rewrite !lookup_set_neq by assumption.
    + rewrite (exec_if_false _ _ _ _ Tp). cbn [MiniPy.exec].
      destruct (IH acc r1) as [r' [E [H1 H3]]]; try assumption.
      * unfold r1, r0. lk. exact Hwin.
      * unfold r1, r0. lk. exact Hws.
      * unfold r1, r0. lk. exact Hal.
      * unfold r1, r0. lk. exact Hacc.
      * exists r'. split; [exact E|]. split; [exact H1|].
        intros y Y1 Y2 Y3. rewrite H3 by assumption. unfold r1, r0. now rewrite !lookup_set_neq by assumption.
Qed.

Lemma fold_num l : forall acc, numv acc -> numv (fold_left cwf_step l acc).
Proof. induction l as [|c l IH]; intros acc H; [exact H|]. cbn [fold_left]. apply IH. now apply cwf_step_num. Qed.

Lemma cw_window (p0 : nat) (arr : list value) r : (1 <= w)%nat -> (p0 + w <= N)%nat ->
  lookup "sequence" r = wv s -> lookup "windowSize" r = VN w -> lookup "stepSize" r = VN st -> lookup "alphabet" r = VList (alphv alph) ->
  lookup "step" r = VN p0 -> lookup "CWF_array" r = VList arr ->
  exists r', exec_w r r' /\
    lookup "CWF_array" r' = VList (arr ++ [cwf_value (firstn w (skipn p0 s))]) /\ lookup "step" r' = VN (p0 + st) /\
    lookup "sequence" r' = wv s /\ lookup "windowSize" r' = VN w /\ lookup "stepSize" r' = VN st /\ lookup "alphabet" r' = VList (alphv alph).
Proof.
  unfold exec_w. intros Hw Hp Hs Hws Hss Hal Hst Harr. set (win := firstn w (skipn p0 s)).
  rewrite exec_spine. change (spine cw_while_body) with cw_wspine. rewrite cw_wparts.
  rewrite exec_list_cons, (exec_assign_ok _ _ _ (VInt 0)) by reflexivity.
  set (r0 := set "CWF" (VInt 0) r).
  assert (Ewin : MiniPy.eval cw_prim (ESlice (EVar "sequence") (EVar "step") (EAdd (EVar "step") (EVar "windowSize"))) r0 = wv win).
  { rewrite (eval_slice_str _ _ _ _ (map aa_char s) (Z.of_nat p0) (Z.of_nat p0 + Z.of_nat w)).
    - apply slice_word. exact Hp.
    - rewrite eval_var. unfold r0. lk. exact Hs.
    - rewrite eval_var. unfold r0. lk. exact Hst.
    - apply eval_add_int; rewrite eval_var; unfold r0; lk; assumption. }
  rewrite exec_list_cons, (exec_assign_ok _ _ _ _ Ewin eq_refl).
  set (r1 := set "window" (wv win) r0).
  rewrite exec_list_cons, exec_for, eval_var. replace (lookup "alphabet" r1) with (VList (alphv alph)) by (unfold r1, r0; lk; now rewrite Hal). cbn [elements].
  destruct (cw_inner win Hw alph (VInt 0) r1) as [r2 [E2 [Hc2 Hfr2]]].
  { left. eexists. reflexivity. } { unfold r1. lk. reflexivity. } { unfold r1, r0. lk. exact Hws. } { unfold r1, r0. lk. exact Hal. } { unfold r1, r0. lk. reflexivity. }
  rewrite E2.
  assert (L2 : forall y, String.eqb y "CWF" = false -> String.eqb y "x" = false -> String.eqb y "p" = false -> String.eqb y "window" = false ->
                         lookup y r2 = lookup y r).
  { intros y Y1 Y2 Y3 Y4. rewrite Hfr2 by assumption. unfold r1, r0. now rewrite !lookup_set_neq by assumption. }
  set (accv := fold_left cwf_step (wf_counts alph win) (VInt 0)) in *.
  assert (Eneg : MiniPy.eval cw_prim (ESub (EConst (VInt 0)) (EVar "CWF")) r2 = cwf_value win /\ is_bad (cwf_value win) = false).
  { unfold cwf_value. fold accv. destruct (fold_num (wf_counts alph win) (VInt 0) (or_introl (ex_intro _ 0 eq_refl))) as [[z Ez]|[q Eq]]; fold accv in Ez || fold accv in Eq.
    - rewrite Ez. split; [|reflexivity]. apply eval_sub_int; [reflexivity | rewrite eval_var, Hc2; exact Ez].
    - rewrite Eq. split; [|reflexivity]. cbn [MiniPy.eval]. rewrite Hc2, Eq. reflexivity. }
  destruct Eneg as [Eneg Bneg].
  assert (Harr2 : lookup "CWF_array" r2 = VList arr) by (rewrite L2 by reflexivity; exact Harr).
  rewrite exec_list_cons, (exec_append_ok _ _ _ arr _ Harr2 Eneg Bneg).
  set (r3 := set "CWF_array" _ r2).
  assert (Es : MiniPy.eval cw_prim (EAdd (EVar "step") (EVar "stepSize")) r3 = VN (p0 + st)).
  { rewrite (eval_add_int _ _ _ (Z.of_nat p0) (Z.of_nat st)); [f_equal; lia | rewrite eval_var; unfold r3; lk; rewrite L2 by reflexivity; exact Hst
                                                                | rewrite eval_var; unfold r3; lk; rewrite L2 by reflexivity; exact Hss]. }
  rewrite exec_list_cons, (exec_assign_ok _ _ _ _ Es eq_refl). cbn [MiniPy.exec_list].
  eexists. split; [reflexivity|]. unfold r3. lk. rewrite !L2 by reflexivity. repeat split; assumption || reflexivity.
Qed.

Lemma cw_while : (1 <= w)%nat -> (1 <= st)%nat -> forall m i arr n r, (i + m = nwin N w st)%nat -> (m < n)%nat ->
  lookup "sequence" r = wv s -> lookup "windowSize" r = VN w -> lookup "stepSize" r = VN st -> lookup "alphabet" r = VList (alphv alph) ->
  lookup "step" r = VN (i * st) -> lookup "CWF_array" r = VList arr ->
  exists r', MiniPy.run_while cw_prim fuel lz_cond cw_while_body n r = ONorm r' /\
    lookup "CWF_array" r' = VList (arr ++ map (fun j => cwf_value (window w st s j)) (seq i m)).
Proof.
  intros Hw Hst1. induction m as [|m IH]; intros i arr n r Him Hn Hs Hws Hss Hal Hst Harr; (destruct n as [|n]; [lia|]); cbn [MiniPy.run_while].
  - rewrite (lz_cond_val s w st cw_prim i r Hs Hws Hst Hst1). replace (i <? nwin N w st)%nat with false by (symmetry; apply Nat.ltb_ge; lia).
    exists r. split; [reflexivity|]. cbn [seq map]. now rewrite app_nil_r.
  - rewrite (lz_cond_val s w st cw_prim i r Hs Hws Hst Hst1). replace (i <? nwin N w st)%nat with true by (symmetry; apply Nat.ltb_lt; lia).
    assert (Hin : (i * st + w <= N)%nat) by (apply (nwin_lt s w st); [exact Hst1 | lia]).
    destruct (cw_window (i * st) arr r Hw Hin Hs Hws Hss Hal Hst Harr) as [r1 [E1 [Ha1 [Hs1 [Hq1 [Hw1 [Hss1 Hal1]]]]]]].
    unfold exec_w in E1. rewrite E1.
    destruct (IH (S i) (arr ++ [cwf_value (firstn w (skipn (i * st) s))]) n r1) as [r2 [E2 Ha2]]; try assumption; try lia.
    { rewrite Hs1. f_equal. f_equal. lia. }
    exists r2. split; [exact E2|]. rewrite Ha2, <- app_assoc. cbn [seq map app]. reflexivity.
Qed.

(* CWF on EVERY residue word, alphabet, window >= 1 and step >= 1, WHATEVER math.log returns: per window, minus the sum —
   accumulated letter by letter in the alphabet's order — of p * log(p) over the letters whose fraction p = count / w in
   the window is positive (the counts are the model's wf_counts; the entropy value itself is a real number, Proofs/Entropy.v) *)
Theorem CWF_tie r : (1 <= w)%nat -> (1 <= st)%nat -> (nwin N w st < fuel)%nat ->
  lookup "sequence" r = wv s -> lookup "windowSize" r = VN w -> lookup "stepSize" r = VN st -> lookup "alphabet" r = VList (alphv alph) ->
  MiniPy.exec cw_prim fuel g_CWF r = ORet (VList (map cwf_value (windows w st s))).
Proof.
  intros Hw Hst Hf Hs Hws Hss Hal. rewrite exec_spine. change (spine g_CWF) with cw_spine. rewrite cw_parts.
  rewrite exec_list_cons, (exec_assign_ok _ _ _ (VInt 0)) by reflexivity.
  rewrite exec_list_cons, (exec_assign_ok _ _ _ (VList [])) by reflexivity.
  set (r1 := set "CWF_array" (VList []) (set "step" (VInt 0) r)).
  rewrite exec_list_cons, exec_while.
  destruct (cw_while Hw Hst (nwin N w st) 0 [] fuel r1) as [r2 [E2 Ha2]]; try (unfold r1; lk; assumption || reflexivity); try lia.
  rewrite E2, exec_list_cons. rewrite (exec_return_ok _ _ _ (eq_trans (eval_var _ _) Ha2) eq_refl).
  unfold windows. rewrite map_map. reflexivity.
Qed.

(* what the accumulated value is: -(sum over the letters with p > 0 of p * log p), up to rational equality *)
Fixpoint cwf_sum (counts : list Z) : Q :=
  match counts with
  | [] => 0
  | c :: cs => let p := c # Pos.of_nat w in (if Qltb 0 p then p * L p else 0) + cwf_sum cs
  end.
Lemma fold_cwf_sum counts : forall acc a, as_Q acc = Some a -> numv acc ->
  exists q, as_Q (fold_left cwf_step counts acc) = Some q /\ (q == cwf_sum counts + a)%Q.
Proof.
  induction counts as [|c cs IH]; intros acc a Ha Hn; cbn [fold_left cwf_sum].
  - exists a. split; [exact Ha | ring].
  - unfold cwf_step at 2. destruct (Qltb 0 (c # Pos.of_nat w)).
    + rewrite Ha. destruct (IH (VQ (Qred (Qred ((c # Pos.of_nat w) * L (c # Pos.of_nat w)) + a))) _ eq_refl) as [q [E1 E2]]; [right; eexists; reflexivity|].
      exists q. split; [exact E1|]. rewrite E2, !Qred_correct. ring.
    + destruct (IH acc a Ha Hn) as [q [E1 E2]]. exists q. split; [exact E1|]. rewrite E2. ring.
Qed.
Theorem cwf_value_is_entropy win : exists q, as_Q (cwf_value win) = Some q /\ (q == - cwf_sum (wf_counts alph win))%Q.
Proof.
  unfold cwf_value. destruct (fold_cwf_sum (wf_counts alph win) (VInt 0) 0 eq_refl (or_introl (ex_intro _ 0 eq_refl))) as [q [E1 E2]].
  destruct (fold_num (wf_counts alph win) (VInt 0) (or_introl (ex_intro _ 0 eq_refl))) as [[z Ez]|[q0 Eq]].
  - rewrite Ez in *. cbn [as_Q] in E1. injection E1 as E1. subst q. exists (inject_Z (0 - z)). split; [reflexivity|].
    rewrite <- (Qplus_0_r (cwf_sum _)), <- E2. unfold Qeq, Qopp, inject_Z. cbn. lia.
  - rewrite Eq in *. cbn [as_Q] in E1. injection E1 as E1. subst q0. exists (Qred (0 - q)). split; [reflexivity|].
    rewrite Qred_correct, E2. ring.
Qed.
End CWF.
Print Assumptions CWF_tie.
Print Assumptions cwf_value_is_entropy.

(* ---------- the translated functions run; the hypotheses are satisfiable ---------- *)
Definition ex_seq : list aa := [Lys; Glu; Lys; Glu; Gly; Gly; Lys; Ala].
Definition ex_env (extra : env) : env :=
  [("sequence"%string, wv ex_seq); ("windowSize"%string, VInt 4); ("stepSize"%string, VInt 2)] ++ extra.
Example LZW_runs : MiniPy.exec cx_prim 10 g_LZW (ex_env []) = ORet (VList (map (fun win => VQ (lzw_value 4 win)) (windows 4 2 ex_seq)))
                   /\ map (lzw_value 4) (windows 4 2 ex_seq) = [3 # 4; 4 # 4; 4 # 4]%Q.
Proof. split; vm_compute; reflexivity. Qed.
Example LC_runs : MiniPy.exec cx_prim 10 g_LC (ex_env [("wordSize"%string, VInt 2); ("alphabet"%string, VList [VNone; VNone; VNone])]) =
                  ORet (VList (map (fun win => VQ (lc_value 3 4 2 win)) (windows 4 2 ex_seq)))
                  /\ map (lc_value 3 4 2) (windows 4 2 ex_seq) = [2 # 5; 2 # 5; 2 # 5]%Q.
Proof. split; vm_compute; reflexivity. Qed.
Example CWF_runs : let L := fun p : Q => (p - 1)%Q in
  MiniPy.exec (cw_prim L) 10 g_CWF (ex_env [("alphabet"%string, VList (map (fun a : aa => wv [a]) [Lys; Glu; Gly]))]) =
  ORet (VList (map (cwf_value L 4 [Lys; Glu; Gly]) (windows 4 2 ex_seq))).
Proof. vm_compute. reflexivity. Qed.
