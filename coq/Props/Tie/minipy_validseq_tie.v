(* Tie (C14) — SEMANTIC: the body of SequenceFileParser.__validSeq, translated from the working tree into a Core.MiniPy
   term on every run (Gen/GMiniPy.v, tools/py2coq/g_minipy.py), is run by the MiniPy interpreter and proved equal to the
   model's valid_seq for EVERY string of 8-bit characters: per-character step equality by exhaustive evaluation
   (256 characters, symbolic accumulator), lifted over the loop by Core.MiniPy.run_loop_rule. *)
From Coq Require Import List String Ascii ZArith Bool Lia.
From LC Require Import Core.Residue Core.MiniPy Model.Parser Proofs.Parser Gen.GMiniPy.
Import ListNotations.

Local Notation exec := (MiniPy.exec noprim 0).
Local Notation exec_list := (MiniPy.exec_list noprim 0).
Local Notation run_loop := (MiniPy.run_loop noprim 0).
Local Notation eval := (MiniPy.eval noprim).

Ltac all_ascii c := destruct c as [[] [] [] [] [] [] [] []].

(* ---------- SequenceFileParser.__validSeq ---------- *)
Definition tokchar (t : option aa) : ascii := match t with Some a => aa_char a | None => "*"%char end.

(* the environment at the loop head: parameters, then the assigned names *)
Definition vs_env (sequence : list ascii) (acc : list ascii) (iv : value) : env :=
  [("self"%string, VNone); ("sequence"%string, VStr sequence); ("parsed_seq"%string, VStr acc); ("i"%string, iv)].

Definition vs_step (st : list ascii * value) (v : value) : option (list ascii * value) :=
  match v with
  | VStr [c] =>
      match aa_of_char c with
      | Some _ => Some (fst st ++ [c], v)
      | None => if Ascii.eqb c " " then Some (fst st, v)
                else if Ascii.eqb c "*" then Some (fst st ++ [c], v)
                else if is_digit c then Some (fst st, v)
                else None
      end
  | _ => None
  end.

Lemma vs_split : exists pre body rest,
  split_at_for g_validSeq = Some (pre, ("i"%string, EVar "sequence", body), rest) /\
  (forall sq iv, exec_list pre (vs_env sq [] iv) = ONorm (vs_env sq [] iv)) /\
  (forall sq acc iv, exec rest (vs_env sq acc iv) = ORet (VStr acc)) /\
  (forall sq r st v, (exists c, v = VStr [c]) -> r = vs_env sq (fst st) (snd st) ->
     match vs_step st v with
     | Some st' => exists r', (exec body (set "i" v r) = ONorm r' \/ exec body (set "i" v r) = OCont r') /\ r' = vs_env sq (fst st') (snd st')
     | None => exec body (set "i" v r) = ORaise
     end).
Proof.
  eexists. eexists. eexists. split; [vm_compute; reflexivity|]. split; [|split].
  - intros. vm_compute. reflexivity.
  - intros. vm_compute. reflexivity.
  - intros sq r [acc iv] v [c ->] ->. cbn [fst snd].
    all_ascii c; vm_compute;
      first [ reflexivity
            | eexists; split; [left; reflexivity | reflexivity]
            | eexists; split; [right; reflexivity | reflexivity] ].
Qed.

Lemma vs_fold cs : forall acc iv,
  match valid_seq cs with
  | Some t => exists iv', fold_step vs_step (acc, iv) (map (fun c => VStr [c]) cs) = Some (acc ++ map tokchar t, iv')
  | None => fold_step vs_step (acc, iv) (map (fun c => VStr [c]) cs) = None
  end.
Proof.
  induction cs as [|c cs IH]; intros acc iv; cbn [valid_seq map fold_step].
  - exists iv. now rewrite app_nil_r.
  - change (vs_step (acc, iv) (VStr [c])) with
      (match aa_of_char c with
       | Some _ => Some (acc ++ [c], VStr [c])
       | None => if Ascii.eqb c " " then Some (acc, VStr [c])
                 else if Ascii.eqb c "*" then Some (acc ++ [c], VStr [c])
                 else if is_digit c then Some (acc, VStr [c]) else None
       end).
    destruct (aa_of_char c) as [a|] eqn:Ea.
    + specialize (IH (acc ++ [c]) (VStr [c])). destruct (valid_seq cs) as [t|].
      * destruct IH as [iv' IH]. exists iv'. rewrite IH. cbn [map tokchar]. rewrite (aa_of_char_some c a Ea), <- app_assoc. reflexivity.
      * exact IH.
    + destruct (Ascii.eqb c " ") eqn:E1; [apply IH|].
      destruct (Ascii.eqb c "*") eqn:E2.
      * apply Ascii.eqb_eq in E2. subst c. specialize (IH (acc ++ ["*"%char]) (VStr ["*"%char])). destruct (valid_seq cs) as [t|].
        -- destruct IH as [iv' IH]. exists iv'. rewrite IH. cbn [map tokchar]. rewrite <- app_assoc. reflexivity.
        -- exact IH.
      * destruct (is_digit c); [apply IH | reflexivity].
Qed.

(* the generated term run on ANY character string = the model's valid_seq *)
Theorem validSeq_tie cs :
  exec g_validSeq (vs_env cs [] VNone) =
  match valid_seq cs with Some t => ORet (VStr (map tokchar t)) | None => ORaise end.
Proof.
  destruct vs_split as (pre & body & rest & Hs & Hpre & Hrest & Hstep).
  rewrite (exec_split _ _ _ _ _ _ _ Hs), Hpre, exec_for.
  change (eval (EVar "sequence") (vs_env cs [] VNone)) with (VStr cs). cbn [elements].
  pose proof (run_loop_rule "i"%string body (fun r st => r = vs_env cs (fst st) (snd st)) vs_step (fun v => exists c, v = VStr [c])
                (fun r st v Hv HR => Hstep cs r st v Hv HR) (map (fun c => VStr [c]) cs)) as HL.
  assert (HP : Forall (fun v => exists c, v = VStr [c]) (map (fun c => VStr [c]) cs)).
  { apply Forall_forall. intros v Hv. apply in_map_iff in Hv. destruct Hv as [c [<- _]]. exists c. reflexivity. }
  specialize (HL HP (vs_env cs [] VNone) ([], VNone) eq_refl).
  pose proof (vs_fold cs [] VNone) as HF. destruct (valid_seq cs) as [t|].
  - destruct HF as [iv' HF]. rewrite HF in HL. destruct HL as [r' [-> ->]]. cbn [fst snd app]. apply Hrest.
  - rewrite HF in HL. rewrite HL. reflexivity.
Qed.
Print Assumptions validSeq_tie.

