(* Tie (C13): the constructor / validateSequence statement shapes the model mirrors are present in
   the source (fail-closed fingerprints), and the residue alphabet is the 20 letters. *)
From Coq Require Import List Bool String NArith.
From LC Require Import Core.Residue Model.Normalise Gen.GParams Gen.GTables.
Import ListNotations.

Lemma constructor_shape_tie : g_constructor_shape_ok = true.
Proof. reflexivity. Qed.

Lemma alphabet_tie :
  forallb (fun a => existsb (fun p => aa_eqb (fst p) a) GTables.one_to_three) all20 = true /\
  List.length GTables.one_to_three = 20%nat.
Proof. vm_compute. split; reflexivity. Qed.
