(* Tie (C18) — SEMANTIC: WangLandauMachine.indexInsideRelevantRegion, __run_flatcheck and the body of the
   `while f > self.convergence` loop of run_normal_WL, translated from the working tree on every run into Core.MiniPy
   terms (prints, log-file writes and the guarded verification hook are dropped; wall-clock reads are None).
   f is represented by its exponent k (f = exp(2^-k)): np.log(f) is the dyadic 2^-k and f ** 0.5 is k + 1 — the same
   abstraction as Model/WL.v.  The moves, kappa, the nearest-centre search np.argmin(abs(bincts - k)), np.exp and the
   two uniform draws are ORACLES.  For EVERY state and every oracle outcome one iteration of the translated loop body
   leaves exactly the state Model.WL.wl_step computes. *)
From Coq Require Import List String Ascii ZArith QArith Qabs Qround Qreduction Bool Arith Lia.
From LC Require Import Core.Residue Core.Lists Core.MiniPy Model.WL Gen.GMiniPy.
Import ListNotations.
Local Open Scope Z_scope.

Notation VN k := (VInt (Z.of_nat k)).

Ltac lk := repeat (rewrite lookup_set_eq || rewrite lookup_set_neq by reflexivity).

(* ---------- indexInsideRelevantRegion ---------- *)
Theorem inside_tie prim (c : wlcfg) (i : nat) r :
  lookup "idx" r = VN i -> lookup "self.relevant_max" r = VN (rmax c) -> lookup "self.relevant_min" r = VN (rmin c) ->
  MiniPy.exec prim 0 g_wl_inside r = ORet (VBool (in_range c i)).
Proof.
  intros Hi Hmax Hmin. unfold g_wl_inside, in_range.
  assert (E : truthy (MiniPy.eval prim (EAnd (ELe (EVar "idx") (EVar "self.relevant_max")) (EGe (EVar "idx") (EVar "self.relevant_min"))) r) =
              VBool ((rmin c <=? i)%nat && (i <=? rmax c)%nat)).
  { cbn [MiniPy.eval]. rewrite Hi, Hmax, Hmin. cbn [cmp_int bad2 truthy].
    destruct (Nat.leb_spec i (rmax c)) as [H1|H1].
    - replace (Z.of_nat i <=? Z.of_nat (rmax c)) with true by (symmetry; apply Z.leb_le; lia). cbn [truthy].
      rewrite andb_true_r. destruct (Nat.leb_spec (rmin c) i) as [H2|H2].
      + now replace (Z.of_nat i >=? Z.of_nat (rmin c)) with true by (symmetry; apply Z.geb_le; lia).
      + replace (Z.of_nat i >=? Z.of_nat (rmin c)) with false; [reflexivity|].
        symmetry. rewrite Z.geb_leb. apply Z.leb_gt. lia.
    - replace (Z.of_nat i <=? Z.of_nat (rmax c)) with false by (symmetry; apply Z.leb_gt; lia). now rewrite andb_false_r. }
  destruct ((rmin c <=? i)%nat && (i <=? rmax c)%nat); [rewrite (exec_if_true _ _ _ _ E) | rewrite (exec_if_false _ _ _ _ E)]; reflexivity.
Qed.
Print Assumptions inside_tie.

(* ---------- __run_flatcheck ---------- *)
(* numpy / float primitives of the tie: the mean of an integer array as an exact rational; f ** 0.5 on the exponent
   representation of f (k stands for exp(2^-k)); x ** 2 on integers (the sequence-log period) *)
Definition wl_num (name : string) (args : list value) : option value :=
  if String.eqb name "np.mean" then
    Some match args with
         | [VList l] => match ints_of l with
                        | Some [] => VExc
                        | Some zs => VQ (Qred (inject_Z (sumZ zs) / inject_Z (Z.of_nat (List.length zs))))
                        | None => VErr
                        end
         | _ => VErr
         end
  else if String.eqb name "pow" then
    Some match args with
         | [VInt k; VQ q] => if Qeq_bool q (1 # 2) then VInt (k + 1) else VErr
         | [VInt a; VInt 2] => VInt (a * a)
         | _ => VErr
         end
  else if String.eqb name "np.log" then
    Some match args with [VInt k] => VQ (lnf (Z.to_nat k)) | _ => VErr end
  else if String.eqb name "min" then
    Some match args with
         | [VList [VInt 1; VQ e]] => if Qle_bool 1 e then VInt 1 else VQ e
         | _ => VErr
         end
  (* Sequence objects as the triple (seq, chargePattern, dmax) the translated constructor stores (init_core_tie in
     minipy_moves_tie.v: with a non-empty pattern handed over, Sequence(s, d, p) stores exactly s, p, d) *)
  else if String.eqb name "Sequence" then
    Some match args with [VStr sq; d; VList (x :: p)] => VList [VStr sq; VList (x :: p); d] | _ => VErr end
  else if String.eqb name ".seq" then Some match args with [VList [sq; _; _]] => sq | _ => VErr end
  else if String.eqb name ".chargePattern" then Some match args with [VList [_; p; _]] => p | _ => VErr end
  else if String.eqb name ".dmax" then Some match args with [VList [_; _; d]] => d | _ => VErr end
  else if String.eqb name ".len" then Some match args with [VList [VStr sq; _; _]] => VInt (Z.of_nat (List.length sq)) | _ => VErr end
  else None.

Section Flat.
Variable rest : string -> list value -> value.
Definition fc_prim (name : string) (args : list value) : value :=
  match wl_num name args with Some v => v | None => rest name args end.
Local Notation exec := (MiniPy.exec fc_prim 0).
Local Notation eval := (MiniPy.eval fc_prim).

Lemma ints_of_map zs : ints_of (map VInt zs) = Some zs.
Proof. induction zs as [|z zs IH]; [reflexivity|]. cbn [map ints_of]. now rewrite IH. Qed.

Lemma enum_count cond (f : Z -> bool) r :
  (forall z k, truthy (eval cond (set "$x" (VInt z) (set "$i" (VInt k) r))) = VBool (f z)) ->
  forall zs k, exists l, enum_list fc_prim "$i" "$x" cond (EVar "$i") k (map VInt zs) r = VList l /\
                         List.length l = List.length (filter f zs).
Proof.
  intros Hc. induction zs as [|z zs IH]; intros k; [exists []; split; reflexivity|].
  cbn [map enum_list filter]. rewrite Hc. destruct (IH (k + 1)) as [l [E Hl]]. rewrite E. destruct (f z).
  - cbn [MiniPy.eval]. rewrite lookup_set_neq by reflexivity. rewrite lookup_set_eq. cbn [is_bad].
    exists (VInt k :: l). split; [reflexivity|]. cbn [List.length]. now rewrite Hl.
  - exists l. split; [reflexivity | exact Hl].
Qed.

Definition fc_spine : list stmt := Eval vm_compute in spine g_wl_flatcheck.
Definition fc_reset : stmt := Eval vm_compute in match nth 1 fc_spine SSkip with SIf _ a _ => a | _ => SSkip end.

Lemma exec_if_skip c r b : truthy (eval c r) = VBool b -> exec (SIf c SSkip SSkip) r = ONorm r.
Proof. intros H. destruct b; [rewrite (exec_if_true _ _ _ _ H) | rewrite (exec_if_false _ _ _ _ H)]; reflexivity. Qed.

Lemma zeros_val na : List.concat (repeat [VInt 0] na) = map VInt (zeros na).
Proof. unfold zeros. induction na as [|na IH]; [reflexivity|]. cbn [repeat List.concat map app]. now rewrite IH. Qed.

(* one flat check on ANY relevant histogram with at least one count, ANY criterion, exponent and iteration number:
   the flatness number is the number of bins with count / mean >= criterion; when it equals the number of relevant bins
   the histogram is reset to zeros, f becomes sqrt f (k + 1), the iteration number grows by one; otherwise nothing
   changes; the step counter is reset to 0 either way *)
Theorem flatcheck_tie (hl : list Z) (crit conv : Q) (nt na k ni : nat) (Hv : value) r :
  lookup "Hlocal" r = VList (map VInt hl) -> lookup "self.flatcrit" r = VQ crit -> lookup "self.nbins_target" r = VN nt ->
  lookup "self.nbins_actual" r = VN na -> lookup "f" r = VN k -> lookup "niter" r = VN ni -> lookup "H" r = Hv ->
  lookup "self.convergence" r = VQ conv -> is_bad Hv = false ->
  hl <> [] -> sumZ hl <> 0 ->
  let mean := Qred (inject_Z (sumZ hl) / inject_Z (Z.of_nat (List.length hl))) in
  let fnum := List.length (filter (fun z => Qle_bool crit (Qred (inject_Z z / mean))) hl) in
  exec g_wl_flatcheck r =
  ORet (if Nat.eqb fnum nt then VList [VList (map VInt (zeros na)); VN (S k); VN (S ni); VInt 0]
        else VList [Hv; VN k; VN ni; VInt 0]).
Proof.
  intros HHl Hcrit Hnt Hna Hf Hni HH Hconv HHv Hne Htot mean fnum.
  assert (Hmean : ~ (mean == 0)%Q).
  { unfold mean. rewrite Qred_correct. intros E.
    assert (Hn : ~ (inject_Z (Z.of_nat (List.length hl)) == 0)%Q).
    { destruct hl as [|z0 hl0]; [congruence|]. unfold Qeq. cbn [List.length inject_Z Qnum Qden]. lia. }
    assert (E2 : (inject_Z (sumZ hl) == 0)%Q).
    { transitivity (inject_Z (sumZ hl) / inject_Z (Z.of_nat (List.length hl)) * inject_Z (Z.of_nat (List.length hl)))%Q.
      - field. exact Hn.
      - transitivity (0 * inject_Z (Z.of_nat (List.length hl)))%Q; [apply Qmult_comp; [exact E | reflexivity] | ring]. }
    apply Htot. unfold Qeq in E2. cbn [inject_Z Qnum Qden] in E2. lia. }
  rewrite exec_spine. change (spine g_wl_flatcheck) with fc_spine. unfold fc_spine.
  (* flatness_number *)
  rewrite exec_list_cons.
  assert (E1 : eval (ELen (EEnumFilter "$i" "$x" (EGe (EDiv (EVar "$x") (ECall "np.mean" [EVar "Hlocal"])) (EVar "self.flatcrit")) (EVar "$i") (EVar "Hlocal"))) r = VN fnum).
  { change (eval (ELen ?a) r) with (match eval a r with VStr s => VInt (Z.of_nat (List.length s)) | VList l => VInt (Z.of_nat (List.length l))
                                      | VDict d => VInt (Z.of_nat (List.length d)) | VExc => VExc | _ => VErr end).
    rewrite eval_enumfilter. change (eval (EVar "Hlocal") r) with (lookup "Hlocal" r). rewrite HHl. cbn [elements].
    destruct (enum_count (EGe (EDiv (EVar "$x") (ECall "np.mean" [EVar "Hlocal"])) (EVar "self.flatcrit"))
                (fun z => Qle_bool crit (Qred (inject_Z z / mean))) r) with (zs := hl) (k := 0) as [l [E Hl]].
    { intros z j. cbn [MiniPy.eval]. lk. rewrite HHl, Hcrit. cbn [existsb orb fc_prim wl_num String.eqb Ascii.eqb Bool.eqb].
      rewrite ints_of_map. destruct hl as [|z0 hl0]; [congruence|]. fold mean. cbn [bad2 as_Q].
      destruct (Qeq_bool mean 0) eqn:E0; [apply Qeq_bool_iff in E0; contradiction|]. cbn [cmp_int bad2 as_Q truthy]. reflexivity. }
    rewrite E. now rewrite Hl. }
  rewrite (exec_assign_ok _ _ _ _ E1 eq_refl).
  (* the reset *)
  rewrite exec_list_cons.
  assert (E2 : truthy (eval (EEq (EVar "flatness_number") (EVar "self.nbins_target")) (set "flatness_number" (VN fnum) r)) = VBool (Nat.eqb fnum nt)).
  { cbn [MiniPy.eval]. lk. rewrite Hnt. cbn [bad2 veqb truthy]. destruct (Nat.eqb_spec fnum nt) as [->|Hn]; [now rewrite Z.eqb_refl|].
    f_equal. apply Z.eqb_neq. lia. }
  destruct (Nat.eqb fnum nt).
  - rewrite (exec_if_true _ _ _ _ E2). fold fc_reset. unfold fc_reset.
    assert (Ef : eval (ECall "pow" [EVar "f"; EConst (VQ (1 # 2))]) (set "flatness_number" (VN fnum) r) = VN (S k)).
    { cbn [MiniPy.eval]. lk. rewrite Hf. cbn [existsb orb]. unfold fc_prim, wl_num. cbn [String.eqb Ascii.eqb Bool.eqb].
      replace (Qeq_bool (1 # 2) (1 # 2)) with true by reflexivity. f_equal. lia. }
    rewrite exec_seq, (exec_assign_ok _ _ _ _ Ef eq_refl).
    rewrite exec_seq, (exec_assign_ok _ _ _ (VList (map VInt (zeros na))))
      by (cbn [MiniPy.eval]; lk; rewrite ?Hna; cbn [bad2 is_bad]; try reflexivity; rewrite Nat2Z.id, zeros_val; reflexivity).
    rewrite exec_seq, (exec_assign_ok _ _ _ (VN (S ni)))
      by (cbn [MiniPy.eval]; lk; rewrite ?Hni; cbn [bad2 is_bad]; try reflexivity; f_equal; lia).
    rewrite (exec_if_skip _ _ (Qltb conv (inject_Z (Z.of_nat (S k)))))
      by (cbn [MiniPy.eval]; lk; rewrite Hconv; reflexivity).
    rewrite exec_list_cons. rewrite (exec_return_ok _ _ (VList [VList (map VInt (zeros na)); VN (S k); VN (S ni); VInt 0]));
      [reflexivity | cbn [MiniPy.eval]; lk; reflexivity | reflexivity].
  - rewrite (exec_if_false _ _ _ _ E2). cbn [MiniPy.exec]. rewrite exec_list_cons.
    rewrite (exec_return_ok _ _ (VList [Hv; VN k; VN ni; VInt 0])); [reflexivity | | reflexivity].
    cbn [MiniPy.eval]. lk. rewrite HH, Hf, Hni. destruct Hv; try discriminate HHv; reflexivity.
Qed.
End Flat.
Print Assumptions flatcheck_tie.

(* ---------- count / mean >= criterion, as the model states it ---------- *)
Lemma flat_pred_equiv (crit : Q) (z tot : Z) (n : nat) : 0 < tot -> (0 < n)%nat ->
  Qle_bool crit (Qred (inject_Z z / Qred (inject_Z tot / inject_Z (Z.of_nat n)))) =
  Qle_bool (crit * inject_Z tot) (inject_Z z * inject_Z (Z.of_nat n)).
Proof.
  intros Ht Hn.
  assert (HT : (0 < inject_Z tot)%Q) by (unfold Qlt; cbn [inject_Z Qnum Qden]; lia).
  assert (HN : (0 < inject_Z (Z.of_nat n))%Q) by (unfold Qlt; cbn [inject_Z Qnum Qden]; lia).
  assert (E : (Qred (inject_Z z / Qred (inject_Z tot / inject_Z (Z.of_nat n))) == inject_Z z * inject_Z (Z.of_nat n) / inject_Z tot)%Q).
  { rewrite !Qred_correct. field. split; intros E0; [rewrite E0 in HT; apply (Qlt_irrefl 0 HT) | rewrite E0 in HN; apply (Qlt_irrefl 0 HN)]. }
  apply Bool.eq_iff_eq_true. rewrite !Qle_bool_iff. rewrite E. split; intros H.
  - apply (Qmult_lt_0_le_reg_r _ _ (/ inject_Z tot)); [apply Qinv_lt_0_compat; exact HT|].
    setoid_replace (crit * inject_Z tot * / inject_Z tot)%Q with crit by (field; intros E0; rewrite E0 in HT; apply (Qlt_irrefl 0 HT)).
    exact H.
  - apply Qle_shift_div_l; assumption.
Qed.

(* ---------- list helpers ---------- *)
Lemma index_val_map {A} (f : A -> value) (l : list A) (d : A) i : (i < List.length l)%nat ->
  index_val (map f l) (Z.of_nat i) = Some (f (nth i l d)).
Proof.
  intros H. unfold index_val. rewrite map_length.
  replace (Z.of_nat i <? 0) with false by (symmetry; apply Z.ltb_ge; lia).
  replace ((Z.of_nat i <? 0) || (Z.of_nat (List.length l) <=? Z.of_nat i)) with false
    by (symmetry; apply orb_false_iff; split; [apply Z.ltb_ge | apply Z.leb_gt]; lia).
  rewrite Nat2Z.id, nth_error_map, (nth_error_nth' _ d H). reflexivity.
Qed.

Lemma upd_split {A} (g : A -> A) (d : A) : forall (l : list A) i, (i < List.length l)%nat ->
  upd l i g = firstn i l ++ g (nth i l d) :: skipn (S i) l.
Proof.
  induction l as [|x l IH]; intros i H; [cbn in H; lia|]. destruct i as [|i]; [reflexivity|].
  cbn [upd firstn nth skipn app]. f_equal. apply IH. cbn [List.length] in H. lia.
Qed.

Lemma list_set_upd {A} (f : A -> value) (g : A -> A) (d : A) (l : list A) i : (i < List.length l)%nat ->
  list_set (map f l) (Z.of_nat i) (f (g (nth i l d))) = Some (map f (upd l i g)).
Proof.
  intros H. unfold list_set. rewrite map_length.
  replace (Z.of_nat i <? 0) with false by (symmetry; apply Z.ltb_ge; lia).
  replace ((Z.of_nat i <? 0) || (Z.of_nat (List.length l) <=? Z.of_nat i)) with false
    by (symmetry; apply orb_false_iff; split; [apply Z.ltb_ge | apply Z.leb_gt]; lia).
  rewrite Nat2Z.id, (upd_split g d l i H), map_app, firstn_map. cbn [map]. now rewrite skipn_map.
Qed.

Lemma upd_length {A} (g : A -> A) : forall (l : list A) i, List.length (upd l i g) = List.length l.
Proof. induction l as [|x l IH]; intros [|i]; cbn [upd List.length]; try reflexivity. now rewrite IH. Qed.

(* H[relevant_min : relevant_max + 1] is the model's relevant window *)
Lemma hlocal_slice (c : wlcfg) (h : list Z) : (1 <= nb_target c)%nat -> (rmin c + nb_target c <= List.length h)%nat ->
  (match slice_bounds (List.length (map VInt h)) (VN (rmin c)) (VInt (Z.of_nat (rmax c) + 1)) with
   | Some (i, j) => VList (firstn (j - i) (skipn i (map VInt h)))
   | None => VErr
   end) = VList (map VInt (hlocal c h)).
Proof.
  intros Hnt Hlen. unfold slice_bounds, clip, rmax, hlocal. rewrite map_length.
  replace (Z.of_nat (rmin c) <? 0) with false by (symmetry; apply Z.ltb_ge; lia).
  replace (Z.of_nat (rmin c + nb_target c - 1) + 1 <? 0) with false by (symmetry; apply Z.ltb_ge; lia).
  replace (Z.to_nat (Z.max 0 (Z.min (Z.of_nat (List.length h)) (Z.of_nat (rmin c))))) with (rmin c) by lia.
  replace (Z.to_nat (Z.max 0 (Z.min (Z.of_nat (List.length h)) (Z.of_nat (rmin c + nb_target c - 1) + 1)))) with (rmin c + nb_target c)%nat by lia.
  replace (rmin c + nb_target c - rmin c)%nat with (nb_target c) by lia.
  now rewrite skipn_map, firstn_map.
Qed.

Lemma hlocal_length (c : wlcfg) (h : list Z) : (rmin c + nb_target c <= List.length h)%nat -> List.length (hlocal c h) = nb_target c.
Proof. intros H. unfold hlocal. rewrite firstn_length, skipn_length. lia. Qed.

(* ---------- the update rule and the scheduled flat check: the last three statements of the loop body ---------- *)
Section Tail.
Variable c : wlcfg.
Variable conv : Q.
Variable rest : string -> list value -> value.

Definition fc_env (H Hl ni f g : value) : env :=
  [("H"%string, H); ("Hlocal"%string, Hl); ("niter"%string, ni); ("f"%string, f); ("g"%string, g);
   ("self.flatcrit"%string, VQ (crit c)); ("self.nbins_target"%string, VN (nb_target c));
   ("self.nbins_actual"%string, VN (nb_actual c)); ("self.convergence"%string, VQ conv)].

(* self.__run_flatcheck(...) is interpreted by RUNNING the translated __run_flatcheck on the arguments *)
Definition wl_prim (name : string) (args : list value) : value :=
  if String.eqb name "__run_flatcheck" then
    match args with
    | [H; Hl; ni; f; _; _; g] =>
        match MiniPy.exec (fc_prim rest) 0 g_wl_flatcheck (fc_env H Hl ni f g) with ORet v => v | ORaise => VExc | _ => VErr end
    | _ => VErr
    end
  else if String.eqb name "indexInsideRelevantRegion" then
    match args with
    | [i] => match MiniPy.exec (fc_prim rest) 0 g_wl_inside [("idx"%string, i); ("self.relevant_max"%string, VN (rmax c)); ("self.relevant_min"%string, VN (rmin c))] with
             | ORet v => v | ORaise => VExc | _ => VErr end
    | _ => VErr
    end
  else fc_prim rest name args.
Local Notation exec := (MiniPy.exec wl_prim 0).
Local Notation eval := (MiniPy.eval wl_prim).

Definition st_spine : list stmt := Eval vm_compute in spine g_wl_step.
Definition st_upd : stmt := Eval vm_compute in nth 12 st_spine SSkip.
Definition st_cnt : stmt := Eval vm_compute in nth 13 st_spine SSkip.
Definition st_chk : stmt := Eval vm_compute in nth 14 st_spine SSkip.
Definition st_chk_body : list stmt := Eval vm_compute in match st_chk with SIf _ a _ => spine a | _ => [] end.
Lemma st_tail_eq : skipn 12 st_spine = [st_upd; st_cnt; st_chk]. Proof. reflexivity. Qed.

Definition model_fnum (h : list Z) : nat :=
  List.length (filter (fun x => Qle_bool (crit c * inject_Z (sumZ (hlocal c h))) (inject_Z x * inject_Z (Z.of_nat (nb_target c)))) (hlocal c h)).

Lemma sumZ_nonneg (l : list Z) : (forall x, In x l -> 0 <= x) -> 0 <= sumZ l.
Proof.
  induction l as [|x l IH]; intros H; [cbn; lia|]. cbn [sumZ fold_right]. fold (sumZ l).
  assert (0 <= x) by (apply H; now left). assert (0 <= sumZ l) by (apply IH; intros y Hy; apply H; now right). lia.
Qed.
Lemma sumZ_pos (l : list Z) : (forall x, In x l -> 0 <= x) -> sumZ l <> 0 -> 0 < sumZ l.
Proof. intros H Hn. pose proof (sumZ_nonneg l H). lia. Qed.

Lemma In_firstn' {A} (x : A) : forall n (l : list A), In x (firstn n l) -> In x l.
Proof. induction n as [|n IH]; intros l H; [destruct H|]. destruct l as [|y l]; [destruct H|]. destruct H as [H|H]; [now left | right; now apply IH]. Qed.
Lemma In_skipn' {A} (x : A) : forall n (l : list A), In x (skipn n l) -> In x l.
Proof. induction n as [|n IH]; intros l H; [exact H|]. destruct l as [|y l]; [destruct H|]. right. apply IH. exact H. Qed.

(* the flat check on the window of a histogram, in the model's terms *)
Lemma flatcheck_window (h : list Z) (gval : value) (k ni : nat) :
  (1 <= nb_target c)%nat -> (rmin c + nb_target c <= List.length h)%nat -> (forall x, In x h -> 0 <= x) -> sumZ (hlocal c h) <> 0 ->
  MiniPy.exec (fc_prim rest) 0 g_wl_flatcheck (fc_env (VList (map VInt h)) (VList (map VInt (hlocal c h))) (VN ni) (VN k) gval) =
  ORet (if is_flat c h then VList [VList (map VInt (zeros (nb_actual c))); VN (S k); VN (S ni); VInt 0]
        else VList [VList (map VInt h); VN k; VN ni; VInt 0]).
Proof.
  intros Hnt Hlen Hpos Htot.
  assert (Hne : hlocal c h <> []).
  { intros E. apply (f_equal (@List.length _)) in E. rewrite hlocal_length in E by exact Hlen. cbn in E. lia. }
  rewrite (flatcheck_tie rest (hlocal c h) (crit c) conv (nb_target c) (nb_actual c) k ni (VList (map VInt h)))
    by (try reflexivity; assumption).
  cbv zeta. rewrite hlocal_length by exact Hlen.
  assert (Hl : forall x, In x (hlocal c h) -> 0 <= x).
  { intros x Hx. apply Hpos. unfold hlocal in Hx. apply In_firstn' in Hx. eapply In_skipn'. exact Hx. }
  assert (E : filter (fun z => Qle_bool (crit c) (Qred (inject_Z z / Qred (inject_Z (sumZ (hlocal c h)) / inject_Z (Z.of_nat (nb_target c)))))) (hlocal c h) =
              filter (fun x => Qle_bool (crit c * inject_Z (sumZ (hlocal c h))) (inject_Z x * inject_Z (Z.of_nat (nb_target c)))) (hlocal c h)).
  { apply filter_ext. intros z. apply flat_pred_equiv; [apply sumZ_pos; assumption | lia]. }
  rewrite E. unfold is_flat, flatness_number.
  replace (sumZ (hlocal c h) =? 0) with false by (symmetry; apply Z.eqb_neq; exact Htot). reflexivity.
Qed.

Definition st_call : list stmt := Eval vm_compute in spine (nth 3 st_chk_body SSkip).
Lemma st_chk_eq : st_chk = SIf (EEq (EMod (EVar "nstep") (EVar "self.nflatchk")) (EConst (VInt 0)))
                             (SSeq (nth 0 st_chk_body SSkip) (SSeq (nth 1 st_chk_body SSkip) (SSeq (nth 2 st_chk_body SSkip)
                               (SSeq (nth 3 st_chk_body SSkip) (SSeq (nth 4 st_chk_body SSkip) (nth 5 st_chk_body SSkip)))))) SSkip.
Proof. reflexivity. Qed.

(* nstep += 1 and, when due, the flat check: for ANY g, histogram, exponent, counters *)
Lemma chk_run (g' : list Q) (h' : list Z) (k ns ni : nat) (fc : Z) r :
  lookup "g" r = VList (map VQ g') -> lookup "H" r = VList (map VInt h') -> lookup "f" r = VN k ->
  lookup "nstep" r = VN ns -> lookup "niter" r = VN ni -> lookup "flatcount" r = VInt fc ->
  lookup "hlog" r = VNone -> lookup "glog" r = VNone ->
  lookup "self.nflatchk" r = VN (nflat c) -> lookup "self.relevant_min" r = VN (rmin c) -> lookup "self.relevant_max" r = VN (rmax c) ->
  (0 < nflat c)%nat -> (1 <= nb_target c)%nat -> (rmin c + nb_target c <= List.length h')%nat -> (forall x, In x h' -> 0 <= x) ->
  ((S ns mod nflat c =? 0)%nat = true -> sumZ (hlocal c h') <> 0) ->
  let due := (S ns mod nflat c =? 0)%nat in
  let flat := due && is_flat c h' in
  exists r', MiniPy.exec_list wl_prim 0 [st_cnt; st_chk] r = ONorm r' /\
    lookup "g" r' = VList (map VQ g') /\
    lookup "H" r' = VList (map VInt (if flat then zeros (nb_actual c) else h')) /\
    lookup "f" r' = VN (if flat then S k else k) /\
    lookup "nstep" r' = VN (if due then 0 else S ns) /\
    lookup "niter" r' = VN (if flat then S ni else ni) /\
    lookup "idx_old" r' = lookup "idx_old" r /\ lookup "oseq" r' = lookup "oseq" r.
Proof.
  intros Hg HH Hf Hns Hni Hfc Hhl Hgl Hnf Hmin Hmax Hnfp Hnt Hlen Hpos Htot due flat.
  rewrite exec_list_cons. unfold st_cnt.
  rewrite (exec_assign_ok _ _ _ (VN (S ns))) by (cbn [MiniPy.eval]; rewrite ?Hns; cbn [bad2 is_bad]; try reflexivity; f_equal; lia).
  set (r1 := set "nstep" (VN (S ns)) r).
  rewrite exec_list_cons, st_chk_eq.
  assert (Ed : truthy (eval (EEq (EMod (EVar "nstep") (EVar "self.nflatchk")) (EConst (VInt 0))) r1) = VBool due).
  { cbn [MiniPy.eval]. unfold r1. lk. rewrite Hnf. cbn [bad2].
    replace (Z.of_nat (nflat c) =? 0) with false by (symmetry; apply Z.eqb_neq; lia). cbn [bad2 veqb truthy].
    rewrite <- Nat2Z.inj_mod. unfold due. destruct (Nat.eqb_spec (S ns mod nflat c) 0) as [->|Hn]; [reflexivity|].
    f_equal. apply Z.eqb_neq. lia. }
  unfold flat. destruct due eqn:Edue.
  2:{ rewrite (exec_if_false _ _ _ _ Ed). cbn [MiniPy.exec MiniPy.exec_list andb]. eexists. split; [reflexivity|].
      unfold r1. lk. repeat split; assumption || reflexivity. }
  rewrite (exec_if_true _ _ _ _ Ed). cbn [andb nth st_chk_body].
  rewrite exec_seq, (exec_assign_ok _ _ _ (VInt 0)) by reflexivity.
  assert (Esl : eval (ESlice (EVar "H") (EVar "self.relevant_min") (EAdd (EVar "self.relevant_max") (EConst (VInt 1)))) (set "reject" (VInt 0) r1) =
                VList (map VInt (hlocal c h'))).
  { rewrite (eval_slice_list _ _ _ _ (map VInt h') (Z.of_nat (rmin c)) (Z.of_nat (rmax c) + 1)).
    - apply hlocal_slice; assumption.
    - rewrite eval_var. unfold r1. lk. exact HH.
    - rewrite eval_var. unfold r1. lk. exact Hmin.
    - apply eval_add_int; [rewrite eval_var; unfold r1; lk; exact Hmax | reflexivity]. }
  rewrite exec_seq, (exec_assign_ok _ _ _ _ Esl eq_refl).
  assert (Efc : eval (EAdd (EVar "flatcount") (EConst (VInt 1))) (set "Hlocal" (VList (map VInt (hlocal c h'))) (set "reject" (VInt 0) r1)) = VInt (fc + 1)).
  { cbn [MiniPy.eval]. unfold r1. lk. rewrite Hfc. reflexivity. }
  rewrite exec_seq, (exec_assign_ok _ _ _ _ Efc eq_refl).
  set (r2 := set "flatcount" (VInt (fc + 1)) (set "Hlocal" (VList (map VInt (hlocal c h'))) (set "reject" (VInt 0) r1))).
  set (ret := if is_flat c h' then VList [VList (map VInt (zeros (nb_actual c))); VN (S k); VN (S ni); VInt 0]
              else VList [VList (map VInt h'); VN k; VN ni; VInt 0]).
  assert (Ecall : eval (ECall "__run_flatcheck" [EVar "H"; EVar "Hlocal"; EVar "niter"; EVar "f"; EVar "hlog"; EVar "glog"; EVar "g"]) r2 = ret).
  { cbn [MiniPy.eval]. unfold r2, r1. lk. rewrite HH, Hni, Hf, Hhl, Hgl, Hg. cbn [existsb orb]. unfold wl_prim. cbn [String.eqb Ascii.eqb Bool.eqb].
    rewrite (flatcheck_window h' (VList (map VQ g')) k ni Hnt Hlen Hpos (Htot Edue)). unfold ret. destruct (is_flat c h'); reflexivity. }
  assert (Hret : is_bad ret = false) by (unfold ret; destruct (is_flat c h'); reflexivity).
  rewrite exec_seq. change (MiniPy.exec wl_prim 0 (SSeq ?a ?b) r2) with (MiniPy.exec wl_prim 0 (SSeq a b) r2).
  rewrite exec_spine. change (spine (SSeq ?a ?b)) with st_call. unfold st_call.
  rewrite exec_list_cons, (exec_assign_ok _ _ _ _ Ecall Hret).
  set (r3 := set "$1" ret r2).
  assert (I0 : eval (EIndex (EVar "$1") (EConst (VInt 0))) r3 = VList (map VInt (if is_flat c h' then zeros (nb_actual c) else h'))).
  { cbn [MiniPy.eval]. unfold r3. lk. unfold ret. destruct (is_flat c h'); reflexivity. }
  rewrite exec_list_cons, (exec_assign_ok _ _ _ _ I0 eq_refl).
  set (r4 := set "H" _ r3).
  assert (I1 : eval (EIndex (EVar "$1") (EConst (VInt 1))) r4 = VN (if is_flat c h' then S k else k)).
  { cbn [MiniPy.eval]. unfold r4, r3. lk. unfold ret. destruct (is_flat c h'); reflexivity. }
  rewrite exec_list_cons, (exec_assign_ok _ _ _ _ I1 eq_refl).
  set (r5 := set "f" _ r4).
  assert (I2 : eval (EIndex (EVar "$1") (EConst (VInt 2))) r5 = VN (if is_flat c h' then S ni else ni)).
  { cbn [MiniPy.eval]. unfold r5, r4, r3. lk. unfold ret. destruct (is_flat c h'); reflexivity. }
  rewrite exec_list_cons, (exec_assign_ok _ _ _ _ I2 eq_refl).
  set (r6 := set "niter" _ r5).
  assert (I3 : eval (EIndex (EVar "$1") (EConst (VInt 3))) r6 = VN 0).
  { cbn [MiniPy.eval]. unfold r6, r5, r4, r3. lk. unfold ret. destruct (is_flat c h'); reflexivity. }
  rewrite exec_list_cons, (exec_assign_ok _ _ _ _ I3 eq_refl).
  cbn [MiniPy.exec_list].
  rewrite exec_seq, (exec_assign_ok _ _ _ VNone) by reflexivity.
  rewrite (exec_assign_ok _ _ _ VNone) by reflexivity.
  cbn [MiniPy.exec_list]. eexists. split; [reflexivity|].
  unfold r6, r5, r4, r3, r2, r1. lk. repeat split; assumption || reflexivity.
Qed.

(* if not skip: g[idx_old] += ln f; H[idx_old] += 1 *)
Lemma upd_run (gv0 : list Q) (hv0 : list Z) (k io : nat) (sk : bool) r :
  lookup "skip" r = VBool sk -> lookup "idx_old" r = VN io -> lookup "g" r = VList (map VQ gv0) -> lookup "H" r = VList (map VInt hv0) ->
  lookup "f" r = VN k -> (io < List.length gv0)%nat -> (io < List.length hv0)%nat ->
  exists r', exec st_upd r = ONorm r' /\
    lookup "g" r' = VList (map VQ (if sk then gv0 else upd gv0 io (fun x => Qred (x + lnf k)%Q))) /\
    lookup "H" r' = VList (map VInt (if sk then hv0 else upd hv0 io (fun x => x + 1))) /\
    (forall x, String.eqb x "g" = false -> String.eqb x "H" = false -> lookup x r' = lookup x r).
Proof.
  intros Hsk Hio Hg HH Hf Hlg Hlh. unfold st_upd.
  assert (Et : truthy (eval (ENot (EVar "skip")) r) = VBool (negb sk)) by (cbn [MiniPy.eval]; rewrite Hsk; reflexivity).
  destruct sk; cbn [negb] in Et.
  - rewrite (exec_if_false _ _ _ _ Et). exists r. repeat split; assumption || reflexivity.
  - rewrite (exec_if_true _ _ _ _ Et), exec_seq.
    rewrite (exec_setitem_list "g" _ _ r (map VQ gv0) (Z.of_nat io) (VQ (Qred (nth io gv0 0%Q + lnf k))) (map VQ (upd gv0 io (fun x => Qred (x + lnf k)%Q))) Hg).
    2:{ cbn [MiniPy.eval]. exact Hio. }
    2:{ apply eval_add_Q.
        - apply (eval_index_list _ _ _ (map VQ gv0) (Z.of_nat io)); [rewrite eval_var; exact Hg | rewrite eval_var; exact Hio | apply (index_val_map VQ gv0 0%Q io Hlg)].
        - cbn [MiniPy.eval]. rewrite Hf. cbn [existsb orb].
          unfold wl_prim. cbn [String.eqb Ascii.eqb Bool.eqb]. unfold fc_prim, wl_num. cbn [String.eqb Ascii.eqb Bool.eqb]. rewrite Nat2Z.id. reflexivity. }
    2:{ reflexivity. }
    2:{ apply (list_set_upd VQ (fun x => Qred (x + lnf k)%Q) 0%Q gv0 io Hlg). }
    set (r1 := set "g" _ r).
    rewrite (exec_setitem_list "H" _ _ r1 (map VInt hv0) (Z.of_nat io) (VInt (nth io hv0 0 + 1)) (map VInt (upd hv0 io (fun x => x + 1)))).
    2:{ unfold r1. lk. exact HH. }
    2:{ cbn [MiniPy.eval]. unfold r1. lk. exact Hio. }
    2:{ apply eval_add_int; [|reflexivity].
        apply (eval_index_list _ _ _ (map VInt hv0) (Z.of_nat io)); [rewrite eval_var; unfold r1; lk; exact HH | rewrite eval_var; unfold r1; lk; exact Hio | apply (index_val_map VInt hv0 0 io Hlh)]. }
    2:{ reflexivity. }
    2:{ apply (list_set_upd VInt (fun x => x + 1) 0 hv0 io Hlh). }
    eexists. split; [reflexivity|]. unfold r1. lk. repeat split; try reflexivity.
    intros x Hx1 Hx2. now rewrite !lookup_set_neq by assumption.
Qed.

(* THE UPDATE RULE, as the translated code performs it: the last three statements of one iteration of the loop, started
   in ANY state (after the acceptance decision has fixed the current sequence and its bin), leave exactly the state
   Model.WL.wl_step computes: g grows by ln f and H by one at the current bin unless the proposal fell outside the
   relevant range; the step counter grows by one; at a scheduled check with a flat relevant histogram H is zeroed, f
   becomes sqrt f and the iteration number grows, and the step counter restarts at 0 at every scheduled check *)
Theorem tail_tie (s : wlst) (sk : bool) (fc : Z) r :
  lookup "skip" r = VBool sk -> lookup "idx_old" r = VN (idx_old s) ->
  lookup "g" r = VList (map VQ (gv s)) -> lookup "H" r = VList (map VInt (hv s)) -> lookup "f" r = VN (kexp s) ->
  lookup "nstep" r = VN (nstep s) -> lookup "niter" r = VN (niter s) -> lookup "flatcount" r = VInt fc ->
  lookup "hlog" r = VNone -> lookup "glog" r = VNone ->
  lookup "self.nflatchk" r = VN (nflat c) -> lookup "self.relevant_min" r = VN (rmin c) -> lookup "self.relevant_max" r = VN (rmax c) ->
  (idx_old s < List.length (gv s))%nat -> (idx_old s < List.length (hv s))%nat ->
  (0 < nflat c)%nat -> (1 <= nb_target c)%nat -> (rmin c + nb_target c <= List.length (hv s))%nat -> (forall x, In x (hv s) -> 0 <= x) ->
  let e0 := {| e_prop := []; e_idx := 0; e_skip := sk; e_ap := 0; e_u := 0; e_acc := false |} in
  let s' := wl_step c s e0 in
  ((S (nstep s) mod nflat c =? 0)%nat = true ->
     sumZ (hlocal c (if sk then hv s else upd (hv s) (idx_old s) (fun x => x + 1))) <> 0) ->
  exists r', MiniPy.exec_list wl_prim 0 (skipn 12 st_spine) r = ONorm r' /\
    lookup "g" r' = VList (map VQ (gv s')) /\ lookup "H" r' = VList (map VInt (hv s')) /\ lookup "f" r' = VN (kexp s') /\
    lookup "nstep" r' = VN (nstep s') /\ lookup "niter" r' = VN (niter s') /\ lookup "idx_old" r' = VN (idx_old s') /\
    lookup "oseq" r' = lookup "oseq" r.
Proof.
  intros Hsk Hio Hg HH Hf Hns Hni Hfc Hhl Hgl Hnf Hmin Hmax Hlg Hlh Hnfp Hnt Hlen Hpos e0 s' Htot.
  rewrite st_tail_eq, exec_list_cons.
  destruct (upd_run (gv s) (hv s) (kexp s) (idx_old s) sk r Hsk Hio Hg HH Hf Hlg Hlh) as [r1 [E1 [Hg1 [HH1 Hfr]]]].
  rewrite E1.
  set (g' := if sk then gv s else upd (gv s) (idx_old s) (fun x => Qred (x + lnf (kexp s))%Q)) in *.
  set (h' := if sk then hv s else upd (hv s) (idx_old s) (fun x => x + 1)) in *.
  assert (Hlen' : (rmin c + nb_target c <= List.length h')%nat) by (unfold h'; destruct sk; [exact Hlen | rewrite upd_length; exact Hlen]).
  assert (Hpos' : forall x, In x h' -> 0 <= x).
  { unfold h'. destruct sk; [exact Hpos|]. intros x Hx. rewrite (upd_split (fun x => x + 1) 0 (hv s) (idx_old s) Hlh) in Hx.
    apply in_app_or in Hx. destruct Hx as [Hx|[<-|Hx]].
    - apply Hpos. eapply In_firstn'. exact Hx.
    - assert (0 <= nth (idx_old s) (hv s) 0) by (apply Hpos, nth_In; exact Hlh). lia.
    - apply Hpos. eapply In_skipn'. exact Hx. }
  destruct (chk_run g' h' (kexp s) (nstep s) (niter s) fc r1) as [r2 [E2 [Hg2 [HH2 [Hf2 [Hn2 [Hi2 [Hio2 Hos2]]]]]]]];
    try assumption; try (rewrite Hfr by reflexivity; assumption).
  rewrite E2. exists r2. split; [reflexivity|].
  rewrite Hg2, HH2, Hf2, Hn2, Hi2, Hio2, Hos2, !Hfr by reflexivity. rewrite Hio.
  unfold s', wl_step, e0. cbn [e_acc e_skip e_idx e_prop]. fold g' h'.
  assert (Eg : (if sk then gv s else upd (gv s) (idx_old s) (fun x => Qred (x + lnf (kexp s))%Q)) = g') by reflexivity.
  destruct (S (nstep s) mod nflat c =? 0)%nat; cbn [andb]; [destruct (is_flat c h')|]; cbn [gv hv kexp nstep niter idx_old];
    repeat split; reflexivity.
Qed.
End Tail.
Print Assumptions tail_tie.

(* ---------- one whole iteration of the loop body ---------- *)
Section Step.
Variable c : wlcfg.
Variable conv : Q.
Variable rest : string -> list value -> value.    (* the oracles: moves, kappa, nearest centre, np.exp, uniform draws *)
Local Notation prim := (wl_prim c conv rest).
Local Notation exec := (MiniPy.exec prim 0).
Local Notation eval := (MiniPy.eval prim).

Definition st_head : list stmt := Eval vm_compute in firstn 12 st_spine.
Lemma st_split : st_spine = st_head ++ skipn 12 st_spine. Proof. reflexivity. Qed.

(* the move weights as the code computes them: 1, 41.5, 69.3, 78.2 over their sum 190 *)
Definition p1 : Q := 1 # 190.
Definition p2 : Q := 83 # 380.
Definition p3 : Q := 693 # 1900.
Definition p4 : Q := 391 # 950.
Definition mv_name (u : Q) : string :=
  if Qltb u p1 then ".full_shuffle"
  else if Qltb u (Qred (p2 + p1)) then ".swapRandChargeRes"
  else if Qltb u (Qred (Qred (p3 + p2) + p1)) then ".permute_block_swap"
  else ".permute_cluster_charges".

Lemma weights_run r : exists r', MiniPy.exec_list prim 0 (firstn 4 (skipn 1 st_head)) r = ONorm r' /\
  r' = set "p_cluster_charges" (VQ p4) (set "p_swap_blocks" (VQ p3) (set "p_swap_charges" (VQ p2) (set "p_full_shuffle" (VQ p1) r))).
Proof.
  cbn [st_head firstn skipn]. eexists. split; [|reflexivity].
  rewrite exec_list_cons, (exec_assign_ok _ _ _ (VQ p1)) by (vm_compute; reflexivity).
  rewrite exec_list_cons, (exec_assign_ok _ _ _ (VQ p2)) by (vm_compute; reflexivity).
  rewrite exec_list_cons, (exec_assign_ok _ _ _ (VQ p3)) by (vm_compute; reflexivity).
  rewrite exec_list_cons, (exec_assign_ok _ _ _ (VQ p4)) by (vm_compute; reflexivity).
  reflexivity.
Qed.

Definition st_dot : stmt := Eval vm_compute in nth 0 st_head SSkip.
Definition st_moves : stmt := Eval vm_compute in nth 6 st_head SSkip.
Definition st_inside : stmt := Eval vm_compute in nth 10 st_head SSkip.
Definition st_accept : stmt := Eval vm_compute in nth 11 st_head SSkip.
Definition st_acc_body : list stmt := Eval vm_compute in match st_accept with SIf _ a _ => spine a | _ => [] end.
Lemma st_head_eq : st_head = st_dot :: firstn 4 (skipn 1 st_head) ++
  [SAssign "r" (ECall "rand.random#1" []); st_moves; SAssign "knew" (ECall ".kappa" [EVar "nseq"]);
   SAssign "idx_new" (ECall "argmin_abs_diff" [EVar "bincts"; EVar "knew"]); SAssign "skip" (EConst (VBool false)); st_inside; st_accept].
Proof. reflexivity. Qed.

Lemma rest_call name args : wl_num name args = None -> String.eqb name "__run_flatcheck" = false ->
  String.eqb name "indexInsideRelevantRegion" = false -> prim name args = rest name args.
Proof. intros H1 H2 H3. unfold wl_prim. rewrite H2, H3. unfold fc_prim. now rewrite H1. Qed.

(* which move: the if-chain on the first uniform draw *)
Lemma moves_run (u1 : Q) (OS fz NS : value) r :
  lookup "r" r = VQ u1 -> lookup "p_full_shuffle" r = VQ p1 -> lookup "p_swap_charges" r = VQ p2 -> lookup "p_swap_blocks" r = VQ p3 ->
  lookup "oseq" r = OS -> lookup "self.frozen" r = fz -> is_bad OS = false -> is_bad fz = false -> is_bad NS = false ->
  rest (mv_name u1) [OS; fz] = NS ->
  exec st_moves r = ONorm (set "nseq" NS r).
Proof.
  intros Hr H1 H2 H3 Hos Hfz Bos Bfz Bns Hmv. unfold st_moves, mv_name in *.
  assert (Ecall : forall nm, wl_num nm [OS; fz] = None -> String.eqb nm "__run_flatcheck" = false -> String.eqb nm "indexInsideRelevantRegion" = false ->
                  rest nm [OS; fz] = NS -> eval (ECall nm [EVar "oseq"; EVar "self.frozen"]) r = NS).
  { intros nm W F1 F2 E. cbn [MiniPy.eval]. rewrite Hos, Hfz.
    replace (existsb (fun v => match v with VErr => true | _ => false end) [OS; fz]) with false by (destruct OS, fz; try discriminate; reflexivity).
    replace (existsb (fun v => match v with VExc => true | _ => false end) [OS; fz]) with false by (destruct OS, fz; try discriminate; reflexivity).
    rewrite rest_call by assumption. exact E. }
  assert (T1 : truthy (eval (ELt (EVar "r") (EVar "p_full_shuffle")) r) = VBool (Qltb u1 p1)).
  { rewrite (eval_lt_Q _ _ _ u1 p1); [reflexivity | rewrite eval_var; exact Hr | rewrite eval_var; exact H1]. }
  assert (T2 : truthy (eval (ELt (EVar "r") (EAdd (EVar "p_swap_charges") (EVar "p_full_shuffle"))) r) = VBool (Qltb u1 (Qred (p2 + p1)))).
  { rewrite (eval_lt_Q _ _ _ u1 (Qred (p2 + p1))); [reflexivity | rewrite eval_var; exact Hr |].
    apply eval_add_Q; rewrite eval_var; assumption. }
  assert (T3 : truthy (eval (ELt (EVar "r") (EAdd (EAdd (EVar "p_swap_blocks") (EVar "p_swap_charges")) (EVar "p_full_shuffle"))) r) =
               VBool (Qltb u1 (Qred (Qred (p3 + p2) + p1)))).
  { rewrite (eval_lt_Q _ _ _ u1 (Qred (Qred (p3 + p2) + p1))); [reflexivity | rewrite eval_var; exact Hr |].
    apply eval_add_Q; [apply eval_add_Q; rewrite eval_var; assumption | rewrite eval_var; assumption]. }
  destruct (Qltb u1 p1).
  { rewrite (exec_if_true _ _ _ _ T1). apply exec_assign_ok; [apply Ecall; try reflexivity; exact Hmv | exact Bns]. }
  rewrite (exec_if_false _ _ _ _ T1). destruct (Qltb u1 (Qred (p2 + p1))).
  { rewrite (exec_if_true _ _ _ _ T2). apply exec_assign_ok; [apply Ecall; try reflexivity; exact Hmv | exact Bns]. }
  rewrite (exec_if_false _ _ _ _ T2). destruct (Qltb u1 (Qred (Qred (p3 + p2) + p1))).
  { rewrite (exec_if_true _ _ _ _ T3). apply exec_assign_ok; [apply Ecall; try reflexivity; exact Hmv | exact Bns]. }
  rewrite (exec_if_false _ _ _ _ T3). apply exec_assign_ok; [apply Ecall; try reflexivity; exact Hmv | exact Bns].
Qed.

(* inside the relevant range? then the Metropolis probability min(1, exp(g_old - g_new)), else reject *)
Lemma inside_run (gv0 : list Q) (io j : nat) (rj : Z) (ex : Q) r :
  lookup "idx_new" r = VN j -> lookup "idx_old" r = VN io -> lookup "g" r = VList (map VQ gv0) -> lookup "reject" r = VInt rj ->
  (io < List.length gv0)%nat -> (j < List.length gv0)%nat ->
  (in_range c j = true -> rest "np.exp" [VQ (Qred (nth io gv0 0%Q - nth j gv0 0%Q))] = VQ ex) ->
  exec st_inside r = ONorm (if in_range c j then set "acceptProb" (if Qle_bool 1 ex then VInt 1 else VQ ex) r
                            else set "skip" (VBool true) (set "acceptProb" (VInt 0) (set "reject" (VInt (rj + 1)) r))).
Proof.
  intros Hj Hio Hg Hrj Lio Lj Hex. unfold st_inside.
  assert (T : truthy (eval (ECall "indexInsideRelevantRegion" [EVar "idx_new"]) r) = VBool (in_range c j)).
  { cbn [MiniPy.eval]. rewrite Hj. cbn [existsb orb]. unfold wl_prim. cbn [String.eqb Ascii.eqb Bool.eqb].
    rewrite (inside_tie (fc_prim rest) c j [("idx"%string, VN j); ("self.relevant_max"%string, VN (rmax c)); ("self.relevant_min"%string, VN (rmin c))] eq_refl eq_refl eq_refl). reflexivity. }
  destruct (in_range c j).
  - rewrite (exec_if_true _ _ _ _ T). apply exec_assign_ok; [|destruct (Qle_bool 1 ex); reflexivity].
    assert (Ed : eval (ESub (EIndex (EVar "g") (EVar "idx_old")) (EIndex (EVar "g") (EVar "idx_new"))) r = VQ (Qred (nth io gv0 0%Q - nth j gv0 0%Q))).
    { apply eval_sub_Q.
      - apply (eval_index_list _ _ _ (map VQ gv0) (Z.of_nat io)); [rewrite eval_var; exact Hg | rewrite eval_var; exact Hio | apply (index_val_map VQ gv0 0%Q io Lio)].
      - apply (eval_index_list _ _ _ (map VQ gv0) (Z.of_nat j)); [rewrite eval_var; exact Hg | rewrite eval_var; exact Hj | apply (index_val_map VQ gv0 0%Q j Lj)]. }
    assert (Ee : eval (ECall "np.exp" [ESub (EIndex (EVar "g") (EVar "idx_old")) (EIndex (EVar "g") (EVar "idx_new"))]) r = VQ ex).
    { rewrite (eval_call1 _ _ _ _ Ed eq_refl). rewrite rest_call by reflexivity. apply Hex. reflexivity. }
    rewrite (eval_call1 _ _ _ (VList [VInt 1; VQ ex])); [| apply eval_listlit2; [reflexivity | exact Ee | reflexivity | reflexivity] | reflexivity].
    unfold wl_prim. cbn [String.eqb Ascii.eqb Bool.eqb]. unfold fc_prim, wl_num. cbn [String.eqb Ascii.eqb Bool.eqb]. reflexivity.
  - rewrite (exec_if_false _ _ _ _ T).
    assert (Er : eval (EAdd (EVar "reject") (EConst (VInt 1))) r = VInt (rj + 1)) by (apply eval_add_int; [rewrite eval_var; exact Hrj | reflexivity]).
    rewrite exec_seq, (exec_assign_ok _ _ _ _ Er eq_refl).
    rewrite exec_seq, (exec_assign_ok _ _ _ (VInt 0)) by reflexivity.
    rewrite (exec_assign_ok _ _ _ (VBool true)) by reflexivity. reflexivity.
Qed.

(* the Metropolis test and, when it accepts, the new current object (a fresh Sequence from the proposal's fields), its
   kappa and bin *)
Lemma accept_run (u2 ap kn : Q) (apv bv dv pv d' x' : value) (cs cs' : list ascii) (p' : list value) (j : nat) (sc : Z) r :
  let OS := VList [VStr cs; pv; dv] in let NS := VList [VStr cs'; VList (x' :: p'); d'] in
  is_bad d' = false -> is_bad bv = false ->
  lookup "acceptProb" r = apv -> (apv = VInt 1 /\ ap = 1%Q) \/ (apv = VInt 0 /\ ap = 0%Q) \/ apv = VQ ap ->
  lookup "nseq" r = NS -> lookup "oseq" r = OS -> lookup "seqcount" r = VInt sc -> lookup "bincts" r = bv ->
  rest "rand.random#2" [] = VQ u2 -> rest ".kappa" [NS] = VQ kn -> rest "argmin_abs_diff" [bv; VQ kn] = VN j ->
  exists scv, exec st_accept r =
    ONorm (if Qltb u2 ap
           then set "idx_new" (VInt 0) (set "nseq" VNone (set "idx_old" (VN j) (set "kold" (VQ kn) (set "oseq" NS (set "seqcount" scv r)))))
           else set "idx_new" (VInt 0) (set "nseq" VNone r)).
Proof.
  intros OS NS Bd Bb Hap Hcase Hns Hos Hsc Hbv Hu2 Hkn Hj. unfold st_accept.
  assert (T : truthy (eval (ELt (ECall "rand.random#2" []) (EVar "acceptProb")) r) = VBool (Qltb u2 ap)).
  { cbn [MiniPy.eval]. rewrite rest_call by reflexivity. rewrite Hu2, Hap.
    destruct Hcase as [[-> ->]|[[-> ->]| ->]]; reflexivity. }
  destruct (Qltb u2 ap).
  2:{ exists VNone. rewrite (exec_if_false _ _ _ _ T). rewrite exec_seq, (exec_assign_ok _ _ _ VNone) by reflexivity.
      rewrite (exec_assign_ok _ _ _ (VInt 0)) by reflexivity. reflexivity. }
  rewrite (exec_if_true _ _ _ _ T). rewrite exec_spine. change (spine ?a) with st_acc_body. unfold st_acc_body.
  assert (Esc : exists scv, exec (nth 0 st_acc_body SSkip) r = ONorm (set "seqcount" scv r)).
  { cbn [nth st_acc_body].
    assert (T0 : truthy (eval (EEq (EVar "seqcount") (EConst (VInt 0))) r) = VBool (sc =? 0))
      by (rewrite (eval_eq_int _ _ _ sc 0); [reflexivity | rewrite eval_var; exact Hsc | reflexivity]).
    destruct (sc =? 0).
    - rewrite (exec_if_true _ _ _ _ T0). exists (VInt (Z.of_nat (List.length cs) * Z.of_nat (List.length cs))). apply exec_assign_ok; [|reflexivity].
      apply eval_toint_int.
      rewrite (eval_call2 _ _ _ _ (VInt (Z.of_nat (List.length cs))) (VInt 2)); [| | reflexivity | reflexivity | reflexivity].
      + unfold wl_prim. cbn [String.eqb Ascii.eqb Bool.eqb]. unfold fc_prim, wl_num. cbn [String.eqb Ascii.eqb Bool.eqb]. reflexivity.
      + rewrite (eval_call1 _ _ _ OS); [| rewrite eval_var; exact Hos | reflexivity].
        unfold wl_prim. cbn [String.eqb Ascii.eqb Bool.eqb]. unfold fc_prim, wl_num. cbn [String.eqb Ascii.eqb Bool.eqb]. reflexivity.
    - rewrite (exec_if_false _ _ _ _ T0). exists (VInt (sc - 1)). apply exec_assign_ok; [|reflexivity].
      apply eval_sub_int; [rewrite eval_var; exact Hsc | reflexivity]. }
  destruct Esc as [scv Esc]. exists scv. cbn [nth st_acc_body] in Esc.
  rewrite exec_list_cons, Esc.
  set (r1 := set "seqcount" scv r).
  assert (Hns1 : lookup "nseq" r1 = NS) by (unfold r1; lk; exact Hns).
  assert (Eo : eval (ECall "Sequence" [ECall ".seq" [EVar "nseq"]; ECall ".dmax" [EVar "nseq"]; ECall ".chargePattern" [EVar "nseq"]]) r1 = NS).
  { assert (Fld : forall nm v, wl_num nm [NS] = Some v -> String.eqb nm "__run_flatcheck" = false -> String.eqb nm "indexInsideRelevantRegion" = false ->
                    eval (ECall nm [EVar "nseq"]) r1 = v).
    { intros nm v W F1 F2. rewrite (eval_call1 _ _ _ NS); [| rewrite eval_var; exact Hns1 | unfold NS; reflexivity].
      unfold wl_prim. rewrite F1, F2. unfold fc_prim. now rewrite W. }
    rewrite (eval_call3 _ _ _ _ _ (VStr cs') d' (VList (x' :: p')) (Fld ".seq"%string _ eq_refl eq_refl eq_refl) (Fld ".dmax"%string _ eq_refl eq_refl eq_refl)
               (Fld ".chargePattern"%string _ eq_refl eq_refl eq_refl) eq_refl Bd eq_refl).
    unfold wl_prim. cbn [String.eqb Ascii.eqb Bool.eqb]. unfold fc_prim, wl_num. cbn [String.eqb Ascii.eqb Bool.eqb]. reflexivity. }
  rewrite exec_list_cons, (exec_assign_ok _ _ _ _ Eo) by (unfold NS; reflexivity).
  set (r2 := set "oseq" NS r1).
  assert (Ek : eval (ECall ".kappa" [EVar "oseq"]) r2 = VQ kn).
  { rewrite (eval_call1 _ _ _ NS); [| rewrite eval_var; unfold r2; lk; reflexivity | unfold NS; reflexivity].
    rewrite rest_call by reflexivity. exact Hkn. }
  rewrite exec_list_cons, (exec_assign_ok _ _ _ _ Ek eq_refl).
  set (r3 := set "kold" (VQ kn) r2).
  assert (Ei : eval (ECall "argmin_abs_diff" [EVar "bincts"; EVar "kold"]) r3 = VN j).
  { rewrite (eval_call2 _ _ _ _ bv (VQ kn)); [| rewrite eval_var; unfold r3, r2, r1; lk; exact Hbv | rewrite eval_var; unfold r3; lk; reflexivity | exact Bb | reflexivity].
    rewrite rest_call by reflexivity. exact Hj. }
  rewrite exec_list_cons, (exec_assign_ok _ _ _ _ Ei eq_refl).
  rewrite exec_list_cons, (exec_assign_ok _ _ _ VNone) by reflexivity.
  rewrite exec_list_cons, (exec_assign_ok _ _ _ (VInt 0)) by reflexivity.
  reflexivity.
Qed.

Lemma exec_if_skip' cnd r b : truthy (eval cnd r) = VBool b -> exec (SIf cnd SSkip SSkip) r = ONorm r.
Proof. intros H. destruct b; [rewrite (exec_if_true _ _ _ _ H) | rewrite (exec_if_false _ _ _ _ H)]; reflexivity. Qed.

Lemma wl_step_split (s : wlst) (e : event) :
  let s1 := {| cur := if e_acc e then e_prop e else cur s; idx_old := if e_acc e then e_idx e else idx_old s; gv := gv s; hv := hv s;
               kexp := kexp s; nstep := nstep s; niter := niter s; gbase := gbase s; counted := counted s |} in
  wl_step c s e = wl_step c s1 {| e_prop := []; e_idx := 0; e_skip := e_skip e; e_ap := 0; e_u := 0; e_acc := false |}.
Proof. reflexivity. Qed.

(* ONE ITERATION of `while f > self.convergence:` as the translated code performs it, from ANY state and for ANY outcome
   of the oracles (which move the first uniform draw selects and the object it returns, that object's kappa, the bin the
   nearest-centre search assigns, np.exp of the g difference, the second uniform draw): the state afterwards is exactly
   Model.WL.wl_step of the event these outcomes define — the proposal is accepted iff it lies in the relevant range and
   u < min(1, exp(g_old - g_new)); on acceptance the current object is rebuilt from the proposal's own fields and its bin
   is the proposal's bin; then the update rule and the scheduled flat check (tail_tie) *)
Theorem step_tie (s : wlst) (prop : list aa) (u1 u2 kn ex : Q) (j dq : nat) (rj sc fc : Z)
                 (fz bv pv dv d' x' : value) (p' : list value) r :
  let OS := VList [VStr (map aa_char (cur s)); pv; dv] in let NS := VList [VStr (map aa_char prop); VList (x' :: p'); d'] in
  lookup "nstep" r = VN (nstep s) -> lookup "self.dotdotfreq" r = VN dq -> (0 < dq)%nat ->
  lookup "oseq" r = OS -> lookup "self.frozen" r = fz -> lookup "bincts" r = bv ->
  is_bad pv = false -> is_bad dv = false -> is_bad fz = false -> is_bad bv = false -> is_bad x' = false -> is_bad d' = false ->
  (forall y, In y p' -> is_bad y = false) ->
  lookup "idx_old" r = VN (idx_old s) -> lookup "g" r = VList (map VQ (gv s)) -> lookup "H" r = VList (map VInt (hv s)) ->
  lookup "f" r = VN (kexp s) -> lookup "niter" r = VN (niter s) ->
  lookup "reject" r = VInt rj -> lookup "seqcount" r = VInt sc -> lookup "flatcount" r = VInt fc ->
  lookup "hlog" r = VNone -> lookup "glog" r = VNone ->
  lookup "self.nflatchk" r = VN (nflat c) -> lookup "self.relevant_min" r = VN (rmin c) -> lookup "self.relevant_max" r = VN (rmax c) ->
  rest "rand.random#1" [] = VQ u1 -> rest (mv_name u1) [OS; fz] = NS -> rest ".kappa" [NS] = VQ kn ->
  rest "argmin_abs_diff" [bv; VQ kn] = VN j ->
  (in_range c j = true -> rest "np.exp" [VQ (Qred (nth (idx_old s) (gv s) 0%Q - nth j (gv s) 0%Q))] = VQ ex) ->
  rest "rand.random#2" [] = VQ u2 ->
  (idx_old s < List.length (gv s))%nat -> (j < List.length (gv s))%nat -> List.length (hv s) = List.length (gv s) ->
  (0 < nflat c)%nat -> (1 <= nb_target c)%nat -> (rmin c + nb_target c <= List.length (hv s))%nat -> (forall x, In x (hv s) -> 0 <= x) ->
  let inr := in_range c j in
  let apq := if inr then (if Qle_bool 1 ex then 1%Q else ex) else 0%Q in
  let acc := Qltb u2 apq in
  let e := {| e_prop := prop; e_idx := j; e_skip := negb inr; e_ap := apq; e_u := u2; e_acc := acc |} in
  let s' := wl_step c s e in
  ((S (nstep s) mod nflat c =? 0)%nat = true ->
     sumZ (hlocal c (if negb inr then hv s else upd (hv s) (if acc then j else idx_old s) (fun x => x + 1))) <> 0) ->
  exists r', exec g_wl_step r = ONorm r' /\
    lookup "oseq" r' = (if acc then NS else OS) /\
    lookup "g" r' = VList (map VQ (gv s')) /\ lookup "H" r' = VList (map VInt (hv s')) /\ lookup "f" r' = VN (kexp s') /\
    lookup "nstep" r' = VN (nstep s') /\ lookup "niter" r' = VN (niter s') /\ lookup "idx_old" r' = VN (idx_old s').
Proof.
  intros OS NS Hns Hdq Hdqp Hos Hfz Hbv Bpv Bdv Bfz Bbv Bx' Bd' Bp' Hio Hg HH Hf Hni Hrj Hsc Hfc Hhl Hgl Hnf Hmin Hmax
         Hu1 Hmv Hkn Hj Hex Hu2 Lio Lj Lhg Hnfp Hnt Hlen Hpos inr apq acc e s' Htot.
  assert (BOS : is_bad OS = false) by reflexivity. assert (BNS : is_bad NS = false) by reflexivity.
  rewrite exec_spine. change (spine g_wl_step) with st_spine. rewrite st_split, exec_list_app, st_head_eq.
  (* progress dots *)
  rewrite exec_list_cons. unfold st_dot.
  rewrite (exec_if_skip' _ _ (Z.of_nat (nstep s) mod Z.of_nat dq =? 0)).
  2:{ cbn [MiniPy.eval]. rewrite Hns, Hdq. cbn [bad2]. replace (Z.of_nat dq =? 0) with false by (symmetry; apply Z.eqb_neq; lia). reflexivity. }
  (* weights *)
  rewrite exec_list_app. destruct (weights_run r) as [rw [Ew ->]]. rewrite Ew. clear Ew.
  set (r0 := set "p_cluster_charges" _ _).
  (* r *)
  rewrite exec_list_cons, (exec_assign_ok _ _ _ (VQ u1)) by (try reflexivity; rewrite eval_call0, rest_call by reflexivity; exact Hu1).
  set (r1 := set "r" (VQ u1) r0).
  rewrite exec_list_cons, (moves_run u1 OS fz NS r1) by (assumption || (unfold r1, r0; lk; assumption || reflexivity)).
  set (r2 := set "nseq" NS r1).
  assert (Ek : eval (ECall ".kappa" [EVar "nseq"]) r2 = VQ kn).
  { rewrite (eval_call1 _ _ _ NS); [| rewrite eval_var; unfold r2; lk; reflexivity | reflexivity]. rewrite rest_call by reflexivity. exact Hkn. }
  rewrite exec_list_cons, (exec_assign_ok _ _ _ _ Ek eq_refl).
  set (r3 := set "knew" (VQ kn) r2).
  assert (Ei : eval (ECall "argmin_abs_diff" [EVar "bincts"; EVar "knew"]) r3 = VN j).
  { rewrite (eval_call2 _ _ _ _ bv (VQ kn)); [| rewrite eval_var; unfold r3, r2, r1, r0; lk; exact Hbv | rewrite eval_var; unfold r3; lk; reflexivity | exact Bbv | reflexivity].
    rewrite rest_call by reflexivity. exact Hj. }
  rewrite exec_list_cons, (exec_assign_ok _ _ _ _ Ei eq_refl).
  rewrite exec_list_cons, (exec_assign_ok _ _ _ (VBool false)) by reflexivity.
  set (r4 := set "skip" (VBool false) (set "idx_new" (VN j) r3)).
  rewrite exec_list_cons, (inside_run (gv s) (idx_old s) j rj ex r4) by (assumption || (unfold r4, r3, r2, r1, r0; lk; assumption || reflexivity)).
  fold inr.
  set (r5 := if inr then set "acceptProb" (if Qle_bool 1 ex then VInt 1 else VQ ex) r4
             else set "skip" (VBool true) (set "acceptProb" (VInt 0) (set "reject" (VInt (rj + 1)) r4))).
  set (apv := if inr then (if Qle_bool 1 ex then VInt 1 else VQ ex) else VInt 0).
  assert (L5 : forall x, String.eqb x "acceptProb" = false -> String.eqb x "skip" = false -> String.eqb x "reject" = false -> lookup x r5 = lookup x r4).
  { intros x E1 E2 E3. unfold r5. destruct inr; now rewrite ?lookup_set_neq by assumption. }
  destruct (accept_run u2 apq kn apv bv dv pv d' x' (map aa_char (cur s)) (map aa_char prop) p' j sc r5) as [scv Ea];
    try assumption.
  { unfold r5, apv. destruct inr; lk; reflexivity. }
  { unfold apv, apq. destruct inr; [destruct (Qle_bool 1 ex)|]; auto. }
  { rewrite L5 by reflexivity. unfold r4, r3, r2. lk. reflexivity. }
  { rewrite L5 by reflexivity. unfold r4, r3, r2, r1, r0. lk. exact Hos. }
  { rewrite L5 by reflexivity. unfold r4, r3, r2, r1, r0. lk. exact Hsc. }
  { rewrite L5 by reflexivity. unfold r4, r3, r2, r1, r0. lk. exact Hbv. }
  rewrite exec_list_cons, Ea. fold acc. cbn [MiniPy.exec_list].
  set (r6 := if acc then _ else _).
  (* the rest: tail_tie on the intermediate state *)
  pose (s1 := {| cur := if acc then prop else cur s; idx_old := if acc then j else idx_old s; gv := gv s; hv := hv s;
                 kexp := kexp s; nstep := nstep s; niter := niter s; gbase := gbase s; counted := counted s |}).
  assert (L6 : forall x, String.eqb x "idx_new" = false -> String.eqb x "nseq" = false -> String.eqb x "idx_old" = false ->
                         String.eqb x "kold" = false -> String.eqb x "oseq" = false -> String.eqb x "seqcount" = false -> lookup x r6 = lookup x r5).
  { intros x E1 E2 E3 E4 E5 E6. unfold r6. destruct acc; now rewrite ?lookup_set_neq by assumption. }
  assert (L4 : forall x, String.eqb x "skip" = false -> String.eqb x "idx_new" = false -> String.eqb x "knew" = false -> String.eqb x "nseq" = false ->
                         String.eqb x "r" = false -> String.eqb x "p_cluster_charges" = false -> String.eqb x "p_swap_blocks" = false ->
                         String.eqb x "p_swap_charges" = false -> String.eqb x "p_full_shuffle" = false -> lookup x r4 = lookup x r).
  { intros x E1 E2 E3 E4 E5 E6 E7 E8 E9. unfold r4, r3, r2, r1, r0. now rewrite !lookup_set_neq by assumption. }
  destruct (tail_tie c conv rest s1 (negb inr) fc r6) as [r7 [E7 [Hg7 [HH7 [Hf7 [Hn7 [Hi7 [Hio7 Hos7]]]]]]]]; cbn [idx_old gv hv kexp nstep niter s1]; try assumption.
  { unfold r6, r5. destruct acc, inr; lk; unfold r4; lk; reflexivity. }
  { unfold r6. destruct acc; lk; [reflexivity|]. unfold r5. destruct inr; lk; unfold r4, r3, r2, r1, r0; lk; exact Hio. }
  { rewrite L6, L5, L4 by reflexivity. exact Hg. }
  { rewrite L6, L5, L4 by reflexivity. exact HH. }
  { rewrite L6, L5, L4 by reflexivity. exact Hf. }
  { rewrite L6, L5, L4 by reflexivity. exact Hns. }
  { rewrite L6, L5, L4 by reflexivity. exact Hni. }
  { rewrite L6, L5, L4 by reflexivity. exact Hfc. }
  { rewrite L6, L5, L4 by reflexivity. exact Hhl. }
  { rewrite L6, L5, L4 by reflexivity. exact Hgl. }
  { rewrite L6, L5, L4 by reflexivity. exact Hnf. }
  { rewrite L6, L5, L4 by reflexivity. exact Hmin. }
  { rewrite L6, L5, L4 by reflexivity. exact Hmax. }
  { destruct acc; assumption. }
  { rewrite Lhg. destruct acc; assumption. }
  exists r7. split; [exact E7|].
  rewrite Hos7, Hg7, HH7, Hf7, Hn7, Hi7, Hio7. unfold s'. rewrite (wl_step_split s e). cbn [e_acc e_prop e_idx e_skip e]. fold s1.
  repeat split; try reflexivity.
  unfold r6. destruct acc; lk; [reflexivity|]. rewrite L5 by reflexivity. unfold r4, r3, r2, r1, r0. lk. exact Hos.
Qed.
End Step.
Print Assumptions step_tie.

(* ---------- the translated loop body runs; the hypotheses of step_tie are satisfiable ---------- *)
Definition ex_c : wlcfg := {| nb_target := 2; nb_actual := 4; rmin := 1; nflat := 2; crit := 1 # 2 |}.
Definition ex_NS : value := VList [VStr (map aa_char [Glu; Lys; Gly]); VList [VInt (-1); VInt 1; VInt 0]; VInt (-1)].
Definition ex_rest (name : string) (args : list value) : value :=
  if String.eqb name "rand.random#1" then VQ (1 # 2)
  else if String.eqb name ".permute_block_swap" then ex_NS
  else if String.eqb name ".kappa" then VQ (3 # 5)
  else if String.eqb name "argmin_abs_diff" then VInt 2
  else if String.eqb name "np.exp" then VQ (2 # 1)
  else if String.eqb name "rand.random#2" then VQ (1 # 4)
  else VErr.
Definition ex_s : wlst := {| cur := [Lys; Glu; Gly]; idx_old := 1; gv := [0; 1; 0; 0]%Q; hv := [0; 1; 0; 0]; kexp := 0; nstep := 1; niter := 0;
                             gbase := repeat 0%Q 4; counted := 1 |}.
Definition ex_env : env :=
  [("nstep"%string, VInt 1); ("self.dotdotfreq"%string, VInt 5); ("oseq"%string, VList [VStr (map aa_char [Lys; Glu; Gly]); VList [VInt 1; VInt (-1); VInt 0]; VInt (-1)]);
   ("self.frozen"%string, VList []); ("bincts"%string, VNone); ("idx_old"%string, VInt 1); ("g"%string, VList (map VQ [0; 1; 0; 0]%Q));
   ("H"%string, VList (map VInt [0; 1; 0; 0])); ("f"%string, VInt 0); ("niter"%string, VInt 0); ("reject"%string, VInt 0); ("seqcount"%string, VInt 0);
   ("flatcount"%string, VInt 0); ("hlog"%string, VNone); ("glog"%string, VNone); ("self.nflatchk"%string, VInt 2);
   ("self.relevant_min"%string, VInt 1); ("self.relevant_max"%string, VInt 2)].
Definition ex_event : event := {| e_prop := [Glu; Lys; Gly]; e_idx := 2; e_skip := false; e_ap := 1; e_u := 1 # 4; e_acc := true |}.
Example step_runs :
  match MiniPy.exec (wl_prim ex_c (1 # 1000) ex_rest) 0 g_wl_step ex_env with
  | ONorm r' => let s' := wl_step ex_c ex_s ex_event in
                veqb (lookup "oseq" r') ex_NS &&
                veqb (lookup "H" r') (VList (map VInt (hv s'))) && veqb (lookup "g" r') (VList (map VQ (gv s'))) &&
                veqb (lookup "f" r') (VN (kexp s')) && veqb (lookup "nstep" r') (VN (WL.nstep s')) &&
                veqb (lookup "niter" r') (VN (niter s')) && veqb (lookup "idx_old" r') (VN (idx_old s')) &&
                (* a scheduled check with a flat window happened: H zeroed, f -> sqrt f *)
                Nat.eqb (kexp s') 1 && Nat.eqb (niter s') 1
  | _ => false
  end = true.
Proof. vm_compute. reflexivity. Qed.

(* ---------- the bin geometry of __init__ (NORMAL run) ---------- *)
Section Geometry.
Variable nb : nat.
Variables bmin bmax : Q.

Definition argmin_q (cts : list Q) (t : Q) : nat :=
  fold_left (fun best i => if Qle_bool (Qabs (nth best cts 0%Q - t)) (Qabs (nth i cts 0%Q - t)) then best else i) (seq 1 (List.length cts - 1)) 0%nat.
Definition centres_of (na : nat) : list Q := map (fun i => Z.of_nat (2 * i + 1) # Pos.of_nat (2 * na)) (seq 0 na).
Fixpoint qs_of (l : list value) : option (list Q) :=
  match l with [] => Some [] | VQ q :: l' => option_map (cons q) (qs_of l') | _ => None end.

Definition geo_prim (name : string) (args : list value) : value :=
  if String.eqb name "qdiv" then
    match args with
    | [a; b] => match as_Q a, as_Q b with
                | Some x, Some y => if Qeq_bool y 0 then VExc else VQ (Qred (x / y))
                | _, _ => VErr
                end
    | _ => VErr
    end
  else if String.eqb name "round" then match args with [VQ x] => VInt (round_half_even x) | _ => VErr end
  else if String.eqb name "getBinCenters" then match args with [VInt na] => VList (map VQ (centres_of (Z.to_nat na))) | _ => VErr end
  else if String.eqb name "argmin_abs_diff" then
    match args with [VList l; VQ t] => match qs_of l with Some cts => VN (argmin_q cts t) | None => VErr end | _ => VErr end
  else VErr.

Lemma qs_of_map l : qs_of (map VQ l) = Some l.
Proof. induction l as [|q l IH]; [reflexivity|]. cbn [map qs_of]. now rewrite IH. Qed.

Definition bw : Q := Qred (Qred (bmax - bmin) / inject_Z (Z.of_nat nb)).
Definition na_code : Z := round_half_even (Qred (inject_Z 1 / bw)).
Definition rmin_code : nat := argmin_q (centres_of (Z.to_nat na_code)) (Qred (bmin + Qred (bw / inject_Z 2))).

(* the geometry block on EVERY requested range (rationals) and bin number: binWidth, round(1 / binWidth) to the even neighbour
   at exact halves, the first centre nearest to binmin + binWidth / 2, and relevant_max = relevant_min + nbins - 1 *)
Theorem geometry_tie r : (1 <= nb)%nat -> ~ (bmax - bmin == 0)%Q -> 0 <= na_code ->
  lookup "binmin" r = VQ bmin -> lookup "binmax" r = VQ bmax -> lookup "self.nbins_target" r = VN nb ->
  exists r', MiniPy.exec geo_prim 0 g_wl_geometry r = ONorm r' /\
    lookup "self.nbins_actual" r' = VInt na_code /\ lookup "self.relevant_min" r' = VN rmin_code /\
    lookup "self.relevant_max" r' = VInt (Z.of_nat rmin_code + Z.of_nat nb - 1) /\
    lookup "self.binmin" r' = VQ bmin /\ lookup "self.binmax" r' = VQ bmax.
Proof.
  intros Hnb Hd Hna Hmin Hmax Hnt. unfold g_wl_geometry.
  rewrite exec_seq, (exec_assign_ok _ _ _ (VQ bmin)) by (try reflexivity; rewrite eval_var; exact Hmin).
  rewrite exec_seq, (exec_assign_ok _ _ _ (VQ bmax)) by (try reflexivity; rewrite eval_var; lk; exact Hmax).
  set (r2 := set "self.binmax" (VQ bmax) (set "self.binmin" (VQ bmin) r)).
  assert (Ed : MiniPy.eval geo_prim (ESub (EVar "self.binmax") (EVar "self.binmin")) r2 = VQ (Qred (bmax - bmin))).
  { apply eval_sub_Q; rewrite eval_var; unfold r2; lk; reflexivity. }
  rewrite exec_seq, (exec_assign_ok _ _ _ _ Ed eq_refl).
  set (r3 := set "diff" (VQ (Qred (bmax - bmin))) r2).
  assert (Ew : MiniPy.eval geo_prim (ECall "qdiv" [EVar "diff"; EVar "self.nbins_target"]) r3 = VQ bw).
  { rewrite (eval_call2 _ _ _ _ (VQ (Qred (bmax - bmin))) (VN nb)); [| rewrite eval_var; unfold r3; lk; reflexivity | rewrite eval_var; unfold r3, r2; lk; exact Hnt | reflexivity | reflexivity].
    unfold geo_prim. cbn [String.eqb Ascii.eqb Bool.eqb as_Q].
    replace (Qeq_bool (inject_Z (Z.of_nat nb)) 0) with false; [reflexivity|]. symmetry. apply not_true_is_false. intros C. apply Qeq_bool_iff in C.
    unfold Qeq, inject_Z in C. cbn in C. lia. }
  rewrite exec_seq, (exec_assign_ok _ _ _ _ Ew eq_refl).
  set (r4 := set "binWidth" (VQ bw) r3).
  assert (Hbw : Qeq_bool bw 0 = false).
  { apply not_true_is_false. intros C. apply Qeq_bool_iff in C. unfold bw in C. rewrite !Qred_correct in C. apply Hd.
    assert (Hn : ~ (inject_Z (Z.of_nat nb) == 0)%Q) by (unfold Qeq, inject_Z; cbn; lia).
    transitivity ((bmax - bmin) / inject_Z (Z.of_nat nb) * inject_Z (Z.of_nat nb))%Q; [field; exact Hn | rewrite C; ring]. }
  assert (En : MiniPy.eval geo_prim (EToInt (ECall "round" [ECall "qdiv" [EConst (VInt 1); EVar "binWidth"]])) r4 = VInt na_code).
  { apply eval_toint_int.
    assert (Eq : MiniPy.eval geo_prim (ECall "qdiv" [EConst (VInt 1); EVar "binWidth"]) r4 = VQ (Qred (inject_Z 1 / bw))).
    { rewrite (eval_call2 _ _ _ _ (VInt 1) (VQ bw) (eval_const _ _)); [| rewrite eval_var; unfold r4; lk; reflexivity | reflexivity | reflexivity].
      unfold geo_prim. cbn [String.eqb Ascii.eqb Bool.eqb as_Q]. now rewrite Hbw. }
    rewrite (eval_call1 _ _ _ _ Eq eq_refl). reflexivity. }
  rewrite exec_seq, (exec_assign_ok _ _ _ _ En eq_refl).
  set (r5 := set "self.nbins_actual" (VInt na_code) r4).
  assert (Ec : MiniPy.eval geo_prim (ECall "getBinCenters" [EVar "self.nbins_actual"]) r5 = VList (map VQ (centres_of (Z.to_nat na_code)))).
  { rewrite (eval_call1 _ _ _ (VInt na_code)); [reflexivity | rewrite eval_var; unfold r5; lk; reflexivity | reflexivity]. }
  rewrite exec_seq, (exec_assign_ok _ _ _ _ Ec eq_refl).
  set (r6 := set "bincts" _ r5).
  assert (Et : MiniPy.eval geo_prim (EAdd (EVar "self.binmin") (ECall "qdiv" [EVar "binWidth"; EConst (VInt 2)])) r6 = VQ (Qred (bmin + Qred (bw / inject_Z 2)))).
  { apply eval_add_Q; [rewrite eval_var; unfold r6, r5, r4, r3, r2; lk; reflexivity|].
    rewrite (eval_call2 _ _ _ _ (VQ bw) (VInt 2)); [reflexivity | rewrite eval_var; unfold r6, r5, r4; lk; reflexivity | reflexivity | reflexivity | reflexivity]. }
  assert (Er : MiniPy.eval geo_prim (ECall "argmin_abs_diff" [EVar "bincts"; EAdd (EVar "self.binmin") (ECall "qdiv" [EVar "binWidth"; EConst (VInt 2)])]) r6 = VN rmin_code).
  { rewrite (eval_call2 _ _ _ _ (VList (map VQ (centres_of (Z.to_nat na_code)))) _ (eq_trans (eval_var _ _) (lookup_set_eq _ _ _)) Et eq_refl eq_refl).
    unfold geo_prim. cbn [String.eqb Ascii.eqb Bool.eqb]. now rewrite qs_of_map. }
  rewrite exec_seq, (exec_assign_ok _ _ _ _ Er eq_refl).
  set (r7 := set "self.relevant_min" (VN rmin_code) r6).
  assert (Em : MiniPy.eval geo_prim (ESub (EAdd (EVar "self.relevant_min") (EVar "self.nbins_target")) (EConst (VInt 1))) r7 = VInt (Z.of_nat rmin_code + Z.of_nat nb - 1)).
  { apply eval_sub_int; [|reflexivity]. apply eval_add_int; rewrite eval_var; unfold r7, r6, r5, r4, r3, r2; lk; [reflexivity | exact Hnt]. }
  rewrite (exec_assign_ok _ _ _ _ Em eq_refl).
  eexists. split; [reflexivity|]. unfold r7, r6, r5, r4, r3, r2. lk. repeat split; reflexivity.
Qed.

(* ... and these are the model's: Model.WL.geom_of *)
Lemma Qle_bool_compat a a' b b' : (a == a')%Q -> (b == b')%Q -> Qle_bool a b = Qle_bool a' b'.
Proof. intros Ha Hb. apply Bool.eq_iff_eq_true. rewrite !Qle_bool_iff, Ha, Hb. reflexivity. Qed.
Lemma Qeq_bool_compat a a' b b' : (a == a')%Q -> (b == b')%Q -> Qeq_bool a b = Qeq_bool a' b'.
Proof. intros Ha Hb. apply Bool.eq_iff_eq_true. rewrite !Qeq_bool_iff, Ha, Hb. reflexivity. Qed.
Lemma rhe_compat x y : (x == y)%Q -> round_half_even x = round_half_even y.
Proof.
  intros H. unfold round_half_even. rewrite (Qfloor_comp _ _ H).
  assert (E : (x - inject_Z (Qfloor y) == y - inject_Z (Qfloor y))%Q) by (rewrite H; reflexivity).
  rewrite (Qle_bool_compat _ _ _ _ E (Qeq_refl _)), (Qeq_bool_compat _ _ _ _ E (Qeq_refl _)). reflexivity.
Qed.

Lemma centres_nth na i : (i < na)%nat -> nth i (centres_of na) 0%Q = (Z.of_nat (2 * i + 1) # Pos.of_nat (2 * na)).
Proof.
  intros H. unfold centres_of.
  assert (G : forall m a k (f : nat -> Q), (k < m)%nat -> nth k (map f (seq a m)) 0%Q = f (a + k)%nat).
  { induction m as [|m IH]; intros a k f Hk; [lia|]. cbn [seq map]. destruct k as [|k]; cbn [nth]; [now rewrite Nat.add_0_r|].
    rewrite IH by lia. f_equal. lia. }
  rewrite G by exact H. reflexivity.
Qed.

Lemma argmin_is_rmin na (w t : Q) : (t == bmin + w / 2)%Q -> argmin_q (centres_of na) t = rmin_of na w bmin.
Proof.
  intros Ht. assert (Hlen : List.length (centres_of na) = na) by (unfold centres_of; now rewrite map_length, seq_length).
  unfold argmin_q, rmin_of. rewrite Hlen.
  assert (G : forall l b, (b < na)%nat -> (forall i, In i l -> (i < na)%nat) ->
    fold_left (fun best i => if Qle_bool (Qabs (nth best (centres_of na) 0%Q - t)) (Qabs (nth i (centres_of na) 0%Q - t)) then best else i) l b =
    fold_left (fun best i => if Qle_bool (Qabs ((Z.of_nat (2 * best + 1) # Pos.of_nat (2 * na)) - (bmin + w / 2))) (Qabs ((Z.of_nat (2 * i + 1) # Pos.of_nat (2 * na)) - (bmin + w / 2))) then best else i) l b).
  { induction l as [|i l IH]; intros b Hb Hl; [reflexivity|]. cbn [fold_left].
    assert (Hi : (i < na)%nat) by (apply Hl; now left).
    rewrite (centres_nth na b Hb), (centres_nth na i Hi).
    rewrite (Qle_bool_compat _ (Qabs ((Z.of_nat (2 * b + 1) # Pos.of_nat (2 * na)) - (bmin + w / 2))) _ (Qabs ((Z.of_nat (2 * i + 1) # Pos.of_nat (2 * na)) - (bmin + w / 2))))
      by (rewrite Ht; reflexivity).
    destruct (Qle_bool _ _); apply IH; try assumption; intros j Hj; apply Hl; now right. }
  destruct na as [|na]; [reflexivity|]. apply G; [lia|]. intros i Hi. apply in_seq in Hi. lia.
Qed.

Theorem geometry_is_model : (1 <= nb)%nat -> ~ (bmax - bmin == 0)%Q -> (Z.to_nat na_code, rmin_code) = geom_of nb bmin bmax.
Proof.
  intros Hnb Hd. unfold geom_of. cbv zeta.
  set (w := ((bmax - bmin) / inject_Z (Z.of_nat nb))%Q).
  assert (Hn : ~ (inject_Z (Z.of_nat nb) == 0)%Q) by (unfold Qeq, inject_Z; cbn; lia).
  assert (Hw : (bw == w)%Q) by (unfold bw, w; rewrite !Qred_correct; reflexivity).
  assert (Hw0 : ~ (w == 0)%Q).
  { intros C. apply Hd. transitivity (w * inject_Z (Z.of_nat nb))%Q; [unfold w; field; exact Hn | rewrite C; ring]. }
  assert (Ena : na_code = round_half_even (1 / w)).
  { unfold na_code. apply rhe_compat. rewrite Qred_correct, Hw. reflexivity. }
  unfold rmin_code. rewrite Ena. f_equal. apply argmin_is_rmin. rewrite !Qred_correct, Hw. reflexivity.
Qed.
End Geometry.
Print Assumptions geometry_tie.
Print Assumptions geometry_is_model.

Example geometry_runs : (* [0.1, 0.9] in 2 bins: 1 / 0.4 = 2.5 rounds to the even neighbour 2 *)
  na_code 2 (1 # 10) (9 # 10) = 2 /\ rmin_code 2 (1 # 10) (9 # 10) = 0%nat /\ Model.WL.geom_of 2 (1 # 10) (9 # 10) = (2%nat, 0%nat) /\
  na_code 3 (1 # 10) (8 # 10) = 4 /\ Model.WL.geom_of 3 (1 # 10) (8 # 10) = (4%nat, rmin_code 3 (1 # 10) (8 # 10)).
Proof. repeat split; vm_compute; reflexivity. Qed.
