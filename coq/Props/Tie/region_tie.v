(* Tie (C08): the phasePlotRegion cascade regenerated from the source (over Q and over binary64)
   IS the modelled cascade — for all arguments, by conversion — and the annotation strings match. *)
From Coq Require Import ZArith QArith List String PrimFloat.
From LC Require Import Core.Residue Model.Region Gen.GSeq.
Import ListNotations.

Theorem regionQ_tie : forall fcr ncpr fp fn, g_regionQ fcr ncpr fp fn = m_regionQ fcr ncpr fp fn.
Proof. intros. reflexivity. Qed.

Theorem regionF_tie : forall fcr ncpr fp fn, g_regionF fcr ncpr fp fn = m_regionF fcr ncpr fp fn.
Proof. intros. reflexivity. Qed.

Lemma annotation_tie :
  forallb (fun r => match assoc_z r region_annotation with Some s => String.eqb s (annotation r) | None => false end)
          [1; 2; 3; 4; 5]%Z = true /\ List.length region_annotation = 5%nat.
Proof. vm_compute. split; reflexivity. Qed.

Print Assumptions regionQ_tie.
Print Assumptions regionF_tie.
