(* Tie (C10) — SEMANTIC: Sequence.linearDenistyOfAAs (the profile behind linearCompositions), translated from the working tree
   on every run into a Core.MiniPy term: the guard, the flank arithmetic, the loop that marks every residue 1.0 / 0.0 by
   membership in the target list, the loop over the windows (sum of the window / window size) and the two rows.  For
   EVERY sequence, target list and window >= 1: rejection exactly when the window is longer than the sequence, else
   positions 1..N and flank_start zeros, one value per full window = (number of target residues in THAT window) / w,
   flank_end zeros, with the flanks of Model.Windows.flanks. *)
From Coq Require Import List String Ascii ZArith QArith Qreduction Bool Arith Lia.
From LC Require Import Core.Residue Core.Lists Core.QTools Core.MiniPy Spec.Delta Model.Windows Gen.GMiniPy.
Import ListNotations.
Local Open Scope Z_scope.

Notation VN k := (VInt (Z.of_nat k)).
Ltac lk := repeat (rewrite lookup_set_eq || rewrite lookup_set_neq by reflexivity).

Section Hydro.
Variable s : list aa.                 (* self.seq *)
Variable w : nat.                     (* bloblen *)
Variable target : list aa.           (* targetAAs, as one-letter strings *)
Definition kd (a : aa) : Q := if existsb (aa_eqb a) target then 1 # 1 else 0 # 1.
Definition target_val : value := VList (map (fun a => VStr [aa_char a]) target).
Local Notation N := (List.length s).
Local Notation cs := (map aa_char s).

Fixpoint sum_vals (l : list value) : option Q :=
  match l with [] => Some 0%Q | v :: l' => match as_Q v, sum_vals l' with Some x, Some y => Some (Qred (x + y)) | _, _ => None end end.

Definition de_prim (name : string) (args : list value) : value :=
  if String.eqb name "__check_window_to_length" then
    match args with
    | [b] => match MiniPy.exec noprim 0 g_check_window [("self.seq"%string, VStr cs); ("bloblen"%string, b)] with
             | ONorm _ => VNone | ORaise => VExc | _ => VErr end
    | _ => VErr
    end
  else if String.eqb name "int_div" then
    match args with [VInt a; VInt b] => if b =? 0 then VExc else VInt (Z.quot a b) | _ => VErr end
  else if String.eqb name "np.vstack" then
    match args with [VList [a; b]] => VList [a; b] | _ => VErr end
  else if String.eqb name "sum" then match args with [VList l] => match sum_vals l with Some q => VQ q | None => VErr end | _ => VErr end
  else if String.eqb name "qdiv" then
    match args with
    | [a; b] => match as_Q a, as_Q b with
                | Some x, Some y => if Qeq_bool y 0 then VExc else VQ (Qred (x / y))
                | _, _ => VErr
                end
    | _ => VErr
    end
  else VErr.
Local Notation exec := (MiniPy.exec de_prim 0).
Local Notation eval := (MiniPy.eval de_prim).

Definition de_spine : list stmt := Eval vm_compute in spine g_linDensity.
Definition de_chain_body : stmt := Eval vm_compute in match nth 6 de_spine SSkip with SFor _ _ b => b | _ => SSkip end.
Definition de_body : stmt := Eval vm_compute in match nth 7 de_spine SSkip with SFor _ _ b => b | _ => SSkip end.
Definition lin_flanks : stmt :=
  SIf (EEq (EAdd (EMul (EConst (VInt 2)) (EVar "flank")) (EVar "nblobs")) (EVar "self.len"))
      (SSeq (SAssign "flank_start" (EVar "flank")) (SAssign "flank_end" (EVar "flank")))
      (SSeq (SAssign "flank_start" (ESub (EVar "flank") (EConst (VInt 1)))) (SAssign "flank_end" (EVar "flank"))).
Definition de_ret : stmt :=
  SReturn (ECall "np.vstack" [EListLit [ERange (EConst (VInt 1)) (EAdd (EVar "self.len") (EConst (VInt 1)));
                                       EAdd (EAdd (EMul (EListLit [EConst (VInt 0)]) (EVar "flank_start")) (EVar "blob_density"))
                                            (EMul (EListLit [EConst (VInt 0)]) (EVar "flank_end"))]]).
Lemma de_parts : de_spine =
  [SAssign "$_" (ECall "__check_window_to_length" [EVar "bloblen"]);
   SAssign "nblobs" (EAdd (ESub (EVar "self.len") (EVar "bloblen")) (EConst (VInt 1)));
   SAssign "flank" (ECall "int_div" [EVar "bloblen"; EConst (VInt 2)]);
   lin_flanks;
   SAssign "blob_density" (EMul (EListLit [EConst (VInt 0)]) (EVar "nblobs"));
   SAssign "target_seq" (EListLit []);
   SFor "res" (EVar "self.seq") de_chain_body;
   SFor "i" (ERange (EConst (VInt 0)) (EVar "nblobs")) de_body;
   de_ret].
Proof. reflexivity. Qed.

Lemma in_target a : v_in (VStr [aa_char a]) target_val = VBool (existsb (aa_eqb a) target).
Proof.
  unfold v_in, target_val. cbn [bad2]. f_equal. induction target as [|b l IH]; [reflexivity|]. cbn [map existsb]. rewrite IH. f_equal.
  destruct a, b; reflexivity.
Qed.

Definition kdv (l : list aa) : list value := map (fun a => VQ (kd a)) l.

Lemma chain_run : forall (t pre : list aa) r, lookup "targetAAs" r = target_val -> lookup "target_seq" r = VList (kdv pre) ->
  exists r', MiniPy.run_loop de_prim 0 "res" de_chain_body (map (fun c => VStr [c]) (map aa_char t)) r = ONorm r' /\
    lookup "target_seq" r' = VList (kdv (pre ++ t)) /\
    (forall x, String.eqb x "target_seq" = false -> String.eqb x "res" = false -> lookup x r' = lookup x r).
Proof.
  induction t as [|a t IH]; intros pre r Hk Hh.
  - exists r. cbn [map MiniPy.run_loop]. rewrite app_nil_r. repeat split; assumption || reflexivity.
  - cbn [map MiniPy.run_loop]. set (r0 := set "res" (VStr [aa_char a]) r). unfold de_chain_body at 1.
    assert (T : truthy (eval (EIn (EVar "res") (EVar "targetAAs")) r0) = VBool (existsb (aa_eqb a) target)).
    { change (eval (EIn ?x ?y) r0) with (v_in (eval x r0) (eval y r0)). rewrite !eval_var. unfold r0. lk. rewrite Hk, in_target. reflexivity. }
    assert (Estep : exists r1, exec (SIf (EIn (EVar "res") (EVar "targetAAs")) (SAppend "target_seq" (EConst (VQ (1 # 1)))) (SAppend "target_seq" (EConst (VQ (0 # 1))))) r0 = ONorm r1 /\
                    r1 = set "target_seq" (VList (kdv pre ++ [VQ (kd a)])) r0).
    { unfold kd. destruct (existsb (aa_eqb a) target).
      - rewrite (exec_if_true _ _ _ _ T). eexists. split; [apply (exec_append_ok _ _ _ (kdv pre) (VQ (1 # 1))); [unfold r0; lk; exact Hh | reflexivity | reflexivity] | reflexivity].
      - rewrite (exec_if_false _ _ _ _ T). eexists. split; [apply (exec_append_ok _ _ _ (kdv pre) (VQ (0 # 1))); [unfold r0; lk; exact Hh | reflexivity | reflexivity] | reflexivity]. }
    destruct Estep as [r1 [E1 ->]]. rewrite E1.
    destruct (IH (pre ++ [a]) (set "target_seq" (VList (kdv pre ++ [VQ (kd a)])) r0)) as [r2 [E [H1 H2]]].
    { lk. unfold r0. lk. exact Hk. } { lk. unfold kdv. now rewrite map_app. }
    exists r2. split; [exact E|]. split; [now rewrite H1, <- app_assoc|].
    intros x X1 X2. rewrite H2 by assumption. rewrite lookup_set_neq by exact X1. unfold r0. now rewrite lookup_set_neq by exact X2.
Qed.

Lemma sum_kdv (l : list aa) : exists q, sum_vals (kdv l) = Some q /\ (q == sumQ (map kd l))%Q.
Proof.
  induction l as [|a l [q [E Hq]]]; [exists 0%Q; split; reflexivity|]. cbn [kdv map sum_vals as_Q]. fold (kdv l). rewrite E.
  eexists. split; [reflexivity|]. rewrite Qred_correct, Hq. reflexivity.
Qed.

Definition wq : Q := inject_Z (Z.of_nat w).
Definition val_h (b : list aa) : value := match sum_vals (kdv b) with Some q => VQ (Qred (q / wq)) | None => VErr end.
Lemma val_h_ok b : is_bad (val_h b) = false.
Proof. unfold val_h. destruct (sum_kdv b) as [q [E _]]. now rewrite E. Qed.

Lemma list_set_mid {A} (done rest : list A) (x v : A) :
  list_set (done ++ x :: rest) (Z.of_nat (List.length done)) v = Some (done ++ v :: rest).
Proof.
  unfold list_set. rewrite app_length. cbn [List.length].
  replace (Z.of_nat (List.length done) <? 0) with false by (symmetry; apply Z.ltb_ge; lia).
  replace ((Z.of_nat (List.length done) <? 0) || (Z.of_nat (List.length done + S (List.length rest)) <=? Z.of_nat (List.length done))) with false
    by (symmetry; apply orb_false_iff; split; [apply Z.ltb_ge | apply Z.leb_gt]; lia).
  rewrite Nat2Z.id, firstn_app, Nat.sub_diag, firstn_all. cbn [firstn]. rewrite app_nil_r.
  replace (S (List.length done)) with (List.length done + 1)%nat by lia.
  rewrite skipn_app, skipn_all2 by lia. replace (List.length done + 1 - List.length done)%nat with 1%nat by lia. reflexivity.
Qed.

Lemma blob_slice i : (i + w <= N)%nat ->
  (match slice_bounds (List.length (kdv s)) (VN i) (VInt (Z.of_nat i + Z.of_nat w)) with
   | Some (a, b) => VList (firstn (b - a) (skipn a (kdv s)))
   | None => VErr end) = VList (kdv (blob w i s)).
Proof.
  intros H. unfold slice_bounds, clip, blob, kdv. rewrite map_length.
  replace (Z.of_nat i <? 0) with false by (symmetry; apply Z.ltb_ge; lia).
  replace (Z.of_nat i + Z.of_nat w <? 0) with false by (symmetry; apply Z.ltb_ge; lia).
  replace (Z.to_nat (Z.max 0 (Z.min (Z.of_nat N) (Z.of_nat i)))) with i by lia.
  replace (Z.to_nat (Z.max 0 (Z.min (Z.of_nat N) (Z.of_nat i + Z.of_nat w)))) with (i + w)%nat by lia.
  replace (i + w - i)%nat with w by lia. now rewrite skipn_map, firstn_map.
Qed.

(* one window *)
Lemma de_body_run i (done rest : list value) x r : (i + w <= N)%nat -> (1 <= w)%nat -> List.length done = i ->
  lookup "target_seq" r = VList (kdv s) -> lookup "bloblen" r = VN w -> lookup "i" r = VN i -> lookup "blob_density" r = VList (done ++ x :: rest) ->
  exists r', exec de_body r = ONorm r' /\ lookup "blob_density" r' = VList (done ++ val_h (blob w i s) :: rest) /\
    (forall y, String.eqb y "blob_density" = false -> String.eqb y "blob" = false -> lookup y r' = lookup y r).
Proof.
  intros Hi Hw Hd Hh Hb Hii Hres. unfold de_body.
  assert (Es : eval (ESlice (EVar "target_seq") (EVar "i") (EAdd (EVar "i") (EVar "bloblen"))) r = VList (kdv (blob w i s))).
  { rewrite (eval_slice_list _ _ _ _ (kdv s) (Z.of_nat i) (Z.of_nat i + Z.of_nat w)).
    - apply blob_slice. exact Hi.
    - rewrite eval_var. exact Hh.
    - rewrite eval_var. exact Hii.
    - apply eval_add_int; rewrite eval_var; assumption. }
  rewrite exec_seq, (exec_assign_ok _ _ _ _ Es eq_refl).
  set (r1 := set "blob" (VList (kdv (blob w i s))) r).
  destruct (sum_kdv (blob w i s)) as [q [Eq _]].
  assert (Ev : eval (ECall "qdiv" [ECall "sum" [EVar "blob"]; EVar "bloblen"]) r1 = val_h (blob w i s)).
  { assert (E1 : eval (ECall "sum" [EVar "blob"]) r1 = VQ q).
    { rewrite (eval_call1 _ _ _ (VList (kdv (blob w i s)))); [| rewrite eval_var; unfold r1; lk; reflexivity | reflexivity].
      unfold de_prim. cbn [String.eqb Ascii.eqb Bool.eqb]. now rewrite Eq. }
    rewrite (eval_call2 _ _ _ _ (VQ q) (VN w) E1); [| rewrite eval_var; unfold r1; lk; exact Hb | reflexivity | reflexivity].
    unfold de_prim. cbn [String.eqb Ascii.eqb Bool.eqb as_Q]. unfold val_h. rewrite Eq. fold wq.
    replace (Qeq_bool wq 0) with false; [reflexivity|]. symmetry. apply not_true_is_false. intros C. apply Qeq_bool_iff in C. unfold wq, Qeq, inject_Z in C. cbn in C. lia. }
  rewrite (exec_setitem_list "blob_density" _ _ r1 (done ++ x :: rest) (Z.of_nat i) (val_h (blob w i s)) (done ++ val_h (blob w i s) :: rest)).
  - eexists. split; [reflexivity|]. lk. split; [reflexivity|]. intros y Y1 Y2. unfold r1. now rewrite !lookup_set_neq by assumption.
  - unfold r1. lk. exact Hres.
  - rewrite eval_var. unfold r1. lk. exact Hii.
  - exact Ev.
  - apply val_h_ok.
  - rewrite <- Hd. apply list_set_mid.
Qed.

Lemma de_loop : (1 <= w)%nat -> forall m k (done : list value) r, (k + m + w = N + 1)%nat -> List.length done = k ->
  lookup "target_seq" r = VList (kdv s) -> lookup "bloblen" r = VN w -> lookup "blob_density" r = VList (done ++ repeat (VInt 0) m) ->
  exists r', MiniPy.run_loop de_prim 0 "i" de_body (map (fun j => VInt (0 + Z.of_nat j)) (seq k m)) r = ONorm r' /\
    lookup "blob_density" r' = VList (done ++ map (fun j => val_h (blob w j s)) (seq k m)) /\
    (forall y, String.eqb y "blob_density" = false -> String.eqb y "blob" = false -> String.eqb y "i" = false -> lookup y r' = lookup y r).
Proof.
  intros Hw. induction m as [|m IH]; intros k done r Hkm Hd Hh Hb Hres.
  - exists r. cbn [seq map MiniPy.run_loop repeat] in *. repeat split; assumption || reflexivity.
  - cbn [seq map MiniPy.run_loop repeat] in *.
    destruct (de_body_run k done (repeat (VInt 0) m) (VInt 0) (set "i" (VInt (0 + Z.of_nat k)) r)) as [r1 [Eb [Hr1 Hf1]]]; try assumption; try lia; try (lk; assumption || reflexivity).
    rewrite Eb.
    destruct (IH (S k) (done ++ [val_h (blob w k s)]) r1) as [r2 [Ex2 [Hr2 Hf2]]]; try lia.
    { rewrite app_length. cbn [List.length]. lia. }
    { rewrite Hf1 by reflexivity. lk. exact Hh. } { rewrite Hf1 by reflexivity. lk. exact Hb. } { rewrite Hr1, <- app_assoc. reflexivity. }
    exists r2. split; [exact Ex2|]. split; [rewrite Hr2, <- app_assoc; reflexivity|].
    intros y Y1 Y2 Y3. rewrite Hf2, Hf1 by assumption. now rewrite lookup_set_neq by exact Y3.
Qed.

Lemma check_ok r : lookup "bloblen" r = VN w -> (w <= N)%nat -> eval (ECall "__check_window_to_length" [EVar "bloblen"]) r = VNone.
Proof.
  intros Hb Hw. rewrite (eval_call1 _ _ _ (VN w)); [| rewrite eval_var; exact Hb | reflexivity].
  unfold de_prim. cbn [String.eqb Ascii.eqb Bool.eqb]. unfold g_check_window.
  assert (T : truthy (MiniPy.eval noprim (ELt (ELen (EVar "self.seq")) (EVar "bloblen")) [("self.seq"%string, VStr cs); ("bloblen"%string, VN w)]) = VBool false).
  { cbn [MiniPy.eval lookup String.eqb Ascii.eqb Bool.eqb cmp_int bad2 truthy]. rewrite map_length. f_equal. apply Z.ltb_ge. lia. }
  rewrite (exec_if_false _ _ _ _ T). reflexivity.
Qed.
Lemma check_raises r : lookup "bloblen" r = VN w -> (N < w)%nat -> eval (ECall "__check_window_to_length" [EVar "bloblen"]) r = VExc.
Proof.
  intros Hb Hw. rewrite (eval_call1 _ _ _ (VN w)); [| rewrite eval_var; exact Hb | reflexivity].
  unfold de_prim. cbn [String.eqb Ascii.eqb Bool.eqb]. unfold g_check_window.
  assert (T : truthy (MiniPy.eval noprim (ELt (ELen (EVar "self.seq")) (EVar "bloblen")) [("self.seq"%string, VStr cs); ("bloblen"%string, VN w)]) = VBool true).
  { cbn [MiniPy.eval lookup String.eqb Ascii.eqb Bool.eqb cmp_int bad2 truthy]. rewrite map_length. f_equal. apply Z.ltb_lt. lia. }
  rewrite (exec_if_true _ _ _ _ T). reflexivity.
Qed.
Lemma zeros_rep n : List.concat (repeat [VInt 0] n) = repeat (VInt 0) n.
Proof. induction n as [|n IH]; [reflexivity|]. cbn [repeat List.concat app]. now rewrite IH. Qed.

(* the hydropathy profile on EVERY sequence, window >= 1 and table *)
Theorem linDensity_tie r : (1 <= w)%nat -> lookup "self.len" r = VN N -> lookup "self.seq" r = VStr cs -> lookup "bloblen" r = VN w ->
  lookup "targetAAs" r = target_val ->
  exec g_linDensity r =
  if (N <? w)%nat then ORaise
  else ORet (VList [VList (map (fun j => VN j) (seq 1 N));
                    VList (repeat (VInt 0) (fst (flanks w N)) ++ map val_h (blobs w s) ++ repeat (VInt 0) (snd (flanks w N)))]).
Proof.
  intros Hw Hlen Hs Hb Htg. rewrite exec_spine. change (spine g_linDensity) with de_spine. rewrite de_parts. rewrite exec_list_cons.
  destruct (Nat.ltb_spec N w) as [Hlt|Hge].
  { change (exec (SAssign "$_" ?e) r) with (match eval e r with VExc => ORaise | VErr => OErr | v => ONorm (set "$_" v r) end).
    rewrite (check_raises r Hb Hlt). reflexivity. }
  rewrite (exec_assign_ok _ _ _ _ (check_ok r Hb Hge) eq_refl).
  set (r0 := set "$_" VNone r).
  set (nb := (N + 1 - w)%nat).
  assert (En : eval (EAdd (ESub (EVar "self.len") (EVar "bloblen")) (EConst (VInt 1))) r0 = VN nb).
  { rewrite (eval_add_int _ _ _ (Z.of_nat N - Z.of_nat w) 1); [f_equal; unfold nb; lia | | reflexivity].
    apply eval_sub_int; rewrite eval_var; unfold r0; lk; assumption. }
  rewrite exec_list_cons, (exec_assign_ok _ _ _ _ En eq_refl).
  set (r1 := set "nblobs" (VN nb) r0).
  set (f := (w / 2)%nat).
  assert (Ef : eval (ECall "int_div" [EVar "bloblen"; EConst (VInt 2)]) r1 = VN f).
  { rewrite (eval_call2 _ _ _ _ (VN w) (VInt 2)); [| rewrite eval_var; unfold r1, r0; lk; exact Hb | reflexivity | reflexivity | reflexivity].
    unfold de_prim. cbn [String.eqb Ascii.eqb Bool.eqb Z.eqb]. f_equal. unfold f. rewrite Z.quot_div_nonneg by lia. now rewrite (Nat2Z.inj_div w 2). }
  rewrite exec_list_cons, (exec_assign_ok _ _ _ _ Ef eq_refl).
  set (r2 := set "flank" (VN f) r1).
  assert (Tf : truthy (eval (EEq (EAdd (EMul (EConst (VInt 2)) (EVar "flank")) (EVar "nblobs")) (EVar "self.len")) r2) = VBool (2 * f + nb =? N)%nat).
  { rewrite (eval_eq_int _ _ _ (2 * Z.of_nat f + Z.of_nat nb) (Z.of_nat N)).
    - cbn [truthy]. f_equal. destruct (Nat.eqb_spec (2 * f + nb) N) as [E|E]; [apply Z.eqb_eq; lia | apply Z.eqb_neq; lia].
    - apply eval_add_int; [| rewrite eval_var; unfold r2, r1; lk; reflexivity].
      apply eval_mul_int; [reflexivity | rewrite eval_var; unfold r2; lk; reflexivity].
    - rewrite eval_var. unfold r2, r1, r0. lk. exact Hlen. }
  rewrite exec_list_cons. unfold lin_flanks.
  assert (Efl : exists r3, exec (SIf (EEq (EAdd (EMul (EConst (VInt 2)) (EVar "flank")) (EVar "nblobs")) (EVar "self.len"))
                                  (SSeq (SAssign "flank_start" (EVar "flank")) (SAssign "flank_end" (EVar "flank")))
                                  (SSeq (SAssign "flank_start" (ESub (EVar "flank") (EConst (VInt 1)))) (SAssign "flank_end" (EVar "flank")))) r2 = ONorm r3 /\
                       lookup "flank_start" r3 = VN (fst (flanks w N)) /\ lookup "flank_end" r3 = VN (snd (flanks w N)) /\
                       (forall x, String.eqb x "flank_start" = false -> String.eqb x "flank_end" = false -> lookup x r3 = lookup x r2)).
  { unfold flanks. fold f. fold nb. destruct (2 * f + nb =? N)%nat eqn:Eq.
    - rewrite (exec_if_true _ _ _ _ Tf). rewrite exec_seq, (exec_assign_ok _ _ _ (VN f)) by (try reflexivity; rewrite eval_var; unfold r2; lk; reflexivity).
      rewrite (exec_assign_ok _ _ _ (VN f)) by (try reflexivity; rewrite eval_var; unfold r2; lk; reflexivity).
      eexists. split; [reflexivity|]. cbn [fst snd]. lk. repeat split; try reflexivity. intros x X1 X2. now rewrite !lookup_set_neq by assumption.
    - rewrite (exec_if_false _ _ _ _ Tf).
      assert (Hf1 : (1 <= f)%nat).
      { apply Nat.eqb_neq in Eq. unfold f, nb in *. destruct (Nat.eq_dec (w mod 2) 0) as [Hm|Hm].
        - pose proof (Nat.div_mod w 2 ltac:(lia)). lia.
        - pose proof (Nat.div_mod w 2 ltac:(lia)). pose proof (Nat.mod_upper_bound w 2 ltac:(lia)). lia. }
      assert (Es : eval (ESub (EVar "flank") (EConst (VInt 1))) r2 = VN (f - 1)).
      { rewrite (eval_sub_int _ _ _ (Z.of_nat f) 1); [f_equal; lia | rewrite eval_var; unfold r2; lk; reflexivity | reflexivity]. }
      rewrite exec_seq, (exec_assign_ok _ _ _ _ Es eq_refl).
      rewrite (exec_assign_ok _ _ _ (VN f)) by (try reflexivity; rewrite eval_var; unfold r2; lk; reflexivity).
      eexists. split; [reflexivity|]. cbn [fst snd]. lk. repeat split; try reflexivity. intros x X1 X2. now rewrite !lookup_set_neq by assumption. }
  destruct Efl as [r3 [Efl [Hfs [Hfe Hfr3]]]]. rewrite Efl.
  assert (L3 : forall x, String.eqb x "flank_start" = false -> String.eqb x "flank_end" = false -> String.eqb x "flank" = false ->
                         String.eqb x "nblobs" = false -> String.eqb x "$_" = false -> lookup x r3 = lookup x r).
  { intros x X1 X2 X3 X4 X5. rewrite Hfr3 by assumption. unfold r2, r1, r0. now rewrite !lookup_set_neq by assumption. }
  assert (Ez : eval (EMul (EListLit [EConst (VInt 0)]) (EVar "nblobs")) r3 = VList (repeat (VInt 0) nb)).
  { rewrite (eval_mul_rep _ _ _ [VInt 0] (Z.of_nat nb)); [now rewrite Nat2Z.id, zeros_rep | reflexivity |].
    rewrite eval_var, Hfr3 by reflexivity. unfold r2, r1. lk. reflexivity. }
  rewrite exec_list_cons, (exec_assign_ok _ _ _ _ Ez eq_refl).
  rewrite exec_list_cons, (exec_assign_ok _ _ _ (VList [])) by reflexivity.
  set (r6 := set "target_seq" (VList []) (set "blob_density" (VList (repeat (VInt 0) nb)) r3)).
  rewrite exec_list_cons, exec_for, eval_var.
  replace (lookup "self.seq" r6) with (VStr cs) by (unfold r6; lk; rewrite L3 by reflexivity; now rewrite Hs). cbn [elements].
  destruct (chain_run s [] r6) as [r7 [E7 [Hh7 Hf7]]]; try (unfold r6; lk; reflexivity).
  { unfold r6. lk. rewrite L3 by reflexivity. exact Htg. }
  rewrite E7. cbn [app] in Hh7.
  rewrite exec_list_cons, exec_for.
  assert (Er : eval (ERange (EConst (VInt 0)) (EVar "nblobs")) r7 = VList (map (fun j => VInt (0 + Z.of_nat j)) (seq 0 nb))).
  { rewrite (eval_range _ _ _ 0 (Z.of_nat nb)); [now rewrite Z.sub_0_r, Nat2Z.id | reflexivity |].
    rewrite eval_var, Hf7 by reflexivity. unfold r6. lk. rewrite Hfr3 by reflexivity. unfold r2, r1. lk. reflexivity. }
  rewrite Er. cbn [elements].
  destruct (de_loop Hw nb 0 [] r7) as [r8 [E8 [Hr8 Hf8]]].
  { unfold nb. lia. } { reflexivity. } { exact Hh7. }
  { rewrite Hf7 by reflexivity. unfold r6. lk. rewrite L3 by reflexivity. exact Hb. }
  { rewrite Hf7 by reflexivity. unfold r6. lk. reflexivity. }
  rewrite E8. cbn [app] in Hr8.
  assert (L8 : forall x, String.eqb x "blob_density" = false -> String.eqb x "blob" = false -> String.eqb x "i" = false -> String.eqb x "target_seq" = false ->
                         String.eqb x "res" = false -> lookup x r8 = lookup x r3).
  { intros x X1 X2 X3 X4 X5. rewrite Hf8, Hf7 by assumption. unfold r6. now rewrite !lookup_set_neq by assumption. }
  rewrite exec_list_cons. unfold de_ret.
  assert (Erow1 : eval (ERange (EConst (VInt 1)) (EAdd (EVar "self.len") (EConst (VInt 1)))) r8 = VList (map (fun j => VN j) (seq 1 N))).
  { rewrite (eval_range _ _ _ 1 (Z.of_nat N + 1)); [| reflexivity |].
    - replace (Z.to_nat (Z.of_nat N + 1 - 1)) with N by lia. f_equal. rewrite <- seq_shift, map_map. apply map_ext. intros j. f_equal. lia.
    - apply eval_add_int; [| reflexivity]. rewrite eval_var, L8, L3 by reflexivity. exact Hlen. }
  assert (Erow2 : eval (EAdd (EAdd (EMul (EListLit [EConst (VInt 0)]) (EVar "flank_start")) (EVar "blob_density")) (EMul (EListLit [EConst (VInt 0)]) (EVar "flank_end"))) r8 =
                  VList (repeat (VInt 0) (fst (flanks w N)) ++ map val_h (blobs w s) ++ repeat (VInt 0) (snd (flanks w N)))).
  { rewrite (eval_add_list _ _ _ (repeat (VInt 0) (fst (flanks w N)) ++ map val_h (blobs w s)) (repeat (VInt 0) (snd (flanks w N)))); [now rewrite <- app_assoc | |].
    - apply eval_add_list; [| rewrite eval_var, Hr8; unfold blobs; fold nb; now rewrite map_map].
      rewrite (eval_mul_rep _ _ _ [VInt 0] (Z.of_nat (fst (flanks w N)))); [now rewrite Nat2Z.id, zeros_rep | reflexivity |].
      rewrite eval_var, L8 by reflexivity. exact Hfs.
    - rewrite (eval_mul_rep _ _ _ [VInt 0] (Z.of_nat (snd (flanks w N)))); [now rewrite Nat2Z.id, zeros_rep | reflexivity |].
      rewrite eval_var, L8 by reflexivity. exact Hfe. }
  rewrite (exec_return_ok _ _ (VList [VList (map (fun j => VN j) (seq 1 N));
             VList (repeat (VInt 0) (fst (flanks w N)) ++ map val_h (blobs w s) ++ repeat (VInt 0) (snd (flanks w N)))])); [reflexivity | | reflexivity].
  rewrite (eval_call1 _ _ _ (VList [VList (map (fun j => VN j) (seq 1 N)); VList (repeat (VInt 0) (fst (flanks w N)) ++ map val_h (blobs w s) ++ repeat (VInt 0) (snd (flanks w N)))]));
    [reflexivity | apply eval_listlit2; [exact Erow1 | exact Erow2 | reflexivity | reflexivity] | reflexivity].
Qed.

(* the stored value is the model's window statistic for the table kd *)
Lemma val_h_model b : (1 <= w)%nat -> exists q, val_h b = VQ q /\ (q == sumQ (map kd b) / wQ w)%Q.
Proof. intros H. unfold val_h. destruct (sum_kdv b) as [q [E Hq]]. rewrite E. eexists. split; [reflexivity|]. rewrite Qred_correct, Hq. reflexivity. Qed.
End Hydro.
Print Assumptions linDensity_tie.

Example density_runs :
  MiniPy.exec (de_prim [Lys; Gly; Ala; Lys]) 0 g_linDensity
    [("self.len"%string, VInt 4); ("self.seq"%string, VStr (map aa_char [Lys; Gly; Ala; Lys])); ("bloblen"%string, VInt 2); ("targetAAs"%string, VList [VStr ["K"%char]; VStr ["A"%char]])] =
  ORet (VList [VList (map VInt [1; 2; 3; 4]); VList [VQ (1 # 2); VQ (1 # 2); VQ (1 # 1); VInt 0]]).
Proof. vm_compute. reflexivity. Qed.
