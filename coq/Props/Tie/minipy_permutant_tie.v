(* Tie (C03) — SEMANTIC: Sequence.__permutant_from_reduced_seq (the permutant returned with delta-max), translated from the
   working tree on every run into a Core.MiniPy term: the three filtering comprehensions over the parent's residues, the
   sanity check, and the loop that refills the +/-/0 arrangement class by class in order of appearance.  For EVERY parent
   sequence and EVERY arrangement that does not ask for more residues of a class than the parent has, the translated code
   returns exactly Model.Delta.permutant.  str(x) is the primitive "str" (the identity on strings), sum([...]) "sum". *)
From Coq Require Import List String Ascii ZArith QArith Bool Arith Lia.
From Coq Require Import Permutation.
From LC Require Import Core.Residue Core.Lists Core.MiniPy Spec.Delta Model.Delta Proofs.Permutant Gen.GMiniPy.
Import ListNotations.
Local Open Scope Z_scope.

Ltac lk := repeat (rewrite lookup_set_eq || rewrite lookup_set_neq by reflexivity).

Definition pm_prim (name : string) (args : list value) : value :=
  if String.eqb name "str" then match args with [VStr s] => VStr s | _ => VErr end
  else if String.eqb name "sum" then match args with [VList [VInt a; VInt b; VInt c]] => VInt (a + b + c) | _ => VErr end
  else VErr.
Local Notation exec := (MiniPy.exec pm_prim 0).
Local Notation eval := (MiniPy.eval pm_prim).

Lemma add_str a b r p q : eval a r = VStr p -> eval b r = VStr q -> eval (EAdd a b) r = VStr (p ++ q).
Proof. intros Ha Hb. cbn [MiniPy.eval]. rewrite Ha, Hb. reflexivity. Qed.
Lemma str_call e r s : eval e r = VStr s -> eval (ECall "str" [e]) r = VStr s.
Proof. intros H. rewrite (eval_call1 _ _ _ (VStr s) H eq_refl). reflexivity. Qed.

Definition trit_char (z : Z) : ascii := if 0 <? z then "+"%char else if z <? 0 then "-"%char else "0"%char.
Definition res_val (a : aa) : value := VStr [aa_char a].

(* a filtering comprehension over the characters of a residue string *)
Lemma filter_comp (cond : expr) (f : aa -> bool) r :
  (forall a k, truthy (eval cond (set "res" (res_val a) (set "$i" (VInt k) r))) = VBool (f a)) ->
  forall l k, enum_list pm_prim "$i" "res" cond (EVar "res") k (map (fun c => VStr [c]) (map aa_char l)) r = VList (map res_val (filter f l)).
Proof.
  intros Hc. induction l as [|a l IH]; intros k; [reflexivity|].
  cbn [map enum_list filter]. change (VStr [aa_char a]) with (res_val a). rewrite Hc, IH. destruct (f a); [|reflexivity].
  cbn [MiniPy.eval]. rewrite lookup_set_eq. reflexivity.
Qed.

Definition is_pos (a : aa) : bool := 0 <? chg a.
Definition is_neg (a : aa) : bool := chg a <? 0.
Definition is_neu (a : aa) : bool := chg a =? 0.

Lemma cond_pos r a k : truthy (eval (EIn (EVar "res") (EListLit [EConst (VStr (list_ascii_of_string "R")); EConst (VStr (list_ascii_of_string "K"))]))
                               (set "res" (res_val a) (set "$i" (VInt k) r))) = VBool (is_pos a).
Proof. cbn [MiniPy.eval]. rewrite lookup_set_eq. destruct a; reflexivity. Qed.
Lemma cond_neg r a k : truthy (eval (EIn (EVar "res") (EListLit [EConst (VStr (list_ascii_of_string "D")); EConst (VStr (list_ascii_of_string "E"))]))
                               (set "res" (res_val a) (set "$i" (VInt k) r))) = VBool (is_neg a).
Proof. cbn [MiniPy.eval]. rewrite lookup_set_eq. destruct a; reflexivity. Qed.
Lemma cond_neu r a k : truthy (eval (ENotIn (EVar "res") (EListLit [EConst (VStr (list_ascii_of_string "D")); EConst (VStr (list_ascii_of_string "E"));
                                                                     EConst (VStr (list_ascii_of_string "R")); EConst (VStr (list_ascii_of_string "K"))]))
                               (set "res" (res_val a) (set "$i" (VInt k) r))) = VBool (is_neu a).
Proof. cbn [MiniPy.eval]. rewrite lookup_set_eq. destruct a; reflexivity. Qed.

Lemma three_classes (l : list aa) :
  (List.length (filter is_pos l) + List.length (filter is_neg l) + List.length (filter is_neu l) = List.length l)%nat.
Proof. induction l as [|a l IH]; [reflexivity|]. cbn [filter List.length]. destruct a; cbn; lia. Qed.

Definition pm_spine : list stmt := Eval vm_compute in spine g_permutant.
Definition pm_body : stmt := Eval vm_compute in match nth 8 pm_spine SSkip with SFor _ _ b => b | _ => SSkip end.

Section Loop.
Variables (PS NS ZS : list aa).
Definition need (cand : list Z) (f : Z -> bool) : nat := List.length (filter f cand).
Definition tpos (z : Z) : bool := 0 <? z.
Definition tneg (z : Z) : bool := negb (0 <? z) && (z <? 0).
Definition tneu (z : Z) : bool := negb (0 <? z) && negb (z <? 0).

(* the refilling loop, from any counters *)
Lemma refill_loop : forall (cand : list Z) (pc nc zc : nat) (acc : list ascii) r,
  lookup "posRes" r = VList (map res_val PS) -> lookup "negRes" r = VList (map res_val NS) -> lookup "neutRes" r = VList (map res_val ZS) ->
  lookup "pos_counter" r = VInt (Z.of_nat pc) -> lookup "neg_counter" r = VInt (Z.of_nat nc) -> lookup "neut_counter" r = VInt (Z.of_nat zc) ->
  lookup "outSeq" r = VStr acc ->
  (pc + need cand tpos <= List.length PS)%nat -> (nc + need cand tneg <= List.length NS)%nat ->
  (zc + need cand tneu <= List.length ZS)%nat ->
  exists r', MiniPy.run_loop pm_prim 0 "res" pm_body (map (fun c => VStr [c]) (map trit_char cand)) r = ONorm r' /\
    lookup "outSeq" r' = VStr (acc ++ map aa_char (refill cand (skipn pc PS) (skipn nc NS) (skipn zc ZS))).
Proof.
  induction cand as [|z cand IH]; intros pc nc zc acc r Hp Hn Hz Hpc Hnc Hzc Ho Bp Bn Bz.
  - exists r. cbn [map MiniPy.run_loop refill]. rewrite app_nil_r. auto.
  - cbn [map MiniPy.run_loop refill]. set (r0 := set "res" (VStr [trit_char z]) r). unfold pm_body at 1.
    unfold need in Bp, Bn, Bz. cbn [filter] in Bp, Bn, Bz. unfold tpos, tneg, tneu in Bp, Bn, Bz. unfold trit_char in r0.
    destruct (0 <? z) eqn:Epos; [| destruct (z <? 0) eqn:Eneg]; cbn [negb andb List.length] in Bp, Bn, Bz.
    + (* '+' *)
      rewrite exec_if_true by (cbn [MiniPy.eval]; unfold r0; lk; reflexivity).
      destruct (skipn pc PS) as [|x ps'] eqn:Esk.
      { exfalso. assert (List.length (skipn pc PS) = 0%nat) by now rewrite Esk. rewrite skipn_length in H. lia. }
      assert (Hnth : nth_error PS pc = Some x).
      { rewrite <- (firstn_skipn pc PS) at 1. rewrite nth_error_app2 by (rewrite firstn_length; lia). rewrite firstn_length, Esk.
        replace (pc - Nat.min pc (List.length PS))%nat with 0%nat by lia. reflexivity. }
      assert (Ei : eval (EIndex (EVar "posRes") (EVar "pos_counter")) r0 = res_val x).
      { apply (eval_index_list _ _ _ (map res_val PS) (Z.of_nat pc)); [rewrite eval_var; unfold r0; lk; exact Hp | rewrite eval_var; unfold r0; lk; exact Hpc |].
        unfold index_val. rewrite map_length. destruct (Z.ltb_spec (Z.of_nat pc) 0); [lia|].
        replace ((Z.of_nat pc <? 0) || (Z.of_nat (List.length PS) <=? Z.of_nat pc)) with false by (symmetry; apply orb_false_iff; split; [apply Z.ltb_ge; lia | apply Z.leb_gt; lia]).
        rewrite Nat2Z.id, nth_error_map, Hnth. reflexivity. }
      assert (Ea : eval (EAdd (EVar "outSeq") (ECall "str" [EIndex (EVar "posRes") (EVar "pos_counter")])) r0 = VStr (acc ++ [aa_char x])).
      { apply add_str; [rewrite eval_var; unfold r0; lk; exact Ho | apply str_call; exact Ei]. }
      rewrite exec_seq, (exec_assign_ok _ _ _ _ Ea eq_refl). set (r1 := set "outSeq" (VStr (acc ++ [aa_char x])) r0).
      assert (Ec : eval (EAdd (EVar "pos_counter") (EConst (VInt 1))) r1 = VInt (Z.of_nat (S pc))).
      { rewrite (eval_add_int _ _ _ (Z.of_nat pc) 1); [f_equal; lia | rewrite eval_var; unfold r1, r0; lk; exact Hpc | reflexivity]. }
      rewrite (exec_assign_ok _ _ _ _ Ec eq_refl).
      destruct (IH (S pc) nc zc (acc ++ [aa_char x]) (set "pos_counter" (VInt (Z.of_nat (S pc))) r1)) as [r' [E' H']];
        try (unfold r1, r0; lk; assumption || reflexivity); try (unfold need, tpos, tneg, tneu in *; lia).
      exists r'. split; [exact E'|]. rewrite H'. rewrite <- app_assoc. cbn [app map].
      replace (skipn (S pc) PS) with ps'; [reflexivity|]. 
      rewrite <- (firstn_skipn pc PS) at 1. rewrite Esk. 
      assert (Lf : List.length (firstn pc PS) = pc) by (rewrite firstn_length; lia).
      replace (S pc) with (List.length (firstn pc PS) + 1)%nat by lia. rewrite skipn_app, skipn_all2 by lia. 
      replace (List.length (firstn pc PS) + 1 - List.length (firstn pc PS))%nat with 1%nat by lia. reflexivity.
    + (* '-' *)
      rewrite exec_if_false by (cbn [MiniPy.eval]; unfold r0; lk; reflexivity).
      rewrite exec_if_true by (cbn [MiniPy.eval]; unfold r0; lk; reflexivity).
      destruct (skipn nc NS) as [|x ns'] eqn:Esk.
      { exfalso. assert (List.length (skipn nc NS) = 0%nat) by now rewrite Esk. rewrite skipn_length in H. lia. }
      assert (Hnth : nth_error NS nc = Some x).
      { rewrite <- (firstn_skipn nc NS) at 1. rewrite nth_error_app2 by (rewrite firstn_length; lia). rewrite firstn_length, Esk.
        replace (nc - Nat.min nc (List.length NS))%nat with 0%nat by lia. reflexivity. }
      assert (Ei : eval (EIndex (EVar "negRes") (EVar "neg_counter")) r0 = res_val x).
      { apply (eval_index_list _ _ _ (map res_val NS) (Z.of_nat nc)); [rewrite eval_var; unfold r0; lk; exact Hn | rewrite eval_var; unfold r0; lk; exact Hnc |].
        unfold index_val. rewrite map_length. destruct (Z.ltb_spec (Z.of_nat nc) 0); [lia|].
        replace ((Z.of_nat nc <? 0) || (Z.of_nat (List.length NS) <=? Z.of_nat nc)) with false by (symmetry; apply orb_false_iff; split; [apply Z.ltb_ge; lia | apply Z.leb_gt; lia]).
        rewrite Nat2Z.id, nth_error_map, Hnth. reflexivity. }
      assert (Ea : eval (EAdd (EVar "outSeq") (ECall "str" [EIndex (EVar "negRes") (EVar "neg_counter")])) r0 = VStr (acc ++ [aa_char x])).
      { apply add_str; [rewrite eval_var; unfold r0; lk; exact Ho | apply str_call; exact Ei]. }
      rewrite exec_seq, (exec_assign_ok _ _ _ _ Ea eq_refl). set (r1 := set "outSeq" (VStr (acc ++ [aa_char x])) r0).
      assert (Ec : eval (EAdd (EVar "neg_counter") (EConst (VInt 1))) r1 = VInt (Z.of_nat (S nc))).
      { rewrite (eval_add_int _ _ _ (Z.of_nat nc) 1); [f_equal; lia | rewrite eval_var; unfold r1, r0; lk; exact Hnc | reflexivity]. }
      rewrite (exec_assign_ok _ _ _ _ Ec eq_refl).
      destruct (IH pc (S nc) zc (acc ++ [aa_char x]) (set "neg_counter" (VInt (Z.of_nat (S nc))) r1)) as [r' [E' H']];
        try (unfold r1, r0; lk; assumption || reflexivity); try (unfold need, tpos, tneg, tneu in *; lia).
      exists r'. split; [exact E'|]. rewrite H'. rewrite <- app_assoc. cbn [app map].
      replace (skipn (S nc) NS) with ns'; [reflexivity|].
      rewrite <- (firstn_skipn nc NS) at 1. rewrite Esk.
      assert (Lf : List.length (firstn nc NS) = nc) by (rewrite firstn_length; lia).
      replace (S nc) with (List.length (firstn nc NS) + 1)%nat by lia. rewrite skipn_app, skipn_all2 by lia.
      replace (List.length (firstn nc NS) + 1 - List.length (firstn nc NS))%nat with 1%nat by lia. reflexivity.
    + (* '0' *)
      rewrite exec_if_false by (cbn [MiniPy.eval]; unfold r0; lk; reflexivity).
      rewrite exec_if_false by (cbn [MiniPy.eval]; unfold r0; lk; reflexivity).
      destruct (skipn zc ZS) as [|x zs'] eqn:Esk.
      { exfalso. assert (List.length (skipn zc ZS) = 0%nat) by now rewrite Esk. rewrite skipn_length in H. lia. }
      assert (Hnth : nth_error ZS zc = Some x).
      { rewrite <- (firstn_skipn zc ZS) at 1. rewrite nth_error_app2 by (rewrite firstn_length; lia). rewrite firstn_length, Esk.
        replace (zc - Nat.min zc (List.length ZS))%nat with 0%nat by lia. reflexivity. }
      assert (Ei : eval (EIndex (EVar "neutRes") (EVar "neut_counter")) r0 = res_val x).
      { apply (eval_index_list _ _ _ (map res_val ZS) (Z.of_nat zc)); [rewrite eval_var; unfold r0; lk; exact Hz | rewrite eval_var; unfold r0; lk; exact Hzc |].
        unfold index_val. rewrite map_length. destruct (Z.ltb_spec (Z.of_nat zc) 0); [lia|].
        replace ((Z.of_nat zc <? 0) || (Z.of_nat (List.length ZS) <=? Z.of_nat zc)) with false by (symmetry; apply orb_false_iff; split; [apply Z.ltb_ge; lia | apply Z.leb_gt; lia]).
        rewrite Nat2Z.id, nth_error_map, Hnth. reflexivity. }
      assert (Ea : eval (EAdd (EVar "outSeq") (ECall "str" [EIndex (EVar "neutRes") (EVar "neut_counter")])) r0 = VStr (acc ++ [aa_char x])).
      { apply add_str; [rewrite eval_var; unfold r0; lk; exact Ho | apply str_call; exact Ei]. }
      rewrite exec_seq, (exec_assign_ok _ _ _ _ Ea eq_refl). set (r1 := set "outSeq" (VStr (acc ++ [aa_char x])) r0).
      assert (Ec : eval (EAdd (EVar "neut_counter") (EConst (VInt 1))) r1 = VInt (Z.of_nat (S zc))).
      { rewrite (eval_add_int _ _ _ (Z.of_nat zc) 1); [f_equal; lia | rewrite eval_var; unfold r1, r0; lk; exact Hzc | reflexivity]. }
      rewrite (exec_assign_ok _ _ _ _ Ec eq_refl).
      destruct (IH pc nc (S zc) (acc ++ [aa_char x]) (set "neut_counter" (VInt (Z.of_nat (S zc))) r1)) as [r' [E' H']];
        try (unfold r1, r0; lk; assumption || reflexivity); try (unfold need, tpos, tneg, tneu in *; lia).
      exists r'. split; [exact E'|]. rewrite H'. rewrite <- app_assoc. cbn [app map].
      replace (skipn (S zc) ZS) with zs'; [reflexivity|].
      rewrite <- (firstn_skipn zc ZS) at 1. rewrite Esk.
      assert (Lf : List.length (firstn zc ZS) = zc) by (rewrite firstn_length; lia).
      replace (S zc) with (List.length (firstn zc ZS) + 1)%nat by lia. rewrite skipn_app, skipn_all2 by lia.
      replace (List.length (firstn zc ZS) + 1 - List.length (firstn zc ZS))%nat with 1%nat by lia. reflexivity.
Qed.
End Loop.

Lemma ne_int a b r x y : eval a r = VInt x -> eval b r = VInt y -> truthy (eval (ENe a b) r) = VBool (negb (x =? y)).
Proof. intros Ha Hb. cbn [MiniPy.eval]. rewrite Ha, Hb. reflexivity. Qed.

Lemma comp_eval cond f r parent : lookup "parentSeqObj.seq" r = VStr (map aa_char parent) ->
  (forall a k, truthy (eval cond (set "res" (res_val a) (set "$i" (VInt k) r))) = VBool (f a)) ->
  eval (EEnumFilter "$i" "res" cond (EVar "res") (EVar "parentSeqObj.seq")) r = VList (map res_val (filter f parent)).
Proof. intros Hp Hc. rewrite eval_enumfilter, eval_var, Hp. cbn [elements]. apply filter_comp. exact Hc. Qed.

Lemma pm_assign x e b r v : eval e r = v -> is_bad v = false -> MiniPy.exec_list pm_prim 0 (SAssign x e :: b) r = MiniPy.exec_list pm_prim 0 b (set x v r).
Proof. intros H H0. rewrite exec_list_cons, (exec_assign_ok _ _ _ _ H H0). reflexivity. Qed.

(* WHOLE FUNCTION *)
Theorem permutant_tie (parent : list aa) (cand : list Z) r :
  lookup "parentSeqObj.seq" r = VStr (map aa_char parent) -> lookup "self.seq" r = VStr (map trit_char cand) ->
  (need cand tpos <= List.length (filter is_pos parent))%nat -> (need cand tneg <= List.length (filter is_neg parent))%nat ->
  (need cand tneu <= List.length (filter is_neu parent))%nat ->
  exec g_permutant r = ORet (VStr (map aa_char (permutant parent cand))).
Proof.
  intros Hp Hs Bp Bn Bz. rewrite exec_spine. change (spine g_permutant) with pm_spine. unfold pm_spine.
  rewrite (pm_assign _ _ _ _ _ (comp_eval _ is_pos r parent Hp (cond_pos r)) eq_refl).
  set (r1 := set "posRes" (VList (map res_val (filter is_pos parent))) r).
  assert (Hp1 : lookup "parentSeqObj.seq" r1 = VStr (map aa_char parent)) by (unfold r1; lk; exact Hp).
  rewrite (pm_assign _ _ _ _ _ (comp_eval _ is_neg r1 parent Hp1 (cond_neg r1)) eq_refl).
  set (r2 := set "negRes" (VList (map res_val (filter is_neg parent))) r1).
  assert (Hp2 : lookup "parentSeqObj.seq" r2 = VStr (map aa_char parent)) by (unfold r2; lk; exact Hp1).
  rewrite (pm_assign _ _ _ _ _ (comp_eval _ is_neu r2 parent Hp2 (cond_neu r2)) eq_refl).
  set (r3 := set "neutRes" (VList (map res_val (filter is_neu parent))) r2).
  (* the sanity check never fires *)
  assert (Tc : truthy (eval (ENe (ECall "sum" [EListLit [ELen (EVar "posRes"); ELen (EVar "negRes"); ELen (EVar "neutRes")]]) (ELen (EVar "parentSeqObj.seq"))) r3) = VBool false).
  { assert (L1 : eval (ELen (EVar "posRes")) r3 = VInt (Z.of_nat (List.length (filter is_pos parent)))) by (cbn [MiniPy.eval]; unfold r3, r2, r1; lk; rewrite map_length; reflexivity).
    assert (L2 : eval (ELen (EVar "negRes")) r3 = VInt (Z.of_nat (List.length (filter is_neg parent)))) by (cbn [MiniPy.eval]; unfold r3, r2; lk; rewrite map_length; reflexivity).
    assert (L3 : eval (ELen (EVar "neutRes")) r3 = VInt (Z.of_nat (List.length (filter is_neu parent)))) by (cbn [MiniPy.eval]; unfold r3; lk; rewrite map_length; reflexivity).
    assert (L4 : eval (ELen (EVar "parentSeqObj.seq")) r3 = VInt (Z.of_nat (List.length parent))) by (cbn [MiniPy.eval]; unfold r3; lk; rewrite Hp2, map_length; reflexivity).
    assert (Es : eval (ECall "sum" [EListLit [ELen (EVar "posRes"); ELen (EVar "negRes"); ELen (EVar "neutRes")]]) r3 = VInt (Z.of_nat (List.length parent))).
    { rewrite (eval_call1 _ _ _ (VList [VInt (Z.of_nat (List.length (filter is_pos parent))); VInt (Z.of_nat (List.length (filter is_neg parent))); VInt (Z.of_nat (List.length (filter is_neu parent)))])).
      - unfold pm_prim. cbn [String.eqb Ascii.eqb Bool.eqb]. f_equal. pose proof (three_classes parent). lia.
      - apply eval_listlit_all. repeat constructor; assumption.
      - reflexivity. }
    rewrite (ne_int _ _ _ _ _ Es L4), Z.eqb_refl. reflexivity. }
  rewrite exec_list_cons, (exec_if_false _ _ _ _ Tc). cbn [MiniPy.exec].
  rewrite (pm_assign _ (EConst (VStr [])) _ _ (VStr []) eq_refl eq_refl). set (r4 := set "outSeq" (VStr []) r3).
  rewrite (pm_assign _ (EConst (VInt 0)) _ _ (VInt 0) eq_refl eq_refl). set (r5 := set "pos_counter" (VInt 0) r4).
  rewrite (pm_assign _ (EConst (VInt 0)) _ _ (VInt 0) eq_refl eq_refl). set (r6 := set "neg_counter" (VInt 0) r5).
  rewrite (pm_assign _ (EConst (VInt 0)) _ _ (VInt 0) eq_refl eq_refl). set (r7 := set "neut_counter" (VInt 0) r6).
  rewrite exec_list_cons, exec_for, eval_var.
  assert (Hs7 : lookup "self.seq" r7 = VStr (map trit_char cand)) by (unfold r7, r6, r5, r4, r3, r2, r1; lk; exact Hs).
  rewrite Hs7. cbn [elements]. change (SIf (EEq (EVar "res") (EConst (VStr ["+"%char]))) _ _) with pm_body.
  destruct (refill_loop (filter is_pos parent) (filter is_neg parent) (filter is_neu parent) cand 0 0 0 [] r7) as [r8 [E8 H8]];
    try (unfold r7, r6, r5, r4, r3, r2, r1; lk; reflexivity); try (cbn [Nat.add]; assumption).
  rewrite E8. cbn [MiniPy.exec_list]. rewrite (exec_return_ok _ _ _ (eq_trans (eval_var _ _) H8) eq_refl). reflexivity.
Qed.
Print Assumptions permutant_tie.

(* ---------- with Proofs/Permutant.v: what the translated code returns is a rearrangement of the parent with the arrangement's pattern ---------- *)
Lemma need_counts cand : Z.of_nat (need cand tpos) = npos cand /\ Z.of_nat (need cand tneg) = nneg cand /\ Z.of_nat (need cand tneu) = nneut cand.
Proof.
  unfold nneut, len, npos, nneg, need. induction cand as [|z cand [I1 [I2 I3]]]; [repeat split|].
  cbn [filter cnt List.length]. unfold tpos, tneg, tneu, isposb, isnegb in *.
  destruct (0 <? z) eqn:E1; destruct (z <? 0) eqn:E2; cbn [negb andb List.length]; repeat split; try lia;
    apply Z.ltb_lt in E1; apply Z.ltb_lt in E2; lia.
Qed.

Corollary permutant_code_rearranges (parent : list aa) (cand : list Z) r :
  lookup "parentSeqObj.seq" r = VStr (map aa_char parent) -> lookup "self.seq" r = VStr (map trit_char cand) ->
  Forall trit cand -> comp cand = comp (pat parent) ->
  exists out, exec g_permutant r = ORet (VStr (map aa_char out)) /\ Permutation out parent /\ pat out = cand.
Proof.
  intros Hp Hs Ht Hc. exists (permutant parent cand). split; [| split; [apply permutant_perm; assumption | apply permutant_pat; assumption]].
  destruct (need_counts cand) as [N1 [N2 N3]]. destruct (pat_counts parent) as [P1 [P2 _]].
  pose proof (three_classes parent) as T3. unfold comp in Hc. injection Hc as H1 H2 H3.
  assert (L : len (pat parent) = len parent) by (unfold len, pat; now rewrite map_length).
  unfold nneut in H3 at 2. unfold len in *. unfold is_pos, is_neg, is_neu in *.
  apply permutant_tie; try assumption; unfold is_pos, is_neg, is_neu; lia.
Qed.
Print Assumptions permutant_code_rearranges.

(* with Proofs/Permutant.v (permutant_perm, permutant_pat): when the arrangement has the parent's class counts the string the
   translated code returns is a rearrangement of the parent whose charge pattern is the arrangement *)
Example permutant_runs :
  exec g_permutant [("parentSeqObj.seq"%string, VStr (list_ascii_of_string "GEKDR")); ("self.seq"%string, VStr (list_ascii_of_string "+0-+-"))]
  = ORet (VStr (list_ascii_of_string "KGERD")).
Proof. vm_compute. reflexivity. Qed.
