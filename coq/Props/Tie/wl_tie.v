(* Tie (C18): statement shapes of run_normal_WL / __run_flatcheck / bin geometry / in-range test and the
   move weights (1, 41.5, 69.3, 78.2) extracted from the source. *)
From Coq Require Import List QArith String.
From LC Require Import Gen.GWL.
Import ListNotations.
Local Open Scope string_scope.

Lemma wl_shapes_tie : g_wl_shapes_ok = true.
Proof. reflexivity. Qed.

Lemma wl_weights_tie : g_wl_weights =
  [("p_full_shuffle", 1 # 1); ("p_swap_charges", 83 # 2); ("p_swap_blocks", 693 # 10); ("p_cluster_charges", 391 # 5)]%Q.
Proof. reflexivity. Qed.
