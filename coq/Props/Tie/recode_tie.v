(* Tie (C05, C06): the residue lists and output letters of Sequence.Omega / Omega_seq / kappa_X,
   extracted from the source, are the model's {P,E,D,K,R} group and -1/+1/0 recoding. *)
From Coq Require Import List ZArith Bool String.
From LC Require Import Core.Residue Model.Recode Gen.GSeq Gen.GTables.
Import ListNotations.
Local Open Scope string_scope.

Lemma omega_members_tie :
  forallb (fun r => Bool.eqb (mem_aa r g_omega_members) (mem_aa r omega_group)) all20 = true
  /\ forallb (fun r => Bool.eqb (mem_aa r g_omegaseq_members) (mem_aa r omega_group)) all20 = true.
Proof. vm_compute. split; reflexivity. Qed.

Lemma omega_letters_tie : chg g_omega_in = (-1)%Z /\ chg g_omega_out = 1%Z.
Proof. vm_compute. split; reflexivity. Qed.

Lemma omega_seq_letters_tie : g_omegaseq_in = "X" /\ g_omegaseq_out = "O".
Proof. split; reflexivity. Qed.

Lemma kappaX_letters_tie : map chg g_kappaX_letters = [-1; 1; 0; -1; 1]%Z.
Proof. vm_compute. reflexivity. Qed.

Lemma parse_group_tie :
  g_parse_group_uppercases_and_checks_twenty = true /\
  forallb (fun r => mem_aa r GTables.twenty_aas) all20 = true /\ List.length GTables.twenty_aas = 20%nat.
Proof. vm_compute. repeat split. Qed.
