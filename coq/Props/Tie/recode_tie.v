(* Tie (C05, C06): TWENTY_AAs lists the 20 residues (the recoding functions themselves: minipy_kappax_tie.v). *)
From Coq Require Import List ZArith Bool String.
From LC Require Import Core.Residue Model.Recode Gen.GSeq Gen.GTables.
Import ListNotations.
Local Open Scope string_scope.

Lemma twenty_tie :
  forallb (fun r => mem_aa r GTables.twenty_aas) all20 = true /\ List.length GTables.twenty_aas = 20%nat.
Proof. vm_compute. repeat split. Qed.
