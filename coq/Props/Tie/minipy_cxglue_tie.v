(* Tie (C11) — SEMANTIC: the glue around the three complexity measures, translated from the working tree on every run
   into Core.MiniPy terms: SequenceComplexity.get_indexed_complexity_vector (the positions reported with a profile),
   get_WF_complexity / get_LC_complexity / get_LZW_complexity (reduce the alphabet, run the measure, index the vector),
   Sequence.get_linear_*_complexity (window guard, then the complexity object) and SequenceParameters.get_linear_complexity
   (case-insensitive dispatch on the type).  `a // b` is the primitive floordiv (Python's floor division on integers,
   ZeroDivisionError for b = 0), np.arange(a, b, s, dtype=int) the primitive arange3, np.vstack((row, row)) the two rows. *)
From Coq Require Import List String Ascii ZArith QArith Bool Arith Lia.
From LC Require Import Core.Residue Core.MiniPy Model.Complexity Gen.GMiniPy.
Import ListNotations.
Local Open Scope Z_scope.

Ltac lk := repeat (rewrite lookup_set_eq || rewrite lookup_set_neq by reflexivity).

Definition floordiv_prim (args : list value) : value :=
  match args with [VInt a; VInt b] => if b =? 0 then VExc else VInt (a / b) | _ => VErr end.
Definition arange3_prim (args : list value) : value :=
  match args with
  | [VInt a; VInt b; VInt s] => if s <=? 0 then VErr else VList (map (fun k => VInt (a + Z.of_nat k * s)) (seq 0 (Z.to_nat ((b - a + s - 1) / s))))
  | _ => VErr
  end.
Definition vstack_rows (args : list value) : value :=
  match args with [VList [VList a; VList b]] => VList [VList a; VList b] | _ => VErr end.

Section Indexed.
Variable other : string -> list value -> value.
Definition ix_prim (name : string) (args : list value) : value :=
  if String.eqb name "floordiv" then floordiv_prim args
  else if String.eqb name "arange3" then arange3_prim args
  else if String.eqb name "np.vstack" then vstack_rows args
  else other name args.
Local Notation exec := (MiniPy.exec ix_prim 0).
Local Notation eval := (MiniPy.eval ix_prim).

Lemma fd a b r x y : eval a r = VInt x -> eval b r = VInt y -> y <> 0 -> eval (ECall "floordiv" [a; b]) r = VInt (x / y).
Proof.
  intros Ha Hb Hy. rewrite (eval_call2 _ _ _ _ (VInt x) (VInt y) Ha Hb eq_refl eq_refl).
  unfold ix_prim. cbn [String.eqb Ascii.eqb Bool.eqb floordiv_prim]. destruct (Z.eqb_spec y 0); [contradiction | reflexivity].
Qed.

Lemma step_assign x e b r v : eval e r = v -> is_bad v = false -> exec (SSeq (SAssign x e) b) r = exec b (set x v r).
Proof. intros H H0. rewrite exec_seq, (exec_assign_ok _ _ _ _ H H0). reflexivity. Qed.
Lemma step_norm a b r r' : exec a r = ONorm r' -> exec (SSeq a b) r = exec b r'.
Proof. intros H. rewrite exec_seq, H. reflexivity. Qed.

Lemma assign_exc x e b r : eval e r = VExc -> exec (SSeq (SAssign x e) b) r = ORaise.
Proof. intros H. rewrite exec_seq. cbn [MiniPy.exec]. rewrite H. reflexivity. Qed.

Lemma ret_vstack r (a b : list value) : lookup "indices" r = VList a -> lookup "complexity_vector" r = VList b ->
  exec (SReturn (ECall "np.vstack" [EListLit [EVar "indices"; EVar "complexity_vector"]])) r = ORet (VList [VList a; VList b]).
Proof.
  intros Ha Hb. apply exec_return_ok; [| reflexivity].
  rewrite (eval_call1 _ _ _ (VList [VList a; VList b])); [reflexivity | | reflexivity].
  apply eval_listlit2; [rewrite eval_var; exact Ha | rewrite eval_var; exact Hb | reflexivity | reflexivity].
Qed.

Lemma arange_len sp K : 1 <= sp -> 0 <= K -> (sp * K + sp - 1) / sp = K.
Proof. intros Hs HK. replace (sp * K + sp - 1) with (K * sp + (sp - 1)) by lia. rewrite Z.div_add_l by lia. rewrite Z.div_small by lia. lia. Qed.

Lemma arange_positions (N K : Z) : 1 <= K <= N ->
  let sp := N / K in let rem := N - sp * K in
  let fs := if rem mod 2 =? 0 then rem / 2 else (rem - 1) / 2 in
  let fe := if rem mod 2 =? 0 then rem / 2 else (rem + 1) / 2 in
  arange3_prim [VInt (fs + 1 + sp / 2); VInt (N + 1 - fe + sp / 2); VInt sp] = VList (map VInt (positions N K)).
Proof.
  intros HK sp rem fs fe.
  assert (Hsp : 1 <= sp) by (unfold sp; apply Z.div_le_lower_bound; lia).
  assert (Hrem : 0 <= rem) by (unfold rem, sp; pose proof (Z.mul_div_le N K); lia).
  assert (Hfse : fs + fe = rem).
  { unfold fs, fe. destruct (Z.eqb_spec (rem mod 2) 0) as [E|E].
    - pose proof (Z.div_mod rem 2). lia.
    - pose proof (Z.div_mod (rem - 1) 2). pose proof (Z.div_mod (rem + 1) 2). pose proof (Z.mod_pos_bound rem 2).
      assert (rem mod 2 = 1) by lia.
      assert ((rem - 1) mod 2 = 0) by (rewrite Zminus_mod; replace (rem mod 2) with 1 by lia; reflexivity).
      assert ((rem + 1) mod 2 = 0) by (rewrite Zplus_mod; replace (rem mod 2) with 1 by lia; reflexivity). lia. }
  unfold arange3_prim. destruct (Z.leb_spec sp 0); [lia|].
  replace (N + 1 - fe + sp / 2 - (fs + 1 + sp / 2) + sp - 1) with (sp * K + sp - 1) by (unfold rem in Hfse; lia).
  rewrite arange_len by lia. unfold positions. rewrite map_map. reflexivity.
Qed.

Definition ix_env (vec : list value) (N : Z) : env := [("complexity_vector"%string, VList vec); ("seq_len"%string, VInt N)].

(* WHOLE FUNCTION: a vector of K values over a sequence of length N >= K >= 1 gets the model's K positions *)
Theorem indexed_tie (vec : list value) (N K : Z) r : K = Z.of_nat (List.length vec) ->
  lookup "complexity_vector" r = VList vec -> lookup "seq_len" r = VInt N -> 1 <= K <= N -> (forall v, In v vec -> is_bad v = false) ->
  exec g_indexed r = ORet (VList [VList (map VInt (positions N K)); VList vec]).
Proof.
  intros HKdef Hv HN HK Hbad. unfold g_indexed.
  assert (E1 : eval (ELen (EVar "complexity_vector")) r = VInt K) by (cbn [MiniPy.eval]; rewrite Hv, HKdef; reflexivity).
  rewrite (step_assign _ _ _ _ _ E1 eq_refl). set (r1 := set "complexity_vector_len" (VInt K) r).
  set (sp := N / K).
  assert (Hsp : 1 <= sp) by (unfold sp; apply Z.div_le_lower_bound; lia).
  assert (E2 : eval (ECall "floordiv" [EVar "seq_len"; EVar "complexity_vector_len"]) r1 = VInt sp).
  { apply fd; [rewrite eval_var; unfold r1; lk; exact HN | rewrite eval_var; unfold r1; lk; reflexivity | lia]. }
  rewrite (step_assign _ _ _ _ _ E2 eq_refl). set (r2 := set "spacing" (VInt sp) r1).
  set (rem := N - sp * K).
  assert (E3 : eval (ESub (EVar "seq_len") (EMul (EVar "spacing") (EVar "complexity_vector_len"))) r2 = VInt rem).
  { apply eval_sub_int; [rewrite eval_var; unfold r2, r1; lk; exact HN |].
    apply eval_mul_int; rewrite eval_var; unfold r2, r1; lk; reflexivity. }
  rewrite (step_assign _ _ _ _ _ E3 eq_refl). set (r3 := set "remainder" (VInt rem) r2).
  set (fs := if rem mod 2 =? 0 then rem / 2 else (rem - 1) / 2).
  set (fe := if rem mod 2 =? 0 then rem / 2 else (rem + 1) / 2).
  assert (Lrem : lookup "remainder" r3 = VInt rem) by (unfold r3; lk; reflexivity).
  assert (E4 : exists r4, exec (SIf (EEq (EMod (EVar "remainder") (EConst (VInt 2))) (EConst (VInt 0)))
                 (SSeq (SAssign "flank_start" (ECall "floordiv" [EVar "remainder"; EConst (VInt 2)])) (SAssign "flank_end" (ECall "floordiv" [EVar "remainder"; EConst (VInt 2)])))
                 (SSeq (SAssign "flank_start" (ECall "floordiv" [ESub (EVar "remainder") (EConst (VInt 1)); EConst (VInt 2)]))
                       (SAssign "flank_end" (ECall "floordiv" [EAdd (EVar "remainder") (EConst (VInt 1)); EConst (VInt 2)])))) r3 = ONorm r4
            /\ r4 = set "flank_end" (VInt fe) (set "flank_start" (VInt fs) r3)).
  { assert (T : truthy (eval (EEq (EMod (EVar "remainder") (EConst (VInt 2))) (EConst (VInt 0))) r3) = VBool (rem mod 2 =? 0)).
    { rewrite (eval_eq_int _ _ _ (rem mod 2) 0); [reflexivity | cbn [MiniPy.eval]; rewrite Lrem; reflexivity | reflexivity]. }
    rewrite exec_if, T. unfold fs, fe.
    destruct (Z.eqb_spec (rem mod 2) 0) as [E|E].
    - eexists. split; [|reflexivity]. rewrite exec_seq.
      rewrite (exec_assign_ok _ _ _ (VInt (rem / 2))); [| apply fd; [rewrite eval_var; exact Lrem | reflexivity | lia] | reflexivity].
      apply exec_assign_ok; [| reflexivity]. apply fd; [rewrite eval_var; lk; exact Lrem | reflexivity | lia].
    - eexists. split; [|reflexivity]. rewrite exec_seq.
      rewrite (exec_assign_ok _ _ _ (VInt ((rem - 1) / 2))); [| apply fd; [apply eval_sub_int; [rewrite eval_var; exact Lrem | reflexivity] | reflexivity | lia] | reflexivity].
      apply exec_assign_ok; [| reflexivity]. apply fd; [apply eval_add_int; [rewrite eval_var; lk; exact Lrem | reflexivity] | reflexivity | lia]. }
  destruct E4 as [r4 [E4 Hr4]]. rewrite (step_norm _ _ _ _ E4).
  assert (Lfs : lookup "flank_start" r4 = VInt fs) by (rewrite Hr4; lk; reflexivity).
  assert (Lfe : lookup "flank_end" r4 = VInt fe) by (rewrite Hr4; lk; reflexivity).
  assert (Lsp : lookup "spacing" r4 = VInt sp) by (rewrite Hr4; unfold r3, r2; lk; reflexivity).
  assert (Lsl : lookup "seq_len" r4 = VInt N) by (rewrite Hr4; unfold r3, r2, r1; lk; exact HN).
  assert (Lcv : lookup "complexity_vector" r4 = VList vec) by (rewrite Hr4; unfold r3, r2, r1; lk; exact Hv).
  set (is := fs + 1 + sp / 2).
  assert (E5 : eval (EAdd (EAdd (EVar "flank_start") (EConst (VInt 1))) (ECall "floordiv" [EVar "spacing"; EConst (VInt 2)])) r4 = VInt is).
  { apply eval_add_int; [apply eval_add_int; [rewrite eval_var; exact Lfs | reflexivity] | apply fd; [rewrite eval_var; exact Lsp | reflexivity | lia]]. }
  rewrite (step_assign _ _ _ _ _ E5 eq_refl). set (r5 := set "index_start" (VInt is) r4).
  set (ie := N + 1 - fe + sp / 2).
  assert (E6 : eval (EAdd (ESub (EAdd (EVar "seq_len") (EConst (VInt 1))) (EVar "flank_end")) (ECall "floordiv" [EVar "spacing"; EConst (VInt 2)])) r5 = VInt ie).
  { apply eval_add_int; [apply eval_sub_int; [apply eval_add_int; [rewrite eval_var; unfold r5; lk; exact Lsl | reflexivity] | rewrite eval_var; unfold r5; lk; exact Lfe]
                        | apply fd; [rewrite eval_var; unfold r5; lk; exact Lsp | reflexivity | lia]]. }
  rewrite (step_assign _ _ _ _ _ E6 eq_refl). set (r6 := set "index_end" (VInt ie) r5).
  assert (E7 : eval (ECall "arange3" [EVar "index_start"; EVar "index_end"; EVar "spacing"]) r6 = VList (map VInt (positions N K))).
  { rewrite (eval_call3 _ _ _ _ _ (VInt is) (VInt ie) (VInt sp)); try reflexivity; try (rewrite eval_var; unfold r6, r5; lk; (reflexivity || exact Lsp)).
    unfold ix_prim. cbn [String.eqb Ascii.eqb Bool.eqb]. exact (arange_positions N K HK). }
  rewrite (step_assign _ _ _ _ _ E7 eq_refl). set (r7 := set "indices" (VList (map VInt (positions N K))) r6).
  apply ret_vstack; [unfold r7; lk; reflexivity | unfold r7, r6, r5; lk; exact Lcv].
Qed.

(* an empty vector: ZeroDivisionError *)
Theorem indexed_empty (N : Z) r : lookup "complexity_vector" r = VList [] -> lookup "seq_len" r = VInt N -> exec g_indexed r = ORaise.
Proof.
  intros Hv HN. unfold g_indexed.
  assert (E1 : eval (ELen (EVar "complexity_vector")) r = VInt 0) by (cbn [MiniPy.eval]; rewrite Hv; reflexivity).
  rewrite (step_assign _ _ _ _ _ E1 eq_refl). apply assign_exc.
  rewrite (eval_call2 _ _ _ _ (VInt N) (VInt 0)); [reflexivity | rewrite eval_var; lk; exact HN | rewrite eval_var; lk; reflexivity | reflexivity | reflexivity].
Qed.
End Indexed.
Print Assumptions indexed_tie.

(* a call with any number of arguments *)
Lemma eval_call_all prim f r es : forall vs, Forall2 (fun e v => MiniPy.eval prim e r = v /\ is_bad v = false) es vs -> MiniPy.eval prim (ECall f es) r = prim f vs.
Proof.
  intros vs H.
  assert (G : (fix go (l : list expr) : list value := match l with [] => [] | a :: l' => MiniPy.eval prim a r :: go l' end) es = vs
              /\ existsb (fun v => match v with VErr => true | _ => false end) vs = false
              /\ existsb (fun v => match v with VExc => true | _ => false end) vs = false).
  { induction H as [|e v es vs [He Hv] _ IH]; [repeat split|]. destruct IH as [I1 [I2 I3]]. rewrite I1, He. cbn [existsb]. rewrite I2, I3.
    repeat split; destruct v; try reflexivity; discriminate Hv. }
  destruct G as [G1 [G2 G3]]. cbn [MiniPy.eval]. rewrite G1, G2, G3. reflexivity.
Qed.

Lemma extra_args prim r (ex : list (string * value)) : Forall (fun xv => is_bad (snd xv) = false) ex -> Forall (fun xv => lookup (fst xv) r = snd xv) ex ->
  Forall2 (fun e v => MiniPy.eval prim e r = v /\ is_bad v = false) (map (fun xv => EVar (fst xv)) ex) (map snd ex).
Proof.
  induction ex as [|[x v] ex IH]; intros Hb Hl; [constructor|]. inversion Hb; inversion Hl; subst. cbn [map fst snd] in *.
  constructor; [split; [rewrite eval_var; assumption | assumption] | apply IH; assumption].
Qed.

(* ---------- get_WF_complexity / get_LC_complexity / get_LZW_complexity ---------- *)
Section Measures.
Variable ra : list value -> value.        (* self.reduce_alphabet(sequence, alphabetSize, userAlphabet): tied in minipy_alphabet_tie.v *)
Variable meas : list value -> value.      (* self.CWF / self.LC / self.LZW: tied in minipy_complexity_tie.v *)
Variable mname : string.
Hypothesis mname_ok : String.eqb mname "reduce_alphabet" = false /\ String.eqb mname "get_indexed_complexity_vector" = false.
Definition noprim (_ : string) (_ : list value) : value := VErr.
Definition run_indexed (args : list value) : value :=
  match args with
  | [v; n] => match MiniPy.exec (ix_prim noprim) 0 g_indexed [("complexity_vector"%string, v); ("seq_len"%string, n)] with ORet x => x | ORaise => VExc | _ => VErr end
  | _ => VErr
  end.
Definition m_prim (name : string) (args : list value) : value :=
  if String.eqb name "reduce_alphabet" then ra args
  else if String.eqb name "get_indexed_complexity_vector" then run_indexed args
  else if String.eqb name mname then meas args
  else VErr.
Local Notation exec := (MiniPy.exec m_prim 0).
Local Notation eval := (MiniPy.eval m_prim).

Variables (s : list ascii) (a u red alph : value) (extra : list (string * value)) (vec : list value).
Hypothesis a_ok : is_bad a = false.
Hypothesis u_ok : is_bad u = false.
Hypothesis red_ok : is_bad red = false.
Hypothesis alph_ok : is_bad alph = false.
Hypothesis ra_spec : ra [VStr s; a; u] = VList [red; alph].
Hypothesis extra_ok : Forall (fun xv => is_bad (snd xv) = false) extra.
Hypothesis meas_spec : meas (red :: alph :: map snd extra) = VList vec.
Hypothesis vec_ok : forall v, In v vec -> is_bad v = false.
Hypothesis vec_len : 1 <= Z.of_nat (List.length vec) <= Z.of_nat (List.length s).

(* the common shape of the three functions: only the measure's name and its extra arguments (window, step[, word]) differ *)
Definition glue_term : stmt :=
  SSeq (SSeq (SAssign "$1" (ECall "reduce_alphabet" [EVar "sequence"; EVar "alphabetSize"; EVar "userAlphabet"]))
             (SSeq (SAssign "reduced_sequence" (EIndex (EVar "$1") (EConst (VInt 0)))) (SAssign "alphabet" (EIndex (EVar "$1") (EConst (VInt 1))))))
       (SSeq (SAssign "complexity_vector" (ECall mname (EVar "reduced_sequence" :: EVar "alphabet" :: map (fun xv => EVar (fst xv)) extra)))
             (SReturn (ECall "get_indexed_complexity_vector" [EVar "complexity_vector"; ELen (EVar "sequence")]))).

Definition fresh (x : string) : Prop := String.eqb x "$1" = false /\ String.eqb x "reduced_sequence" = false /\ String.eqb x "alphabet" = false.

Theorem glue_tie r : lookup "sequence" r = VStr s -> lookup "alphabetSize" r = a -> lookup "userAlphabet" r = u ->
  Forall (fun xv => fresh (fst xv) /\ lookup (fst xv) r = snd xv) extra ->
  exec glue_term r = ORet (VList [VList (map VInt (positions (Z.of_nat (List.length s)) (Z.of_nat (List.length vec)))); VList vec]).
Proof.
  intros Hs Ha Hu Hex. unfold glue_term. destruct mname_ok as [M1 M2].
  assert (E1 : eval (ECall "reduce_alphabet" [EVar "sequence"; EVar "alphabetSize"; EVar "userAlphabet"]) r = VList [red; alph]).
  { rewrite (eval_call3 _ _ _ _ _ (VStr s) a u); [exact ra_spec | rewrite eval_var; exact Hs | rewrite eval_var; exact Ha | rewrite eval_var; exact Hu | reflexivity | exact a_ok | exact u_ok]. }
  rewrite exec_seq, exec_seq, (exec_assign_ok _ _ _ _ E1 eq_refl). set (r1 := set "$1" (VList [red; alph]) r).
  assert (E2 : eval (EIndex (EVar "$1") (EConst (VInt 0))) r1 = red).
  { apply (eval_index_list _ _ _ [red; alph] 0); [rewrite eval_var; unfold r1; lk; reflexivity | reflexivity | reflexivity]. }
  rewrite exec_seq, (exec_assign_ok _ _ _ _ E2 red_ok). set (r2 := set "reduced_sequence" red r1).
  assert (E3 : eval (EIndex (EVar "$1") (EConst (VInt 1))) r2 = alph).
  { apply (eval_index_list _ _ _ [red; alph] 1); [rewrite eval_var; unfold r2, r1; lk; reflexivity | reflexivity | reflexivity]. }
  rewrite (exec_assign_ok _ _ _ _ E3 alph_ok). set (r3 := set "alphabet" alph r2).
  assert (E4 : eval (ECall mname (EVar "reduced_sequence" :: EVar "alphabet" :: map (fun xv => EVar (fst xv)) extra)) r3 = VList vec).
  { rewrite (eval_call_all m_prim mname r3 _ (red :: alph :: map snd extra)).
    - unfold m_prim. rewrite M1, M2, String.eqb_refl. exact meas_spec.
    - constructor; [split; [rewrite eval_var; unfold r3, r2; lk; reflexivity | exact red_ok]|].
      constructor; [split; [rewrite eval_var; unfold r3; lk; reflexivity | exact alph_ok]|].
      apply extra_args; [exact extra_ok|]. eapply Forall_impl; [|exact Hex]. intros [x v] [[F1 [F2 F3]] Hx]. cbn [fst snd] in *.
      unfold r3, r2, r1. rewrite !lookup_set_neq by assumption. exact Hx. }
  rewrite exec_seq, (exec_assign_ok _ _ _ _ E4 eq_refl). set (r4 := set "complexity_vector" (VList vec) r3).
  apply exec_return_ok; [| reflexivity].
  rewrite (eval_call2 _ _ _ _ (VList vec) (VInt (Z.of_nat (List.length s)))); try reflexivity.
  - unfold m_prim. cbn [String.eqb Ascii.eqb Bool.eqb run_indexed].
    rewrite (indexed_tie noprim vec (Z.of_nat (List.length s)) (Z.of_nat (List.length vec)) [("complexity_vector"%string, VList vec); ("seq_len"%string, VInt (Z.of_nat (List.length s)))] eq_refl eq_refl eq_refl vec_len vec_ok). reflexivity.
  - rewrite eval_var. unfold r4. lk. reflexivity.
  - cbn [MiniPy.eval]. unfold r4, r3, r2, r1. lk. rewrite Hs. reflexivity.
Qed.
End Measures.

(* the three translated functions ARE this shape *)
Lemma WF_shape : g_get_WF_complexity = glue_term "CWF" [("windowSize"%string, VNone); ("stepSize"%string, VNone)]. Proof. reflexivity. Qed.
Lemma LC_shape : g_get_LC_complexity = glue_term "LC" [("windowSize"%string, VNone); ("stepSize"%string, VNone); ("wordSize"%string, VNone)]. Proof. reflexivity. Qed.
Lemma LZW_shape : g_get_LZW_complexity = glue_term "LZW" [("windowSize"%string, VNone); ("stepSize"%string, VNone)]. Proof. reflexivity. Qed.
Print Assumptions glue_tie.

(* ---------- Sequence.get_linear_*_complexity: the window guard, then the complexity object with the arguments in order ---------- *)
Section Guarded.
Variable cs : list ascii.                       (* self.seq *)
Variable oracle : string -> list value -> value.
Definition g_prim (name : string) (args : list value) : value :=
  if String.eqb name "__check_window_to_length" then
    match args with
    | [b] => match MiniPy.exec noprim 0 g_check_window [("self.seq"%string, VStr cs); ("bloblen"%string, b)] with ONorm _ => VNone | ORaise => VExc | _ => VErr end
    | _ => VErr
    end
  else oracle name args.
Definition guard_term (oname : string) (args : list string) : stmt :=
  SSeq (SAssign "$_" (ECall "__check_window_to_length" [EVar "windowSize"])) (SReturn (ECall oname (map EVar args))).

Theorem guarded_tie oname (args : list string) (w : Z) r : String.eqb oname "__check_window_to_length" = false ->
  lookup "windowSize" r = VInt w -> Forall (fun x => String.eqb x "$_" = false /\ is_bad (lookup x r) = false) args ->
  is_bad (oracle oname (map (fun x => lookup x r) args)) = false ->
  MiniPy.exec g_prim 0 (guard_term oname args) r =
    if Z.of_nat (List.length cs) <? w then ORaise else ORet (oracle oname (map (fun x => lookup x r) args)).
Proof.
  intros Hn Hw Hargs Hres. unfold guard_term. rewrite exec_seq.
  assert (Ec : MiniPy.eval g_prim (ECall "__check_window_to_length" [EVar "windowSize"]) r = if Z.of_nat (List.length cs) <? w then VExc else VNone).
  { rewrite (eval_call1 _ _ _ (VInt w)); [| rewrite eval_var; exact Hw | reflexivity].
    unfold g_prim. cbn [String.eqb Ascii.eqb Bool.eqb]. unfold g_check_window. rewrite exec_if. cbn [MiniPy.eval lookup String.eqb Ascii.eqb Bool.eqb].
    cbn [bad2 is_bad cmp_int]. destruct (Z.of_nat (List.length cs) <? w); reflexivity. }
  destruct (Z.of_nat (List.length cs) <? w).
  - cbn [MiniPy.exec]. rewrite Ec. reflexivity.
  - rewrite (exec_assign_ok _ _ _ _ Ec eq_refl). apply exec_return_ok; [| exact Hres].
    rewrite (eval_call_all g_prim oname _ (map EVar args) (map (fun x => lookup x r) args)).
    + unfold g_prim. rewrite Hn. reflexivity.
    + clear Hres. induction args as [|x xs IH]; [constructor|]. inversion Hargs as [|? ? [Hx Hb] Hr]; subst. cbn [map].
      constructor; [split; [rewrite eval_var, lookup_set_neq by exact Hx; reflexivity | exact Hb] | apply IH; exact Hr].
Qed.
End Guarded.

Lemma linear_WF_shape : g_get_linear_WF = guard_term "ComplexityObject.get_WF_complexity" ["self.seq"; "alphabetSize"; "userAlphabet"; "windowSize"; "stepSize"]%string. Proof. reflexivity. Qed.
Lemma linear_LC_shape : g_get_linear_LC = guard_term "ComplexityObject.get_LC_complexity" ["self.seq"; "alphabetSize"; "userAlphabet"; "windowSize"; "stepSize"; "wordSize"]%string. Proof. reflexivity. Qed.
Lemma linear_LZW_shape : g_get_linear_LZW = guard_term "ComplexityObject.get_LZW_complexity" ["self.seq"; "alphabetSize"; "userAlphabet"; "windowSize"; "stepSize"]%string. Proof. reflexivity. Qed.
Print Assumptions guarded_tie.

(* ---------- SequenceParameters.get_linear_complexity: case-insensitive dispatch on the complexity type ---------- *)
Section Dispatch.
Variable backend : string -> list value -> value.
Local Notation exec := (MiniPy.exec backend 0).
Local Notation eval := (MiniPy.eval backend).
Local Notation WF := (list_ascii_of_string "WF").
Local Notation LC := (list_ascii_of_string "LC").
Local Notation LZW := (list_ascii_of_string "LZW").
Variables (t : list ascii) (a u b st : value) (wz : Z).
Local Notation ws := (VInt wz).
Let T := map upper_py t.
Hypothesis ok_a : is_bad a = false.
Hypothesis ok_u : is_bad u = false.
Hypothesis ok_b : is_bad b = false.
Hypothesis ok_st : is_bad st = false.
Hypothesis ok_WF : is_bad (backend "SeqObj.get_linear_WF_complexity" [a; u; b; st]) = false.
Hypothesis ok_LZW : is_bad (backend "SeqObj.get_linear_LZW_complexity" [a; u; b; st]) = false.
Hypothesis ok_LC : is_bad (backend "SeqObj.get_linear_LC_complexity" [a; u; b; st; ws]) = false.

Definition d_env : env := [("complexityType"%string, VStr t); ("alphabetSize"%string, a); ("userAlphabet"%string, u); ("blobLen"%string, b); ("stepSize"%string, st); ("wordSize"%string, ws)].
Definition d_spine : list stmt := Eval vm_compute in spine g_fw_get_linear_complexity.

Lemma eq_test r lit : lookup "complexityType" r = VStr T -> truthy (eval (EEq (EVar "complexityType") (EConst (VStr lit))) r) = VBool (ascii_list_eqb T lit).
Proof. intros H. cbn [MiniPy.eval]. rewrite H. reflexivity. Qed.

Lemma call4 f r : lookup "alphabetSize" r = a -> lookup "userAlphabet" r = u -> lookup "blobLen" r = b -> lookup "stepSize" r = st ->
  eval (ECall f [EVar "alphabetSize"; EVar "userAlphabet"; EVar "blobLen"; EVar "stepSize"]) r = backend f [a; u; b; st].
Proof.
  intros H1 H2 H3 H4. apply eval_call_all. repeat constructor; try (rewrite eval_var; assumption); assumption.
Qed.

Theorem dispatch_tie : exec g_fw_get_linear_complexity d_env =
  if ascii_list_eqb T WF then ORet (backend "SeqObj.get_linear_WF_complexity" [a; u; b; st])
  else if ascii_list_eqb T LZW then ORet (backend "SeqObj.get_linear_LZW_complexity" [a; u; b; st])
  else if ascii_list_eqb T LC then ORet (backend "SeqObj.get_linear_LC_complexity" [a; u; b; st; ws])
  else ORaise.
Proof.
  rewrite exec_spine. change (spine g_fw_get_linear_complexity) with d_spine. unfold d_spine.
  assert (E0 : eval (EListLit [EConst (VStr WF); EConst (VStr LC); EConst (VStr LZW)]) d_env = VList [VStr WF; VStr LC; VStr LZW]) by reflexivity.
  rewrite exec_list_cons, (exec_assign_ok _ _ _ _ E0 eq_refl).
  set (r1 := set "allowed_types" _ d_env).
  rewrite exec_list_cons, exec_if_true by reflexivity.
  assert (E1 : eval (EUpper (EVar "complexityType")) r1 = VStr T) by reflexivity.
  rewrite (exec_assign_ok _ _ _ _ E1 eq_refl).
  set (r2 := set "complexityType" (VStr T) r1).
  assert (L : lookup "complexityType" r2 = VStr T) by reflexivity.
  assert (Tin : truthy (eval (ENotIn (EVar "complexityType") (EVar "allowed_types")) r2) = VBool (negb (ascii_list_eqb T WF || (ascii_list_eqb T LC || (ascii_list_eqb T LZW || false))))).
  { cbn [MiniPy.eval]. rewrite L. reflexivity. }
  rewrite exec_list_cons, exec_if, Tin.
  destruct (ascii_list_eqb T WF) eqn:EWF.
  { cbn [negb orb MiniPy.exec]. rewrite exec_list_cons, (exec_if_true _ _ _ _ (eq_trans (eq_test r2 WF L) (f_equal VBool EWF))).
    rewrite exec_seq.
    assert (Hskip : exec (SIf (ENot (EEq (EVar "wordSize") (EConst (VInt 3)))) SSkip SSkip) r2 = ONorm r2).
    { rewrite exec_if. cbn [MiniPy.eval]. change (lookup "wordSize" r2) with (VInt wz). cbn [bad2 is_bad veqb]. destruct (wz =? 3); reflexivity. }
    rewrite Hskip. rewrite (exec_return_ok _ _ _ (call4 _ r2 eq_refl eq_refl eq_refl eq_refl) ok_WF). reflexivity. }
  destruct (ascii_list_eqb T LZW) eqn:ELZW.
  { replace (negb (false || (ascii_list_eqb T LC || (true || false)))) with false by (destruct (ascii_list_eqb T LC); reflexivity).
    cbn [MiniPy.exec]. rewrite exec_list_cons, (exec_if_false _ _ _ _ (eq_trans (eq_test r2 WF L) (f_equal VBool EWF))). cbn [MiniPy.exec].
    rewrite exec_list_cons, (exec_if_true _ _ _ _ (eq_trans (eq_test r2 LZW L) (f_equal VBool ELZW))).
    rewrite exec_seq.
    assert (Hskip : exec (SIf (ENot (EEq (EVar "wordSize") (EConst (VInt 3)))) SSkip SSkip) r2 = ONorm r2).
    { rewrite exec_if. cbn [MiniPy.eval]. change (lookup "wordSize" r2) with (VInt wz). cbn [bad2 is_bad veqb]. destruct (wz =? 3); reflexivity. }
    rewrite Hskip. rewrite (exec_return_ok _ _ _ (call4 _ r2 eq_refl eq_refl eq_refl eq_refl) ok_LZW). reflexivity. }
  destruct (ascii_list_eqb T LC) eqn:ELC.
  { cbn [negb orb MiniPy.exec]. rewrite exec_list_cons, (exec_if_false _ _ _ _ (eq_trans (eq_test r2 WF L) (f_equal VBool EWF))). cbn [MiniPy.exec].
    rewrite exec_list_cons, (exec_if_false _ _ _ _ (eq_trans (eq_test r2 LZW L) (f_equal VBool ELZW))). cbn [MiniPy.exec].
    rewrite exec_list_cons. 
    assert (Hrhp : exec (SIf (EEq (EVar "complexityType") (EConst (VStr ["R"%char; "H"%char; "P"%char]))) SSkip SSkip) r2 = ONorm r2).
    { rewrite exec_if, (eq_test r2 _ L). destruct (ascii_list_eqb T ["R"%char; "H"%char; "P"%char]); reflexivity. }
    rewrite Hrhp, exec_list_cons, (exec_if_true _ _ _ _ (eq_trans (eq_test r2 LC L) (f_equal VBool ELC))).
    rewrite (exec_return_ok _ _ (backend "SeqObj.get_linear_LC_complexity" [a; u; b; st; ws])); [reflexivity | | exact ok_LC].
    apply eval_call_all. repeat constructor; assumption || reflexivity. }
  cbn [negb orb MiniPy.exec]. reflexivity.
Qed.
End Dispatch.
Print Assumptions dispatch_tie.

(* non-vacuity: lower-case "lzw" is dispatched to the LZW profile with the arguments in order *)
Example dispatch_runs : MiniPy.exec (fun f args => VList (VStr (list_ascii_of_string f) :: args)) 0 g_fw_get_linear_complexity
    (d_env (list_ascii_of_string "lzw") (VInt 20) VNone (VInt 5) (VInt 1) 3)
  = ORet (VList [VStr (list_ascii_of_string "SeqObj.get_linear_LZW_complexity"); VInt 20; VNone; VInt 5; VInt 1]).
Proof. vm_compute. reflexivity. Qed.
Example indexed_runs : MiniPy.exec (ix_prim noprim) 0 g_indexed (ix_env [VInt 7; VInt 8; VInt 9] 11)
  = ORet (VList [VList [VInt 3; VInt 6; VInt 9]; VList [VInt 7; VInt 8; VInt 9]]).
Proof. vm_compute. reflexivity. Qed.
