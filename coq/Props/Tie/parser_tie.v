(* Tie (C14): parser statement shapes present in the source; the digit string is 0-9. *)
From Coq Require Import List Bool String.
From LC Require Import Core.Residue Model.Parser Gen.GParams.
Import ListNotations.
Local Open Scope string_scope.
Lemma parser_shape_tie : g_parser_shape_ok = true /\ g_parser_digits = "0123456789".
Proof. split; reflexivity. Qed.
