(* Tie (C03): the candidate enumeration of Sequence.deltaMax, symbolically executed from the
   source by tools/py2coq/strsym (regime chain, range bounds, block order), produces exactly
   the documented family Spec.Delta.cands — same candidates, same order — for every
   composition with N <= 26 (3653 compositions, covering n0 = 17/18 and the 7x7 end-neutral
   ranges).  Bounded by kernel evaluation; the bound is in the statement. *)
From Coq Require Import List ZArith Bool Arith.
From LC Require Import Core.Residue Core.Lists Spec.Delta Proofs.Flat Gen.GSeq.
Import ListNotations.

Lemma g_cands_eq_family_b :
  forallb (fun c => let '(p, n, z) := c in llZ_eqb (g_cands p n z) (cands p n z)) (all_comps 26) = true.
Proof. vm_compute. reflexivity. Qed.

Theorem g_cands_eq_family p n z : In (p, n, z) (all_comps 26) -> g_cands p n z = cands p n z.
Proof.
  intros H. pose proof g_cands_eq_family_b as Hb. rewrite forallb_forall in Hb.
  specialize (Hb _ H). cbn beta iota in Hb. apply llZ_eqb_eq. exact Hb.
Qed.

(* uncharged compositions of any size enumerate nothing (delta-max is then 0 by the FCR = 0 arm) *)
Lemma g_cands_uncharged z : g_cands 0 0 z = [].
Proof. reflexivity. Qed.

Print Assumptions g_cands_eq_family.
