(* Tie (C09) — SEMANTIC: the body of Sequence.isoelectric_point, translated from the working tree into a Core.MiniPy term on
   every run (while-loop, escape clause, bisection arithmetic over exact rationals, the call of charge_at_pH interpreted
   as an arbitrary oracle f), is proved to agree with Model.Titration.pi_loop for EVERY oracle and every iteration bound:
   same returned pH; the model's None is the raise of the escape clause (or the exhausted bound, excluded for 221 by
   C09_pI_failure_only_by_escape_clause).  Float literals are read as the decimals written (0.02 = 1/50), as in the model. *)
From Coq Require Import List String Ascii ZArith QArith Qreduction Bool Lia.
From LC Require Import Core.MiniPy Model.Titration Gen.GMiniPy.
Import ListNotations.

(* ---------- Sequence.isoelectric_point ---------- *)
Section PI.
Variable f : Q -> Q.          (* charge_at_pH(x, normalize=True) *)

Definition pi_prim (name : string) (args : list value) : value :=
  if String.eqb name "charge_at_pH|normalize" then
    match args with [VQ x; VBool true] => VQ (f x) | _ => VErr end
  else VErr.

Definition pi_env (lo hi : Q) (bc ec : nat) (mid pc : value) : env :=
  [("self"%string, VNone); ("min_pH"%string, VQ lo); ("max_pH"%string, VQ hi); ("threshold"%string, VQ (1 # 50));
   ("breakcount"%string, VInt (Z.of_nat bc)); ("errorcount"%string, VInt (Z.of_nat ec)); ("mid_pH"%string, mid);
   ("protein_charge"%string, pc)].
Definition pi_env0 : env :=
  [("self"%string, VNone); ("min_pH"%string, VNone); ("max_pH"%string, VNone); ("threshold"%string, VNone);
   ("breakcount"%string, VNone); ("errorcount"%string, VNone); ("mid_pH"%string, VNone); ("protein_charge"%string, VNone)].

Definition pi_body : stmt := Eval vm_compute in
  match last (spine g_isoelectric_point) SSkip with SWhile _ b => b | _ => SSkip end.

Lemma pi_spine : spine g_isoelectric_point =
  removelast (spine g_isoelectric_point) ++ [SWhile (EConst (VBool true)) pi_body].
Proof. vm_compute. reflexivity. Qed.

Ltac mp := cbn [MiniPy.exec MiniPy.eval lookup set String.eqb Ascii.eqb Bool.eqb truthy v_in v_not cmp_int bad2 is_bad as_Q
                pi_env pi_prim existsb veqb orb].


Definition thr_neg : Q := Qred (inject_Z 0 - (1 # 50)).

(* what one pass of the loop body does, from the midpoint on *)
Definition pi_tail (lo hi : Q) (bcz ecz : Z) : outcome :=
  let m := Qred ((1 # 2) * Qred (hi + lo)) in
  let c := f m in
  let mk (l h : Q) := [("self"%string, VNone); ("min_pH"%string, VQ l); ("max_pH"%string, VQ h); ("threshold"%string, VQ (1 # 50));
                       ("breakcount"%string, VInt bcz); ("errorcount"%string, VInt ecz); ("mid_pH"%string, VQ m);
                       ("protein_charge"%string, VQ c)] in
  if negb (Qle_bool c (1 # 50)) then ONorm (mk m hi)
  else if negb (Qle_bool thr_neg c) then ONorm (mk lo m)
  else ORet (VQ m).

Lemma body_noesc wf lo hi bc ec mid pc : (S bc <> 20)%nat ->
  MiniPy.exec pi_prim wf pi_body (pi_env lo hi bc ec mid pc) = pi_tail lo hi (Z.of_nat bc + 1) (Z.of_nat ec).
Proof.
  intros Hne. unfold pi_body.
  assert (E : (Z.of_nat bc + 1 =? 20)%Z = false) by (apply Z.eqb_neq; lia).
  mp. rewrite E. mp. mp. unfold pi_tail, thr_neg, Qltb. cbn zeta.
  destruct (Qle_bool (f (Qred ((1 # 2) * Qred (hi + lo)))) (1 # 50)); cbn [negb]; [|reflexivity].
  destruct (Qle_bool (Qred (inject_Z 0 - (1 # 50))) (f (Qred ((1 # 2) * Qred (hi + lo))))); cbn [negb]; reflexivity.
Qed.

Lemma body_esc_raise wf lo hi mid pc : 
  MiniPy.exec pi_prim wf pi_body (pi_env lo hi 19 10 mid pc) = ORaise.
Proof. unfold pi_body. mp. change (Z.of_nat 19 + 1 =? 20)%Z with true. change (Z.of_nat 10 =? 10)%Z with true. mp. reflexivity. Qed.

Lemma body_esc wf lo hi ec mid p : (ec <> 10)%nat ->
  MiniPy.exec pi_prim wf pi_body (pi_env lo hi 19 ec mid (VQ p)) =
  if negb (Qle_bool p 0) then pi_tail lo (Qred (hi + inject_Z 1)) 0 (Z.of_nat ec + 1)
  else pi_tail (Qred (lo - inject_Z 1)) hi 0 (Z.of_nat ec + 1).
Proof.
  intros Hne. unfold pi_body.
  assert (E : (Z.of_nat ec =? 10)%Z = false) by (apply Z.eqb_neq; lia).
  mp. change (Z.of_nat 19 + 1 =? 20)%Z with true. rewrite E. mp. unfold Qltb. change (inject_Z 0) with 0%Q.
  destruct (Qle_bool p 0); cbn [negb]; mp; mp; unfold pi_tail, thr_neg, Qltb; cbn zeta; change (inject_Z 0) with 0%Q;
    repeat match goal with |- context [Qle_bool ?a ?b] => destruct (Qle_bool a b); cbn [negb] end; reflexivity.
Qed.

Lemma tail_spec lo' hi' lo hi bcz ecz bc' ec' : lo' == lo -> hi' == hi -> bcz = Z.of_nat bc' -> ecz = Z.of_nat ec' ->
  pi_tail lo' hi' bcz ecz =
  let m := Qred ((1 # 2) * (hi + lo)) in
  let c := f m in
  if negb (Qle_bool c (2 # 100)) then ONorm (pi_env m hi' bc' ec' (VQ m) (VQ c))
  else if negb (Qle_bool (- (2 # 100)) c) then ONorm (pi_env lo' m bc' ec' (VQ m) (VQ c))
  else ORet (VQ m).
Proof.
  intros Hl Hh -> ->. unfold pi_tail. cbn zeta.
  assert (Em : Qred ((1 # 2) * Qred (hi' + lo')) = Qred ((1 # 2) * (hi + lo))).
  { apply Qred_complete. rewrite Qred_correct, Hl, Hh. reflexivity. }
  rewrite Em. set (c := f (Qred ((1 # 2) * (hi + lo)))).
  assert (E1 : Qle_bool c (1 # 50) = Qle_bool c (2 # 100)) by (apply Qleb_comp; reflexivity).
  assert (E2 : Qle_bool thr_neg c = Qle_bool (- (2 # 100)) c) by (apply Qleb_comp; [unfold thr_neg; rewrite Qred_correct|]; reflexivity).
  rewrite E1, E2. reflexivity.
Qed.

Definition pi_rel (r : env) (lo hi : Q) (bc ec : nat) (prev : Q) : Prop :=
  exists lo' hi' mid pc, r = pi_env lo' hi' bc ec mid pc /\ lo' == lo /\ hi' == hi /\ (pc = VQ prev \/ (bc < 19)%nat).

Lemma rel_intro lo' hi' bc ec mid pc lo hi prev : lo' == lo -> hi' == hi -> (pc = VQ prev \/ (bc < 19)%nat) ->
  pi_rel (pi_env lo' hi' bc ec mid pc) lo hi bc ec prev.
Proof. intros H1 H2 H3. exists lo', hi', mid, pc. split; [reflexivity|]. split; [exact H1|]. split; [exact H2 | exact H3]. Qed.

Definition agree (m : option Q) (o : outcome) : Prop :=
  match m, o with
  | Some x, ORet (VQ y) => y = x
  | None, ORaise => True       (* the escape clause *)
  | None, OErr => True         (* out of iterations *)
  | _, _ => False
  end.

Lemma pi_loop_tie wf : forall k r lo hi bc ec prev vis, pi_rel r lo hi bc ec prev -> (bc < 20)%nat ->
  agree (fst (pi_loop f k lo hi bc ec prev vis)) (MiniPy.run_while pi_prim wf (EConst (VBool true)) pi_body k r).
Proof.
  induction k as [|k IH]; intros r lo hi bc ec prev vis (lo' & hi' & mid & pc & -> & Hl & Hh & Hpc) Hbc;
    cbn [pi_loop MiniPy.run_while fst]; [exact I|].
  cbn [MiniPy.eval truthy].
  destruct (Nat.eq_dec (S bc) 20) as [E20|N20].
  - assert (bc = 19)%nat by lia. subst bc. destruct Hpc as [-> | Hlt]; [|lia].
    change (Nat.eqb 20 20) with true. cbn [andb].
    destruct (Nat.eq_dec ec 10) as [->|Nec].
    + change (Nat.eqb 10 10) with true. cbn [fst]. rewrite body_esc_raise. exact I.
    + replace (Nat.eqb ec 10) with false by (symmetry; apply Nat.eqb_neq; exact Nec).
      rewrite (body_esc wf lo' hi' ec mid prev Nec).
      destruct (Qle_bool prev 0) eqn:Ep; cbn [negb].
      * rewrite (tail_spec (Qred (lo' - inject_Z 1)) hi' (lo - 1) hi 0 (Z.of_nat ec + 1) 0 (S ec));
          [| rewrite Qred_correct, Hl; reflexivity | exact Hh | reflexivity | lia].
        cbn zeta. set (m := Qred ((1 # 2) * (hi + (lo - 1)))). set (c := f m).
        destruct (negb (Qle_bool c (2 # 100))) eqn:E1.
        { apply IH; [|lia]. apply rel_intro; [reflexivity | exact Hh | left; reflexivity]. }
        destruct (negb (Qle_bool (- (2 # 100)) c)) eqn:E2.
        { apply IH; [|lia]. apply rel_intro; [rewrite Qred_correct, Hl; reflexivity | reflexivity | left; reflexivity]. }
        cbn [fst agree]. reflexivity.
      * rewrite (tail_spec lo' (Qred (hi' + inject_Z 1)) lo (hi + 1) 0 (Z.of_nat ec + 1) 0 (S ec));
          [| exact Hl | rewrite Qred_correct, Hh; reflexivity | reflexivity | lia].
        cbn zeta. set (m := Qred ((1 # 2) * (hi + 1 + lo))). set (c := f m).
        destruct (negb (Qle_bool c (2 # 100))) eqn:E1.
        { apply IH; [|lia]. apply rel_intro; [reflexivity | rewrite Qred_correct, Hh; reflexivity | left; reflexivity]. }
        destruct (negb (Qle_bool (- (2 # 100)) c)) eqn:E2.
        { apply IH; [|lia]. apply rel_intro; [exact Hl | reflexivity | left; reflexivity]. }
        cbn [fst agree]. reflexivity.
  - replace (Nat.eqb (S bc) 20) with false by (symmetry; apply Nat.eqb_neq; exact N20). cbn [andb].
    rewrite (body_noesc wf lo' hi' bc ec mid pc N20).
    rewrite (tail_spec lo' hi' lo hi (Z.of_nat bc + 1) (Z.of_nat ec) (S bc) ec Hl Hh ltac:(lia) eq_refl).
    cbn zeta. set (m := Qred ((1 # 2) * (hi + lo))). set (c := f m).
    destruct (negb (Qle_bool c (2 # 100))) eqn:E1.
    { apply IH; [|lia]. apply rel_intro; [reflexivity | exact Hh | left; reflexivity]. }
    destruct (negb (Qle_bool (- (2 # 100)) c)) eqn:E2.
    { apply IH; [|lia]. apply rel_intro; [exact Hl | reflexivity | left; reflexivity]. }
    cbn [fst agree]. reflexivity.
Qed.

(* the whole function: for EVERY charge oracle and every iteration bound, running the generated term agrees with the
   model's loop (same returned pH; the model's None is the raise of the escape clause or the exhausted bound) *)
Theorem isoelectric_point_tie fuel :
  agree (fst (pi_loop f fuel 0 14 0 0 0 [])) (MiniPy.exec pi_prim fuel g_isoelectric_point pi_env0).
Proof.
  rewrite exec_spine, pi_spine.
  assert (Hpre : forall tl, MiniPy.exec_list pi_prim fuel (removelast (spine g_isoelectric_point) ++ tl) pi_env0 =
                            MiniPy.exec_list pi_prim fuel tl (pi_env 0 14 0 0 VNone VNone)).
  { intros tl. vm_compute removelast. cbn [app MiniPy.exec_list]. reflexivity. }
  rewrite Hpre. cbn [MiniPy.exec_list]. rewrite exec_while.
  pose proof (pi_loop_tie fuel fuel (pi_env 0 14 0 0 VNone VNone) 0 14 0%nat 0%nat 0 []) as H.
  assert (HR : pi_rel (pi_env 0 14 0 0 VNone VNone) 0 14 0 0 0).
  { apply rel_intro; [reflexivity | reflexivity | right; lia]. }
  specialize (H HR ltac:(lia)).
  destruct (MiniPy.run_while pi_prim fuel (EConst (VBool true)) pi_body fuel (pi_env 0 14 0 0 VNone VNone)); exact H.
Qed.
End PI.

Theorem isoelectric_point_matches_model f : agree (fst (isoelectric f)) (MiniPy.exec (pi_prim f) 221 g_isoelectric_point pi_env0).
Proof. unfold isoelectric. apply isoelectric_point_tie. Qed.
Print Assumptions isoelectric_point_matches_model.

(* ---- end to end: the TRANSLATED CODE never raises and neutralises ----
   For every sequence with a titratable residue and every oracle within 1/1000 of its exact normalised charge, running
   the term translated from Sequence.isoelectric_point returns a pH (no exception, no exhausted bound) at which the
   oracle's charge is within 0.02 of zero. *)
From Coq Require Import Reals Qreals Qabs.
From LC Require Import Core.Residue Proofs.PiReal.

Theorem translated_isoelectric_point_never_raises s (f : Q -> Q) : (0 < ntit s)%Z ->
  (forall q, (Rabs (Q2R (f q) - ncharge (titr_terms s) (Q2R q)) <= 1 / 1000)%R) ->
  exists x, MiniPy.exec (pi_prim f) 221 g_isoelectric_point pi_env0 = ORet (VQ x) /\ (Qabs (f x) <= 2 # 100)%Q.
Proof.
  intros Hpos Hf. destruct (pi_result_neutral s f Hpos Hf) as (x & tr & Hiso & Hq & _).
  pose proof (isoelectric_point_matches_model f) as H. rewrite Hiso in H. cbn [fst] in H.
  destruct (MiniPy.exec (pi_prim f) 221 g_isoelectric_point pi_env0) as [| | | v | |]; try contradiction.
  destruct v; try contradiction. cbn [agree] in H. subst. exists x. split; [reflexivity | exact Hq].
Qed.
Print Assumptions translated_isoelectric_point_never_raises.

(* ---------- the public getters (SequenceParameters) are exactly a return of the backend call with their own arguments ---------- *)
Lemma fw_get_isoelectric_point : g_fw_get_isoelectric_point = SReturn (ECall "SeqObj.isoelectric_point"%string []). Proof. reflexivity. Qed.

(* ---------- the pH-taking getters: range check, then the backend call ---------- *)
Definition fw_ph_shape (m : string) : stmt :=
  SSeq (SIf (ENe (EVar "pH") (EConst VNone)) (SAssign "$_" (ECall "__verify_pH" [EVar "pH"])) SSkip)
       (SReturn (ECall m [EVar "pH"])).
Lemma fw_get_FCR : g_fw_get_FCR = fw_ph_shape "SeqObj.FCR". Proof. reflexivity. Qed.
Lemma fw_get_NCPR : g_fw_get_NCPR = fw_ph_shape "SeqObj.NCPR". Proof. reflexivity. Qed.
Lemma fw_get_mean_net_charge : g_fw_get_mean_net_charge = fw_ph_shape "SeqObj.mean_net_charge". Proof. reflexivity. Qed.
Lemma fw_get_fraction_expanding : g_fw_get_fraction_expanding = fw_ph_shape "SeqObj.FER". Proof. reflexivity. Qed.

Section PHGetters.
Variable backend : string -> list value -> value.      (* the backend methods: oracles here *)
Definition ph_prim (name : string) (args : list value) : value :=
  if String.eqb name "__verify_pH" then
    match args with
    | [v] => match MiniPy.exec noprim 0 g_verify_pH [("pH"%string, v)] with ONorm _ => VNone | ORaise => VExc | _ => VErr end
    | _ => VErr
    end
  else backend name args.

(* __verify_pH on any rational pH: an exception exactly outside [0, 14] *)
Lemma verify_pH_tie (ph : Q) : MiniPy.exec noprim 0 g_verify_pH [("pH"%string, VQ ph)] =
  if Qltb ph 0 || Qltb 14 ph then ORaise else ONorm [("pH"%string, VQ ph)].
Proof.
  unfold g_verify_pH. set (r := [("pH"%string, VQ ph)]).
  assert (T1 : truthy (MiniPy.eval noprim (ELt (EVar "pH") (EConst (VQ (0 # 1)))) r) = VBool (Qltb ph 0)) by reflexivity.
  assert (T2 : truthy (MiniPy.eval noprim (EGt (EVar "pH") (EConst (VQ (14 # 1)))) r) = VBool (Qltb 14 ph)) by reflexivity.
  rewrite exec_seq. destruct (Qltb ph 0).
  - rewrite (exec_if_true _ _ _ _ T1). reflexivity.
  - rewrite (exec_if_false _ _ _ _ T1). change (MiniPy.exec noprim 0 SSkip r) with (ONorm r). cbv beta iota. cbn [orb]. destruct (Qltb 14 ph).
    + rewrite (exec_if_true _ _ _ _ T2). reflexivity.
    + rewrite (exec_if_false _ _ _ _ T2). reflexivity.
Qed.

(* every pH-taking getter, for ANY backend: without a pH the backend's answer for None; with a rational pH an exception
   exactly outside [0, 14], else the backend's answer for that pH *)
Theorem ph_getter_none m r : lookup "pH" r = VNone -> String.eqb m "__verify_pH" = false -> is_bad (backend m [VNone]) = false ->
  MiniPy.exec ph_prim 0 (fw_ph_shape m) r = ORet (backend m [VNone]).
Proof.
  intros Hp Hm Hb. unfold fw_ph_shape.
  assert (T : truthy (MiniPy.eval ph_prim (ENe (EVar "pH") (EConst VNone)) r) = VBool false) by (cbn [MiniPy.eval]; rewrite Hp; reflexivity).
  rewrite exec_seq, (exec_if_false _ _ _ _ T). change (MiniPy.exec ph_prim 0 SSkip r) with (ONorm r). cbv beta iota. apply exec_return_ok; [|exact Hb].
  rewrite (eval_call1 _ _ _ VNone (eq_trans (eval_var _ _) Hp) eq_refl). unfold ph_prim. now rewrite Hm.
Qed.
Theorem ph_getter_value m (ph : Q) r : lookup "pH" r = VQ ph -> String.eqb m "__verify_pH" = false -> is_bad (backend m [VQ ph]) = false ->
  MiniPy.exec ph_prim 0 (fw_ph_shape m) r = if Qltb ph 0 || Qltb 14 ph then ORaise else ORet (backend m [VQ ph]).
Proof.
  intros Hp Hm Hb. unfold fw_ph_shape.
  assert (T : truthy (MiniPy.eval ph_prim (ENe (EVar "pH") (EConst VNone)) r) = VBool true) by (cbn [MiniPy.eval]; rewrite Hp; reflexivity).
  rewrite exec_seq, (exec_if_true _ _ _ _ T).
  assert (Ev : MiniPy.eval ph_prim (ECall "__verify_pH" [EVar "pH"]) r = if Qltb ph 0 || Qltb 14 ph then VExc else VNone).
  { rewrite (eval_call1 _ _ _ (VQ ph) (eq_trans (eval_var _ _) Hp) eq_refl). unfold ph_prim. cbn [String.eqb Ascii.eqb Bool.eqb].
    rewrite verify_pH_tie. destruct (Qltb ph 0 || Qltb 14 ph); reflexivity. }
  destruct (Qltb ph 0 || Qltb 14 ph).
  - change (MiniPy.exec ph_prim 0 (SAssign "$_" ?e) r) with (match MiniPy.eval ph_prim e r with VExc => ORaise | VErr => OErr | v => ONorm (set "$_" v r) end). now rewrite Ev.
  - rewrite (exec_assign_ok _ _ _ _ Ev eq_refl). apply exec_return_ok; [|exact Hb].
    rewrite (eval_call1 _ _ _ (VQ ph)); [| rewrite eval_var, lookup_set_neq by reflexivity; exact Hp | reflexivity]. unfold ph_prim. now rewrite Hm.
Qed.
End PHGetters.
Print Assumptions ph_getter_value.
