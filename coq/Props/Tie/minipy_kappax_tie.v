(* Tie (C06, C05) — SEMANTIC: Sequence.__parse_group, kappa_X, Omega and Omega_seq, translated from the working tree into
   Core.MiniPy terms on every run (list comprehension, set(), the construction of another Sequence and its kappa() as
   primitives).  __parse_group on ANY list of strings raises exactly when Model.Recode.parse_group rejects and
   otherwise returns a collection with exactly the model's members; kappa_X — with its calls of __parse_group interpreted
   by RUNNING the translated __parse_group — returns, for ANY sequence, groups and kappa function, kappa of the E/K/G
   recoding whose charge pattern is the model's recode2 / recode1; Omega is kappa of the {P,E,D,K,R} recoding and
   Omega_seq marks exactly those positions. *)
From Coq Require Import List String Ascii ZArith QArith Bool Arith Lia.
From LC Require Import Core.Residue Core.MiniPy Model.Recode Gen.GMiniPy.
Import ListNotations.
Local Notation la := list_ascii_of_string.
Local Notation sv s := (VStr (la s)).
Local Notation kv a := (VStr [aa_char a]).

Ltac all_ascii c := destruct c as [[] [] [] [] [] [] [] []].

(* ---------- Sequence.__parse_group ---------- *)
Section PG.
Local Notation exec := (MiniPy.exec noprim 0).
Local Notation run_loop := (MiniPy.run_loop noprim 0).
Local Notation eval := (MiniPy.eval noprim).

Definition order_src : list aa :=
  [Arg; His; Lys; Asp; Glu; Ser; Thr; Asn; Gln; Cys; Gly; Pro; Ala; Ile; Leu; Met; Phe; Trp; Tyr; Val].

Definition up (x : string) : value := VStr (map upper_py (la x)).
Definition pg_env (lg res : value) : env := [("self"%string, VNone); ("localgrp"%string, lg); ("res"%string, res)].

Lemma upper_same c : upper_py c = upper_ascii c.
Proof. reflexivity. Qed.

(* a member, upper-cased, is one of the 20 one-letter strings exactly when the model parses it *)
Definition valid_up (v : value) : bool := existsb (veqb v) (map (fun a => kv a) order_src).

Lemma valid_up_member x : valid_up (up x) = match parse_member x with Some _ => true | None => false end.
Proof.
  unfold valid_up, up. destruct x as [|c [|d x]]; cbn [parse_member la map].
  - reflexivity.
  - change (upper_ascii c) with (upper_py c). generalize (upper_py c). intros u.
    destruct (aa_of_char u) as [b|] eqn:E.
    + apply aa_of_char_some in E. subst u. destruct b; reflexivity.
    + destruct (existsb (veqb (VStr [u])) (map (fun a => kv a) order_src)) eqn:Ex; [|reflexivity].
      exfalso. apply existsb_exists in Ex. destruct Ex as [v [Hin Hv]]. apply in_map_iff in Hin. destruct Hin as [b [<- _]].
      cbn [veqb ascii_list_eqb] in Hv. rewrite andb_true_r in Hv. apply Ascii.eqb_eq in Hv. subst u. rewrite aa_of_char_char in E. discriminate.
  - induction order_src as [|a l IH]; [reflexivity|]. cbn [map existsb]. rewrite IH.
    cbn [veqb ascii_list_eqb]. destruct (Ascii.eqb (upper_py c) (aa_char a)); reflexivity.
Qed.

Lemma lookup_set_same x v r : lookup x (set x v r) = v.
Proof.
  induction r as [|[y w] r IH]; cbn [set lookup]; [now rewrite String.eqb_refl|].
  destruct (String.eqb x y) eqn:E; cbn [lookup]; rewrite E; [reflexivity | exact IH].
Qed.

Lemma comp_up g r : comp_list noprim "x" (EUpper (EVar "x")) (map (fun x => sv x) g) r = VList (map up g).
Proof.
  induction g as [|x g IH]; [reflexivity|]. cbn [map comp_list]. rewrite IH.
  cbn [MiniPy.eval]. rewrite lookup_set_same. reflexivity.
Qed.

Lemma eval_setof a r : eval (ESetOf a) r = match eval a r with VList l => VList (vdedup [] l) | VExc => VExc | _ => VErr end.
Proof. reflexivity. Qed.

Definition pg_spine : list stmt := Eval vm_compute in spine g_parse_group.
Lemma pg_spine_eq : spine g_parse_group = pg_spine. Proof. vm_compute. reflexivity. Qed.
Definition pg_body : stmt := Eval vm_compute in match nth 1 pg_spine SSkip with SFor _ _ b => b | _ => SSkip end.
Lemma pg_parts : pg_spine = [SAssign "localgrp" (ESetOf (EComp "x" (EUpper (EVar "x")) (EVar "localgrp")));
                             SFor "res" (EVar "localgrp") pg_body; SReturn (EVar "localgrp")].
Proof. reflexivity. Qed.

Lemma pg_step lg res s :
  exec pg_body (set "res" (VStr s) (pg_env lg res)) = if valid_up (VStr s) then ONorm (pg_env lg (VStr s)) else ORaise.
Proof.
  unfold pg_body, valid_up. cbn [map order_src aa_char].
  cbn [MiniPy.exec MiniPy.eval lookup set String.eqb Ascii.eqb Bool.eqb pg_env].
  unfold v_not, v_in, bad2.
  match goal with |- context [existsb ?f ?l] => destruct (existsb f l) end; reflexivity.
Qed.

Lemma pg_loop lg L : (forall v, In v L -> exists s, v = VStr s) -> forall res,
  if forallb valid_up L then exists res', run_loop "res" pg_body L (pg_env lg res) = ONorm (pg_env lg res')
  else run_loop "res" pg_body L (pg_env lg res) = ORaise.
Proof.
  induction L as [|v L IH]; intros HL res; cbn [forallb MiniPy.run_loop].
  - exists res. reflexivity.
  - destruct (HL v (or_introl eq_refl)) as [s ->].
    rewrite pg_step.
    destruct (valid_up (VStr s)); cbn [andb]; [|reflexivity]. apply IH. intros w Hw. apply HL. right. exact Hw.
Qed.

Lemma vdedup_sub seen l v : In v (vdedup seen l) -> In v l.
Proof.
  revert seen. induction l as [|w l IH]; intros seen H; cbn [vdedup] in H; [destruct H|].
  destruct (existsb (veqb w) seen); [right; eapply IH; exact H|]. destruct H as [<-|H]; [left; reflexivity | right; eapply IH; exact H].
Qed.

(* __parse_group on ANY list of strings *)
Theorem parse_group_tie g :
  exec g_parse_group (pg_env (VList (map (fun x => sv x) g)) VNone) =
  if forallb valid_up (vdedup [] (map up g)) then ORet (VList (vdedup [] (map up g))) else ORaise.
Proof.
  rewrite exec_spine, pg_spine_eq, pg_parts. cbn [MiniPy.exec_list].
  assert (H1 : exec (SAssign "localgrp" (ESetOf (EComp "x" (EUpper (EVar "x")) (EVar "localgrp")))) (pg_env (VList (map (fun x => sv x) g)) VNone)
               = ONorm (pg_env (VList (vdedup [] (map up g))) VNone)).
  { cbn [MiniPy.exec]. rewrite eval_setof, eval_comp.
    change (eval (EVar "localgrp") (pg_env (VList (map (fun x => sv x) g)) VNone)) with (VList (map (fun x => sv x) g)).
    cbn [elements]. rewrite comp_up. reflexivity. }
  rewrite H1. rewrite exec_for.
  change (eval (EVar "localgrp") (pg_env (VList (vdedup [] (map up g))) VNone)) with (VList (vdedup [] (map up g))). cbn [elements].
  assert (HL : forall v, In v (vdedup [] (map up g)) -> exists s, v = VStr s).
  { intros v Hv. apply vdedup_sub in Hv. apply in_map_iff in Hv. destruct Hv as [x [<- _]]. eexists. reflexivity. }
  pose proof (pg_loop (VList (vdedup [] (map up g))) _ HL VNone) as HLoop.
  destruct (forallb valid_up (vdedup [] (map up g))); [|rewrite HLoop; reflexivity].
  destruct HLoop as [res' ->]. reflexivity.
Qed.

(* ---- the returned collection, in the model's vocabulary ---- *)
Lemma str_veqb_eq s t : veqb (VStr s) (VStr t) = true -> s = t.
Proof.
  cbn [veqb]. revert t. induction s as [|c s IH]; intros [|d t] H; cbn [ascii_list_eqb] in H; try discriminate; [reflexivity|].
  apply andb_prop in H. destruct H as [H1 H2]. apply Ascii.eqb_eq in H1. subst. f_equal. apply IH. exact H2.
Qed.
Lemma str_veqb_refl s : veqb (VStr s) (VStr s) = true.
Proof. cbn [veqb]. induction s as [|c s IH]; [reflexivity|]. cbn [ascii_list_eqb]. now rewrite Ascii.eqb_refl, IH. Qed.

Definition all_str (l : list value) : Prop := forall v, In v l -> exists s, v = VStr s.

Lemma forallb_vdedup (P : value -> bool) l : all_str l -> forall seen, all_str seen -> (forall w, In w seen -> P w = true) ->
  forallb P (vdedup seen l) = forallb P l.
Proof.
  induction l as [|v l IH]; intros Hl seen Hs HP; [reflexivity|]. cbn [vdedup forallb].
  assert (Hl' : all_str l) by (intros w Hw; apply Hl; right; exact Hw).
  destruct (Hl v (or_introl eq_refl)) as [sv0 ->].
  destruct (existsb (veqb (VStr sv0)) seen) eqn:E.
  - apply existsb_exists in E. destruct E as [w [Hw Ew]]. destruct (Hs w Hw) as [t ->]. apply str_veqb_eq in Ew. subst t.
    rewrite (HP _ Hw). cbn [andb]. apply IH; assumption.
  - cbn [forallb]. destruct (P (VStr sv0)) eqn:EP; cbn [andb]; [|reflexivity].
    apply IH; [exact Hl' | |].
    + intros w [<-|Hw]; [eexists; reflexivity | apply Hs; exact Hw].
    + intros w [<-|Hw]; [exact EP | apply HP; exact Hw].
Qed.

Lemma existsb_vdedup x l : all_str l -> forall seen, all_str seen ->
  existsb (veqb (VStr x)) (vdedup seen l) || existsb (veqb (VStr x)) seen = existsb (veqb (VStr x)) l || existsb (veqb (VStr x)) seen.
Proof.
  induction l as [|v l IH]; intros Hl seen Hs; [reflexivity|]. cbn [vdedup existsb].
  assert (Hl' : all_str l) by (intros w Hw; apply Hl; right; exact Hw).
  destruct (Hl v (or_introl eq_refl)) as [t ->].
  destruct (existsb (veqb (VStr t)) seen) eqn:E.
  - rewrite (IH Hl' seen Hs). destruct (veqb (VStr x) (VStr t)) eqn:Ext; cbn [orb]; [|reflexivity].
    apply str_veqb_eq in Ext. subst t. rewrite E. now rewrite !orb_true_r.
  - cbn [existsb]. assert (Hs' : all_str (VStr t :: seen)) by (intros w [<-|Hw]; [eexists; reflexivity | apply Hs; exact Hw]).
    pose proof (IH Hl' (VStr t :: seen) Hs') as H. cbn [existsb] in H.
    destruct (veqb (VStr x) (VStr t)); cbn [orb] in *; [reflexivity|]. exact H.
Qed.

Lemma all_str_up g : all_str (map up g).
Proof. intros v Hv. apply in_map_iff in Hv. destruct Hv as [x [<- _]]. eexists. reflexivity. Qed.
Lemma all_str_nil : all_str []. Proof. intros v []. Qed.

Lemma up_member x b : parse_member x = Some b -> up x = kv b.
Proof.
  unfold parse_member, up. destruct x as [|c [|d x]]; try discriminate. intros H. cbn [la map].
  change (upper_ascii c) with (upper_py c) in H. apply aa_of_char_some in H. now rewrite H.
Qed.

Lemma kv_eqb a b : veqb (kv a) (kv b) = aa_eqb a b.
Proof. destruct a, b; reflexivity. Qed.

Theorem pg_accepts g : forallb valid_up (vdedup [] (map up g)) = match parse_group g with Some _ => true | None => false end.
Proof.
  rewrite (forallb_vdedup valid_up _ (all_str_up g) [] all_str_nil) by (intros w []).
  induction g as [|x g IH]; [reflexivity|]. cbn [map forallb parse_group]. rewrite valid_up_member, IH.
  destruct (parse_member x); [|reflexivity]. destruct (parse_group g); reflexivity.
Qed.

Theorem pg_membership g l a : parse_group g = Some l -> existsb (veqb (kv a)) (vdedup [] (map up g)) = mem_aa a l.
Proof.
  intros H. pose proof (existsb_vdedup [aa_char a] _ (all_str_up g) [] all_str_nil) as E. cbn [existsb] in E. rewrite !orb_false_r in E.
  rewrite E. clear E. revert l H. induction g as [|x g IH]; intros l H; cbn [parse_group] in H.
  - injection H as <-. reflexivity.
  - destruct (parse_member x) as [b|] eqn:Eb; [|discriminate]. destruct (parse_group g) as [l'|]; [|discriminate]. injection H as <-.
    cbn [map existsb mem_aa]. rewrite (up_member x b Eb), kv_eqb, (IH l' eq_refl). reflexivity.
Qed.

Theorem pg_empty g l : parse_group g = Some l -> (vdedup [] (map up g) = [] <-> l = []).
Proof.
  intros H. destruct g as [|x g]; cbn [parse_group] in H.
  - injection H as <-. tauto.
  - destruct (parse_member x); [|discriminate]. destruct (parse_group g); [|discriminate]. injection H as <-.
    cbn [map vdedup existsb]. split; discriminate.
Qed.
End PG.

(* ---------- Sequence.kappa_X ---------- *)
Section KX.
(* the three things kappa_X calls, by what is established about them: __parse_group (parse_group_tie + pg_*: rejects
   exactly when the model does, otherwise a collection with the model's members, empty iff the model's list is), the
   construction of a Sequence from a string, and that object's kappa() — here ANY function K of the string *)
Variable prim : string -> list value -> value.
Variable obj : list ascii -> value.
Variable K : list ascii -> value.
Variable coll : list string -> list value.
Hypothesis Hpg : forall g, prim "__parse_group" [VList (map (fun x => sv x) g)] =
                           match parse_group g with Some _ => VList (coll g) | None => VExc end.
Hypothesis Hmem : forall g l a, parse_group g = Some l -> existsb (veqb (kv a)) (coll g) = mem_aa a l.
Hypothesis Hemp : forall g l, parse_group g = Some l -> (coll g = [] <-> l = []).
Hypothesis Hobj : forall s, prim "Sequence" [VStr s] = obj s.
Hypothesis Hobj_ok : forall s, obj s <> VErr /\ obj s <> VExc.
Hypothesis Hkap : forall s, prim ".kappa" [obj s] = K s.
Hypothesis HK_ok : forall s, K s <> VErr /\ K s <> VExc.

Local Notation exec := (MiniPy.exec prim 0).
Local Notation run_loop := (MiniPy.run_loop prim 0).

Definition kx_env (s : list aa) (g1 g2 newseq res aug : value) : env :=
  [("self"%string, VNone); ("grp1"%string, g1); ("grp2"%string, g2); ("self.seq"%string, VStr (map aa_char s));
   ("newseq"%string, newseq); ("res"%string, res); ("augmented_seq"%string, aug)].

Definition letter2 (l1 l2 : list aa) (a : aa) : ascii := if mem_aa a l1 then "E"%char else if mem_aa a l2 then "K"%char else "G"%char.
Definition letter1 (l1 : list aa) (a : aa) : ascii := if mem_aa a l1 then "E"%char else "K"%char.

Definition kx_spine : list stmt := Eval vm_compute in spine g_kappa_X.
Lemma kx_spine_eq : spine g_kappa_X = kx_spine. Proof. vm_compute. reflexivity. Qed.
Definition kx_if : stmt := Eval vm_compute in nth 2 kx_spine SSkip.
Definition kx_loop2 : stmt := Eval vm_compute in match kx_if with SIf _ (SSeq _ l) _ => l | _ => SSkip end.
Definition kx_loop1 : stmt := Eval vm_compute in match kx_if with SIf _ _ (SSeq _ l) => l | _ => SSkip end.
Definition kx_body2 : stmt := Eval vm_compute in match kx_loop2 with SFor _ _ b => b | _ => SSkip end.
Definition kx_body1 : stmt := Eval vm_compute in match kx_loop1 with SFor _ _ b => b | _ => SSkip end.

Ltac mk := cbn [MiniPy.exec MiniPy.eval lookup set String.eqb Ascii.eqb Bool.eqb truthy v_not cmp_int bad2 is_bad as_Q
                kx_env orb negb].

Lemma kx_step2 s c1 c2 l1 l2 acc res aug a :
  (forall b, existsb (veqb (kv b)) c1 = mem_aa b l1) -> (forall b, existsb (veqb (kv b)) c2 = mem_aa b l2) ->
  exec kx_body2 (set "res" (kv a) (kx_env s (VList c1) (VList c2) (VStr acc) res aug)) =
  ONorm (kx_env s (VList c1) (VList c2) (VStr (acc ++ [letter2 l1 l2 a])) (kv a) aug).
Proof.
  intros H1 H2. unfold kx_body2, letter2. mk.
  change (v_in (kv a) (VList c1)) with (VBool (existsb (veqb (kv a)) c1)). rewrite H1.
  destruct (mem_aa a l1); mk; [reflexivity|].
  change (v_in (kv a) (VList c2)) with (VBool (existsb (veqb (kv a)) c2)). rewrite H2.
  destruct (mem_aa a l2); mk; reflexivity.
Qed.

Lemma kx_step1 s c1 g2 l1 acc res aug a :
  (forall b, existsb (veqb (kv b)) c1 = mem_aa b l1) ->
  exec kx_body1 (set "res" (kv a) (kx_env s (VList c1) g2 (VStr acc) res aug)) =
  ONorm (kx_env s (VList c1) g2 (VStr (acc ++ [letter1 l1 a])) (kv a) aug).
Proof.
  intros H1. unfold kx_body1, letter1. mk.
  change (v_in (kv a) (VList c1)) with (VBool (existsb (veqb (kv a)) c1)). rewrite H1.
  destruct (mem_aa a l1); mk; reflexivity.
Qed.

Lemma kx_run2 s c1 c2 l1 l2 aug t :
  (forall b, existsb (veqb (kv b)) c1 = mem_aa b l1) -> (forall b, existsb (veqb (kv b)) c2 = mem_aa b l2) -> forall acc res,
  exists res', run_loop "res" kx_body2 (map (fun a => kv a) t) (kx_env s (VList c1) (VList c2) (VStr acc) res aug) =
               ONorm (kx_env s (VList c1) (VList c2) (VStr (acc ++ map (letter2 l1 l2) t)) res' aug).
Proof.
  intros H1 H2. induction t as [|a t IH]; intros acc res; cbn [map MiniPy.run_loop].
  - exists res. now rewrite app_nil_r.
  - rewrite (kx_step2 _ _ _ _ _ _ _ _ _ H1 H2). destruct (IH (acc ++ [letter2 l1 l2 a]) (kv a)) as [res' E]. exists res'. rewrite E, <- app_assoc. reflexivity.
Qed.

Lemma kx_run1 s c1 g2 l1 aug t :
  (forall b, existsb (veqb (kv b)) c1 = mem_aa b l1) -> forall acc res,
  exists res', run_loop "res" kx_body1 (map (fun a => kv a) t) (kx_env s (VList c1) g2 (VStr acc) res aug) =
               ONorm (kx_env s (VList c1) g2 (VStr (acc ++ map (letter1 l1) t)) res' aug).
Proof.
  intros H1. induction t as [|a t IH]; intros acc res; cbn [map MiniPy.run_loop].
  - exists res. now rewrite app_nil_r.
  - rewrite (kx_step1 _ _ _ _ _ _ _ _ H1). destruct (IH (acc ++ [letter1 l1 a]) (kv a)) as [res' E]. exists res'. rewrite E, <- app_assoc. reflexivity.
Qed.

Definition g2_val (g2 : option (list string)) : value :=
  match g2 with Some g => VList (map (fun x => sv x) g) | None => VNone end.

Definition kx_s0 : stmt := Eval vm_compute in nth 0 kx_spine SSkip.
Definition kx_s1 : stmt := Eval vm_compute in nth 1 kx_spine SSkip.
Definition kx_s3 : stmt := Eval vm_compute in nth 3 kx_spine SSkip.
Definition kx_s4 : stmt := Eval vm_compute in nth 4 kx_spine SSkip.
Lemma kx_parts : kx_spine = [kx_s0; kx_s1; kx_if; kx_s3; kx_s4]. Proof. reflexivity. Qed.
Definition kx_a : stmt := SAssign "newseq" (EConst (VStr [])).
Lemma kx_if_eq : kx_if = SIf (EVar "grp2") (SSeq kx_a kx_loop2) (SSeq kx_a kx_loop1). Proof. reflexivity. Qed.
Lemma kx_loop2_eq : kx_loop2 = SFor "res" (EVar "self.seq") kx_body2. Proof. reflexivity. Qed.
Lemma kx_loop1_eq : kx_loop1 = SFor "res" (EVar "self.seq") kx_body1. Proof. reflexivity. Qed.

Lemma exec_if c a b r : exec (SIf c a b) r =
  match truthy (MiniPy.eval prim c r) with
  | VBool true => exec a r
  | VBool false => exec b r
  | VExc => ORaise
  | VOpaque => match a, b with SSkip, SSkip => ONorm r | _, _ => OErr end
  | _ => OErr
  end.
Proof. reflexivity. Qed.

(* the last two statements: build the object, ask its kappa *)
Lemma kx_tail s g1v g2v str res : exec kx_s3 (kx_env s g1v g2v (VStr str) res VNone) = ONorm (kx_env s g1v g2v (VStr str) res (obj str)).
Proof.
  unfold kx_s3. cbn [MiniPy.exec MiniPy.eval lookup kx_env String.eqb Ascii.eqb Bool.eqb existsb orb]. rewrite Hobj.
  destruct (Hobj_ok str) as [O1 O2]. destruct (obj str); try congruence; reflexivity.
Qed.
Lemma kx_ret s g1v g2v str res : exec kx_s4 (kx_env s g1v g2v (VStr str) res (obj str)) = ORet (K str).
Proof.
  unfold kx_s4. cbn [MiniPy.exec MiniPy.eval lookup kx_env String.eqb Ascii.eqb Bool.eqb].
  destruct (Hobj_ok str) as [O1 O2]. destruct (obj str) eqn:Eo; try congruence; cbn [existsb orb]; rewrite <- Eo, Hkap;
    destruct (HK_ok str) as [K1 K2]; destruct (K str); try congruence; reflexivity.
Qed.

(* one-group recoding from the loop head on *)
Lemma kx_one s c1 g2v l1 : (forall b, existsb (veqb (kv b)) c1 = mem_aa b l1) ->
  MiniPy.exec_list prim 0 [SSeq kx_a kx_loop1; kx_s3; kx_s4] (kx_env s (VList c1) g2v VNone VNone VNone) = ORet (K (map (letter1 l1) s)).
Proof.
  intros M1. cbn [MiniPy.exec_list]. rewrite exec_seq.
  change (exec kx_a (kx_env s (VList c1) g2v VNone VNone VNone)) with (ONorm (kx_env s (VList c1) g2v (VStr []) VNone VNone)).
  cbv beta iota. rewrite kx_loop1_eq, exec_for.
  change (MiniPy.eval prim (EVar "self.seq") (kx_env s (VList c1) g2v (VStr []) VNone VNone)) with (VStr (map aa_char s)).
  cbn [elements]. rewrite map_map.
  destruct (kx_run1 s c1 g2v l1 VNone s M1 [] VNone) as [res' ->]. cbn [app]. rewrite kx_tail, kx_ret. reflexivity.
Qed.

Lemma kx_two s c1 c2 l1 l2 : (forall b, existsb (veqb (kv b)) c1 = mem_aa b l1) -> (forall b, existsb (veqb (kv b)) c2 = mem_aa b l2) ->
  MiniPy.exec_list prim 0 [SSeq kx_a kx_loop2; kx_s3; kx_s4] (kx_env s (VList c1) (VList c2) VNone VNone VNone) = ORet (K (map (letter2 l1 l2) s)).
Proof.
  intros M1 M2. cbn [MiniPy.exec_list]. rewrite exec_seq.
  change (exec kx_a (kx_env s (VList c1) (VList c2) VNone VNone VNone)) with (ONorm (kx_env s (VList c1) (VList c2) (VStr []) VNone VNone)).
  cbv beta iota. rewrite kx_loop2_eq, exec_for.
  change (MiniPy.eval prim (EVar "self.seq") (kx_env s (VList c1) (VList c2) (VStr []) VNone VNone)) with (VStr (map aa_char s)).
  cbn [elements]. rewrite map_map.
  destruct (kx_run2 s c1 c2 l1 l2 VNone s M1 M2 [] VNone) as [res' ->]. cbn [app]. rewrite kx_tail, kx_ret. reflexivity.
Qed.

(* kappa_X on ANY sequence and ANY groups given as lists of strings (the second one optional / empty) *)
Theorem kappa_X_tie s g1 g2 :
  exec g_kappa_X (kx_env s (VList (map (fun x => sv x) g1)) (g2_val g2) VNone VNone VNone) =
  match parse_group g1 with
  | None => ORaise
  | Some l1 =>
      match g2 with
      | Some (x :: g) => match parse_group (x :: g) with
                         | None => ORaise
                         | Some l2 => ORet (K (map (letter2 l1 l2) s))
                         end
      | _ => ORet (K (map (letter1 l1) s))
      end
  end.
Proof.
  rewrite exec_spine, kx_spine_eq, kx_parts. cbn [MiniPy.exec_list].
  (* grp1 = self.__parse_group(grp1) *)
  assert (H0 : exec kx_s0 (kx_env s (VList (map (fun x => sv x) g1)) (g2_val g2) VNone VNone VNone) =
               match parse_group g1 with Some _ => ONorm (kx_env s (VList (coll g1)) (g2_val g2) VNone VNone VNone) | None => ORaise end).
  { unfold kx_s0. cbn [MiniPy.exec MiniPy.eval lookup kx_env String.eqb Ascii.eqb Bool.eqb existsb orb]. rewrite Hpg.
    destruct (parse_group g1); reflexivity. }
  rewrite H0. destruct (parse_group g1) as [l1|] eqn:E1; [|reflexivity].
  pose proof (fun b => Hmem g1 l1 b E1) as M1.
  destruct g2 as [[|x g]|]; cbn [g2_val map].
  - (* an empty second group *)
    change (exec kx_s1 (kx_env s (VList (coll g1)) (VList []) VNone VNone VNone)) with (ONorm (kx_env s (VList (coll g1)) (VList []) VNone VNone VNone)).
    cbv beta iota. rewrite kx_if_eq, exec_if.
    change (truthy (MiniPy.eval prim (EVar "grp2") (kx_env s (VList (coll g1)) (VList []) VNone VNone VNone))) with (VBool false).
    cbv iota. pose proof (kx_one s (coll g1) (VList []) l1 M1) as H. cbn [MiniPy.exec_list] in H. exact H.
  - (* a non-empty second group *)
    assert (H1 : exec kx_s1 (kx_env s (VList (coll g1)) (VList (map (fun x0 => sv x0) (x :: g))) VNone VNone VNone) =
                 match parse_group (x :: g) with Some _ => ONorm (kx_env s (VList (coll g1)) (VList (coll (x :: g))) VNone VNone VNone) | None => ORaise end).
    { unfold kx_s1. cbn [MiniPy.exec MiniPy.eval lookup kx_env String.eqb Ascii.eqb Bool.eqb existsb orb truthy map].
      change (VStr (la x) :: map (fun x0 => sv x0) g) with (map (fun x0 => sv x0) (x :: g)). rewrite Hpg.
      destruct (parse_group (x :: g)); reflexivity. }
    change (VStr (la x) :: map (fun x0 => sv x0) g) with (map (fun x0 => sv x0) (x :: g)). rewrite H1.
    destruct (parse_group (x :: g)) as [l2|] eqn:E2; [|reflexivity].
    pose proof (fun b => Hmem (x :: g) l2 b E2) as M2.
    assert (Hne : coll (x :: g) <> []).
    { intros Hc. apply (Hemp (x :: g) l2 E2) in Hc. subst l2. cbn [parse_group] in E2.
      destruct (parse_member x); [|discriminate]. destruct (parse_group g); discriminate. }
    rewrite kx_if_eq, exec_if.
    assert (Ht : truthy (MiniPy.eval prim (EVar "grp2") (kx_env s (VList (coll g1)) (VList (coll (x :: g))) VNone VNone VNone)) = VBool true).
    { cbn [MiniPy.eval lookup kx_env String.eqb Ascii.eqb Bool.eqb truthy]. destruct (coll (x :: g)); [congruence | reflexivity]. }
    rewrite Ht. pose proof (kx_two s (coll g1) (coll (x :: g)) l1 l2 M1 M2) as H. cbn [MiniPy.exec_list] in H. exact H.
  - (* no second group *)
    change (exec kx_s1 (kx_env s (VList (coll g1)) VNone VNone VNone VNone)) with (ONorm (kx_env s (VList (coll g1)) VNone VNone VNone VNone)).
    cbv beta iota. rewrite kx_if_eq, exec_if.
    change (truthy (MiniPy.eval prim (EVar "grp2") (kx_env s (VList (coll g1)) VNone VNone VNone VNone))) with (VBool false).
    cbv iota. pose proof (kx_one s (coll g1) VNone l1 M1) as H. cbn [MiniPy.exec_list] in H. exact H.
Qed.
End KX.

(* ---------- composition: calls are interpreted by RUNNING the translated callee ---------- *)
Definition kx_prim (kap : list ascii -> Q) (name : string) (args : list value) : value :=
  if String.eqb name "__parse_group" then
    match args with
    | [v] => match MiniPy.exec noprim 0 g_parse_group (pg_env v VNone) with
             | ORet w => w
             | ORaise => VExc
             | _ => VErr
             end
    | _ => VErr
    end
  else if String.eqb name "Sequence" then match args with [VStr s] => VStr s | _ => VErr end
  else if String.eqb name ".kappa" then match args with [VStr s] => VQ (kap s) | _ => VErr end
  else VErr.

Lemma letters2_pattern l1 l2 s :
  parse_chars (map (letter2 l1 l2) s) = Some (map (fun a => if mem_aa a l1 then Glu else if mem_aa a l2 then Lys else Gly) s) /\
  pat (map (fun a => if mem_aa a l1 then Glu else if mem_aa a l2 then Lys else Gly) s) = recode2 l1 l2 s.
Proof.
  split.
  - induction s as [|a s IH]; [reflexivity|]. cbn [map parse_chars]. rewrite IH. unfold letter2.
    destruct (mem_aa a l1); [reflexivity|]. destruct (mem_aa a l2); reflexivity.
  - unfold pat, recode2. rewrite map_map. apply map_ext. intros a. destruct (mem_aa a l1); [reflexivity|]. destruct (mem_aa a l2); reflexivity.
Qed.

Lemma letters1_pattern l1 s :
  parse_chars (map (letter1 l1) s) = Some (map (fun a => if mem_aa a l1 then Glu else Lys) s) /\
  pat (map (fun a => if mem_aa a l1 then Glu else Lys) s) = recode1 l1 s.
Proof.
  split.
  - induction s as [|a s IH]; [reflexivity|]. cbn [map parse_chars]. rewrite IH. unfold letter1. destruct (mem_aa a l1); reflexivity.
  - unfold pat, recode1. rewrite map_map. apply map_ext. intros a. destruct (mem_aa a l1); reflexivity.
Qed.

(* kappa_X end to end: the translated kappa_X, calling the translated __parse_group, on ANY sequence and groups, returns
   (for ANY kappa function of the constructed string) kappa of the E/K/G recoding — whose charge pattern is the model's
   recode2 / recode1 — or raises exactly when the model's parse_group rejects a group *)
Theorem kappa_X_end_to_end (kap : list ascii -> Q) s g1 g2 :
  MiniPy.exec (kx_prim kap) 0 g_kappa_X (kx_env s (VList (map (fun x => sv x) g1)) (g2_val g2) VNone VNone VNone) =
  match parse_group g1 with
  | None => ORaise
  | Some l1 =>
      match g2 with
      | Some (x :: g) => match parse_group (x :: g) with
                         | None => ORaise
                         | Some l2 => ORet (VQ (kap (map (letter2 l1 l2) s)))
                         end
      | _ => ORet (VQ (kap (map (letter1 l1) s)))
      end
  end.
Proof.
  apply (kappa_X_tie (kx_prim kap) (fun s => VStr s) (fun s => VQ (kap s)) (fun g => vdedup [] (map up g))).
  - intros g. unfold kx_prim. cbn [String.eqb Ascii.eqb Bool.eqb]. rewrite parse_group_tie, pg_accepts.
    destruct (parse_group g); reflexivity.
  - intros g l a H. apply pg_membership. exact H.
  - intros g l H. apply pg_empty. exact H.
  - reflexivity.
  - intros; split; discriminate.
  - reflexivity.
  - intros; split; discriminate.
Qed.
Print Assumptions kappa_X_end_to_end.

(* ---------- Sequence.Omega and Omega_seq ---------- *)
Section OM.
Variable kap : list ascii -> Q.
Local Notation exec := (MiniPy.exec (kx_prim kap) 0).
Local Notation run_loop := (MiniPy.run_loop (kx_prim kap) 0).

Definition om_env (s : list aa) (newseq res aug : value) : env :=
  [("self"%string, VNone); ("self.seq"%string, VStr (map aa_char s)); ("newseq"%string, newseq); ("res"%string, res); ("augmented_seq"%string, aug)].

Definition om_pre : list stmt := Eval vm_compute in match split_at_for g_Omega with Some (p, _, _) => p | None => [] end.
Definition om_body : stmt := Eval vm_compute in match split_at_for g_Omega with Some (_, (_, _, b), _) => b | None => SSkip end.
Definition om_rest : stmt := Eval vm_compute in match split_at_for g_Omega with Some (_, _, r) => r | None => SRaise end.
Lemma om_split : split_at_for g_Omega = Some (om_pre, ("res"%string, EVar "self.seq", om_body), om_rest). Proof. vm_compute. reflexivity. Qed.
Definition os_pre : list stmt := Eval vm_compute in match split_at_for g_Omega_seq with Some (p, _, _) => p | None => [] end.
Definition os_body : stmt := Eval vm_compute in match split_at_for g_Omega_seq with Some (_, (_, _, b), _) => b | None => SSkip end.
Definition os_rest : stmt := Eval vm_compute in match split_at_for g_Omega_seq with Some (_, _, r) => r | None => SRaise end.
Lemma os_split : split_at_for g_Omega_seq = Some (os_pre, ("res"%string, EVar "self.seq", os_body), os_rest). Proof. vm_compute. reflexivity. Qed.

Definition in_omega (a : aa) : bool := mem_aa a omega_group.

Lemma om_step s acc res aug a :
  exec om_body (set "res" (kv a) (om_env s (VStr acc) res aug)) =
  ONorm (om_env s (VStr (acc ++ [if in_omega a then "E"%char else "K"%char])) (kv a) aug).
Proof. destruct a; reflexivity. Qed.

Lemma os_step s acc res aug a :
  exec os_body (set "res" (kv a) (om_env s (VStr acc) res aug)) =
  ONorm (om_env s (VStr (acc ++ [if in_omega a then "X"%char else "O"%char])) (kv a) aug).
Proof. destruct a; reflexivity. Qed.

Lemma om_run s aug t : forall acc res, exists res',
  run_loop "res" om_body (map (fun a => kv a) t) (om_env s (VStr acc) res aug) =
  ONorm (om_env s (VStr (acc ++ map (fun a => if in_omega a then "E"%char else "K"%char) t)) res' aug).
Proof.
  induction t as [|a t IH]; intros acc res; cbn [map MiniPy.run_loop]; [exists res; now rewrite app_nil_r|].
  rewrite om_step. destruct (IH (acc ++ [if in_omega a then "E"%char else "K"%char]) (kv a)) as [r' E]. exists r'. rewrite E, <- app_assoc. reflexivity.
Qed.
Lemma os_run s aug t : forall acc res, exists res',
  run_loop "res" os_body (map (fun a => kv a) t) (om_env s (VStr acc) res aug) =
  ONorm (om_env s (VStr (acc ++ map (fun a => if in_omega a then "X"%char else "O"%char) t)) res' aug).
Proof.
  induction t as [|a t IH]; intros acc res; cbn [map MiniPy.run_loop]; [exists res; now rewrite app_nil_r|].
  rewrite os_step. destruct (IH (acc ++ [if in_omega a then "X"%char else "O"%char]) (kv a)) as [r' E]. exists r'. rewrite E, <- app_assoc. reflexivity.
Qed.

(* Omega = kappa of the E/K recoding by the {P,E,D,K,R} group, for ANY sequence and ANY kappa function *)
Theorem Omega_tie s : exec g_Omega (om_env s VNone VNone VNone) = ORet (VQ (kap (map (letter1 omega_group) s))).
Proof.
  rewrite (exec_split _ _ _ _ _ _ _ om_split).
  change (MiniPy.exec_list (kx_prim kap) 0 om_pre (om_env s VNone VNone VNone)) with (ONorm (om_env s (VStr []) VNone VNone)).
  cbv beta iota. rewrite exec_for.
  change (MiniPy.eval (kx_prim kap) (EVar "self.seq") (om_env s (VStr []) VNone VNone)) with (VStr (map aa_char s)).
  cbn [elements]. rewrite map_map. destruct (om_run s VNone s [] VNone) as [r' ->]. cbn [app]. reflexivity.
Qed.

(* Omega_seq marks exactly the {P,E,D,K,R} positions *)
Theorem Omega_seq_tie s : exec g_Omega_seq (om_env s VNone VNone VNone) =
  ORet (VStr (map (fun b : bool => if b then "X"%char else "O"%char) (Model.Recode.Omega_seq s))).
Proof.
  rewrite (exec_split _ _ _ _ _ _ _ os_split).
  change (MiniPy.exec_list (kx_prim kap) 0 os_pre (om_env s VNone VNone VNone)) with (ONorm (om_env s (VStr []) VNone VNone)).
  cbv beta iota. rewrite exec_for.
  change (MiniPy.eval (kx_prim kap) (EVar "self.seq") (om_env s (VStr []) VNone VNone)) with (VStr (map aa_char s)).
  cbn [elements]. rewrite map_map. destruct (os_run s VNone s [] VNone) as [r' ->]. cbn [app].
  unfold Model.Recode.Omega_seq. rewrite map_map. reflexivity.
Qed.
End OM.
Print Assumptions Omega_tie.

(* ---------- the public getters (SequenceParameters) are exactly a return of the backend call with their own arguments ---------- *)
Lemma fw_get_Omega : g_fw_get_Omega = SReturn (ECall "SeqObj.Omega"%string []). Proof. reflexivity. Qed.
Lemma fw_get_Omega_sequence : g_fw_get_Omega_sequence = SReturn (ECall "SeqObj.Omega_seq"%string []). Proof. reflexivity. Qed.
Lemma fw_get_kappa_X : g_fw_get_kappa_X = SReturn (ECall "SeqObj.kappa_X"%string [EVar "grp1"%string; EVar "grp2"%string]). Proof. reflexivity. Qed.
