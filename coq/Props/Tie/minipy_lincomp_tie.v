(* Tie (C10) — SEMANTIC: Sequence.linearCompositions (behind get_linear_sequence_composition), translated from the working
   tree on every run into a Core.MiniPy term: the sanitising loop over the caller's groups (or the seven default groups
   written in the source), one call of linearDenistyOfAAs per group, the rows stacked in the order of the groups, the
   positions of the last call.  __parse_group (tied in minipy_kappax_tie.v) and linearDenistyOfAAs (tied in
   minipy_density_tie.v) are ORACLES here; np.vstack((a, b)) puts row b under the row or matrix a.  For EVERY list of
   groups: the result is (positions, the density row of every sanitised group in order) — a single row when there is one group. *)
From Coq Require Import List String Ascii ZArith QArith Bool Arith Lia.
From LC Require Import Core.Residue Core.MiniPy Gen.GMiniPy.
Import ListNotations.
Local Open Scope Z_scope.

Ltac lk := repeat (rewrite lookup_set_eq || rewrite lookup_set_neq by reflexivity).

Definition is_row (v : value) : Prop := exists x l, v = VList (x :: l) /\ (forall y, x <> VList y) /\ is_bad x = false.
Definition vstack2 (d row : value) : value :=
  match d with
  | VList (VList a :: rest) => VList (VList a :: rest ++ [row])
  | VList _ => VList [d; row]
  | _ => VErr
  end.
Definition stack (rows : list value) : value := match rows with [r] => r | _ => VList rows end.

Section LinComp.
Variable pg : value -> value.                     (* self.__parse_group *)
Variable dens : value -> value -> value.          (* self.linearDenistyOfAAs(bloblen, group) *)
Variable pos : value.
Variable row : value -> value.
Variable wv : value.
Hypothesis pg_ok : forall g, is_bad (pg g) = false.
Hypothesis dens_spec : forall g, dens wv g = VList [pos; row g].
Hypothesis row_ok : forall g, is_row (row g).
Hypothesis pos_ok : is_bad pos = false.
Hypothesis wv_ok : is_bad wv = false.

Definition lc_prim (name : string) (args : list value) : value :=
  if String.eqb name "__parse_group" then match args with [g] => pg g | _ => VErr end
  else if String.eqb name "linearDenistyOfAAs" then match args with [w; g] => dens w g | _ => VErr end
  else if String.eqb name "np.vstack" then match args with [VList [d; r]] => vstack2 d r | _ => VErr end
  else VErr.
Local Notation exec := (MiniPy.exec lc_prim 0).
Local Notation eval := (MiniPy.eval lc_prim).

Lemma row_bad g : is_bad (row g) = false. Proof. destruct (row_ok g) as [x [l [E _]]]. now rewrite E. Qed.

Lemma stack_step (rows : list value) (g : value) : rows <> [] -> (forall r, In r rows -> is_row r) ->
  vstack2 (stack rows) (row g) = stack (rows ++ [row g]).
Proof.
  intros Hne Hr. destruct rows as [|r1 rows]; [congruence|]. destruct rows as [|r2 rows].
  - cbn [stack app]. destruct (Hr r1 (or_introl eq_refl)) as [x [l [E [Hx _]]]]. rewrite E. unfold vstack2.
    destruct x; try reflexivity. exfalso. eapply Hx. reflexivity.
  - cbn [stack app]. destruct (Hr r1 (or_introl eq_refl)) as [x [l [E _]]]. rewrite E. unfold vstack2. reflexivity.
Qed.
Lemma stack_bad rows : (forall r, In r rows -> is_row r) -> is_bad (stack rows) = false.
Proof. intros H. destruct rows as [|r1 [|r2 rows]]; try reflexivity. cbn [stack]. destruct (H r1 (or_introl eq_refl)) as [x [l [E _]]]. now rewrite E. Qed.

Definition lc_spine : list stmt := Eval vm_compute in spine g_linCompositions.
Definition lc_loop_body : stmt := Eval vm_compute in match nth 3 lc_spine SSkip with SFor _ _ b => b | _ => SSkip end.
Definition lc_first : stmt := Eval vm_compute in nth 0 lc_spine SSkip.
Lemma lc_parts : lc_spine = [lc_first; SAssign "tmp" (ECall "linearDenistyOfAAs" [EVar "bloblen"; EIndex (EVar "grps") (EConst (VInt 0))]);
                             SAssign "density" (EIndex (EVar "tmp") (EConst (VInt 1)));
                             SFor "group" (ESlice (EVar "grps") (EConst (VInt 1)) (EConst VNone)) lc_loop_body;
                             SReturn (EListLit [EIndex (EVar "tmp") (EConst (VInt 0)); EVar "density"])].
Proof. reflexivity. Qed.

(* the stacking loop *)
Lemma lc_stack_loop : forall (gs : list value) (rows : list value) r, rows <> [] -> (forall x, In x rows -> is_row x) -> (forall g, In g gs -> is_bad g = false) ->
  lookup "bloblen" r = wv -> lookup "density" r = stack rows -> lookup "tmp" r = VList [pos; nth (List.length rows - 1) rows VNone] ->
  exists r' last, MiniPy.run_loop lc_prim 0 "group" lc_loop_body gs r = ONorm r' /\
    lookup "density" r' = stack (rows ++ map row gs) /\ lookup "tmp" r' = VList [pos; last].
Proof.
  induction gs as [|g gs IH]; intros rows r Hne Hr Hg Hw Hd Ht.
  - exists r, (nth (List.length rows - 1) rows VNone). cbn [map MiniPy.run_loop]. rewrite app_nil_r. repeat split; assumption.
  - cbn [map MiniPy.run_loop]. set (r0 := set "group" g r). unfold lc_loop_body at 1.
    assert (Bg : is_bad g = false) by (apply Hg; now left).
    assert (Et : eval (ECall "linearDenistyOfAAs" [EVar "bloblen"; EVar "group"]) r0 = VList [pos; row g]).
    { rewrite (eval_call2 _ _ _ _ wv g); [| rewrite eval_var; unfold r0; lk; exact Hw | rewrite eval_var; unfold r0; lk; reflexivity | exact wv_ok | exact Bg].
      unfold lc_prim. cbn [String.eqb Ascii.eqb Bool.eqb]. apply dens_spec. }
    assert (Btmp : is_bad (VList [pos; row g]) = false) by reflexivity.
    rewrite exec_seq, (exec_assign_ok _ _ _ _ Et Btmp).
    set (r1 := set "tmp" (VList [pos; row g]) r0).
    assert (Er : eval (EIndex (EVar "tmp") (EConst (VInt 1))) r1 = row g).
    { apply (eval_index_list _ _ _ [pos; row g] 1); [rewrite eval_var; unfold r1; lk; reflexivity | reflexivity | reflexivity]. }
    assert (Ev : eval (ECall "np.vstack" [EListLit [EVar "density"; EIndex (EVar "tmp") (EConst (VInt 1))]]) r1 = stack (rows ++ [row g])).
    { rewrite (eval_call1 _ _ _ (VList [stack rows; row g])); [| | reflexivity].
      - unfold lc_prim. cbn [String.eqb Ascii.eqb Bool.eqb]. apply stack_step; assumption.
      - apply eval_listlit2; [rewrite eval_var; unfold r1, r0; lk; exact Hd | exact Er | apply stack_bad; exact Hr | apply row_bad]. }
    assert (Hr' : forall x, In x (rows ++ [row g]) -> is_row x).
    { intros x Hx. apply in_app_or in Hx. destruct Hx as [Hx|[<-|[]]]; [apply Hr; exact Hx | apply row_ok]. }
    rewrite (exec_assign_ok _ _ _ _ Ev (stack_bad _ Hr')).
    destruct (IH (rows ++ [row g]) (set "density" (stack (rows ++ [row g])) r1)) as [r2 [last [E2 [Hd2 Ht2]]]].
    { intros C. apply (f_equal (@List.length _)) in C. rewrite app_length in C. cbn in C. lia. } { exact Hr'. } { intros x Hx. apply Hg. now right. }
    { lk. unfold r1, r0. lk. exact Hw. } { lk. reflexivity. }
    { lk. unfold r1. lk. rewrite app_length. cbn [List.length]. replace (List.length rows + 1 - 1)%nat with (List.length rows) by lia.
      rewrite app_nth2 by lia. rewrite Nat.sub_diag. reflexivity. }
    exists r2, last. split; [exact E2|]. split; [|exact Ht2]. rewrite Hd2, <- app_assoc. reflexivity.
Qed.

(* everything after the groups have been fixed *)
Lemma lc_rest (g0 : value) (gs : list value) r : is_bad g0 = false -> (forall g, In g gs -> is_bad g = false) ->
  lookup "bloblen" r = wv -> lookup "grps" r = VList (g0 :: gs) ->
  MiniPy.exec_list lc_prim 0 (skipn 1 lc_spine) r = ORet (VList [pos; stack (map row (g0 :: gs))]).
Proof.
  intros B0 Bg Hw Hgr. rewrite lc_parts. cbn [skipn].
  assert (Et : eval (ECall "linearDenistyOfAAs" [EVar "bloblen"; EIndex (EVar "grps") (EConst (VInt 0))]) r = VList [pos; row g0]).
  { rewrite (eval_call2 _ _ _ _ wv g0); [| rewrite eval_var; exact Hw | apply (eval_index_list _ _ _ (g0 :: gs) 0); [rewrite eval_var; exact Hgr | reflexivity | reflexivity] | exact wv_ok | exact B0].
    unfold lc_prim. cbn [String.eqb Ascii.eqb Bool.eqb]. apply dens_spec. }
  rewrite exec_list_cons, (exec_assign_ok _ _ _ _ Et eq_refl).
  set (r1 := set "tmp" (VList [pos; row g0]) r).
  assert (Er : eval (EIndex (EVar "tmp") (EConst (VInt 1))) r1 = row g0).
  { apply (eval_index_list _ _ _ [pos; row g0] 1); [rewrite eval_var; unfold r1; lk; reflexivity | reflexivity | reflexivity]. }
  rewrite exec_list_cons, (exec_assign_ok _ _ _ _ Er (row_bad g0)).
  set (r2 := set "density" (row g0) r1).
  rewrite exec_list_cons, exec_for.
  assert (Es : eval (ESlice (EVar "grps") (EConst (VInt 1)) (EConst VNone)) r2 = VList gs).
  { cbn [MiniPy.eval]. unfold r2, r1. lk. rewrite Hgr. unfold slice_bounds, clip. cbn [List.length Z.ltb Z.compare].
    replace (Z.to_nat (Z.max 0 (Z.min (Z.of_nat (S (List.length gs))) 1))) with 1%nat by lia.
    replace (S (List.length gs) - 1)%nat with (List.length gs) by lia. cbn [skipn]. now rewrite firstn_all. }
  rewrite Es. cbn [elements].
  assert (L : exists r' last, MiniPy.run_loop lc_prim 0 "group" lc_loop_body gs r2 = ONorm r' /\
    lookup "density" r' = stack ([row g0] ++ map row gs) /\ lookup "tmp" r' = VList [pos; last]).
  { apply lc_stack_loop; [congruence | intros x [<-|[]]; apply row_ok | exact Bg | unfold r2, r1; lk; exact Hw | unfold r2; lk; reflexivity | unfold r2, r1; lk; reflexivity]. }
  destruct L as [r3 [last [E3 [Hd3 Ht3]]]].
  rewrite E3, exec_list_cons.
  assert (Hrows : forall x, In x (row g0 :: map row gs) -> is_row x).
  { intros x [<-|Hx]; [apply row_ok|]. apply in_map_iff in Hx. destruct Hx as [g [<- _]]. apply row_ok. }
  rewrite (exec_return_ok _ _ (VList [pos; stack (row g0 :: map row gs)])); [reflexivity | | reflexivity].
  apply eval_listlit2; [apply (eval_index_list _ _ _ [pos; last] 0); [rewrite eval_var; exact Ht3 | reflexivity | reflexivity] | rewrite eval_var; exact Hd3 | exact pos_ok | apply stack_bad; exact Hrows].
Qed.

(* the sanitising loop *)
Lemma lc_sanitize : forall (gs acc : list value) r, (forall g, In g gs -> is_bad g = false) -> lookup "sanitized_groups" r = VList acc ->
  exists r', MiniPy.run_loop lc_prim 0 "group" (SAppend "sanitized_groups" (ECall "__parse_group" [EVar "group"])) gs r = ONorm r' /\
    lookup "sanitized_groups" r' = VList (acc ++ map pg gs) /\ lookup "bloblen" r' = lookup "bloblen" r.
Proof.
  induction gs as [|g gs IH]; intros acc r Bg Hs.
  - exists r. cbn [map MiniPy.run_loop]. rewrite app_nil_r. auto.
  - cbn [map MiniPy.run_loop]. set (r0 := set "group" g r).
    assert (Ec : eval (ECall "__parse_group" [EVar "group"]) r0 = pg g).
    { rewrite (eval_call1 _ _ _ g); [reflexivity | rewrite eval_var; unfold r0; lk; reflexivity | apply Bg; now left]. }
    rewrite (exec_append_ok _ _ _ acc (pg g)); [| unfold r0; lk; exact Hs | exact Ec | apply pg_ok].
    destruct (IH (acc ++ [pg g]) (set "sanitized_groups" (VList (acc ++ [pg g])) r0)) as [r1 [E1 [H1 H2]]].
    { intros x Hx. apply Bg. now right. } { lk. reflexivity. }
    exists r1. split; [exact E1|]. split; [rewrite H1, <- app_assoc; reflexivity|]. rewrite H2. unfold r0. lk. reflexivity.
Qed.

Definition default_groups : list value := Eval vm_compute in
  match MiniPy.exec (fun _ _ => VErr) 0 lc_first [("grps"%string, VList [])] with ONorm r => match lookup "grps" r with VList l => l | _ => [] end | _ => [] end.

(* the caller's groups, sanitised in order *)
Lemma lc_first_user (g0 : value) (gs : list value) r : is_bad g0 = false -> (forall g, In g gs -> is_bad g = false) ->
  lookup "grps" r = VList (g0 :: gs) ->
  exists r', exec lc_first r = ONorm r' /\ lookup "grps" r' = VList (map pg (g0 :: gs)) /\ lookup "bloblen" r' = lookup "bloblen" r.
Proof.
  intros B0 Bg Hg. unfold lc_first.
  rewrite exec_if_true.
  2:{ cbn [MiniPy.eval]. rewrite Hg. cbn [List.length]. unfold cmp_int. replace (Z.of_nat (S (List.length gs)) >? 0) with true by (symmetry; apply Z.gtb_lt; lia). reflexivity. }
  rewrite exec_seq, (exec_assign_ok "sanitized_groups" (EListLit []) r (VList []) eq_refl eq_refl).
  rewrite exec_seq, exec_for, eval_var. lk. rewrite Hg. cbn [elements].
  destruct (lc_sanitize (g0 :: gs) [] (set "sanitized_groups" (VList []) r)) as [r1 [E1 [H1 H2]]].
  { intros x [<-|Hx]; [exact B0 | apply Bg, Hx]. } { lk. reflexivity. }
  rewrite E1. eexists. split.
  - apply exec_assign_ok; [rewrite eval_var; exact H1 | reflexivity].
  - lk. split; [reflexivity|]. rewrite H2. lk. reflexivity.
Qed.

(* no groups given: the seven groups written in the source *)
Lemma lc_first_default r : lookup "grps" r = VList [] ->
  exists r', exec lc_first r = ONorm r' /\ lookup "grps" r' = VList default_groups /\ lookup "bloblen" r' = lookup "bloblen" r.
Proof.
  intros Hg. unfold lc_first. rewrite exec_if_false by (cbn [MiniPy.eval]; rewrite Hg; reflexivity).
  repeat (rewrite exec_seq; erewrite exec_append_ok; [| lk; first [exact Hg | reflexivity] | reflexivity | reflexivity]).
  erewrite exec_append_ok; [| lk; reflexivity | reflexivity | reflexivity].
  eexists. split; [reflexivity|]. lk. split; reflexivity.
Qed.

Lemma default_ok : forall g, In g default_groups -> is_bad g = false.
Proof. intros g H. cbv [default_groups In] in H. repeat (destruct H as [<-|H]; [reflexivity|]). destruct H. Qed.

Definition lc_env (w grps : value) : env := [("bloblen"%string, w); ("grps"%string, grps)].

(* WHOLE FUNCTION, groups given by the caller *)
Theorem linearCompositions_user_tie (g0 : value) (gs : list value) : is_bad g0 = false -> (forall g, In g gs -> is_bad g = false) ->
  exec g_linCompositions (lc_env wv (VList (g0 :: gs))) = ORet (VList [pos; stack (map (fun g => row (pg g)) (g0 :: gs))]).
Proof.
  intros B0 Bg. rewrite exec_spine. change (spine g_linCompositions) with lc_spine.
  change lc_spine with (lc_first :: skipn 1 lc_spine). rewrite exec_list_cons.
  destruct (lc_first_user g0 gs (lc_env wv (VList (g0 :: gs))) B0 Bg eq_refl) as [r1 [E1 [H1 H2]]]. rewrite E1.
  cbn [map] in H1. rewrite (lc_rest (pg g0) (map pg gs) r1); [| apply pg_ok | | rewrite H2; reflexivity | exact H1].
  - cbn [map]. rewrite map_map. reflexivity.
  - intros x Hx. apply in_map_iff in Hx. destruct Hx as [g [<- _]]. apply pg_ok.
Qed.

(* WHOLE FUNCTION, default groups (acidic, basic, charged, polar, aliphatic, aromatic, proline; not sanitised) *)
Theorem linearCompositions_default_tie :
  exec g_linCompositions (lc_env wv (VList [])) = ORet (VList [pos; stack (map row default_groups)]).
Proof.
  rewrite exec_spine. change (spine g_linCompositions) with lc_spine.
  change lc_spine with (lc_first :: skipn 1 lc_spine). rewrite exec_list_cons.
  destruct (lc_first_default (lc_env wv (VList [])) eq_refl) as [r1 [E1 [H1 H2]]]. rewrite E1.
  change default_groups with (hd VNone default_groups :: tl default_groups) in H1 |- *.
  rewrite (lc_rest (hd VNone default_groups) (tl default_groups) r1); [reflexivity | reflexivity | | rewrite H2; reflexivity | exact H1].
  intros x Hx. apply default_ok. right. exact Hx.
Qed.

(* seven rows, in the documented order *)
Lemma default_groups_are : map (fun g => match g with VList l => String.concat ""%string (map (fun c => match c with VStr s => string_of_list_ascii s | _ => "?"%string end) l) | _ => "?"%string end) default_groups
  = ["ED"; "RK"; "RKED"; "QNSTGHC"; "ALMIV"; "FYW"; "P"]%string.
Proof. reflexivity. Qed.
End LinComp.

Print Assumptions linearCompositions_user_tie.
Print Assumptions linearCompositions_default_tie.

(* non-vacuity: the term runs with concrete oracles and gives a 2-row matrix *)
Example lincomp_runs :
  MiniPy.exec (lc_prim (fun g => g) (fun _ g => VList [VList [VInt 0; VInt 1]; VList [VQ (1#2); g]])) 0 g_linCompositions
     (lc_env (VInt 5) (VList [VInt 7; VInt 8]))
  = ORet (VList [VList [VInt 0; VInt 1]; VList [VList [VQ (1#2); VInt 7]; VList [VQ (1#2); VInt 8]]]).
Proof. vm_compute. reflexivity. Qed.
