(* Tie (C01,C02): the arithmetic of Sequence.FCR/NCPR/sigma/deltaForm/delta/kappa, translated
   from the source by tools/py2coq/pyexpr, agrees with the hand model on complete grids
   (every composition with N <= 40; every blob composition for w <= 8; a 41x41 grid of
   delta/delta-max pairs straddling the clamp boundaries).  Bounded, stated as such. *)
From Coq Require Import List ZArith QArith Qabs Bool.
From LC Require Import Core.Residue Core.Lists Core.QTools Spec.Delta Model.Delta Gen.GSeq.
Import ListNotations.
Local Open Scope Z_scope.

Definition comps_upto (B : Z) : list (Z * Z * Z) :=
  flat_map (fun N => flat_map (fun p => map (fun n => (p, n, N)) (zrange 0 (N - p))) (zrange 0 N)) (zrange 1 B).

Lemma fractions_tie :
  forallb (fun '(p, n, N) =>
     let z := N - p - n in
     Qeq_bool (g_fplus (qz p) (qz n) (qz z) (qz N)) (p # Z.to_pos N) &&
     Qeq_bool (g_fminus (qz p) (qz n) (qz z) (qz N)) (n # Z.to_pos N) &&
     Qeq_bool (g_fcr (qz p) (qz n) (qz z) (qz N)) ((p + n) # Z.to_pos N) &&
     Qeq_bool (g_ncpr (qz p) (qz n) (qz z) (qz N)) ((p - n) # Z.to_pos N)) (comps_upto 40) = true.
Proof. vm_compute. reflexivity. Qed.

Lemma sigma_tie :
  forallb (fun '(p, n, N) => Qeq_bool (g_sigma (qz p) (qz n) (qz (N - p - n)) (qz N)) (sigma_c p n N))
          (comps_upto 40) = true.
Proof. vm_compute. reflexivity. Qed.

Definition qgrid : list Q := [0; 1 # 3; 1; 49 # 64; 2 # 7]%Q.

Lemma delta_step_tie :
  forallb (fun '(bp, bn, w) =>
     forallb (fun sg => forallb (fun ans => forallb (fun nb =>
        Qeq_bool (g_delta_step ans sg (qz bp) (qz bn) (qz w) (qz nb))
                 (ans + sqQ (sg - sigma_c bp bn w) / qz nb)) [1; 2; 7; 300]) qgrid) qgrid)
     (comps_upto 8) = true.
Proof. vm_compute. reflexivity. Qed.

Lemma nblobs_tie :
  forallb (fun N => forallb (fun w => Qeq_bool (g_nblobs (qz N) (qz w)) (qz (N - w + 1))) (zrange 1 12)) (zrange 0 30) = true.
Proof. vm_compute. reflexivity. Qed.

Lemma blob_sizes_tie : g_blob_sizes = [5%nat; 6%nat].
Proof. reflexivity. Qed.

Theorem delta_mean_tie : forall df, (g_delta df == (df 5%nat + df 6%nat) / 2)%Q.
Proof. intros df. unfold g_delta. field. Qed.

Definition kgrid : list Q := map (fun k => (k # 20)%Q) (zrange 0 40).

Lemma kappa_tie :
  forallb (fun dl => forallb (fun dm => Qeq_bool (g_kappa dl dm) (kappa_c dl dm)) kgrid) kgrid = true.
Proof. vm_compute. reflexivity. Qed.

Print Assumptions delta_mean_tie.
Print Assumptions kappa_tie.
