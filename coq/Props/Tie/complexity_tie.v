(* Tie (C11): allowed complexity types; the window-position arithmetic of
   get_indexed_complexity_vector translated from the source equals the model's positions for every
   1 <= K <= N <= 60 (np.arange(start, end, spacing) has exactly K elements there); loop shapes. *)
From Coq Require Import List ZArith Bool String.
From LC Require Import Core.Residue Core.QTools Model.Complexity Gen.GAlphabets Gen.GParams.
Import ListNotations.
Local Open Scope Z_scope.

Lemma complexity_types_tie : g_complexity_types = ["WF"; "LC"; "LZW"]%string.
Proof. reflexivity. Qed.

Lemma loops_tie : g_complexity_loops_ok = true.
Proof. reflexivity. Qed.

(* arange(a, b, s) with s > 0 *)
Definition arange (a b s : Z) : list Z := map (fun i => a + Z.of_nat i * s) (seq 0 (Z.to_nat ((b - a + s - 1) / s))).

Lemma positions_tie :
  forallb (fun N => forallb (fun K =>
     lzs_eqb (arange (g_index_start N K) (g_index_end N K) (g_spacing N K)) (positions N K)) (zrange 1 N)) (zrange 1 60) = true.
Proof. vm_compute. reflexivity. Qed.
