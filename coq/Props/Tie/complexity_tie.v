(* Tie (C11): allowed complexity types.  (The window-position arithmetic of get_indexed_complexity_vector and the
   shape of get_WF/LC/LZW_complexity are tied for every input in minipy_cxglue_tie.v.) *)
From Coq Require Import List ZArith Bool String.
From LC Require Import Core.Residue Core.QTools Model.Complexity Gen.GAlphabets Gen.GParams.
Import ListNotations.
Local Open Scope Z_scope.

Lemma complexity_types_tie : g_complexity_types = ["WF"; "LC"; "LZW"]%string.
Proof. reflexivity. Qed.

