(* Tie (C13) — SEMANTIC: the head of Sequence.__init__ (string check, upper-casing, the call of validateSequence, the
   stored sequence and the stored LENGTH), translated from the working tree on every run, for EVERY 8-bit string handed
   over with validateSeq=True (what SequenceParameters does): rejected exactly when Model.Normalise.normalise rejects;
   otherwise self.seq is the normalised word and self.len its length.  validateSequence is interpreted by the function
   its own tie establishes (minipy_validate_tie.v). *)
From Coq Require Import List String Ascii ZArith NArith Bool Lia.
From LC Require Import Core.Residue Core.MiniPy Model.Normalise Gen.GMiniPy.
Import ListNotations.
Local Open Scope Z_scope.

Ltac all_ascii c := destruct c as [[] [] [] [] [] [] [] []].

(* ---------- Sequence.__init__ up to `self.chargePattern = chargePattern`, called with validateSeq=True ---------- *)
(* validateSequence as established by validateSequence_tie (minipy_validate_tie.v) *)
Definition init_prim (name : string) (args : list value) : value :=
  if String.eqb name "validateSequence" then
    match args with
    | [VStr cs] => match validate isspace_ascii_N (map N_of_ascii cs) with
                   | Some (a :: w) => VStr (map aa_char (a :: w))
                   | _ => VExc
                   end
    | _ => VErr
    end
  else VErr.
Local Notation exec := (MiniPy.exec init_prim 0).

Definition init_env (seq : value) (cp : value) (sseq slen scp : value) : env :=
  [("self"%string, VNone); ("seq"%string, seq); ("dmax"%string, VInt (-1)); ("chargePattern"%string, cp);
   ("validateSeq"%string, VBool true); ("self.seq"%string, sseq); ("self.len"%string, slen); ("self.chargePattern"%string, scp)].

Lemma upper_residue a : upper_py (aa_char a) = aa_char a.
Proof. destruct a; reflexivity. Qed.

Lemma upper_code c : [N_of_ascii (upper_py c)] = upper_ascii_N (N_of_ascii c).
Proof. all_ascii c; vm_compute; reflexivity. Qed.

Lemma upper_codes cs : map N_of_ascii (map upper_py cs) = flat_map upper_ascii_N (map N_of_ascii cs).
Proof.
  induction cs as [|c cs IH]; [reflexivity|]. cbn [map flat_map]. rewrite <- upper_code, IH. reflexivity.
Qed.

Ltac mi := cbn [MiniPy.exec MiniPy.eval lookup set String.eqb Ascii.eqb Bool.eqb truthy v_not cmp_int bad2 is_bad as_Q
                init_env init_prim existsb orb negb].

(* the constructor on ANY 8-bit string: rejected exactly when Model.Normalise.normalise rejects; otherwise the stored
   sequence is the normalised word and the stored length is ITS length (not the length of the raw argument) *)
Theorem init_prefix_tie cs (l : list value) : let cp := VList l in
  exec g_init_prefix (init_env (VStr cs) cp VNone VNone VNone) =
  match normalise upper_ascii_N isspace_ascii_N (map N_of_ascii cs) with
  | Some w => ONorm (init_env (VStr (map aa_char w)) cp (VStr (map aa_char w)) (VInt (Z.of_nat (List.length w))) cp)
  | None => ORaise
  end.
Proof.
  cbn zeta. unfold g_init_prefix, normalise. mi. rewrite upper_codes.
  destruct cs as [|c cs]; [reflexivity|]. cbn [map].
  set (u := flat_map upper_ascii_N (N_of_ascii c :: map N_of_ascii cs)).
  destruct (validate isspace_ascii_N u) as [[|a w]|]; mi; try reflexivity.
  change (aa_char a :: map aa_char w) with (map aa_char (a :: w)).
  rewrite map_length. replace (map upper_py (map aa_char (a :: w))) with (map aa_char (a :: w)); [reflexivity|].
  rewrite map_map. apply map_ext. intros b. symmetry. apply upper_residue.
Qed.
Print Assumptions init_prefix_tie.
