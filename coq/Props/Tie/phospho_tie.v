(* Tie (C16): S/T/Y lists (three places of use), the skip-on-out-of-range guard, dedup-and-append,
   the E substitution and the field order of the distribution entries, extracted from the source. *)
From Coq Require Import List Bool String.
From LC Require Import Core.Residue Model.Phospho Gen.GSeq.
Import ListNotations.
Local Open Scope string_scope.

Lemma sty_lists_tie :
  forallb (fun l => forallb (fun a => Bool.eqb (mem_aa a l) (sty a)) all20) g_sty_lists = true
  /\ List.length g_sty_lists = 3%nat.
Proof. vm_compute. split; reflexivity. Qed.

Lemma phospho_letter_tie : g_phospho_letter = Glu.
Proof. reflexivity. Qed.

Lemma dist_fields_tie : g_dist_fields =
  ["newseqObj.kappa()"; "newseqObj.Fplus()"; "newseqObj.Fminus()"; "newseqObj.FCR()"; "newseqObj.NCPR()";
   "newseqObj.meanHydropathy()"; "phosphostatus"].
Proof. reflexivity. Qed.
