(* Tie (C16) — SEMANTIC: Sequence.calculateKappaDistOfPhosphoStates (behind get_full_phosphostatus_kappa_distribution),
   translated from the working tree on every run into a Core.MiniPy term: the loop over itertools.product("01",
   repeat=k), the inner loop that puts E at the sites whose digit is 1, the FRESH Sequence built from that string, the
   seven-component entry.  itertools.product is the primitive that enumerates the digit tuples in binary counting order,
   first site most significant (Model.Phospho.bitsets); the six parameter methods of the fresh object are ORACLES (any
   functions of its string).  For EVERY sequence and in-range site list the entries are, in order, those of
   Model.Phospho.states: entry j is computed on the sequence with E at exactly the sites chosen by the j-th digit tuple. *)
From Coq Require Import List String Ascii ZArith QArith Bool Arith Lia.
From LC Require Import Core.Residue Core.MiniPy Model.Phospho Proofs.Phospho Gen.GMiniPy.
Import ListNotations.
Local Open Scope Z_scope.

Notation VN k := (VInt (Z.of_nat k)).
Ltac lk := repeat (rewrite lookup_set_eq || rewrite lookup_set_neq by reflexivity).
Local Notation kv a := (VStr [aa_char a]).

Section PhosDist.
Variable s : list aa.
Variable sites : list nat.
Hypothesis sites_ok : forall i, In i sites -> (i < List.length s)%nat.
Variable meth : string -> list ascii -> value.       (* .kappa() etc. of a fresh Sequence(string): ANY functions *)
Hypothesis meth_ok : forall m t, is_bad (meth m t) = false.

Definition bit_val (b : bool) : value := VStr [if b then "1"%char else "0"%char].
Definition bits_val (bs : list bool) : value := VList (map bit_val bs).

Definition pd_prim (name : string) (args : list value) : value :=
  if String.eqb name "calculateNumberDifferentPhosphoStates" then VInt 0
  else if String.eqb name "itertools.product" then
    match args with [VStr ["0"%char; "1"%char]; VInt k] => VList (map bits_val (bitsets (Z.to_nat k))) | _ => VErr end
  else if String.eqb name "Sequence" then match args with [VStr t] => VStr t | _ => VErr end
  else match args with [VStr t] => meth name t | _ => VErr end.
Local Notation exec := (MiniPy.exec pd_prim 0).
Local Notation eval := (MiniPy.eval pd_prim).

(* the character list with E at the marked positions (as in minipy_phoskappa_tie.v) *)
Definition marked (done : list nat) : list value :=
  map (fun p => if memn (fst p) done then VStr ["E"%char] else kv (snd p)) (combine (seq 0 (List.length s)) s).
Lemma subst_genV {B} (f : nat -> aa -> B) (t : list aa) : forall k i,
  nth_error (map (fun p => f (fst p) (snd p)) (combine (seq k (List.length t)) t)) i = option_map (f (k + i)%nat) (nth_error t i).
Proof.
  induction t as [|a t IH]; intros k i; [destruct i; reflexivity|].
  cbn [List.length seq combine map]. destruct i as [|i]; cbn [nth_error option_map fst snd].
  - now rewrite Nat.add_0_r.
  - rewrite IH. now replace (S k + i)%nat with (k + S i)%nat by lia.
Qed.
Lemma nth_firstn {A} (l : list A) : forall n k, (k < n)%nat -> nth_error (firstn n l) k = nth_error l k.
Proof.
  induction l as [|x l IH]; intros n k H; [rewrite firstn_nil; reflexivity|].
  destruct n as [|n]; [lia|]. destruct k as [|k]; [reflexivity|]. cbn [firstn nth_error]. apply IH. lia.
Qed.
Lemma nth_skipn {A} (l : list A) : forall n k, nth_error (skipn n l) k = nth_error l (n + k).
Proof.
  induction l as [|x l IH]; intros n k; [rewrite skipn_nil; destruct k, n; reflexivity|].
  destruct n as [|n]; [reflexivity|]. cbn [skipn Nat.add nth_error]. apply IH.
Qed.
Lemma nth_error_ext {A} (l1 l2 : list A) : (forall k, nth_error l1 k = nth_error l2 k) -> l1 = l2.
Proof.
  revert l2. induction l1 as [|x l1 IH]; intros [|y l2] H; try reflexivity; try (specialize (H 0%nat); discriminate H).
  pose proof (H 0%nat) as H0. cbn in H0. injection H0 as ->. f_equal. apply IH. intros k. exact (H (S k)).
Qed.
Lemma marked_nth done i : nth_error (marked done) i = option_map (fun a => if memn i done then VStr ["E"%char] else kv a) (nth_error s i).
Proof. unfold marked. apply (subst_genV (fun j a => if memn j done then VStr ["E"%char] else kv a) s 0 i). Qed.
Lemma marked_length done : List.length (marked done) = List.length s.
Proof. unfold marked. rewrite map_length, combine_length, seq_length. lia. Qed.
Lemma list_set_marked done i : (i < List.length s)%nat ->
  list_set (marked done) (Z.of_nat i) (VStr ["E"%char]) = Some (marked (done ++ [i])).
Proof.
  intros Hi. unfold list_set. rewrite marked_length.
  replace (Z.of_nat i <? 0) with false by (symmetry; apply Z.ltb_ge; lia).
  replace ((Z.of_nat i <? 0) || (Z.of_nat (Datatypes.length s) <=? Z.of_nat i)) with false
    by (symmetry; apply orb_false_iff; split; [apply Z.ltb_ge | apply Z.leb_gt]; lia).
  rewrite Nat2Z.id. f_equal. apply nth_error_ext. intros k. rewrite marked_nth.
  assert (Hm : forall j, memn j (done ++ [i]) = memn j done || Nat.eqb j i).
  { intros j. unfold memn. rewrite existsb_app. cbn [existsb]. now rewrite orb_false_r. }
  rewrite Hm. destruct (Nat.lt_trichotomy k i) as [Hlt|[->|Hgt]].
  - rewrite nth_error_app1 by (rewrite firstn_length, marked_length; lia). rewrite nth_firstn by lia.
    rewrite marked_nth. replace (Nat.eqb k i) with false by (symmetry; apply Nat.eqb_neq; lia). now rewrite orb_false_r.
  - rewrite nth_error_app2 by (rewrite firstn_length, marked_length; lia). rewrite firstn_length, marked_length.
    replace (i - Nat.min i (Datatypes.length s))%nat with 0%nat by lia. cbn [nth_error]. rewrite Nat.eqb_refl, orb_true_r.
    destruct (nth_error s i) eqn:E; [reflexivity|]. apply nth_error_None in E. lia.
  - rewrite nth_error_app2 by (rewrite firstn_length, marked_length; lia). rewrite firstn_length, marked_length.
    replace (k - Nat.min i (Datatypes.length s))%nat with (S (k - S i)) by lia. cbn [nth_error]. rewrite nth_skipn.
    replace (S i + (k - S i))%nat with k by lia. rewrite marked_nth.
    replace (Nat.eqb k i) with false by (symmetry; apply Nat.eqb_neq; lia). now rewrite orb_false_r.
Qed.
Lemma marked_chars done : marked done = map (fun c => VStr [c]) (map aa_char (subst_at s done)).
Proof.
  apply nth_error_ext. intros k. rewrite marked_nth, !nth_error_map. unfold subst_at.
  rewrite (subst_genV (fun j a => if memn j done then Glu else a) s 0 k). cbn [Nat.add].
  destruct (nth_error s k) as [a|]; [|reflexivity]. cbn [option_map]. destruct (memn k done); reflexivity.
Qed.
Lemma join_chars (cs : list ascii) : join_strs [] (map (fun c => VStr [c]) cs) = Some cs.
Proof.
  induction cs as [|c cs IH]; [reflexivity|]. cbn [map join_strs]. destruct cs as [|d cs]; [reflexivity|].
  cbn [map] in *. rewrite IH. reflexivity.
Qed.

Definition pd_spine : list stmt := Eval vm_compute in spine g_phosdist.
Definition pd_body : stmt := Eval vm_compute in match nth 3 pd_spine SSkip with SFor _ _ b => b | _ => SSkip end.
Definition pd_bspine : list stmt := Eval vm_compute in spine pd_body.
Definition pd_inner : stmt := Eval vm_compute in match nth 2 pd_bspine SSkip with SFor _ _ b => b | _ => SSkip end.
Lemma pd_parts : pd_spine = [SAssign "num_calcs" (ECall "calculateNumberDifferentPhosphoStates" []); SAssign "phosphokappa" (EListLit []); SAssign "count" (EConst (VInt 0));
                             SFor "phosphostatus" (ECall "itertools.product" [EConst (VStr ["0"%char; "1"%char]); ELen (EVar "self.phosphosites")]) pd_body;
                             SReturn (EVar "phosphokappa")].
Proof. reflexivity. Qed.
Lemma pd_bparts : pd_bspine = [SAssign "newseq" (EListOf (EVar "self.seq")); SAssign "indx" (EConst (VInt 0)); SFor "i" (EVar "phosphostatus") pd_inner;
                               SAssign "newseq" (EJoin [] (EVar "newseq")); SAssign "newseqObj" (ECall "Sequence" [EVar "newseq"]);
                               nth 5 pd_bspine SSkip; SAssign "count" (EAdd (EVar "count") (EConst (VInt 1)))].
Proof. reflexivity. Qed.

Definition sites_val : value := VList (map (fun i => VN i) sites).

(* the digits of one tuple against the sites: E goes to the sites whose digit is 1 *)
Lemma pd_inner_run : forall (bs : list bool) (pre rest : list nat) done r, sites = pre ++ rest -> (List.length bs <= List.length rest)%nat ->
  lookup "self.phosphosites" r = sites_val -> lookup "newseq" r = VList (marked done) -> lookup "indx" r = VN (List.length pre) ->
  exists r', MiniPy.run_loop pd_prim 0 "i" pd_inner (map bit_val bs) r = ONorm r' /\
    lookup "newseq" r' = VList (marked (done ++ chosen rest bs)) /\
    (forall x, String.eqb x "newseq" = false -> String.eqb x "indx" = false -> String.eqb x "i" = false -> lookup x r' = lookup x r).
Proof.
  induction bs as [|b bs IH]; intros pre rest done r Hs Hlen Hps Hns Hix.
  - exists r. cbn [map MiniPy.run_loop]. unfold chosen. destruct rest; cbn [combine filter map]; rewrite app_nil_r; repeat split; assumption || reflexivity.
  - destruct rest as [|x rest]; [cbn [List.length] in Hlen; lia|].
    cbn [map MiniPy.run_loop]. set (r0 := set "i" (bit_val b) r). unfold pd_inner at 1.
    assert (Hx : (x < List.length s)%nat) by (apply sites_ok; rewrite Hs; apply in_or_app; right; now left).
    assert (Tb : truthy (eval (EEq (EToInt (EVar "i")) (EConst (VInt 1))) r0) = VBool b).
    { rewrite (eval_eq_int _ _ _ (if b then 1 else 0) 1); [destruct b; reflexivity | | reflexivity].
      cbn [MiniPy.eval]. unfold r0. lk. destruct b; reflexivity. }
    assert (Estep : exists r1, exec (SIf (EEq (EToInt (EVar "i")) (EConst (VInt 1))) (SSetItem "newseq" (EIndex (EVar "self.phosphosites") (EVar "indx")) (EConst (VStr ["E"%char]))) SSkip) r0 = ONorm r1 /\
                    lookup "newseq" r1 = VList (marked (done ++ (if b then [x] else []))) /\
                    (forall y, String.eqb y "newseq" = false -> lookup y r1 = lookup y r0)).
    { destruct b.
      - rewrite (exec_if_true _ _ _ _ Tb).
        rewrite (exec_setitem_list "newseq" _ _ r0 (marked done) (Z.of_nat x) (VStr ["E"%char]) (marked (done ++ [x]))).
        + eexists. split; [reflexivity|]. lk. split; [reflexivity|]. intros y Y. now rewrite lookup_set_neq by exact Y.
        + unfold r0. lk. exact Hns.
        + apply (eval_index_list _ _ _ (map (fun i => VN i) sites) (Z.of_nat (List.length pre))); [rewrite eval_var; unfold r0; lk; exact Hps | rewrite eval_var; unfold r0; lk; exact Hix |].
          unfold index_val. rewrite map_length, Hs, app_length. cbn [List.length].
          replace (Z.of_nat (List.length pre) <? 0) with false by (symmetry; apply Z.ltb_ge; lia).
          replace ((Z.of_nat (List.length pre) <? 0) || (Z.of_nat (List.length pre + S (List.length rest)) <=? Z.of_nat (List.length pre))) with false
            by (symmetry; apply orb_false_iff; split; [apply Z.ltb_ge | apply Z.leb_gt]; lia).
          rewrite Nat2Z.id, nth_error_map, nth_error_app2 by lia. rewrite Nat.sub_diag. reflexivity.
        + reflexivity.
        + reflexivity.
        + apply list_set_marked. exact Hx.
      - rewrite (exec_if_false _ _ _ _ Tb). exists r0. split; [reflexivity|]. rewrite app_nil_r. split; [unfold r0; lk; exact Hns | reflexivity]. }
    destruct Estep as [r1 [E1 [Hn1 Hf1]]]. rewrite exec_seq, E1.
    assert (Ei : eval (EAdd (EVar "indx") (EConst (VInt 1))) r1 = VN (List.length (pre ++ [x]))).
    { rewrite app_length. cbn [List.length]. rewrite (eval_add_int _ _ _ (Z.of_nat (List.length pre)) 1); [f_equal; lia | rewrite eval_var, Hf1 by reflexivity; unfold r0; lk; exact Hix | reflexivity]. }
    rewrite (exec_assign_ok _ _ _ _ Ei eq_refl).
    destruct (IH (pre ++ [x]) rest (done ++ (if b then [x] else [])) (set "indx" (VN (List.length (pre ++ [x]))) r1)) as [r2 [E2 [Hn2 Hf2]]].
    { rewrite <- app_assoc. exact Hs. } { cbn [List.length] in Hlen. lia. }
    { lk. rewrite Hf1 by reflexivity. unfold r0. lk. exact Hps. } { lk. exact Hn1. } { lk. reflexivity. }
    exists r2. split; [exact E2|]. split.
    + rewrite Hn2, <- app_assoc. unfold chosen. cbn [combine filter snd]. destruct b; cbn [map fst app]; reflexivity.
    + intros y Y1 Y2 Y3. rewrite Hf2 by assumption. rewrite lookup_set_neq by exact Y2. rewrite Hf1 by exact Y1. unfold r0. now rewrite lookup_set_neq by exact Y3.
Qed.

Definition entry_val (bs : list bool) : value :=
  let t := map aa_char (subst_at s (chosen sites bs)) in
  VList [meth ".kappa" t; meth ".Fplus" t; meth ".Fminus" t; meth ".FCR" t; meth ".NCPR" t; meth ".meanHydropathy" t; bits_val bs].

(* one digit tuple: the entry of the sequence with E at the chosen sites *)
Lemma pd_body_run (bs : list bool) (acc : list value) (cnt : Z) r : List.length bs = List.length sites ->
  lookup "self.seq" r = VStr (map aa_char s) -> lookup "self.phosphosites" r = sites_val -> lookup "phosphostatus" r = bits_val bs ->
  lookup "phosphokappa" r = VList acc -> lookup "count" r = VInt cnt ->
  exists r', exec pd_body r = ONorm r' /\ lookup "phosphokappa" r' = VList (acc ++ [entry_val bs]) /\ lookup "count" r' = VInt (cnt + 1) /\
    lookup "self.seq" r' = VStr (map aa_char s) /\ lookup "self.phosphosites" r' = sites_val.
Proof.
  intros Hlen Hs Hps Hst Hacc Hcnt. rewrite exec_spine. change (spine pd_body) with pd_bspine. rewrite pd_bparts.
  assert (E0 : eval (EListOf (EVar "self.seq")) r = VList (marked [])).
  { cbn [MiniPy.eval]. rewrite Hs. cbn [elements]. f_equal. apply nth_error_ext. intros k. rewrite marked_nth, !nth_error_map.
    destruct (nth_error s k); reflexivity. }
  rewrite exec_list_cons, (exec_assign_ok _ _ _ _ E0 eq_refl).
  rewrite exec_list_cons, (exec_assign_ok _ _ _ (VInt 0)) by reflexivity.
  set (r1 := set "indx" (VInt 0) (set "newseq" (VList (marked [])) r)).
  rewrite exec_list_cons, exec_for, eval_var. replace (lookup "phosphostatus" r1) with (bits_val bs) by (unfold r1; lk; now rewrite Hst).
  unfold bits_val at 1. cbn [elements].
  destruct (pd_inner_run bs [] sites [] r1 eq_refl) as [r2 [E2 [Hn2 Hf2]]]; try (unfold r1; lk; assumption || reflexivity); [lia|].
  rewrite E2. cbn [app] in Hn2.
  set (ch := chosen sites bs) in *. set (t := map aa_char (subst_at s ch)).
  assert (Ej : eval (EJoin [] (EVar "newseq")) r2 = VStr t).
  { cbn [MiniPy.eval]. rewrite Hn2, marked_chars, join_chars. reflexivity. }
  rewrite exec_list_cons, (exec_assign_ok _ _ _ _ Ej eq_refl).
  set (r3 := set "newseq" (VStr t) r2).
  assert (Eo : eval (ECall "Sequence" [EVar "newseq"]) r3 = VStr t).
  { rewrite (eval_call1 _ _ _ (VStr t)); [reflexivity | rewrite eval_var; unfold r3; lk; reflexivity | reflexivity]. }
  rewrite exec_list_cons, (exec_assign_ok _ _ _ _ Eo eq_refl).
  set (r4 := set "newseqObj" (VStr t) r3).
  assert (L4 : forall x, String.eqb x "newseqObj" = false -> String.eqb x "newseq" = false -> String.eqb x "indx" = false -> String.eqb x "i" = false ->
                         lookup x r4 = lookup x r).
  { intros x X1 X2 X3 X4. unfold r4, r3. rewrite !lookup_set_neq by assumption. rewrite Hf2 by assumption. unfold r1. now rewrite !lookup_set_neq by assumption. }
  assert (Em : forall m, pd_prim m [VStr t] = meth m t \/ True) by (intros; now right).
  assert (Ecall : forall m, String.eqb m "calculateNumberDifferentPhosphoStates" = false -> String.eqb m "itertools.product" = false -> String.eqb m "Sequence" = false ->
                  eval (ECall m [EVar "newseqObj"]) r4 = meth m t /\ is_bad (meth m t) = false).
  { intros m M1 M2 M3. split; [|apply meth_ok]. rewrite (eval_call1 _ _ _ (VStr t)); [| rewrite eval_var; unfold r4; lk; reflexivity | reflexivity].
    unfold pd_prim. now rewrite M1, M2, M3. }
  rewrite exec_list_cons. cbn [nth pd_bspine].
  assert (Ee : eval (EListLit [ECall ".kappa" [EVar "newseqObj"]; ECall ".Fplus" [EVar "newseqObj"]; ECall ".Fminus" [EVar "newseqObj"]; ECall ".FCR" [EVar "newseqObj"];
                               ECall ".NCPR" [EVar "newseqObj"]; ECall ".meanHydropathy" [EVar "newseqObj"]; EVar "phosphostatus"]) r4 = entry_val bs).
  { apply eval_listlit_all. repeat constructor; try (apply Ecall; reflexivity).
    rewrite eval_var, L4 by reflexivity. exact Hst. }
  rewrite (exec_append_ok _ _ _ acc (entry_val bs)); [| rewrite L4 by reflexivity; exact Hacc | exact Ee | reflexivity].
  set (r5 := set "phosphokappa" _ r4).
  assert (Ec : eval (EAdd (EVar "count") (EConst (VInt 1))) r5 = VInt (cnt + 1)).
  { apply eval_add_int; [rewrite eval_var; unfold r5; lk; rewrite L4 by reflexivity; exact Hcnt | reflexivity]. }
  rewrite exec_list_cons, (exec_assign_ok _ _ _ _ Ec eq_refl). cbn [MiniPy.exec_list].
  eexists. split; [reflexivity|]. unfold r5. lk. rewrite !L4 by reflexivity. repeat split; assumption || reflexivity.
Qed.

Lemma pd_outer : forall (L : list (list bool)) (acc : list value) (cnt : Z) r, (forall bs, In bs L -> List.length bs = List.length sites) ->
  lookup "self.seq" r = VStr (map aa_char s) -> lookup "self.phosphosites" r = sites_val -> lookup "phosphokappa" r = VList acc -> lookup "count" r = VInt cnt ->
  exists r', MiniPy.run_loop pd_prim 0 "phosphostatus" pd_body (map bits_val L) r = ONorm r' /\ lookup "phosphokappa" r' = VList (acc ++ map entry_val L).
Proof.
  induction L as [|bs L IH]; intros acc cnt r HL Hs Hps Hacc Hcnt.
  - exists r. cbn [map MiniPy.run_loop]. now rewrite app_nil_r.
  - cbn [map MiniPy.run_loop].
    destruct (pd_body_run bs acc cnt (set "phosphostatus" (bits_val bs) r)) as [r1 [E1 [Ha1 [Hc1 [Hs1 Hp1]]]]]; try (lk; assumption || reflexivity).
    { apply HL. now left. }
    rewrite E1. destruct (IH (acc ++ [entry_val bs]) (cnt + 1) r1) as [r2 [E2 Ha2]]; try assumption.
    { intros b Hb. apply HL. now right. }
    exists r2. split; [exact E2|]. now rewrite Ha2, <- app_assoc.
Qed.

Lemma bitsets_len k : forall bs, In bs (bitsets k) -> List.length bs = k.
Proof.
  induction k as [|k IH]; intros bs H; cbn [bitsets] in H; [destruct H as [<-|[]]; reflexivity|].
  apply in_app_or in H. destruct H as [H|H]; apply in_map_iff in H; destruct H as [b [<- Hb]]; cbn [List.length]; f_equal; now apply IH.
Qed.

(* the distribution on EVERY sequence and in-range site list, WHATEVER the parameter methods of the fresh objects return:
   entry j belongs to the j-th digit tuple of the binary counting order (first site most significant) and is computed on
   the sequence with E at exactly the sites whose digit is 1 — the states of Model.Phospho.states, in order *)
Theorem phosdist_tie r : lookup "self.seq" r = VStr (map aa_char s) -> lookup "self.phosphosites" r = sites_val ->
  exec g_phosdist r = ORet (VList (map entry_val (bitsets (List.length sites)))).
Proof.
  intros Hs Hps. rewrite exec_spine. change (spine g_phosdist) with pd_spine. rewrite pd_parts.
  rewrite exec_list_cons, (exec_assign_ok _ _ _ (VInt 0)) by reflexivity.
  rewrite exec_list_cons, (exec_assign_ok _ _ _ (VList [])) by reflexivity.
  rewrite exec_list_cons, (exec_assign_ok _ _ _ (VInt 0)) by reflexivity.
  set (r3 := set "count" (VInt 0) (set "phosphokappa" (VList []) (set "num_calcs" (VInt 0) r))).
  rewrite exec_list_cons, exec_for.
  assert (Ep : eval (ECall "itertools.product" [EConst (VStr ["0"%char; "1"%char]); ELen (EVar "self.phosphosites")]) r3 = VList (map bits_val (bitsets (List.length sites)))).
  { rewrite (eval_call2 _ _ _ _ (VStr ["0"%char; "1"%char]) (VN (List.length sites))); [| reflexivity | | reflexivity | reflexivity].
    - unfold pd_prim. cbn [String.eqb Ascii.eqb Bool.eqb]. now rewrite Nat2Z.id.
    - cbn [MiniPy.eval]. unfold r3. lk. rewrite Hps. unfold sites_val. now rewrite map_length. }
  rewrite Ep. cbn [elements].
  destruct (pd_outer (bitsets (List.length sites)) [] 0 r3) as [r4 [E4 Ha4]]; try (unfold r3; lk; assumption || reflexivity).
  { apply bitsets_len. }
  rewrite E4, exec_list_cons. rewrite (exec_return_ok _ _ _ (eq_trans (eval_var _ _) Ha4) eq_refl). reflexivity.
Qed.

(* the sequences the entries are computed on are the model's states *)
Lemma entries_are_states : map (fun bs => (bs, subst_at s (chosen sites bs))) (bitsets (List.length sites)) = states {| pseq := s; psites := sites |}.
Proof. reflexivity. Qed.
End PhosDist.
Print Assumptions phosdist_tie.

Definition ex_meth (m : string) (t : list ascii) : value := VStr (list_ascii_of_string m ++ t).
Example phosdist_runs :
  MiniPy.exec (pd_prim ex_meth) 0 g_phosdist [("self.seq"%string, VStr (map aa_char [Ser; Gly; Thr; Lys])); ("self.phosphosites"%string, VList [VInt 0; VInt 2])] =
  ORet (VList (map (entry_val [Ser; Gly; Thr; Lys] [0; 2]%nat ex_meth) (bitsets 2)))
  /\ map (fun bs => subst_at [Ser; Gly; Thr; Lys] (chosen [0; 2]%nat bs)) (bitsets 2) =
     [[Ser; Gly; Thr; Lys]; [Ser; Gly; Glu; Lys]; [Glu; Gly; Thr; Lys]; [Glu; Gly; Glu; Lys]].
Proof. split; vm_compute; reflexivity. Qed.
