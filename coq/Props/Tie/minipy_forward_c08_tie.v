(* Tie (C08) — the public getter is exactly a return of the backend call with its own arguments (translated from the
   working tree on every run: any logic added in front of the call changes the term). *)
From Coq Require Import List String.
From LC Require Import Core.MiniPy Gen.GMiniPy.
Import ListNotations.
Lemma fw_get_phasePlotRegion : g_fw_get_phasePlotRegion = SReturn (ECall "SeqObj.phasePlotRegion"%string []). Proof. reflexivity. Qed.
