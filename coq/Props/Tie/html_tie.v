(* Tie (C20): literal fragments, block sizes, span format, the 17-colour whitelist and the default
   palette extracted from the source equal the model's. *)
From Coq Require Import List Bool String.
From LC Require Import Core.Residue Model.Html Gen.GSeq Gen.GTables.
Import ListNotations.
Local Open Scope string_scope.

Lemma html_fragments_tie :
  g_html_header = header /\ g_html_footer = footer /\
  g_html_span_format = "%s<span style=""color:%s"">%s</span>" /\
  g_html_blocks = [(10%nat, " "); (50%nat, "<br>")].
Proof. repeat split. Qed.

Lemma colours_tie : g_colours = colours17.
Proof. reflexivity. Qed.

Lemma default_palette_tie :
  forallb (fun a => match find (fun p => aa_eqb (fst p) a) GTables.default_palette with
                    | Some p => String.eqb (snd p) (Model.Html.default_palette a) | None => false end) all20 = true
  /\ List.length GTables.default_palette = 20%nat.
Proof. vm_compute. split; reflexivity. Qed.
