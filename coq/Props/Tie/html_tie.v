(* Tie (C20): the 17-colour whitelist and the default palette extracted from the source equal the model's
   (the rendering loop itself: minipy_html_tie.v). *)
From Coq Require Import List Bool String.
From LC Require Import Core.Residue Model.Html Gen.GSeq Gen.GTables.
Import ListNotations.
Local Open Scope string_scope.

Lemma colours_tie : g_colours = colours17.
Proof. reflexivity. Qed.

Lemma default_palette_tie :
  forallb (fun a => match find (fun p => aa_eqb (fst p) a) GTables.default_palette with
                    | Some p => String.eqb (snd p) (Model.Html.default_palette a) | None => false end) all20 = true
  /\ List.length GTables.default_palette = 20%nat.
Proof. vm_compute. split; reflexivity. Qed.
