(* Tie (C20): the default palette extracted (and installed by __init__) from the source equal the model's
   (the rendering loop itself: minipy_html_tie.v). *)
From Coq Require Import List Bool String.
From LC Require Import Core.Residue Model.Html Gen.GSeq Gen.GTables.
Import ListNotations.
Local Open Scope string_scope.

Lemma init_palette_tie : g_init_installs_default_palette = true.
Proof. reflexivity. Qed.

Lemma default_palette_tie :
  forallb (fun a => match find (fun p => aa_eqb (fst p) a) GTables.default_palette with
                    | Some p => String.eqb (snd p) (Model.Html.default_palette a) | None => false end) all20 = true
  /\ List.length GTables.default_palette = 20%nat.
Proof. vm_compute. split; reflexivity. Qed.
