(* Tie (C17): the statement shapes of the five moves that the model mirrors (index sets, the case
   table of swapRandChargeRes, pop-from-end in full_shuffle, the min:max slices of the block swap,
   the two pop(0) queues of clustering, dmax carried into the child) are present in the source. *)
From LC Require Import Gen.GSeq.
Lemma moves_shape_tie : g_moves_shape_ok = true.
Proof. reflexivity. Qed.
