(* Tie (C17): the statement shapes of the two Monte-Carlo moves that are NOT tied as whole functions (the min:max slices
   of the block swap, the two pop(0) queues of clustering, dmax carried into the child) and the forwarding of
   get_shuffled_sequence / get_permutant to full_shuffle are present in the source.  swapRes, swapRandChargeRes,
   full_shuffle and the constructor are tied semantically in minipy_moves_tie.v. *)
From LC Require Import Gen.GSeq.
Lemma moves_shape_tie : g_moves_shape_ok = true.
Proof. reflexivity. Qed.
