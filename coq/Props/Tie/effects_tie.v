(* Tie (C15): the only instance attributes any method of Sequence / SequenceParameters /
   SequenceComplexity writes are the ones the object model has — set up in __init__, the delta-max
   cache in deltaMax, the phosphosite list in set/clear, the palette in set_HTMLColorResiduePalette;
   one mutable default argument is mutated (linearCompositions(grps), shown unobservable by the
   dynamic histories); no global / setattr / __dict__ writes.  Static and complete (syntactic). *)
From Coq Require Import List String.
From LC Require Import Gen.GEffects.
Import ListNotations.
Local Open Scope string_scope.

Lemma effects_tie : g_writes =
  [("Sequence.__init__", ["ComplexityObject"; "chargePattern"; "dmax"; "len"; "phosphosites"; "seq"; "seqDeltaMax"]);
   ("Sequence.deltaMax", ["dmax"; "seqDeltaMax"]);
   ("Sequence.setPhosPhoSites", ["phosphosites.append"]);
   ("Sequence.clear_phosphosites", ["phosphosites"]);
   ("Sequence.set_HTMLColorResiduePalette", ["aminoAcidColorMap"]);
   ("module:sequence.py", ["lkupTab"]);
   ("SequenceParameters.__init__", ["SeqObj"])].
Proof. reflexivity. Qed.

Lemma mutated_defaults_tie : g_mutated_defaults = ["Sequence.linearCompositions(grps)"].
Proof. reflexivity. Qed.

Lemma no_reflective_writes : g_reflective = [].
Proof. reflexivity. Qed.
