(* Tie (C02,C05,…): the charge pattern the code builds for each residue is Core.Residue.chg.
   Sources: data/aminoacids.py get_residue_charge + skeleton column order, residue.py,
   restable.py lookUpCharge, Sequence.__init__'s sign cascade.  Exhaustive over 20 residues. *)
From Coq Require Import List ZArith QArith String Bool.
From LC Require Import Core.Residue Core.QTools Gen.GTables Gen.GSeq.
Import ListNotations.
Local Open Scope string_scope.

(* what Sequence.__init__ appends for residue a *)
Definition code_chg (a : aa) : option Z :=
  match lookupQ aa_eqb a GTables.residue_charge with
  | None => None
  | Some c => if negb (Qle_bool c 0) then assoc "gt0" GSeq.init_pattern
              else if negb (Qle_bool 0 c) then assoc "lt0" GSeq.init_pattern
              else assoc "else" GSeq.init_pattern
  end.

Lemma charge_attribute_source :
  assoc "charge" GTables.attribute_source = Some "get_residue_charge" /\
  assoc "letterCode3" GTables.attribute_source = Some "literal1" /\
  assoc "letterCode1" GTables.attribute_source = Some "literal2".
Proof. vm_compute. repeat split. Qed.

Lemma code_tables_cover_all20 :
  forallb (fun a => existsb (fun p => aa_eqb (fst p) a && aa_eqb (snd p) a) GTables.skeleton_rows
                    && existsb (fun p => aa_eqb (fst p) a && aa_eqb (snd p) a) GTables.one_to_three
                    && existsb (fun p => aa_eqb (fst p) a && aa_eqb (snd p) a) GTables.three_to_one) all20 = true
  /\ List.length GTables.skeleton_rows = 20%nat /\ List.length GTables.one_to_three = 20%nat
  /\ List.length GTables.three_to_one = 20%nat.
Proof. vm_compute. repeat split. Qed.

Theorem chg_tie : forall a, code_chg a = Some (chg a).
Proof. intros a. destruct a; vm_compute; reflexivity. Qed.

Lemma charge_symbols_tie : GTables.charge_symbols = [("+", 1); ("-", -1); ("0", 0)]%Z.
Proof. vm_compute. reflexivity. Qed.

Print Assumptions chg_tie.
