(* Tie (C16) — SEMANTIC: the body of Sequence.setPhosPhoSites, translated from the working tree into a Core.MiniPy term on
   every run, is proved to leave exactly Model.Phospho's site list in self.phosphosites, for EVERY sequence, current site
   list and request (a list of ints, or one int), and never to raise. *)
From Coq Require Import List String Ascii ZArith NArith Bool Lia.
From LC Require Import Core.Residue Core.MiniPy Model.Phospho Proofs.Phospho Gen.GMiniPy.
Import ListNotations.

Local Notation exec := (MiniPy.exec noprim 0).
Local Notation exec_list := (MiniPy.exec_list noprim 0).
Local Notation run_loop := (MiniPy.run_loop noprim 0).
Local Notation eval := (MiniPy.eval noprim).
Local Open Scope Z_scope.

Definition sites_val (l : list nat) : value := VList (map (fun i => VInt (Z.of_nat i)) l).
Definition ps_env (s : list aa) (sites : list nat) (req tmp sv iv rv : value) : env :=
  [("self"%string, VNone); ("listOfPsites"%string, req); ("self.seq"%string, VStr (map aa_char s));
   ("self.phosphosites"%string, sites_val sites); ("tmp"%string, tmp); ("site"%string, sv); ("idx"%string, iv); ("res"%string, rv)].

Ltac mp := cbn [MiniPy.exec MiniPy.eval lookup set String.eqb Ascii.eqb Bool.eqb truthy v_in v_not cmp_int bad2 is_bad elements ps_env
                list_ascii_of_string].

Lemma ps_split : exists pre body rest,
  split_at_for g_setPhosPhoSites = Some (pre, ("site"%string, EVar "listOfPsites", body), rest).
Proof. eexists. eexists. eexists. vm_compute. reflexivity. Qed.

Definition ps_body : stmt := Eval vm_compute in
  match split_at_for g_setPhosPhoSites with Some (_, (_, _, b), _) => b | None => SSkip end.


Lemma in_sites k sites : 0 <= k -> existsb (veqb (VInt k)) (map (fun i => VInt (Z.of_nat i)) sites) = memn (Z.to_nat k) sites.
Proof.
  intros Hk. unfold memn. induction sites as [|i sites IH]; [reflexivity|]. cbn [map existsb]. rewrite IH. f_equal.
  change (veqb (VInt k) (VInt (Z.of_nat i))) with (k =? Z.of_nat i).
  destruct (Z.eqb_spec k (Z.of_nat i)) as [->|Hne].
  - rewrite Nat2Z.id. symmetry. apply Nat.eqb_refl.
  - symmetry. apply Nat.eqb_neq. intros E. apply Hne. rewrite <- E. rewrite Z2Nat.id by lia. reflexivity.
Qed.

Lemma sty_in a : existsb (veqb (VStr [aa_char a])) [VStr ["S"%char]; VStr ["T"%char]; VStr ["Y"%char]] = sty a.
Proof. destruct a; reflexivity. Qed.

Lemma index_seq s k : 0 <= k -> k < Z.of_nat (List.length s) ->
  exists a, nth_error s (Z.to_nat k) = Some a /\ index_val (map aa_char s) k = Some (aa_char a).
Proof.
  intros H0 H1. destruct (nth_error s (Z.to_nat k)) as [a|] eqn:E.
  - exists a. split; [reflexivity|]. unfold index_val. rewrite map_length.
    replace (k <? 0) with false by (symmetry; apply Z.ltb_ge; lia).
    replace ((k <? 0) || (Z.of_nat (Datatypes.length s) <=? k)) with false
      by (symmetry; apply orb_false_iff; split; [apply Z.ltb_ge; lia | apply Z.leb_gt; lia]).
    rewrite nth_error_map, E. reflexivity.
  - exfalso. apply nth_error_None in E. lia.
Qed.

(* one requested site: the body of the loop does what Model.Phospho.set_site does *)
Lemma ps_body_step s sites req tmp sv iv rv z :
  let sites' := psites (set_site {| pseq := s; psites := sites |} z) in
  exists rv', exec ps_body (set "site" (VInt z) (ps_env s sites req tmp sv iv rv)) = ONorm (ps_env s sites' req tmp (VInt z) (VInt (z - 1)) rv') \/
              exec ps_body (set "site" (VInt z) (ps_env s sites req tmp sv iv rv)) = OCont (ps_env s sites' req tmp (VInt z) (VInt (z - 1)) rv').
Proof.
  cbn zeta. unfold ps_body, set_site, valid_site. cbn [pseq psites]. mp. rewrite map_length.
  destruct (z - 1 >=? Z.of_nat (Datatypes.length s)) eqn:E1; mp.
  { replace (z <=? Z.of_nat (Datatypes.length s)) with false by (symmetry; apply Z.leb_gt; apply Z.geb_le in E1; lia).
    rewrite andb_false_r. cbn [andb psites]. exists rv. right. reflexivity. }
  destruct (z - 1 <? 0) eqn:E2; mp.
  { replace (1 <=? z) with false by (symmetry; apply Z.leb_gt; apply Z.ltb_lt in E2; lia).
    cbn [andb psites]. exists rv. right. reflexivity. }
  assert (H0 : 0 <= z - 1) by (apply Z.ltb_ge in E2; exact E2).
  assert (H1 : z - 1 < Z.of_nat (Datatypes.length s)).
  { destruct (Z.ltb_spec (z - 1) (Z.of_nat (Datatypes.length s))); [assumption|].
    exfalso. assert (z - 1 >=? Z.of_nat (Datatypes.length s) = true) by (apply Z.geb_le; lia). congruence. }
  replace (1 <=? z) with true by (symmetry; apply Z.leb_le; lia).
  replace (z <=? Z.of_nat (Datatypes.length s)) with true by (symmetry; apply Z.leb_le; lia). cbn [andb].
  destruct (index_seq s (z - 1) H0 H1) as [a [Hn Hi]]. rewrite Hi, Hn. mp.
  rewrite sty_in. destruct (sty a) eqn:Es; mp.
  2:{ cbn [psites]. eexists. left. reflexivity. }
  unfold sites_val. cbn [negb].
  change (v_in (VInt (z - 1)) (VList (map (fun i : nat => VInt (Z.of_nat i)) sites)))
    with (VBool (existsb (veqb (VInt (z - 1))) (map (fun i : nat => VInt (Z.of_nat i)) sites))).
  rewrite (in_sites (z - 1) sites H0). destruct (memn (Z.to_nat (z - 1)) sites) eqn:Em; mp.
  { cbn [psites]. eexists. left. reflexivity. }
  cbn [psites]. eexists. left. unfold ps_env, sites_val. rewrite map_app. cbn [map]. rewrite Z2Nat.id by lia. reflexivity.
Qed.

Definition ps_pre : list stmt := Eval vm_compute in
  match split_at_for g_setPhosPhoSites with Some (p, _, _) => p | None => [] end.
Definition ps_rest : stmt := Eval vm_compute in
  match split_at_for g_setPhosPhoSites with Some (_, _, r) => r | None => SRaise end.

Lemma ps_split_eq : split_at_for g_setPhosPhoSites = Some (ps_pre, ("site"%string, EVar "listOfPsites", ps_body), ps_rest).
Proof. vm_compute. reflexivity. Qed.

Definition ps_step (s : list aa) (sites : list nat) (v : value) : option (list nat) :=
  match v with VInt z => Some (psites (set_site {| pseq := s; psites := sites |} z)) | _ => None end.

Lemma set_site_seq o z : pseq (set_site o z) = pseq o.
Proof. unfold set_site. destruct (valid_site (pseq o) z); [destruct (memn _ _)|]; reflexivity. Qed.

Lemma ps_fold s req : forall sites,
  fold_step (ps_step s) sites (map VInt req) = Some (psites (fold_left set_site req {| pseq := s; psites := sites |})).
Proof.
  induction req as [|z req IH]; intros sites; cbn [map fold_step fold_left]; [reflexivity|].
  cbn [ps_step]. rewrite IH. f_equal. f_equal. f_equal.
  pose proof (set_site_seq {| pseq := s; psites := sites |} z) as H. cbn [pseq] in H.
  destruct (set_site {| pseq := s; psites := sites |} z) as [q p]. cbn [pseq psites] in *. subst q. reflexivity.
Qed.

Lemma ps_loop s req reqv tmp : forall sites sv iv rv,
  exists sv' iv' rv', run_loop "site" ps_body (map VInt req) (ps_env s sites reqv tmp sv iv rv) =
    ONorm (ps_env s (psites (fold_left set_site req {| pseq := s; psites := sites |})) reqv tmp sv' iv' rv').
Proof.
  intros sites sv iv rv.
  pose proof (@run_loop_rule noprim 0%nat _ "site"%string ps_body (fun r st => exists sv iv rv, r = ps_env s st reqv tmp sv iv rv) (ps_step s)
                (fun v => exists z, v = VInt z)) as HL.
  assert (Hstep : forall r st v, (exists z, v = VInt z) -> (exists sv iv rv, r = ps_env s st reqv tmp sv iv rv) ->
            match ps_step s st v with
            | Some st' => exists r', (exec ps_body (set "site" v r) = ONorm r' \/ exec ps_body (set "site" v r) = OCont r') /\
                                     (exists sv iv rv, r' = ps_env s st' reqv tmp sv iv rv)
            | None => exec ps_body (set "site" v r) = ORaise
            end).
  { intros r st v [z ->] (sv0 & iv0 & rv0 & ->). cbn [ps_step].
    destruct (ps_body_step s st reqv tmp sv0 iv0 rv0 z) as [rv' H]. eexists. split; [exact H|]. eexists. eexists. eexists. reflexivity. }
  specialize (HL Hstep (map VInt req)).
  assert (HP : Forall (fun v => exists z, v = VInt z) (map VInt req)).
  { apply Forall_forall. intros v Hv. apply in_map_iff in Hv. destruct Hv as [z [<- _]]. exists z. reflexivity. }
  specialize (HL HP (ps_env s sites reqv tmp sv iv rv) sites (ex_intro _ sv (ex_intro _ iv (ex_intro _ rv eq_refl)))).
  rewrite ps_fold in HL. destruct HL as [r' [E (sv' & iv' & rv' & ->)]]. exists sv', iv', rv'. exact E.
Qed.

(* set_phosphosites(list of ints): the generated term leaves exactly Model.Phospho's site list in self.phosphosites
   (and never raises), for EVERY sequence, current site list and request *)
Theorem setPhosPhoSites_list_tie s sites req :
  exists tmp sv iv rv,
  exec g_setPhosPhoSites (ps_env s sites (VList (map VInt req)) VNone VNone VNone VNone) =
  ONorm (ps_env s (psites (fold_left set_site req {| pseq := s; psites := sites |})) (VList (map VInt req)) tmp sv iv rv).
Proof.
  rewrite (exec_split _ _ _ _ _ _ _ ps_split_eq).
  change (exec_list ps_pre (ps_env s sites (VList (map VInt req)) VNone VNone VNone VNone))
    with (ONorm (ps_env s sites (VList (map VInt req)) VNone VNone VNone VNone)).
  cbv beta iota. rewrite exec_for. change (eval (EVar "listOfPsites") (ps_env s sites (VList (map VInt req)) VNone VNone VNone VNone)) with (VList (map VInt req)).
  cbn [elements].
  destruct (ps_loop s req (VList (map VInt req)) VNone sites VNone VNone VNone) as (sv' & iv' & rv' & E). rewrite E.
  exists VNone, sv', iv', rv'. reflexivity.
Qed.

(* set_phosphosites(int) *)
Theorem setPhosPhoSites_int_tie s sites z :
  exists tmp sv iv rv,
  exec g_setPhosPhoSites (ps_env s sites (VInt z) VNone VNone VNone VNone) =
  ONorm (ps_env s (psites (set_site {| pseq := s; psites := sites |} z)) (VList [VInt z]) tmp sv iv rv).
Proof.
  rewrite (exec_split _ _ _ _ _ _ _ ps_split_eq).
  change (exec_list ps_pre (ps_env s sites (VInt z) VNone VNone VNone VNone))
    with (ONorm (ps_env s sites (VList [VInt z]) (VInt z) VNone VNone VNone)).
  cbv beta iota. rewrite exec_for. change (eval (EVar "listOfPsites") (ps_env s sites (VList [VInt z]) (VInt z) VNone VNone VNone)) with (VList (map VInt [z])).
  cbn [elements].
  destruct (ps_loop s [z] (VList [VInt z]) (VInt z) sites VNone VNone VNone) as (sv' & iv' & rv' & E). rewrite E.
  exists (VInt z), sv', iv', rv'. reflexivity.
Qed.
Print Assumptions setPhosPhoSites_list_tie.

(* ---------- get_phosphosites ---------- *)
Definition gp_env (sites : list nat) (acc iv : value) : env :=
  [("self"%string, VNone); ("self.phosphosites"%string, sites_val sites); ("newSites"%string, acc); ("i"%string, iv)].

Ltac mp2 := cbn [MiniPy.exec MiniPy.eval lookup set String.eqb Ascii.eqb Bool.eqb truthy v_in v_not cmp_int bad2 is_bad as_Q
                gp_env existsb veqb orb list_ascii_of_string].

Theorem get_phosphosites_tie sites :
  exec g_get_phosphosites (gp_env sites VNone VNone) = ORet (VList (map VInt (get_sites {| pseq := []; psites := sites |}))).
Proof.
  assert (Hs : split_at_for g_get_phosphosites =
                Some ([SAssign "newSites" (EListLit [])], ("i"%string, EVar "self.phosphosites", SAppend "newSites" (EAdd (EVar "i") (EConst (VInt 1)))),
                      SReturn (EVar "newSites"))) by reflexivity.
  rewrite (exec_split _ _ _ _ _ _ _ Hs).
  change (exec_list [SAssign "newSites" (EListLit [])] (gp_env sites VNone VNone)) with (ONorm (gp_env sites (VList []) VNone)).
  cbv beta iota. rewrite exec_for.
  change (eval (EVar "self.phosphosites") (gp_env sites (VList []) VNone)) with (sites_val sites). cbn [elements sites_val].
  assert (H : forall l acc iv, exists iv',
            run_loop "i" (SAppend "newSites" (EAdd (EVar "i") (EConst (VInt 1)))) (map (fun i => VInt (Z.of_nat i)) l) (gp_env sites (VList acc) iv) =
            ONorm (gp_env sites (VList (acc ++ map (fun i => VInt (Z.of_nat (S i))) l)) iv')).
  { induction l as [|i l IH]; intros acc iv; cbn [map MiniPy.run_loop].
    - exists iv. now rewrite app_nil_r.
    - mp2. destruct (IH (acc ++ [VInt (Z.of_nat i + 1)]) (VInt (Z.of_nat i))) as [iv' E]. exists iv'. unfold gp_env in E. rewrite E.
      rewrite <- app_assoc. cbn [app]. rewrite Nat2Z.inj_succ, Z.add_1_r. reflexivity. }
  destruct (H sites [] VNone) as [iv' E]. rewrite E. mp2. unfold get_sites. cbn [psites app]. rewrite map_map. reflexivity.
Qed.

(* ---------- clear_phosphosites ---------- *)
Theorem clear_phosphosites_tie sites :
  exec g_clear_phosphosites [("self"%string, VNone); ("self.phosphosites"%string, sites_val sites)] =
  ONorm [("self"%string, VNone); ("self.phosphosites"%string, sites_val [])].
Proof. reflexivity. Qed.

(* ---------- get_STY_residues ---------- *)
Definition sty_env (s : list aa) (acc : list value) (idx : Z) (iv : value) : env :=
  [("self"%string, VNone); ("self.seq"%string, VStr (map aa_char s)); ("sites"%string, VList acc); ("idx"%string, VInt idx); ("i"%string, iv)].

Lemma sty_in2 a : existsb (veqb (VStr [aa_char a])) [VStr ["Y"%char]; VStr ["S"%char]; VStr ["T"%char]] = sty a.
Proof. destruct a; reflexivity. Qed.

Lemma sty_in' a : ascii_list_eqb [aa_char a] ["Y"%char] || (ascii_list_eqb [aa_char a] ["S"%char] || (ascii_list_eqb [aa_char a] ["T"%char] || false)) = sty a.
Proof. destruct a; reflexivity. Qed.

Definition sty_from (k : nat) (s : list aa) : list Z :=
  map (fun p => Z.of_nat (S (fst p))) (filter (fun p => sty (snd p)) (combine (seq k (List.length s)) s)).

Definition sty_pre : list stmt := Eval vm_compute in match split_at_for g_get_STY_residues with Some (p, _, _) => p | None => [] end.
Definition sty_body : stmt := Eval vm_compute in match split_at_for g_get_STY_residues with Some (_, (_, _, b), _) => b | None => SSkip end.
Definition sty_rest : stmt := Eval vm_compute in match split_at_for g_get_STY_residues with Some (_, _, r) => r | None => SRaise end.
Lemma sty_split_eq : split_at_for g_get_STY_residues = Some (sty_pre, ("i"%string, EVar "self.seq", sty_body), sty_rest).
Proof. vm_compute. reflexivity. Qed.

Theorem get_STY_residues_tie s :
  exec g_get_STY_residues [("self"%string, VNone); ("self.seq"%string, VStr (map aa_char s)); ("sites"%string, VNone); ("idx"%string, VNone); ("i"%string, VNone)] =
  ORet (VList (map VInt (sty_positions s))).
Proof.
  rewrite (exec_split _ _ _ _ _ _ _ sty_split_eq).
  change (exec_list sty_pre [("self"%string, VNone); ("self.seq"%string, VStr (map aa_char s)); ("sites"%string, VNone); ("idx"%string, VNone); ("i"%string, VNone)])
    with (ONorm (sty_env s [] 1 VNone)).
  cbv beta iota. rewrite exec_for.
  change (eval (EVar "self.seq") (sty_env s [] 1 VNone)) with (VStr (map aa_char s)). cbn [elements]. rewrite map_map.
  assert (H : forall l k acc iv, exists iv',
            run_loop "i" sty_body (map (fun a => VStr [aa_char a]) l) (sty_env s acc (Z.of_nat (S k)) iv) =
            ONorm (sty_env s (acc ++ map VInt (sty_from k l)) (Z.of_nat (S (k + List.length l))) iv')).
  { induction l as [|a l IH]; intros k acc iv; cbn [map MiniPy.run_loop].
    - exists iv. unfold sty_from. cbn. rewrite app_nil_r, Nat.add_0_r. reflexivity.
    - unfold sty_body, sty_env. mp2.
      rewrite sty_in'.
      assert (Hk : Z.of_nat (S k) + 1 = Z.of_nat (S (S k))) by lia.
      destruct (sty a) eqn:Ea; mp2; rewrite Hk.
      + destruct (IH (S k) (acc ++ [VInt (Z.of_nat (S k))]) (VStr [aa_char a])) as [iv' E]. exists iv'. unfold sty_env, sty_body in E. rewrite E.
        unfold sty_from. cbn [List.length seq combine filter snd fst map]. rewrite Ea. cbn [map fst]. rewrite <- app_assoc. cbn [app].
        replace (S k + Datatypes.length l)%nat with (k + S (Datatypes.length l))%nat by lia. reflexivity.
      + destruct (IH (S k) acc (VStr [aa_char a])) as [iv' E]. exists iv'. unfold sty_env, sty_body in E. rewrite E.
        unfold sty_from. cbn [List.length seq combine filter snd fst map]. rewrite Ea.
        replace (S k + Datatypes.length l)%nat with (k + S (Datatypes.length l))%nat by lia. reflexivity. }
  destruct (H s 0%nat [] VNone) as [iv' E]. change (Z.of_nat 1) with 1 in E. rewrite E. unfold sty_rest, sty_env. mp2. reflexivity.
Qed.

(* ---------- get_phosphosequence ---------- *)
Definition pq_env (s : list aa) (sites : list nat) (acc : value) (idx : value) (iv : value) : env :=
  [("self"%string, VNone); ("self.seq"%string, VStr (map aa_char s)); ("self.phosphosites"%string, sites_val sites);
   ("pseq"%string, acc); ("idx"%string, idx); ("i"%string, iv)].
Definition pq_pre : list stmt := Eval vm_compute in match split_at_for g_get_phosphosequence with Some (p, _, _) => p | None => [] end.
Definition pq_body : stmt := Eval vm_compute in match split_at_for g_get_phosphosequence with Some (_, (_, _, b), _) => b | None => SSkip end.
Definition pq_rest : stmt := Eval vm_compute in match split_at_for g_get_phosphosequence with Some (_, _, r) => r | None => SRaise end.
Lemma pq_split_eq : split_at_for g_get_phosphosequence = Some (pq_pre, ("i"%string, EVar "self.seq", pq_body), pq_rest).
Proof. vm_compute. reflexivity. Qed.

Ltac mq := cbn [MiniPy.exec MiniPy.eval lookup set String.eqb Ascii.eqb Bool.eqb truthy v_not cmp_int bad2 is_bad as_Q
                pq_env orb negb list_ascii_of_string].

Lemma in_sites2 k sites : existsb (veqb (VInt (Z.of_nat k))) (map (fun i => VInt (Z.of_nat i)) sites) = memn k sites.
Proof.
  unfold memn. induction sites as [|i sites IH]; [reflexivity|]. cbn [map existsb]. rewrite IH. f_equal.
  change (veqb (VInt (Z.of_nat k)) (VInt (Z.of_nat i))) with (Z.of_nat k =? Z.of_nat i).
  destruct (Nat.eqb_spec k i) as [->|Hne]; [apply Z.eqb_refl | apply Z.eqb_neq; lia].
Qed.

Lemma index_mid pre a l : index_val (map aa_char (pre ++ a :: l)) (Z.of_nat (List.length pre)) = Some (aa_char a).
Proof.
  unfold index_val. rewrite map_length, app_length. cbn [List.length].
  replace (Z.of_nat (Datatypes.length pre) <? 0) with false by (symmetry; apply Z.ltb_ge; lia).
  replace ((Z.of_nat (Datatypes.length pre) <? 0) || (Z.of_nat (Datatypes.length pre + S (Datatypes.length l)) <=? Z.of_nat (Datatypes.length pre))) with false
    by (symmetry; apply orb_false_iff; split; [apply Z.ltb_ge | apply Z.leb_gt]; lia).
  rewrite Nat2Z.id, nth_error_map, nth_error_app2 by lia. rewrite Nat.sub_diag. reflexivity.
Qed.

Definition subst_from (k : nat) (sites : list nat) (l : list aa) : list aa :=
  map (fun p => if memn (fst p) sites then Glu else snd p) (combine (seq k (List.length l)) l).

(* every stored site is an S/T/Y position (the invariant set_phosphosites maintains: Proofs/Phospho) *)
Definition sites_sty (s : list aa) (sites : list nat) : Prop :=
  forall i, memn i sites = true -> exists a, nth_error s i = Some a /\ sty a = true.

Theorem get_phosphosequence_tie s sites : sites_sty s sites ->
  exec g_get_phosphosequence (pq_env s sites VNone VNone VNone) =
  ORet (VStr (map aa_char (phosphoseq {| pseq := s; psites := sites |}))).
Proof.
  intros Hinv. rewrite (exec_split _ _ _ _ _ _ _ pq_split_eq).
  assert (Hpre : exec_list pq_pre (pq_env s sites VNone VNone VNone) = ONorm (pq_env s sites (VStr []) (VInt 0) VNone)).
  { unfold pq_pre. cbn [MiniPy.exec_list]. mq. unfold sites_val. cbn [MiniPy.eval lookup pq_env String.eqb Ascii.eqb Bool.eqb].
    destruct (veqb _ _); reflexivity. }
  rewrite Hpre. cbv beta iota. rewrite exec_for.
  change (eval (EVar "self.seq") (pq_env s sites (VStr []) (VInt 0) VNone)) with (VStr (map aa_char s)). cbn [elements]. rewrite map_map.
  assert (H : forall l pre acc iv, s = pre ++ l -> exists iv',
            run_loop "i" pq_body (map (fun a => VStr [aa_char a]) l) (pq_env s sites (VStr acc) (VInt (Z.of_nat (List.length pre))) iv) =
            ONorm (pq_env s sites (VStr (acc ++ map aa_char (subst_from (List.length pre) sites l))) (VInt (Z.of_nat (List.length pre + List.length l))) iv')).
  { induction l as [|a l IH]; intros pre acc iv Hs; cbn [map MiniPy.run_loop].
    - exists iv. unfold subst_from. cbn. rewrite app_nil_r, Nat.add_0_r. reflexivity.
    - unfold pq_body. mq. unfold sites_val.
      change (v_in (VInt (Z.of_nat (Datatypes.length pre))) (VList (map (fun i : nat => VInt (Z.of_nat i)) sites)))
        with (VBool (existsb (veqb (VInt (Z.of_nat (Datatypes.length pre)))) (map (fun i : nat => VInt (Z.of_nat i)) sites))).
      rewrite in_sites2.
      assert (Hk : Z.of_nat (Datatypes.length pre) + 1 = Z.of_nat (Datatypes.length (pre ++ [a]))) by (rewrite app_length; cbn [List.length]; lia).
      assert (Hs' : s = (pre ++ [a]) ++ l) by (rewrite <- app_assoc; exact Hs).
      destruct (memn (Datatypes.length pre) sites) eqn:Em; mq.
      + destruct (Hinv _ Em) as [a' [Hn Hsty]]. rewrite Hs, nth_error_app2, Nat.sub_diag in Hn by lia. cbn [nth_error] in Hn. injection Hn as <-.
        change (v_in (VStr [aa_char a]) (VList [VStr ["S"%char]; VStr ["Y"%char]; VStr ["T"%char]]))
          with (VBool (existsb (veqb (VStr [aa_char a])) [VStr ["S"%char]; VStr ["Y"%char]; VStr ["T"%char]])).
        replace (existsb (veqb (VStr [aa_char a])) [VStr ["S"%char]; VStr ["Y"%char]; VStr ["T"%char]]) with true
          by (destruct a; try discriminate Hsty; reflexivity).
        mq. rewrite Hk. destruct (IH (pre ++ [a]) (acc ++ ["E"%char]) (VStr [aa_char a]) Hs') as [iv' E]. exists iv'.
        unfold pq_env, pq_body, sites_val in E. rewrite E. unfold subst_from. cbn [List.length seq combine map fst snd]. rewrite Em.
        rewrite <- app_assoc. cbn [app aa_char]. rewrite !app_length. cbn [List.length].
        replace (Datatypes.length pre + 1)%nat with (S (Datatypes.length pre)) by lia.
        replace (S (Datatypes.length pre) + Datatypes.length l)%nat with (Datatypes.length pre + S (Datatypes.length l))%nat by lia. reflexivity.
      + replace (index_val (map aa_char s) (Z.of_nat (Datatypes.length pre))) with (Some (aa_char a))
          by (rewrite Hs; symmetry; apply index_mid).
        mq. rewrite Hk.
        destruct (IH (pre ++ [a]) (acc ++ [aa_char a]) (VStr [aa_char a]) Hs') as [iv' E]. exists iv'.
        unfold pq_env, pq_body, sites_val in E. rewrite E. unfold subst_from. cbn [List.length seq combine map fst snd]. rewrite Em.
        rewrite <- app_assoc. cbn [app]. rewrite !app_length. cbn [List.length].
        replace (Datatypes.length pre + 1)%nat with (S (Datatypes.length pre)) by lia.
        replace (S (Datatypes.length pre) + Datatypes.length l)%nat with (Datatypes.length pre + S (Datatypes.length l))%nat by lia. reflexivity. }
  destruct (H s [] [] VNone eq_refl) as [iv' E]. cbn [List.length] in E. change (Z.of_nat 0) with 0 in E. rewrite E.
  unfold pq_rest, pq_env. mq. unfold phosphoseq, subst_at, subst_from. cbn [pseq psites app]. reflexivity.
Qed.

(* ... for every state reachable by set / clear calls the invariant holds (Proofs/Phospho.sites_in_range_STY) *)
Corollary get_phosphosequence_reachable s ops :
  let o := prun ops {| pseq := s; psites := [] |} in
  exec g_get_phosphosequence (pq_env s (psites o) VNone VNone VNone) = ORet (VStr (map aa_char (phosphoseq o))).
Proof.
  cbn zeta. pose proof (Proofs.Phospho.seq_unchanged ops {| pseq := s; psites := [] |}) as Hseq. cbn [pseq] in Hseq.
  rewrite get_phosphosequence_tie.
  - destruct (prun ops {| pseq := s; psites := [] |}) as [q p]. cbn [pseq psites] in *. subst q. reflexivity.
  - intros i Hi. apply Proofs.Phospho.memn_In in Hi. apply (Proofs.Phospho.sites_in_range_STY s ops i) in Hi. tauto.
Qed.
Print Assumptions get_phosphosequence_reachable.

(* ---------- the public getters (SequenceParameters) are exactly a return of the backend call with their own arguments ---------- *)
Lemma fw_get_phosphosites : g_fw_get_phosphosites = SReturn (ECall "SeqObj.get_phosphosites"%string []). Proof. reflexivity. Qed.
Lemma fw_get_all_phosphorylatable_sites : g_fw_get_all_phosphorylatable_sites = SReturn (ECall "SeqObj.get_STY_residues"%string []). Proof. reflexivity. Qed.
Lemma fw_get_phosphosequence : g_fw_get_phosphosequence = SReturn (ECall "SeqObj.get_phosphosequence"%string []). Proof. reflexivity. Qed.

(* the two public setters are exactly the backend call with their own argument, result discarded *)
Lemma fw_set_phosphosites : g_fw_set_phosphosites = SAssign "$_"%string (ECall "SeqObj.setPhosPhoSites"%string [EVar "phosphosites"%string]). Proof. reflexivity. Qed.
Lemma fw_clear_phosphosites : g_fw_clear_phosphosites = SAssign "$_"%string (ECall "SeqObj.clear_phosphosites"%string []). Proof. reflexivity. Qed.

(* get_full_phosphostatus_kappa_distribution: whatever the count of states is (it is only printed), the backend's distribution *)
Lemma full_phosphostatus_tie (prim : string -> list value -> value) (r : env) :
  is_bad (prim "SeqObj.calculateNumberDifferentPhosphoStates"%string []) = false ->
  is_bad (prim "SeqObj.calculateKappaDistOfPhosphoStates"%string []) = false ->
  MiniPy.exec prim 0 g_fw_get_full_phosphostatus r = ORet (prim "SeqObj.calculateKappaDistOfPhosphoStates"%string []).
Proof.
  intros H1 H2. unfold g_fw_get_full_phosphostatus. rewrite exec_seq.
  rewrite (exec_assign_ok _ _ _ _ (eval_call0 _ _) H1). apply exec_return_ok; [apply eval_call0 | exact H2].
Qed.

(* get_kappa_after_phosphorylation: with or without sites (the branch only prints), the backend's kappa_at_maxPhos *)
Lemma kappa_after_phosphorylation_tie (prim : string -> list value -> value) (r : env) l :
  prim "get_phosphosites"%string [] = VList l ->
  is_bad (prim "SeqObj.kappa_at_maxPhos"%string []) = false ->
  MiniPy.exec prim 0 g_fw_get_kappa_after_phosphorylation r = ORet (prim "SeqObj.kappa_at_maxPhos"%string []).
Proof.
  intros H1 H2. unfold g_fw_get_kappa_after_phosphorylation. rewrite exec_seq.
  assert (E : MiniPy.exec prim 0 (SIf (EEq (ELen (ECall "get_phosphosites" [])) (EConst (VInt 0))) SSkip SSkip) r = ONorm r).
  { rewrite exec_if. cbn [MiniPy.eval map]. rewrite H1. cbn [is_bad existsb orb]. destruct l; reflexivity. }
  rewrite E. apply exec_return_ok; [apply eval_call0 | exact H2].
Qed.

(* calculateNumberDifferentPhosphoStates: np.power(2, number of sites) *)
Lemma numstates_tie (prim : string -> list value -> value) (r : env) l :
  lookup "self.phosphosites" r = VList l -> is_bad (prim "np.power"%string [VInt 2; VInt (Z.of_nat (List.length l))]) = false ->
  MiniPy.exec prim 0 g_numstates r = ORet (prim "np.power"%string [VInt 2; VInt (Z.of_nat (List.length l))]).
Proof.
  intros H1 H2. unfold g_numstates. apply exec_return_ok; [|exact H2].
  cbn [MiniPy.eval map]. rewrite H1. reflexivity.
Qed.
Print Assumptions full_phosphostatus_tie.
Print Assumptions kappa_after_phosphorylation_tie.
Print Assumptions numstates_tie.
