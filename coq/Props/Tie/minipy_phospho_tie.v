(* Tie (C16) — SEMANTIC: the body of Sequence.setPhosPhoSites, translated from the working tree into a Core.MiniPy term on
   every run, is proved to leave exactly Model.Phospho's site list in self.phosphosites, for EVERY sequence, current site
   list and request (a list of ints, or one int), and never to raise. *)
From Coq Require Import List String Ascii ZArith NArith Bool Lia.
From LC Require Import Core.Residue Core.MiniPy Model.Phospho Gen.GMiniPy.
Import ListNotations.

Local Notation exec := (MiniPy.exec noprim 0).
Local Notation exec_list := (MiniPy.exec_list noprim 0).
Local Notation run_loop := (MiniPy.run_loop noprim 0).
Local Notation eval := (MiniPy.eval noprim).
Local Open Scope Z_scope.

Definition sites_val (l : list nat) : value := VList (map (fun i => VInt (Z.of_nat i)) l).
Definition ps_env (s : list aa) (sites : list nat) (req tmp sv iv rv : value) : env :=
  [("self"%string, VNone); ("listOfPsites"%string, req); ("self.seq"%string, VStr (map aa_char s));
   ("self.phosphosites"%string, sites_val sites); ("tmp"%string, tmp); ("site"%string, sv); ("idx"%string, iv); ("res"%string, rv)].

Ltac mp := cbn [MiniPy.exec MiniPy.eval lookup set String.eqb Ascii.eqb Bool.eqb truthy v_in v_not cmp_int bad2 is_bad elements ps_env
                list_ascii_of_string].

Lemma ps_split : exists pre body rest,
  split_at_for g_setPhosPhoSites = Some (pre, ("site"%string, EVar "listOfPsites", body), rest).
Proof. eexists. eexists. eexists. vm_compute. reflexivity. Qed.

Definition ps_body : stmt := Eval vm_compute in
  match split_at_for g_setPhosPhoSites with Some (_, (_, _, b), _) => b | None => SSkip end.


Lemma in_sites k sites : 0 <= k -> existsb (veqb (VInt k)) (map (fun i => VInt (Z.of_nat i)) sites) = memn (Z.to_nat k) sites.
Proof.
  intros Hk. unfold memn. induction sites as [|i sites IH]; [reflexivity|]. cbn [map existsb]. rewrite IH. f_equal.
  change (veqb (VInt k) (VInt (Z.of_nat i))) with (k =? Z.of_nat i).
  destruct (Z.eqb_spec k (Z.of_nat i)) as [->|Hne].
  - rewrite Nat2Z.id. symmetry. apply Nat.eqb_refl.
  - symmetry. apply Nat.eqb_neq. intros E. apply Hne. rewrite <- E. rewrite Z2Nat.id by lia. reflexivity.
Qed.

Lemma sty_in a : existsb (veqb (VStr [aa_char a])) [VStr ["S"%char]; VStr ["T"%char]; VStr ["Y"%char]] = sty a.
Proof. destruct a; reflexivity. Qed.

Lemma index_seq s k : 0 <= k -> k < Z.of_nat (List.length s) ->
  exists a, nth_error s (Z.to_nat k) = Some a /\ index_val (map aa_char s) k = Some (aa_char a).
Proof.
  intros H0 H1. destruct (nth_error s (Z.to_nat k)) as [a|] eqn:E.
  - exists a. split; [reflexivity|]. unfold index_val. rewrite map_length.
    replace (k <? 0) with false by (symmetry; apply Z.ltb_ge; lia).
    replace ((k <? 0) || (Z.of_nat (Datatypes.length s) <=? k)) with false
      by (symmetry; apply orb_false_iff; split; [apply Z.ltb_ge; lia | apply Z.leb_gt; lia]).
    rewrite nth_error_map, E. reflexivity.
  - exfalso. apply nth_error_None in E. lia.
Qed.

(* one requested site: the body of the loop does what Model.Phospho.set_site does *)
Lemma ps_body_step s sites req tmp sv iv rv z :
  let sites' := psites (set_site {| pseq := s; psites := sites |} z) in
  exists rv', exec ps_body (set "site" (VInt z) (ps_env s sites req tmp sv iv rv)) = ONorm (ps_env s sites' req tmp (VInt z) (VInt (z - 1)) rv') \/
              exec ps_body (set "site" (VInt z) (ps_env s sites req tmp sv iv rv)) = OCont (ps_env s sites' req tmp (VInt z) (VInt (z - 1)) rv').
Proof.
  cbn zeta. unfold ps_body, set_site, valid_site. cbn [pseq psites]. mp. rewrite map_length.
  destruct (z - 1 >=? Z.of_nat (Datatypes.length s)) eqn:E1; mp.
  { replace (z <=? Z.of_nat (Datatypes.length s)) with false by (symmetry; apply Z.leb_gt; apply Z.geb_le in E1; lia).
    rewrite andb_false_r. cbn [andb psites]. exists rv. right. reflexivity. }
  destruct (z - 1 <? 0) eqn:E2; mp.
  { replace (1 <=? z) with false by (symmetry; apply Z.leb_gt; apply Z.ltb_lt in E2; lia).
    cbn [andb psites]. exists rv. right. reflexivity. }
  assert (H0 : 0 <= z - 1) by (apply Z.ltb_ge in E2; exact E2).
  assert (H1 : z - 1 < Z.of_nat (Datatypes.length s)).
  { destruct (Z.ltb_spec (z - 1) (Z.of_nat (Datatypes.length s))); [assumption|].
    exfalso. assert (z - 1 >=? Z.of_nat (Datatypes.length s) = true) by (apply Z.geb_le; lia). congruence. }
  replace (1 <=? z) with true by (symmetry; apply Z.leb_le; lia).
  replace (z <=? Z.of_nat (Datatypes.length s)) with true by (symmetry; apply Z.leb_le; lia). cbn [andb].
  destruct (index_seq s (z - 1) H0 H1) as [a [Hn Hi]]. rewrite Hi, Hn. mp.
  rewrite sty_in. destruct (sty a) eqn:Es; mp.
  2:{ cbn [psites]. eexists. left. reflexivity. }
  unfold sites_val. cbn [negb].
  change (v_in (VInt (z - 1)) (VList (map (fun i : nat => VInt (Z.of_nat i)) sites)))
    with (VBool (existsb (veqb (VInt (z - 1))) (map (fun i : nat => VInt (Z.of_nat i)) sites))).
  rewrite (in_sites (z - 1) sites H0). destruct (memn (Z.to_nat (z - 1)) sites) eqn:Em; mp.
  { cbn [psites]. eexists. left. reflexivity. }
  cbn [psites]. eexists. left. unfold ps_env, sites_val. rewrite map_app. cbn [map]. rewrite Z2Nat.id by lia. reflexivity.
Qed.

Definition ps_pre : list stmt := Eval vm_compute in
  match split_at_for g_setPhosPhoSites with Some (p, _, _) => p | None => [] end.
Definition ps_rest : stmt := Eval vm_compute in
  match split_at_for g_setPhosPhoSites with Some (_, _, r) => r | None => SRaise end.

Lemma ps_split_eq : split_at_for g_setPhosPhoSites = Some (ps_pre, ("site"%string, EVar "listOfPsites", ps_body), ps_rest).
Proof. vm_compute. reflexivity. Qed.

Definition ps_step (s : list aa) (sites : list nat) (v : value) : option (list nat) :=
  match v with VInt z => Some (psites (set_site {| pseq := s; psites := sites |} z)) | _ => None end.

Lemma set_site_seq o z : pseq (set_site o z) = pseq o.
Proof. unfold set_site. destruct (valid_site (pseq o) z); [destruct (memn _ _)|]; reflexivity. Qed.

Lemma ps_fold s req : forall sites,
  fold_step (ps_step s) sites (map VInt req) = Some (psites (fold_left set_site req {| pseq := s; psites := sites |})).
Proof.
  induction req as [|z req IH]; intros sites; cbn [map fold_step fold_left]; [reflexivity|].
  cbn [ps_step]. rewrite IH. f_equal. f_equal. f_equal.
  pose proof (set_site_seq {| pseq := s; psites := sites |} z) as H. cbn [pseq] in H.
  destruct (set_site {| pseq := s; psites := sites |} z) as [q p]. cbn [pseq psites] in *. subst q. reflexivity.
Qed.

Lemma ps_loop s req reqv tmp : forall sites sv iv rv,
  exists sv' iv' rv', run_loop "site" ps_body (map VInt req) (ps_env s sites reqv tmp sv iv rv) =
    ONorm (ps_env s (psites (fold_left set_site req {| pseq := s; psites := sites |})) reqv tmp sv' iv' rv').
Proof.
  intros sites sv iv rv.
  pose proof (@run_loop_rule noprim 0%nat _ "site"%string ps_body (fun r st => exists sv iv rv, r = ps_env s st reqv tmp sv iv rv) (ps_step s)
                (fun v => exists z, v = VInt z)) as HL.
  assert (Hstep : forall r st v, (exists z, v = VInt z) -> (exists sv iv rv, r = ps_env s st reqv tmp sv iv rv) ->
            match ps_step s st v with
            | Some st' => exists r', (exec ps_body (set "site" v r) = ONorm r' \/ exec ps_body (set "site" v r) = OCont r') /\
                                     (exists sv iv rv, r' = ps_env s st' reqv tmp sv iv rv)
            | None => exec ps_body (set "site" v r) = ORaise
            end).
  { intros r st v [z ->] (sv0 & iv0 & rv0 & ->). cbn [ps_step].
    destruct (ps_body_step s st reqv tmp sv0 iv0 rv0 z) as [rv' H]. eexists. split; [exact H|]. eexists. eexists. eexists. reflexivity. }
  specialize (HL Hstep (map VInt req)).
  assert (HP : Forall (fun v => exists z, v = VInt z) (map VInt req)).
  { apply Forall_forall. intros v Hv. apply in_map_iff in Hv. destruct Hv as [z [<- _]]. exists z. reflexivity. }
  specialize (HL HP (ps_env s sites reqv tmp sv iv rv) sites (ex_intro _ sv (ex_intro _ iv (ex_intro _ rv eq_refl)))).
  rewrite ps_fold in HL. destruct HL as [r' [E (sv' & iv' & rv' & ->)]]. exists sv', iv', rv'. exact E.
Qed.

(* set_phosphosites(list of ints): the generated term leaves exactly Model.Phospho's site list in self.phosphosites
   (and never raises), for EVERY sequence, current site list and request *)
Theorem setPhosPhoSites_list_tie s sites req :
  exists tmp sv iv rv,
  exec g_setPhosPhoSites (ps_env s sites (VList (map VInt req)) VNone VNone VNone VNone) =
  ONorm (ps_env s (psites (fold_left set_site req {| pseq := s; psites := sites |})) (VList (map VInt req)) tmp sv iv rv).
Proof.
  rewrite (exec_split _ _ _ _ _ _ _ ps_split_eq).
  change (exec_list ps_pre (ps_env s sites (VList (map VInt req)) VNone VNone VNone VNone))
    with (ONorm (ps_env s sites (VList (map VInt req)) VNone VNone VNone VNone)).
  cbv beta iota. rewrite exec_for. change (eval (EVar "listOfPsites") (ps_env s sites (VList (map VInt req)) VNone VNone VNone VNone)) with (VList (map VInt req)).
  cbn [elements].
  destruct (ps_loop s req (VList (map VInt req)) VNone sites VNone VNone VNone) as (sv' & iv' & rv' & E). rewrite E.
  exists VNone, sv', iv', rv'. reflexivity.
Qed.

(* set_phosphosites(int) *)
Theorem setPhosPhoSites_int_tie s sites z :
  exists tmp sv iv rv,
  exec g_setPhosPhoSites (ps_env s sites (VInt z) VNone VNone VNone VNone) =
  ONorm (ps_env s (psites (set_site {| pseq := s; psites := sites |} z)) (VList [VInt z]) tmp sv iv rv).
Proof.
  rewrite (exec_split _ _ _ _ _ _ _ ps_split_eq).
  change (exec_list ps_pre (ps_env s sites (VInt z) VNone VNone VNone VNone))
    with (ONorm (ps_env s sites (VList [VInt z]) (VInt z) VNone VNone VNone)).
  cbv beta iota. rewrite exec_for. change (eval (EVar "listOfPsites") (ps_env s sites (VList [VInt z]) (VInt z) VNone VNone VNone)) with (VList (map VInt [z])).
  cbn [elements].
  destruct (ps_loop s [z] (VList [VInt z]) (VInt z) sites VNone VNone VNone) as (sv' & iv' & rv' & E). rewrite E.
  exists (VInt z), sv', iv', rv'. reflexivity.
Qed.
Print Assumptions setPhosPhoSites_list_tie.
