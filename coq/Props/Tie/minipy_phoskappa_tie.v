(* Tie (C16) — SEMANTIC: Sequence.kappa_at_maxPhos, translated from the working tree on every run (list(str), item
   assignment by index, "".join, construction of a FRESH Sequence from the string and its kappa()), for EVERY sequence,
   EVERY in-range site list and ANY kappa function: kappa of the sequence with E at exactly the stored sites. *)
From Coq Require Import List String Ascii ZArith QArith Bool Arith Lia.
From LC Require Import Core.Residue Core.MiniPy Model.Phospho Proofs.Phospho Gen.GMiniPy.
Import ListNotations.
Local Open Scope Z_scope.
Local Notation kv a := (VStr [aa_char a]).
Definition sites_val (l : list nat) : value := VList (map (fun i => VInt (Z.of_nat i)) l).

(* ---------- Sequence.kappa_at_maxPhos ---------- *)
Section KM.
Variable s : list aa.                 (* the object's sequence *)
Variable kap : list ascii -> Q.       (* kappa of a sequence given as a string: ANY function *)
Definition km_prim (name : string) (args : list value) : value :=
  if String.eqb name "kappa" then match args with [] => VQ (kap (map aa_char s)) | _ => VErr end
  else if String.eqb name "Sequence" then match args with [VStr t] => VStr t | _ => VErr end
  else if String.eqb name ".kappa" then match args with [VStr t] => VQ (kap t) | _ => VErr end
  else VErr.
Local Notation exec := (MiniPy.exec km_prim 0).
Local Notation run_loop := (MiniPy.run_loop km_prim 0).

Definition km_env (sites : list nat) (newseq pos obj : value) : env :=
  [("self"%string, VNone); ("self.seq"%string, VStr (map aa_char s)); ("self.phosphosites"%string, sites_val sites);
   ("newseq"%string, newseq); ("pos"%string, pos); ("newseqObj"%string, obj)].

Definition marked (done : list nat) : list value :=
  map (fun p => if memn (fst p) done then VStr ["E"%char] else kv (snd p)) (combine (seq 0 (List.length s)) s).

Lemma subst_genV {B} (f : nat -> aa -> B) (t : list aa) : forall k i,
  nth_error (map (fun p => f (fst p) (snd p)) (combine (seq k (List.length t)) t)) i = option_map (f (k + i)%nat) (nth_error t i).
Proof.
  induction t as [|a t IH]; intros k i; [destruct i; reflexivity|].
  cbn [List.length seq combine map]. destruct i as [|i]; cbn [nth_error option_map fst snd].
  - now rewrite Nat.add_0_r.
  - rewrite IH. now replace (S k + i)%nat with (k + S i)%nat by lia.
Qed.

Lemma nth_firstn {A} (l : list A) : forall n k, (k < n)%nat -> nth_error (firstn n l) k = nth_error l k.
Proof.
  induction l as [|x l IH]; intros n k H; [rewrite firstn_nil; reflexivity|].
  destruct n as [|n]; [lia|]. destruct k as [|k]; [reflexivity|]. cbn [firstn nth_error]. apply IH. lia.
Qed.

Lemma nth_skipn {A} (l : list A) : forall n k, nth_error (skipn n l) k = nth_error l (n + k).
Proof.
  induction l as [|x l IH]; intros n k; [rewrite skipn_nil; destruct k, n; reflexivity|].
  destruct n as [|n]; [reflexivity|]. cbn [skipn Nat.add nth_error]. apply IH.
Qed.

Lemma marked_nth done i : nth_error (marked done) i = option_map (fun a => if memn i done then VStr ["E"%char] else kv a) (nth_error s i).
Proof. unfold marked. apply (subst_genV (fun j a => if memn j done then VStr ["E"%char] else kv a) s 0 i). Qed.
Lemma marked_length done : List.length (marked done) = List.length s.
Proof. unfold marked. rewrite map_length, combine_length, seq_length. lia. Qed.

Lemma list_set_marked done i : (i < List.length s)%nat ->
  list_set (marked done) (Z.of_nat i) (VStr ["E"%char]) = Some (marked (done ++ [i])).
Proof.
  intros Hi. unfold list_set. rewrite marked_length.
  replace (Z.of_nat i <? 0) with false by (symmetry; apply Z.ltb_ge; lia).
  replace ((Z.of_nat i <? 0) || (Z.of_nat (Datatypes.length s) <=? Z.of_nat i)) with false
    by (symmetry; apply orb_false_iff; split; [apply Z.ltb_ge | apply Z.leb_gt]; lia).
  rewrite Nat2Z.id. f_equal. apply nth_error_ext. intros k. rewrite marked_nth.
  assert (Hm : forall j, memn j (done ++ [i]) = memn j done || Nat.eqb j i).
  { intros j. unfold memn. rewrite existsb_app. cbn [existsb]. now rewrite orb_false_r. }
  rewrite Hm. destruct (Nat.lt_trichotomy k i) as [Hlt|[->|Hgt]].
  - rewrite nth_error_app1 by (rewrite firstn_length, marked_length; lia). rewrite nth_firstn by lia.
    rewrite marked_nth. replace (Nat.eqb k i) with false by (symmetry; apply Nat.eqb_neq; lia). now rewrite orb_false_r.
  - rewrite nth_error_app2 by (rewrite firstn_length, marked_length; lia). rewrite firstn_length, marked_length.
    replace (i - Nat.min i (Datatypes.length s))%nat with 0%nat by lia. cbn [nth_error]. rewrite Nat.eqb_refl, orb_true_r.
    destruct (nth_error s i) eqn:E; [reflexivity|]. apply nth_error_None in E. lia.
  - rewrite nth_error_app2 by (rewrite firstn_length, marked_length; lia). rewrite firstn_length, marked_length.
    replace (k - Nat.min i (Datatypes.length s))%nat with (S (k - S i)) by lia. cbn [nth_error]. rewrite nth_skipn.
    replace (S i + (k - S i))%nat with k by lia. rewrite marked_nth.
    replace (Nat.eqb k i) with false by (symmetry; apply Nat.eqb_neq; lia). now rewrite orb_false_r.
Qed.

Definition km_else : stmt := Eval vm_compute in match g_kappa_at_maxPhos with SIf _ _ b => b | _ => SSkip end.
Definition km_spine : list stmt := Eval vm_compute in spine km_else.
Lemma km_spine_eq : spine km_else = km_spine. Proof. vm_compute. reflexivity. Qed.
Definition km_body : stmt := SSetItem "newseq" (EVar "pos") (EConst (VStr ["E"%char])).
Lemma km_parts : km_spine = [SAssign "newseq" (EListOf (EVar "self.seq")); SFor "pos" (EVar "self.phosphosites") km_body;
                             SAssign "newseq" (EJoin [] (EVar "newseq")); SAssign "newseqObj" (ECall "Sequence" [EVar "newseq"]);
                             SReturn (ECall ".kappa" [EVar "newseqObj"])].
Proof. reflexivity. Qed.
Lemma km_top : g_kappa_at_maxPhos = SIf (EEq (ELen (EVar "self.phosphosites")) (EConst (VInt 0))) (SReturn (ECall "kappa" [])) km_else.
Proof. reflexivity. Qed.

Lemma km_loop sites all obj : (forall i, In i sites -> (i < List.length s)%nat) -> forall done pos,
  exists pos', run_loop "pos" km_body (map (fun i => VInt (Z.of_nat i)) sites) (km_env all (VList (marked done)) pos obj) =
               ONorm (km_env all (VList (marked (done ++ sites))) pos' obj).
Proof.
  induction sites as [|i sites IH]; intros Hr done pos; cbn [map MiniPy.run_loop].
  - exists pos. now rewrite app_nil_r.
  - unfold km_body at 1. cbn [MiniPy.exec MiniPy.eval lookup set String.eqb Ascii.eqb Bool.eqb km_env].
    rewrite (list_set_marked done i (Hr i (or_introl eq_refl))).
    destruct (IH (fun j Hj => Hr j (or_intror Hj)) (done ++ [i]) (VInt (Z.of_nat i))) as [pos' E]. exists pos'.
    unfold km_env in E. rewrite E, <- app_assoc. reflexivity.
Qed.

Lemma join_chars (l : list value) (cs : list ascii) : l = map (fun c => VStr [c]) cs -> join_strs [] l = Some cs.
Proof.
  intros ->. induction cs as [|c cs IH]; [reflexivity|]. cbn [map join_strs]. destruct cs as [|d cs]; [reflexivity|].
  cbn [map] in *. rewrite IH. reflexivity.
Qed.

Lemma marked_chars sites : marked sites = map (fun c => VStr [c]) (map aa_char (phosphoseq {| pseq := s; psites := sites |})).
Proof.
  apply nth_error_ext. intros k. rewrite marked_nth, !nth_error_map, phosphoseq_spec. cbn [pseq psites].
  destruct (nth_error s k) as [a|]; [|reflexivity]. cbn [option_map]. destruct (memn k sites); reflexivity.
Qed.

Lemma marked_nil : marked [] = map (fun c => VStr [c]) (map aa_char s).
Proof. rewrite marked_chars. unfold phosphoseq. cbn [pseq psites]. now rewrite phosphoseq_no_sites. Qed.

(* kappa after phosphorylation, for EVERY sequence, EVERY in-range site list and ANY kappa function: kappa of the
   sequence with E at exactly the stored sites (a fresh Sequence built from that string: nothing of the parent's cached
   delta-max or charge pattern is passed on) *)
Theorem kappa_at_maxPhos_tie sites : (forall i, In i sites -> (i < List.length s)%nat) ->
  exec g_kappa_at_maxPhos (km_env sites VNone VNone VNone) =
  ORet (VQ (kap (map aa_char (phosphoseq {| pseq := s; psites := sites |})))).
Proof.
  intros Hr. rewrite km_top.
  change (exec (SIf ?c ?a ?b) ?r) with (match truthy (MiniPy.eval km_prim c r) with VBool true => exec a r | VBool false => exec b r
                                         | VExc => ORaise | VOpaque => match a, b with SSkip, SSkip => ONorm r | _, _ => OErr end | _ => OErr end).
  cbn [MiniPy.eval lookup km_env String.eqb Ascii.eqb Bool.eqb sites_val bad2 veqb truthy]. rewrite map_length.
  destruct sites as [|i0 sites0].
  - cbn [List.length Z.of_nat Z.eqb]. cbn [MiniPy.exec MiniPy.eval km_prim String.eqb Ascii.eqb Bool.eqb existsb orb].
    unfold phosphoseq. cbn [pseq psites]. now rewrite phosphoseq_no_sites.
  - replace (Z.of_nat (Datatypes.length (i0 :: sites0)) =? 0) with false by (symmetry; apply Z.eqb_neq; cbn [List.length]; lia).
    set (sites := i0 :: sites0) in *.
    rewrite exec_spine, km_spine_eq, km_parts. cbn [MiniPy.exec_list].
    change (exec (SAssign "newseq" (EListOf (EVar "self.seq"))) (km_env sites VNone VNone VNone))
      with (ONorm (km_env sites (VList (map (fun c => VStr [c]) (map aa_char s))) VNone VNone)).
    cbv beta iota. rewrite <- marked_nil, exec_for.
    change (MiniPy.eval km_prim (EVar "self.phosphosites") (km_env sites (VList (marked [])) VNone VNone)) with (sites_val sites).
    cbn [elements sites_val]. destruct (km_loop sites sites VNone Hr [] VNone) as [pos' ->]. cbn [app].
    cbn [MiniPy.exec MiniPy.eval lookup set km_env String.eqb Ascii.eqb Bool.eqb].
    rewrite (join_chars _ _ (marked_chars sites)).
    cbn [set lookup String.eqb Ascii.eqb Bool.eqb MiniPy.eval existsb orb km_prim]. reflexivity.
Qed.
End KM.
Print Assumptions kappa_at_maxPhos_tie.
