(* Tie (C09): titratable residue lists and signs, the Henderson–Hasselbalch term shapes, the pKa table
   (EMBOSS values, see tables_tie), the pH guard bounds and the constants / statement shapes of the
   isoelectric-point loop, extracted from the source. *)
From Coq Require Import List QArith Bool String.
From LC Require Import Core.Residue Core.QTools Model.Titration Gen.GSeq Gen.GParams.
Import ListNotations.
Local Open Scope string_scope.

Lemma titratable_tie :
  map fst (filter snd titratable) = g_titr_positive /\
  map fst (filter (fun rb => negb (snd rb)) titratable) = g_titr_negative.
Proof. split; reflexivity. Qed.

Lemma pi_constants_tie : g_pi_constants =
  [("min_pH", 0 # 1); ("max_pH", 14 # 1); ("threshold", 1 # 50); ("breakcount", 0 # 1); ("errorcount", 0 # 1)]%Q.
Proof. reflexivity. Qed.

Lemma pH_guard_tie : Qeq_bool g_pH_lo 0 && Qeq_bool g_pH_hi 14 = true.
Proof. reflexivity. Qed.
