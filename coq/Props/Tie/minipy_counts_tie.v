(* Tie (C04; used by C01 / C02 / C09) — SEMANTIC: Sequence.countPos, countNeg, countNeut, Fplus, Fminus, FCR and NCPR,
   translated from the working tree on every run into Core.MiniPy terms.  For EVERY charge pattern: the three counts are
   the numbers of positive / negative / zero entries (and add up to the length); the fractions are the counts over the
   length — an exception (division by zero) exactly for the empty sequence; with a pH given, FCR / NCPR are
   charge_at_pH(pH[, mode='TOTAL']) over the length, charge_at_pH being an ORACLE here (tied in titration_tie /
   minipy_pi_tie).  self.countPos() etc. are interpreted by RUNNING their translated bodies; a / b is "qdiv". *)
From Coq Require Import List String Ascii ZArith QArith Qreduction Bool Arith Lia Qabs.
From LC Require Import Core.Residue Core.Lists Core.MiniPy Spec.Delta Gen.GMiniPy.
Import ListNotations.
Local Open Scope Z_scope.

Ltac lk := repeat (rewrite lookup_set_eq || rewrite lookup_set_neq by reflexivity).

Definition qdiv_prim (args : list value) : value :=
  match args with
  | [a; b] => match as_Q a, as_Q b with
              | Some x, Some y => if Qeq_bool y 0 then VExc else VQ (Qred (x / y))
              | _, _ => VErr
              end
  | _ => VErr
  end.

Section Counts.
Variable p : list Z.                       (* self.chargePattern *)
Variable cap : list value -> value.        (* self.charge_at_pH(...): an oracle *)
Local Notation N := (List.length p).
Definition c_env : env := [("self.chargePattern"%string, VList (map VInt p))].

Definition cprim0 (name : string) (args : list value) : value := if String.eqb name "qdiv" then qdiv_prim args else VErr.

Lemma enum_len prim cond (f : Z -> bool) r :
  (forall z k, truthy (MiniPy.eval prim cond (set "$x" (VInt z) (set "$i" (VInt k) r))) = VBool (f z)) ->
  forall zs k, exists l, enum_list prim "$i" "$x" cond (EVar "$i") k (map VInt zs) r = VList l /\ Z.of_nat (List.length l) = cnt f zs.
Proof.
  intros Hc. induction zs as [|z zs IH]; intros k; [exists []; split; reflexivity|].
  cbn [map enum_list cnt]. rewrite Hc. destruct (IH (k + 1)) as [l [E Hl]]. rewrite E. destruct (f z).
  - cbn [MiniPy.eval]. rewrite lookup_set_neq by reflexivity. rewrite lookup_set_eq. cbn [is_bad].
    exists (VInt k :: l). split; [reflexivity|]. cbn [List.length]. lia.
  - exists l. split; [reflexivity | lia].
Qed.

Lemma count_where prim cond f r : (forall z k, truthy (MiniPy.eval prim cond (set "$x" (VInt z) (set "$i" (VInt k) r))) = VBool (f z)) ->
  lookup "self.chargePattern" r = VList (map VInt p) ->
  MiniPy.exec prim 0 (SReturn (ELen (EEnumFilter "$i" "$x" cond (EVar "$i") (EVar "self.chargePattern")))) r = ORet (VInt (cnt f p)).
Proof.
  intros Hc Hp. apply exec_return_ok; [|reflexivity].
  change (MiniPy.eval prim (ELen ?a) r) with (match MiniPy.eval prim a r with VStr s0 => VInt (Z.of_nat (List.length s0)) | VList l => VInt (Z.of_nat (List.length l))
                                      | VDict d => VInt (Z.of_nat (List.length d)) | VExc => VExc | _ => VErr end).
  rewrite eval_enumfilter, eval_var, Hp. cbn [elements].
  destruct (enum_len prim cond f r Hc p 0) as [l [E Hl]]. rewrite E. now rewrite Hl.
Qed.

Theorem countPos_tie prim r : lookup "self.chargePattern" r = VList (map VInt p) -> MiniPy.exec prim 0 g_countPos r = ORet (VInt (npos p)).
Proof.
  intros Hp. apply (count_where prim _ isposb r); [|exact Hp].
  intros z k. cbn [MiniPy.eval]. rewrite lookup_set_eq. cbn [cmp_int bad2 truthy]. unfold isposb. now rewrite Z.gtb_ltb.
Qed.
Theorem countNeg_tie prim r : lookup "self.chargePattern" r = VList (map VInt p) -> MiniPy.exec prim 0 g_countNeg r = ORet (VInt (nneg p)).
Proof.
  intros Hp. apply (count_where prim _ isnegb r); [|exact Hp].
  intros z k. cbn [MiniPy.eval]. rewrite lookup_set_eq. reflexivity.
Qed.
Lemma three_way (l : list Z) : cnt (fun z => z =? 0) l = len l - npos l - nneg l.
Proof.
  unfold len, npos, nneg. induction l as [|z l IH]; [reflexivity|]. cbn [cnt List.length]. rewrite IH. unfold isposb, isnegb.
  destruct (Z.eqb_spec z 0), (Z.ltb_spec 0 z), (Z.ltb_spec z 0); lia.
Qed.
Theorem countNeut_tie prim r : lookup "self.chargePattern" r = VList (map VInt p) -> MiniPy.exec prim 0 g_countNeut r = ORet (VInt (nneut p)).
Proof.
  intros Hp. unfold nneut. rewrite <- three_way. apply (count_where prim _ (fun z => z =? 0) r); [|exact Hp].
  intros z k. cbn [MiniPy.eval]. rewrite lookup_set_eq. reflexivity.
Qed.

(* the counts are interpreted by RUNNING their translated bodies *)
Definition run0 (g : stmt) : value := match MiniPy.exec cprim0 0 g c_env with ORet v => v | ORaise => VExc | _ => VErr end.
Definition cprim1 (name : string) (args : list value) : value :=
  if String.eqb name "countPos" then match args with [] => run0 g_countPos | _ => VErr end
  else if String.eqb name "countNeg" then match args with [] => run0 g_countNeg | _ => VErr end
  else if String.eqb name "countNeut" then match args with [] => run0 g_countNeut | _ => VErr end
  else if String.eqb name "charge_at_pH" then cap args
  else if String.eqb name "charge_at_pH|mode" then cap args
  else cprim0 name args.
Lemma call_pos : cprim1 "countPos" [] = VInt (npos p). Proof. unfold cprim1, run0. cbn [String.eqb Ascii.eqb Bool.eqb]. now rewrite (countPos_tie cprim0 c_env eq_refl). Qed.
Lemma call_neg : cprim1 "countNeg" [] = VInt (nneg p). Proof. unfold cprim1, run0. cbn [String.eqb Ascii.eqb Bool.eqb]. now rewrite (countNeg_tie cprim0 c_env eq_refl). Qed.
Lemma call_neut : cprim1 "countNeut" [] = VInt (nneut p). Proof. unfold cprim1, run0. cbn [String.eqb Ascii.eqb Bool.eqb]. now rewrite (countNeut_tie cprim0 c_env eq_refl). Qed.

Definition lenq : Q := Qred (inject_Z (Z.of_nat N) + 0).
Definition frac (c : Z) : outcome := if (N =? 0)%nat then ORaise else ORet (VQ (Qred (inject_Z c / lenq))).

Lemma lenq_zero : Qeq_bool lenq 0 = (N =? 0)%nat.
Proof.
  unfold lenq. destruct (Nat.eqb_spec N 0) as [E|E].
  - rewrite E. reflexivity.
  - apply not_true_is_false. intros C. apply Qeq_bool_iff in C. rewrite Qred_correct in C. unfold Qeq, Qplus, inject_Z in C. cbn in C. lia.
Qed.

Lemma quot_run (e : expr) c r : lookup "self.len" r = VInt (Z.of_nat N) -> MiniPy.eval cprim1 e r = VInt c ->
  MiniPy.exec cprim1 0 (SReturn (ECall "qdiv" [e; EAdd (EVar "self.len") (EConst (VQ (0 # 1)))])) r = frac c.
Proof.
  intros Hl He.
  assert (E2 : MiniPy.eval cprim1 (EAdd (EVar "self.len") (EConst (VQ (0 # 1)))) r = VQ lenq) by (cbn [MiniPy.eval]; rewrite Hl; reflexivity).
  assert (Ev : MiniPy.eval cprim1 (ECall "qdiv" [e; EAdd (EVar "self.len") (EConst (VQ (0 # 1)))]) r =
               if (N =? 0)%nat then VExc else VQ (Qred (inject_Z c / lenq))).
  { rewrite (eval_call2 _ _ _ _ (VInt c) (VQ lenq) He E2 eq_refl eq_refl). unfold cprim1. cbn [String.eqb Ascii.eqb Bool.eqb].
    unfold cprim0. cbn [String.eqb Ascii.eqb Bool.eqb qdiv_prim as_Q]. now rewrite lenq_zero. }
  unfold frac. cbn [MiniPy.exec]. rewrite Ev. destruct (N =? 0)%nat; reflexivity.
Qed.

Theorem Fplus_tie r : lookup "self.len" r = VInt (Z.of_nat N) -> MiniPy.exec cprim1 0 g_Fplus r = frac (npos p).
Proof. intros Hl. apply quot_run; [exact Hl|]. rewrite eval_call0. apply call_pos. Qed.
Theorem Fminus_tie r : lookup "self.len" r = VInt (Z.of_nat N) -> MiniPy.exec cprim1 0 g_Fminus r = frac (nneg p).
Proof. intros Hl. apply quot_run; [exact Hl|]. rewrite eval_call0. apply call_neg. Qed.

Theorem FCR_tie r : lookup "self.len" r = VInt (Z.of_nat N) -> lookup "pH" r = VNone -> MiniPy.exec cprim1 0 g_FCR r = frac (npos p + nneg p).
Proof.
  intros Hl Hph. unfold g_FCR.
  assert (T : truthy (MiniPy.eval cprim1 (ENe (EVar "pH") (EConst VNone)) r) = VBool false) by (cbn [MiniPy.eval]; rewrite Hph; reflexivity).
  rewrite (exec_if_false _ _ _ _ T). apply quot_run; [exact Hl|].
  apply eval_add_int; rewrite eval_call0; [apply call_pos | apply call_neg].
Qed.
Theorem NCPR_tie r : lookup "self.len" r = VInt (Z.of_nat N) -> lookup "pH" r = VNone -> MiniPy.exec cprim1 0 g_NCPR r = frac (npos p - nneg p).
Proof.
  intros Hl Hph. unfold g_NCPR.
  assert (T : truthy (MiniPy.eval cprim1 (ENe (EVar "pH") (EConst VNone)) r) = VBool false) by (cbn [MiniPy.eval]; rewrite Hph; reflexivity).
  rewrite (exec_if_false _ _ _ _ T). apply quot_run; [exact Hl|].
  apply eval_sub_int; rewrite eval_call0; [apply call_pos | apply call_neg].
Qed.

(* with a pH: the oracle's charge over the length *)
Theorem NCPR_pH_tie (ph : Q) (c : Q) r : lookup "self.len" r = VInt (Z.of_nat N) -> lookup "pH" r = VQ ph -> cap [VQ ph] = VQ c -> (1 <= N)%nat ->
  MiniPy.exec cprim1 0 g_NCPR r = ORet (VQ (Qred (c / lenq))).
Proof.
  intros Hl Hph Hc HN. unfold g_NCPR.
  assert (T : truthy (MiniPy.eval cprim1 (ENe (EVar "pH") (EConst VNone)) r) = VBool true) by (cbn [MiniPy.eval]; rewrite Hph; reflexivity).
  rewrite (exec_if_true _ _ _ _ T). apply exec_return_ok; [|reflexivity].
  assert (E1 : MiniPy.eval cprim1 (ECall "charge_at_pH" [EVar "pH"]) r = VQ c).
  { rewrite (eval_call1 _ _ _ (VQ ph) (eq_trans (eval_var _ _) Hph) eq_refl). unfold cprim1. cbn [String.eqb Ascii.eqb Bool.eqb]. exact Hc. }
  assert (E2 : MiniPy.eval cprim1 (EAdd (EVar "self.len") (EConst (VQ (0 # 1)))) r = VQ lenq) by (cbn [MiniPy.eval]; rewrite Hl; reflexivity).
  rewrite (eval_call2 _ _ _ _ (VQ c) (VQ lenq) E1 E2 eq_refl eq_refl). unfold cprim1. cbn [String.eqb Ascii.eqb Bool.eqb].
  unfold cprim0. cbn [String.eqb Ascii.eqb Bool.eqb qdiv_prim as_Q]. rewrite lenq_zero.
  replace (N =? 0)%nat with false by (symmetry; apply Nat.eqb_neq; lia). reflexivity.
Qed.
Theorem FCR_pH_tie (ph : Q) (c : Q) r : lookup "self.len" r = VInt (Z.of_nat N) -> lookup "pH" r = VQ ph ->
  cap [VQ ph; VStr (list_ascii_of_string "TOTAL")] = VQ c -> (1 <= N)%nat ->
  MiniPy.exec cprim1 0 g_FCR r = ORet (VQ (Qred (c / lenq))).
Proof.
  intros Hl Hph Hc HN. unfold g_FCR.
  assert (T : truthy (MiniPy.eval cprim1 (ENe (EVar "pH") (EConst VNone)) r) = VBool true) by (cbn [MiniPy.eval]; rewrite Hph; reflexivity).
  rewrite (exec_if_true _ _ _ _ T). apply exec_return_ok; [|reflexivity].
  assert (E1 : MiniPy.eval cprim1 (ECall "charge_at_pH|mode" [EVar "pH"; EConst (VStr (list_ascii_of_string "TOTAL"))]) r = VQ c).
  { rewrite (eval_call2 _ _ _ _ (VQ ph) (VStr (list_ascii_of_string "TOTAL")) (eq_trans (eval_var _ _) Hph) (eval_const _ _) eq_refl eq_refl).
    unfold cprim1. cbn [String.eqb Ascii.eqb Bool.eqb]. exact Hc. }
  assert (E2 : MiniPy.eval cprim1 (EAdd (EVar "self.len") (EConst (VQ (0 # 1)))) r = VQ lenq) by (cbn [MiniPy.eval]; rewrite Hl; reflexivity).
  rewrite (eval_call2 _ _ _ _ (VQ c) (VQ lenq) E1 E2 eq_refl eq_refl). unfold cprim1. cbn [String.eqb Ascii.eqb Bool.eqb].
  unfold cprim0. cbn [String.eqb Ascii.eqb Bool.eqb qdiv_prim as_Q]. rewrite lenq_zero.
  replace (N =? 0)%nat with false by (symmetry; apply Nat.eqb_neq; lia). reflexivity.
Qed.

(* FER without a pH: (positive + negative + prolines) over the length *)
Lemma count_P (l : list aa) : count_substr1 "P"%char (map aa_char l) = cnt (aa_eqb Pro) l.
Proof. induction l as [|a l IH]; [reflexivity|]. cbn [map count_substr1 cnt]. rewrite IH. destruct a; reflexivity. Qed.

Theorem FER_tie (sq : list aa) r : List.length sq = N -> lookup "self.len" r = VInt (Z.of_nat N) -> lookup "pH" r = VNone -> lookup "self.seq" r = VStr (map aa_char sq) ->
  MiniPy.exec cprim1 0 g_FER r = frac (npos p + nneg p + cnt (aa_eqb Pro) sq).
Proof.
  intros Hsq Hl Hph Hs. unfold g_FER.
  assert (T : truthy (MiniPy.eval cprim1 (ENe (EVar "pH") (EConst VNone)) r) = VBool false) by (cbn [MiniPy.eval]; rewrite Hph; reflexivity).
  rewrite (exec_if_false _ _ _ _ T). apply quot_run; [exact Hl|].
  apply eval_add_int; [apply eval_add_int; rewrite eval_call0; [apply call_pos | apply call_neg]|].
  cbn [MiniPy.eval]. rewrite Hs. cbn [bad2 list_ascii_of_string]. now rewrite count_P.
Qed.

(* FER with a pH: (total charge from the oracle + prolines) over the length *)
Theorem FER_pH_tie (sq : list aa) (ph c : Q) r : List.length sq = N -> (1 <= N)%nat -> lookup "self.len" r = VInt (Z.of_nat N) -> lookup "pH" r = VQ ph ->
  lookup "self.seq" r = VStr (map aa_char sq) -> cap [VQ ph; VStr (list_ascii_of_string "TOTAL")] = VQ c ->
  MiniPy.exec cprim1 0 g_FER r = ORet (VQ (Qred (Qred (c + inject_Z (cnt (aa_eqb Pro) sq)) / lenq))).
Proof.
  intros Hsq HN Hl Hph Hs Hc. unfold g_FER.
  assert (T : truthy (MiniPy.eval cprim1 (ENe (EVar "pH") (EConst VNone)) r) = VBool true) by (cbn [MiniPy.eval]; rewrite Hph; reflexivity).
  rewrite (exec_if_true _ _ _ _ T). apply exec_return_ok; [|reflexivity].
  assert (E1 : MiniPy.eval cprim1 (ECall "charge_at_pH|mode" [EVar "pH"; EConst (VStr (list_ascii_of_string "TOTAL"))]) r = VQ c).
  { rewrite (eval_call2 _ _ _ _ (VQ ph) (VStr (list_ascii_of_string "TOTAL")) (eq_trans (eval_var _ _) Hph) (eval_const _ _) eq_refl eq_refl).
    unfold cprim1. cbn [String.eqb Ascii.eqb Bool.eqb]. exact Hc. }
  assert (Ep : MiniPy.eval cprim1 (ECount (EVar "self.seq") (EConst (VStr (list_ascii_of_string "P")))) r = VInt (cnt (aa_eqb Pro) sq)).
  { cbn [MiniPy.eval]. rewrite Hs. cbn [bad2 list_ascii_of_string]. now rewrite count_P. }
  assert (Es : MiniPy.eval cprim1 (EAdd (ECall "charge_at_pH|mode" [EVar "pH"; EConst (VStr (list_ascii_of_string "TOTAL"))]) (ECount (EVar "self.seq") (EConst (VStr (list_ascii_of_string "P"))))) r =
               VQ (Qred (c + inject_Z (cnt (aa_eqb Pro) sq)))) by (apply eval_add_Q_int; assumption).
  assert (E2 : MiniPy.eval cprim1 (EAdd (EVar "self.len") (EConst (VQ (0 # 1)))) r = VQ lenq) by (cbn [MiniPy.eval]; rewrite Hl; reflexivity).
  rewrite (eval_call2 _ _ _ _ _ (VQ lenq) Es E2 eq_refl eq_refl). unfold cprim1. cbn [String.eqb Ascii.eqb Bool.eqb].
  unfold cprim0. cbn [String.eqb Ascii.eqb Bool.eqb qdiv_prim as_Q]. rewrite lenq_zero.
  replace (N =? 0)%nat with false by (symmetry; apply Nat.eqb_neq; lia). reflexivity.
Qed.

(* the fractions as rationals *)
Lemma frac_value c : (1 <= N)%nat -> (Qred (inject_Z c / lenq) == c # Pos.of_nat N)%Q.
Proof.
  intros H. unfold lenq. rewrite !Qred_correct. unfold Qeq, Qdiv, Qmult, Qinv, Qplus, inject_Z. cbn.
  destruct N as [|n]; [lia|]. cbn. rewrite Pos.of_nat_succ. destruct c; cbn; lia.
Qed.

(* mean_net_charge: abs(self.NCPR(pH)); the call of NCPR is interpreted by RUNNING its translated body *)
Definition abs_prim (args : list value) : value :=
  match args with [VInt z] => VInt (Z.abs z) | [VQ q] => VQ (Qred (Qabs q)) | _ => VErr end.
Definition cprim2 (name : string) (args : list value) : value :=
  if String.eqb name "abs" then abs_prim args
  else if String.eqb name "NCPR" then
    match args with [ph] => match MiniPy.exec cprim1 0 g_NCPR (("pH"%string, ph) :: ("self.len"%string, VInt (Z.of_nat N)) :: c_env) with ORet v => v | ORaise => VExc | _ => VErr end | _ => VErr end
  else VErr.
Theorem mean_net_charge_tie r : lookup "pH" r = VNone -> (1 <= N)%nat ->
  MiniPy.exec cprim2 0 g_mean_net_charge r = ORet (VQ (Qred (Qabs (Qred (inject_Z (npos p - nneg p) / lenq))))).
Proof.
  intros Hph HN. unfold g_mean_net_charge. apply exec_return_ok; [|reflexivity].
  rewrite (eval_call1 _ _ _ (VQ (Qred (inject_Z (npos p - nneg p) / lenq)))); [reflexivity | | reflexivity].
  rewrite (eval_call1 _ _ _ VNone); [| rewrite eval_var; exact Hph | reflexivity].
  unfold cprim2. cbn [String.eqb Ascii.eqb Bool.eqb]. rewrite NCPR_tie by reflexivity.
  unfold frac. destruct N; [lia | reflexivity].
Qed.
Theorem mean_net_charge_pH_tie (ph c : Q) r : lookup "pH" r = VQ ph -> cap [VQ ph] = VQ c -> (1 <= N)%nat ->
  exists v, MiniPy.exec cprim1 0 g_NCPR (("pH"%string, VQ ph) :: ("self.len"%string, VInt (Z.of_nat N)) :: c_env) = ORet (VQ v) /\
            MiniPy.exec cprim2 0 g_mean_net_charge r = ORet (VQ (Qred (Qabs v))).
Proof.
  intros Hph Hc HN. pose proof (NCPR_pH_tie ph c (("pH"%string, VQ ph) :: ("self.len"%string, VInt (Z.of_nat N)) :: c_env) eq_refl eq_refl Hc HN) as E.
  eexists. split; [exact E|]. unfold g_mean_net_charge. apply exec_return_ok; [|reflexivity].
  erewrite (eval_call1 _ _ _ (VQ _)); [reflexivity | | reflexivity].
  rewrite (eval_call1 _ _ _ (VQ ph)); [| rewrite eval_var; exact Hph | reflexivity].
  unfold cprim2. cbn [String.eqb Ascii.eqb Bool.eqb]. rewrite E. reflexivity.
Qed.
End Counts.
Print Assumptions mean_net_charge_tie.
Print Assumptions mean_net_charge_pH_tie.
Print Assumptions countNeut_tie.
Print Assumptions NCPR_tie.
Print Assumptions FCR_pH_tie.
Print Assumptions FER_tie.
Print Assumptions FER_pH_tie.

(* ---------- the public getters (SequenceParameters) are exactly a return of the backend call with their own arguments ---------- *)
Lemma fw_get_countPos : g_fw_get_countPos = SReturn (ECall "SeqObj.countPos"%string []). Proof. reflexivity. Qed.
Lemma fw_get_countNeg : g_fw_get_countNeg = SReturn (ECall "SeqObj.countNeg"%string []). Proof. reflexivity. Qed.
Lemma fw_get_countNeut : g_fw_get_countNeut = SReturn (ECall "SeqObj.countNeut"%string []). Proof. reflexivity. Qed.
Lemma fw_get_fraction_positive : g_fw_get_fraction_positive = SReturn (ECall "SeqObj.Fplus"%string []). Proof. reflexivity. Qed.
Lemma fw_get_fraction_negative : g_fw_get_fraction_negative = SReturn (ECall "SeqObj.Fminus"%string []). Proof. reflexivity. Qed.
Lemma fw_get_mean_hydropathy : g_fw_get_mean_hydropathy = SReturn (ECall "SeqObj.meanHydropathy"%string []). Proof. reflexivity. Qed.
Lemma fw_get_uversky_hydropathy : g_fw_get_uversky_hydropathy = SReturn (ECall "SeqObj.uverskyHydropathy"%string []). Proof. reflexivity. Qed.
Lemma fw_get_WW_hydropathy : g_fw_get_WW_hydropathy = SReturn (ECall "SeqObj.meanWWHydropathy"%string []). Proof. reflexivity. Qed.
Lemma fw_get_fraction_disorder_promoting : g_fw_get_fraction_disorder_promoting = SReturn (ECall "SeqObj.fraction_disorder_promoting"%string []). Proof. reflexivity. Qed.
Lemma fw_get_amino_acid_fractions : g_fw_get_amino_acid_fractions = SReturn (ECall "SeqObj.amino_acid_fraction"%string []). Proof. reflexivity. Qed.
Lemma fw_get_molecular_weight : g_fw_get_molecular_weight = SReturn (ECall "SeqObj.molecular_weight"%string []). Proof. reflexivity. Qed.
Lemma fw_get_PPII_propensity : g_fw_get_PPII_propensity = SReturn (ECall "SeqObj.FPPII_chain"%string [EVar "mode"%string]). Proof. reflexivity. Qed.
Lemma fw_get_length : g_fw_get_length = SReturn (ELen (EVar "self.SeqObj.seq"%string)). Proof. reflexivity. Qed.
Lemma fw_get_sequence : g_fw_get_sequence = SReturn (EVar "self.SeqObj.seq"%string). Proof. reflexivity. Qed.
