(* Tie (C01, C02) — SEMANTIC: Sequence.sigma, deltaForm, delta and kappa, translated from the working tree on every run
   into Core.MiniPy terms.  Every `a / b` of these four functions is the primitive "qdiv" (exact rational division: float
   arithmetic read as exact, the abstraction of Model/Delta.v); x ** 2 is "pow".  self.sigma() / self.deltaForm(w) /
   self.delta() and — below them — self.NCPR() / self.FCR() / self.countPos() / countNeg() / countNeut() are interpreted by
   RUNNING their translated bodies, so the chain ends at the charge pattern; deltaMax is an ORACLE.  For EVERY charge pattern the translated code returns
   exactly Model.Delta.m_sigma / m_deltaForm / m_delta, and kappa's sentinel / clamp decisions are the model's. *)
From Coq Require Import List String Ascii ZArith QArith Qreduction Bool Arith Lia.
From LC Require Import Core.Residue Core.Lists Core.QTools Core.MiniPy Spec.Delta Model.Delta Gen.GMiniPy.
Import ListNotations.
Local Open Scope Z_scope.

Notation VN k := (VInt (Z.of_nat k)).
Ltac lk := repeat (rewrite lookup_set_eq || rewrite lookup_set_neq by reflexivity).

Section DeltaTie.
Variable p : list Z.                  (* self.chargePattern *)
Local Notation N := (List.length p).

(* arithmetic primitives *)
Definition prim00 (name : string) (args : list value) : value :=
  if String.eqb name "qdiv" then
    match args with
    | [a; b] => match as_Q a, as_Q b with
                | Some x, Some y => if Qeq_bool y 0 then VExc else VQ (Qred (x / y))
                | _, _ => VErr
                end
    | _ => VErr
    end
  else if String.eqb name "pow" then
    match args with
    | [VInt a; VInt 2] => VInt (a * a)
    | [VQ q; VInt 2] => VQ (Qred (q * q))
    | _ => VErr
    end
  else VErr.

(* self.countPos() / countNeg() / countNeut() are interpreted by RUNNING their translated bodies on the pattern *)
Definition cnt_env : env := [("self.chargePattern"%string, VList (map VInt p))].
Definition run_cnt (g : stmt) : value := match MiniPy.exec prim00 0 g cnt_env with ORet v => v | ORaise => VExc | _ => VErr end.
Definition primA (name : string) (args : list value) : value :=
  if String.eqb name "countPos" then match args with [] => run_cnt g_countPos | _ => VErr end
  else if String.eqb name "countNeg" then match args with [] => run_cnt g_countNeg | _ => VErr end
  else if String.eqb name "countNeut" then match args with [] => run_cnt g_countNeut | _ => VErr end
  else prim00 name args.
(* self.NCPR() / self.FCR() (no pH) are interpreted by RUNNING their translated bodies *)
Definition frac_env : env := [("self.len"%string, VInt (len p)); ("pH"%string, VNone)].
Definition run_frac (g : stmt) : value := match MiniPy.exec primA 0 g frac_env with ORet v => v | ORaise => VExc | _ => VErr end.
Definition prim0 (name : string) (args : list value) : value :=
  if String.eqb name "NCPR" then match args with [] => run_frac g_NCPR | _ => VErr end
  else if String.eqb name "FCR" then match args with [] => run_frac g_FCR | _ => VErr end
  else primA name args.

Lemma enum_len0 prim cond (f : Z -> bool) r :
  (forall z k, truthy (MiniPy.eval prim cond (set "$x" (VInt z) (set "$i" (VInt k) r))) = VBool (f z)) ->
  forall zs k, exists l, enum_list prim "$i" "$x" cond (EVar "$i") k (map VInt zs) r = VList l /\ Z.of_nat (List.length l) = cnt f zs.
Proof.
  intros Hc. induction zs as [|z zs IH]; intros k; [exists []; split; reflexivity|].
  cbn [map enum_list cnt]. rewrite Hc. destruct (IH (k + 1)) as [l [E Hl]]. rewrite E. destruct (f z).
  - cbn [MiniPy.eval]. rewrite lookup_set_neq by reflexivity. rewrite lookup_set_eq. cbn [is_bad].
    exists (VInt k :: l). split; [reflexivity|]. cbn [List.length]. lia.
  - exists l. split; [reflexivity | lia].
Qed.
Lemma count_where cond f : (forall z k r, truthy (MiniPy.eval prim00 cond (set "$x" (VInt z) (set "$i" (VInt k) r))) = VBool (f z)) ->
  run_cnt (SReturn (ELen (EEnumFilter "$i" "$x" cond (EVar "$i") (EVar "self.chargePattern")))) = VInt (cnt f p).
Proof.
  intros Hc. unfold run_cnt. rewrite (exec_return_ok _ _ (VInt (cnt f p))); [reflexivity | | reflexivity].
  change (MiniPy.eval prim00 (ELen ?a) cnt_env) with (match MiniPy.eval prim00 a cnt_env with VStr s0 => VInt (Z.of_nat (List.length s0)) | VList l => VInt (Z.of_nat (List.length l))
                                      | VDict d => VInt (Z.of_nat (List.length d)) | VExc => VExc | _ => VErr end).
  rewrite eval_enumfilter. cbn [MiniPy.eval lookup cnt_env String.eqb Ascii.eqb Bool.eqb elements].
  destruct (enum_len0 prim00 cond f cnt_env (fun z k => Hc z k cnt_env) p 0) as [l [E Hl]]. rewrite E. now rewrite Hl.
Qed.
Lemma call_pos : primA "countPos" [] = VInt (npos p).
Proof.
  unfold primA. cbn [String.eqb Ascii.eqb Bool.eqb]. apply (count_where _ isposb).
  intros z k r. cbn [MiniPy.eval]. rewrite lookup_set_eq. cbn [cmp_int bad2 truthy]. unfold isposb. now rewrite Z.gtb_ltb.
Qed.
Lemma call_neg : primA "countNeg" [] = VInt (nneg p).
Proof. unfold primA. cbn [String.eqb Ascii.eqb Bool.eqb]. apply (count_where _ isnegb). intros z k r. cbn [MiniPy.eval]. rewrite lookup_set_eq. reflexivity. Qed.
Lemma three_way (l : list Z) : cnt (fun z => z =? 0) l = len l - npos l - nneg l.
Proof.
  unfold len, npos, nneg. induction l as [|z l IH]; [reflexivity|]. cbn [cnt List.length]. rewrite IH. unfold isposb, isnegb.
  destruct (Z.eqb_spec z 0), (Z.ltb_spec 0 z), (Z.ltb_spec z 0); lia.
Qed.
Lemma call_neut : primA "countNeut" [] = VInt (nneut p).
Proof.
  unfold primA. cbn [String.eqb Ascii.eqb Bool.eqb]. unfold nneut. rewrite <- three_way. apply (count_where _ (fun z => z =? 0)).
  intros z k r. cbn [MiniPy.eval]. rewrite lookup_set_eq. reflexivity.
Qed.

Definition lenq : Q := Qred (inject_Z (len p) + 0).
Lemma lenq_zero : Qeq_bool lenq 0 = (len p =? 0).
Proof.
  unfold lenq, len. destruct (Z.eqb_spec (Z.of_nat N) 0) as [E|E].
  - rewrite E. reflexivity.
  - apply not_true_is_false. intros C. apply Qeq_bool_iff in C. rewrite Qred_correct in C. unfold Qeq, Qplus, inject_Z in C. cbn in C. lia.
Qed.
Lemma frac_call (g : stmt) (a : stmt) (e : expr) c : g = SIf (ENe (EVar "pH") (EConst VNone)) a (SReturn (ECall "qdiv" [e; EAdd (EVar "self.len") (EConst (VQ (0 # 1)))])) ->
  MiniPy.eval primA e frac_env = VInt c -> len p <> 0 -> run_frac g = VQ (Qred (inject_Z c / lenq)).
Proof.
  intros -> He Hn. unfold run_frac.
  assert (T : truthy (MiniPy.eval primA (ENe (EVar "pH") (EConst VNone)) frac_env) = VBool false) by reflexivity.
  rewrite (exec_if_false _ _ _ _ T).
  assert (E2 : MiniPy.eval primA (EAdd (EVar "self.len") (EConst (VQ (0 # 1)))) frac_env = VQ lenq) by reflexivity.
  rewrite (exec_return_ok _ _ (VQ (Qred (inject_Z c / lenq)))); [reflexivity | | reflexivity].
  rewrite (eval_call2 _ _ _ _ (VInt c) (VQ lenq) He E2 eq_refl eq_refl). unfold primA. cbn [String.eqb Ascii.eqb Bool.eqb].
  unfold prim00. cbn [String.eqb Ascii.eqb Bool.eqb as_Q]. rewrite lenq_zero. now replace (len p =? 0) with false by (symmetry; apply Z.eqb_neq; exact Hn).
Qed.
Lemma call_ncpr : len p <> 0 -> prim0 "NCPR" [] = VQ (Qred (inject_Z (npos p - nneg p) / lenq)).
Proof.
  intros Hn. unfold prim0. cbn [String.eqb Ascii.eqb Bool.eqb].
  apply (frac_call g_NCPR _ (ESub (ECall "countPos" []) (ECall "countNeg" [])) _ eq_refl); [|exact Hn].
  apply eval_sub_int; [rewrite eval_call0; apply call_pos | rewrite eval_call0; apply call_neg].
Qed.
Lemma call_fcr : len p <> 0 -> prim0 "FCR" [] = VQ (Qred (inject_Z (npos p + nneg p) / lenq)).
Proof.
  intros Hn. unfold prim0. cbn [String.eqb Ascii.eqb Bool.eqb].
  apply (frac_call g_FCR _ (EAdd (ECall "countPos" []) (ECall "countNeg" [])) _ eq_refl); [|exact Hn].
  apply eval_add_int; [rewrite eval_call0; apply call_pos | rewrite eval_call0; apply call_neg].
Qed.
Lemma frac_eq c : len p <> 0 -> (Qred (inject_Z c / lenq) == c # Z.to_pos (len p))%Q.
Proof.
  intros Hn. unfold lenq, len in *. rewrite !Qred_correct. unfold Qeq, Qdiv, Qmult, Qinv, Qplus, inject_Z. cbn.
  destruct N as [|n]; [cbn in Hn; lia|]. cbn. destruct c; cbn; lia.
Qed.

(* ---------- sigma ---------- *)
Definition sigma_val : value := if nneut p =? len p then VInt 0 else VQ (m_sigma p).

Lemma pos_Q (x : Z) (d : positive) : 0 < x -> ~ (x # d == 0)%Q.
Proof. intros H E. unfold Qeq in E. cbn in E. lia. Qed.

Theorem sigma_tie r : lookup "self.len" r = VInt (len p) -> MiniPy.exec prim0 0 g_sigma r = ORet sigma_val.
Proof.
  intros Hl. unfold g_sigma, sigma_val.
  assert (Ecn : MiniPy.eval prim0 (ECall "countNeut" []) r = VInt (nneut p)).
  { rewrite eval_call0. unfold prim0. cbn [String.eqb Ascii.eqb Bool.eqb]. apply call_neut. }
  assert (T : truthy (MiniPy.eval prim0 (EEq (ECall "countNeut" []) (EVar "self.len")) r) = VBool (nneut p =? len p)).
  { rewrite (eval_eq_int _ _ _ (nneut p) (len p)); [reflexivity | exact Ecn | rewrite eval_var; exact Hl]. }
  destruct (nneut p =? len p) eqn:Ez.
  - rewrite (exec_if_true _ _ _ _ T). reflexivity.
  - rewrite (exec_if_false _ _ _ _ T). apply exec_return_ok; [|reflexivity].
    assert (Hpn : 0 < npos p + nneg p).
    { apply Z.eqb_neq in Ez. unfold nneut in Ez. pose proof (cnt_nonneg isposb p). pose proof (cnt_nonneg isnegb p). unfold npos, nneg in *. lia. }
    assert (Hn : len p <> 0).
    { pose proof (cnt_le_length isposb p). pose proof (cnt_le_length isnegb p). unfold npos, nneg, len in *. lia. }
    set (nc := Qred (inject_Z (npos p - nneg p) / lenq)). set (fc := Qred (inject_Z (npos p + nneg p) / lenq)).
    assert (Enc : MiniPy.eval prim0 (ECall "NCPR" []) r = VQ nc) by (rewrite eval_call0; apply call_ncpr; exact Hn).
    assert (Efc : MiniPy.eval prim0 (ECall "FCR" []) r = VQ fc) by (rewrite eval_call0; apply call_fcr; exact Hn).
    assert (Ep : MiniPy.eval prim0 (ECall "pow" [ECall "NCPR" []; EConst (VInt 2)]) r = VQ (Qred (nc * nc))).
    { rewrite (eval_call2 _ _ _ _ (VQ nc) (VInt 2) Enc (eval_const _ _) eq_refl eq_refl). reflexivity. }
    rewrite (eval_call2 _ _ _ _ (VQ (Qred (nc * nc))) (VQ fc) Ep Efc eq_refl eq_refl).
    unfold prim0. cbn [String.eqb Ascii.eqb Bool.eqb]. unfold primA. cbn [String.eqb Ascii.eqb Bool.eqb]. unfold prim00. cbn [String.eqb Ascii.eqb Bool.eqb as_Q].
    assert (Hf : Qeq_bool fc 0 = false).
    { apply not_true_is_false. intros E. apply Qeq_bool_iff in E. unfold fc in E. rewrite (frac_eq _ Hn) in E. revert E. apply pos_Q. exact Hpn. }
    rewrite Hf. unfold m_sigma. rewrite Ez. f_equal. apply Qred_complete. unfold nc, fc. rewrite Qred_correct, !(frac_eq _ Hn). reflexivity.
Qed.

(* ---------- deltaForm ---------- *)
(* self.sigma() is interpreted by RUNNING the translated sigma *)
Definition prim1 (name : string) (args : list value) : value :=
  if String.eqb name "sigma" then
    match args with
    | [] => match MiniPy.exec prim0 0 g_sigma [("self.len"%string, VInt (len p))] with ORet v => v | ORaise => VExc | _ => VErr end
    | _ => VErr
    end
  else prim0 name args.
Local Notation exec := (MiniPy.exec prim1 0).
Local Notation eval := (MiniPy.eval prim1).

Lemma sigma_call : prim1 "sigma" [] = sigma_val.
Proof. unfold prim1. cbn [String.eqb Ascii.eqb Bool.eqb]. now rewrite (sigma_tie [("self.len"%string, VInt (len p))] eq_refl). Qed.
Lemma sigma_asQ : as_Q sigma_val = Some (m_sigma p).
Proof. unfold sigma_val, m_sigma. destruct (nneut p =? len p); reflexivity. Qed.

Variable w : nat.
Hypothesis Hw : (1 <= w)%nat.
Definition wq : Q := Qred (inject_Z (Z.of_nat w) + 0).
Lemma wq_pos_eq (x : Z) : (inject_Z x / wq == x # Z.to_pos (Z.of_nat w))%Q.
Proof.
  unfold wq. rewrite Qred_correct. unfold Qeq, Qdiv, Qmult, Qinv, Qplus, inject_Z. cbn.
  destruct w as [|w']; [lia|]. cbn. destruct x; cbn; lia.
Qed.
Lemma wq_nonzero : Qeq_bool wq 0 = false.
Proof.
  apply not_true_is_false. intros E. apply Qeq_bool_iff in E. unfold wq in E. rewrite Qred_correct in E.
  unfold Qeq, Qplus, inject_Z in E. cbn in E. lia.
Qed.

Lemma enum_len cond (f : Z -> bool) r :
  (forall z k, truthy (eval cond (set "$x" (VInt z) (set "$i" (VInt k) r))) = VBool (f z)) ->
  forall zs k, exists l, enum_list prim1 "$i" "$x" cond (EVar "$i") k (map VInt zs) r = VList l /\ Z.of_nat (List.length l) = cnt f zs.
Proof.
  intros Hc. induction zs as [|z zs IH]; intros k; [exists []; split; reflexivity|].
  cbn [map enum_list cnt]. rewrite Hc. destruct (IH (k + 1)) as [l [E Hl]]. rewrite E. destruct (f z).
  - cbn [MiniPy.eval]. rewrite lookup_set_neq by reflexivity. rewrite lookup_set_eq. cbn [is_bad].
    exists (VInt k :: l). split; [reflexivity|]. cbn [List.length]. lia.
  - exists l. split; [reflexivity | lia].
Qed.
Lemma count_pos b r : lookup "blob" r = VList (map VInt b) ->
  eval (ELen (EEnumFilter "$i" "$x" (EGt (EVar "$x") (EConst (VInt 0))) (EVar "$i") (EVar "blob"))) r = VInt (npos b).
Proof.
  intros Hb. change (eval (ELen ?a) r) with (match eval a r with VStr s0 => VInt (Z.of_nat (List.length s0)) | VList l => VInt (Z.of_nat (List.length l))
                                      | VDict d => VInt (Z.of_nat (List.length d)) | VExc => VExc | _ => VErr end).
  rewrite eval_enumfilter, eval_var, Hb. cbn [elements].
  destruct (enum_len (EGt (EVar "$x") (EConst (VInt 0))) isposb r) with (zs := b) (k := 0) as [l [E Hl]].
  { intros z k. cbn [MiniPy.eval]. rewrite lookup_set_eq. cbn [cmp_int bad2 truthy]. unfold isposb. now rewrite Z.gtb_ltb. }
  rewrite E. now rewrite Hl.
Qed.
Lemma count_neg b r : lookup "blob" r = VList (map VInt b) ->
  eval (ELen (EEnumFilter "$i" "$x" (ELt (EVar "$x") (EConst (VInt 0))) (EVar "$i") (EVar "blob"))) r = VInt (nneg b).
Proof.
  intros Hb. change (eval (ELen ?a) r) with (match eval a r with VStr s0 => VInt (Z.of_nat (List.length s0)) | VList l => VInt (Z.of_nat (List.length l))
                                      | VDict d => VInt (Z.of_nat (List.length d)) | VExc => VExc | _ => VErr end).
  rewrite eval_enumfilter, eval_var, Hb. cbn [elements].
  destruct (enum_len (ELt (EVar "$x") (EConst (VInt 0))) isnegb r) with (zs := b) (k := 0) as [l [E Hl]].
  { intros z k. cbn [MiniPy.eval]. rewrite lookup_set_eq. reflexivity. }
  rewrite E. now rewrite Hl.
Qed.

Lemma blob_slice i : (i + w <= N)%nat ->
  (match slice_bounds (List.length (map VInt p)) (VN i) (VInt (Z.of_nat i + Z.of_nat w)) with
   | Some (a, b) => VList (firstn (b - a) (skipn a (map VInt p)))
   | None => VErr end) = VList (map VInt (firstn w (skipn i p))).
Proof.
  intros H. unfold slice_bounds, clip. rewrite map_length.
  replace (Z.of_nat i <? 0) with false by (symmetry; apply Z.ltb_ge; lia).
  replace (Z.of_nat i + Z.of_nat w <? 0) with false by (symmetry; apply Z.ltb_ge; lia).
  replace (Z.to_nat (Z.max 0 (Z.min (Z.of_nat N) (Z.of_nat i)))) with i by lia.
  replace (Z.to_nat (Z.max 0 (Z.min (Z.of_nat N) (Z.of_nat i + Z.of_nat w)))) with (i + w)%nat by lia.
  replace (i + w - i)%nat with w by lia. now rewrite skipn_map, firstn_map.
Qed.

Lemma eval_qdiv_int (e1 : expr) d r : eval e1 r = VInt d -> lookup "bloblen" r = VN w ->
  eval (ECall "qdiv" [e1; EAdd (EVar "bloblen") (EConst (VQ (0 # 1)))]) r = VQ (Qred (inject_Z d / wq)).
Proof.
  intros H1 Hb.
  assert (E2 : eval (EAdd (EVar "bloblen") (EConst (VQ (0 # 1)))) r = VQ wq) by (cbn [MiniPy.eval]; rewrite Hb; reflexivity).
  rewrite (eval_call2 _ _ _ _ (VInt d) (VQ wq) H1 E2 eq_refl eq_refl).
  unfold prim1. cbn [String.eqb Ascii.eqb Bool.eqb]. unfold prim0; cbn [String.eqb Ascii.eqb Bool.eqb]; unfold primA; cbn [String.eqb Ascii.eqb Bool.eqb]; unfold prim00; cbn [String.eqb Ascii.eqb Bool.eqb as_Q]. now rewrite wq_nonzero.
Qed.

(* the blob sigma as a value: VInt 0 when the window is uncharged, else the model's rational *)
Definition bsig_val (b : list Z) : value := if npos b + nneg b =? 0 then VInt 0 else VQ (m_bsigma (Z.of_nat w) b).
Lemma bsig_asQ b : as_Q (bsig_val b) = Some (m_bsigma (Z.of_nat w) b).
Proof. unfold bsig_val, m_bsigma. destruct (npos b + nneg b =? 0); reflexivity. Qed.

Definition df_spine : list stmt := Eval vm_compute in spine g_deltaForm.
Definition df_body : stmt := Eval vm_compute in match nth 3 df_spine SSkip with SFor _ _ b => b | _ => SSkip end.
Definition df_bspine : list stmt := Eval vm_compute in spine df_body.
Lemma df_parts : df_spine = [SAssign "sigma" (ECall "sigma" []); SAssign "nblobs" (EAdd (ESub (EVar "self.len") (EVar "bloblen")) (EConst (VInt 1)));
                             SAssign "ans" (EConst (VInt 0)); SFor "i" (ERange (EConst (VInt 0)) (EVar "nblobs")) df_body; SReturn (EVar "ans")].
Proof. reflexivity. Qed.

(* the statements of one iteration up to and including bsig *)
Lemma df_bsig i r : (i + w <= N)%nat ->
  lookup "self.chargePattern" r = VList (map VInt p) -> lookup "bloblen" r = VN w -> lookup "i" r = VN i ->
  let b := firstn w (skipn i p) in
  exists r', MiniPy.exec_list prim1 0 (firstn 6 df_bspine) r = ONorm r' /\ lookup "bsig" r' = bsig_val b /\
    (forall x, String.eqb x "blob" = false -> String.eqb x "bpos" = false -> String.eqb x "bneg" = false -> String.eqb x "bncpr" = false ->
               String.eqb x "bfcr" = false -> String.eqb x "bsig" = false -> lookup x r' = lookup x r).
Proof.
  intros Hi Hp Hb Hii b. cbn [firstn df_bspine].
  assert (Es : eval (ESlice (EVar "self.chargePattern") (EVar "i") (EAdd (EVar "i") (EVar "bloblen"))) r = VList (map VInt b)).
  { rewrite (eval_slice_list _ _ _ _ (map VInt p) (Z.of_nat i) (Z.of_nat i + Z.of_nat w)).
    - apply blob_slice. exact Hi.
    - rewrite eval_var. exact Hp.
    - rewrite eval_var. exact Hii.
    - apply eval_add_int; rewrite eval_var; assumption. }
  rewrite exec_list_cons, (exec_assign_ok _ _ _ _ Es eq_refl).
  rewrite exec_list_cons, (exec_assign_ok _ _ _ _ (count_pos b _ (lookup_set_eq _ _ _)) eq_refl).
  rewrite exec_list_cons, (exec_assign_ok _ _ _ (VInt (nneg b))); [| apply count_neg; lk; reflexivity | reflexivity].
  set (r3 := set "bneg" _ _).
  set (nq := Qred (inject_Z (npos b - nneg b) / wq)). set (fq := Qred (inject_Z (npos b + nneg b) / wq)).
  assert (En : eval (ECall "qdiv" [ESub (EVar "bpos") (EVar "bneg"); EAdd (EVar "bloblen") (EConst (VQ (0 # 1)))]) r3 = VQ nq).
  { apply eval_qdiv_int; [| unfold r3; lk; exact Hb]. apply eval_sub_int; rewrite eval_var; unfold r3; lk; reflexivity. }
  rewrite exec_list_cons, (exec_assign_ok _ _ _ _ En eq_refl).
  set (r4 := set "bncpr" (VQ nq) r3).
  assert (Ef : eval (ECall "qdiv" [EAdd (EVar "bpos") (EVar "bneg"); EAdd (EVar "bloblen") (EConst (VQ (0 # 1)))]) r4 = VQ fq).
  { apply eval_qdiv_int; [| unfold r4, r3; lk; exact Hb]. apply eval_add_int; rewrite eval_var; unfold r4, r3; lk; reflexivity. }
  rewrite exec_list_cons, (exec_assign_ok _ _ _ _ Ef eq_refl).
  set (r5 := set "bfcr" (VQ fq) r4).
  assert (Hz : Qeq_bool fq 0 = (npos b + nneg b =? 0)).
  { unfold fq. destruct (Z.eqb_spec (npos b + nneg b) 0) as [E|E].
    - rewrite E. apply Qeq_bool_iff. rewrite Qred_correct, wq_pos_eq. reflexivity.
    - apply not_true_is_false. intros C. apply Qeq_bool_iff in C. rewrite Qred_correct, wq_pos_eq in C. unfold Qeq in C. cbn in C. lia. }
  assert (Tz : truthy (eval (EEq (EVar "bfcr") (EConst (VInt 0))) r5) = VBool (npos b + nneg b =? 0)).
  { cbn [MiniPy.eval]. unfold r5. lk. cbn [bad2 veqb truthy]. now rewrite <- Hz. }
  rewrite exec_list_cons. unfold bsig_val, m_bsigma. destruct (npos b + nneg b =? 0) eqn:Ez.
  - rewrite (exec_if_true _ _ _ _ Tz), (exec_assign_ok _ _ _ (VInt 0)) by reflexivity. cbn [MiniPy.exec_list].
    eexists. split; [reflexivity|]. lk. split; [reflexivity|].
    intros x X1 X2 X3 X4 X5 X6. unfold r5, r4, r3. now rewrite !lookup_set_neq by assumption.
  - rewrite (exec_if_false _ _ _ _ Tz).
    assert (Ev : eval (ECall "qdiv" [ECall "pow" [EVar "bncpr"; EConst (VInt 2)]; EVar "bfcr"]) r5 =
                 VQ (Qred (((npos b - nneg b) # Z.to_pos (Z.of_nat w)) * ((npos b - nneg b) # Z.to_pos (Z.of_nat w)) / ((npos b + nneg b) # Z.to_pos (Z.of_nat w))))).
    { assert (Ep : eval (ECall "pow" [EVar "bncpr"; EConst (VInt 2)]) r5 = VQ (Qred (nq * nq))).
      { rewrite (eval_call2 _ _ _ _ (VQ nq) (VInt 2)); [reflexivity | rewrite eval_var; unfold r5, r4; lk; reflexivity | reflexivity | reflexivity | reflexivity]. }
      rewrite (eval_call2 _ _ _ _ (VQ (Qred (nq * nq))) (VQ fq) Ep); [| rewrite eval_var; unfold r5; lk; reflexivity | reflexivity | reflexivity].
      unfold prim1. cbn [String.eqb Ascii.eqb Bool.eqb]. unfold prim0; cbn [String.eqb Ascii.eqb Bool.eqb]; unfold primA; cbn [String.eqb Ascii.eqb Bool.eqb]; unfold prim00; cbn [String.eqb Ascii.eqb Bool.eqb as_Q]. rewrite Hz.
      f_equal. apply Qred_complete. unfold nq, fq. rewrite !Qred_correct, !wq_pos_eq. reflexivity. }
    rewrite (exec_assign_ok _ _ _ _ Ev eq_refl). cbn [MiniPy.exec_list].
    eexists. split; [reflexivity|]. lk. split; [reflexivity|].
    intros x X1 X2 X3 X4 X5 X6. unfold r5, r4, r3. now rewrite !lookup_set_neq by assumption.
Qed.

(* numbers as values: an int or a tracked rational *)
Inductive numv : value -> Q -> Prop := NI z : numv (VInt z) (inject_Z z) | NQ q : numv (VQ q) q.
Lemma numv_asQ v q : numv v q -> as_Q v = Some q. Proof. intros []; reflexivity. Qed.
Lemma numv_ok v q : numv v q -> is_bad v = false. Proof. intros []; reflexivity. Qed.
Lemma sigma_num : numv sigma_val (m_sigma p).
Proof. unfold sigma_val, m_sigma. destruct (nneut p =? len p); [apply (NI 0) | apply NQ]. Qed.
Lemma bsig_num b : numv (bsig_val b) (m_bsigma (Z.of_nat w) b).
Proof. unfold bsig_val, m_bsigma. destruct (npos b + nneg b =? 0); [apply (NI 0) | apply NQ]. Qed.

Lemma eval_sub_num a b r v1 q1 v2 q2 : eval a r = v1 -> eval b r = v2 -> numv v1 q1 -> numv v2 q2 ->
  exists v3 q3, eval (ESub a b) r = v3 /\ numv v3 q3 /\ (q3 == q1 - q2)%Q.
Proof.
  intros Ha Hb H1 H2. destruct H1 as [z1|x1], H2 as [z2|x2].
  - exists (VInt (z1 - z2)), (inject_Z (z1 - z2)). split; [apply eval_sub_int; assumption|]. split; [constructor|].
    unfold Qeq, Qminus, Qplus, Qopp, inject_Z. cbn. lia.
  - exists (VQ (Qred (inject_Z z1 - x2))), (Qred (inject_Z z1 - x2)). split; [cbn [MiniPy.eval]; rewrite Ha, Hb; reflexivity|]. split; [constructor | apply Qred_correct].
  - exists (VQ (Qred (x1 - inject_Z z2))), (Qred (x1 - inject_Z z2)). split; [cbn [MiniPy.eval]; rewrite Ha, Hb; reflexivity|]. split; [constructor | apply Qred_correct].
  - exists (VQ (Qred (x1 - x2))), (Qred (x1 - x2)). split; [apply eval_sub_Q; assumption|]. split; [constructor | apply Qred_correct].
Qed.

Lemma pow_num v q : numv v q -> exists v' q', prim1 "pow" [v; VInt 2] = v' /\ numv v' q' /\ (q' == q * q)%Q.
Proof.
  intros [z|x].
  - exists (VInt (z * z)), (inject_Z (z * z)). split; [reflexivity|]. split; [constructor|]. unfold Qeq, Qmult, inject_Z. cbn. lia.
  - exists (VQ (Qred (x * x))), (Qred (x * x)). split; [reflexivity|]. split; [constructor | apply Qred_correct].
Qed.

Lemma qdiv_num v q nb : numv v q -> nb <> 0 -> prim1 "qdiv" [v; VInt nb] = VQ (Qred (q / inject_Z nb)).
Proof.
  intros H Hn. unfold prim1. cbn [String.eqb Ascii.eqb Bool.eqb]. unfold prim0; cbn [String.eqb Ascii.eqb Bool.eqb]; unfold primA; cbn [String.eqb Ascii.eqb Bool.eqb]; unfold prim00; cbn [String.eqb Ascii.eqb Bool.eqb].
  rewrite (numv_asQ _ _ H). cbn [as_Q].
  replace (Qeq_bool (inject_Z nb) 0) with false; [reflexivity|]. symmetry. apply not_true_is_false. intros E. apply Qeq_bool_iff in E.
  unfold Qeq, inject_Z in E. cbn in E. lia.
Qed.

Lemma eval_add_num a b r v1 q1 t : eval a r = v1 -> eval b r = VQ t -> numv v1 q1 -> eval (EAdd a b) r = VQ (Qred (q1 + t)).
Proof. intros Ha Hb H. destruct H as [z|x]; [apply eval_add_Q_int_l | apply eval_add_Q]; assumption. Qed.

(* ans += (sigma - bsig) ** 2 / nblobs *)
Lemma df_ans (b : list Z) (av : value) (a : Q) (nb : Z) r : nb <> 0 -> numv av a ->
  lookup "sigma" r = sigma_val -> lookup "bsig" r = bsig_val b -> lookup "ans" r = av -> lookup "nblobs" r = VInt nb ->
  exec (nth 6 df_bspine SSkip) r = ONorm (set "ans" (VQ (Qred (a + sqQ (m_sigma p - m_bsigma (Z.of_nat w) b) / inject_Z nb))) r).
Proof.
  intros Hn Ha Hs Hb Hav Hnb. cbn [nth df_bspine].
  destruct (eval_sub_num (EVar "sigma") (EVar "bsig") r _ _ _ _ (eq_trans (eval_var _ _) Hs) (eq_trans (eval_var _ _) Hb) sigma_num (bsig_num b)) as [dv [dq [Ed [Nd Qd]]]].
  destruct (pow_num dv dq Nd) as [pv [pq [Ep [Np Qp]]]].
  assert (Epow : eval (ECall "pow" [ESub (EVar "sigma") (EVar "bsig"); EConst (VInt 2)]) r = pv).
  { rewrite (eval_call2 _ _ _ _ dv (VInt 2) Ed (eval_const (VInt 2) r) (numv_ok _ _ Nd) eq_refl). exact Ep. }
  assert (Eq : eval (ECall "qdiv" [ECall "pow" [ESub (EVar "sigma") (EVar "bsig"); EConst (VInt 2)]; EVar "nblobs"]) r = VQ (Qred (pq / inject_Z nb))).
  { rewrite (eval_call2 _ _ _ _ pv (VInt nb) Epow (eq_trans (eval_var _ _) Hnb) (numv_ok _ _ Np) eq_refl). apply qdiv_num; assumption. }
  apply exec_assign_ok; [|reflexivity].
  rewrite (eval_add_num _ _ _ av a _ (eq_trans (eval_var _ _) Hav) Eq Ha). f_equal. apply Qred_complete.
  rewrite Qred_correct, Qp, Qd. unfold sqQ. reflexivity.
Qed.

Lemma df_bspine_split : df_bspine = firstn 6 df_bspine ++ [nth 6 df_bspine SSkip]. Proof. reflexivity. Qed.

Definition df_step (nb : Z) (ans : Q) (i : nat) : Q :=
  Qred (ans + sqQ (m_sigma p - m_bsigma (Z.of_nat w) (firstn w (skipn i p))) / inject_Z nb).

(* the loop: the model's fold, index by index *)
Lemma df_loop (nb : Z) : nb <> 0 -> forall (js : list nat) (av : value) (a : Q) r, numv av a ->
  (forall j, In j js -> (j + w <= N)%nat) ->
  lookup "self.chargePattern" r = VList (map VInt p) -> lookup "bloblen" r = VN w -> lookup "sigma" r = sigma_val ->
  lookup "nblobs" r = VInt nb -> lookup "ans" r = av ->
  exists r' av', MiniPy.run_loop prim1 0 "i" df_body (map (fun j => VInt (0 + Z.of_nat j)) js) r = ONorm r' /\
    lookup "ans" r' = av' /\ numv av' (fold_left (df_step nb) js a) /\ (js <> [] -> av' = VQ (fold_left (df_step nb) js a)).
Proof.
  intros Hn. induction js as [|j js IH]; intros av a r Ha Hin Hp Hb Hs Hnb Hav.
  - exists r, av. cbn [map MiniPy.run_loop fold_left]. repeat split; try assumption. congruence.
  - cbn [map MiniPy.run_loop fold_left].
    set (r0 := set "i" (VInt (0 + Z.of_nat j)) r).
    rewrite exec_spine. change (spine df_body) with df_bspine. rewrite df_bspine_split, exec_list_app.
    destruct (df_bsig j r0) as [r1 [E1 [Hbs Hfr]]].
    { apply Hin. now left. } { unfold r0. lk. exact Hp. } { unfold r0. lk. exact Hb. } { unfold r0. lk. reflexivity. }
    rewrite E1. rewrite exec_list_cons.
    rewrite (df_ans (firstn w (skipn j p)) av a nb r1 Hn Ha).
    2:{ rewrite Hfr by reflexivity. unfold r0. lk. exact Hs. } 2:{ exact Hbs. }
    2:{ rewrite Hfr by reflexivity. unfold r0. lk. exact Hav. } 2:{ rewrite Hfr by reflexivity. unfold r0. lk. exact Hnb. }
    cbn [MiniPy.exec_list]. fold (df_step nb a j).
    destruct (IH (VQ (df_step nb a j)) (df_step nb a j) (set "ans" (VQ (df_step nb a j)) r1)) as [r2 [av2 [E2 [H2 [N2 V2]]]]].
    { constructor. } { intros j' Hj'. apply Hin. now right. }
    { lk. rewrite Hfr by reflexivity. unfold r0. lk. exact Hp. } { lk. rewrite Hfr by reflexivity. unfold r0. lk. exact Hb. }
    { lk. rewrite Hfr by reflexivity. unfold r0. lk. exact Hs. } { lk. rewrite Hfr by reflexivity. unfold r0. lk. exact Hnb. } { lk. reflexivity. }
    exists r2, av2. split; [exact E2|]. split; [exact H2|]. split; [exact N2|]. intros _.
    destruct js as [|j2 js2]; [|apply V2; congruence].
    cbn [map MiniPy.run_loop] in E2. injection E2 as <-. rewrite lookup_set_eq in H2. now subst av2.
Qed.

(* deltaForm(w) on EVERY charge pattern, w >= 1: the model's value (the int 0 when there is no full window) *)
Theorem deltaForm_tie r : lookup "self.len" r = VInt (len p) -> lookup "self.chargePattern" r = VList (map VInt p) -> lookup "bloblen" r = VN w ->
  exec g_deltaForm r = ORet (if (w <=? N)%nat then VQ (m_deltaForm w p) else VInt 0).
Proof.
  intros Hl Hp Hb. rewrite exec_spine. change (spine g_deltaForm) with df_spine. rewrite df_parts.
  assert (Es : eval (ECall "sigma" []) r = sigma_val) by (rewrite eval_call0; apply sigma_call).
  rewrite exec_list_cons, (exec_assign_ok _ _ _ _ Es (numv_ok _ _ sigma_num)).
  set (r0 := set "sigma" sigma_val r).
  set (nb := len p - Z.of_nat w + 1).
  assert (En : eval (EAdd (ESub (EVar "self.len") (EVar "bloblen")) (EConst (VInt 1))) r0 = VInt nb).
  { apply eval_add_int; [| reflexivity]. apply eval_sub_int; rewrite eval_var; unfold r0; lk; assumption. }
  rewrite exec_list_cons, (exec_assign_ok _ _ _ _ En eq_refl).
  rewrite exec_list_cons, (exec_assign_ok _ _ _ (VInt 0)) by reflexivity.
  set (r2 := set "ans" (VInt 0) (set "nblobs" (VInt nb) r0)).
  rewrite exec_list_cons, exec_for.
  assert (Er : eval (ERange (EConst (VInt 0)) (EVar "nblobs")) r2 = VList (map (fun j => VInt (0 + Z.of_nat j)) (seq 0 (Z.to_nat nb)))).
  { rewrite (eval_range _ _ _ 0 nb); [now rewrite Z.sub_0_r | reflexivity | rewrite eval_var; unfold r2; lk; reflexivity]. }
  rewrite Er. cbn [elements]. unfold len in nb.
  destruct (Nat.leb_spec w N) as [Hle|Hgt].
  - assert (Hnb : nb <> 0) by (unfold nb; lia).
    destruct (df_loop nb Hnb (seq 0 (Z.to_nat nb)) (VInt 0) 0%Q r2) as [r3 [av3 [E3 [H3 [N3 V3]]]]].
    { apply (NI 0). } { intros j Hj. apply in_seq in Hj. unfold nb in Hj. lia. }
    { unfold r2, r0. lk. exact Hp. } { unfold r2, r0. lk. exact Hb. } { unfold r2, r0. lk. reflexivity. } { unfold r2. lk. reflexivity. } { unfold r2. lk. reflexivity. }
    rewrite E3, exec_list_cons. rewrite V3 in H3.
    2:{ intros C. apply (f_equal (@List.length _)) in C. rewrite seq_length in C. cbn in C. unfold nb in C. lia. }
    rewrite (exec_return_ok _ _ _ (eq_trans (eval_var _ _) H3) eq_refl). unfold m_deltaForm, len. fold nb. reflexivity.
  - replace (Z.to_nat nb) with 0%nat by (unfold nb; lia). cbn [seq map MiniPy.run_loop].
    rewrite exec_list_cons, (exec_return_ok _ _ (VInt 0)); [reflexivity | rewrite eval_var; unfold r2; lk; reflexivity | reflexivity].
Qed.
End DeltaTie.
Print Assumptions deltaForm_tie.
Print Assumptions sigma_tie.

(* ---------- delta and kappa ---------- *)
Lemma eval_add_num_gen prim a b r v1 q1 v2 q2 : MiniPy.eval prim a r = v1 -> MiniPy.eval prim b r = v2 -> numv v1 q1 -> numv v2 q2 ->
  exists v3 q3, MiniPy.eval prim (EAdd a b) r = v3 /\ numv v3 q3 /\ (q3 == q1 + q2)%Q.
Proof.
  intros Ha Hb H1 H2. destruct H1 as [z1|x1], H2 as [z2|x2].
  - exists (VInt (z1 + z2)), (inject_Z (z1 + z2)). split; [apply eval_add_int; assumption|]. split; [constructor|].
    unfold Qeq, Qplus, inject_Z. cbn. lia.
  - exists (VQ (Qred (inject_Z z1 + x2))), (Qred (inject_Z z1 + x2)). split; [apply eval_add_Q_int_l; assumption|]. split; [constructor | apply Qred_correct].
  - exists (VQ (Qred (x1 + inject_Z z2))), (Qred (x1 + inject_Z z2)). split; [apply eval_add_Q_int; assumption|]. split; [constructor | apply Qred_correct].
  - exists (VQ (Qred (x1 + x2))), (Qred (x1 + x2)). split; [apply eval_add_Q; assumption|]. split; [constructor | apply Qred_correct].
Qed.

Section DeltaKappa.
Variable p : list Z.
Variable dmv : value.                (* self.deltaMax(): an ORACLE (tied separately: deltamax_tie) *)
Local Notation N := (List.length p).

(* self.deltaForm(w) is interpreted by RUNNING the translated deltaForm *)
Definition prim2 (name : string) (args : list value) : value :=
  if String.eqb name "deltaForm" then
    match args with
    | [b] => match MiniPy.exec (prim1 p) 0 g_deltaForm
                     [("self.len"%string, VInt (len p)); ("self.chargePattern"%string, VList (map VInt p)); ("bloblen"%string, b)] with
             | ORet v => v | ORaise => VExc | _ => VErr end
    | _ => VErr
    end
  else prim1 p name args.

Definition df_val (w : nat) : value := if (w <=? N)%nat then VQ (m_deltaForm w p) else VInt 0.
Lemma df_call (w : nat) : (1 <= w)%nat -> prim2 "deltaForm" [VN w] = df_val w.
Proof.
  intros Hw. unfold prim2. cbn [String.eqb Ascii.eqb Bool.eqb].
  now rewrite (deltaForm_tie p w Hw [("self.len"%string, VInt (len p)); ("self.chargePattern"%string, VList (map VInt p)); ("bloblen"%string, VN w)] eq_refl eq_refl eq_refl).
Qed.
Lemma m_deltaForm_short (w : nat) : (N < w)%nat -> m_deltaForm w p = 0%Q.
Proof. intros H. unfold m_deltaForm, len. replace (Z.to_nat (Z.of_nat N - Z.of_nat w + 1)) with 0%nat by lia. reflexivity. Qed.
Lemma df_num (w : nat) : numv (df_val w) (m_deltaForm w p).
Proof.
  unfold df_val. destruct (Nat.leb_spec w N) as [H|H]; [apply NQ|]. rewrite (m_deltaForm_short w H). apply (NI 0).
Qed.

Lemma qdiv2 (prim : string -> list value -> value) v q : numv v q -> (forall a, prim "qdiv"%string a = prim0 p "qdiv"%string a) ->
  prim "qdiv"%string [v; VInt 2] = VQ (Qred (q / 2)).
Proof.
  intros H Hp. rewrite Hp. unfold prim0; cbn [String.eqb Ascii.eqb Bool.eqb]; unfold primA; cbn [String.eqb Ascii.eqb Bool.eqb]; unfold prim00; cbn [String.eqb Ascii.eqb Bool.eqb]. rewrite (numv_asQ _ _ H). reflexivity.
Qed.

(* delta on EVERY charge pattern: the model's value *)
Theorem delta_tie r : MiniPy.exec prim2 0 g_delta r = ORet (VQ (m_delta p)).
Proof.
  unfold g_delta. apply exec_return_ok; [|reflexivity].
  assert (E5 : MiniPy.eval prim2 (ECall "deltaForm" [EConst (VInt 5)]) r = df_val 5).
  { rewrite (eval_call1 _ _ _ (VInt 5) (eval_const _ _) eq_refl). apply (df_call 5). lia. }
  assert (E6 : MiniPy.eval prim2 (ECall "deltaForm" [EConst (VInt 6)]) r = df_val 6).
  { rewrite (eval_call1 _ _ _ (VInt 6) (eval_const _ _) eq_refl). apply (df_call 6). lia. }
  destruct (eval_add_num_gen prim2 _ _ r _ _ _ _ E5 E6 (df_num 5) (df_num 6)) as [sv [sq [Es [Ns Qs]]]].
  rewrite (eval_call2 _ _ _ _ sv (VInt 2) Es (eval_const _ _) (numv_ok _ _ Ns) eq_refl).
  rewrite (qdiv2 prim2 sv sq Ns) by reflexivity. unfold m_delta. f_equal. apply Qred_complete. now rewrite Qs.
Qed.

(* self.delta() is interpreted by RUNNING the translated delta; self.deltaMax() is the oracle *)
Definition prim3 (name : string) (args : list value) : value :=
  if String.eqb name "delta" then
    match args with [] => match MiniPy.exec prim2 0 g_delta [] with ORet v => v | ORaise => VExc | _ => VErr end | _ => VErr end
  else if String.eqb name "deltaMax" then match args with [] => dmv | _ => VErr end
  else prim2 name args.

(* kappa on EVERY charge pattern, WHATEVER rational deltaMax returns: -1 when deltaMax is 0, else delta / deltaMax, replaced
   by 1 exactly when it lies strictly between 1 and 1.1 *)
Theorem kappa_tie (dm : Q) r : dmv = VQ dm ->
  MiniPy.exec prim3 0 g_kappa r =
  ORet (if Qeq_bool dm 0 then VInt (-1)
        else let k := Qred (m_delta p / dm) in if Qltb 1 k && Qltb k (11 # 10) then VQ 1 else VQ k).
Proof.
  intros Hdm. unfold g_kappa.
  assert (Em : MiniPy.eval prim3 (ECall "deltaMax" []) r = VQ dm).
  { rewrite eval_call0. unfold prim3. cbn [String.eqb Ascii.eqb Bool.eqb]. exact Hdm. }
  assert (T0 : truthy (MiniPy.eval prim3 (EEq (ECall "deltaMax" []) (EConst (VInt 0))) r) = VBool (Qeq_bool dm 0)).
  { cbn [MiniPy.eval]. cbn [MiniPy.eval] in Em. rewrite Em. reflexivity. }
  destruct (Qeq_bool dm 0) eqn:Ez.
  - rewrite (exec_if_true _ _ _ _ T0). reflexivity.
  - rewrite (exec_if_false _ _ _ _ T0).
    assert (Ed : MiniPy.eval prim3 (ECall "delta" []) r = VQ (m_delta p)).
    { rewrite eval_call0. unfold prim3. cbn [String.eqb Ascii.eqb Bool.eqb]. now rewrite delta_tie. }
    set (k := Qred (m_delta p / dm)).
    assert (Ek : MiniPy.eval prim3 (ECall "qdiv" [ECall "delta" []; ECall "deltaMax" []]) r = VQ k).
    { rewrite (eval_call2 _ _ _ _ (VQ (m_delta p)) (VQ dm) Ed Em eq_refl eq_refl).
      unfold prim3. cbn [String.eqb Ascii.eqb Bool.eqb]. unfold prim2. cbn [String.eqb Ascii.eqb Bool.eqb]. unfold prim1. cbn [String.eqb Ascii.eqb Bool.eqb].
      unfold prim0; cbn [String.eqb Ascii.eqb Bool.eqb]; unfold primA; cbn [String.eqb Ascii.eqb Bool.eqb]; unfold prim00; cbn [String.eqb Ascii.eqb Bool.eqb as_Q]. now rewrite Ez. }
    rewrite exec_seq, (exec_assign_ok _ _ _ _ Ek eq_refl).
    assert (Tc : truthy (MiniPy.eval prim3 (EAnd (EGt (EVar "kappaVal") (EConst (VQ (1 # 1)))) (ELt (EVar "kappaVal") (EConst (VQ (11 # 10))))) (set "kappaVal" (VQ k) r)) =
                 VBool (Qltb 1 k && Qltb k (11 # 10))).
    { cbn [MiniPy.eval]. lk. cbn [cmp_int bad2 as_Q truthy]. destruct (Qltb 1 k); reflexivity. }
    cbv zeta. destruct (Qltb 1 k && Qltb k (11 # 10)).
    + rewrite (exec_if_true _ _ _ _ Tc). reflexivity.
    + rewrite (exec_if_false _ _ _ _ Tc). apply exec_return_ok; [rewrite eval_var; lk; reflexivity | reflexivity].
Qed.

(* with the model's delta-max, the returned number is the model's kappa *)
Theorem kappa_is_model r : dmv = VQ (m_dmax p) ->
  exists v, MiniPy.exec prim3 0 g_kappa r = ORet v /\ as_Q v = Some (m_kappa p).
Proof.
  intros Hdm. rewrite (kappa_tie (m_dmax p) r Hdm). unfold m_kappa. cbv zeta.
  destruct (Qeq_bool (m_dmax p) 0); [eexists; split; reflexivity|].
  set (k := Qred (m_delta p / m_dmax p)). unfold Qltb.
  destruct (Qlt_le_dec 1 k) as [H1|H1].
  - replace (Qle_bool k 1) with false by (symmetry; apply not_true_is_false; intros C; apply Qle_bool_iff in C; apply (Qlt_not_le _ _ H1 C)).
    cbn [negb andb]. destruct (Qlt_le_dec k (11 # 10)) as [H2|H2].
    + replace (Qle_bool (11 # 10) k) with false by (symmetry; apply not_true_is_false; intros C; apply Qle_bool_iff in C; apply (Qlt_not_le _ _ H2 C)).
      eexists; split; reflexivity.
    + replace (Qle_bool (11 # 10) k) with true by (symmetry; apply Qle_bool_iff; exact H2). eexists; split; reflexivity.
  - replace (Qle_bool k 1) with true by (symmetry; apply Qle_bool_iff; exact H1). eexists; split; reflexivity.
Qed.
End DeltaKappa.
Print Assumptions delta_tie.
Print Assumptions kappa_tie.
Print Assumptions kappa_is_model.

(* ---------- the translated functions run ---------- *)
Example kappa_runs : let p := [1; 1; -1; 0; -1; 1; 0; -1; 1; -1]%Z in
  MiniPy.exec (prim3 p (VQ (1 # 5))) 0 g_kappa [] = ORet (VQ (Qred (m_delta p / (1 # 5)))) /\
  MiniPy.exec (prim3 p (VQ 0)) 0 g_kappa [] = ORet (VInt (-1)) /\
  MiniPy.exec (prim2 p) 0 g_delta [] = ORet (VQ (m_delta p)) /\ (0 < m_delta p)%Q.
Proof. repeat split; vm_compute; reflexivity. Qed.

(* ---------- the public getters (SequenceParameters) are exactly a return of the backend call with their own arguments ---------- *)
Lemma fw_get_kappa : g_fw_get_kappa = SReturn (ECall "SeqObj.kappa"%string []). Proof. reflexivity. Qed.
Lemma fw_get_delta : g_fw_get_delta = SReturn (ECall "SeqObj.delta"%string []). Proof. reflexivity. Qed.
