(* Tie (C12): the reduce_alphabet cascade regenerated from the source implements the
   documented partitions — exhaustive over 12 sizes x 20 residues, by evaluation. *)
From Coq Require Import List ZArith Bool.
From LC Require Import Core.Residue Spec.Alphabets Model.Alphabets Proofs.Alphabets Gen.GAlphabets.
Import ListNotations.
Local Open Scope Z_scope.

Lemma allowed_sizes_tie : GAlphabets.allowed_sizes = Spec.Alphabets.sizes.
Proof. vm_compute. reflexivity. Qed.

Lemma cascade_sizes_tie : GAlphabets.cascade_sizes = Spec.Alphabets.sizes.
Proof. vm_compute. reflexivity. Qed.

Lemma documented_tables_are_partitions : forallb partition_b sizes = true.
Proof. vm_compute. reflexivity. Qed.

Lemma reduce_tie_b :
  forallb (fun k => valid_reduction_b k (GAlphabets.reduce k)) sizes = true.
Proof. vm_compute. reflexivity. Qed.

Theorem reduce_tie k : In k sizes -> valid_reduction k (GAlphabets.reduce k).
Proof.
  intros Hk. apply valid_reduction_b_sound.
  pose proof reduce_tie_b as H. rewrite forallb_forall in H. apply H. exact Hk.
Qed.

Lemma alphabet_tie_b :
  forallb (fun k => alphabet_ok_b k (GAlphabets.reduce k) (GAlphabets.alphabet k)) sizes = true.
Proof. vm_compute. reflexivity. Qed.

Lemma return_shape_tie : GAlphabets.returns_joined_and_alphabet = true.
Proof. reflexivity. Qed.

Print Assumptions reduce_tie.
Print Assumptions alphabet_tie_b.
