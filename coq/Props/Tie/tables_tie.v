(* Tie (C04, C09): every cell of every literal table in data/aminoacids.py equals the published
   value transcribed in Spec/Tables.v; the shift/normalisation constants, the residue lists used
   by the getters, the 18 Da correction and the table each getter reads.  Exhaustive (finite). *)
From Coq Require Import List ZArith QArith Bool String.
From LC Require Import Core.Residue Core.QTools Spec.Tables Gen.GTables Gen.GSeq.
Import ListNotations.
Local Open Scope string_scope.

Definition table_is (g : list (aa * Q)) (f : aa -> Q) : bool :=
  Nat.eqb (List.length g) 20 && forallb (fun a => oQeqb (lookupQ aa_eqb a g) (Some (f a))) all20.

Lemma kd_tie : table_is GTables.kd_original kd = true.          Proof. vm_compute. reflexivity. Qed.
Lemma ww_tie : table_is GTables.ww_original ww = true.          Proof. vm_compute. reflexivity. Qed.
Lemma hilser_tie : table_is GTables.ppii_hilser Spec.Tables.ppii_hilser = true.       Proof. vm_compute. reflexivity. Qed.
Lemma creamer_tie : table_is GTables.ppii_creamer Spec.Tables.ppii_creamer = true.    Proof. vm_compute. reflexivity. Qed.
Lemma kallenbach_tie : table_is GTables.ppii_kallenbach Spec.Tables.ppii_kallenbach = true.  Proof. vm_compute. reflexivity. Qed.
Lemma mw_tie : table_is GTables.mol_weight mw = true.           Proof. vm_compute. reflexivity. Qed.

Lemma pka_tie :
  Nat.eqb (List.length GTables.pka) 7 && forallb (fun a => oQeqb (lookupQ aa_eqb a GTables.pka) (Spec.Tables.pka a)) all20 = true.
Proof. vm_compute. reflexivity. Qed.

Lemma kd_shift_norm_tie : Qeq_bool GTables.kd_shift (45 # 10) && Qeq_bool GTables.kd_norm 9 = true.
Proof. vm_compute. reflexivity. Qed.

(* the hydropathy attribute of the residue table is the shifted KD scale *)
Lemma hydropathy_attribute_tie :
  assoc "hydropathy" GTables.attribute_source = Some "get_KD_shifted" /\
  assoc "PPII.hilser" GTables.attribute_source = Some "get_PPII_Hilser" /\
  assoc "PPII.creamer" GTables.attribute_source = Some "get_PPII_Creamer" /\
  assoc "PPII.kallenbach" GTables.attribute_source = Some "get_PPII_Kallenbach".
Proof. vm_compute. repeat split. Qed.

Lemma getter_sources_tie : GSeq.g_getter_sources =
  [("meanHydropathy", ["lookUpHydropathy"]); ("uverskyHydropathy", ["ONE_TO_THREE"; "get_KD_uversky"]);
   ("meanWWHydropathy", ["ONE_TO_THREE"; "get_WW_original"]); ("FPPII_chain", ["lookUpPPII"]);
   ("molecular_weight", ["get_molecular_weight_Da"]); ("linearDistOfHydropathy", ["ONE_TO_THREE"; "get_KD_uversky"]);
   ("amino_acid_fraction", []); ("charge_at_pH", ["get_pKa"])].
Proof. vm_compute. reflexivity. Qed.

Lemma disorder_tie :
  forallb (fun a => Bool.eqb (mem_aa a GSeq.g_disorder) (mem_aa a disorder_promoting)) all20 = true.
Proof. vm_compute. reflexivity. Qed.

Lemma aadict_tie : forallb (fun a => mem_aa a GSeq.g_aadict_keys) all20 = true /\ List.length GSeq.g_aadict_keys = 20%nat
                   /\ GSeq.g_mean_shapes_ok = true.
Proof. vm_compute. repeat split. Qed.

Theorem mw_correction_tie : forall total N, (GSeq.g_mw_correct total N == total - water * (N - 1))%Q.
Proof. intros. unfold GSeq.g_mw_correct, water. cbn zeta. ring. Qed.

(* FER adds the proline count to the charged count *)
Lemma fer_tie :
  forallb (fun '(p, n, N) => forallb (fun k =>
     Qeq_bool (GSeq.g_fer (inject_Z p) (inject_Z n) (inject_Z (N - p - n)) (inject_Z N) (inject_Z k))
              ((p + n + k) # Z.to_pos N)) [0; 1; 3]%Z)
   (flat_map (fun N => flat_map (fun p => map (fun n => (p, n, N)) (zrange 0 (N - p))) (zrange 0 N)) (zrange 1 14)) = true.
Proof. vm_compute. reflexivity. Qed.

Theorem mean_net_charge_tie : forall x, GSeq.g_mean_net_charge x = Qabs.Qabs x.
Proof. reflexivity. Qed.

Print Assumptions mw_correction_tie.
