(* Tie (C13) — SEMANTIC: the body of Sequence.validateSequence, translated from the working tree into a Core.MiniPy term
   on every run, is proved equal to Model.Normalise.validate (ASCII whitespace) for EVERY string of 8-bit characters; the
   empty result is the ZeroDivisionError of the proline-content line. *)
From Coq Require Import List String Ascii ZArith NArith Bool Lia.
From LC Require Import Core.Residue Core.MiniPy Model.Normalise Gen.GMiniPy.
Import ListNotations.

Local Notation exec := (MiniPy.exec noprim 0).
Local Notation exec_list := (MiniPy.exec_list noprim 0).
Local Notation run_loop := (MiniPy.run_loop noprim 0).
Local Notation eval := (MiniPy.eval noprim).
Local Open Scope Z_scope.

Ltac all_ascii c := destruct c as [[] [] [] [] [] [] [] []].

(* ---------- Sequence.validateSequence ---------- *)
Definition vd_env (aas : value) (sq acc : list ascii) (p : Z) (w : value) (iv pc : value) : env :=
  [("self"%string, VNone); ("seq"%string, VStr sq); ("processed"%string, VStr acc); ("AAs"%string, aas);
   ("pos"%string, VInt p); ("messageWarned"%string, w); ("i"%string, iv); ("prolineContent"%string, pc)].
Definition vd_env0 (sq : list ascii) : env :=
  [("self"%string, VNone); ("seq"%string, VStr sq); ("processed"%string, VNone); ("AAs"%string, VNone);
   ("pos"%string, VNone); ("messageWarned"%string, VNone); ("i"%string, VNone); ("prolineContent"%string, VNone)].

Definition vd_state := (list ascii * Z * bool * value)%type.
Definition vd_step (st : vd_state) (v : value) : option vd_state :=
  let '(acc, p, w, _) := st in
  match v with
  | VStr [c] =>
      match aa_of_char c with
      | Some _ => Some (acc ++ [c], p + 1, w, v)
      | None => if is_ws_py c then Some (acc, p + 1, true, v) else None
      end
  | _ => None
  end.
Definition vd_rel (aas : value) (sq : list ascii) (r : env) (st : vd_state) : Prop :=
  let '(acc, p, w, iv) := st in r = vd_env aas sq acc p (VBool w) iv VNone.

Lemma vd_split : exists pre body rest aas,
  split_at_for g_validateSequence = Some (pre, ("i"%string, EVar "seq", body), rest) /\
  (forall sq, exec_list pre (vd_env0 sq) = ONorm (vd_env aas sq [] 0 (VBool false) VNone VNone)) /\
  (forall sq c acc p w iv, exec rest (vd_env aas sq (c :: acc) p (VBool w) iv VNone) = ORet (VStr (c :: acc))) /\
  (forall sq p w iv, exec rest (vd_env aas sq [] p (VBool w) iv VNone) = ORaise) /\
  (forall sq r st v, (exists c, v = VStr [c]) -> vd_rel aas sq r st ->
     match vd_step st v with
     | Some st' => exists r', (exec body (set "i" v r) = ONorm r' \/ exec body (set "i" v r) = OCont r') /\ vd_rel aas sq r' st'
     | None => exec body (set "i" v r) = ORaise
     end).
Proof.
  eexists. eexists. eexists. eexists. split; [vm_compute; reflexivity|]. split; [|split; [|split]].
  - intros. vm_compute. reflexivity.
  - intros. vm_compute. reflexivity.
  - intros. vm_compute. reflexivity.
  - intros sq r [[[acc p] w] iv] v [c ->] ->.
    all_ascii c; destruct w; vm_compute;
      first [ reflexivity
            | eexists; split; [left; reflexivity | reflexivity]
            | eexists; split; [right; reflexivity | reflexivity] ].
Qed.

Lemma code_char c : aa_of_code (N_of_ascii c) = aa_of_char c.
Proof. all_ascii c; vm_compute; reflexivity. Qed.
Lemma space_char c : isspace_ascii_N (N_of_ascii c) = is_ws_py c.
Proof. all_ascii c; vm_compute; reflexivity. Qed.

Lemma vd_fold cs : forall acc p w iv,
  match validate isspace_ascii_N (map N_of_ascii cs) with
  | Some t => exists p' w' iv', fold_step vd_step (acc, p, w, iv) (map (fun c => VStr [c]) cs) = Some (acc ++ map aa_char t, p', w', iv')
  | None => fold_step vd_step (acc, p, w, iv) (map (fun c => VStr [c]) cs) = None
  end.
Proof.
  induction cs as [|c cs IH]; intros acc p w iv; cbn [validate map fold_step].
  - exists p, w, iv. now rewrite app_nil_r.
  - change (vd_step (acc, p, w, iv) (VStr [c])) with
      (match aa_of_char c with
       | Some _ => Some (acc ++ [c], p + 1, w, VStr [c])
       | None => if is_ws_py c then Some (acc, p + 1, true, VStr [c]) else None
       end).
    rewrite code_char, space_char. destruct (aa_of_char c) as [a|] eqn:Ea.
    + specialize (IH (acc ++ [c]) (p + 1) w (VStr [c])). destruct (validate isspace_ascii_N (map N_of_ascii cs)) as [t|].
      * destruct IH as (p' & w' & iv' & IH). exists p', w', iv'. rewrite IH. cbn [map]. rewrite (aa_of_char_some c a Ea), <- app_assoc. reflexivity.
      * exact IH.
    + destruct (is_ws_py c); [apply IH | reflexivity].
Qed.

(* the generated term run on ANY (upper-cased) ASCII string = the model's validate; an empty result is the
   ZeroDivisionError of the proline-content line *)
Theorem validateSequence_tie cs :
  exec g_validateSequence (vd_env0 cs) =
  match validate isspace_ascii_N (map N_of_ascii cs) with
  | Some (a :: w) => ORet (VStr (map aa_char (a :: w)))
  | _ => ORaise
  end.
Proof.
  destruct vd_split as (pre & body & rest & aas & Hs & Hpre & Hret & Hzero & Hstep).
  rewrite (exec_split _ _ _ _ _ _ _ Hs), Hpre, exec_for.
  change (eval (EVar "seq") (vd_env aas cs [] 0 (VBool false) VNone VNone)) with (VStr cs). cbn [elements].
  pose proof (run_loop_rule "i"%string body (vd_rel aas cs) vd_step (fun v => exists c, v = VStr [c])
                (fun r st v Hv HR => Hstep cs r st v Hv HR) (map (fun c => VStr [c]) cs)) as HL.
  assert (HP : Forall (fun v => exists c, v = VStr [c]) (map (fun c => VStr [c]) cs)).
  { apply Forall_forall. intros v Hv. apply in_map_iff in Hv. destruct Hv as [c [<- _]]. exists c. reflexivity. }
  specialize (HL HP (vd_env aas cs [] 0 (VBool false) VNone VNone) ([], 0, false, VNone) eq_refl).
  pose proof (vd_fold cs [] 0 false VNone) as HF. destruct (validate isspace_ascii_N (map N_of_ascii cs)) as [t|].
  - destruct HF as (p' & w' & iv' & HF). rewrite HF in HL. destruct HL as [r' [-> HR]]. cbn [app] in HR. unfold vd_rel in HR. subst r'.
    destruct t as [|a t]; cbn [map]; [apply Hzero | apply Hret].
  - rewrite HF in HL. rewrite HL. reflexivity.
Qed.
Print Assumptions validateSequence_tie.
