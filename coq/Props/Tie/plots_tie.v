(* Tie (C19): the polygons handed to plt.fill are the specified regions 1-5 (vertex by vertex); every
   show_/save_ entry point of SequenceParameters and plots forwards coordinates, label(s), title, axis
   limits (and getFig / filename) to the like-named parameter of the plotting function it calls. *)
From Coq Require Import List QArith ZArith Bool String.
From LC Require Import Spec.Polygons Model.PlotCheck Gen.GPlot.
Import ListNotations.

Lemma polygons_tie :
  Nat.eqb (List.length g_dp_polygons) 5 &&
  forallb (fun k => pts_eqb (nth (Z.to_nat (k - 1)) g_dp_polygons []) (poly k)) [1; 2; 3; 4; 5]%Z = true.
Proof. vm_compute. reflexivity. Qed.

Lemma forwarding_tie : forallb row_ok g_forwarding = true /\ (30 <= List.length g_forwarding)%nat.
Proof. split; [vm_compute; reflexivity | vm_compute; repeat constructor]. Qed.

Lemma plot_inner_tie : g_plot_inner_ok = true.
Proof. reflexivity. Qed.
