(* Tie (C04) — SEMANTIC: Sequence.meanHydropathy, uverskyHydropathy, meanWWHydropathy, FPPII_chain, molecular_weight and
   fraction_disorder_promoting, translated from the working tree on every run into Core.MiniPy terms.  The residue tables
   (lkupTab.lookUpHydropathy / lookUpPPII, get_KD_uversky) are primitives returning ANY table (the tables themselves are
   tied cell by cell in tables_tie); dictionaries written as literals in the data module (get_WW_original,
   get_molecular_weight_Da, ONE_TO_THREE) are read by the translator.  For EVERY sequence: the three hydropathies and
   the PPII propensity are the residue-by-residue sums of their table over the length (accumulated as the code does),
   the molecular weight is the sum of the table minus 18 per peptide bond, the disorder-promoting fraction is the number
   of residues in the D list over the length.  a / b is exact rational division ("qdiv"). *)
From Coq Require Import List String Ascii ZArith QArith Qreduction Bool Arith Lia.
From LC Require Import Core.Residue Core.Lists Core.QTools Core.MiniPy Spec.Tables Gen.GMiniPy.
Import ListNotations.
Local Open Scope Z_scope.

Notation VN k := (VInt (Z.of_nat k)).
Ltac lk := repeat (rewrite lookup_set_eq || rewrite lookup_set_neq by reflexivity).

Definition qdiv_prim (args : list value) : value :=
  match args with
  | [a; b] => match as_Q a, as_Q b with
              | Some x, Some y => if Qeq_bool y 0 then VExc else VQ (Qred (x / y))
              | _, _ => VErr
              end
  | _ => VErr
  end.
Inductive numv : value -> Q -> Prop := NI z : numv (VInt z) (inject_Z z) | NQ q : numv (VQ q) q.

Section Comp.
Variable s : list aa.
Local Notation N := (List.length s).
Local Notation cs := (map aa_char s).

Lemma char_at k a : nth_error s k = Some a -> index_val cs (Z.of_nat k) = Some (aa_char a).
Proof.
  intros H. assert (Hk : (k < N)%nat) by (apply nth_error_Some; congruence). unfold index_val. rewrite map_length.
  replace (Z.of_nat k <? 0) with false by (symmetry; apply Z.ltb_ge; lia).
  replace ((Z.of_nat k <? 0) || (Z.of_nat N <=? Z.of_nat k)) with false by (symmetry; apply orb_false_iff; split; [apply Z.ltb_ge | apply Z.leb_gt]; lia).
  now rewrite Nat2Z.id, nth_error_map, H.
Qed.

(* ---------- the common loop: acc = acc + term(residue), over indices or over characters ---------- *)
Section SumLoop.
Variable prim : string -> list value -> value.
Variables accv iv : string.
Variable term : expr.
Variable g : aa -> Q.
Variable ev : nat -> aa -> value.          (* the loop variable's value for residue a at position k *)
Variable Inv : env -> Prop.
Hypothesis Hiv : String.eqb accv iv = false.
Hypothesis Inv_iv : forall r v, Inv r -> Inv (set iv v r).
Hypothesis Inv_acc : forall r v, Inv r -> Inv (set accv v r).
Hypothesis term_spec : forall r a k, Inv r -> lookup iv r = ev k a -> nth_error s k = Some a -> MiniPy.eval prim term r = VQ (g a).

Definition sstep (acc : Q) (a : aa) : Q := Qred (acc + g a).
Definition sbody : stmt := SAssign accv (EAdd (EVar accv) term).

Lemma sum_loop : forall (t pre : list aa) av a r, s = pre ++ t -> numv av a -> Inv r -> lookup accv r = av ->
  exists r' av', MiniPy.run_loop prim 0 iv sbody (map (fun p => ev (fst p) (snd p)) (combine (seq (List.length pre) (List.length t)) t)) r = ONorm r' /\
    lookup accv r' = av' /\ numv av' (fold_left sstep t a) /\ Inv r' /\
    (forall y, String.eqb y accv = false -> String.eqb y iv = false -> lookup y r' = lookup y r).
Proof.
  induction t as [|x t IH]; intros pre av a r Hs Ha HI Hav.
  - exists r, av. cbn [List.length seq combine map MiniPy.run_loop fold_left]. repeat split; assumption || reflexivity.
  - cbn [List.length seq combine map MiniPy.run_loop fold_left fst snd].
    set (r0 := set iv (ev (List.length pre) x) r).
    assert (Hx : nth_error s (List.length pre) = Some x) by (rewrite Hs, nth_error_app2, Nat.sub_diag by lia; reflexivity).
    assert (Et : MiniPy.eval prim term r0 = VQ (g x)) by (apply (term_spec r0 x (List.length pre)); [apply Inv_iv; exact HI | unfold r0; apply lookup_set_eq | exact Hx]).
    assert (Ea : MiniPy.eval prim (EAdd (EVar accv) term) r0 = VQ (sstep a x)).
    { assert (Hav0 : MiniPy.eval prim (EVar accv) r0 = av) by (rewrite eval_var; unfold r0; rewrite lookup_set_neq by exact Hiv; exact Hav).
      unfold sstep. destruct Ha as [z|q]; [apply eval_add_Q_int_l | apply eval_add_Q]; assumption. }
    unfold sbody at 1. rewrite (exec_assign_ok _ _ _ _ Ea eq_refl).
    destruct (IH (pre ++ [x]) (VQ (sstep a x)) (sstep a x) (set accv (VQ (sstep a x)) r0)) as [r1 [av1 [E1 [H1 [N1 [I1 F1]]]]]].
    { rewrite <- app_assoc. exact Hs. } { constructor. } { apply Inv_acc, Inv_iv. exact HI. } { apply lookup_set_eq. }
    rewrite app_length in E1. cbn [List.length] in E1. replace (List.length pre + 1)%nat with (S (List.length pre)) in E1 by lia.
    exists r1, av1. repeat split; try assumption.
    intros y Y1 Y2. rewrite F1 by assumption. rewrite lookup_set_neq by exact Y1. unfold r0. now rewrite lookup_set_neq by exact Y2.
Qed.

Lemma sum_value : forall t a, (fold_left sstep t a == a + sumQ (map g t))%Q.
Proof.
  induction t as [|x t IH]; intros a; cbn [fold_left map sumQ]; [ring|]. rewrite IH. unfold sstep. rewrite Qred_correct. ring.
Qed.
End SumLoop.

Lemma idx_elems (t : list aa) k : map (fun p : nat * aa => VN (fst p)) (combine (seq k (List.length t)) t) = map (fun j => VInt (0 + Z.of_nat j)) (seq k (List.length t)).
Proof. revert k. induction t as [|a t IH]; intros k; [reflexivity|]. cbn [List.length seq combine map fst]. f_equal. apply IH. Qed.
Lemma chr_elems (t : list aa) k : map (fun p : nat * aa => VStr [aa_char (snd p)]) (combine (seq k (List.length t)) t) = map (fun c => VStr [c]) (map aa_char t).
Proof. revert k. induction t as [|a t IH]; intros k; [reflexivity|]. cbn [List.length seq combine map snd]. f_equal. apply IH. Qed.

Definition qd (args : list value) := qdiv_prim args.

(* ---------- meanHydropathy ---------- *)
Section MeanHydropathy.
Variable h : aa -> Q.                    (* lkupTab.lookUpHydropathy, residue by residue: ANY table *)
Definition mh_prim (name : string) (args : list value) : value :=
  if String.eqb name "qdiv" then qdiv_prim args
  else if String.eqb name "lkupTab.lookUpHydropathy" then
    match args with [VStr [c]] => match aa_of_char c with Some a => VQ (h a) | None => VExc end | _ => VErr end
  else VErr.
Definition mh_inv (r : env) : Prop := lookup "self.seq" r = VStr cs /\ lookup "self.len" r = VN N.
Definition mh_term : expr := ECall "qdiv" [ECall "lkupTab.lookUpHydropathy" [EIndex (EVar "self.seq") (EVar "i")]; EVar "self.len"].
Definition mh_g (a : aa) : Q := Qred (h a / inject_Z (Z.of_nat N)).

Lemma mh_term_spec r a k : mh_inv r -> lookup "i" r = VN k -> nth_error s k = Some a -> MiniPy.eval mh_prim mh_term r = VQ (mh_g a).
Proof.
  intros [Hs Hl] Hi Ha. assert (HN : (1 <= N)%nat) by (assert (k < N)%nat by (apply nth_error_Some; congruence); lia).
  assert (Ec : MiniPy.eval mh_prim (EIndex (EVar "self.seq") (EVar "i")) r = VStr [aa_char a]).
  { cbn [MiniPy.eval]. rewrite Hs, Hi. cbn [bad2]. now rewrite (char_at k a Ha). }
  assert (Eh : MiniPy.eval mh_prim (ECall "lkupTab.lookUpHydropathy" [EIndex (EVar "self.seq") (EVar "i")]) r = VQ (h a)).
  { rewrite (eval_call1 _ _ _ _ Ec eq_refl). unfold mh_prim. cbn [String.eqb Ascii.eqb Bool.eqb]. now rewrite aa_of_char_char. }
  unfold mh_term. rewrite (eval_call2 _ _ _ _ (VQ (h a)) (VN N) Eh (eq_trans (eval_var _ _) Hl) eq_refl eq_refl).
  unfold mh_prim. cbn [String.eqb Ascii.eqb Bool.eqb qdiv_prim as_Q].
  replace (Qeq_bool (inject_Z (Z.of_nat N)) 0) with false; [reflexivity|]. symmetry. apply not_true_is_false. intros C. apply Qeq_bool_iff in C.
  unfold Qeq, inject_Z in C. cbn in C. lia.
Qed.

Theorem meanHydropathy_tie r : lookup "self.seq" r = VStr cs -> lookup "self.len" r = VN N ->
  exists v, MiniPy.exec mh_prim 0 g_meanHydropathy r = ORet v /\ numv v (fold_left (sstep mh_g) s 0%Q).
Proof.
  intros Hs Hl. unfold g_meanHydropathy.
  rewrite exec_seq, (exec_assign_ok _ _ _ (VInt 0)) by reflexivity.
  set (r0 := set "ans" (VInt 0) r). rewrite exec_seq, exec_for.
  assert (Er : MiniPy.eval mh_prim (ERange (EConst (VInt 0)) (EVar "self.len")) r0 = VList (map (fun j => VInt (0 + Z.of_nat j)) (seq 0 N))).
  { rewrite (eval_range _ _ _ 0 (Z.of_nat N)); [now rewrite Z.sub_0_r, Nat2Z.id | reflexivity | rewrite eval_var; unfold r0; lk; exact Hl]. }
  rewrite Er. cbn [elements].
  destruct (sum_loop mh_prim "ans" "i" mh_term mh_g (fun k _ => VN k) mh_inv eq_refl) with (t := s) (pre := @nil aa) (av := VInt 0) (a := 0%Q) (r := r0)
    as [r1 [av1 [E1 [H1 [N1 [I1 F1]]]]]].
  { intros rr v [A B]. split; rewrite lookup_set_neq by reflexivity; assumption. }
  { intros rr v [A B]. split; rewrite lookup_set_neq by reflexivity; assumption. }
  { intros rr a k HI Hi Ha. exact (mh_term_spec rr a k HI Hi Ha). }
  { reflexivity. } { apply (NI 0). } { split; unfold r0; lk; assumption. } { unfold r0. lk. reflexivity. }
  cbn [List.length] in E1. rewrite (idx_elems s 0) in E1.
  change (SAssign "ans" (EAdd (EVar "ans") (ECall "qdiv" [ECall "lkupTab.lookUpHydropathy" [EIndex (EVar "self.seq") (EVar "i")]; EVar "self.len"]))) with (sbody "ans" mh_term).
  rewrite E1. exists av1. split; [|exact N1]. apply exec_return_ok; [rewrite eval_var; exact H1 | destruct N1; reflexivity].
Qed.

(* the value: the mean of the table over the sequence *)
Lemma meanHydropathy_value : (1 <= N)%nat -> (fold_left (sstep mh_g) s 0%Q == sumQ (map h s) / inject_Z (Z.of_nat N))%Q.
Proof.
  intros HN. rewrite sum_value. assert (G : forall t, (sumQ (map mh_g t) == sumQ (map h t) / inject_Z (Z.of_nat N))%Q).
  { induction t as [|x t IH]; cbn [map sumQ]; [unfold Qdiv; ring|]. rewrite IH. unfold mh_g. rewrite Qred_correct. unfold Qdiv. ring. }
  rewrite G. ring.
Qed.
End MeanHydropathy.

(* ---------- uverskyHydropathy and meanWWHydropathy: table[translate[seq[idx]]] / len ---------- *)
Definition three_val (a : aa) : value := VStr (list_ascii_of_string (aa_three a)).
Definition one_to_three : value := Eval vm_compute in match g_uverskyHydropathy with SSeq _ (SSeq (SAssign _ (EConst d)) _) => d | _ => VNone end.
Definition ww_dict : value := Eval vm_compute in match g_meanWWHydropathy with SSeq (SAssign _ (EConst d)) _ => d | _ => VNone end.
Definition dict_of (v : value) : list (value * value) := match v with VDict d => d | _ => [] end.
Lemma three_of a : dict_get (VStr [aa_char a]) (dict_of one_to_three) = Some (three_val a).
Proof. destruct a; reflexivity. Qed.

Section TableMean.
Variable tbl : value.                     (* the dictionary from three-letter names to numbers *)
Variable f : aa -> Q.
Hypothesis tbl_spec : forall a, dict_get (three_val a) (dict_of tbl) = Some (VQ (f a)).
Hypothesis tbl_dict : tbl = VDict (dict_of tbl).
Variable tv : string.                     (* the local variable holding the table *)
Hypothesis tv1 : String.eqb tv "idx" = false.
Hypothesis tv2 : String.eqb tv "ans" = false.
Variable tm_prim : string -> list value -> value.
Hypothesis prim_qdiv : forall args, tm_prim "qdiv" args = qdiv_prim args.
Definition tm_inv (r : env) : Prop :=
  lookup "self.seq" r = VStr cs /\ lookup "self.len" r = VN N /\ lookup tv r = tbl /\ lookup "translate" r = one_to_three.
Definition tm_term : expr := ECall "qdiv" [EIndex (EVar tv) (EIndex (EVar "translate") (EIndex (EVar "self.seq") (EVar "idx"))); EVar "self.len"].
Definition tm_g (a : aa) : Q := Qred (f a / inject_Z (Z.of_nat N)).

Lemma tm_term_spec r a k : tm_inv r -> lookup "idx" r = VN k -> nth_error s k = Some a -> MiniPy.eval tm_prim tm_term r = VQ (tm_g a).
Proof.
  intros [Hs [Hl [Ht Htr]]] Hi Ha. assert (HN : (1 <= N)%nat) by (assert (k < N)%nat by (apply nth_error_Some; congruence); lia).
  assert (Ec : MiniPy.eval tm_prim (EIndex (EVar "self.seq") (EVar "idx")) r = VStr [aa_char a]).
  { cbn [MiniPy.eval]. rewrite Hs, Hi. cbn [bad2]. now rewrite (char_at k a Ha). }
  assert (E3 : MiniPy.eval tm_prim (EIndex (EVar "translate") (EIndex (EVar "self.seq") (EVar "idx"))) r = three_val a).
  { apply (eval_index_dict _ _ _ (dict_of one_to_three) (VStr [aa_char a])); [rewrite eval_var; exact Htr | exact Ec | reflexivity | apply three_of]. }
  assert (Ev : MiniPy.eval tm_prim (EIndex (EVar tv) (EIndex (EVar "translate") (EIndex (EVar "self.seq") (EVar "idx")))) r = VQ (f a)).
  { apply (eval_index_dict _ _ _ (dict_of tbl) (three_val a)); [rewrite eval_var, Ht; exact tbl_dict | exact E3 | reflexivity | apply tbl_spec]. }
  unfold tm_term. rewrite (eval_call2 _ _ _ _ (VQ (f a)) (VN N) Ev (eq_trans (eval_var _ _) Hl) eq_refl eq_refl).
  rewrite prim_qdiv. cbn [qdiv_prim as_Q].
  replace (Qeq_bool (inject_Z (Z.of_nat N)) 0) with false; [reflexivity|]. symmetry. apply not_true_is_false. intros C. apply Qeq_bool_iff in C.
  unfold Qeq, inject_Z in C. cbn in C. lia.
Qed.

Lemma tm_loop r : tm_inv r -> lookup "ans" r = VInt 0 ->
  exists r' v, MiniPy.exec tm_prim 0 (SFor "idx" (ERange (EConst (VInt 0)) (EVar "self.len")) (sbody "ans" tm_term)) r = ONorm r' /\
    lookup "ans" r' = v /\ numv v (fold_left (sstep tm_g) s 0%Q).
Proof.
  intros HI Ha. rewrite exec_for.
  assert (Er : MiniPy.eval tm_prim (ERange (EConst (VInt 0)) (EVar "self.len")) r = VList (map (fun j => VInt (0 + Z.of_nat j)) (seq 0 N))).
  { rewrite (eval_range _ _ _ 0 (Z.of_nat N)); [now rewrite Z.sub_0_r, Nat2Z.id | reflexivity | rewrite eval_var; apply HI]. }
  rewrite Er. cbn [elements].
  destruct (sum_loop tm_prim "ans" "idx" tm_term tm_g (fun k _ => VN k) tm_inv eq_refl) with (t := s) (pre := @nil aa) (av := VInt 0) (a := 0%Q) (r := r)
    as [r1 [av1 [E1 [H1 [N1 [I1 F1]]]]]].
  { intros rr v [A [B [C D]]]. repeat split; rewrite lookup_set_neq by (reflexivity || exact tv1); assumption. }
  { intros rr v [A [B [C D]]]. repeat split; rewrite lookup_set_neq by (reflexivity || exact tv2); assumption. }
  { intros rr a k HI' Hi Ha'. exact (tm_term_spec rr a k HI' Hi Ha'). }
  { reflexivity. } { apply (NI 0). } { exact HI. } { exact Ha. }
  cbn [List.length] in E1. rewrite (idx_elems s 0) in E1. rewrite E1. exists r1, av1. repeat split; assumption.
Qed.
End TableMean.

Section Uversky.
Variable kd : aa -> Q.                     (* the table get_KD_uversky() returns: ANY table on the twenty names *)
Definition kd_table : value := VDict (map (fun a => (three_val a, VQ (kd a))) all20).
Lemma kd_spec a : dict_get (three_val a) (dict_of kd_table) = Some (VQ (kd a)).
Proof. destruct a; reflexivity. Qed.
Definition uv_prim (name : string) (args : list value) : value :=
  if String.eqb name "get_KD_uversky" then match args with [] => kd_table | _ => VErr end
  else if String.eqb name "qdiv" then qdiv_prim args else VErr.

Theorem uverskyHydropathy_tie r : lookup "self.seq" r = VStr cs -> lookup "self.len" r = VN N ->
  exists v, MiniPy.exec uv_prim 0 g_uverskyHydropathy r = ORet v /\ numv v (fold_left (sstep (tm_g kd)) s 0%Q).
Proof.
  intros Hs Hl. unfold g_uverskyHydropathy.
  rewrite exec_seq, (exec_assign_ok _ _ _ kd_table) by reflexivity.
  rewrite exec_seq, (exec_assign_ok _ _ _ one_to_three) by reflexivity.
  rewrite exec_seq, (exec_assign_ok _ _ _ (VInt 0)) by reflexivity.
  set (r0 := set "ans" (VInt 0) (set "translate" one_to_three (set "normalizedKD" kd_table r))).
  rewrite exec_seq.
  destruct (tm_loop kd_table kd kd_spec eq_refl "normalizedKD" eq_refl eq_refl uv_prim (fun _ => eq_refl) r0) as [r1 [v [E1 [H1 N1]]]].
  { unfold tm_inv, r0. lk. repeat split; assumption || reflexivity. } { unfold r0. lk. reflexivity. }
  change (SAssign "ans" (EAdd (EVar "ans") (ECall "qdiv" [EIndex (EVar "normalizedKD") (EIndex (EVar "translate") (EIndex (EVar "self.seq") (EVar "idx"))); EVar "self.len"])))
    with (sbody "ans" (tm_term "normalizedKD")).
  rewrite E1. exists v. split; [|exact N1]. apply exec_return_ok; [rewrite eval_var; exact H1 | destruct N1; reflexivity].
Qed.
End Uversky.

Section WW.
Definition ww_of (a : aa) : Q := match dict_get (three_val a) (dict_of ww_dict) with Some (VQ q) => q | _ => 0 end.
Lemma ww_spec a : dict_get (three_val a) (dict_of ww_dict) = Some (VQ (ww_of a)).
Proof. destruct a; reflexivity. Qed.
Definition ww_prim (name : string) (args : list value) : value := if String.eqb name "qdiv" then qdiv_prim args else VErr.

(* the Wimley-White mean with the table written in the data module (ww_of reads it off the translated dictionary) *)
Theorem meanWWHydropathy_tie r : lookup "self.seq" r = VStr cs -> lookup "self.len" r = VN N ->
  exists v, MiniPy.exec ww_prim 0 g_meanWWHydropathy r = ORet v /\ numv v (fold_left (sstep (tm_g ww_of)) s 0%Q).
Proof.
  intros Hs Hl. unfold g_meanWWHydropathy.
  rewrite exec_seq, (exec_assign_ok _ _ _ ww_dict) by reflexivity.
  rewrite exec_seq, (exec_assign_ok _ _ _ one_to_three) by reflexivity.
  rewrite exec_seq, (exec_assign_ok _ _ _ (VInt 0)) by reflexivity.
  set (r0 := set "ans" (VInt 0) (set "translate" one_to_three (set "ww" ww_dict r))).
  rewrite exec_seq.
  destruct (tm_loop ww_dict ww_of ww_spec eq_refl "ww" eq_refl eq_refl ww_prim (fun _ => eq_refl) r0) as [r1 [v [E1 [H1 N1]]]].
  { unfold tm_inv, r0. lk. repeat split; assumption || reflexivity. } { unfold r0. lk. reflexivity. }
  change (SAssign "ans" (EAdd (EVar "ans") (ECall "qdiv" [EIndex (EVar "ww") (EIndex (EVar "translate") (EIndex (EVar "self.seq") (EVar "idx"))); EVar "self.len"])))
    with (sbody "ans" (tm_term "ww")).
  rewrite E1. exists v. split; [|exact N1]. apply exec_return_ok; [rewrite eval_var; exact H1 | destruct N1; reflexivity].
Qed.
End WW.

(* the accumulated numbers are the plain means of the tables *)
Lemma table_mean_value (f : aa -> Q) : (1 <= N)%nat -> (fold_left (sstep (tm_g f)) s 0%Q == sumQ (map f s) / inject_Z (Z.of_nat N))%Q.
Proof.
  intros HN. rewrite sum_value. assert (G : forall t, (sumQ (map (tm_g f) t) == sumQ (map f t) / inject_Z (Z.of_nat N))%Q).
  { induction t as [|x t IH]; cbn [map sumQ]; [unfold Qdiv; ring|]. rewrite IH. unfold tm_g. rewrite Qred_correct. unfold Qdiv. ring. }
  rewrite G. ring.
Qed.

(* ---------- FPPII_chain ---------- *)
Section PPII.
Variable pp : aa -> Q.                     (* lkupTab.lookUpPPII(residue, mode) for the mode at hand: ANY table *)
Variable mv : value.
Hypothesis mv_ok : is_bad mv = false.
Definition pp_prim (name : string) (args : list value) : value :=
  if String.eqb name "qdiv" then qdiv_prim args
  else if String.eqb name "lkupTab.lookUpPPII" then
    match args with [VStr [c]; _] => match aa_of_char c with Some a => VQ (pp a) | None => VExc end | _ => VErr end
  else VErr.
Definition pp_inv (r : env) : Prop := lookup "self.seq" r = VStr cs /\ lookup "mode" r = mv.
Definition pp_term : expr := ECall "lkupTab.lookUpPPII" [EIndex (EVar "self.seq") (EVar "i"); EVar "mode"].
Lemma pp_term_spec r a k : pp_inv r -> lookup "i" r = VN k -> nth_error s k = Some a -> MiniPy.eval pp_prim pp_term r = VQ (pp a).
Proof.
  intros [Hs Hm] Hi Ha.
  assert (Ec : MiniPy.eval pp_prim (EIndex (EVar "self.seq") (EVar "i")) r = VStr [aa_char a]).
  { cbn [MiniPy.eval]. rewrite Hs, Hi. cbn [bad2]. now rewrite (char_at k a Ha). }
  unfold pp_term. rewrite (eval_call2 _ _ _ _ (VStr [aa_char a]) mv Ec (eq_trans (eval_var _ _) Hm) eq_refl mv_ok).
  unfold pp_prim. cbn [String.eqb Ascii.eqb Bool.eqb]. now rewrite aa_of_char_char.
Qed.

Theorem FPPII_chain_tie r : (1 <= N)%nat -> lookup "self.seq" r = VStr cs -> lookup "self.len" r = VN N -> lookup "mode" r = mv ->
  MiniPy.exec pp_prim 0 g_FPPII_chain r = ORet (VQ (Qred (fold_left (sstep pp) s 0%Q / inject_Z (Z.of_nat N)))).
Proof.
  intros HN Hs Hl Hm. unfold g_FPPII_chain.
  rewrite exec_seq, (exec_assign_ok _ _ _ (VInt 0)) by reflexivity.
  set (r0 := set "total" (VInt 0) r). rewrite exec_seq, exec_for.
  assert (Er : MiniPy.eval pp_prim (ERange (EConst (VInt 0)) (EVar "self.len")) r0 = VList (map (fun j => VInt (0 + Z.of_nat j)) (seq 0 N))).
  { rewrite (eval_range _ _ _ 0 (Z.of_nat N)); [now rewrite Z.sub_0_r, Nat2Z.id | reflexivity | rewrite eval_var; unfold r0; lk; exact Hl]. }
  rewrite Er. cbn [elements].
  destruct (sum_loop pp_prim "total" "i" pp_term pp (fun k _ => VN k) pp_inv eq_refl) with (t := s) (pre := @nil aa) (av := VInt 0) (a := 0%Q) (r := r0)
    as [r1 [av1 [E1 [H1 [N1 [I1 F1]]]]]].
  { intros rr v [A B]. split; rewrite lookup_set_neq by reflexivity; assumption. }
  { intros rr v [A B]. split; rewrite lookup_set_neq by reflexivity; assumption. }
  { intros rr a k HI Hi Ha. exact (pp_term_spec rr a k HI Hi Ha). }
  { reflexivity. } { apply (NI 0). } { split; unfold r0; lk; assumption. } { unfold r0. lk. reflexivity. }
  cbn [List.length] in E1. rewrite (idx_elems s 0) in E1.
  change (SAssign "total" (EAdd (EVar "total") (ECall "lkupTab.lookUpPPII" [EIndex (EVar "self.seq") (EVar "i"); EVar "mode"]))) with (sbody "total" pp_term).
  rewrite E1. apply exec_return_ok; [|reflexivity].
  assert (Hl1 : lookup "self.len" r1 = VN N) by (rewrite F1 by reflexivity; unfold r0; lk; exact Hl).
  assert (Bv : is_bad av1 = false) by (destruct N1; reflexivity).
  rewrite (eval_call2 _ _ _ _ av1 (VN N) (eq_trans (eval_var _ _) H1) (eq_trans (eval_var _ _) Hl1) Bv eq_refl).
  unfold pp_prim. cbn [String.eqb Ascii.eqb Bool.eqb qdiv_prim].
  assert (Ea : as_Q av1 = Some (fold_left (sstep pp) s 0%Q)) by (destruct N1; reflexivity). rewrite Ea. cbn [as_Q].
  replace (Qeq_bool (inject_Z (Z.of_nat N)) 0) with false; [reflexivity|]. symmetry. apply not_true_is_false. intros C. apply Qeq_bool_iff in C.
  unfold Qeq, inject_Z in C. cbn in C. lia.
Qed.
End PPII.

(* ---------- molecular_weight ---------- *)
Section MW.
Definition mw_dict : value := Eval vm_compute in match g_molecular_weight with SSeq (SAssign _ (EConst d)) _ => d | _ => VNone end.
Definition mw_of (a : aa) : Q := match dict_get (VStr [aa_char a]) (dict_of mw_dict) with Some (VQ q) => q | _ => 0 end.
Lemma mw_spec a : dict_get (VStr [aa_char a]) (dict_of mw_dict) = Some (VQ (mw_of a)).
Proof. destruct a; reflexivity. Qed.
Definition mw_inv (r : env) : Prop := lookup "MWTable" r = mw_dict.
Definition mw_term : expr := EIndex (EVar "MWTable") (EVar "r").
Lemma mw_term_spec r a k : mw_inv r -> lookup "r" r = VStr [aa_char a] -> nth_error s k = Some a -> MiniPy.eval noprim mw_term r = VQ (mw_of a).
Proof.
  intros Hm Hr _. apply (eval_index_dict _ _ _ (dict_of mw_dict) (VStr [aa_char a])); [rewrite eval_var; exact Hm | rewrite eval_var; exact Hr | reflexivity | apply mw_spec].
Qed.

(* the sum of the free amino-acid masses written in the data module, minus 18 per peptide bond *)
Theorem molecular_weight_tie r : lookup "self.seq" r = VStr cs ->
  MiniPy.exec noprim 0 g_molecular_weight r =
  ORet (VQ (Qred (fold_left (sstep mw_of) s (0 # 1) - Qred ((18 # 1) * inject_Z (Z.of_nat N - 1))))).
Proof.
  intros Hs. unfold g_molecular_weight.
  rewrite exec_seq, (exec_assign_ok _ _ _ mw_dict) by reflexivity.
  rewrite exec_seq, (exec_assign_ok _ _ _ (VQ (0 # 1))) by reflexivity.
  set (r0 := set "total" (VQ (0 # 1)) (set "MWTable" mw_dict r)). rewrite exec_seq, exec_for, eval_var.
  replace (lookup "self.seq" r0) with (VStr cs) by (unfold r0; lk; now rewrite Hs). cbn [elements].
  destruct (sum_loop noprim "total" "r" mw_term mw_of (fun _ a => VStr [aa_char a]) mw_inv eq_refl) with (t := s) (pre := @nil aa) (av := VQ (0 # 1)) (a := 0 # 1) (r := r0)
    as [r1 [av1 [E1 [H1 [N1 [I1 F1]]]]]].
  { intros rr v A. unfold mw_inv. rewrite lookup_set_neq by reflexivity. exact A. }
  { intros rr v A. unfold mw_inv. rewrite lookup_set_neq by reflexivity. exact A. }
  { intros rr a k HI Hi Ha. exact (mw_term_spec rr a k HI Hi Ha). }
  { reflexivity. } { constructor. } { unfold mw_inv, r0. lk. reflexivity. } { unfold r0. lk. reflexivity. }
  cbn [List.length] in E1. rewrite (chr_elems s 0) in E1.
  change (SAssign "total" (EAdd (EVar "total") (EIndex (EVar "MWTable") (EVar "r")))) with (sbody "total" mw_term).
  rewrite E1.
  assert (Hs1 : lookup "self.seq" r1 = VStr cs) by (rewrite F1 by reflexivity; unfold r0; lk; exact Hs).
  set (tot := fold_left (sstep mw_of) s (0 # 1)) in *.
  assert (Em : MiniPy.eval noprim (EMul (EConst (VQ (18 # 1))) (ESub (ELen (EVar "self.seq")) (EConst (VInt 1)))) r1 = VQ (Qred ((18 # 1) * inject_Z (Z.of_nat N - 1)))).
  { cbn [MiniPy.eval]. rewrite Hs1. cbn [bad2 as_Q]. now rewrite map_length. }
  assert (Et : MiniPy.eval noprim (ESub (EVar "total") (EMul (EConst (VQ (18 # 1))) (ESub (ELen (EVar "self.seq")) (EConst (VInt 1))))) r1 =
               VQ (Qred (tot - Qred ((18 # 1) * inject_Z (Z.of_nat N - 1))))).
  { destruct N1 as [z|q]; [cbn [MiniPy.eval]; cbn [MiniPy.eval] in Em; rewrite H1, Em; reflexivity | apply eval_sub_Q; [rewrite eval_var; exact H1 | exact Em]]. }
  rewrite exec_seq, (exec_assign_ok _ _ _ _ Et eq_refl).
  apply exec_return_ok; [rewrite eval_var; lk; reflexivity | reflexivity].
Qed.

(* the table read off the data module is the published one *)
Lemma mw_of_is_table a : (mw_of a == Spec.Tables.mw a)%Q.
Proof. destruct a; reflexivity. Qed.
End MW.

(* ---------- fraction_disorder_promoting ---------- *)
Section Disorder.
Definition is_dis (a : aa) : bool := match a with Thr | Ala | Gly | Arg | Asp | His | Gln | Lys | Ser | Glu | Pro => true | _ => false end.
Definition dp_spine : list stmt := Eval vm_compute in spine g_fraction_disorder_promoting.
Definition d_list : value := Eval vm_compute in match nth 0 dp_spine SSkip with SAssign _ e => MiniPy.eval noprim e [] | _ => VNone end.
Definition dp_body : stmt := Eval vm_compute in match nth 4 dp_spine SSkip with SFor _ _ b => b | _ => SSkip end.
Definition dp_prim (name : string) (args : list value) : value := if String.eqb name "qdiv" then qdiv_prim args else VErr.
Lemma in_dis a : v_in (VStr [aa_char a]) d_list = VBool (is_dis a).
Proof. destruct a; reflexivity. Qed.

Lemma dp_loop : forall (t : list aa) (d o : Z) r, lookup "D" r = d_list -> lookup "D_count" r = VInt d -> lookup "O_count" r = VInt o ->
  exists r' o', MiniPy.run_loop dp_prim 0 "i" dp_body (map (fun c => VStr [c]) (map aa_char t)) r = ONorm r' /\
    lookup "D_count" r' = VInt (d + cnt is_dis t) /\ lookup "O_count" r' = VInt o' /\ lookup "D" r' = d_list /\ lookup "self.seq" r' = lookup "self.seq" r.
Proof.
  induction t as [|a t IH]; intros d o r HD Hd Ho.
  - exists r, o. cbn [map MiniPy.run_loop cnt]. rewrite Z.add_0_r. repeat split; assumption || reflexivity.
  - cbn [map MiniPy.run_loop cnt]. set (r0 := set "i" (VStr [aa_char a]) r). unfold dp_body at 1.
    assert (T : truthy (MiniPy.eval dp_prim (EIn (EVar "i") (EVar "D")) r0) = VBool (is_dis a)).
    { change (MiniPy.eval dp_prim (EIn ?x ?y) r0) with (v_in (MiniPy.eval dp_prim x r0) (MiniPy.eval dp_prim y r0)).
      rewrite !eval_var. unfold r0. lk. rewrite HD, in_dis. reflexivity. }
    destruct (is_dis a).
    + rewrite (exec_if_true _ _ _ _ T).
      assert (E : MiniPy.eval dp_prim (EAdd (EVar "D_count") (EConst (VInt 1))) r0 = VInt (d + 1)) by (apply eval_add_int; [rewrite eval_var; unfold r0; lk; exact Hd | reflexivity]).
      rewrite (exec_assign_ok _ _ _ _ E eq_refl).
      destruct (IH (d + 1) o (set "D_count" (VInt (d + 1)) r0)) as [r1 [o1 [E1 [H1 [H2 [H3 H4]]]]]]; try (unfold r0; lk; assumption || reflexivity).
      exists r1, o1. split; [exact E1|]. split; [rewrite H1; f_equal; lia|]. split; [exact H2|]. split; [exact H3|]. rewrite H4. unfold r0. lk. reflexivity.
    + rewrite (exec_if_false _ _ _ _ T).
      assert (E : MiniPy.eval dp_prim (EAdd (EVar "O_count") (EConst (VInt 1))) r0 = VInt (o + 1)) by (apply eval_add_int; [rewrite eval_var; unfold r0; lk; exact Ho | reflexivity]).
      rewrite (exec_assign_ok _ _ _ _ E eq_refl).
      destruct (IH d (o + 1) (set "O_count" (VInt (o + 1)) r0)) as [r1 [o1 [E1 [H1 [H2 [H3 H4]]]]]]; try (unfold r0; lk; assumption || reflexivity).
      exists r1, o1. split; [exact E1|]. split; [rewrite H1; f_equal; lia|]. split; [exact H2|]. split; [exact H3|]. rewrite H4. unfold r0. lk. reflexivity.
Qed.

(* the number of residues of the disorder-promoting list over the length *)
Theorem fraction_disorder_promoting_tie r : (1 <= N)%nat -> lookup "self.seq" r = VStr cs ->
  MiniPy.exec dp_prim 0 g_fraction_disorder_promoting r = ORet (VQ (Qred (inject_Z (cnt is_dis s) / inject_Z (Z.of_nat N)))).
Proof.
  intros HN Hs. rewrite exec_spine. change (spine g_fraction_disorder_promoting) with dp_spine.
  change dp_spine with [nth 0 dp_spine SSkip; nth 1 dp_spine SSkip; SAssign "D_count" (EConst (VInt 0)); SAssign "O_count" (EConst (VInt 0));
                        SFor "i" (EVar "self.seq") dp_body; SReturn (ECall "qdiv" [EVar "D_count"; ELen (EVar "self.seq")])].
  rewrite exec_list_cons. cbn [nth dp_spine]. rewrite (exec_assign_ok _ _ _ d_list) by reflexivity.
  rewrite exec_list_cons. match goal with |- context [MiniPy.exec dp_prim 0 (SAssign "O" ?e) ?rr] => rewrite (exec_assign_ok "O" e rr (MiniPy.eval dp_prim e rr) eq_refl eq_refl) end.
  rewrite exec_list_cons, (exec_assign_ok _ _ _ (VInt 0)) by reflexivity.
  rewrite exec_list_cons, (exec_assign_ok _ _ _ (VInt 0)) by reflexivity.
  match goal with |- context [MiniPy.exec_list dp_prim 0 _ ?rr] => set (r4 := rr) end.
  rewrite exec_list_cons, exec_for, eval_var. replace (lookup "self.seq" r4) with (VStr cs) by (unfold r4; lk; now rewrite Hs). cbn [elements].
  destruct (dp_loop s 0 0 r4) as [r5 [o5 [E5 [Hd5 [Ho5 [HD5 Hs5]]]]]]; try (unfold r4; lk; reflexivity).
  rewrite E5, exec_list_cons. cbn [Z.add] in Hd5.
  assert (Hs5' : lookup "self.seq" r5 = VStr cs) by (rewrite Hs5; unfold r4; lk; exact Hs).
  assert (Ev : MiniPy.eval dp_prim (ECall "qdiv" [EVar "D_count"; ELen (EVar "self.seq")]) r5 = VQ (Qred (inject_Z (cnt is_dis s) / inject_Z (Z.of_nat N)))).
  { rewrite (eval_call2 _ _ _ _ (VInt (cnt is_dis s)) (VN N) (eq_trans (eval_var _ _) Hd5)); [| cbn [MiniPy.eval]; rewrite Hs5'; now rewrite map_length | reflexivity | reflexivity].
    unfold dp_prim. cbn [String.eqb Ascii.eqb Bool.eqb qdiv_prim as_Q].
    replace (Qeq_bool (inject_Z (Z.of_nat N)) 0) with false; [reflexivity|]. symmetry. apply not_true_is_false. intros C. apply Qeq_bool_iff in C.
    unfold Qeq, inject_Z in C. cbn in C. lia. }
  rewrite (exec_return_ok _ _ _ Ev eq_refl). reflexivity.
Qed.
End Disorder.

(* ---------- amino_acid_fraction ---------- *)
Section Fractions.
Definition order20 : list aa := [Ala; Cys; Asp; Glu; Phe; Gly; His; Ile; Lys; Leu; Met; Asn; Pro; Gln; Arg; Ser; Thr; Val; Trp; Tyr].
Definition dmap (f : aa -> value) : list (value * value) := map (fun a => (VStr [aa_char a], f a)) order20.
Definition aadict0 : value := Eval vm_compute in match g_amino_acid_fraction with SSeq (SAssign _ (EConst d)) _ => d | _ => VNone end.
Lemma aadict0_eq : aadict0 = VDict (dmap (fun _ => VInt 0)). Proof. reflexivity. Qed.
Lemma dmap_ext f g : (forall b, f b = g b) -> dmap f = dmap g.
Proof. intros H. unfold dmap. apply map_ext. intros b. now rewrite H. Qed.
Lemma dmap_ext_in f g : (forall b, In b order20 -> f b = g b) -> dmap f = dmap g.
Proof. intros H. unfold dmap. apply map_ext_in. intros b Hb. now rewrite (H b Hb). Qed.
Lemma dget a f : dict_get (VStr [aa_char a]) (dmap f) = Some (f a). Proof. destruct a; reflexivity. Qed.
Lemma dset a f v : dict_set (VStr [aa_char a]) v (dmap f) = dmap (fun b => if aa_eqb b a then v else f b). Proof. destruct a; reflexivity. Qed.
Definition af_prim (name : string) (args : list value) : value := if String.eqb name "qdiv" then qdiv_prim args else VErr.
Definition af_body1 : stmt := SSetItem "AADICT" (EVar "i") (EAdd (EIndex (EVar "AADICT") (EVar "i")) (EConst (VInt 1))).
Definition af_body2 : stmt := SSetItem "AADICT" (EVar "i") (ECall "qdiv" [EIndex (EVar "AADICT") (EVar "i"); ELen (EVar "self.seq")]).

Lemma af_loop1 : forall (t : list aa) (c : aa -> Z) r, lookup "AADICT" r = VDict (dmap (fun b => VInt (c b))) ->
  exists r', MiniPy.run_loop af_prim 0 "i" af_body1 (map (fun ch => VStr [ch]) (map aa_char t)) r = ONorm r' /\
    lookup "AADICT" r' = VDict (dmap (fun b => VInt (c b + cnt (aa_eqb b) t))) /\ lookup "self.seq" r' = lookup "self.seq" r.
Proof.
  induction t as [|a t IH]; intros c r Hd.
  - exists r. cbn [map MiniPy.run_loop cnt]. split; [reflexivity|]. split; [|reflexivity]. rewrite Hd. f_equal. apply dmap_ext. intros b. now rewrite Z.add_0_r.
  - cbn [map MiniPy.run_loop]. set (r0 := set "i" (VStr [aa_char a]) r).
    assert (Ei : MiniPy.eval af_prim (EIndex (EVar "AADICT") (EVar "i")) r0 = VInt (c a)).
    { apply (eval_index_dict _ _ _ (dmap (fun b => VInt (c b))) (VStr [aa_char a])); [rewrite eval_var; unfold r0; lk; exact Hd | rewrite eval_var; unfold r0; lk; reflexivity | reflexivity | apply dget]. }
    unfold af_body1 at 1.
    rewrite (exec_setitem_dict "AADICT" _ _ r0 (dmap (fun b => VInt (c b))) (VStr [aa_char a]) (VInt (c a + 1)));
      [| unfold r0; lk; exact Hd | rewrite eval_var; unfold r0; lk; reflexivity | apply eval_add_int; [exact Ei | reflexivity] | reflexivity | reflexivity].
    rewrite dset.
    destruct (IH (fun b => if aa_eqb b a then c a + 1 else c b) (set "AADICT" (VDict (dmap (fun b => if aa_eqb b a then VInt (c a + 1) else VInt (c b)))) r0)) as [r1 [E1 [H1 H2]]].
    { lk. f_equal. apply dmap_ext. intros b. destruct (aa_eqb b a); reflexivity. }
    exists r1. split; [exact E1|]. split.
    + rewrite H1. f_equal. apply dmap_ext. intros b. cbn [cnt]. f_equal.
      destruct (aa_eqb b a) eqn:Eb; [|lia]. assert (b = a) by (destruct a, b; try discriminate Eb; reflexivity). subst b. lia.
    + rewrite H2. unfold r0. lk. reflexivity.
Qed.

Definition frq (c : aa -> Z) (b : aa) : value := VQ (Qred (inject_Z (c b) / inject_Z (Z.of_nat N))).

Lemma af_loop2 (c : aa -> Z) : (1 <= N)%nat -> forall (t pre : list aa) r, order20 = pre ++ t -> NoDup order20 ->
  lookup "AADICT" r = VDict (dmap (fun b => if existsb (aa_eqb b) pre then frq c b else VInt (c b))) -> lookup "self.seq" r = VStr cs ->
  exists r', MiniPy.run_loop af_prim 0 "i" af_body2 (map (fun a => VStr [aa_char a]) t) r = ONorm r' /\
    lookup "AADICT" r' = VDict (dmap (fun b => if existsb (aa_eqb b) (pre ++ t) then frq c b else VInt (c b))).
Proof.
  intros HN. induction t as [|a t IH]; intros pre r Ho Hnd Hd Hs.
  - exists r. cbn [map MiniPy.run_loop]. now rewrite app_nil_r.
  - cbn [map MiniPy.run_loop]. set (r0 := set "i" (VStr [aa_char a]) r).
    assert (Hna : existsb (aa_eqb a) pre = false).
    { apply not_true_is_false. intros C. apply existsb_exists in C. destruct C as [x [Hx Ex]].
      assert (x = a) by (destruct a, x; try discriminate Ex; reflexivity). subst x.
      rewrite Ho in Hnd. apply NoDup_remove_2 in Hnd. apply Hnd. apply in_or_app. now left. }
    set (f0 := fun b => if existsb (aa_eqb b) pre then frq c b else VInt (c b)).
    assert (Ei : MiniPy.eval af_prim (EIndex (EVar "AADICT") (EVar "i")) r0 = VInt (c a)).
    { apply (eval_index_dict _ _ _ (dmap f0) (VStr [aa_char a])); [rewrite eval_var; unfold r0; lk; exact Hd | rewrite eval_var; unfold r0; lk; reflexivity | reflexivity |].
      rewrite dget. unfold f0. now rewrite Hna. }
    assert (Ev : MiniPy.eval af_prim (ECall "qdiv" [EIndex (EVar "AADICT") (EVar "i"); ELen (EVar "self.seq")]) r0 = frq c a).
    { rewrite (eval_call2 _ _ _ _ (VInt (c a)) (VN N) Ei); [| cbn [MiniPy.eval]; unfold r0; lk; rewrite Hs; now rewrite map_length | reflexivity | reflexivity].
      unfold af_prim. cbn [String.eqb Ascii.eqb Bool.eqb qdiv_prim as_Q]. unfold frq.
      replace (Qeq_bool (inject_Z (Z.of_nat N)) 0) with false; [reflexivity|]. symmetry. apply not_true_is_false. intros C. apply Qeq_bool_iff in C.
      unfold Qeq, inject_Z in C. cbn in C. lia. }
    unfold af_body2 at 1.
    rewrite (exec_setitem_dict "AADICT" _ _ r0 (dmap f0) (VStr [aa_char a]) (frq c a));
      [| unfold r0; lk; exact Hd | rewrite eval_var; unfold r0; lk; reflexivity | exact Ev | reflexivity | reflexivity].
    rewrite dset.
    destruct (IH (pre ++ [a]) (set "AADICT" (VDict (dmap (fun b => if aa_eqb b a then frq c a else f0 b))) r0)) as [r1 [E1 H1]].
    { rewrite <- app_assoc. exact Ho. } { exact Hnd. }
    { lk. f_equal. apply dmap_ext. intros b. rewrite existsb_app. cbn [existsb]. rewrite orb_false_r. unfold f0.
      destruct (aa_eqb b a) eqn:Eb.
      - assert (b = a) by (destruct a, b; try discriminate Eb; reflexivity). subst b. now rewrite orb_true_r.
      - now rewrite orb_false_r. }
    { lk. unfold r0. lk. exact Hs. }
    exists r1. split; [exact E1|]. rewrite H1, <- app_assoc. reflexivity.
Qed.

(* the twenty fractions on EVERY non-empty sequence: for each letter, its number of occurrences over the length *)
Theorem amino_acid_fraction_tie r : (1 <= N)%nat -> lookup "self.seq" r = VStr cs ->
  MiniPy.exec af_prim 0 g_amino_acid_fraction r = ORet (VDict (dmap (frq (fun b => cnt (aa_eqb b) s)))).
Proof.
  intros HN Hs. unfold g_amino_acid_fraction. fold aadict0.
  rewrite exec_seq, (exec_assign_ok _ _ _ aadict0) by reflexivity.
  set (r0 := set "AADICT" aadict0 r).
  rewrite exec_seq, exec_for, eval_var. replace (lookup "self.seq" r0) with (VStr cs) by (unfold r0; lk; now rewrite Hs). cbn [elements].
  destruct (af_loop1 s (fun _ => 0) r0) as [r1 [E1 [H1 Hs1]]]; [unfold r0; lk; apply aadict0_eq|].
  fold af_body1. rewrite E1. cbn [Z.add] in H1.
  rewrite exec_seq, exec_for, eval_var, H1. cbn [elements].
  assert (Ek : map fst (dmap (fun b => VInt (cnt (aa_eqb b) s))) = map (fun a => VStr [aa_char a]) order20) by (unfold dmap; rewrite map_map; reflexivity).
  rewrite Ek.
  destruct (af_loop2 (fun b => cnt (aa_eqb b) s) HN order20 [] r1 eq_refl) as [r2 [E2 H2]].
  { unfold order20. repeat constructor; cbn [In]; intuition discriminate. }
  { exact H1. } { rewrite Hs1. unfold r0. lk. exact Hs. }
  fold af_body2. rewrite E2. apply exec_return_ok; [|reflexivity]. rewrite eval_var, H2. cbn [app]. reflexivity.
Qed.
End Fractions.
End Comp.
Print Assumptions amino_acid_fraction_tie.
Print Assumptions uverskyHydropathy_tie.
Print Assumptions meanWWHydropathy_tie.
Print Assumptions FPPII_chain_tie.
Print Assumptions molecular_weight_tie.
Print Assumptions fraction_disorder_promoting_tie.
Print Assumptions meanHydropathy_tie.

Lemma is_dis_spec a : is_dis a = existsb (aa_eqb a) Spec.Tables.disorder_promoting.
Proof. destruct a; reflexivity. Qed.

Example composition_runs : let s := [Lys; Gly; Pro; Trp] in
  MiniPy.exec dp_prim 0 g_fraction_disorder_promoting [("self.seq"%string, VStr (map aa_char s))] = ORet (VQ (3 # 4)) /\
  MiniPy.exec noprim 0 g_molecular_weight [("self.seq"%string, VStr (map aa_char s))] = ORet (VQ (Qred (fold_left (sstep mw_of) s (0 # 1) - Qred ((18 # 1) * 3)))).
Proof. split; vm_compute; reflexivity. Qed.
