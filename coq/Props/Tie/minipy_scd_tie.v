(* Tie (C07) — SEMANTIC: Sequence.sequence_charge_decoration, translated from the working tree on every run into a
   Core.MiniPy term (two nested range loops, indexing of the charge pattern, the accumulation, the final division).
   np.power(d, 0.5) is an ORACLE R; products, sums and the division are read as exact rational arithmetic.  For EVERY
   charge pattern and EVERY R the translated code returns (sum over m = 2..N, n = 1..m-1 of q_m q_n R(m-n)) / N,
   accumulated in the code's order; with R = sqrt this is the Sawle-Ghosh pair sum SCD_R of Props/C07. *)
From Coq Require Import List String Ascii ZArith QArith Qreduction Bool Arith Lia.
From LC Require Import Core.Residue Core.Lists Core.MiniPy Gen.GMiniPy.
Import ListNotations.
Local Open Scope Z_scope.

Notation VN k := (VInt (Z.of_nat k)).
Ltac lk := repeat (rewrite lookup_set_eq || rewrite lookup_set_neq by reflexivity).

Section SCD.
Variable R : Z -> Q.                  (* np.power(d, 0.5) *)
Variable p : list Z.                  (* self.chargePattern *)
Local Notation N := (List.length p).

Definition sc_prim (name : string) (args : list value) : value :=
  if String.eqb name "np.power" then match args with [VInt d; VQ _] => VQ (R d) | _ => VErr end
  else if String.eqb name "qdiv" then
    match args with
    | [a; b] => match as_Q a, as_Q b with
                | Some x, Some y => if Qeq_bool y 0 then VExc else VQ (Qred (x / y))
                | _, _ => VErr
                end
    | _ => VErr
    end
  else VErr.
Local Notation exec := (MiniPy.exec sc_prim 0).
Local Notation eval := (MiniPy.eval sc_prim).

Inductive numv : value -> Q -> Prop := NI z : numv (VInt z) (inject_Z z) | NQ q : numv (VQ q) q.

Definition q_at (i : nat) : Z := nth (i - 1) p 0.
Definition term (m n : nat) : Q := Qred (inject_Z (q_at m * q_at n) * R (Z.of_nat m - Z.of_nat n)).
Definition inner (m : nat) (a : Q) : Q := fold_left (fun a n => Qred (a + term m n)) (seq 1 (m - 1)) a.
Definition outer : Q := fold_left (fun a m => inner m a) (seq 2 (N - 1)) 0%Q.

Definition sc_spine : list stmt := Eval vm_compute in spine g_SCD.
Definition sc_inner : stmt := Eval vm_compute in match nth 1 sc_spine SSkip with SFor _ _ b => b | _ => SSkip end.
Definition sc_body : stmt := Eval vm_compute in match sc_inner with SFor _ _ b => b | _ => SSkip end.
Lemma sc_parts : sc_spine = [SAssign "total" (EConst (VInt 0));
                             SFor "m" (ERange (EConst (VInt 2)) (EAdd (EVar "self.len") (EConst (VInt 1)))) sc_inner;
                             SReturn (ECall "qdiv" [EVar "total"; EVar "self.len"])].
Proof. reflexivity. Qed.

Lemma idx (i : nat) : (1 <= i <= N)%nat -> index_val (map VInt p) (Z.of_nat i - 1) = Some (VInt (q_at i)).
Proof.
  intros H. unfold index_val, q_at. rewrite map_length.
  replace (Z.of_nat i - 1 <? 0) with false by (symmetry; apply Z.ltb_ge; lia).
  replace ((Z.of_nat i - 1 <? 0) || (Z.of_nat N <=? Z.of_nat i - 1)) with false
    by (symmetry; apply orb_false_iff; split; [apply Z.ltb_ge | apply Z.leb_gt]; lia).
  replace (Z.to_nat (Z.of_nat i - 1)) with (i - 1)%nat by lia. rewrite nth_error_map, (nth_error_nth' _ 0); [reflexivity | lia].
Qed.

(* total = total + q[m-1] * q[n-1] * power(m - n, 0.5) *)
Lemma sc_step (m n : nat) av a r : (1 <= n)%nat -> (n < m)%nat -> (m <= N)%nat -> numv av a ->
  lookup "self.chargePattern" r = VList (map VInt p) -> lookup "m" r = VN m -> lookup "n" r = VN n -> lookup "total" r = av ->
  exec sc_body r = ONorm (set "total" (VQ (Qred (a + term m n))) r).
Proof.
  intros Hn Hnm Hm Ha Hp Hmm Hnn Hav. unfold sc_body. apply exec_assign_ok; [|reflexivity].
  assert (Em : eval (EIndex (EVar "self.chargePattern") (ESub (EVar "m") (EConst (VInt 1)))) r = VInt (q_at m)).
  { apply (eval_index_list _ _ _ (map VInt p) (Z.of_nat m - 1)); [rewrite eval_var; exact Hp | apply eval_sub_int; [rewrite eval_var; exact Hmm | reflexivity] | apply idx; lia]. }
  assert (En : eval (EIndex (EVar "self.chargePattern") (ESub (EVar "n") (EConst (VInt 1)))) r = VInt (q_at n)).
  { apply (eval_index_list _ _ _ (map VInt p) (Z.of_nat n - 1)); [rewrite eval_var; exact Hp | apply eval_sub_int; [rewrite eval_var; exact Hnn | reflexivity] | apply idx; lia]. }
  assert (Ep : eval (ECall "np.power" [ESub (EVar "m") (EVar "n"); EConst (VQ (1 # 2))]) r = VQ (R (Z.of_nat m - Z.of_nat n))).
  { rewrite (eval_call2 _ _ _ _ (VInt (Z.of_nat m - Z.of_nat n)) (VQ (1 # 2))); [reflexivity | apply eval_sub_int; rewrite eval_var; assumption | reflexivity | reflexivity | reflexivity]. }
  assert (Et : eval (EMul (EMul (EIndex (EVar "self.chargePattern") (ESub (EVar "m") (EConst (VInt 1)))) (EIndex (EVar "self.chargePattern") (ESub (EVar "n") (EConst (VInt 1)))))
                          (ECall "np.power" [ESub (EVar "m") (EVar "n"); EConst (VQ (1 # 2))])) r = VQ (term m n)).
  { apply eval_mul_int_Q; [apply eval_mul_int; assumption | exact Ep]. }
  destruct Ha as [z|x]; [apply eval_add_Q_int_l | apply eval_add_Q]; try exact Et; rewrite eval_var; exact Hav.
Qed.

Lemma sc_inner_run (m : nat) : (m <= N)%nat -> forall (ns : list nat) av a r, (forall n, In n ns -> (1 <= n < m)%nat) -> numv av a ->
  lookup "self.chargePattern" r = VList (map VInt p) -> lookup "m" r = VN m -> lookup "total" r = av ->
  exists r' av', MiniPy.run_loop sc_prim 0 "n" sc_body (map (fun n => VN n) ns) r = ONorm r' /\
    lookup "total" r' = av' /\ numv av' (fold_left (fun a n => Qred (a + term m n)) ns a) /\
    lookup "self.chargePattern" r' = VList (map VInt p) /\ lookup "m" r' = VN m /\ lookup "self.len" r' = lookup "self.len" r.
Proof.
  intros Hm. induction ns as [|n ns IH]; intros av a r Hin Ha Hp Hmm Hav.
  - exists r, av. cbn [map MiniPy.run_loop fold_left]. repeat split; assumption || reflexivity.
  - cbn [map MiniPy.run_loop fold_left].
    destruct (Hin n (or_introl eq_refl)) as [H1 H2].
    rewrite (sc_step m n av a (set "n" (VN n) r) H1 H2 Hm Ha) by (lk; assumption || reflexivity).
    destruct (IH (VQ (Qred (a + term m n))) (Qred (a + term m n)) (set "total" (VQ (Qred (a + term m n))) (set "n" (VN n) r)))
      as [r' [av' [E [H3 [H4 [H5 [H6 H7]]]]]]]; try (lk; assumption || reflexivity).
    { intros n' Hn'. apply Hin. now right. } { constructor. }
    exists r', av'. split; [exact E|]. split; [exact H3|]. split; [exact H4|]. split; [exact H5|]. split; [exact H6|]. rewrite H7. lk. reflexivity.
Qed.

Lemma sc_outer_run : forall (ms : list nat) av a r, (forall m, In m ms -> (2 <= m <= N)%nat) -> numv av a ->
  lookup "self.chargePattern" r = VList (map VInt p) -> lookup "total" r = av ->
  exists r' av', MiniPy.run_loop sc_prim 0 "m" sc_inner (map (fun m => VN m) ms) r = ONorm r' /\
    lookup "total" r' = av' /\ numv av' (fold_left (fun a m => inner m a) ms a) /\ lookup "self.len" r' = lookup "self.len" r.
Proof.
  induction ms as [|m ms IH]; intros av a r Hin Ha Hp Hav.
  - exists r, av. cbn [map MiniPy.run_loop fold_left]. repeat split; assumption || reflexivity.
  - cbn [map MiniPy.run_loop fold_left]. destruct (Hin m (or_introl eq_refl)) as [H1 H2].
    set (r0 := set "m" (VN m) r).
    change (MiniPy.exec sc_prim 0 sc_inner r0) with (MiniPy.exec sc_prim 0 (SFor "n" (ERange (EConst (VInt 1)) (EVar "m")) sc_body) r0). rewrite exec_for.
    assert (Er : eval (ERange (EConst (VInt 1)) (EVar "m")) r0 = VList (map (fun n => VN n) (seq 1 (m - 1)))).
    { rewrite (eval_range _ _ _ 1 (Z.of_nat m)); [| reflexivity | rewrite eval_var; unfold r0; lk; reflexivity].
      replace (Z.to_nat (Z.of_nat m - 1)) with (m - 1)%nat by lia. f_equal. rewrite <- seq_shift, map_map. apply map_ext. intros k. f_equal. lia. }
    rewrite Er. cbn [elements].
    destruct (sc_inner_run m H2 (seq 1 (m - 1)) av a r0) as [r1 [av1 [E1 [Ht1 [Nt1 [Hp1 [Hm1 Hl1]]]]]]]; try (unfold r0; lk; assumption || reflexivity).
    { intros n Hn. apply in_seq in Hn. lia. }
    rewrite E1. fold (inner m a) in Nt1.
    destruct (IH av1 (inner m a) r1) as [r2 [av2 [E2 [Ht2 [Nt2 Hl2]]]]]; try assumption.
    { intros m' Hm'. apply Hin. now right. }
    exists r2, av2. split; [exact E2|]. split; [exact Ht2|]. split; [exact Nt2|]. rewrite Hl2, Hl1. unfold r0. lk. reflexivity.
Qed.

(* SCD on EVERY non-empty charge pattern, WHATEVER np.power returns *)
Theorem SCD_tie r : (1 <= N)%nat -> lookup "self.len" r = VN N -> lookup "self.chargePattern" r = VList (map VInt p) ->
  exec g_SCD r = ORet (VQ (Qred (outer / inject_Z (Z.of_nat N)))).
Proof.
  intros HN Hl Hp. rewrite exec_spine. change (spine g_SCD) with sc_spine. rewrite sc_parts.
  rewrite exec_list_cons, (exec_assign_ok _ _ _ (VInt 0)) by reflexivity.
  set (r0 := set "total" (VInt 0) r).
  rewrite exec_list_cons, exec_for.
  assert (Er : eval (ERange (EConst (VInt 2)) (EAdd (EVar "self.len") (EConst (VInt 1)))) r0 = VList (map (fun m => VN m) (seq 2 (N - 1)))).
  { rewrite (eval_range _ _ _ 2 (Z.of_nat N + 1)); [| reflexivity | apply eval_add_int; [rewrite eval_var; unfold r0; lk; exact Hl | reflexivity]].
    replace (Z.to_nat (Z.of_nat N + 1 - 2)) with (N - 1)%nat by lia. f_equal.
    rewrite <- (seq_shift (N - 1) 1), <- (seq_shift (N - 1) 0), !map_map. apply map_ext. intros k. f_equal. lia. }
  rewrite Er. cbn [elements].
  destruct (sc_outer_run (seq 2 (N - 1)) (VInt 0) 0%Q r0) as [r1 [av1 [E1 [Ht1 [Nt1 Hl1]]]]].
  { intros m Hm. apply in_seq in Hm. lia. } { apply (NI 0). } { unfold r0. lk. exact Hp. } { unfold r0. lk. reflexivity. }
  change (fun k : nat => VInt (Z.of_nat k)) with (fun m : nat => VN m) in E1. rewrite E1. fold outer in Nt1.
  rewrite exec_list_cons.
  assert (Ev : eval (ECall "qdiv" [EVar "total"; EVar "self.len"]) r1 = VQ (Qred (outer / inject_Z (Z.of_nat N)))).
  { assert (Bv : is_bad av1 = false) by (destruct Nt1; reflexivity).
    rewrite (eval_call2 _ _ _ _ av1 (VN N) (eq_trans (eval_var _ _) Ht1)); [| rewrite eval_var, Hl1; unfold r0; lk; exact Hl | exact Bv | reflexivity].
    unfold sc_prim. cbn [String.eqb Ascii.eqb Bool.eqb].
    assert (Ea : as_Q av1 = Some outer) by (destruct Nt1; reflexivity). rewrite Ea. cbn [as_Q].
    replace (Qeq_bool (inject_Z (Z.of_nat N)) 0) with false; [reflexivity|]. symmetry. apply not_true_is_false. intros E. apply Qeq_bool_iff in E.
    unfold Qeq, inject_Z in E. cbn in E. lia. }
  rewrite (exec_return_ok _ _ _ Ev eq_refl). reflexivity.
Qed.

(* the accumulated number is the plain double sum *)
Definition pair_sum : Q :=
  fold_left (fun a m => fold_left (fun a n => (a + inject_Z (q_at m * q_at n)%Z * R (Z.of_nat m - Z.of_nat n)%Z)%Q) (seq 1 (m - 1)) a) (seq 2 (N - 1)) 0%Q.
Lemma inner_eq m : forall ns a b, (a == b)%Q ->
  (fold_left (fun a n => Qred (a + term m n)) ns a == fold_left (fun a n => (a + inject_Z (q_at m * q_at n)%Z * R (Z.of_nat m - Z.of_nat n)%Z)%Q) ns b)%Q.
Proof.
  induction ns as [|n ns IH]; intros a b H; [exact H|]. cbn [fold_left]. apply IH. unfold term. rewrite !Qred_correct, H. reflexivity.
Qed.
Theorem outer_is_pair_sum : (outer == pair_sum)%Q.
Proof.
  unfold outer, pair_sum. generalize (seq 2 (N - 1)). intros ms.
  assert (G : forall a b, (a == b)%Q ->
     (fold_left (fun a m => inner m a) ms a ==
      fold_left (fun a m => fold_left (fun a n => (a + inject_Z (q_at m * q_at n)%Z * R (Z.of_nat m - Z.of_nat n)%Z)%Q) (seq 1 (m - 1)) a) ms b)%Q).
  { induction ms as [|m ms IH]; intros a b H; [exact H|]. cbn [fold_left]. apply IH. unfold inner. apply inner_eq. exact H. }
  apply G. reflexivity.
Qed.
End SCD.
Print Assumptions SCD_tie.
Print Assumptions outer_is_pair_sum.

Definition ex_pat : list Z := [1; -1; 0; 1].
Example SCD_runs : MiniPy.exec (sc_prim (fun d => inject_Z d)) 0 g_SCD [("self.len"%string, VInt 4); ("self.chargePattern"%string, VList (map VInt ex_pat))] =
                   ORet (VQ (Qred (outer (fun d => inject_Z d) ex_pat / inject_Z 4))) /\ (outer (fun d => inject_Z d) ex_pat == inject_Z 0)%Q.
Proof. split; vm_compute; reflexivity. Qed.

(* ---------- the public getters (SequenceParameters) are exactly a return of the backend call with their own arguments ---------- *)
Lemma fw_get_SCD : g_fw_get_SCD = SReturn (ECall "SeqObj.sequence_charge_decoration"%string []). Proof. reflexivity. Qed.
