(* Tie (C10) — SEMANTIC: Sequence.linearDistOfNCPR, linearDistOfFCR, linearDistOfSigma and __check_window_to_length,
   translated from the working tree on every run into Core.MiniPy terms.  For EVERY charge pattern and window the
   translated code rejects exactly when the window is 0 or longer than the sequence, and otherwise returns the position row
   1..N and the value row: flank_start zeros, one value per full window (from the counts of positive / negative entries
   of THAT window), flank_end zeros — with the flanks of Model.Windows.flanks.  np.vstack is the pair of rows; int(a/2)
   is integer division; the guard method is interpreted by running its translated body. *)
From Coq Require Import List String Ascii ZArith QArith Qreduction Bool Arith Lia.
From LC Require Import Core.Residue Core.Lists Core.MiniPy Spec.Delta Model.Windows Gen.GMiniPy.
Import ListNotations.
Local Open Scope Z_scope.

Notation VN k := (VInt (Z.of_nat k)).
Ltac lk := repeat (rewrite lookup_set_eq || rewrite lookup_set_neq by reflexivity).

Section Lin.
Variable cs : list ascii.            (* self.seq (only its length is used, by the guard) *)
Variable p : list Z.                 (* self.chargePattern *)
Variable w : nat.                    (* bloblen *)
Local Notation N := (List.length p).
Hypothesis Hcs : List.length cs = N.

Definition lin_prim (name : string) (args : list value) : value :=
  if String.eqb name "__check_window_to_length" then
    match args with
    | [b] => match MiniPy.exec noprim 0 g_check_window [("self.seq"%string, VStr cs); ("bloblen"%string, b)] with
             | ONorm _ => VNone | ORaise => VExc | _ => VErr end
    | _ => VErr
    end
  else if String.eqb name "int_div" then
    match args with [VInt a; VInt b] => if b =? 0 then VExc else VInt (Z.quot a b) | _ => VErr end
  else if String.eqb name "np.vstack" then
    match args with [VList [a; b]] => VList [a; b] | _ => VErr end
  else if String.eqb name "pow" then
    match args with [VQ q; VInt 2] => VQ (Qred (q * q)) | _ => VErr end
  else VErr.
Local Notation exec := (MiniPy.exec lin_prim 0).
Local Notation eval := (MiniPy.eval lin_prim).

(* the shape shared by the three functions: only the result list's name and the loop body differ *)
Definition lin_ret (res : string) : stmt :=
  SReturn (ECall "np.vstack" [EListLit [ERange (EConst (VInt 1)) (EAdd (EVar "self.len") (EConst (VInt 1)));
                                       EAdd (EAdd (EMul (EListLit [EConst (VInt 0)]) (EVar "flank_start")) (EVar res))
                                            (EMul (EListLit [EConst (VInt 0)]) (EVar "flank_end"))]]).
Definition lin_flanks : stmt :=
  SIf (EEq (EAdd (EMul (EConst (VInt 2)) (EVar "flank")) (EVar "nblobs")) (EVar "self.len"))
      (SSeq (SAssign "flank_start" (EVar "flank")) (SAssign "flank_end" (EVar "flank")))
      (SSeq (SAssign "flank_start" (ESub (EVar "flank") (EConst (VInt 1)))) (SAssign "flank_end" (EVar "flank"))).
Definition lin_stmts (res : string) (body : stmt) : list stmt :=
  [SAssign "$_" (ECall "__check_window_to_length" [EVar "bloblen"]);
   SAssign "nblobs" (EAdd (ESub (EVar "self.len") (EVar "bloblen")) (EConst (VInt 1)));
   SAssign "flank" (ECall "int_div" [EVar "bloblen"; EConst (VInt 2)]);
   lin_flanks;
   SAssign res (EMul (EListLit [EConst (VInt 0)]) (EVar "nblobs"));
   SFor "i" (ERange (EConst (VInt 0)) (EVar "nblobs")) body;
   lin_ret res].

Definition body_of (s : stmt) : stmt :=
  match s with SSeq _ (SSeq _ (SSeq _ (SSeq _ (SSeq _ (SSeq (SFor _ _ b) _))))) => b | _ => SSkip end.
Lemma ncpr_shape : spine g_linNCPR = lin_stmts "blobncpr" (body_of g_linNCPR). Proof. reflexivity. Qed.
Lemma fcr_shape : spine g_linFCR = lin_stmts "blobfcr" (body_of g_linFCR). Proof. reflexivity. Qed.
Lemma sigma_shape : spine g_linSigma = lin_stmts "blobsig" (body_of g_linSigma). Proof. reflexivity. Qed.

(* ---------- the guard ---------- *)
Lemma check_ok r : lookup "bloblen" r = VN w -> (w <= N)%nat -> eval (ECall "__check_window_to_length" [EVar "bloblen"]) r = VNone.
Proof.
  intros Hb Hw. rewrite (eval_call1 _ _ _ (VN w)); [| rewrite eval_var; exact Hb | reflexivity].
  unfold lin_prim. cbn [String.eqb Ascii.eqb Bool.eqb]. unfold g_check_window.
  assert (T : truthy (MiniPy.eval noprim (ELt (ELen (EVar "self.seq")) (EVar "bloblen")) [("self.seq"%string, VStr cs); ("bloblen"%string, VN w)]) = VBool false).
  { cbn [MiniPy.eval lookup String.eqb Ascii.eqb Bool.eqb cmp_int bad2 truthy]. rewrite Hcs. f_equal. apply Z.ltb_ge. lia. }
  rewrite (exec_if_false _ _ _ _ T). reflexivity.
Qed.
Lemma check_raises r : lookup "bloblen" r = VN w -> (N < w)%nat -> eval (ECall "__check_window_to_length" [EVar "bloblen"]) r = VExc.
Proof.
  intros Hb Hw. rewrite (eval_call1 _ _ _ (VN w)); [| rewrite eval_var; exact Hb | reflexivity].
  unfold lin_prim. cbn [String.eqb Ascii.eqb Bool.eqb]. unfold g_check_window.
  assert (T : truthy (MiniPy.eval noprim (ELt (ELen (EVar "self.seq")) (EVar "bloblen")) [("self.seq"%string, VStr cs); ("bloblen"%string, VN w)]) = VBool true).
  { cbn [MiniPy.eval lookup String.eqb Ascii.eqb Bool.eqb cmp_int bad2 truthy]. rewrite Hcs. f_equal. apply Z.ltb_lt. lia. }
  rewrite (exec_if_true _ _ _ _ T). reflexivity.
Qed.

Lemma zeros_rep n : List.concat (repeat [VInt 0] n) = repeat (VInt 0) n.
Proof. induction n as [|n IH]; [reflexivity|]. cbn [repeat List.concat app]. now rewrite IH. Qed.

Lemma list_set_mid {A} (done rest : list A) (x v : A) :
  list_set (done ++ x :: rest) (Z.of_nat (List.length done)) v = Some (done ++ v :: rest).
Proof.
  unfold list_set. rewrite app_length. cbn [List.length].
  replace (Z.of_nat (List.length done) <? 0) with false by (symmetry; apply Z.ltb_ge; lia).
  replace ((Z.of_nat (List.length done) <? 0) || (Z.of_nat (List.length done + S (List.length rest)) <=? Z.of_nat (List.length done))) with false
    by (symmetry; apply orb_false_iff; split; [apply Z.ltb_ge | apply Z.leb_gt]; lia).
  rewrite Nat2Z.id, firstn_app, Nat.sub_diag, firstn_all. cbn [firstn]. rewrite app_nil_r.
  replace (S (List.length done)) with (List.length done + 1)%nat by lia.
  rewrite skipn_app, skipn_all2 by lia. replace (List.length done + 1 - List.length done)%nat with 1%nat by lia. reflexivity.
Qed.

(* ---------- the shared skeleton, for ANY loop body that stores one value per window ---------- *)
Section Generic.
Variable res : string.
Variable body : stmt.
Variable val : list Z -> value.
Hypothesis E1 : String.eqb "self.chargePattern" res = false.
Hypothesis E2 : String.eqb "bloblen" res = false.
Hypothesis E3 : String.eqb "self.len" res = false.
Hypothesis E4 : String.eqb "nblobs" res = false.
Hypothesis E5 : String.eqb "flank_start" res = false.
Hypothesis E6 : String.eqb "flank_end" res = false.
Hypothesis E7 : String.eqb res "i" = false.
Hypothesis val_ok : forall b, is_bad (val b) = false.
Hypothesis body_spec : forall i (done rest : list value) x r, (i + w <= N)%nat -> (1 <= w)%nat -> List.length done = i ->
  lookup "self.chargePattern" r = VList (map VInt p) -> lookup "bloblen" r = VN w -> lookup "i" r = VN i -> lookup res r = VList (done ++ x :: rest) ->
  exists r', exec body r = ONorm r' /\ lookup res r' = VList (done ++ val (blob w i p) :: rest) /\
    lookup "self.chargePattern" r' = lookup "self.chargePattern" r /\ lookup "bloblen" r' = lookup "bloblen" r /\
    lookup "self.len" r' = lookup "self.len" r /\ lookup "nblobs" r' = lookup "nblobs" r /\
    lookup "flank_start" r' = lookup "flank_start" r /\ lookup "flank_end" r' = lookup "flank_end" r.

Ltac lk' := repeat (rewrite lookup_set_eq || rewrite lookup_set_neq by (reflexivity || assumption)).

Lemma lin_loop : (1 <= w)%nat -> forall m k (done : list value) r, (k + m + w = N + 1)%nat -> List.length done = k ->
  lookup "self.chargePattern" r = VList (map VInt p) -> lookup "bloblen" r = VN w -> lookup res r = VList (done ++ repeat (VInt 0) m) ->
  exists r', MiniPy.run_loop lin_prim 0 "i" body (map (fun j => VInt (0 + Z.of_nat j)) (seq k m)) r = ONorm r' /\
    lookup res r' = VList (done ++ map (fun j => val (blob w j p)) (seq k m)) /\
    lookup "self.len" r' = lookup "self.len" r /\ lookup "nblobs" r' = lookup "nblobs" r /\
    lookup "flank_start" r' = lookup "flank_start" r /\ lookup "flank_end" r' = lookup "flank_end" r.
Proof.
  intros Hw. induction m as [|m IH]; intros k done r Hkm Hd Hp Hb Hres.
  - exists r. cbn [seq map MiniPy.run_loop repeat] in *. repeat split; assumption || reflexivity.
  - cbn [seq map MiniPy.run_loop repeat] in *.
    destruct (body_spec k done (repeat (VInt 0) m) (VInt 0) (set "i" (VInt (0 + Z.of_nat k)) r)) as [r1 [Eb [Hr1 [Hp1 [Hb1 [Hl1 [Hn1 [Hs1 He1]]]]]]]]; try assumption; try lia.
    { lk'. exact Hp. } { lk'. exact Hb. } { lk'. reflexivity. } { lk'. exact Hres. }
    rewrite Eb.
    destruct (IH (S k) (done ++ [val (blob w k p)]) r1) as [r2 [Ex2 [Hr2 [Hl2 [Hn2 [Hs2 He2]]]]]]; try lia.
    { rewrite app_length. cbn [List.length]. lia. }
    { rewrite Hp1. lk'. exact Hp. } { rewrite Hb1. lk'. exact Hb. } { rewrite Hr1, <- app_assoc. reflexivity. }
    exists r2. split; [exact Ex2|]. split; [rewrite Hr2, <- app_assoc; reflexivity|].
    rewrite Hl2, Hn2, Hs2, He2, Hl1, Hn1, Hs1, He1. lk'. repeat split; reflexivity.
Qed.

(* the whole function for a window of at least 1: rejection when it is longer than the sequence, else the two rows *)
Theorem lin_generic r : (1 <= w)%nat -> lookup "self.len" r = VN N -> lookup "self.chargePattern" r = VList (map VInt p) -> lookup "bloblen" r = VN w ->
  MiniPy.exec_list lin_prim 0 (lin_stmts res body) r =
  if (N <? w)%nat then ORaise
  else ORet (VList [VList (map (fun j => VN j) (seq 1 N));
                    VList (repeat (VInt 0) (fst (flanks w N)) ++ map val (blobs w p) ++ repeat (VInt 0) (snd (flanks w N)))]).
Proof.
  intros Hw Hlen Hp Hb. unfold lin_stmts. rewrite exec_list_cons.
  destruct (Nat.ltb_spec N w) as [Hlt|Hge].
  { change (exec (SAssign "$_" ?e) r) with (match eval e r with VExc => ORaise | VErr => OErr | v => ONorm (set "$_" v r) end).
    rewrite (check_raises r Hb Hlt). reflexivity. }
  rewrite (exec_assign_ok _ _ _ _ (check_ok r Hb Hge) eq_refl).
  set (r0 := set "$_" VNone r).
  set (nb := (N + 1 - w)%nat).
  assert (En : eval (EAdd (ESub (EVar "self.len") (EVar "bloblen")) (EConst (VInt 1))) r0 = VN nb).
  { rewrite (eval_add_int _ _ _ (Z.of_nat N - Z.of_nat w) 1); [f_equal; unfold nb; lia | | reflexivity].
    apply eval_sub_int; rewrite eval_var; unfold r0; lk; assumption. }
  rewrite exec_list_cons, (exec_assign_ok _ _ _ _ En eq_refl).
  set (r1 := set "nblobs" (VN nb) r0).
  set (f := (w / 2)%nat).
  assert (Ef : eval (ECall "int_div" [EVar "bloblen"; EConst (VInt 2)]) r1 = VN f).
  { rewrite (eval_call2 _ _ _ _ (VN w) (VInt 2)); [| rewrite eval_var; unfold r1, r0; lk; exact Hb | reflexivity | reflexivity | reflexivity].
    unfold lin_prim. cbn [String.eqb Ascii.eqb Bool.eqb Z.eqb]. f_equal. unfold f. rewrite Z.quot_div_nonneg by lia. now rewrite (Nat2Z.inj_div w 2). }
  rewrite exec_list_cons, (exec_assign_ok _ _ _ _ Ef eq_refl).
  set (r2 := set "flank" (VN f) r1).
  (* the flanks *)
  assert (Tf : truthy (eval (EEq (EAdd (EMul (EConst (VInt 2)) (EVar "flank")) (EVar "nblobs")) (EVar "self.len")) r2) = VBool (2 * f + nb =? N)%nat).
  { rewrite (eval_eq_int _ _ _ (2 * Z.of_nat f + Z.of_nat nb) (Z.of_nat N)).
    - cbn [truthy]. f_equal. destruct (Nat.eqb_spec (2 * f + nb) N) as [E|E]; [apply Z.eqb_eq; lia | apply Z.eqb_neq; lia].
    - apply eval_add_int; [| rewrite eval_var; unfold r2, r1; lk; reflexivity].
      apply eval_mul_int; [reflexivity | rewrite eval_var; unfold r2; lk; reflexivity].
    - rewrite eval_var. unfold r2, r1, r0. lk. exact Hlen. }
  rewrite exec_list_cons. unfold lin_flanks.
  assert (Efl : exists r3, exec (SIf (EEq (EAdd (EMul (EConst (VInt 2)) (EVar "flank")) (EVar "nblobs")) (EVar "self.len"))
                                  (SSeq (SAssign "flank_start" (EVar "flank")) (SAssign "flank_end" (EVar "flank")))
                                  (SSeq (SAssign "flank_start" (ESub (EVar "flank") (EConst (VInt 1)))) (SAssign "flank_end" (EVar "flank")))) r2 = ONorm r3 /\
                       lookup "flank_start" r3 = VN (fst (flanks w N)) /\ lookup "flank_end" r3 = VN (snd (flanks w N)) /\
                       (forall x, String.eqb x "flank_start" = false -> String.eqb x "flank_end" = false -> lookup x r3 = lookup x r2)).
  { unfold flanks. fold f. fold nb. destruct (2 * f + nb =? N)%nat eqn:Eq.
    - rewrite (exec_if_true _ _ _ _ Tf). rewrite exec_seq, (exec_assign_ok _ _ _ (VN f)) by (try reflexivity; rewrite eval_var; unfold r2; lk; reflexivity).
      rewrite (exec_assign_ok _ _ _ (VN f)) by (try reflexivity; rewrite eval_var; unfold r2; lk; reflexivity).
      eexists. split; [reflexivity|]. cbn [fst snd]. lk. repeat split; try reflexivity. intros x X1 X2. now rewrite !lookup_set_neq by assumption.
    - rewrite (exec_if_false _ _ _ _ Tf).
      assert (Hf1 : (1 <= f)%nat).
      { apply Nat.eqb_neq in Eq. unfold f, nb in *. destruct (Nat.eq_dec (w mod 2) 0) as [Hm|Hm].
        - pose proof (Nat.div_mod w 2 ltac:(lia)). lia.
        - pose proof (Nat.div_mod w 2 ltac:(lia)). pose proof (Nat.mod_upper_bound w 2 ltac:(lia)). lia. }
      assert (Es : eval (ESub (EVar "flank") (EConst (VInt 1))) r2 = VN (f - 1)).
      { rewrite (eval_sub_int _ _ _ (Z.of_nat f) 1); [f_equal; lia | rewrite eval_var; unfold r2; lk; reflexivity | reflexivity]. }
      rewrite exec_seq, (exec_assign_ok _ _ _ _ Es eq_refl).
      rewrite (exec_assign_ok _ _ _ (VN f)) by (try reflexivity; rewrite eval_var; unfold r2; lk; reflexivity).
      eexists. split; [reflexivity|]. cbn [fst snd]. lk. repeat split; try reflexivity. intros x X1 X2. now rewrite !lookup_set_neq by assumption. }
  destruct Efl as [r3 [Efl [Hfs [Hfe Hfr3]]]]. rewrite Efl.
  (* the result list *)
  assert (Ez : eval (EMul (EListLit [EConst (VInt 0)]) (EVar "nblobs")) r3 = VList (repeat (VInt 0) nb)).
  { rewrite (eval_mul_rep _ _ _ [VInt 0] (Z.of_nat nb)); [now rewrite Nat2Z.id, zeros_rep | reflexivity |].
    rewrite eval_var, Hfr3 by reflexivity. unfold r2, r1. lk. reflexivity. }
  rewrite exec_list_cons, (exec_assign_ok _ _ _ _ Ez eq_refl).
  set (r4 := set res (VList (repeat (VInt 0) nb)) r3).
  rewrite exec_list_cons, exec_for.
  assert (Er : eval (ERange (EConst (VInt 0)) (EVar "nblobs")) r4 = VList (map (fun j => VInt (0 + Z.of_nat j)) (seq 0 nb))).
  { rewrite (eval_range _ _ _ 0 (Z.of_nat nb)); [now rewrite Z.sub_0_r, Nat2Z.id | reflexivity |].
    rewrite eval_var. unfold r4. lk'. rewrite Hfr3 by reflexivity. unfold r2, r1. lk. reflexivity. }
  rewrite Er. cbn [elements].
  destruct (lin_loop Hw nb 0 [] r4) as [r5 [Ex5 [Hr5 [Hl5 [Hn5 [Hs5 He5]]]]]].
  { unfold nb. lia. } { reflexivity. }
  { unfold r4. lk'. rewrite Hfr3 by reflexivity. unfold r2, r1, r0. lk. exact Hp. }
  { unfold r4. lk'. rewrite Hfr3 by reflexivity. unfold r2, r1, r0. lk. exact Hb. }
  { unfold r4. lk'. reflexivity. }
  rewrite Ex5. cbn [app] in Hr5.
  (* the two rows *)
  rewrite exec_list_cons. unfold lin_ret.
  assert (Erow1 : eval (ERange (EConst (VInt 1)) (EAdd (EVar "self.len") (EConst (VInt 1)))) r5 = VList (map (fun j => VN j) (seq 1 N))).
  { rewrite (eval_range _ _ _ 1 (Z.of_nat N + 1)); [| reflexivity |].
    - replace (Z.to_nat (Z.of_nat N + 1 - 1)) with N by lia. f_equal. rewrite <- seq_shift, map_map. apply map_ext. intros j. f_equal. lia.
    - apply eval_add_int; [| reflexivity]. rewrite eval_var, Hl5. unfold r4. lk'. rewrite Hfr3 by reflexivity. unfold r2, r1, r0. lk. exact Hlen. }
  assert (Erow2 : eval (EAdd (EAdd (EMul (EListLit [EConst (VInt 0)]) (EVar "flank_start")) (EVar res)) (EMul (EListLit [EConst (VInt 0)]) (EVar "flank_end"))) r5 =
                  VList (repeat (VInt 0) (fst (flanks w N)) ++ map val (blobs w p) ++ repeat (VInt 0) (snd (flanks w N)))).
  { rewrite (eval_add_list _ _ _ (repeat (VInt 0) (fst (flanks w N)) ++ map val (blobs w p)) (repeat (VInt 0) (snd (flanks w N)))); [now rewrite <- app_assoc | |].
    - apply eval_add_list; [| rewrite eval_var, Hr5; unfold blobs; fold nb; now rewrite map_map].
      rewrite (eval_mul_rep _ _ _ [VInt 0] (Z.of_nat (fst (flanks w N)))); [now rewrite Nat2Z.id, zeros_rep | reflexivity |].
      rewrite eval_var, Hs5. unfold r4. lk'. exact Hfs.
    - rewrite (eval_mul_rep _ _ _ [VInt 0] (Z.of_nat (snd (flanks w N)))); [now rewrite Nat2Z.id, zeros_rep | reflexivity |].
      rewrite eval_var, He5. unfold r4. lk'. exact Hfe. }
  rewrite (exec_return_ok _ _ (VList [VList (map (fun j => VN j) (seq 1 N));
             VList (repeat (VInt 0) (fst (flanks w N)) ++ map val (blobs w p) ++ repeat (VInt 0) (snd (flanks w N)))])); [reflexivity | | reflexivity].
  rewrite (eval_call1 _ _ _ (VList [VList (map (fun j => VN j) (seq 1 N)); VList (repeat (VInt 0) (fst (flanks w N)) ++ map val (blobs w p) ++ repeat (VInt 0) (snd (flanks w N)))]));
    [reflexivity | apply eval_listlit2; [exact Erow1 | exact Erow2 | reflexivity | reflexivity] | reflexivity].
Qed.
End Generic.

(* ---------- the three loop bodies ---------- *)
Lemma enum_len cond (f : Z -> bool) r :
  (forall z k, truthy (eval cond (set "$x" (VInt z) (set "$i" (VInt k) r))) = VBool (f z)) ->
  forall zs k, exists l, enum_list lin_prim "$i" "$x" cond (EVar "$i") k (map VInt zs) r = VList l /\ Z.of_nat (List.length l) = cnt f zs.
Proof.
  intros Hc. induction zs as [|z zs IH]; intros k; [exists []; split; reflexivity|].
  cbn [map enum_list cnt]. rewrite Hc. destruct (IH (k + 1)) as [l [E Hl]]. rewrite E. destruct (f z).
  - cbn [MiniPy.eval]. rewrite lookup_set_neq by reflexivity. rewrite lookup_set_eq. cbn [is_bad].
    exists (VInt k :: l). split; [reflexivity|]. cbn [List.length]. lia.
  - exists l. split; [reflexivity | lia].
Qed.

Lemma count_pos b r : lookup "blob" r = VList (map VInt b) ->
  eval (ELen (EEnumFilter "$i" "$x" (EGt (EVar "$x") (EConst (VInt 0))) (EVar "$i") (EVar "blob"))) r = VInt (npos b).
Proof.
  intros Hb. change (eval (ELen ?a) r) with (match eval a r with VStr s0 => VInt (Z.of_nat (List.length s0)) | VList l => VInt (Z.of_nat (List.length l))
                                      | VDict d => VInt (Z.of_nat (List.length d)) | VExc => VExc | _ => VErr end).
  rewrite eval_enumfilter, eval_var, Hb. cbn [elements].
  destruct (enum_len (EGt (EVar "$x") (EConst (VInt 0))) isposb r) with (zs := b) (k := 0) as [l [E Hl]].
  { intros z k. cbn [MiniPy.eval]. rewrite lookup_set_eq. cbn [cmp_int bad2 truthy]. unfold isposb. now rewrite Z.gtb_ltb. }
  rewrite E. now rewrite Hl.
Qed.
Lemma count_neg b r : lookup "blob" r = VList (map VInt b) ->
  eval (ELen (EEnumFilter "$i" "$x" (ELt (EVar "$x") (EConst (VInt 0))) (EVar "$i") (EVar "blob"))) r = VInt (nneg b).
Proof.
  intros Hb. change (eval (ELen ?a) r) with (match eval a r with VStr s0 => VInt (Z.of_nat (List.length s0)) | VList l => VInt (Z.of_nat (List.length l))
                                      | VDict d => VInt (Z.of_nat (List.length d)) | VExc => VExc | _ => VErr end).
  rewrite eval_enumfilter, eval_var, Hb. cbn [elements].
  destruct (enum_len (ELt (EVar "$x") (EConst (VInt 0))) isnegb r) with (zs := b) (k := 0) as [l [E Hl]].
  { intros z k. cbn [MiniPy.eval]. rewrite lookup_set_eq. reflexivity. }
  rewrite E. now rewrite Hl.
Qed.

Lemma blob_slice i : (i + w <= N)%nat ->
  (match slice_bounds (List.length (map VInt p)) (VN i) (VInt (Z.of_nat i + Z.of_nat w)) with
   | Some (a, b) => VList (firstn (b - a) (skipn a (map VInt p)))
   | None => VErr end) = VList (map VInt (blob w i p)).
Proof.
  intros H. unfold slice_bounds, clip, blob. rewrite map_length.
  replace (Z.of_nat i <? 0) with false by (symmetry; apply Z.ltb_ge; lia).
  replace (Z.of_nat i + Z.of_nat w <? 0) with false by (symmetry; apply Z.ltb_ge; lia).
  replace (Z.to_nat (Z.max 0 (Z.min (Z.of_nat N) (Z.of_nat i)))) with i by lia.
  replace (Z.to_nat (Z.max 0 (Z.min (Z.of_nat N) (Z.of_nat i + Z.of_nat w)))) with (i + w)%nat by lia.
  replace (i + w - i)%nat with w by lia. now rewrite skipn_map, firstn_map.
Qed.

Definition wq : Q := Qred (inject_Z (Z.of_nat w) + 0).
Lemma wq_nonzero : (1 <= w)%nat -> Qeq_bool wq 0 = false.
Proof.
  intros H. apply not_true_is_false. intros E. apply Qeq_bool_iff in E. unfold wq in E. rewrite Qred_correct in E.
  unfold Qeq, Qplus, inject_Z in E. cbn in E. lia.
Qed.

(* the first three statements of every body: the window and its two counts *)
Lemma counts_run (body_tail : stmt) i r : (i + w <= N)%nat ->
  lookup "self.chargePattern" r = VList (map VInt p) -> lookup "bloblen" r = VN w -> lookup "i" r = VN i ->
  let b := blob w i p in
  let r3 := set "bneg" (VInt (nneg b)) (set "bpos" (VInt (npos b)) (set "blob" (VList (map VInt b)) r)) in
  exec (SSeq (SAssign "blob" (ESlice (EVar "self.chargePattern") (EVar "i") (EAdd (EVar "i") (EVar "bloblen"))))
       (SSeq (SAssign "bpos" (ELen (EEnumFilter "$i" "$x" (EGt (EVar "$x") (EConst (VInt 0))) (EVar "$i") (EVar "blob"))))
       (SSeq (SAssign "bneg" (ELen (EEnumFilter "$i" "$x" (ELt (EVar "$x") (EConst (VInt 0))) (EVar "$i") (EVar "blob")))) body_tail))) r =
  exec body_tail r3.
Proof.
  intros Hi Hp Hb Hii b r3.
  assert (Es : eval (ESlice (EVar "self.chargePattern") (EVar "i") (EAdd (EVar "i") (EVar "bloblen"))) r = VList (map VInt b)).
  { rewrite (eval_slice_list _ _ _ _ (map VInt p) (Z.of_nat i) (Z.of_nat i + Z.of_nat w)).
    - apply blob_slice. exact Hi.
    - rewrite eval_var. exact Hp.
    - rewrite eval_var. exact Hii.
    - apply eval_add_int; rewrite eval_var; assumption. }
  rewrite exec_seq, (exec_assign_ok _ _ _ _ Es eq_refl).
  rewrite exec_seq, (exec_assign_ok _ _ _ _ (count_pos b _ (lookup_set_eq _ _ _)) eq_refl).
  rewrite exec_seq, (exec_assign_ok _ _ _ (VInt (nneg b))); [reflexivity | apply count_neg; lk; reflexivity | reflexivity].
Qed.

Definition val_ncpr (b : list Z) : value := VQ (Qred (inject_Z (npos b - nneg b) / wq)).
Definition val_fcr (b : list Z) : value := VQ (Qred (inject_Z (npos b + nneg b) / wq)).

Lemma eval_quot (e1 : expr) d r : eval e1 r = VInt d -> lookup "bloblen" r = VN w -> (1 <= w)%nat ->
  eval (EDiv e1 (EAdd (EVar "bloblen") (EConst (VQ (0 # 1))))) r = VQ (Qred (inject_Z d / wq)).
Proof.
  intros H1 Hb Hw. cbn [MiniPy.eval]. rewrite H1, Hb. cbn [bad2 as_Q]. fold wq. rewrite (wq_nonzero Hw). reflexivity.
Qed.

Theorem linNCPR_tie r : (1 <= w)%nat -> lookup "self.len" r = VN N -> lookup "self.chargePattern" r = VList (map VInt p) -> lookup "bloblen" r = VN w ->
  exec g_linNCPR r =
  if (N <? w)%nat then ORaise
  else ORet (VList [VList (map (fun j => VN j) (seq 1 N));
                    VList (repeat (VInt 0) (fst (flanks w N)) ++ map val_ncpr (blobs w p) ++ repeat (VInt 0) (snd (flanks w N)))]).
Proof.
  intros Hw Hl Hp Hb. rewrite exec_spine, ncpr_shape.
  apply (lin_generic "blobncpr" (body_of g_linNCPR) val_ncpr); try reflexivity; try assumption.
  intros i done rest x r0 Hi Hw1 Hd Hp0 Hb0 Hi0 Hres. cbn [body_of g_linNCPR].
  rewrite (counts_run _ i r0 Hi Hp0 Hb0 Hi0). cbv zeta.
  set (b := blob w i p). set (r3 := set "bneg" _ _).
  rewrite (exec_setitem_list "blobncpr" _ _ r3 (done ++ x :: rest) (Z.of_nat i) (val_ncpr b) (done ++ val_ncpr b :: rest)).
  - eexists. split; [reflexivity|]. unfold r3. lk. repeat split; reflexivity.
  - unfold r3. lk. exact Hres.
  - rewrite eval_var. unfold r3. lk. exact Hi0.
  - apply eval_quot; [| unfold r3; lk; exact Hb0 | exact Hw1].
    apply eval_sub_int; rewrite eval_var; unfold r3; lk; reflexivity.
  - reflexivity.
  - rewrite <- Hd. apply list_set_mid.
Qed.

Theorem linFCR_tie r : (1 <= w)%nat -> lookup "self.len" r = VN N -> lookup "self.chargePattern" r = VList (map VInt p) -> lookup "bloblen" r = VN w ->
  exec g_linFCR r =
  if (N <? w)%nat then ORaise
  else ORet (VList [VList (map (fun j => VN j) (seq 1 N));
                    VList (repeat (VInt 0) (fst (flanks w N)) ++ map val_fcr (blobs w p) ++ repeat (VInt 0) (snd (flanks w N)))]).
Proof.
  intros Hw Hl Hp Hb. rewrite exec_spine, fcr_shape.
  apply (lin_generic "blobfcr" (body_of g_linFCR) val_fcr); try reflexivity; try assumption.
  intros i done rest x r0 Hi Hw1 Hd Hp0 Hb0 Hi0 Hres. cbn [body_of g_linFCR].
  rewrite (counts_run _ i r0 Hi Hp0 Hb0 Hi0). cbv zeta.
  set (b := blob w i p). set (r3 := set "bneg" _ _).
  rewrite (exec_setitem_list "blobfcr" _ _ r3 (done ++ x :: rest) (Z.of_nat i) (val_fcr b) (done ++ val_fcr b :: rest)).
  - eexists. split; [reflexivity|]. unfold r3. lk. repeat split; reflexivity.
  - unfold r3. lk. exact Hres.
  - rewrite eval_var. unfold r3. lk. exact Hi0.
  - apply eval_quot; [| unfold r3; lk; exact Hb0 | exact Hw1].
    apply eval_add_int; rewrite eval_var; unfold r3; lk; reflexivity.
  - reflexivity.
  - rewrite <- Hd. apply list_set_mid.
Qed.

(* the stored values are the model's per-window statistics *)
Lemma wq_eq : (wq == wQ w)%Q.
Proof. unfold wq, wQ. rewrite Qred_correct. ring. Qed.
Lemma val_ncpr_model b : (1 <= w)%nat -> exists q, val_ncpr b = VQ q /\ (q == ncpr_w w b)%Q.
Proof. intros H. eexists. split; [reflexivity|]. unfold ncpr_w. rewrite Qred_correct, wq_eq. reflexivity. Qed.
Lemma val_fcr_model b : (1 <= w)%nat -> exists q, val_fcr b = VQ q /\ (q == fcr_w w b)%Q.
Proof. intros H. eexists. split; [reflexivity|]. unfold fcr_w. rewrite Qred_correct, wq_eq. reflexivity. Qed.

Definition val_sigma (b : list Z) : value :=
  let nq := Qred (inject_Z (npos b - nneg b) / wq) in
  let fq := Qred (inject_Z (npos b + nneg b) / wq) in
  if Qeq_bool fq 0 then VInt 0 else VQ (Qred (Qred (nq * nq) / fq)).

Theorem linSigma_tie r : (1 <= w)%nat -> lookup "self.len" r = VN N -> lookup "self.chargePattern" r = VList (map VInt p) -> lookup "bloblen" r = VN w ->
  exec g_linSigma r =
  if (N <? w)%nat then ORaise
  else ORet (VList [VList (map (fun j => VN j) (seq 1 N));
                    VList (repeat (VInt 0) (fst (flanks w N)) ++ map val_sigma (blobs w p) ++ repeat (VInt 0) (snd (flanks w N)))]).
Proof.
  intros Hw Hl Hp Hb. rewrite exec_spine, sigma_shape.
  apply (lin_generic "blobsig" (body_of g_linSigma) val_sigma); try reflexivity; try assumption.
  intros i done rest x r0 Hi Hw1 Hd Hp0 Hb0 Hi0 Hres. cbn [body_of g_linSigma].
  rewrite (counts_run _ i r0 Hi Hp0 Hb0 Hi0). cbv zeta.
  set (b := blob w i p). set (r3 := set "bneg" _ _).
  set (nq := Qred (inject_Z (npos b - nneg b) / wq)). set (fq := Qred (inject_Z (npos b + nneg b) / wq)).
  assert (En : eval (EDiv (ESub (EVar "bpos") (EVar "bneg")) (EAdd (EVar "bloblen") (EConst (VQ (0 # 1))))) r3 = VQ nq).
  { apply eval_quot; [| unfold r3; lk; exact Hb0 | exact Hw1]. apply eval_sub_int; rewrite eval_var; unfold r3; lk; reflexivity. }
  rewrite exec_seq, (exec_assign_ok _ _ _ _ En eq_refl).
  set (r4 := set "bncpr" (VQ nq) r3).
  assert (Ef : eval (EDiv (EAdd (EVar "bpos") (EVar "bneg")) (EAdd (EVar "bloblen") (EConst (VQ (0 # 1))))) r4 = VQ fq).
  { apply eval_quot; [| unfold r4, r3; lk; exact Hb0 | exact Hw1]. apply eval_add_int; rewrite eval_var; unfold r4, r3; lk; reflexivity. }
  rewrite exec_seq, (exec_assign_ok _ _ _ _ Ef eq_refl).
  set (r5 := set "bfcr" (VQ fq) r4).
  assert (Tz : truthy (eval (EEq (EVar "bfcr") (EConst (VInt 0))) r5) = VBool (Qeq_bool fq 0)).
  { cbn [MiniPy.eval]. unfold r5. lk. reflexivity. }
  assert (Esig : exists r6, exec (SIf (EEq (EVar "bfcr") (EConst (VInt 0))) (SAssign "bsig" (EConst (VInt 0)))
                                    (SAssign "bsig" (EDiv (ECall "pow" [EVar "bncpr"; EConst (VInt 2)]) (EVar "bfcr")))) r5 = ONorm r6 /\
                        r6 = set "bsig" (val_sigma b) r5).
  { unfold val_sigma. cbv zeta. fold nq fq. destruct (Qeq_bool fq 0) eqn:Ez.
    - rewrite (exec_if_true _ _ _ _ Tz). eexists. split; [apply exec_assign_ok; reflexivity | reflexivity].
    - rewrite (exec_if_false _ _ _ _ Tz). eexists. split; [|reflexivity]. apply exec_assign_ok; [|reflexivity].
      assert (Ep : eval (ECall "pow" [EVar "bncpr"; EConst (VInt 2)]) r5 = VQ (Qred (nq * nq))).
      { rewrite (eval_call2 _ _ _ _ (VQ nq) (VInt 2)); [reflexivity | rewrite eval_var; unfold r5, r4; lk; reflexivity | reflexivity | reflexivity | reflexivity]. }
      cbn [MiniPy.eval]. cbn [MiniPy.eval] in Ep. rewrite Ep. unfold r5. lk. cbn [bad2 as_Q]. rewrite Ez. reflexivity. }
  destruct Esig as [r6 [Esig ->]]. rewrite exec_seq, Esig.
  set (r6 := set "bsig" (val_sigma b) r5).
  assert (Bv : is_bad (val_sigma b) = false) by (unfold val_sigma; cbv zeta; destruct (Qeq_bool _ 0); reflexivity).
  rewrite (exec_setitem_list "blobsig" _ _ r6 (done ++ x :: rest) (Z.of_nat i) (val_sigma b) (done ++ val_sigma b :: rest)).
  - eexists. split; [reflexivity|]. unfold r6, r5, r4, r3. lk. repeat split; reflexivity.
  - unfold r6, r5, r4, r3. lk. exact Hres.
  - rewrite eval_var. unfold r6, r5, r4, r3. lk. exact Hi0.
  - rewrite eval_var. unfold r6. lk. reflexivity.
  - exact Bv.
  - rewrite <- Hd. apply list_set_mid.
Qed.
End Lin.
Print Assumptions linSigma_tie.
Print Assumptions linNCPR_tie.
Print Assumptions linFCR_tie.

(* ---------- the translated functions run; the hypotheses are satisfiable ---------- *)
Definition ex_p : list Z := [1; -1; 0; 1; 1; 0; -1].
Definition ex_env (wv : Z) : env :=
  [("self.len"%string, VInt 7); ("self.chargePattern"%string, VList (map VInt ex_p)); ("bloblen"%string, VInt wv)].
Definition ex_cs : list ascii := map aa_char [Lys; Glu; Gly; Lys; Lys; Gly; Glu].
Example lin_runs :
  MiniPy.exec (lin_prim ex_cs) 0 g_linNCPR (ex_env 4) =
    ORet (VList [VList (map VInt [1; 2; 3; 4; 5; 6; 7]); VList [VInt 0; VQ (1 # 4); VQ (1 # 4); VQ (1 # 2); VQ (1 # 4); VInt 0; VInt 0]]) /\
  MiniPy.exec (lin_prim ex_cs) 0 g_linFCR (ex_env 3) =
    ORet (VList [VList (map VInt [1; 2; 3; 4; 5; 6; 7]); VList [VInt 0; VQ (2 # 3); VQ (2 # 3); VQ (2 # 3); VQ (2 # 3); VQ (2 # 3); VInt 0]]) /\
  MiniPy.exec (lin_prim ex_cs) 0 g_linSigma (ex_env 8) = ORaise /\
  Model.Windows.flanks 4 7 = (1, 2)%nat /\ Model.Windows.flanks 3 7 = (1, 1)%nat.
Proof. repeat split; vm_compute; reflexivity. Qed.

(* ---------- the public getters (SequenceParameters) are exactly a return of the backend call with their own arguments ---------- *)
Lemma fw_get_linear_sigma : g_fw_get_linear_sigma = SReturn (ECall "SeqObj.linearDistOfSigma"%string [EVar "blobLen"%string]). Proof. reflexivity. Qed.
Lemma fw_get_linear_NCPR : g_fw_get_linear_NCPR = SReturn (ECall "SeqObj.linearDistOfNCPR"%string [EVar "blobLen"%string]). Proof. reflexivity. Qed.
Lemma fw_get_linear_FCR : g_fw_get_linear_FCR = SReturn (ECall "SeqObj.linearDistOfFCR"%string [EVar "blobLen"%string]). Proof. reflexivity. Qed.
Lemma fw_get_linear_hydropathy : g_fw_get_linear_hydropathy = SReturn (ECall "SeqObj.linearDistOfHydropathy"%string [EVar "blobLen"%string]). Proof. reflexivity. Qed.
Lemma fw_get_linear_sequence_composition : g_fw_get_linear_sequence_composition = SReturn (ECall "SeqObj.linearCompositions"%string [EVar "blobLen"%string; EVar "grps"%string]). Proof. reflexivity. Qed.
