(* Tie (C12) — SEMANTIC: the user-alphabet block of SequenceComplexity.reduce_alphabet (`if len(userAlphabet) > 0:` — the
   dictionary check, the validation loop over TWENTY_AAs, the residue-by-residue application, the first-occurrence
   alphabet loop, the returned pair), translated from the working tree into a Core.MiniPy term on every run, is proved
   for EVERY sequence and EVERY dictionary of strings: it raises exactly when Model.Alphabets.user_accepted is false,
   and otherwise returns the pointwise image of the sequence under uapply and an alphabet that lists exactly the
   images of the 20 residues.  (The 12 predefined cascades: alphabets_tie.v.) *)
From Coq Require Import List String Ascii ZArith Bool Arith Lia.
From LC Require Import Core.Residue Core.MiniPy Model.Alphabets Gen.GMiniPy.
Import ListNotations.
Local Notation exec := (MiniPy.exec noprim 0).
Local Notation exec_list := (MiniPy.exec_list noprim 0).
Local Notation run_loop := (MiniPy.run_loop noprim 0).
Local Notation eval := (MiniPy.eval noprim).
Local Notation la := list_ascii_of_string.
Local Notation sv s := (VStr (la s)).
Local Notation kv a := (VStr [aa_char a]).

(* ---------- reduce_alphabet, user-alphabet branch ---------- *)
(* TWENTY_AAs in the order of the source *)
Definition order_src : list aa :=
  [Arg; His; Lys; Asp; Glu; Ser; Thr; Asn; Gln; Cys; Gly; Pro; Ala; Ile; Leu; Met; Phe; Trp; Tyr; Val].

Definition dict_val (u : udict) : value := VDict (map (fun p => (sv (fst p), sv (snd p))) u).

Definition ru_env (s : list aa) (u : udict) (x conv aav alph val : value) : env :=
  [("self"%string, VNone); ("sequence"%string, VStr (map aa_char s)); ("alphabetSize"%string, VInt 20);
   ("userAlphabet"%string, dict_val u); ("x"%string, x); ("converted"%string, conv); ("aa"%string, aav);
   ("alphabet"%string, alph); ("val"%string, val)].

Definition ru_spine : list stmt := Eval vm_compute in spine g_reduce_user.
Lemma ru_spine_eq : spine g_reduce_user = ru_spine.
Proof. vm_compute. reflexivity. Qed.

Definition sIf : stmt := Eval vm_compute in nth 0 ru_spine SSkip.
Definition sA : stmt := Eval vm_compute in nth 1 ru_spine SSkip.
Definition sB : stmt := Eval vm_compute in nth 2 ru_spine SSkip.
Definition sAl : stmt := Eval vm_compute in nth 3 ru_spine SSkip.
Definition sC : stmt := Eval vm_compute in nth 4 ru_spine SSkip.
Definition sRet : stmt := Eval vm_compute in nth 5 ru_spine SSkip.
Lemma ru_spine_parts : ru_spine = [sIf; sA; sB; sAl; sC; sRet].
Proof. reflexivity. Qed.
Definition bodyA : stmt := Eval vm_compute in match sA with SFor _ _ b => b | _ => SSkip end.
Definition bodyB : stmt := Eval vm_compute in match sB with SFor _ _ b => b | _ => SSkip end.
Definition bodyC : stmt := Eval vm_compute in match sC with SFor _ _ b => b | _ => SSkip end.
Definition keys20 : expr := Eval vm_compute in match sA with SFor _ e _ => e | _ => EConst VNone end.
Lemma sA_eq : sA = SFor "x" keys20 bodyA. Proof. reflexivity. Qed.
Lemma sB_eq : sB = SFor "x" (EVar "sequence") bodyB. Proof. reflexivity. Qed.
Lemma sC_eq : sC = SFor "x" keys20 bodyC. Proof. reflexivity. Qed.
Lemma keys20_elems r : elements (eval keys20 r) = Some (map (fun a => kv a) order_src).
Proof. reflexivity. Qed.

Ltac mr := cbn [MiniPy.exec MiniPy.eval lookup set String.eqb Ascii.eqb Bool.eqb truthy v_not cmp_int bad2 is_bad as_Q
                ru_env orb negb].

Lemma la_eqb a b : ascii_list_eqb (la a) (la b) = String.eqb a b.
Proof.
  revert b. induction a as [|c a IH]; intros [|d b]; cbn [la ascii_list_eqb String.eqb]; try reflexivity.
  rewrite IH. destruct (Ascii.eqb c d); reflexivity.
Qed.
Lemma kv_sv a : kv a = sv (aa_str a).
Proof. destruct a; reflexivity. Qed.
Lemma dict_get_assoc k u : dict_get (sv k) (map (fun p => (sv (fst p), sv (snd p))) u) = option_map (fun x => sv x) (assoc k u).
Proof.
  induction u as [|[k' v] u IH]; [reflexivity|]. cbn [map dict_get assoc fst snd].
  change (veqb (sv k) (sv k')) with (ascii_list_eqb (la k) (la k')). rewrite la_eqb.
  destruct (String.eqb k k'); [reflexivity | exact IH].
Qed.

Definition in20 (v : string) : bool := existsb (String.eqb v) (map aa_str order_src).
Lemma in20_val v : existsb (veqb (sv v)) (map (fun a => kv a) order_src) = in20 v.
Proof.
  unfold in20. induction order_src as [|a l IH]; [reflexivity|]. cbn [map existsb]. rewrite IH. f_equal.
  rewrite kv_sv. change (veqb (sv v) (sv (aa_str a))) with (ascii_list_eqb (la v) (la (aa_str a))). apply la_eqb.
Qed.

Definition ok_key (u : udict) (a : aa) : bool :=
  match assoc (aa_str a) u with Some v => in20 v | None => false end.
Definition val_of (u : udict) (a : aa) : string := match assoc (aa_str a) u with Some v => v | None => EmptyString end.

(* loop A: validation of the 20 keys *)
Lemma stepA s u x conv aav alph val a :
  exec bodyA (set "x" (kv a) (ru_env s u x conv aav alph val)) =
  if ok_key u a then ONorm (ru_env s u (kv a) (sv (val_of u a)) aav alph val) else ORaise.
Proof.
  unfold bodyA, ok_key, val_of. mr. unfold dict_val. rewrite kv_sv, dict_get_assoc.
  destruct (assoc (aa_str a) u) as [v|]; cbn [option_map]; mr; [|reflexivity].
  match goal with |- context [v_in (sv v) (VList ?l)] =>
    change (v_in (sv v) (VList l)) with (VBool (existsb (veqb (sv v)) (map (fun a => kv a) order_src))) end.
  rewrite in20_val. destruct (in20 v); mr; reflexivity.
Qed.

Lemma loopA s u aav alph val ks : forall x conv,
  if forallb (ok_key u) ks
  then exists x' conv', run_loop "x" bodyA (map (fun a => kv a) ks) (ru_env s u x conv aav alph val) = ONorm (ru_env s u x' conv' aav alph val)
  else run_loop "x" bodyA (map (fun a => kv a) ks) (ru_env s u x conv aav alph val) = ORaise.
Proof.
  induction ks as [|a ks IH]; intros x conv; cbn [forallb map MiniPy.run_loop].
  - exists x, conv. reflexivity.
  - rewrite stepA. destruct (ok_key u a); cbn [andb]; [apply IH | reflexivity].
Qed.

(* loop B: the residues of the sequence, one by one *)
Lemma stepB s u x conv l alph val a : ok_key u a = true ->
  exec bodyB (set "x" (kv a) (ru_env s u x conv (VList l) alph val)) = ONorm (ru_env s u (kv a) conv (VList (l ++ [sv (val_of u a)])) alph val).
Proof.
  intros Hok. unfold bodyB, ok_key, val_of in *. mr. unfold dict_val. rewrite kv_sv, dict_get_assoc.
  destruct (assoc (aa_str a) u) as [v|]; [|discriminate]. cbn [option_map]. mr. reflexivity.
Qed.

Lemma loopB s u conv alph val : (forall a, ok_key u a = true) -> forall t x l,
  exists x', run_loop "x" bodyB (map (fun a => kv a) t) (ru_env s u x conv (VList l) alph val) =
             ONorm (ru_env s u x' conv (VList (l ++ map (fun a => sv (val_of u a)) t)) alph val).
Proof.
  intros Hok. induction t as [|a t IH]; intros x l; cbn [map MiniPy.run_loop].
  - exists x. now rewrite app_nil_r.
  - rewrite (stepB _ _ _ _ _ _ _ _ (Hok a)). destruct (IH (kv a) (l ++ [sv (val_of u a)])) as [x' E]. exists x'. rewrite E, <- app_assoc. reflexivity.
Qed.

(* loop C: the alphabet, first occurrences in the order of TWENTY_AAs *)
Definition addnew (acc : list string) (v : string) : list string := if existsb (String.eqb v) acc then acc else acc ++ [v].

Lemma in_strs_val v acc : existsb (veqb (sv v)) (map (fun x => sv x) acc) = existsb (String.eqb v) acc.
Proof.
  induction acc as [|x acc IH]; [reflexivity|]. cbn [map existsb]. rewrite IH. f_equal.
  change (veqb (sv v) (sv x)) with (ascii_list_eqb (la v) (la x)). apply la_eqb.
Qed.

Lemma stepC s u x conv aav acc val a : ok_key u a = true ->
  exec bodyC (set "x" (kv a) (ru_env s u x conv aav (VList (map (fun x => sv x) acc)) val)) =
  ONorm (ru_env s u (kv a) conv aav (VList (map (fun x => sv x) (addnew acc (val_of u a)))) (sv (val_of u a))).
Proof.
  intros Hok. unfold bodyC, ok_key, val_of, addnew in *. mr. unfold dict_val. rewrite kv_sv, dict_get_assoc.
  destruct (assoc (aa_str a) u) as [v|]; [|discriminate]. cbn [option_map]. mr.
  change (v_in (sv v) (VList (map (fun x0 => sv x0) acc))) with (VBool (existsb (veqb (sv v)) (map (fun x0 => sv x0) acc))).
  rewrite in_strs_val. destruct (existsb (String.eqb v) acc); mr; [reflexivity|]. rewrite map_app. reflexivity.
Qed.

Lemma loopC s u conv aav : (forall a, ok_key u a = true) -> forall t x acc val,
  exists x' val', run_loop "x" bodyC (map (fun a => kv a) t) (ru_env s u x conv aav (VList (map (fun x => sv x) acc)) val) =
                  ONorm (ru_env s u x' conv aav (VList (map (fun x => sv x) (fold_left addnew (map (val_of u) t) acc))) val').
Proof.
  intros Hok. induction t as [|a t IH]; intros x acc val; cbn [map MiniPy.run_loop fold_left].
  - exists x, val. reflexivity.
  - rewrite (stepC _ _ _ _ _ _ _ _ (Hok a)). apply IH.
Qed.

Lemma for_keys body r : exec (SFor "x" keys20 body) r = run_loop "x" body (map (fun a => kv a) order_src) r.
Proof. rewrite exec_for. reflexivity. Qed.

Lemma join_empty (f : aa -> string) t : join_strs [] (map (fun a => sv (f a)) t) = Some (List.concat (map (fun a => la (f a)) t)).
Proof.
  induction t as [|a t IH]; [reflexivity|]. cbn [map join_strs List.concat]. destruct t as [|b t].
  - cbn [map List.concat]. now rewrite app_nil_r.
  - cbn [map] in *. rewrite IH. reflexivity.
Qed.

(* the user-alphabet block of reduce_alphabet, for EVERY sequence and EVERY dictionary of strings *)
Theorem reduce_user_tie s u :
  exec g_reduce_user (ru_env s u VNone VNone (VList []) VNone VNone) =
  if forallb (ok_key u) order_src
  then ORet (VList [VStr (List.concat (map (fun a => la (val_of u a)) s));
                    VList (map (fun x => sv x) (fold_left addnew (map (val_of u) order_src) []))])
  else ORaise.
Proof.
  rewrite exec_spine, ru_spine_eq, ru_spine_parts. cbn [MiniPy.exec_list].
  change (exec sIf (ru_env s u VNone VNone (VList []) VNone VNone)) with (ONorm (ru_env s u VNone VNone (VList []) VNone VNone)).
  cbv beta iota. rewrite sA_eq, for_keys.
  pose proof (loopA s u (VList []) VNone VNone order_src VNone VNone) as HA.
  destruct (forallb (ok_key u) order_src) eqn:Hacc; [|rewrite HA; reflexivity].
  destruct HA as (x1 & c1 & ->).
  assert (Hok : forall a, ok_key u a = true).
  { intros a. rewrite forallb_forall in Hacc. apply Hacc. destruct a; cbn; tauto. }
  rewrite sB_eq, exec_for.
  change (eval (EVar "sequence") (ru_env s u x1 c1 (VList []) VNone VNone)) with (VStr (map aa_char s)). cbn [elements]. rewrite map_map.
  destruct (loopB s u c1 VNone VNone Hok s x1 []) as [x2 ->]. cbn [app].
  change (exec sAl (ru_env s u x2 c1 (VList (map (fun a => sv (val_of u a)) s)) VNone VNone))
    with (ONorm (ru_env s u x2 c1 (VList (map (fun a => sv (val_of u a)) s)) (VList (map (fun x => sv x) [])) VNone)).
  cbv beta iota. rewrite sC_eq, for_keys.
  destruct (loopC s u c1 (VList (map (fun a => sv (val_of u a)) s)) Hok order_src x2 [] VNone) as (x3 & v3 & ->).
  unfold sRet. mr. rewrite join_empty. reflexivity.
Qed.

(* ---- the same in the model's vocabulary ---- *)
Lemma in20_iff v : in20 v = true <-> exists b, v = aa_str b.
Proof.
  unfold in20. rewrite existsb_exists. split.
  - intros [x [Hin E]]. apply in_map_iff in Hin. destruct Hin as [b [<- _]]. apply String.eqb_eq in E. exists b. exact E.
  - intros [b ->]. exists (aa_str b). split; [apply in_map; destruct b; cbn; tauto | apply String.eqb_refl].
Qed.

Lemma ok_key_ulookup u a : ok_key u a = match ulookup u a with Some _ => true | None => false end.
Proof.
  unfold ok_key, ulookup. destruct (assoc (aa_str a) u) as [v|]; [|reflexivity].
  destruct (in20 v) eqn:E.
  - apply in20_iff in E. destruct E as [b ->]. cbn [aa_str str1 la]. now rewrite aa_of_char_char.
  - destruct (la v) as [|c [|d l]] eqn:El; try reflexivity.
    destruct (aa_of_char c) as [b|] eqn:Ec; [|reflexivity]. exfalso.
    assert (in20 v = true); [|congruence]. apply in20_iff. exists b.
    apply aa_of_char_some in Ec. subst c. destruct v as [|c' [|d' v']]; cbn [la] in El; try discriminate. injection El as ->. reflexivity.
Qed.

Theorem accepted_is_models u : forallb (ok_key u) order_src = user_accepted u.
Proof.
  unfold user_accepted. apply eq_true_iff_eq. rewrite !forallb_forall. split; intros H a _.
  - rewrite <- ok_key_ulookup. apply H. destruct a; cbn; tauto.
  - rewrite ok_key_ulookup. apply H. apply all20_complete.
Qed.

Lemma val_of_uapply u a : ok_key u a = true -> val_of u a = aa_str (uapply u a).
Proof.
  unfold ok_key, val_of, uapply, ulookup. destruct (assoc (aa_str a) u) as [v|]; [|discriminate]. intros E.
  apply in20_iff in E. destruct E as [b ->]. cbn [aa_str str1 la]. now rewrite aa_of_char_char.
Qed.

Theorem reduced_sequence_is_models u s : user_accepted u = true ->
  List.concat (map (fun a => la (val_of u a)) s) = map aa_char (map (uapply u) s).
Proof.
  intros H. rewrite <- accepted_is_models in H. rewrite forallb_forall in H.
  induction s as [|a s IH]; [reflexivity|]. cbn [map List.concat]. rewrite IH, val_of_uapply by (apply H; destruct a; cbn; tauto).
  destruct (uapply u a); reflexivity.
Qed.

Lemma addnew_In acc v x : In x (addnew acc v) <-> In x acc \/ x = v.
Proof.
  unfold addnew. destruct (existsb (String.eqb v) acc) eqn:E.
  - split; [tauto|]. intros [H| ->]; [exact H|]. apply existsb_exists in E. destruct E as [y [Hy Ey]]. apply String.eqb_eq in Ey. now subst.
  - rewrite in_app_iff. cbn. firstorder.
Qed.

Lemma fold_addnew_In vs : forall acc x, In x (fold_left addnew vs acc) <-> In x acc \/ In x vs.
Proof.
  induction vs as [|v vs IH]; intros acc x; cbn [fold_left]; [cbn; tauto|].
  rewrite IH, addnew_In. cbn. firstorder.
Qed.

(* the returned alphabet lists exactly the images of the 20 residues (the model's dedup lists the same set) *)
Theorem alphabet_is_the_image u : user_accepted u = true -> forall x,
  In x (fold_left addnew (map (val_of u) order_src) []) <-> exists a, x = aa_str (uapply u a).
Proof.
  intros H x. rewrite <- accepted_is_models in H. rewrite forallb_forall in H.
  rewrite fold_addnew_In, in_map_iff. split.
  - intros [[]|[a [<- Ha]]]. exists a. apply val_of_uapply. apply H. exact Ha.
  - intros [a ->]. right. exists a. split; [apply val_of_uapply; apply H|]; destruct a; cbn; tauto.
Qed.
Print Assumptions reduce_user_tie.
Print Assumptions alphabet_is_the_image.

(* ---------- the public getters (SequenceParameters) are exactly a return of the backend call with their own arguments ---------- *)
Lemma fw_get_reduced_alphabet_sequence : g_fw_get_reduced_alphabet_sequence = SReturn (ECall "SeqObj.get_reducedAlphabetSequence"%string [EVar "alphabetSize"%string; EVar "userAlphabet"%string]). Proof. reflexivity. Qed.
(* the backend method between the getter and the complexity object: exactly a return of reduce_alphabet(own sequence, size, user alphabet) *)
Lemma fw_get_reducedAlphabetSequence : g_get_reducedAlphabetSequence = SReturn (ECall "ComplexityObject.reduce_alphabet"%string [EVar "self.seq"%string; EVar "alphabetSize"%string; EVar "userAlphabet"%string]). Proof. reflexivity. Qed.
