(* Tie (C20) — SEMANTIC: the body of Sequence.get_HTMLColorString, translated from the working tree into a Core.MiniPy term
   on every run (dictionary lookup, np.mod block tests, %-formatting), is proved equal to Model.Html.m_render for EVERY
   sequence and EVERY palette. *)
From Coq Require Import List String Ascii ZArith Bool Arith Lia.
From LC Require Import Core.Residue Core.MiniPy Model.Html Proofs.Html Gen.GMiniPy.
Import ListNotations.
Local Open Scope Z_scope.
Local Notation exec := (MiniPy.exec noprim 0).
Local Notation exec_list := (MiniPy.exec_list noprim 0).
Local Notation run_loop := (MiniPy.run_loop noprim 0).
Local Notation eval := (MiniPy.eval noprim).
Local Notation la := list_ascii_of_string.

(* ---------- get_HTMLColorString ---------- *)
(* the object's colour map as the code stores it: a dictionary from one-letter strings to colour names *)
Definition pal_dict (pal : palette) : value :=
  VDict (map (fun a => (VStr [aa_char a], VStr (la (pal a)))) all20).

Lemma pal_get pal a : dict_get (VStr [aa_char a]) (map (fun a => (VStr [aa_char a], VStr (la (pal a)))) all20) = Some (VStr (la (pal a))).
Proof. destruct a; reflexivity. Qed.

Definition gh_env (s : list aa) (pal : palette) (acc cnt res col : value) : env :=
  [("self"%string, VNone); ("self.seq"%string, VStr (map aa_char s)); ("self.aminoAcidColorMap"%string, pal_dict pal);
   ("colorString"%string, acc); ("count"%string, cnt); ("residue"%string, res); ("color"%string, col)].

Definition gh_pre : list stmt := Eval vm_compute in match split_at_for g_get_html with Some (p, _, _) => p | None => [] end.
Definition gh_body : stmt := Eval vm_compute in match split_at_for g_get_html with Some (_, (_, _, b), _) => b | None => SSkip end.
Definition gh_rest : stmt := Eval vm_compute in match split_at_for g_get_html with Some (_, _, r) => r | None => SRaise end.
Lemma gh_split_eq : split_at_for g_get_html = Some (gh_pre, ("residue"%string, EVar "self.seq", gh_body), gh_rest).
Proof. vm_compute. reflexivity. Qed.

Ltac mh := cbn [MiniPy.exec MiniPy.eval lookup set String.eqb Ascii.eqb Bool.eqb truthy v_not cmp_int bad2 is_bad as_Q
                gh_env orb negb existsb veqb].

(* the code-shaped step of Model.Html.m_render, on character lists *)
Definition step_la (pal : palette) (st : list ascii * nat) (r : aa) : list ascii * nat :=
  let '(str, count) := st in
  let str1 := if (count mod 10 =? 0)%nat then (str ++ la " ")%list else str in
  let str2 := if (count mod 50 =? 0)%nat then (str1 ++ la "<br>")%list else str1 in
  ((str2 ++ la (span (pal r) r))%list, S count).

Lemma mod_test n k : (0 < k)%nat -> (Z.of_nat n mod Z.of_nat k =? 0) = (n mod k =? 0)%nat.
Proof.
  intros Hk. rewrite <- Nat2Z.inj_mod. destruct (Nat.eqb_spec (n mod k) 0) as [E|E].
  - rewrite E. reflexivity.
  - apply Z.eqb_neq. lia.
Qed.

Lemma span_la c r : la (span c r) = (la "<span style=""color:" ++ la c ++ la """>" ++ [aa_char r] ++ la "</span>")%list.
Proof. unfold span. rewrite !chars_app. destruct r; reflexivity. Qed.

Lemma gh_step s pal acc n res col a :
  exec gh_body (set "residue" (VStr [aa_char a]) (gh_env s pal (VStr acc) (VInt (Z.of_nat n - 1)) res col)) =
  ONorm (gh_env s pal (VStr (fst (step_la pal (acc, n) a))) (VInt (Z.of_nat (S n) - 1)) (VStr [aa_char a]) (VStr (la (pal a)))).
Proof.
  unfold gh_body. mh.
  replace (Z.of_nat n - 1 + 1) with (Z.of_nat n) by lia. replace (Z.of_nat (S n) - 1) with (Z.of_nat n) by lia.
  change 10 with (Z.of_nat 10). change 50 with (Z.of_nat 50).
  change (Z.of_nat 10 =? 0) with false. change (Z.of_nat 50 =? 0) with false. cbv iota.
  mh. unfold step_la, pal_dict. cbn [fst].
  rewrite (mod_test n 10) by lia. destruct (n mod 10 =? 0)%nat; mh;
    rewrite (mod_test n 50) by lia; destruct (n mod 50 =? 0)%nat; mh; rewrite pal_get; mh;
    cbn [format_s Ascii.eqb Bool.eqb option_map la]; rewrite span_la; cbn [la app]; rewrite <- ?app_assoc; reflexivity.
Qed.

Lemma gh_loop s pal l : forall acc n res col, exists res' col',
  run_loop "residue" gh_body (map (fun a => VStr [aa_char a]) l) (gh_env s pal (VStr acc) (VInt (Z.of_nat n - 1)) res col) =
  ONorm (gh_env s pal (VStr (fst (fold_left (step_la pal) l (acc, n)))) (VInt (Z.of_nat (n + List.length l) - 1)) res' col').
Proof.
  induction l as [|a l IH]; intros acc n res col; cbn [map MiniPy.run_loop fold_left].
  - exists res, col. rewrite Nat.add_0_r. reflexivity.
  - rewrite gh_step.
    destruct (IH (fst (step_la pal (acc, n) a)) (S n) (VStr [aa_char a]) (VStr (la (pal a)))) as (res' & col' & E).
    exists res', col'. rewrite E. cbn [List.length]. replace (S n + Datatypes.length l)%nat with (n + S (Datatypes.length l))%nat by lia.
    assert (Hs : step_la pal (acc, n) a = (fst (step_la pal (acc, n) a), S n)) by (unfold step_la; reflexivity).
    rewrite Hs at 2. reflexivity.
Qed.

Lemma fold_la pal s : forall str n,
  la (fst (fold_left (fun (acc : string * nat) r =>
                    let '(str, count) := acc in
                    let str1 := if (count mod 10 =? 0)%nat then (str ++ " ")%string else str in
                    let str2 := if (count mod 50 =? 0)%nat then (str1 ++ "<br>")%string else str1 in
                    ((str2 ++ span (pal r) r)%string, S count)) s (str, n))) =
  fst (fold_left (step_la pal) s (la str, n)).
Proof.
  induction s as [|a s IH]; intros str n; cbn [fold_left]; [reflexivity|].
  unfold step_la at 2. rewrite IH. f_equal. f_equal. f_equal.
  destruct (n mod 10 =? 0)%nat; destruct (n mod 50 =? 0)%nat; rewrite ?chars_app; reflexivity.
Qed.

(* the whole of get_HTMLColorString, for EVERY sequence and palette, is Model.Html.m_render (= render, Proofs/Html) *)
Theorem get_HTMLColorString_tie s pal :
  exec g_get_html (gh_env s pal VNone VNone VNone VNone) = ORet (VStr (la (m_render pal s))).
Proof.
  rewrite (exec_split _ _ _ _ _ _ _ gh_split_eq).
  change (exec_list gh_pre (gh_env s pal VNone VNone VNone VNone))
    with (ONorm (gh_env s pal (VStr (la header)) (VInt (Z.of_nat 0 - 1)) VNone VNone)).
  cbv beta iota. rewrite exec_for.
  change (eval (EVar "self.seq") (gh_env s pal (VStr (la header)) (VInt (Z.of_nat 0 - 1)) VNone VNone)) with (VStr (map aa_char s)).
  cbn [elements]. rewrite map_map.
  destruct (gh_loop s pal s (la header) 0%nat VNone VNone) as (res' & col' & E). rewrite E.
  unfold gh_rest, gh_env. mh. unfold m_render. rewrite chars_app, fold_la. reflexivity.
Qed.
Print Assumptions get_HTMLColorString_tie.
