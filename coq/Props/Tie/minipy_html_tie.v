(* Tie (C20) — SEMANTIC: the body of Sequence.get_HTMLColorString, translated from the working tree into a Core.MiniPy term
   on every run (dictionary lookup, np.mod block tests, %-formatting), is proved equal to Model.Html.m_render for EVERY
   sequence and EVERY palette; the body of set_HTMLColorResiduePalette (two dictionary loops) is proved to raise exactly when
   Model.Html.set_palette rejects, and otherwise to install the colour map of the model's new palette, for EVERY
   dictionary of strings. *)
From Coq Require Import List String Ascii ZArith Bool Arith Lia.
From LC Require Import Core.Residue Core.MiniPy Model.Html Proofs.Html Gen.GMiniPy.
Import ListNotations.
Local Open Scope Z_scope.
Local Notation exec := (MiniPy.exec noprim 0).
Local Notation exec_list := (MiniPy.exec_list noprim 0).
Local Notation run_loop := (MiniPy.run_loop noprim 0).
Local Notation eval := (MiniPy.eval noprim).
Local Notation la := list_ascii_of_string.

(* ---------- get_HTMLColorString ---------- *)
(* the object's colour map as the code stores it: a dictionary from one-letter strings to colour names *)
Definition pal_dict (pal : palette) : value :=
  VDict (map (fun a => (VStr [aa_char a], VStr (la (pal a)))) all20).

Lemma pal_get pal a : dict_get (VStr [aa_char a]) (map (fun a => (VStr [aa_char a], VStr (la (pal a)))) all20) = Some (VStr (la (pal a))).
Proof. destruct a; reflexivity. Qed.

Definition gh_env (s : list aa) (pal : palette) (acc cnt res col : value) : env :=
  [("self"%string, VNone); ("self.seq"%string, VStr (map aa_char s)); ("self.aminoAcidColorMap"%string, pal_dict pal);
   ("colorString"%string, acc); ("count"%string, cnt); ("residue"%string, res); ("color"%string, col)].

Definition gh_pre : list stmt := Eval vm_compute in match split_at_for g_get_html with Some (p, _, _) => p | None => [] end.
Definition gh_body : stmt := Eval vm_compute in match split_at_for g_get_html with Some (_, (_, _, b), _) => b | None => SSkip end.
Definition gh_rest : stmt := Eval vm_compute in match split_at_for g_get_html with Some (_, _, r) => r | None => SRaise end.
Lemma gh_split_eq : split_at_for g_get_html = Some (gh_pre, ("residue"%string, EVar "self.seq", gh_body), gh_rest).
Proof. vm_compute. reflexivity. Qed.

Ltac mh := cbn [MiniPy.exec MiniPy.eval lookup set String.eqb Ascii.eqb Bool.eqb truthy v_not cmp_int bad2 is_bad as_Q
                gh_env orb negb existsb veqb].

(* the code-shaped step of Model.Html.m_render, on character lists *)
Definition step_la (pal : palette) (st : list ascii * nat) (r : aa) : list ascii * nat :=
  let '(str, count) := st in
  let str1 := if (count mod 10 =? 0)%nat then (str ++ la " ")%list else str in
  let str2 := if (count mod 50 =? 0)%nat then (str1 ++ la "<br>")%list else str1 in
  ((str2 ++ la (span (pal r) r))%list, S count).

Lemma mod_test n k : (0 < k)%nat -> (Z.of_nat n mod Z.of_nat k =? 0) = (n mod k =? 0)%nat.
Proof.
  intros Hk. rewrite <- Nat2Z.inj_mod. destruct (Nat.eqb_spec (n mod k) 0) as [E|E].
  - rewrite E. reflexivity.
  - apply Z.eqb_neq. lia.
Qed.

Lemma span_la c r : la (span c r) = (la "<span style=""color:" ++ la c ++ la """>" ++ [aa_char r] ++ la "</span>")%list.
Proof. unfold span. rewrite !chars_app. destruct r; reflexivity. Qed.

Lemma gh_step s pal acc n res col a :
  exec gh_body (set "residue" (VStr [aa_char a]) (gh_env s pal (VStr acc) (VInt (Z.of_nat n - 1)) res col)) =
  ONorm (gh_env s pal (VStr (fst (step_la pal (acc, n) a))) (VInt (Z.of_nat (S n) - 1)) (VStr [aa_char a]) (VStr (la (pal a)))).
Proof.
  unfold gh_body. mh.
  replace (Z.of_nat n - 1 + 1) with (Z.of_nat n) by lia. replace (Z.of_nat (S n) - 1) with (Z.of_nat n) by lia.
  change 10 with (Z.of_nat 10). change 50 with (Z.of_nat 50).
  change (Z.of_nat 10 =? 0) with false. change (Z.of_nat 50 =? 0) with false. cbv iota.
  mh. unfold step_la, pal_dict. cbn [fst].
  rewrite (mod_test n 10) by lia. destruct (n mod 10 =? 0)%nat; mh;
    rewrite (mod_test n 50) by lia; destruct (n mod 50 =? 0)%nat; mh; rewrite pal_get; mh;
    cbn [format_s Ascii.eqb Bool.eqb option_map la]; rewrite span_la; cbn [la app]; rewrite <- ?app_assoc; reflexivity.
Qed.

Lemma gh_loop s pal l : forall acc n res col, exists res' col',
  run_loop "residue" gh_body (map (fun a => VStr [aa_char a]) l) (gh_env s pal (VStr acc) (VInt (Z.of_nat n - 1)) res col) =
  ONorm (gh_env s pal (VStr (fst (fold_left (step_la pal) l (acc, n)))) (VInt (Z.of_nat (n + List.length l) - 1)) res' col').
Proof.
  induction l as [|a l IH]; intros acc n res col; cbn [map MiniPy.run_loop fold_left].
  - exists res, col. rewrite Nat.add_0_r. reflexivity.
  - rewrite gh_step.
    destruct (IH (fst (step_la pal (acc, n) a)) (S n) (VStr [aa_char a]) (VStr (la (pal a)))) as (res' & col' & E).
    exists res', col'. rewrite E. cbn [List.length]. replace (S n + Datatypes.length l)%nat with (n + S (Datatypes.length l))%nat by lia.
    assert (Hs : step_la pal (acc, n) a = (fst (step_la pal (acc, n) a), S n)) by (unfold step_la; reflexivity).
    rewrite Hs at 2. reflexivity.
Qed.

Lemma fold_la pal s : forall str n,
  la (fst (fold_left (fun (acc : string * nat) r =>
                    let '(str, count) := acc in
                    let str1 := if (count mod 10 =? 0)%nat then (str ++ " ")%string else str in
                    let str2 := if (count mod 50 =? 0)%nat then (str1 ++ "<br>")%string else str1 in
                    ((str2 ++ span (pal r) r)%string, S count)) s (str, n))) =
  fst (fold_left (step_la pal) s (la str, n)).
Proof.
  induction s as [|a s IH]; intros str n; cbn [fold_left]; [reflexivity|].
  unfold step_la at 2. rewrite IH. f_equal. f_equal. f_equal.
  destruct (n mod 10 =? 0)%nat; destruct (n mod 50 =? 0)%nat; rewrite ?chars_app; reflexivity.
Qed.

(* the whole of get_HTMLColorString, for EVERY sequence and palette, is Model.Html.m_render (= render, Proofs/Html) *)
Theorem get_HTMLColorString_tie s pal :
  exec g_get_html (gh_env s pal VNone VNone VNone VNone) = ORet (VStr (la (m_render pal s))).
Proof.
  rewrite (exec_split _ _ _ _ _ _ _ gh_split_eq).
  change (exec_list gh_pre (gh_env s pal VNone VNone VNone VNone))
    with (ONorm (gh_env s pal (VStr (la header)) (VInt (Z.of_nat 0 - 1)) VNone VNone)).
  cbv beta iota. rewrite exec_for.
  change (eval (EVar "self.seq") (gh_env s pal (VStr (la header)) (VInt (Z.of_nat 0 - 1)) VNone VNone)) with (VStr (map aa_char s)).
  cbn [elements]. rewrite map_map.
  destruct (gh_loop s pal s (la header) 0%nat VNone VNone) as (res' & col' & E). rewrite E.
  unfold gh_rest, gh_env. mh. unfold m_render. rewrite chars_app, fold_la. reflexivity.
Qed.
Print Assumptions get_HTMLColorString_tie.

(* ---------- set_HTMLColorResiduePalette ---------- *)
Local Notation sv s := (VStr (la s)).
Local Notation kv a := (VStr [aa_char a]).
Definition dict_val (d : list (string * string)) : value := VDict (map (fun p => (sv (fst p), sv (snd p))) d).
Definition pal_val (t : list (aa * string)) : list (value * value) := map (fun p => (kv (fst p), sv (snd p))) t.

Definition sp_env (d : list (string * string)) (valid iv amap : value) : env :=
  [("self"%string, VNone); ("colorDict"%string, dict_val d); ("valid"%string, valid); ("i"%string, iv);
   ("self.aminoAcidColorMap"%string, amap)].

Definition sp_pre : list stmt := Eval vm_compute in match split_at_for g_set_palette with Some (p, _, _) => p | None => [] end.
Definition sp_body : stmt := Eval vm_compute in match split_at_for g_set_palette with Some (_, (_, _, b), _) => b | None => SSkip end.
Definition sp_iter : expr := Eval vm_compute in match split_at_for g_set_palette with Some (_, (_, e, _), _) => e | None => EConst VNone end.
Definition sp_rest : stmt := Eval vm_compute in match split_at_for g_set_palette with Some (_, _, r) => r | None => SRaise end.
Lemma sp_split_eq : split_at_for g_set_palette = Some (sp_pre, ("i"%string, sp_iter, sp_body), sp_rest).
Proof. vm_compute. reflexivity. Qed.
Lemma sp_keys r : elements (eval sp_iter r) = Some (map (fun a => kv a) all20).
Proof. reflexivity. Qed.

Ltac ms := cbn [MiniPy.exec MiniPy.eval lookup set String.eqb Ascii.eqb Bool.eqb truthy v_not cmp_int bad2 is_bad as_Q
                sp_env orb negb].

Lemma la_eqb a b : ascii_list_eqb (la a) (la b) = String.eqb a b.
Proof.
  revert b. induction a as [|c a IH]; intros [|d b]; cbn [la ascii_list_eqb String.eqb]; try reflexivity.
  rewrite IH. destruct (Ascii.eqb c d); reflexivity.
Qed.

Lemma kv_sv a : kv a = sv (aa_str a).
Proof. destruct a; reflexivity. Qed.

Lemma dict_get_assoc k d : dict_get (sv k) (map (fun p => (sv (fst p), sv (snd p))) d) = option_map (fun x => sv x) (assoc k d).
Proof.
  induction d as [|[k' v] d IH]; [reflexivity|]. cbn [map dict_get assoc fst snd].
  change (veqb (sv k) (sv k')) with (ascii_list_eqb (la k) (la k')). rewrite la_eqb.
  destruct (String.eqb k k'); [reflexivity | exact IH].
Qed.

Lemma colours_in c l : existsb (veqb (sv c)) (map (fun x => sv x) l) = in_strs c l.
Proof.
  unfold in_strs. induction l as [|x l IH]; [reflexivity|]. cbn [map existsb].
  change (veqb (sv c) (sv x)) with (ascii_list_eqb (la c) (la x)). rewrite la_eqb, IH. reflexivity.
Qed.

Lemma lower_colour c : in_strs c colours17 = true -> map lower_py (la c) = la c.
Proof.
  intros H. apply in_strs_In in H. cbn [colours17 In] in H.
  repeat (destruct H as [<-|H]; [reflexivity|]). destruct H.
Qed.

Lemma kv_eqb a b : veqb (kv a) (kv b) = aa_eqb a b.
Proof. destruct a, b; reflexivity. Qed.

Lemma pal_get_none a t : ~ In a (map fst t) -> dict_get (kv a) (pal_val t) = None.
Proof.
  induction t as [|[b c] t IH]; intros H; [reflexivity|]. cbn [pal_val map dict_get fst snd]. rewrite kv_eqb.
  destruct (aa_eqb_spec a b) as [->|Hne]; [exfalso; apply H; left; reflexivity|]. apply IH. intros Hin. apply H. right. exact Hin.
Qed.

Lemma dict_set_new k v d : dict_get k d = None -> dict_set k v d = d ++ [(k, v)].
Proof.
  induction d as [|[k' w] d IH]; intros H; [reflexivity|]. cbn [dict_get dict_set] in *.
  destruct (veqb k k'); [discriminate|]. cbn [app]. now rewrite IH.
Qed.

(* first loop: one key *)
Lemma sp_step1 d t iv amap a : ~ In a (map fst t) ->
  exec sp_body (set "i" (kv a) (sp_env d (VDict (pal_val t)) iv amap)) =
  match assoc (aa_str a) d with
  | Some c => if in_strs c colours17 then ONorm (sp_env d (VDict (pal_val (t ++ [(a, c)]))) (kv a) amap) else ORaise
  | None => ORaise
  end.
Proof.
  intros Hnew. unfold sp_body. ms. unfold dict_val.
  change (v_in (kv a) (VDict (map (fun p => (sv (fst p), sv (snd p))) d)))
    with (VBool (match dict_get (kv a) (map (fun p => (sv (fst p), sv (snd p))) d) with Some _ => true | None => false end)).
  rewrite kv_sv, dict_get_assoc. destruct (assoc (aa_str a) d) as [c|] eqn:Ea; cbn [option_map]; ms; [|reflexivity].
  rewrite dict_get_assoc, Ea. cbn [option_map]. ms.
  match goal with |- context [v_in (sv c) (VList ?l)] =>
    change (v_in (sv c) (VList l)) with (VBool (existsb (veqb (sv c)) (map (fun x => sv x) colours17))) end.
  rewrite colours_in. destruct (in_strs c colours17) eqn:Ec; ms; [|reflexivity].
  rewrite !dict_get_assoc, Ea. cbn [option_map]. ms. rewrite (lower_colour c Ec).
  rewrite (dict_set_new _ _ _ (pal_get_none a t Hnew)). unfold pal_val. rewrite map_app. reflexivity.
Qed.


(* first loop: all keys *)
Lemma sp_loop1 d amap rs : forall t iv, NoDup (map fst t ++ rs) ->
  match lookup_rs d rs with
  | Some t' => exists iv', run_loop "i" sp_body (map (fun a => kv a) rs) (sp_env d (VDict (pal_val t)) iv amap) =
                           ONorm (sp_env d (VDict (pal_val (t ++ t'))) iv' amap)
  | None => run_loop "i" sp_body (map (fun a => kv a) rs) (sp_env d (VDict (pal_val t)) iv amap) = ORaise
  end.
Proof.
  induction rs as [|a rs IH]; intros t iv Hnd; cbn [lookup_rs map MiniPy.run_loop].
  - exists iv. now rewrite app_nil_r.
  - assert (Hnew : ~ In a (map fst t)).
    { intros Hin. apply NoDup_remove_2 in Hnd. apply Hnd. apply in_or_app. left. exact Hin. }
    rewrite (sp_step1 d t iv amap a Hnew). destruct (assoc (aa_str a) d) as [c|]; [|reflexivity].
    destruct (in_strs c colours17); [|reflexivity].
    assert (Hnd' : NoDup (map fst (t ++ [(a, c)]) ++ rs)).
    { rewrite map_app. cbn [map fst]. rewrite <- app_assoc. exact Hnd. }
    specialize (IH (t ++ [(a, c)]) (kv a) Hnd'). destruct (lookup_rs d rs) as [t'|].
    + destruct IH as [iv' E]. exists iv'. rewrite E. rewrite <- app_assoc. reflexivity.
    + exact IH.
Qed.

Lemma lookup_rs_keys d rs t : lookup_rs d rs = Some t -> map fst t = rs.
Proof.
  revert t. induction rs as [|a rs IH]; intros t H; cbn [lookup_rs] in H; [injection H as <-; reflexivity|].
  destruct (assoc (aa_str a) d) as [c|]; [|discriminate]. destruct (in_strs c colours17); [|discriminate].
  destruct (lookup_rs d rs) as [t'|]; [|discriminate]. injection H as <-. cbn [map fst]. f_equal. apply IH. reflexivity.
Qed.

Lemma pal_get_some a c pre suf : ~ In a (map fst pre) -> dict_get (kv a) (pal_val (pre ++ (a, c) :: suf)) = Some (sv c).
Proof.
  induction pre as [|[b x] pre IH]; intros H; cbn [app pal_val map dict_get fst snd].
  - rewrite kv_eqb, aa_eqb_refl. reflexivity.
  - rewrite kv_eqb. destruct (aa_eqb_spec a b) as [->|Hne]; [exfalso; apply H; left; reflexivity|].
    apply IH. intros Hin. apply H. right. exact Hin.
Qed.

(* second loop: the validated dictionary is copied, key by key, into a fresh colour map *)
Definition sp_body2 : stmt := SSetItem "self.aminoAcidColorMap" (EVar "i") (EIndex (EVar "valid") (EVar "i")).

Lemma sp_loop2 d t : NoDup (map fst t) -> forall suf pre iv, t = pre ++ suf ->
  exists iv', run_loop "i" sp_body2 (map (fun p => kv (fst p)) suf) (sp_env d (VDict (pal_val t)) iv (VDict (pal_val pre))) =
              ONorm (sp_env d (VDict (pal_val t)) iv' (VDict (pal_val t))).
Proof.
  intros Hnd. induction suf as [|[a c] suf IH]; intros pre iv Ht; cbn [map MiniPy.run_loop fst].
  - exists iv. rewrite app_nil_r in Ht. subst pre. reflexivity.
  - assert (Hnew : ~ In a (map fst pre)).
    { rewrite Ht, map_app in Hnd. cbn [map fst] in Hnd. apply NoDup_remove_2 in Hnd. intros Hin. apply Hnd. apply in_or_app. left. exact Hin. }
    unfold sp_body2. ms.
    replace (dict_get (kv a) (pal_val t)) with (Some (sv c)) by (rewrite Ht; symmetry; apply pal_get_some; exact Hnew). ms.
    rewrite (dict_set_new _ _ _ (pal_get_none a pre Hnew)).
    assert (Ht' : t = (pre ++ [(a, c)]) ++ suf) by (rewrite <- app_assoc; exact Ht).
    destruct (IH (pre ++ [(a, c)]) (kv a) Ht') as [iv' E]. exists iv'. unfold sp_env, pal_val in *. rewrite map_app in E. exact E.
Qed.

Lemma sp_rest_eq : sp_rest = SSeq (SAssign "self.aminoAcidColorMap" (EConst (VDict []))) (SFor "i" (EVar "valid") sp_body2).
Proof. reflexivity. Qed.

(* the whole of set_HTMLColorResiduePalette, for EVERY dictionary of strings: rejected (raise) exactly when the model
   rejects; otherwise the object's colour map becomes the validated dictionary, in the order of the 20 residues *)
Theorem set_palette_tie d amap :
  match lookup_all d with
  | Some t => exists iv, exec g_set_palette (sp_env d VNone VNone amap) =
                         ONorm (sp_env d (VDict (pal_val t)) iv (VDict (pal_val t)))
  | None => exec g_set_palette (sp_env d VNone VNone amap) = ORaise
  end.
Proof.
  rewrite (exec_split _ _ _ _ _ _ _ sp_split_eq).
  change (exec_list sp_pre (sp_env d VNone VNone amap)) with (ONorm (sp_env d (VDict (pal_val [])) VNone amap)).
  cbv beta iota. rewrite exec_for. 
  assert (Hk : forall r, match eval sp_iter r with VExc => ORaise | v => match elements v with None => OErr | Some xs => run_loop "i" sp_body xs r end end
                         = run_loop "i" sp_body (map (fun a => kv a) all20) r) by (intros r; reflexivity).
  rewrite Hk. unfold lookup_all.
  pose proof (sp_loop1 d amap all20 [] VNone) as H1. cbn [map app] in H1. specialize (H1 all20_nodup).
  pose proof (lookup_rs_keys d all20) as Hkeys.
  destruct (lookup_rs d all20) as [t|]; [|rewrite H1; reflexivity].
  destruct H1 as [iv' E]. rewrite E. cbn [app]. rewrite sp_rest_eq, exec_seq.
  change (exec (SAssign "self.aminoAcidColorMap" (EConst (VDict []))) (sp_env d (VDict (pal_val t)) iv' amap))
    with (ONorm (sp_env d (VDict (pal_val t)) iv' (VDict (pal_val [])))).
  cbv beta iota. rewrite exec_for.
  change (eval (EVar "valid") (sp_env d (VDict (pal_val t)) iv' (VDict (pal_val [])))) with (VDict (pal_val t)).
  cbn [elements].
  assert (Hnd : NoDup (map fst t)) by (rewrite (Hkeys t eq_refl); exact all20_nodup).
  destruct (sp_loop2 d t Hnd t [] iv' eq_refl) as [iv'' E2].
  unfold pal_val at 1. rewrite map_map. cbn [fst]. rewrite E2. exists iv''. reflexivity.
Qed.

(* ... and that dictionary is the colour map of the model's new palette: what get_HTMLColorString (minipy_html_tie)
   then renders with *)
Lemma find_own (t : list (aa * string)) : NoDup (map fst t) -> forall p, In p t -> find (fun q => aa_eqb (fst q) (fst p)) t = Some p.
Proof.
  induction t as [|q t IH]; intros Hnd p Hin; [destruct Hin|]. cbn [find]. inversion Hnd as [|? ? Hnotin Hnd']; subst.
  destruct Hin as [->|Hin]; [rewrite aa_eqb_refl; reflexivity|].
  destruct (aa_eqb_spec (fst q) (fst p)) as [E|_]; [|apply IH; assumption].
  exfalso. apply Hnotin. rewrite E. apply in_map. exact Hin.
Qed.

Theorem accepted_palette_is_the_models d pal t : lookup_all d = Some t ->
  VDict (pal_val t) = VDict (map (fun a => (kv a, sv (pal_of t pal a))) all20) /\ set_palette pal d = Some (pal_of t pal).
Proof.
  intros H. split; [|unfold set_palette; rewrite H; reflexivity]. f_equal.
  pose proof (lookup_rs_keys d all20 t H) as Hk. assert (Hnd : NoDup (map fst t)) by (rewrite Hk; exact all20_nodup).
  rewrite <- Hk, map_map. unfold pal_val. apply map_ext_in. intros p Hp. f_equal. f_equal. f_equal.
  unfold pal_of. rewrite (find_own t Hnd p Hp). reflexivity.
Qed.
Print Assumptions set_palette_tie.

(* ---------- the public getters (SequenceParameters) are exactly a return of the backend call with their own arguments ---------- *)
Lemma fw_get_HTMLColorString : g_fw_get_HTMLColorString = SReturn (ECall "SeqObj.get_HTMLColorString"%string []). Proof. reflexivity. Qed.
