(* Tie (C10): guards, flank arithmetic, window counts and per-window formulas of the five
   sliding-window functions, regenerated from the source, equal the model's on complete grids
   (every N <= 40, w in 1..N+3; every blob composition for w <= 12). *)
From Coq Require Import List ZArith QArith Bool Arith.
From LC Require Import Core.Residue Core.Lists Core.QTools Spec.Delta Model.Windows Gen.GSeq.
Import ListNotations.
Local Open Scope Z_scope.

Lemma guards_tie : g_ncpr_guard && g_fcr_guard && g_sigma_guard && g_hydro_guard && g_density_guard = true.
Proof. reflexivity. Qed.

Lemma window_rejected_tie :
  forallb (fun N => forallb (fun w => Bool.eqb (g_window_rejected N w) (N <? w)) (zrange 0 45)) (zrange 0 40) = true.
Proof. vm_compute. reflexivity. Qed.

Definition flank_ok (gs ge gn : Z -> Z -> Z) : bool :=
  forallb (fun N => forallb (fun w =>
     let '(fs, fe) := flanks (Z.to_nat w) (Z.to_nat N) in
     (gs N w =? Z.of_nat fs) && (ge N w =? Z.of_nat fe) && (gn N w =? N - w + 1)) (zrange 1 N)) (zrange 1 40).

Lemma flanks_tie :
  flank_ok g_ncpr_flank_start g_ncpr_flank_end g_ncpr_nblobs &&
  flank_ok g_fcr_flank_start g_fcr_flank_end g_fcr_nblobs &&
  flank_ok g_sigma_flank_start g_sigma_flank_end g_sigma_nblobs &&
  flank_ok g_hydro_flank_start g_hydro_flank_end g_hydro_nblobs &&
  flank_ok g_density_flank_start g_density_flank_end g_density_nblobs = true.
Proof. vm_compute. reflexivity. Qed.

Definition blobcomps (B : Z) : list (Z * Z * Z) :=
  flat_map (fun w => flat_map (fun p => map (fun n => (p, n, w)) (zrange 0 (w - p))) (zrange 0 w)) (zrange 1 B).

Lemma values_tie :
  forallb (fun '(bp, bn, w) =>
     Qeq_bool (g_ncpr_value (qz bp) (qz bn) (qz w)) (inject_Z (bp - bn) / qz w) &&
     Qeq_bool (g_fcr_value (qz bp) (qz bn) (qz w)) (inject_Z (bp + bn) / qz w) &&
     Qeq_bool (g_sigma_value (qz bp) (qz bn) (qz w)) (sigma_c bp bn w)) (blobcomps 12) = true.
Proof. vm_compute. reflexivity. Qed.

Theorem sum_values_tie : forall x w, (g_hydro_value x w == x / w)%Q /\ (g_density_value x w == x / w)%Q.
Proof. intros. unfold g_hydro_value, g_density_value. cbn zeta. split; reflexivity. Qed.

Lemma default_groups_tie :
  Nat.eqb (List.length g_default_groups) (List.length default_groups) &&
  forallb (fun '(g, g') => forallb (fun a => Bool.eqb (mem_aa a g) (mem_aa a g')) all20)
          (combine g_default_groups default_groups) = true.
Proof. vm_compute. reflexivity. Qed.

Print Assumptions sum_values_tie.
