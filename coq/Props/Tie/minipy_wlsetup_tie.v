(* Tie (C18) — SEMANTIC: the set-up of WangLandauMachine.run_normal_WL (every statement before the loop), translated from the
   working tree on every run into a Core.MiniPy term.  Log-file creation / output and the random generator's creation are
   dropped by the translator (the harness cross-checks the files); t.time() is None. *)
From Coq Require Import List String Ascii ZArith QArith Bool Arith Lia.
From LC Require Import Core.Residue Core.MiniPy Model.WL Gen.GMiniPy.
Import ListNotations.
Local Open Scope Z_scope.
Notation VN k := (VInt (Z.of_nat k)).
Ltac lk := repeat (rewrite lookup_set_eq || rewrite lookup_set_neq by reflexivity).
(* ---------- the set-up of run_normal_WL: everything before `while f > self.convergence:` ---------- *)
Section Setup.
Variable rest : string -> list value -> value.     (* oracles: bin centres, np.exp, delta-max search, constructor, kappa, nearest centre *)
Local Notation exec := (MiniPy.exec rest 0).
Local Notation eval := (MiniPy.eval rest).
Variables (n : nat) (seqv bv dmx perm os : value) (k0 : Q) (i0 : nat).
Hypothesis H_bins : rest "getBinCenters" [VN n] = bv.
Hypothesis H_exp : rest "np.exp" [VInt 1] = VN 0.          (* f = e, i.e. exponent k = 0 in the representation f = exp(2^-k) *)
Hypothesis H_san : rest "sanity_check" [] = VNone.
Hypothesis H_dmax : rest ".deltaMax|returnSeqDeltaMax" [seqv; VBool true] = VList [dmx; perm].
Hypothesis H_ctor : rest "Sequence|seq" [perm] = os.
Hypothesis H_kappa : rest ".kappa" [os] = VQ k0.
Hypothesis H_idx : rest "argmin_abs_diff" [bv; VQ k0] = VN i0.
Hypothesis B_bv : is_bad bv = false.
Hypothesis B_seq : is_bad seqv = false.
Hypothesis B_dmx : is_bad dmx = false.
Hypothesis B_perm : is_bad perm = false.
Hypothesis B_os : is_bad os = false.

Lemma su_assign x e b r v : eval e r = v -> is_bad v = false -> exec (SSeq (SAssign x e) b) r = exec b (set x v r).
Proof. intros H H0. rewrite exec_seq, (exec_assign_ok _ _ _ _ H H0). reflexivity. Qed.

Lemma su_const x v b r : is_bad v = false -> exec (SSeq (SAssign x (EConst v)) b) r = exec b (set x v r).
Proof. intros H. apply su_assign; [reflexivity | exact H]. Qed.

Lemma concat_rep (v : value) k : List.concat (repeat [v] k) = repeat v k.
Proof. induction k as [|k IH]; [reflexivity|]. cbn [repeat List.concat app]. now rewrite IH. Qed.

(* the state the loop starts from: g and H all zero with one entry per bin, f = e, all counters zero, the current object built
   from the permutant the delta-max search returns, its kappa's nearest bin *)
Theorem setup_tie r : lookup "self.nbins_actual" r = VN n -> lookup "self.seq" r = seqv ->
  exists r', exec g_wl_setup r = ONorm r' /\
    lookup "bincts" r' = bv /\ lookup "g" r' = VList (repeat (VInt 0) n) /\ lookup "H" r' = VList (repeat (VInt 0) n) /\
    lookup "f" r' = VN 0 /\ lookup "nstep" r' = VInt 0 /\ lookup "niter" r' = VInt 0 /\ lookup "flatcount" r' = VInt 0 /\
    lookup "seqcount" r' = VInt 0 /\ lookup "reject" r' = VInt 0 /\
    lookup "oseq" r' = os /\ lookup "kold" r' = VQ k0 /\ lookup "idx_old" r' = VN i0 /\
    lookup "self.nbins_actual" r' = VN n /\ lookup "self.seq" r' = seqv.
Proof.
  intros Hn Hs. unfold g_wl_setup.
  rewrite (su_const _ VNone _ _ eq_refl). set (r1 := set "globalStartTime" VNone r).
  assert (E2 : eval (ECall "getBinCenters" [EVar "self.nbins_actual"]) r1 = bv).
  { rewrite (eval_call1 _ _ _ (VN n)); [exact H_bins | rewrite eval_var; unfold r1; lk; exact Hn | reflexivity]. }
  rewrite (su_assign _ _ _ _ _ E2 B_bv). set (r2 := set "bincts" bv r1).
  assert (E3 : eval (EMul (EListLit [EConst (VInt 0)]) (EVar "self.nbins_actual")) r2 = VList (repeat (VInt 0) n)).
  { rewrite (eval_mul_rep _ _ _ [VInt 0] (Z.of_nat n)); [| reflexivity | rewrite eval_var; unfold r2, r1; lk; exact Hn].
    rewrite Nat2Z.id, concat_rep. reflexivity. }
  rewrite (su_assign _ _ _ _ _ E3 eq_refl). set (r3 := set "g" (VList (repeat (VInt 0) n)) r2).
  assert (E4 : eval (EMul (EListLit [EConst (VInt 0)]) (EVar "self.nbins_actual")) r3 = VList (repeat (VInt 0) n)).
  { rewrite (eval_mul_rep _ _ _ [VInt 0] (Z.of_nat n)); [| reflexivity | rewrite eval_var; unfold r3, r2, r1; lk; exact Hn].
    rewrite Nat2Z.id, concat_rep. reflexivity. }
  rewrite (su_assign _ _ _ _ _ E4 eq_refl). set (r4 := set "H" (VList (repeat (VInt 0) n)) r3).
  assert (E5 : eval (ECall "np.exp" [EConst (VInt 1)]) r4 = VN 0) by (rewrite (eval_call1 _ _ _ (VInt 1)); [exact H_exp | reflexivity | reflexivity]).
  rewrite (su_assign _ _ _ _ _ E5 eq_refl). set (r5 := set "f" (VN 0) r4).
  rewrite (su_const _ (VInt 0) _ _ eq_refl). set (r6 := set "seqcount" (VInt 0) r5).
  rewrite (su_const _ (VInt 0) _ _ eq_refl). set (r7 := set "nstep" (VInt 0) r6).
  rewrite (su_const _ (VInt 0) _ _ eq_refl). set (r8 := set "niter" (VInt 0) r7).
  rewrite (su_const _ (VInt 0) _ _ eq_refl). set (r9 := set "flatcount" (VInt 0) r8).
  assert (E10 : eval (ECall "sanity_check" []) r9 = VNone) by (rewrite eval_call0; exact H_san).
  rewrite (su_assign _ _ _ _ _ E10 eq_refl). set (r10 := set "$_" VNone r9).
  assert (Ls : lookup "self.seq" r10 = seqv) by (unfold r10, r9, r8, r7, r6, r5, r4, r3, r2, r1; lk; exact Hs).
  assert (E11 : eval (ECall ".deltaMax|returnSeqDeltaMax" [EVar "self.seq"; EConst (VBool true)]) r10 = VList [dmx; perm]).
  { rewrite (eval_call2 _ _ _ _ seqv (VBool true)); [exact H_dmax | rewrite eval_var; exact Ls | reflexivity | exact B_seq | reflexivity]. }
  rewrite exec_seq, exec_seq, (exec_assign_ok _ _ _ _ E11 eq_refl). set (r11 := set "$1" (VList [dmx; perm]) r10).
  assert (E12 : eval (EIndex (EVar "$1") (EConst (VInt 0))) r11 = dmx).
  { apply (eval_index_list _ _ _ [dmx; perm] 0); [rewrite eval_var; unfold r11; lk; reflexivity | reflexivity | reflexivity]. }
  rewrite exec_seq, (exec_assign_ok _ _ _ _ E12 B_dmx). set (r12 := set "oseqDmax" dmx r11).
  assert (E13 : eval (EIndex (EVar "$1") (EConst (VInt 1))) r12 = perm).
  { apply (eval_index_list _ _ _ [dmx; perm] 1); [rewrite eval_var; unfold r12, r11; lk; reflexivity | reflexivity | reflexivity]. }
  rewrite (exec_assign_ok _ _ _ _ E13 B_perm). set (r13 := set "oseqPermut" perm r12).
  assert (E14 : eval (ECall "Sequence|seq" [EVar "oseqPermut"]) r13 = os).
  { rewrite (eval_call1 _ _ _ perm); [exact H_ctor | rewrite eval_var; unfold r13; lk; reflexivity | exact B_perm]. }
  rewrite (su_assign _ _ _ _ _ E14 B_os). set (r14 := set "oseq" os r13).
  assert (E15 : eval (ECall ".kappa" [EVar "oseq"]) r14 = VQ k0).
  { rewrite (eval_call1 _ _ _ os); [exact H_kappa | rewrite eval_var; unfold r14; lk; reflexivity | exact B_os]. }
  rewrite (su_assign _ _ _ _ _ E15 eq_refl). set (r15 := set "kold" (VQ k0) r14).
  assert (E16 : eval (ECall "argmin_abs_diff" [EVar "bincts"; EVar "kold"]) r15 = VN i0).
  { rewrite (eval_call2 _ _ _ _ bv (VQ k0)); [exact H_idx | | rewrite eval_var; unfold r15; lk; reflexivity | exact B_bv | reflexivity].
    rewrite eval_var. unfold r15, r14, r13, r12, r11, r10, r9, r8, r7, r6, r5, r4, r3, r2. lk. reflexivity. }
  rewrite (su_assign _ _ _ _ _ E16 eq_refl). set (r16 := set "idx_old" (VN i0) r15).
  rewrite (su_const _ VNone _ _ eq_refl). set (r17 := set "startTime" VNone r16).
  rewrite (exec_assign_ok "reject" (EConst (VInt 0)) r17 (VInt 0) eq_refl eq_refl).
  eexists. split; [reflexivity|].
  unfold r17, r16, r15, r14, r13, r12, r11, r10, r9, r8, r7, r6, r5, r4, r3, r2, r1. lk.
  repeat split; try reflexivity; assumption.
Qed.
End Setup.
Print Assumptions setup_tie.

(* the model's initial state is this one: zeros per bin, exponent 0, counters 0 *)
Lemma setup_is_wl_init (c : wlcfg) start idx0 : let s := wl_init c start idx0 in
  map (fun q => VInt 0) (gv s) = repeat (VInt 0) (nb_actual c) /\ map VInt (hv s) = repeat (VInt 0) (nb_actual c) /\
  kexp s = 0%nat /\ nstep s = 0%nat /\ niter s = 0%nat /\ idx_old s = idx0 /\ cur s = start /\ Forall (fun q => q = 0%Q) (gv s).
Proof.
  cbn [wl_init gv hv kexp nstep niter idx_old cur]. repeat split.
  - induction (nb_actual c) as [|k IH]; [reflexivity|]. cbn [repeat map]. now rewrite IH.
  - unfold zeros. induction (nb_actual c) as [|k IH]; [reflexivity|]. cbn [repeat map]. now rewrite IH.
  - induction (nb_actual c) as [|k IH]; constructor; [reflexivity | exact IH].
Qed.

(* non-vacuity: the term runs with concrete oracles *)
Example setup_runs :
  match MiniPy.exec (fun f args => if String.eqb f "np.exp" then VInt 0 else if String.eqb f "sanity_check" then VNone
                                   else if String.eqb f ".deltaMax|returnSeqDeltaMax" then VList [VQ (1#2); VStr (list_ascii_of_string "EK")]
                                   else if String.eqb f "argmin_abs_diff" then VInt 1 else VList (VStr (list_ascii_of_string f) :: args))
                    0 g_wl_setup [("self.nbins_actual"%string, VInt 3); ("self.seq"%string, VStr (list_ascii_of_string "KE"))] with
  | ONorm r => (lookup "g" r, lookup "H" r, lookup "f" r, lookup "idx_old" r, lookup "oseq" r)
  | _ => (VErr, VErr, VErr, VErr, VErr)
  end = (VList [VInt 0; VInt 0; VInt 0], VList [VInt 0; VInt 0; VInt 0], VInt 0, VInt 1,
         VList [VStr (list_ascii_of_string "Sequence|seq"); VStr (list_ascii_of_string "EK")]).
Proof. vm_compute. reflexivity. Qed.
