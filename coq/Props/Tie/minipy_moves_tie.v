(* Tie (C17) — SEMANTIC: the constructor core of Sequence.__init__ (stored sequence, length, charge pattern — derived
   from the residue table when none is handed over —, carried delta-max), Sequence.swapRes, Sequence.full_shuffle and
   Sequence.swapRandChargeRes, translated from the working tree on every run into Core.MiniPy terms.  Random draws are
   ORACLES indexed by their call site (each site runs at most once per call, so a function of the arguments is fully
   general); the objects the moves return are built by RUNNING the translated constructor.  For EVERY parent object,
   indices, frozen list and oracle the translated code returns exactly the object the model (Model/Moves.v) computes —
   the theorems of Props/C17.v are about that model. *)
From Coq Require Import List String Ascii ZArith QArith Bool Arith Lia.
From LC Require Import Core.Residue Core.Lists Core.MiniPy Spec.Delta Model.Phospho Model.Moves Proofs.Moves Gen.GMiniPy.
Import ListNotations.
Local Open Scope Z_scope.

Notation chars_val cs := (map (fun c => VStr [c]) cs).
Notation seq_val s := (VStr (map aa_char s)).
Notation pat_val p := (VList (map VInt p)).
Definition dmax_val (d : option Q) : value := match d with None => VInt (-1) | Some q => VQ q end.
Definition obj_val (o : mobj) : value := VList [seq_val (mseq o); pat_val (mpat o); dmax_val (mdmax o)].

(* ---------- generic list facts ---------- *)
Definition upd {A} (l : list A) (i : nat) (v : A) : list A := firstn i l ++ v :: skipn (S i) l.

Lemma list_set_ok {A} (l : list A) i v : (i < List.length l)%nat -> list_set l (Z.of_nat i) v = Some (upd l i v).
Proof.
  intros H. unfold list_set, upd.
  replace (Z.of_nat i <? 0) with false by (symmetry; apply Z.ltb_ge; lia).
  replace ((Z.of_nat i <? 0) || (Z.of_nat (List.length l) <=? Z.of_nat i)) with false
    by (symmetry; apply orb_false_iff; split; [apply Z.ltb_ge | apply Z.leb_gt]; lia).
  now rewrite Nat2Z.id.
Qed.

Lemma upd_length {A} (l : list A) i v : (i < List.length l)%nat -> List.length (upd l i v) = List.length l.
Proof. intros H. unfold upd. rewrite app_length, firstn_length. cbn [List.length]. rewrite skipn_length. lia. Qed.

Lemma nth_firstn' {A} (l : list A) : forall n k, (k < n)%nat -> nth_error (firstn n l) k = nth_error l k.
Proof.
  induction l as [|x l IH]; intros n k H; [rewrite firstn_nil; reflexivity|].
  destruct n as [|n]; [lia|]. destruct k as [|k]; [reflexivity|]. cbn [firstn nth_error]. apply IH. lia.
Qed.
Lemma nth_skipn' {A} (l : list A) : forall n k, nth_error (skipn n l) k = nth_error l (n + k).
Proof.
  induction l as [|x l IH]; intros n k; [rewrite skipn_nil; destruct k, n; reflexivity|].
  destruct n as [|n]; [reflexivity|]. cbn [skipn Nat.add nth_error]. apply IH.
Qed.

Lemma upd_nth {A} (l : list A) i v k : (i < List.length l)%nat ->
  nth_error (upd l i v) k = if Nat.eqb k i then Some v else nth_error l k.
Proof.
  intros H. unfold upd. destruct (Nat.lt_trichotomy k i) as [Hlt|[->|Hgt]].
  - rewrite nth_error_app1 by (rewrite firstn_length; lia). rewrite nth_firstn' by lia.
    now replace (Nat.eqb k i) with false by (symmetry; apply Nat.eqb_neq; lia).
  - rewrite nth_error_app2 by (rewrite firstn_length; lia). rewrite firstn_length.
    replace (i - Nat.min i (List.length l))%nat with 0%nat by lia. now rewrite Nat.eqb_refl.
  - rewrite nth_error_app2 by (rewrite firstn_length; lia). rewrite firstn_length.
    replace (k - Nat.min i (List.length l))%nat with (S (k - S i)) by lia. cbn [nth_error]. rewrite nth_skipn'.
    replace (S i + (k - S i))%nat with k by lia.
    now replace (Nat.eqb k i) with false by (symmetry; apply Nat.eqb_neq; lia).
Qed.

Lemma index_val_ok {A} (l : list A) i : (i < List.length l)%nat -> index_val l (Z.of_nat i) = nth_error l i.
Proof.
  intros H. unfold index_val.
  replace (Z.of_nat i <? 0) with false by (symmetry; apply Z.ltb_ge; lia).
  replace ((Z.of_nat i <? 0) || (Z.of_nat (List.length l) <=? Z.of_nat i)) with false
    by (symmetry; apply orb_false_iff; split; [apply Z.ltb_ge | apply Z.leb_gt]; lia).
  now rewrite Nat2Z.id.
Qed.

Lemma nth_error_ext' {A} (l1 l2 : list A) : (forall k, nth_error l1 k = nth_error l2 k) -> l1 = l2.
Proof.
  revert l2. induction l1 as [|x l1 IH]; intros [|y l2] H; try reflexivity; try (specialize (H 0%nat); discriminate H).
  pose proof (H 0%nat) as H0. cbn in H0. injection H0 as ->. f_equal. apply IH. intros k. exact (H (S k)).
Qed.

Lemma join_chars (cs : list ascii) : join_strs [] (chars_val cs) = Some cs.
Proof.
  induction cs as [|c cs IH]; [reflexivity|]. cbn [map join_strs]. destruct cs as [|d cs]; [reflexivity|].
  cbn [map] in *. rewrite IH. reflexivity.
Qed.

Lemma exec_list_cons prim st l r : MiniPy.exec_list prim 0 (st :: l) r =
  match MiniPy.exec prim 0 st r with ONorm r' => MiniPy.exec_list prim 0 l r' | other => other end.
Proof. reflexivity. Qed.

(* ---------- the index rearrangement of a swap ---------- *)
Definition sw (i j k : nat) : nat := if Nat.eqb k i then j else if Nat.eqb k j then i else k.

Lemma swap_fill i j : i <> j -> forall m a,
  fill2 (seq a m) [i] [j] (if (a <=? i)%nat then [j] else []) (if (a <=? j)%nat then [i] else []) = map (sw i j) (seq a m).
Proof.
  intros Hij. induction m as [|m IH]; intros a; [reflexivity|]. cbn [seq fill2 map]. unfold memn at 1 2. cbn [existsb]. rewrite !orb_false_r.
  unfold sw at 1. destruct (Nat.eqb_spec a i) as [->|Hai].
  - rewrite Nat.leb_refl. f_equal. specialize (IH (S i)).
    replace (S i <=? i)%nat with false in IH by (symmetry; apply Nat.leb_gt; lia).
    replace (S i <=? j)%nat with (i <=? j)%nat in IH; [exact IH|].
    destruct (Nat.leb_spec i j), (Nat.leb_spec (S i) j); try reflexivity; lia.
  - destruct (Nat.eqb_spec a j) as [->|Haj].
    + rewrite Nat.leb_refl. f_equal. specialize (IH (S j)).
      replace (S j <=? j)%nat with false in IH by (symmetry; apply Nat.leb_gt; lia).
      replace (S j <=? i)%nat with (j <=? i)%nat in IH; [exact IH|].
      destruct (Nat.leb_spec j i), (Nat.leb_spec (S j) i); try reflexivity; lia.
    + f_equal. specialize (IH (S a)).
      replace (S a <=? i)%nat with (a <=? i)%nat in IH by (destruct (Nat.leb_spec a i), (Nat.leb_spec (S a) i); try reflexivity; lia).
      replace (S a <=? j)%nat with (a <=? j)%nat in IH by (destruct (Nat.leb_spec a j), (Nat.leb_spec (S a) j); try reflexivity; lia).
      exact IH.
Qed.

Lemma swap_idx_map n i j : i <> j -> swap_idx n i j = map (sw i j) (seq 0 n).
Proof. intros H. unfold swap_idx. exact (swap_fill i j H n 0%nat). Qed.

Lemma swap_idx_sym n i j : i <> j -> swap_idx n i j = swap_idx n j i.
Proof.
  intros H. rewrite !swap_idx_map by auto. apply map_ext. intros k. unfold sw.
  destruct (Nat.eqb_spec k i), (Nat.eqb_spec k j); try reflexivity; lia.
Qed.

Lemma nth_error_map_seq {B} (f : nat -> B) n : forall a k,
  nth_error (map f (seq a n)) k = if (k <? n)%nat then Some (f (a + k)%nat) else None.
Proof.
  induction n as [|n IH]; intros a k; [destruct k; reflexivity|]. cbn [seq map]. destruct k as [|k]; cbn [nth_error].
  - now rewrite Nat.add_0_r.
  - rewrite IH. replace (S a + k)%nat with (a + S k)%nat by lia. reflexivity.
Qed.

Lemma rearrange_swap_nth {A} (d : A) (l : list A) i j k : i <> j -> (i < List.length l)%nat -> (j < List.length l)%nat ->
  nth_error (rearrange d l (swap_idx (List.length l) i j)) k = nth_error l (sw i j k).
Proof.
  intros Hij Hi Hj. unfold rearrange. rewrite swap_idx_map by exact Hij. rewrite map_map, nth_error_map_seq. cbn [Nat.add].
  destruct (Nat.ltb_spec k (List.length l)) as [Hk|Hk].
  - symmetry. apply nth_error_nth'. unfold sw. destruct (Nat.eqb k i), (Nat.eqb k j); lia.
  - symmetry. apply nth_error_None. unfold sw. destruct (Nat.eqb_spec k i), (Nat.eqb_spec k j); lia.
Qed.

Lemma rearrange_map {A B} (f : A -> B) (d : A) (l : list A) ix : rearrange (f d) (map f l) ix = map f (rearrange d l ix).
Proof. unfold rearrange. rewrite map_map. apply map_ext. intros k. apply map_nth. Qed.

(* l[i], l[j] = l[j], l[i] as the code performs it, on the image of a list under f *)
Lemma upd_swap {A B} (f : A -> B) (d : A) (l : list A) i j ai aj : i <> j ->
  nth_error l i = Some ai -> nth_error l j = Some aj ->
  upd (upd (map f l) i (f aj)) j (f ai) = map f (rearrange d l (swap_idx (List.length l) i j)).
Proof.
  intros Hij Ei Ej.
  assert (Hi : (i < List.length l)%nat) by (apply nth_error_Some; congruence).
  assert (Hj : (j < List.length l)%nat) by (apply nth_error_Some; congruence).
  apply nth_error_ext'. intros k.
  rewrite upd_nth by (rewrite upd_length; rewrite map_length; lia).
  rewrite upd_nth by (rewrite map_length; lia).
  rewrite !nth_error_map, rearrange_swap_nth by assumption. unfold sw.
  destruct (Nat.eqb_spec k j) as [->|Hkj].
  - replace (Nat.eqb j i) with false by (symmetry; apply Nat.eqb_neq; lia). now rewrite Ei.
  - destruct (Nat.eqb_spec k i) as [->|Hki]; [now rewrite Ej | reflexivity].
Qed.

(* ---------- Sequence.__init__ up to `self.dmax = dmax` (validateSeq=False: how the moves construct their children) ---------- *)
(* the residue table as charge_tie establishes it *)
Definition charge_prim (name : string) (args : list value) : value :=
  if String.eqb name "lookUpCharge" then
    match args with [VStr [c]] => match aa_of_char c with Some a => VInt (chg a) | None => VExc end | _ => VErr end
  else VErr.

Definition ctor_env (seq dmax cp sseq slen scp sdmax i : value) : env :=
  [("self"%string, VNone); ("seq"%string, seq); ("dmax"%string, dmax); ("chargePattern"%string, cp);
   ("validateSeq"%string, VBool false); ("self.seq"%string, sseq); ("self.len"%string, slen);
   ("self.chargePattern"%string, scp); ("self.dmax"%string, sdmax); ("i"%string, i)].

Lemma upper_residue a : upper_py (aa_char a) = aa_char a.
Proof. destruct a; reflexivity. Qed.
Lemma upper_residues s : map upper_py (map aa_char s) = map aa_char s.
Proof. rewrite map_map. apply map_ext. apply upper_residue. Qed.

Section Ctor.
Local Notation exec := (MiniPy.exec charge_prim 0).
Local Notation run_loop := (MiniPy.run_loop charge_prim 0).

Definition ic_spine : list stmt := Eval vm_compute in spine g_init_core.
Definition ic_loop_body : stmt := Eval vm_compute in
  match nth 5 ic_spine SSkip with SIf _ (SSeq (SFor _ _ b) _) _ => b | _ => SSkip end.
Definition ic_loop : stmt := SFor "i" (ERange (EConst (VInt 0)) (EVar "self.len")) ic_loop_body.
Definition ic_if : stmt := SIf (EEq (ELen (EVar "chargePattern")) (EConst (VInt 0))) (SSeq ic_loop (SAssign "self.chargePattern" (EVar "chargePattern"))) SSkip.
Lemma ic_parts : spine g_init_core =
  [SIf (ENot (EIsStr (EVar "seq"))) SRaise SSkip;
   SIf (EVar "validateSeq") (SSeq (SAssign "seq" (EUpper (EVar "seq"))) (SAssign "seq" (ECall "validateSequence" [EVar "seq"]))) SSkip;
   SAssign "self.seq" (EUpper (EVar "seq")); SAssign "self.len" (ELen (EVar "seq"));
   SAssign "self.chargePattern" (EVar "chargePattern"); ic_if;
   SAssign "self.dmax" (EVar "dmax")].
Proof. reflexivity. Qed.

Variable s : list aa.
Variable d : value.

Lemma ic_loop_run : forall t pre acc i0, s = pre ++ t ->
  exists i1, run_loop "i" ic_loop_body (map (fun k => VInt (Z.of_nat (List.length pre) + Z.of_nat k)) (seq 0 (List.length t)))
    (ctor_env (seq_val s) d (pat_val acc) (seq_val s) (VInt (Z.of_nat (List.length s))) (VList []) VNone i0) =
  ONorm (ctor_env (seq_val s) d (pat_val (acc ++ pat t)) (seq_val s) (VInt (Z.of_nat (List.length s))) (VList []) VNone i1).
Proof.
  induction t as [|a t IH]; intros pre acc i0 Hs.
  - exists i0. cbn [List.length seq map MiniPy.run_loop pat]. now rewrite app_nil_r.
  - cbn [List.length]. rewrite <- cons_seq, <- seq_shift. cbn [map MiniPy.run_loop]. rewrite map_map.
    assert (Hix : index_val (map aa_char s) (Z.of_nat (List.length pre) + Z.of_nat 0) = Some (aa_char a)).
    { replace (Z.of_nat (List.length pre) + Z.of_nat 0) with (Z.of_nat (List.length pre)) by lia.
      rewrite index_val_ok by (rewrite map_length, Hs, app_length; cbn [List.length]; lia).
      rewrite nth_error_map, Hs, nth_error_app2 by lia. now rewrite Nat.sub_diag. }
    unfold ic_loop_body at 1.
    cbn [MiniPy.exec MiniPy.eval lookup set String.eqb Ascii.eqb Bool.eqb truthy ctor_env existsb orb].
    rewrite Hix. cbn [bad2 charge_prim String.eqb Ascii.eqb Bool.eqb existsb orb is_bad]. rewrite aa_of_char_char.
    destruct (IH (pre ++ [a]) (acc ++ [chg a]) (VInt (Z.of_nat (List.length pre) + Z.of_nat 0))) as [i1 E].
    { rewrite <- app_assoc. exact Hs. }
    exists i1. rewrite app_length in E. cbn [List.length] in E.
    replace (acc ++ pat (a :: t)) with ((acc ++ [chg a]) ++ pat t) by (rewrite <- app_assoc; reflexivity).
    rewrite <- E. clear E.
    replace (map (fun x => VInt (Z.of_nat (List.length pre) + Z.of_nat (S x))) (seq 0 (List.length t)))
       with (map (fun k => VInt (Z.of_nat (List.length pre + 1) + Z.of_nat k)) (seq 0 (List.length t)))
       by (apply map_ext; intros k; f_equal; lia).
    rewrite map_app. cbn [map].
    destruct a; cbn [chg cmp_int bad2 truthy as_Q Z.gtb Z.ltb Z.compare MiniPy.exec MiniPy.eval lookup set String.eqb Ascii.eqb Bool.eqb is_bad ctor_env];
      reflexivity.
Qed.

(* the constructor core on EVERY residue word, ANY delta-max value and ANY charge pattern handed over: the stored
   sequence and length are the word's, the stored pattern is the one handed over unless that is empty — then it is the
   residue table applied to the STORED sequence, position by position —, delta-max is carried as given *)
Theorem init_core_tie (p : list Z) : is_bad d = false ->
  exists i1, exec g_init_core (ctor_env (seq_val s) d (pat_val p) VNone VNone VNone VNone VNone) =
  let p' := match p with [] => pat s | _ => p end in
  ONorm (ctor_env (seq_val s) d (pat_val p') (seq_val s) (VInt (Z.of_nat (List.length s))) (pat_val p') d i1).
Proof.
  intros Hd. rewrite exec_spine, ic_parts. cbn zeta.
  cbn [MiniPy.exec_list MiniPy.exec MiniPy.eval lookup set String.eqb Ascii.eqb Bool.eqb truthy v_not ctor_env negb].
  rewrite upper_residues, !map_length.
  unfold ic_if at 1. rewrite exec_if.
  cbn [MiniPy.eval lookup set String.eqb Ascii.eqb Bool.eqb].
  destruct p as [|z p].
  - cbn [map List.length Z.of_nat bad2 veqb Z.eqb truthy]. rewrite exec_seq. unfold ic_loop at 1. rewrite exec_for.
    cbn [MiniPy.eval lookup String.eqb Ascii.eqb Bool.eqb bad2 elements]. rewrite Z.sub_0_r, Nat2Z.id.
    destruct (ic_loop_run s [] [] VNone eq_refl) as [i1 E]. exists i1.
    cbn [List.length Z.of_nat Z.add map app] in E.
    replace (map (fun k => VInt (Z.of_nat k)) (seq 0 (List.length s))) with (map (fun k => VInt (0 + Z.of_nat k)) (seq 0 (List.length s))) in E
      by (apply map_ext; intros k; reflexivity).
    unfold ctor_env in E. rewrite E.
    cbn [MiniPy.exec MiniPy.eval lookup set String.eqb Ascii.eqb Bool.eqb].
    destruct d; try discriminate Hd; reflexivity.
  - exists VNone. cbn [map List.length bad2 veqb truthy].
    replace (Z.of_nat (S (List.length (map VInt p))) =? 0) with false by (symmetry; apply Z.eqb_neq; lia).
    cbn [MiniPy.exec MiniPy.eval lookup set String.eqb Ascii.eqb Bool.eqb].
    destruct d; try discriminate Hd; reflexivity.
Qed.
End Ctor.

(* Sequence(seq [, dmax [, chargePattern]]) as a value: the fields the translated constructor stores *)
Definition ctor (args : list value) : value :=
  let go sq d cp := match MiniPy.exec charge_prim 0 g_init_core (ctor_env sq d cp VNone VNone VNone VNone VNone) with
                    | ONorm r => VList [lookup "self.seq" r; lookup "self.chargePattern" r; lookup "self.dmax" r]
                    | ORaise => VExc
                    | _ => VErr
                    end in
  match args with
  | [sq] => go sq (VInt (-1)) (VList [])               (* the defaults of the signature: dmax=-1, chargePattern=[] *)
  | [sq; d] => go sq d (VList [])
  | [sq; d; cp] => go sq d cp
  | _ => VErr
  end.

Lemma ctor1 s : ctor [seq_val s] = obj_val (mfresh s).
Proof.
  unfold ctor. destruct (init_core_tie s (VInt (-1)) [] eq_refl) as [i1 E]. cbn [map] in E. rewrite E. reflexivity.
Qed.
Lemma ctor2 s od : ctor [seq_val s; dmax_val od] = obj_val {| mseq := s; mpat := pat s; mdmax := od |}.
Proof.
  unfold ctor. destruct (init_core_tie s (dmax_val od) [] (ltac:(destruct od; reflexivity))) as [i1 E]. cbn [map] in E. rewrite E. reflexivity.
Qed.
Lemma ctor3 s od z p : ctor [seq_val s; dmax_val od; pat_val (z :: p)] = obj_val {| mseq := s; mpat := z :: p; mdmax := od |}.
Proof.
  unfold ctor. destruct (init_core_tie s (dmax_val od) (z :: p) (ltac:(destruct od; reflexivity))) as [i1 E]. rewrite E. reflexivity.
Qed.

(* ---------- Sequence.swapRes ---------- *)
Lemma ctor3' s od p : p <> [] -> ctor [seq_val s; dmax_val od; pat_val p] = obj_val {| mseq := s; mpat := p; mdmax := od |}.
Proof. destruct p as [|z p]; [congruence|]. intros _. apply ctor3. Qed.

Definition mv_prim0 (name : string) (args : list value) : value :=
  if String.eqb name "Sequence" then ctor args else VErr.

Definition sw_env (o : mobj) (i j t1 t2 : value) : env :=
  [("self"%string, obj_val o); ("self.seq"%string, seq_val (mseq o)); ("self.chargePattern"%string, pat_val (mpat o));
   ("self.dmax"%string, dmax_val (mdmax o)); ("index1"%string, i); ("index2"%string, j); ("$1"%string, t1); ("$2"%string, t2)].

Ltac mv := cbn [MiniPy.exec MiniPy.eval lookup set String.eqb Ascii.eqb Bool.eqb truthy v_not cmp_int bad2 is_bad as_Q
                sw_env elements existsb orb negb veqb].

Definition sw_tail : stmt := Eval vm_compute in match g_swapRes with SSeq _ t => t | _ => SSkip end.
Definition sw_head : stmt := Eval vm_compute in match g_swapRes with SSeq h _ => h | _ => SSkip end.
Lemma sw_parts : g_swapRes = SSeq sw_head sw_tail. Proof. reflexivity. Qed.
Definition sw_tail_spine : list stmt := Eval vm_compute in spine sw_tail.

Lemma dmax_ok_val od : is_bad (dmax_val od) = false. Proof. destruct od; reflexivity. Qed.

(* everything after the ordering of the indices, for distinct in-range indices *)
Lemma sw_tail_run (o : mobj) (a b : nat) t1 t2 : a <> b ->
  (a < List.length (mseq o))%nat -> (b < List.length (mseq o))%nat -> List.length (mpat o) = List.length (mseq o) ->
  MiniPy.exec mv_prim0 0 sw_tail (sw_env o (VInt (Z.of_nat a)) (VInt (Z.of_nat b)) t1 t2) =
  ORet (obj_val {| mseq := rearrange Ala (mseq o) (swap_idx (List.length (mseq o)) a b);
                   mpat := rearrange 0 (mpat o) (swap_idx (List.length (mseq o)) a b); mdmax := mdmax o |}).
Proof.
  intros Hab Ha Hb Hp.
  destruct (nth_error (mseq o) a) as [ra|] eqn:Era; [|apply nth_error_None in Era; lia].
  destruct (nth_error (mseq o) b) as [rb|] eqn:Erb; [|apply nth_error_None in Erb; lia].
  destruct (nth_error (mpat o) a) as [za|] eqn:Eza; [|apply nth_error_None in Eza; lia].
  destruct (nth_error (mpat o) b) as [zb|] eqn:Ezb; [|apply nth_error_None in Ezb; lia].
  assert (Ia : index_val (chars_val (map aa_char (mseq o))) (Z.of_nat a) = Some (VStr [aa_char ra])).
  { rewrite index_val_ok by (rewrite !map_length; lia). now rewrite map_map, nth_error_map, Era. }
  assert (Ib : index_val (chars_val (map aa_char (mseq o))) (Z.of_nat b) = Some (VStr [aa_char rb])).
  { rewrite index_val_ok by (rewrite !map_length; lia). now rewrite map_map, nth_error_map, Erb. }
  assert (Ja : index_val (map VInt (mpat o)) (Z.of_nat a) = Some (VInt za)).
  { rewrite index_val_ok by (rewrite map_length; lia). now rewrite nth_error_map, Eza. }
  assert (Jb : index_val (map VInt (mpat o)) (Z.of_nat b) = Some (VInt zb)).
  { rewrite index_val_ok by (rewrite map_length; lia). now rewrite nth_error_map, Ezb. }
  rewrite exec_spine. change (spine sw_tail) with sw_tail_spine. unfold sw_tail_spine.
  rewrite exec_list_cons; mv.
  rewrite exec_list_cons; mv. rewrite Ib. mv. rewrite Ia. mv.
  rewrite (list_set_ok _ a) by (rewrite !map_length; lia). mv.
  rewrite (list_set_ok _ b) by (rewrite upd_length; rewrite !map_length; lia). mv.
  rewrite exec_list_cons; mv. rewrite Ja. mv.
  rewrite exec_list_cons; mv. rewrite Jb. mv.
  rewrite exec_list_cons; mv.
  rewrite exec_list_cons; mv. rewrite (list_set_ok _ a) by (rewrite map_length; lia). mv.
  rewrite exec_list_cons; mv. rewrite (list_set_ok _ b) by (rewrite upd_length; rewrite map_length; lia). mv.
  rewrite exec_list_cons; mv.
  rewrite (upd_swap (fun c => VStr [c]) (aa_char Ala) (map aa_char (mseq o)) a b (aa_char ra) (aa_char rb) Hab)
    by (rewrite nth_error_map; (rewrite Era || rewrite Erb); reflexivity).
  rewrite (upd_swap VInt 0 (mpat o) a b za zb Hab Eza Ezb).
  rewrite map_length, Hp, rearrange_map, join_chars.
  pose proof (dmax_ok_val (mdmax o)) as Hd. destruct (mdmax o) as [q|] eqn:Eq; cbn [dmax_val is_bad] in *;
  cbn [orb mv_prim0 String.eqb Ascii.eqb Bool.eqb].
  all: change (VQ q) with (dmax_val (Some q)) || change (VInt (-1)) with (dmax_val None).
  all: rewrite ctor3' by (intros E; apply (f_equal (@List.length _)) in E; unfold rearrange in E;
                          rewrite map_length, swap_idx_map, map_length, seq_length in E by exact Hab; cbn in E; lia).
  all: reflexivity.
Qed.

Theorem swapRes_tie (o : mobj) (i j : nat) :
  (i < List.length (mseq o))%nat -> (j < List.length (mseq o))%nat -> List.length (mpat o) = List.length (mseq o) ->
  MiniPy.exec mv_prim0 0 g_swapRes (sw_env o (VInt (Z.of_nat i)) (VInt (Z.of_nat j)) VNone VNone) = ORet (obj_val (Model.Moves.swapRes o i j)).
Proof.
  intros Hi Hj Hp. rewrite sw_parts, exec_seq. unfold sw_head, Model.Moves.swapRes. mv.
  destruct (Nat.eqb_spec i j) as [->|Hij].
  - rewrite Z.eqb_refl. mv. cbn [mv_prim0 String.eqb Ascii.eqb Bool.eqb]. rewrite ctor1. reflexivity.
  - replace (Z.of_nat i =? Z.of_nat j) with false by (symmetry; apply Z.eqb_neq; lia). mv.
    destruct (Z.ltb_spec (Z.of_nat j) (Z.of_nat i)) as [Hlt|Hge].
    + change (MiniPy.exec mv_prim0 0 sw_tail (sw_env o (VInt (Z.of_nat j)) (VInt (Z.of_nat i)) (VInt (Z.of_nat j)) (VInt (Z.of_nat i))) = 
              ORet (obj_val {| mseq := rearrange Ala (mseq o) (swap_idx (List.length (mseq o)) i j);
                               mpat := rearrange 0 (mpat o) (swap_idx (List.length (mseq o)) i j); mdmax := mdmax o |})).
      rewrite (swap_idx_sym _ i j Hij). apply sw_tail_run; auto.
    + apply sw_tail_run; auto.
Qed.
Print Assumptions swapRes_tie.

(* ---------- Sequence.full_shuffle ---------- *)
Notation VN k := (VInt (Z.of_nat k)).
Notation ints l := (map (fun k : nat => VInt (Z.of_nat k)) l).

Fixpoint dedupn (seen l : list nat) : list nat :=
  match l with [] => [] | x :: l' => if memn x seen then dedupn seen l' else x :: dedupn (x :: seen) l' end.

Lemma veqb_VN a b : veqb (VN a) (VN b) = Nat.eqb a b.
Proof. cbn [veqb]. destruct (Nat.eqb_spec a b) as [->|H]; [apply Z.eqb_refl | apply Z.eqb_neq; lia]. Qed.

Lemma exists_ints k l : existsb (veqb (VN k)) (ints l) = memn k l.
Proof. unfold memn. induction l as [|x l IH]; [reflexivity|]. cbn [map existsb]. now rewrite veqb_VN, IH. Qed.

Lemma vdedup_ints l : forall seen, vdedup (ints seen) (ints l) = ints (dedupn seen l).
Proof.
  induction l as [|x l IH]; intros seen; [reflexivity|]. cbn [map vdedup dedupn]. rewrite exists_ints.
  destruct (memn x seen); [apply IH|]. cbn [map]. f_equal. apply (IH (x :: seen)).
Qed.

Lemma memn_cons k x l : memn k (x :: l) = Nat.eqb k x || memn k l.
Proof. reflexivity. Qed.

Lemma memn_dedupn k l : forall seen, memn k (dedupn seen l) = memn k l && negb (memn k seen).
Proof.
  induction l as [|x l IH]; intros seen; [reflexivity|]. cbn [dedupn]. destruct (memn x seen) eqn:Ex.
  - rewrite IH, memn_cons. destruct (Nat.eqb_spec k x) as [->|Hkx]; [|reflexivity].
    rewrite Ex. cbn. now rewrite andb_false_r.
  - rewrite !memn_cons, IH, memn_cons.
    destruct (Nat.eqb_spec k x) as [->|Hkx]; cbn [orb negb]; [now rewrite Ex | reflexivity].
Qed.

Lemma dedupn_seq n : forall a seen, (forall x, In x seen -> (x < a)%nat) -> dedupn seen (seq a n) = seq a n.
Proof.
  induction n as [|n IH]; intros a seen H; [reflexivity|]. cbn [seq dedupn].
  replace (memn a seen) with false.
  - f_equal. apply IH. intros x [<-|Hx]; [lia|]. specialize (H x Hx). lia.
  - symmetry. unfold memn. apply not_true_is_false. intros E. apply existsb_exists in E. destruct E as [x [Hx E]].
    apply Nat.eqb_eq in E. subst x. specialize (H a Hx). lia.
Qed.

Lemma filter_ints (f : nat -> bool) (g : value -> bool) l : (forall k, g (VN k) = f k) -> filter g (ints l) = ints (filter f l).
Proof.
  intros H. induction l as [|x l IH]; [reflexivity|]. cbn [map filter]. rewrite H. destruct (f x); cbn [map]; now rewrite IH.
Qed.

(* set(np.arange(0, n)) - set(frozen), as the embedding evaluates it, is the model's movable list *)
Lemma movable_val n fr :
  filter (fun v => negb (existsb (veqb v) (vdedup [] (ints fr)))) (vdedup [] (ints (seq 0 n))) = ints (movable n fr).
Proof.
  change (@nil value) with (ints []). rewrite !vdedup_ints, dedupn_seq by (intros x []).
  unfold movable. apply filter_ints. intros k. rewrite exists_ints, memn_dedupn. cbn. now rewrite andb_true_r.
Qed.

(* the index -> residue dictionary the first loop builds *)
Fixpoint dict_from (a : nat) (cs : list ascii) : list (value * value) :=
  match cs with [] => [] | c :: cs' => (VN a, VStr [c]) :: dict_from (S a) cs' end.

Lemma dict_set_from v cs : forall a, dict_set (VN (a + List.length cs)) v (dict_from a cs) = dict_from a cs ++ [(VN (a + List.length cs), v)].
Proof.
  induction cs as [|c cs IH]; intros a; [reflexivity|]. cbn [dict_from dict_set List.length]. rewrite veqb_VN.
  replace (Nat.eqb (a + S (List.length cs)) a) with false by (symmetry; apply Nat.eqb_neq; lia).
  cbn [app]. f_equal. replace (a + S (List.length cs))%nat with (S a + List.length cs)%nat by lia. apply IH.
Qed.

Lemma dict_from_snoc c cs : forall a, dict_from a (cs ++ [c]) = dict_from a cs ++ [(VN (a + List.length cs), VStr [c])].
Proof.
  induction cs as [|d cs IH]; intros a; cbn [app dict_from List.length]; [now rewrite Nat.add_0_r|].
  f_equal. rewrite IH. now replace (a + S (List.length cs))%nat with (S a + List.length cs)%nat by lia.
Qed.

Lemma dict_get_from k cs : forall a, (a <= k)%nat ->
  dict_get (VN k) (dict_from a cs) = option_map (fun c => VStr [c]) (nth_error cs (k - a)).
Proof.
  induction cs as [|c cs IH]; intros a H; cbn [dict_from dict_get]; [destruct (k - a)%nat; reflexivity|].
  rewrite veqb_VN. destruct (Nat.eqb_spec k a) as [->|Hka].
  - now rewrite Nat.sub_diag.
  - rewrite IH by lia. replace (k - a)%nat with (S (k - S a)) by lia. reflexivity.
Qed.

Section FullShuffle.
Variable sh : list value -> value.       (* rand.shuffle: ANY function (the hypothesis of the tie says what it returned) *)
Definition fs_prim (name : string) (args : list value) : value :=
  if String.eqb name "Sequence" then ctor args
  else if String.eqb name "rand.shuffle#1" then sh args
  else VErr.
Local Notation exec := (MiniPy.exec fs_prim 0).
Local Notation run_loop := (MiniPy.run_loop fs_prim 0).

Definition fs_spine : list stmt := Eval vm_compute in spine g_full_shuffle.
Definition fs_body1 : stmt := Eval vm_compute in match nth 3 fs_spine SSkip with SFor _ _ b => b | _ => SSkip end.
Definition fs_body2 : stmt := Eval vm_compute in match nth 8 fs_spine SSkip with SFor _ _ b => b | _ => SSkip end.
Definition fs_loop1 : stmt := SFor "i" (EVar "self.seq") fs_body1.
Definition fs_loop2 : stmt := SFor "i" (ERange (EConst (VInt 0)) (EVar "self.len")) fs_body2.
Lemma fs_parts : spine g_full_shuffle =
  [SAssign "moveable_indicies" (ESetDiff (ESetOf (ERange (EConst (VInt 0)) (EVar "self.len"))) (ESetOf (EVar "frozen")));
   SAssign "lookup" (EConst (VDict [])); SAssign "index" (EConst (VInt 0)); fs_loop1;
   SAssign "newseq" (EListOf (EVar "moveable_indicies")); SAssign "newseq" (ECall "rand.shuffle#1" [EVar "newseq"]);
   SAssign "sequencelist" (EListOf (EVar "self.seq")); SAssign "new_seq" (EListLit []); fs_loop2;
   SReturn (ECall "Sequence" [EJoin [] (EVar "new_seq"); EVar "self.dmax"])].
Proof. reflexivity. Qed.

Variable o : mobj.
Variable fr : list nat.
Local Notation n := (List.length (mseq o)).
Local Notation cs := (map aa_char (mseq o)).

Definition fs_env (mi lk ix i ns sl nseq t1 : value) : env :=
  [("self"%string, obj_val o); ("self.seq"%string, seq_val (mseq o)); ("self.len"%string, VN n);
   ("self.dmax"%string, dmax_val (mdmax o)); ("frozen"%string, VList (ints fr));
   ("moveable_indicies"%string, mi); ("lookup"%string, lk); ("index"%string, ix); ("i"%string, i); ("newseq"%string, ns);
   ("sequencelist"%string, sl); ("new_seq"%string, nseq); ("$1"%string, t1)].

Ltac fs := cbn [MiniPy.exec MiniPy.eval lookup set String.eqb Ascii.eqb Bool.eqb truthy v_not cmp_int bad2 is_bad as_Q
                fs_env elements existsb orb negb].

(* first loop: lookup[index] = residue *)
Lemma fs_loop1_run mi ns sl nseq t1 : forall t pre i0, cs = pre ++ t ->
  exists i1, run_loop "i" fs_body1 (chars_val t) (fs_env mi (VDict (dict_from 0 pre)) (VN (List.length pre)) i0 ns sl nseq t1) =
             ONorm (fs_env mi (VDict (dict_from 0 cs)) (VN n) i1 ns sl nseq t1).
Proof.
  induction t as [|c t IH]; intros pre i0 Hs.
  - exists i0. cbn [map MiniPy.run_loop]. rewrite app_nil_r in Hs. rewrite <- Hs, map_length. reflexivity.
  - cbn [map MiniPy.run_loop]. unfold fs_body1 at 1. fs.
    change (VN (List.length pre)) with (VN (0 + List.length pre)). rewrite dict_set_from, <- dict_from_snoc. cbn [Nat.add].
    destruct (IH (pre ++ [c]) (VStr [c])) as [i1 E]; [now rewrite <- app_assoc|]. exists i1.
    rewrite app_length in E. cbn [List.length] in E. rewrite <- E. unfold fs_env. repeat f_equal. lia.
Qed.

Lemma lk_get p : (p < n)%nat -> dict_get (VN p) (dict_from 0 cs) = Some (VStr [aa_char (nth p (mseq o) Ala)]).
Proof.
  intros H. rewrite dict_get_from by lia. rewrite Nat.sub_0_r, nth_error_map, (nth_error_nth' _ Ala H). reflexivity.
Qed.

Lemma memn_movable p : (p < n)%nat -> memn p (movable n fr) = negb (memn p fr).
Proof.
  intros H. unfold movable. destruct (memn p fr) eqn:E; cbn [negb].
  - apply not_true_is_false. intros M. unfold memn in M. apply existsb_exists in M. destruct M as [x [Hx M]].
    apply Nat.eqb_eq in M. subst x. apply filter_In in Hx. destruct Hx as [_ Hx]. unfold memn in E. rewrite E in Hx. discriminate Hx.
  - unfold memn in *. apply existsb_exists. exists p. split; [|apply Nat.eqb_refl]. apply filter_In. split; [apply in_seq; lia|]. cbv beta. now rewrite E.
Qed.

Lemma index_last {A} (l : list A) v : index_val (l ++ [v]) (-1) = nth_error (l ++ [v]) (List.length l).
Proof.
  unfold index_val. rewrite app_length. cbn [List.length]. cbn [Z.ltb Z.compare].
  replace (Z.of_nat (List.length l + 1) + -1) with (Z.of_nat (List.length l)) by lia.
  replace ((Z.of_nat (List.length l) <? 0) || (Z.of_nat (List.length l + 1) <=? Z.of_nat (List.length l))) with false
    by (symmetry; apply orb_false_iff; split; [apply Z.ltb_ge | apply Z.leb_gt]; lia).
  now rewrite Nat2Z.id.
Qed.

Lemma slice_last {A} (l : list A) v : slice_bounds (List.length (l ++ [v])) VNone (VInt (-1)) = Some (0%nat, List.length l).
Proof.
  unfold slice_bounds, clip. rewrite app_length. cbn [List.length Z.ltb Z.compare]. do 2 f_equal. lia.
Qed.

(* second loop: frozen positions keep their residue, every other position takes the residue at the index popped from the
   END of the shuffled list *)
Lemma fs_loop2_run mi sl : forall ps st acc i0 t1,
  (forall p, In p ps -> (p < n)%nat) -> (forall x, In x st -> (x < n)%nat) ->
  (List.length (filter (fun p => negb (memn p fr)) ps) <= List.length st)%nat ->
  exists i1 t1' st',
    run_loop "i" fs_body2 (ints ps) (fs_env mi (VDict (dict_from 0 cs)) (VN n) i0 (VList (ints (rev st))) sl (VList acc) t1) =
    ONorm (fs_env mi (VDict (dict_from 0 cs)) (VN n) i1 (VList (ints (rev st'))) sl
             (VList (acc ++ chars_val (map aa_char (rearrange Ala (mseq o) (fill2 ps (movable n fr) [] st []))))) t1').
Proof.
  induction ps as [|p ps IH]; intros st acc i0 t1 Hps Hst Hc.
  - exists i0, t1, st. cbn [map MiniPy.run_loop fill2 rearrange]. now rewrite app_nil_r.
  - assert (Hp : (p < n)%nat) by (apply Hps; now left).
    cbn [map MiniPy.run_loop]. unfold fs_body2 at 1. fs. unfold v_in. fs. rewrite exists_ints.
    cbn [fill2]. rewrite (memn_movable p Hp). cbn [filter] in Hc.
    destruct (memn p fr) eqn:Ef; cbn [negb] in *; fs.
    + rewrite (lk_get p Hp). fs.
      destruct (IH st (acc ++ [VStr [aa_char (nth p (mseq o) Ala)]]) (VN p) t1) as [i1 [t1' [st' E]]];
        [intros q Hq; apply Hps; now right | exact Hst | exact Hc |].
      exists i1, t1', st'. unfold fs_env in E. rewrite E. unfold memn at 1. cbn [existsb]. cbn [rearrange map]. now rewrite <- app_assoc.
    + destruct st as [|x st]; [cbn [List.length] in Hc; lia|].
      assert (Hx : (x < n)%nat) by (apply Hst; now left).
      cbn [rev]. rewrite map_app. cbn [map].
      rewrite index_last, nth_error_app2 by lia. rewrite Nat.sub_diag. cbn [nth_error]. fs.
      rewrite slice_last. cbn [skipn]. rewrite Nat.sub_0_r, firstn_app, firstn_all, Nat.sub_diag. cbn [firstn]. rewrite app_nil_r. fs.
      rewrite (lk_get x Hx). fs.
      destruct (IH st (acc ++ [VStr [aa_char (nth x (mseq o) Ala)]]) (VN p) (VN x)) as [i1 [t1' [st' E]]];
        [intros q Hq; apply Hps; now right | intros q Hq; apply Hst; now right | cbn [List.length] in Hc; lia |].
      exists i1, t1', st'. unfold fs_env in E. rewrite E. cbn [rearrange map]. now rewrite <- app_assoc.
Qed.

Lemma same_set_facts perm : same_set perm (movable n fr) = true ->
  List.length perm = List.length (movable n fr) /\ (forall x, In x perm -> (x < n)%nat).
Proof.
  unfold same_set. intros H. apply andb_prop in H. destruct H as [H H4]. apply andb_prop in H. destruct H as [H H3].
  apply andb_prop in H. destruct H as [H1 H2]. split; [now apply Nat.eqb_eq|].
  intros x Hx. rewrite forallb_forall in H3. specialize (H3 x Hx). unfold memn in H3. apply existsb_exists in H3.
  destruct H3 as [y [Hy E]]. apply Nat.eqb_eq in E. subst y. unfold movable in Hy. apply filter_In in Hy. destruct Hy as [Hy _].
  apply in_seq in Hy. lia.
Qed.

(* full_shuffle on EVERY object, EVERY frozen list and WHATEVER order rand.shuffle left the movable indices in (a
   rearrangement of them): the child is the model's — frozen positions keep their residue, the others take the residues
   at the shuffled indices consumed from the end; the child's pattern is derived afresh from the child's OWN sequence by
   the translated constructor, delta-max is carried *)
Theorem full_shuffle_tie perm c :
  sh [VList (ints (movable n fr))] = VList (ints perm) -> fullShuffle o fr perm = Some c ->
  exec g_full_shuffle (fs_env VNone VNone VNone VNone VNone VNone VNone VNone) = ORet (obj_val c).
Proof.
  intros Hsh Hc. unfold fullShuffle in Hc. destruct (same_set perm (movable n fr)) eqn:Ess; [|discriminate Hc].
  injection Hc as <-. destruct (same_set_facts perm Ess) as [Hlen Hlt].
  rewrite exec_spine, fs_parts. cbn [MiniPy.exec_list]. fs.
  rewrite Z.sub_0_r, Nat2Z.id. change (fun k : nat => VInt (0 + Z.of_nat k)) with (fun k : nat => VN k).
  rewrite movable_val. fs.
  unfold fs_loop1 at 1. rewrite exec_for. fs.
  destruct (fs_loop1_run (VList (ints (movable n fr))) VNone VNone VNone VNone cs [] VNone eq_refl) as [i1 E1].
  cbn [List.length dict_from Z.of_nat] in E1. unfold fs_env in E1. rewrite E1. clear E1. fs.
  cbn [fs_prim String.eqb Ascii.eqb Bool.eqb]. rewrite Hsh. fs.
  unfold fs_loop2 at 1. rewrite exec_for. fs.
  rewrite Z.sub_0_r, Nat2Z.id. change (fun k : nat => VInt (0 + Z.of_nat k)) with (fun k : nat => VN k).
  destruct (fs_loop2_run (VList (ints (movable n fr))) (VList (chars_val cs)) (seq 0 n) (rev perm) [] i1 VNone) as [i2 [t1' [st' E2]]].
  { intros p Hp. apply in_seq in Hp. lia. }
  { intros x Hx. apply Hlt. now apply in_rev. }
  { rewrite rev_length, Hlen. unfold movable. lia. }
  rewrite rev_involutive in E2. unfold fs_env in E2. rewrite E2. clear E2. cbn [app]. fs.
  rewrite join_chars. pose proof (dmax_ok_val (mdmax o)) as Hd.
  destruct (mdmax o) as [q|] eqn:Eq; cbn [dmax_val is_bad] in *; cbn [orb fs_prim String.eqb Ascii.eqb Bool.eqb].
  all: change (VQ q) with (dmax_val (Some q)) || change (VInt (-1)) with (dmax_val None).
  all: rewrite ctor2; unfold rebuilt; rewrite Eq; reflexivity.
Qed.
End FullShuffle.
Print Assumptions full_shuffle_tie.

(* ---------- Sequence.swapRandChargeRes ---------- *)
(* positions (counted from k) of the entries that satisfy f *)
Fixpoint posf (f : Z -> bool) (k : nat) (zs : list Z) : list nat :=
  match zs with [] => [] | z :: zs' => if f z then k :: posf f (S k) zs' else posf f (S k) zs' end.

Lemma posf_filter f zs : forall k, posf f k zs = filter (fun i => f (nth (i - k) zs 0)) (seq k (List.length zs)).
Proof.
  induction zs as [|z zs IH]; intros k; [reflexivity|]. cbn [posf List.length seq filter]. rewrite Nat.sub_diag. cbn [nth].
  rewrite IH. assert (E : filter (fun i => f (nth (i - S k) zs 0)) (seq (S k) (List.length zs)) =
                          filter (fun i => f (nth (i - k) (z :: zs) 0)) (seq (S k) (List.length zs))).
  { apply filter_ext_in. intros i Hi. apply in_seq in Hi. replace (i - k)%nat with (S (i - S k)) by lia. reflexivity. }
  rewrite E. reflexivity.
Qed.

Lemma posf_lt f zs : forall k x, In x (posf f k zs) -> (k <= x < k + List.length zs)%nat.
Proof. intros k x. rewrite posf_filter. intros H. apply filter_In in H. destruct H as [H _]. apply in_seq in H. lia. Qed.

Lemma dedupn_posf f zs : forall k seen, (forall x, In x seen -> (x < k)%nat) -> dedupn seen (posf f k zs) = posf f k zs.
Proof.
  induction zs as [|z zs IH]; intros k seen H; [reflexivity|]. cbn [posf]. destruct (f z).
  - cbn [dedupn]. replace (memn k seen) with false.
    + f_equal. apply IH. intros x [<-|Hx]; [lia|]. specialize (H x Hx). lia.
    + symmetry. unfold memn. apply not_true_is_false. intros E. apply existsb_exists in E. destruct E as [x [Hx E]].
      apply Nat.eqb_eq in E. subst x. specialize (H k Hx). lia.
  - apply IH. intros x Hx. specialize (H x Hx). lia.
Qed.

Lemma filter_filter {A} (f g : A -> bool) l : filter g (filter f l) = filter (fun x => f x && g x) l.
Proof.
  induction l as [|x l IH]; [reflexivity|]. cbn [filter]. destruct (f x); cbn [filter andb]; [destruct (g x)|]; now rewrite IH.
Qed.

Lemma idxs_posf f p fr : filter (fun i => negb (memn i fr)) (posf f 0 p) = idxs f p fr.
Proof.
  rewrite posf_filter, filter_filter. unfold idxs. apply filter_ext. intros i. now rewrite Nat.sub_0_r.
Qed.

(* sorted() of an ascending list of positions is that list *)
Lemma insertZ_head x l : (forall y, In y l -> x <= y) -> insertZ x l = x :: l.
Proof. destruct l as [|y l]; [reflexivity|]. intros H. cbn [insertZ]. now replace (x <=? y) with true by (symmetry; apply Z.leb_le, H; now left). Qed.

Lemma sort_filter_seq (g : nat -> bool) n : forall a, sortZ (map Z.of_nat (filter g (seq a n))) = map Z.of_nat (filter g (seq a n)).
Proof.
  induction n as [|n IH]; intros a; [reflexivity|]. cbn [seq filter]. destruct (g a); [|apply IH].
  cbn [map]. unfold sortZ. cbn [fold_right]. fold (sortZ (map Z.of_nat (filter g (seq (S a) n)))). rewrite IH.
  apply insertZ_head. intros y Hy. apply in_map_iff in Hy. destruct Hy as [x [<- Hx]]. apply filter_In in Hx.
  destruct Hx as [Hx _]. apply in_seq in Hx. lia.
Qed.

Lemma ints_of_ints l : ints_of (ints l) = Some (map Z.of_nat l).
Proof. induction l as [|x l IH]; [reflexivity|]. cbn [map ints_of]. now rewrite IH. Qed.

Lemma sorted_idxs f p fr : (match ints_of (ints (idxs f p fr)) with Some zs => VList (map VInt (sortZ zs)) | None => VErr end) = VList (ints (idxs f p fr)).
Proof. rewrite ints_of_ints. unfold idxs. rewrite sort_filter_seq, map_map. reflexivity. Qed.

Lemma lookup_set_eq x v r : lookup x (set x v r) = v.
Proof.
  induction r as [|[y w] r IH]; cbn [set lookup]; [now rewrite String.eqb_refl|].
  destruct (String.eqb x y) eqn:E; cbn [lookup]; rewrite E; [reflexivity | exact IH].
Qed.
Lemma lookup_set_neq x y v r : String.eqb x y = false -> lookup x (set y v r) = lookup x r.
Proof.
  intros H. induction r as [|[z w] r IH]; cbn [set lookup]; [now rewrite H|].
  destruct (String.eqb y z) eqn:E; cbn [lookup].
  - apply String.eqb_eq in E. subst z. now rewrite H.
  - destruct (String.eqb x z); [reflexivity | exact IH].
Qed.

(* np.where(pattern OP 0)[0] as the embedding evaluates it: the ascending positions of the entries satisfying f *)
Lemma enum_where prim cond (f : Z -> bool) :
  (forall z r', truthy (MiniPy.eval prim cond (set "$x" (VInt z) r')) = VBool (f z)) ->
  forall zs k r, enum_list prim "$i" "$x" cond (EVar "$i") (Z.of_nat k) (map VInt zs) r = VList (ints (posf f k zs)).
Proof.
  intros Hc. induction zs as [|z zs IH]; intros k r; [reflexivity|]. cbn [map enum_list posf]. rewrite Hc.
  replace (Z.of_nat k + 1) with (Z.of_nat (S k)) by lia. rewrite IH. destruct (f z); [|reflexivity].
  cbn [MiniPy.eval]. rewrite lookup_set_neq by reflexivity. rewrite lookup_set_eq. reflexivity.
Qed.

Lemma cond_pos prim z r' : truthy (MiniPy.eval prim (EGt (EVar "$x") (EConst (VInt 0))) (set "$x" (VInt z) r')) = VBool (isposb z).
Proof. cbn [MiniPy.eval]. rewrite lookup_set_eq. cbn [cmp_int bad2 truthy]. unfold isposb. now rewrite Z.gtb_ltb. Qed.
Lemma cond_neg prim z r' : truthy (MiniPy.eval prim (ELt (EVar "$x") (EConst (VInt 0))) (set "$x" (VInt z) r')) = VBool (isnegb z).
Proof. cbn [MiniPy.eval]. rewrite lookup_set_eq. reflexivity. Qed.
Lemma cond_zero prim z r' : truthy (MiniPy.eval prim (EEq (EVar "$x") (EConst (VInt 0))) (set "$x" (VInt z) r')) = VBool (Z.eqb 0 z).
Proof. cbn [MiniPy.eval]. rewrite lookup_set_eq. cbn [bad2 veqb truthy]. now rewrite Z.eqb_sym. Qed.

Lemma eval_setdiff prim a b r : MiniPy.eval prim (ESetDiff a b) r =
  match bad2 (MiniPy.eval prim a r) (MiniPy.eval prim b r) with
  | Some e => e
  | None => match MiniPy.eval prim a r, MiniPy.eval prim b r with
            | VList p, VList q => VList (filter (fun v => negb (existsb (veqb v) q)) p)
            | _, _ => VErr
            end
  end.
Proof. reflexivity. Qed.
Lemma eval_setof prim a r : MiniPy.eval prim (ESetOf a) r =
  match MiniPy.eval prim a r with VList l => VList (vdedup [] l) | VExc => VExc | _ => VErr end.
Proof. reflexivity. Qed.

(* set(np.where(pattern OP 0)[0]) - frozen : the model's index list *)
Lemma class_val prim cond f p fr r : (forall z r', truthy (MiniPy.eval prim cond (set "$x" (VInt z) r')) = VBool (f z)) ->
  lookup "self.chargePattern" r = pat_val p -> lookup "frozen" r = VList (ints fr) ->
  MiniPy.eval prim (ESetDiff (ESetOf (EEnumFilter "$i" "$x" cond (EVar "$i") (EVar "self.chargePattern"))) (EVar "frozen")) r =
  VList (ints (idxs f p fr)).
Proof.
  intros Hc Hp Hf. rewrite eval_setdiff, eval_setof, eval_enumfilter.
  change (MiniPy.eval prim (EVar "self.chargePattern") r) with (lookup "self.chargePattern" r).
  change (MiniPy.eval prim (EVar "frozen") r) with (lookup "frozen" r). rewrite Hp, Hf. cbn [elements].
  pose proof (enum_where prim cond f Hc p 0%nat r) as E. cbn [Z.of_nat] in E. rewrite !E. change (@nil value) with (ints []). rewrite vdedup_ints, dedupn_posf by (intros x []).
  cbn [bad2]. rewrite (filter_ints (fun i => negb (memn i fr))) by (intros k; now rewrite exists_ints). now rewrite idxs_posf.
Qed.

Section SwapRand.
Variable smp : string -> list value -> value.     (* the random generator's sample(): ANY function of call site and arguments *)
Variable o : mobj.
Variable fr : list nat.
(* self.swapRes(i, j) is interpreted by RUNNING the translated swapRes (tied above) on the same object *)
Definition sr_prim (name : string) (args : list value) : value :=
  if String.eqb name "swapRes" then
    match args with
    | [i; j] => match MiniPy.exec mv_prim0 0 g_swapRes (sw_env o i j VNone VNone) with ORet v => v | ORaise => VExc | _ => VErr end
    | _ => VErr
    end
  else smp name args.
Local Notation exec := (MiniPy.exec sr_prim 0).

Definition sr_env (pI nI zI ct s1 s2 : value) : env :=
  [("self"%string, obj_val o); ("self.chargePattern"%string, pat_val (mpat o)); ("frozen"%string, VList (ints fr));
   ("posInd"%string, pI); ("negInd"%string, nI); ("neutInd"%string, zI); ("chargeType"%string, ct);
   ("swapPair1"%string, s1); ("swapPair2"%string, s2)].

Definition sr_spine : list stmt := Eval vm_compute in spine g_swapRandChargeRes.
Definition sr_chain : stmt := Eval vm_compute in nth 3 sr_spine SSkip.
Definition sr_d1 : stmt := Eval vm_compute in nth 4 sr_spine SSkip.
Definition sr_d2 : stmt := Eval vm_compute in nth 5 sr_spine SSkip.
Definition sr_ret : stmt := Eval vm_compute in nth 6 sr_spine SSkip.
Definition where_set (c : expr) : expr := ESetDiff (ESetOf (EEnumFilter "$i" "$x" c (EVar "$i") (EVar "self.chargePattern"))) (EVar "frozen").
Lemma sr_parts : spine g_swapRandChargeRes =
  [SAssign "posInd" (where_set (EGt (EVar "$x") (EConst (VInt 0)))); SAssign "negInd" (where_set (ELt (EVar "$x") (EConst (VInt 0))));
   SAssign "neutInd" (where_set (EEq (EVar "$x") (EConst (VInt 0)))); sr_chain; sr_d1; sr_d2; sr_ret].
Proof. reflexivity. Qed.

Lemma exec_assign x e r : exec (SAssign x e) r = match MiniPy.eval sr_prim e r with VErr => OErr | VExc => ORaise | v => ONorm (set x v r) end.
Proof. reflexivity. Qed.

Ltac sr := cbn [MiniPy.exec MiniPy.eval lookup set String.eqb Ascii.eqb Bool.eqb truthy v_not cmp_int bad2 is_bad as_Q
                sr_env elements existsb orb negb veqb List.length map Z.of_nat Z.eqb Pos.of_succ_nat Pos.succ Pos.eqb].

Ltac cnd := cbn [MiniPy.eval lookup set String.eqb Ascii.eqb Bool.eqb truthy bad2 veqb sr_env Z.of_nat Pos.of_succ_nat Pos.succ Z.eqb Pos.eqb].

(* the three index sets *)
Lemma sr_classes c0 s1 s2 v1 v2 v3 :
  MiniPy.exec_list sr_prim 0 [SAssign "posInd" (where_set (EGt (EVar "$x") (EConst (VInt 0)))); SAssign "negInd" (where_set (ELt (EVar "$x") (EConst (VInt 0))));
                              SAssign "neutInd" (where_set (EEq (EVar "$x") (EConst (VInt 0))))] (sr_env v1 v2 v3 c0 s1 s2) =
  ONorm (sr_env (VList (ints (idxs isposb (mpat o) fr))) (VList (ints (idxs isnegb (mpat o) fr))) (VList (ints (idxs (Z.eqb 0) (mpat o) fr))) c0 s1 s2).
Proof.
  cbn [MiniPy.exec_list]. unfold where_set.
  rewrite exec_assign, (class_val sr_prim _ isposb (mpat o) fr) by (try reflexivity; apply cond_pos).
  cbn [set sr_env String.eqb Ascii.eqb Bool.eqb].
  rewrite exec_assign, (class_val sr_prim _ isnegb (mpat o) fr) by (try reflexivity; apply cond_neg).
  cbn [set String.eqb Ascii.eqb Bool.eqb].
  rewrite exec_assign, (class_val sr_prim _ (Z.eqb 0) (mpat o) fr) by (try reflexivity; apply cond_zero).
  reflexivity.
Qed.

(* the if-chain that fixes (or draws) the two charge types *)
Lemma sr_chain_run P Nn Z0 ct c0 s1 s2 :
  smp "rand.sample#1" [VList [VInt 1; VInt 2; VInt 3]; VInt 2] = VList [VN (fst ct); VN (snd ct)] ->
  exec sr_chain (sr_env (VList (ints P)) (VList (ints Nn)) (VList (ints Z0)) c0 s1 s2) =
  match charge_types P Nn Z0 ct with
  | Some None => ORet (obj_val o)
  | Some (Some (t1, t2)) => ONorm (sr_env (VList (ints P)) (VList (ints Nn)) (VList (ints Z0)) (VList [VN t1; VN t2]) s1 s2)
  | None => exec sr_chain (sr_env (VList (ints P)) (VList (ints Nn)) (VList (ints Z0)) c0 s1 s2)
  end.
Proof.
  intros Hs. unfold charge_types.
  destruct Z0 as [|z0 Z0]; destruct Nn as [|n0 Nn]; destruct P as [|p0 P]; try (unfold sr_chain; sr; reflexivity).
  destruct ct as [t1 t2]. cbn [fst snd] in Hs.
  destruct ((1 <=? t1)%nat && (t1 <=? 3)%nat && (1 <=? t2)%nat && (t2 <=? 3)%nat && negb (t1 =? t2)%nat); [|reflexivity].
  unfold sr_chain. sr. cbn [sr_prim String.eqb Ascii.eqb Bool.eqb]. rewrite Hs. reflexivity.
Qed.

Definition site1 (t : nat) : string := match t with 1%nat => "rand.sample#2" | 2%nat => "rand.sample#3" | _ => "rand.sample#4" end.
Definition site2 (t : nat) : string := match t with 1%nat => "rand.sample#5" | 2%nat => "rand.sample#6" | _ => "rand.sample#7" end.

Lemma idx0 {A} (x : A) l : index_val (x :: l) 0 = Some x. Proof. reflexivity. Qed.
Lemma idx1 {A} (x y : A) l : index_val (x :: y :: l) 1 = Some y.
Proof. unfold index_val. cbn [List.length Z.ltb Z.compare orb]. replace (Z.of_nat (S (S (List.length l))) <=? 1) with false by (symmetry; apply Z.leb_gt; lia). reflexivity. Qed.

Definition sorted_ok (l : list nat) : Prop :=
  (match ints_of (ints l) with Some zs => VList (map VInt (sortZ zs)) | None => VErr end) = VList (ints l).

Lemma exec_if_true c a b r : truthy (MiniPy.eval sr_prim c r) = VBool true -> exec (SIf c a b) r = exec a r.
Proof. intros H. rewrite exec_if, H. reflexivity. Qed.
Lemma exec_if_false c a b r : truthy (MiniPy.eval sr_prim c r) = VBool false -> exec (SIf c a b) r = exec b r.
Proof. intros H. rewrite exec_if, H. reflexivity. Qed.
Ltac pick_branch := repeat first [rewrite exec_if_true by (vm_compute; reflexivity) | rewrite exec_if_false by (vm_compute; reflexivity)].

(* the first draw, for a fixed first charge type *)
Lemma sr_d1_run P Nn Z0 t1 t2 a s1 s2 : sorted_ok P -> sorted_ok Nn -> sorted_ok Z0 -> (1 <= t1 <= 3)%nat ->
  smp (site1 t1) [VList (ints (pick P Nn Z0 t1)); VInt 1] = VList [VN a] ->
  exec sr_d1 (sr_env (VList (ints P)) (VList (ints Nn)) (VList (ints Z0)) (VList [VN t1; VN t2]) s1 s2) =
  ONorm (sr_env (VList (ints P)) (VList (ints Nn)) (VList (ints Z0)) (VList [VN t1; VN t2]) (VList [VN a]) s2).
Proof.
  unfold sorted_ok. intros HP HN HZ H1 Hs1.
  assert (C1 : t1 = 1%nat \/ t1 = 2%nat \/ t1 = 3%nat) by lia.
  destruct C1 as [-> | [-> | ->]]; cbn [site1 pick Nat.eqb] in Hs1; unfold sr_d1; pick_branch.
  all: sr; rewrite ?HP, ?HN, ?HZ; sr; cbn [sr_prim String.eqb Ascii.eqb Bool.eqb]; rewrite Hs1; reflexivity.
Qed.

Lemma sr_d2_run P Nn Z0 t1 t2 b s1 s2 : sorted_ok P -> sorted_ok Nn -> sorted_ok Z0 -> (1 <= t2 <= 3)%nat ->
  smp (site2 t2) [VList (ints (pick P Nn Z0 t2)); VInt 1] = VList [VN b] ->
  exec sr_d2 (sr_env (VList (ints P)) (VList (ints Nn)) (VList (ints Z0)) (VList [VN t1; VN t2]) s1 s2) =
  ONorm (sr_env (VList (ints P)) (VList (ints Nn)) (VList (ints Z0)) (VList [VN t1; VN t2]) s1 (VList [VN b])).
Proof.
  unfold sorted_ok. intros HP HN HZ H2 Hs2.
  assert (C2 : t2 = 1%nat \/ t2 = 2%nat \/ t2 = 3%nat) by lia.
  destruct C2 as [-> | [-> | ->]]; cbn [site2 pick Nat.eqb] in Hs2; unfold sr_d2; pick_branch.
  all: sr; rewrite ?HP, ?HN, ?HZ; sr; cbn [sr_prim String.eqb Ascii.eqb Bool.eqb]; rewrite Hs2; reflexivity.
Qed.

Lemma sr_ret_run pI nI zI ct a b :
  (a < List.length (mseq o))%nat -> (b < List.length (mseq o))%nat -> List.length (mpat o) = List.length (mseq o) ->
  exec sr_ret (sr_env pI nI zI ct (VList [VN a]) (VList [VN b])) = ORet (obj_val (Model.Moves.swapRes o a b)).
Proof.
  intros Ha Hb Hp. unfold sr_ret. sr. rewrite !idx0. sr. cbn [sr_prim String.eqb Ascii.eqb Bool.eqb].
  rewrite (swapRes_tie o a b Ha Hb Hp). reflexivity.
Qed.

(* the two draws and the swap, for fixed charge types *)
Lemma sr_draw P Nn Z0 t1 t2 a b s1 s2 : sorted_ok P -> sorted_ok Nn -> sorted_ok Z0 ->
  (1 <= t1 <= 3)%nat -> (1 <= t2 <= 3)%nat ->
  smp (site1 t1) [VList (ints (pick P Nn Z0 t1)); VInt 1] = VList [VN a] ->
  smp (site2 t2) [VList (ints (pick P Nn Z0 t2)); VInt 1] = VList [VN b] ->
  (a < List.length (mseq o))%nat -> (b < List.length (mseq o))%nat -> List.length (mpat o) = List.length (mseq o) ->
  MiniPy.exec_list sr_prim 0 [sr_d1; sr_d2; sr_ret] (sr_env (VList (ints P)) (VList (ints Nn)) (VList (ints Z0)) (VList [VN t1; VN t2]) s1 s2) =
  ORet (obj_val (Model.Moves.swapRes o a b)).
Proof.
  intros HP HN HZ H1 H2 Hs1 Hs2 Ha Hb Hp.
  rewrite exec_list_cons, (sr_d1_run P Nn Z0 t1 t2 a s1 s2 HP HN HZ H1 Hs1).
  rewrite exec_list_cons, (sr_d2_run P Nn Z0 t1 t2 b _ s2 HP HN HZ H2 Hs2).
  rewrite exec_list_cons, (sr_ret_run _ _ _ _ a b Ha Hb Hp). reflexivity.
Qed.

Local Notation Pm := (idxs isposb (mpat o) fr).
Local Notation Nm := (idxs isnegb (mpat o) fr).
Local Notation Zm := (idxs (Z.eqb 0) (mpat o) fr).

Lemma sorted_idxs_ok f : sorted_ok (idxs f (mpat o) fr).
Proof. unfold sorted_ok. apply sorted_idxs. Qed.

Lemma memn_In x l : memn x l = true -> In x l.
Proof. unfold memn. intros H. apply existsb_exists in H. destruct H as [y [Hy E]]. apply Nat.eqb_eq in E. now subst y. Qed.

(* swapRandChargeRes on EVERY object and frozen list, WHATEVER the generator's sample() returns: when the model accepts
   the outcomes (ct = the two charge types drawn — consulted only when all three classes have a movable residue —, a and
   b = the positions drawn from the sorted index lists of those types), the translated code returns the model's object:
   the parent ITSELF when a swap cannot change kappa, otherwise what the translated swapRes returns for (a, b) *)
Theorem swapRandChargeRes_tie ct a b c : List.length (mpat o) = List.length (mseq o) ->
  smp "rand.sample#1" [VList [VInt 1; VInt 2; VInt 3]; VInt 2] = VList [VN (fst ct); VN (snd ct)] ->
  (forall t1 t2, charge_types Pm Nm Zm ct = Some (Some (t1, t2)) ->
     smp (site1 t1) [VList (ints (pick Pm Nm Zm t1)); VInt 1] = VList [VN a] /\
     smp (site2 t2) [VList (ints (pick Pm Nm Zm t2)); VInt 1] = VList [VN b]) ->
  swapRand o fr ct a b = Some c ->
  exec g_swapRandChargeRes (sr_env VNone VNone VNone VNone VNone VNone) = ORet (obj_val c).
Proof.
  intros Hp Hs0 Hs Hc. rewrite exec_spine, sr_parts.
  change (MiniPy.exec_list sr_prim 0 ?l ?r) with (MiniPy.exec_list sr_prim 0 ([nth 0 l SSkip; nth 1 l SSkip; nth 2 l SSkip] ++ [sr_chain; sr_d1; sr_d2; sr_ret]) r).
  assert (Happ : forall l1 l2 r, MiniPy.exec_list sr_prim 0 (l1 ++ l2) r =
                 match MiniPy.exec_list sr_prim 0 l1 r with ONorm r' => MiniPy.exec_list sr_prim 0 l2 r' | other => other end).
  { induction l1 as [|x l1 IH]; intros l2 r; [reflexivity|]. cbn [app MiniPy.exec_list]. destruct (MiniPy.exec sr_prim 0 x r); try reflexivity. apply IH. }
  rewrite Happ. cbn [nth]. rewrite sr_classes. cbn [MiniPy.exec_list].
  rewrite (sr_chain_run Pm Nm Zm ct VNone VNone VNone Hs0).
  unfold swapRand in Hc. destruct (charge_types Pm Nm Zm ct) as [[[t1 t2]|]|] eqn:Ect; [| |discriminate Hc].
  - destruct (memn a (pick Pm Nm Zm t1)) eqn:Ma; [|discriminate Hc]. destruct (memn b (pick Pm Nm Zm t2)) eqn:Mb; [|discriminate Hc].
    cbn [andb] in Hc. injection Hc as <-. destruct (Hs t1 t2 eq_refl) as [Hs1 Hs2].
    assert (Hpick : forall t x, In x (pick Pm Nm Zm t) -> (x < List.length (mseq o))%nat).
    { intros t x Hx. unfold pick in Hx. rewrite <- Hp. destruct (Nat.eqb t 1); [|destruct (Nat.eqb t 2)]; apply idxs_spec in Hx; tauto. }
    assert (Ht : (1 <= t1 <= 3)%nat /\ (1 <= t2 <= 3)%nat).
    { unfold charge_types in Ect. destruct Zm as [|? ?], Nm as [|? ?], Pm as [|? ?]; try discriminate Ect; try (injection Ect as <- <-; lia).
      destruct ct as [u v]. destruct ((1 <=? u)%nat && (u <=? 3)%nat && (1 <=? v)%nat && (v <=? 3)%nat && negb (u =? v)%nat) eqn:Ev; [|discriminate Ect].
      injection Ect as <- <-. repeat (apply andb_prop in Ev; destruct Ev as [Ev ?]).
      repeat match goal with H : (_ <=? _)%nat = true |- _ => apply Nat.leb_le in H end. lia. }
    apply (sr_draw Pm Nm Zm t1 t2 a b VNone VNone); try apply sorted_idxs_ok; try tauto; try assumption.
    + apply (Hpick t1). now apply memn_In.
    + apply (Hpick t2). now apply memn_In.
  - injection Hc as <-. reflexivity.
Qed.
End SwapRand.
Print Assumptions swapRandChargeRes_tie.

(* ---------- the hypotheses are satisfiable; the translated terms run ---------- *)
Definition ex_o : mobj := mfresh [Lys; Glu; Gly; Ala; Asp; Arg].
Definition ex_smp (name : string) (args : list value) : value :=
  if String.eqb name "rand.sample#1" then VList [VInt 2; VInt 3]
  else if String.eqb name "rand.sample#3" then VList [VInt 4]       (* a negative residue: D at 4 *)
  else if String.eqb name "rand.sample#7" then VList [VInt 2]       (* a neutral residue: G at 2 *)
  else VErr.
Example swapRand_runs :
  MiniPy.exec (sr_prim ex_smp ex_o) 0 g_swapRandChargeRes (sr_env ex_o [0%nat] VNone VNone VNone VNone VNone VNone) =
  ORet (obj_val {| mseq := [Lys; Glu; Asp; Ala; Gly; Arg]; mpat := [1; -1; -1; 0; 0; 1]; mdmax := None |})
  /\ swapRand ex_o [0%nat] (2, 3)%nat 4 2 = Some {| mseq := [Lys; Glu; Asp; Ala; Gly; Arg]; mpat := [1; -1; -1; 0; 0; 1]; mdmax := None |}.
Proof. split; vm_compute; reflexivity. Qed.

Definition ex_sh (args : list value) : value := VList [VInt 5; VInt 1; VInt 4; VInt 2].     (* movable indices of ex_o with 0, 3 frozen *)
Example full_shuffle_runs :
  MiniPy.exec (fs_prim ex_sh) 0 g_full_shuffle (fs_env ex_o [0%nat; 3%nat] VNone VNone VNone VNone VNone VNone VNone VNone) =
  ORet (obj_val {| mseq := [Lys; Gly; Asp; Ala; Glu; Arg]; mpat := [1; 0; -1; 0; -1; 1]; mdmax := None |})
  /\ fullShuffle ex_o [0%nat; 3%nat] [5; 1; 4; 2]%nat = Some {| mseq := [Lys; Gly; Asp; Ala; Glu; Arg]; mpat := [1; 0; -1; 0; -1; 1]; mdmax := None |}.
Proof. split; vm_compute; reflexivity. Qed.

(* the public shuffle: exactly a new parameters object around the backend's full_shuffle of the caller's frozen set *)
Lemma fw_get_shuffled_sequence : g_fw_get_shuffled_sequence = SReturn (ECall "SequenceParameters|SeqObj"%string [ECall "SeqObj.full_shuffle"%string [EVar "frozen"%string]]).
Proof. reflexivity. Qed.
