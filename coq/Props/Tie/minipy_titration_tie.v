(* Tie (C09) — SEMANTIC: Sequence.charge_at_pH, translated from the working tree on every run into a Core.MiniPy term
   (the loop over the residues, the two membership tests, the pKa dictionary of the data module, the accumulation, the
   optional normalisation by the number of titratable residues).  np.power(10, x) is an ORACLE P; sums, differences and
   quotients are read as exact rational arithmetic.  For EVERY residue word, rational pH, mode and P (with 1 + P(x) never
   0) the translated code returns the residue-by-residue Henderson-Hasselbalch sum: +1 / (1 + P(pH - pKa)) for K, R, H;
   (-1 | +1 in mode 'TOTAL') / (1 + P(pKa - pH)) for E, D, Y, C; nothing for the other residues. *)
From Coq Require Import List String Ascii ZArith QArith Qreduction Bool Arith Lia.
From LC Require Import Core.Residue Core.Lists Core.MiniPy Spec.Tables Gen.GMiniPy.
Import ListNotations.
Local Open Scope Z_scope.

Ltac lk := repeat (rewrite lookup_set_eq || rewrite lookup_set_neq by reflexivity).

Section Titration.
Variable P : Q -> Q.                  (* np.power(10, x) *)
Hypothesis P_ok : forall x, Qeq_bool (Qred (inject_Z 1 + P x)) 0 = false.
Variable s : list aa.                 (* self.seq *)
Variable ph : Q.
Variable total_mode : bool.           (* mode == 'TOTAL' *)

Definition ti_prim (name : string) (args : list value) : value :=
  if String.eqb name "np.power" then match args with [VInt 10; VQ x] => VQ (P x) | _ => VErr end
  else if String.eqb name "qdiv" then
    match args with
    | [a; b] => match as_Q a, as_Q b with
                | Some x, Some y => if Qeq_bool y 0 then VExc else VQ (Qred (x / y))
                | _, _ => VErr
                end
    | _ => VErr
    end
  else VErr.
Local Notation exec := (MiniPy.exec ti_prim 0).
Local Notation eval := (MiniPy.eval ti_prim).

Definition ti_spine : list stmt := Eval vm_compute in spine g_charge_at_pH.
Definition ti_body : stmt := Eval vm_compute in match nth 4 ti_spine SSkip with SFor _ _ b => b | _ => SSkip end.
Definition pka_dict : value := Eval vm_compute in match nth 1 ti_spine SSkip with SAssign _ (EConst v) => v | _ => VNone end.
Lemma ti_parts : ti_spine = [nth 0 ti_spine SSkip; SAssign "pKa_lookup" (EConst pka_dict); SAssign "total" (EConst (VQ (0 # 1)));
                             SAssign "countable_residues" (EConst (VInt 0)); SFor "res" (EVar "self.seq") ti_body; nth 5 ti_spine SSkip; SReturn (EVar "total")].
Proof. reflexivity. Qed.

Definition negn : Q := if total_mode then 1 # 1 else Qred (inject_Z 0 - (1 # 1)).
Definition is_posr (a : aa) : bool := match a with Lys | Arg | His => true | _ => false end.
Definition is_negr (a : aa) : bool := match a with Glu | Asp | Tyr | Cys => true | _ => false end.
Definition pk (a : aa) : Q := match pka a with Some q => q | None => 0 end.

(* the pKa dictionary of the data module is the published table *)
Lemma pka_lookup a : is_posr a || is_negr a = true -> exists q, dict_get (VStr [aa_char a]) (match pka_dict with VDict d => d | _ => [] end) = Some (VQ q) /\ (q == pk a)%Q.
Proof. destruct a; intros H; try discriminate H; eexists; (split; [vm_compute; reflexivity | reflexivity]). Qed.

Definition pos_term (q : Q) : Q := Qred (inject_Z 1 / Qred (inject_Z 1 + P (Qred (ph - q)))).
Definition neg_term (q : Q) : Q := Qred (negn / Qred (inject_Z 1 + P (Qred (q - ph)))).
Definition dict_q (a : aa) : Q := match dict_get (VStr [aa_char a]) (match pka_dict with VDict d => d | _ => [] end) with Some (VQ q) => q | _ => 0 end.
Definition step (acc : Q * Z) (a : aa) : Q * Z :=
  if is_posr a then (Qred (fst acc + pos_term (dict_q a)), snd acc + 1)
  else if is_negr a then (Qred (fst acc + neg_term (dict_q a)), snd acc + 1)
  else acc.

Lemma in_pos a : v_in (VStr [aa_char a]) (VList [VStr (list_ascii_of_string "K"); VStr (list_ascii_of_string "R"); VStr (list_ascii_of_string "H")]) = VBool (is_posr a).
Proof. destruct a; reflexivity. Qed.
Lemma in_neg a : v_in (VStr [aa_char a]) (VList [VStr (list_ascii_of_string "E"); VStr (list_ascii_of_string "D"); VStr (list_ascii_of_string "Y"); VStr (list_ascii_of_string "C")]) = VBool (is_negr a).
Proof. destruct a; reflexivity. Qed.
Lemma not_both a : is_posr a = true -> is_negr a = false. Proof. destruct a; intros H; try discriminate H; reflexivity. Qed.
Lemma dict_some a : is_posr a || is_negr a = true -> dict_get (VStr [aa_char a]) (match pka_dict with VDict d => d | _ => [] end) = Some (VQ (dict_q a)).
Proof. destruct a; intros H; try discriminate H; reflexivity. Qed.

Definition lit_pos : expr := EListLit [EConst (VStr (list_ascii_of_string "K")); EConst (VStr (list_ascii_of_string "R")); EConst (VStr (list_ascii_of_string "H"))].
Definition lit_neg : expr := EListLit [EConst (VStr (list_ascii_of_string "E")); EConst (VStr (list_ascii_of_string "D")); EConst (VStr (list_ascii_of_string "Y")); EConst (VStr (list_ascii_of_string "C"))].
Lemma lit_pos_val r : eval lit_pos r = VList [VStr (list_ascii_of_string "K"); VStr (list_ascii_of_string "R"); VStr (list_ascii_of_string "H")]. Proof. reflexivity. Qed.
Lemma lit_neg_val r : eval lit_neg r = VList [VStr (list_ascii_of_string "E"); VStr (list_ascii_of_string "D"); VStr (list_ascii_of_string "Y"); VStr (list_ascii_of_string "C")]. Proof. reflexivity. Qed.
Lemma eval_in a b r : eval (EIn a b) r = v_in (eval a r) (eval b r). Proof. reflexivity. Qed.

(* one residue *)
Lemma ti_step a (tot : Q) (n : Z) r : lookup "pH" r = VQ ph -> lookup "pKa_lookup" r = pka_dict -> lookup "negative_numerator" r = VQ negn ->
  lookup "total" r = VQ tot -> lookup "countable_residues" r = VInt n ->
  exists r', exec ti_body (set "res" (VStr [aa_char a]) r) = ONorm r' /\
    lookup "total" r' = VQ (fst (step (tot, n) a)) /\ lookup "countable_residues" r' = VInt (snd (step (tot, n) a)) /\
    lookup "pH" r' = VQ ph /\ lookup "pKa_lookup" r' = pka_dict /\ lookup "negative_numerator" r' = VQ negn /\
    lookup "normalize" r' = lookup "normalize" r.
Proof.
  intros Hph Hpk Hneg Htot Hn. set (r0 := set "res" (VStr [aa_char a]) r).
  change ti_body with (SSeq (SIf (EIn (EVar "res") lit_pos) (match ti_body with SSeq (SIf _ x _) _ => x | _ => SSkip end) SSkip)
                            (SIf (EIn (EVar "res") lit_neg) (match ti_body with SSeq _ (SIf _ x _) => x | _ => SSkip end) SSkip)).
  cbn [ti_body]. unfold step. cbn [fst snd].
  assert (Tp : truthy (eval (EIn (EVar "res") lit_pos) r0) = VBool (is_posr a)).
  { rewrite eval_in, lit_pos_val, eval_var. unfold r0. lk. now rewrite in_pos. }
  assert (Edict : forall rr, lookup "pKa_lookup" rr = pka_dict -> lookup "res" rr = VStr [aa_char a] -> is_posr a || is_negr a = true ->
                  eval (EIndex (EVar "pKa_lookup") (EVar "res")) rr = VQ (dict_q a)).
  { intros rr H1 H2 H3. apply (eval_index_dict _ _ _ (match pka_dict with VDict d => d | _ => [] end) (VStr [aa_char a]));
      [rewrite eval_var; exact H1 | rewrite eval_var; exact H2 | reflexivity | apply dict_some; exact H3]. }
  rewrite exec_seq.
  destruct (is_posr a) eqn:Epos.
  - rewrite (exec_if_true _ _ _ _ Tp).
    assert (Ek : eval (EIndex (EVar "pKa_lookup") (EVar "res")) r0 = VQ (dict_q a)) by (apply Edict; [unfold r0; lk; exact Hpk | unfold r0; lk; reflexivity | reflexivity]).
    assert (Ex : eval (ESub (EVar "pH") (EIndex (EVar "pKa_lookup") (EVar "res"))) r0 = VQ (Qred (ph - dict_q a))).
    { apply eval_sub_Q; [rewrite eval_var; unfold r0; lk; exact Hph | exact Ek]. }
    assert (Ep : eval (ECall "np.power" [EConst (VInt 10); ESub (EVar "pH") (EIndex (EVar "pKa_lookup") (EVar "res"))]) r0 = VQ (P (Qred (ph - dict_q a)))).
    { rewrite (eval_call2 _ _ _ _ (VInt 10) (VQ (Qred (ph - dict_q a))) (eval_const _ _) Ex eq_refl eq_refl). reflexivity. }
    assert (Ed : eval (EAdd (EConst (VInt 1)) (ECall "np.power" [EConst (VInt 10); ESub (EVar "pH") (EIndex (EVar "pKa_lookup") (EVar "res"))])) r0 =
                 VQ (Qred (inject_Z 1 + P (Qred (ph - dict_q a))))) by (apply eval_add_Q_int_l; [reflexivity | exact Ep]).
    assert (Et : eval (ECall "qdiv" [EConst (VInt 1); EAdd (EConst (VInt 1)) (ECall "np.power" [EConst (VInt 10); ESub (EVar "pH") (EIndex (EVar "pKa_lookup") (EVar "res"))])]) r0 =
                 VQ (pos_term (dict_q a))).
    { rewrite (eval_call2 _ _ _ _ (VInt 1) _ (eval_const _ _) Ed eq_refl eq_refl). unfold ti_prim. cbn [String.eqb Ascii.eqb Bool.eqb as_Q]. now rewrite P_ok. }
    assert (Etot : eval (EAdd (EVar "total") (ECall "qdiv" [EConst (VInt 1); EAdd (EConst (VInt 1)) (ECall "np.power" [EConst (VInt 10); ESub (EVar "pH") (EIndex (EVar "pKa_lookup") (EVar "res"))])])) r0 =
                   VQ (Qred (tot + pos_term (dict_q a)))) by (apply eval_add_Q; [rewrite eval_var; unfold r0; lk; exact Htot | exact Et]).
    rewrite exec_seq, (exec_assign_ok _ _ _ _ Etot eq_refl).
    set (r1 := set "total" _ r0).
    assert (Ec : eval (EAdd (EVar "countable_residues") (EConst (VInt 1))) r1 = VInt (n + 1)) by (apply eval_add_int; [rewrite eval_var; unfold r1, r0; lk; exact Hn | reflexivity]).
    rewrite (exec_assign_ok _ _ _ _ Ec eq_refl).
    set (r2 := set "countable_residues" _ r1).
    assert (Tn : truthy (eval (EIn (EVar "res") lit_neg) r2) = VBool false).
    { rewrite eval_in, lit_neg_val, eval_var. unfold r2, r1, r0. lk. rewrite in_neg. now rewrite (not_both a Epos). }
    rewrite (exec_if_false _ _ _ _ Tn). eexists. split; [reflexivity|]. unfold r2, r1, r0. lk. repeat split; assumption || reflexivity.
  - rewrite (exec_if_false _ _ _ _ Tp). change (MiniPy.exec ti_prim 0 SSkip r0) with (ONorm r0). cbv beta iota.
    assert (Tn : truthy (eval (EIn (EVar "res") lit_neg) r0) = VBool (is_negr a)).
    { rewrite eval_in, lit_neg_val, eval_var. unfold r0. lk. now rewrite in_neg. }
    destruct (is_negr a) eqn:Eneg.
    + rewrite (exec_if_true _ _ _ _ Tn).
      assert (Ek : eval (EIndex (EVar "pKa_lookup") (EVar "res")) r0 = VQ (dict_q a)) by (apply Edict; [unfold r0; lk; exact Hpk | unfold r0; lk; reflexivity | reflexivity]).
      assert (Ex : eval (ESub (EIndex (EVar "pKa_lookup") (EVar "res")) (EVar "pH")) r0 = VQ (Qred (dict_q a - ph))).
      { apply eval_sub_Q; [exact Ek | rewrite eval_var; unfold r0; lk; exact Hph]. }
      assert (Ep : eval (ECall "np.power" [EConst (VInt 10); ESub (EIndex (EVar "pKa_lookup") (EVar "res")) (EVar "pH")]) r0 = VQ (P (Qred (dict_q a - ph)))).
      { rewrite (eval_call2 _ _ _ _ (VInt 10) (VQ (Qred (dict_q a - ph))) (eval_const _ _) Ex eq_refl eq_refl). reflexivity. }
      assert (Ed : eval (EAdd (EConst (VInt 1)) (ECall "np.power" [EConst (VInt 10); ESub (EIndex (EVar "pKa_lookup") (EVar "res")) (EVar "pH")])) r0 =
                   VQ (Qred (inject_Z 1 + P (Qred (dict_q a - ph))))) by (apply eval_add_Q_int_l; [reflexivity | exact Ep]).
      assert (Et : eval (ECall "qdiv" [EVar "negative_numerator"; EAdd (EConst (VInt 1)) (ECall "np.power" [EConst (VInt 10); ESub (EIndex (EVar "pKa_lookup") (EVar "res")) (EVar "pH")])]) r0 =
                   VQ (neg_term (dict_q a))).
      { assert (Hng : eval (EVar "negative_numerator") r0 = VQ negn) by (rewrite eval_var; unfold r0; lk; exact Hneg).
        rewrite (eval_call2 _ _ _ _ (VQ negn) _ Hng Ed eq_refl eq_refl).
        unfold ti_prim. cbn [String.eqb Ascii.eqb Bool.eqb as_Q]. now rewrite P_ok. }
      assert (Etot : eval (EAdd (EVar "total") (ECall "qdiv" [EVar "negative_numerator"; EAdd (EConst (VInt 1)) (ECall "np.power" [EConst (VInt 10); ESub (EIndex (EVar "pKa_lookup") (EVar "res")) (EVar "pH")])])) r0 =
                     VQ (Qred (tot + neg_term (dict_q a)))) by (apply eval_add_Q; [rewrite eval_var; unfold r0; lk; exact Htot | exact Et]).
      rewrite exec_seq, (exec_assign_ok _ _ _ _ Etot eq_refl).
      set (r1 := set "total" _ r0).
      assert (Ec : eval (EAdd (EVar "countable_residues") (EConst (VInt 1))) r1 = VInt (n + 1)) by (apply eval_add_int; [rewrite eval_var; unfold r1, r0; lk; exact Hn | reflexivity]).
      rewrite (exec_assign_ok _ _ _ _ Ec eq_refl).
      eexists. split; [reflexivity|]. unfold r1, r0. lk. repeat split; assumption || reflexivity.
    + rewrite (exec_if_false _ _ _ _ Tn). exists r0. split; [reflexivity|]. unfold r0. lk. repeat split; assumption || reflexivity.
Qed.

Lemma ti_loop : forall (l : list aa) (tot : Q) (n : Z) r, lookup "pH" r = VQ ph -> lookup "pKa_lookup" r = pka_dict -> lookup "negative_numerator" r = VQ negn ->
  lookup "total" r = VQ tot -> lookup "countable_residues" r = VInt n ->
  exists r', MiniPy.run_loop ti_prim 0 "res" ti_body (map (fun c => VStr [c]) (map aa_char l)) r = ONorm r' /\
    lookup "total" r' = VQ (fst (fold_left step l (tot, n))) /\ lookup "countable_residues" r' = VInt (snd (fold_left step l (tot, n))) /\
    lookup "normalize" r' = lookup "normalize" r.
Proof.
  induction l as [|a l IH]; intros tot n r Hph Hpk Hneg Htot Hn.
  - exists r. cbn [map MiniPy.run_loop fold_left fst snd]. repeat split; assumption || reflexivity.
  - cbn [map MiniPy.run_loop fold_left].
    destruct (ti_step a tot n r Hph Hpk Hneg Htot Hn) as [r1 [E1 [Ht1 [Hn1 [Hph1 [Hpk1 [Hneg1 Hnm1]]]]]]]. rewrite E1.
    destruct (step (tot, n) a) as [tot1 n1] eqn:Es. cbn [fst snd] in Ht1, Hn1.
    destruct (IH tot1 n1 r1 Hph1 Hpk1 Hneg1 Ht1 Hn1) as [r2 [E2 [Ht2 [Hn2 Hnm2]]]].
    exists r2. split; [exact E2|]. split; [exact Ht2|]. split; [exact Hn2|]. now rewrite Hnm2, Hnm1.
Qed.

Definition raw : Q * Z := fold_left step s (0 # 1, 0).
Definition charge_result (normalize : bool) : value :=
  if normalize then (if snd raw =? 0 then VInt 0 else VQ (Qred (fst raw / inject_Z (snd raw)))) else VQ (fst raw).

(* charge_at_pH on EVERY residue word, rational pH and mode, WHATEVER np.power returns (as long as 1 + P(x) is never 0) *)
Theorem charge_at_pH_tie (normalize : bool) r : lookup "self.seq" r = VStr (map aa_char s) -> lookup "pH" r = VQ ph ->
  lookup "mode" r = VStr (if total_mode then list_ascii_of_string "TOTAL" else []) -> lookup "normalize" r = VBool normalize ->
  exec g_charge_at_pH r = ORet (charge_result normalize).
Proof.
  intros Hs Hph Hmode Hnorm. rewrite exec_spine. change (spine g_charge_at_pH) with ti_spine. rewrite ti_parts.
  (* negative_numerator *)
  rewrite exec_list_cons.
  change (nth 0 ti_spine SSkip) with (SIf (EEq (EVar "mode") (EConst (VStr (list_ascii_of_string "TOTAL")))) (SAssign "negative_numerator" (EConst (VQ (1 # 1))))
                                          (SAssign "negative_numerator" (ESub (EConst (VInt 0)) (EConst (VQ (1 # 1)))))).
  assert (Tm : truthy (eval (EEq (EVar "mode") (EConst (VStr (list_ascii_of_string "TOTAL")))) r) = VBool total_mode).
  { cbn [MiniPy.eval]. rewrite Hmode. destruct total_mode; reflexivity. }
  assert (E0 : exists r0, exec (SIf (EEq (EVar "mode") (EConst (VStr (list_ascii_of_string "TOTAL")))) (SAssign "negative_numerator" (EConst (VQ (1 # 1))))
                                  (SAssign "negative_numerator" (ESub (EConst (VInt 0)) (EConst (VQ (1 # 1)))))) r = ONorm r0 /\ r0 = set "negative_numerator" (VQ negn) r).
  { unfold negn. destruct total_mode.
    - rewrite (exec_if_true _ _ _ _ Tm). eexists. split; [apply exec_assign_ok; reflexivity | reflexivity].
    - rewrite (exec_if_false _ _ _ _ Tm). eexists. split; [apply exec_assign_ok; reflexivity | reflexivity]. }
  destruct E0 as [r0 [E0 ->]]. rewrite E0.
  rewrite exec_list_cons, (exec_assign_ok _ _ _ pka_dict) by reflexivity.
  rewrite exec_list_cons, (exec_assign_ok _ _ _ (VQ (0 # 1))) by reflexivity.
  rewrite exec_list_cons, (exec_assign_ok _ _ _ (VInt 0)) by reflexivity.
  set (r3 := set "countable_residues" (VInt 0) (set "total" (VQ (0 # 1)) (set "pKa_lookup" pka_dict (set "negative_numerator" (VQ negn) r)))).
  rewrite exec_list_cons, exec_for, eval_var. replace (lookup "self.seq" r3) with (VStr (map aa_char s)) by (unfold r3; lk; now rewrite Hs). cbn [elements].
  destruct (ti_loop s (0 # 1) 0 r3) as [r4 [E4 [Ht4 [Hn4 Hnm4]]]]; try (unfold r3; lk; assumption || reflexivity).
  rewrite E4. fold raw in Ht4, Hn4.
  (* normalisation *)
  rewrite exec_list_cons.
  change (nth 5 ti_spine SSkip) with (SIf (EVar "normalize") (SIf (EEq (EVar "countable_residues") (EConst (VInt 0))) (SAssign "total" (EConst (VInt 0)))
                                                                   (SAssign "total" (ECall "qdiv" [EVar "total"; EVar "countable_residues"]))) SSkip).
  assert (Tn : truthy (eval (EVar "normalize") r4) = VBool normalize).
  { rewrite eval_var, Hnm4. unfold r3. lk. rewrite Hnorm. reflexivity. }
  unfold charge_result. destruct normalize.
  - rewrite (exec_if_true _ _ _ _ Tn).
    assert (Tz : truthy (eval (EEq (EVar "countable_residues") (EConst (VInt 0))) r4) = VBool (snd raw =? 0)).
    { rewrite (eval_eq_int _ _ _ (snd raw) 0); [reflexivity | rewrite eval_var; exact Hn4 | reflexivity]. }
    destruct (snd raw =? 0) eqn:Ez.
    + rewrite (exec_if_true _ _ _ _ Tz), (exec_assign_ok _ _ _ (VInt 0)) by reflexivity.
      rewrite exec_list_cons, (exec_return_ok _ _ (VInt 0)); [reflexivity | rewrite eval_var; lk; reflexivity | reflexivity].
    + rewrite (exec_if_false _ _ _ _ Tz).
      assert (Ev : eval (ECall "qdiv" [EVar "total"; EVar "countable_residues"]) r4 = VQ (Qred (fst raw / inject_Z (snd raw)))).
      { rewrite (eval_call2 _ _ _ _ (VQ (fst raw)) (VInt (snd raw)) (eq_trans (eval_var _ _) Ht4) (eq_trans (eval_var _ _) Hn4) eq_refl eq_refl).
        unfold ti_prim. cbn [String.eqb Ascii.eqb Bool.eqb as_Q].
        replace (Qeq_bool (inject_Z (snd raw)) 0) with false; [reflexivity|]. symmetry. apply not_true_is_false. intros C. apply Qeq_bool_iff in C.
        apply Z.eqb_neq in Ez. unfold Qeq, inject_Z in C. cbn in C. lia. }
      rewrite (exec_assign_ok _ _ _ _ Ev eq_refl).
      rewrite exec_list_cons, (exec_return_ok _ _ (VQ (Qred (fst raw / inject_Z (snd raw))))); [reflexivity | rewrite eval_var; lk; reflexivity | reflexivity].
  - rewrite (exec_if_false _ _ _ _ Tn). change (MiniPy.exec ti_prim 0 SSkip r4) with (ONorm r4). cbv beta iota.
    rewrite exec_list_cons, (exec_return_ok _ _ (VQ (fst raw))); [reflexivity | rewrite eval_var; exact Ht4 | reflexivity].
Qed.

(* the number of titratable residues counted is the number of K, R, H, E, D, Y, C *)
Lemma count_is : snd raw = cnt (fun a => is_posr a || is_negr a) s.
Proof.
  unfold raw. assert (G : forall l t n, snd (fold_left step l (t, n)) = n + cnt (fun a => is_posr a || is_negr a) l).
  { induction l as [|a l IH]; intros t n; [cbn; lia|]. cbn [fold_left cnt]. unfold step at 2. cbn [fst snd].
    destruct (is_posr a) eqn:Ep; [rewrite IH; cbn [orb]; lia|]. destruct (is_negr a); rewrite IH; cbn [orb]; lia. }
  rewrite G. lia.
Qed.
End Titration.
Print Assumptions charge_at_pH_tie.

Example charge_runs : let P := fun x : Q => (x * x + 1)%Q in
  MiniPy.exec (ti_prim P) 0 g_charge_at_pH [("self.seq"%string, VStr (map aa_char [Lys; Glu; Gly; His])); ("pH"%string, VQ (7 # 1)); ("mode"%string, VStr []); ("normalize"%string, VBool true)] =
  ORet (charge_result P [Lys; Glu; Gly; His] (7 # 1) false true) /\ snd (raw P [Lys; Glu; Gly; His] (7 # 1) false) = 3.
Proof. split; vm_compute; reflexivity. Qed.
