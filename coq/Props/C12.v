(* C12 — reduced alphabets implement the documented residue partitions.
   Theorems about Spec/Model only; the generated cascade enters through
   Props/Tie/alphabets_tie.v (reduce_tie: the source's cascade is a valid_reduction). *)
From Coq Require Import List ZArith Bool String.
From LC Require Import Core.Residue Spec.Alphabets Model.Alphabets Proofs.Alphabets.
Import ListNotations.
Local Open Scope Z_scope.

(* every map that sends each residue to a fixed member of its documented group … *)
Theorem C12_rep_in_own_group k f : valid_reduction k f ->
  forall r, exists g, group_of k r = Some g /\ In r g /\ In (f r) g.
Proof. exact (f_in_own_group k f). Qed.
Print Assumptions C12_rep_in_own_group.

Theorem C12_reduce_length k f : valid_reduction k f -> forall s, List.length (map f s) = List.length s.
Proof. intros _. exact (reduce_length f). Qed.
Print Assumptions C12_reduce_length.

Theorem C12_reduce_concat k f : valid_reduction k f -> forall s t, map f (s ++ t) = map f s ++ map f t.
Proof. intros _. exact (reduce_app f). Qed.
Print Assumptions C12_reduce_concat.

Theorem C12_reduce_idempotent k f : valid_reduction k f -> forall s, map f (map f s) = map f s.
Proof. exact (reduce_idem k f). Qed.
Print Assumptions C12_reduce_idempotent.

Theorem C12_size_rejected allowed f k s : ~ In k allowed -> reduce_predef allowed f k s = None.
Proof. exact (predef_rejects_notin allowed f k s). Qed.
Print Assumptions C12_size_rejected.

Theorem C12_size_accepted allowed f k s : In k allowed -> reduce_predef allowed f k s = Some (map (f k) s).
Proof. exact (predef_accepts_in allowed f k s). Qed.
Print Assumptions C12_size_accepted.

Theorem C12_user_accept_iff u : user_accepted u = true <-> forall r, exists r', ulookup u r = Some r'.
Proof. exact (user_accept_iff u). Qed.
Print Assumptions C12_user_accept_iff.

Theorem C12_user_applied_residue_by_residue u s out alph : reduce_user u s = Some (out, alph) ->
  out = map (uapply u) s /\ List.length out = List.length s /\ (forall r, ulookup u r = Some (uapply u r)).
Proof. exact (user_apply_is_map u s out alph). Qed.
Print Assumptions C12_user_applied_residue_by_residue.

Theorem C12_user_rejected u s : user_accepted u = false -> reduce_user u s = None.
Proof. exact (user_reject u s). Qed.
Print Assumptions C12_user_rejected.

Theorem C12_user_alphabet u s out alph : reduce_user u s = Some (out, alph) ->
  NoDup alph /\ forall a, In a alph <-> exists r, uapply u r = a.
Proof. exact (user_alphabet_is_image u s out alph). Qed.
Print Assumptions C12_user_alphabet.

(* non-vacuity: the documented tables satisfy valid_reduction for a concrete map *)
Example C12_nonvacuous : valid_reduction_b 2 (fun r => if mem_aa r (grp "EDNQKRH") then Glu else Leu) = true.
Proof. exact C12_example. Qed.
