(* C16 — phosphosites are exactly the requested in-range S/T/Y positions; derived values follow. *)
From Coq Require Import QArith ZArith List Arith.
From LC Require Import Core.Residue Core.Lists Spec.Delta Model.Delta Model.Phospho Proofs.Phospho.
Import ListNotations.

Theorem C16_sequence_never_changes ops o : pseq (prun ops o) = pseq o.
Proof. exact (seq_unchanged ops o). Qed.
Print Assumptions C16_sequence_never_changes.

(* first-set order, no repeats, exactly the valid requests since the last clear *)
Theorem C16_sites_spec s ops :
  psites (prun ops {| pseq := s; psites := [] |}) =
  addnew [] (map idx_of (filter (valid_site s) (since_clear [] ops))).
Proof. exact (sites_spec_fresh s ops). Qed.
Print Assumptions C16_sites_spec.

Theorem C16_no_repeats s ops : NoDup (psites (prun ops {| pseq := s; psites := [] |})).
Proof. exact (sites_nodup s ops). Qed.
Print Assumptions C16_no_repeats.

Theorem C16_only_requested_in_range_STY s ops i : In i (psites (prun ops {| pseq := s; psites := [] |})) ->
  (i < List.length s)%nat /\ (exists a, nth_error s i = Some a /\ sty a = true) /\
  In (Z.of_nat (S i)) (since_clear [] ops).
Proof. exact (sites_in_range_STY s ops i). Qed.
Print Assumptions C16_only_requested_in_range_STY.

Theorem C16_every_valid_request_recorded s ops z : In z (since_clear [] ops) -> valid_site s z = true ->
  In (idx_of z) (psites (prun ops {| pseq := s; psites := [] |})).
Proof. exact (requested_valid_recorded s ops z). Qed.
Print Assumptions C16_every_valid_request_recorded.

Theorem C16_clear_empties o : psites (pstep o PClear) = [].
Proof. reflexivity. Qed.

Theorem C16_phosphosequence o i :
  nth_error (phosphoseq o) i = option_map (fun a => if memn i (psites o) then Glu else a) (nth_error (pseq o) i).
Proof. exact (phosphoseq_spec o i). Qed.
Print Assumptions C16_phosphosequence.

Theorem C16_phosphosequence_without_sites s : subst_at s [] = s.
Proof. exact (phosphoseq_no_sites s). Qed.

Theorem C16_distribution_has_2_pow_k_entries o : List.length (states o) = (2 ^ List.length (psites o))%nat.
Proof. exact (states_length o). Qed.
Print Assumptions C16_distribution_has_2_pow_k_entries.

Theorem C16_distribution_binary_counting_order o j : (j < 2 ^ List.length (psites o))%nat ->
  nth j (states o) ([], []) =
  (bits_msb (List.length (psites o)) j,
   subst_at (pseq o) (chosen (psites o) (bits_msb (List.length (psites o)) j))).
Proof. exact (states_nth o j). Qed.
Print Assumptions C16_distribution_binary_counting_order.

Example C16_example :
  get_sites (prun [PSet [0; -1; 9; 100; 5; 5; 1; 2]%Z; PSet [8]%Z]
                  {| pseq := [Ser; Lys; Lys; Lys; Tyr; Lys; Lys; Thr]; psites := [] |}) = [5; 1; 8]%Z
  /\ bits_msb 3 5 = [true; false; true].
Proof. vm_compute. split; reflexivity. Qed.
