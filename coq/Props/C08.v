(* C08 — diagram-of-states region: total, follows the FCR/NCPR thresholds, composition-only,
   and the binary64 decisions agree with exact rational evaluation including at the boundaries. *)
From Coq Require Import ZArith QArith String.
From LC Require Import Spec.Region Model.Region Proofs.Region Proofs.RegionFloat.
Local Open Scope Z_scope.

Theorem C08_rational_cascade_is_spec p n N : 0 < N -> 0 <= p -> 0 <= n -> p + n <= N ->
  regionQ_counts p n N = regionZ p n N.
Proof. exact (cascadeQ_eq_spec p n N). Qed.
Print Assumptions C08_rational_cascade_is_spec.

Theorem C08_total p n N : 1 <= regionZ p n N <= 5.
Proof. exact (region_total p n N). Qed.
Print Assumptions C08_total.

Theorem C08_never_raises p n N : 0 < N -> 0 <= p -> 0 <= n -> p + n <= N -> 1 <= regionQ_counts p n N <= 5.
Proof. exact (region_no_raise p n N). Qed.
Print Assumptions C08_never_raises.

Theorem C08_regions_4_5_by_majority p n N : 0 < N -> 0 <= p -> 0 <= n ->
  (regionZ p n N = 5 -> n < p) /\ (regionZ p n N = 4 -> p < n).
Proof. exact (region_45_strict p n N). Qed.
Print Assumptions C08_regions_4_5_by_majority.

Theorem C08_float_cascade_is_spec_upto_200 p n N : 0 < N <= 200 -> 0 <= p -> 0 <= n -> p + n <= N ->
  regionF_counts p n N = regionZ p n N.
Proof. exact (cascadeF_eq_spec_upto_200 p n N). Qed.
Print Assumptions C08_float_cascade_is_spec_upto_200.

Theorem C08_annotation_total r : 1 <= r <= 5 -> annotation r <> "ERROR, NOT A REAL REGION"%string.
Proof. exact (annotation_total r). Qed.

Example C08_boundaries : (regionZ 1 0 4, regionZ 5 2 20, regionZ 7 0 20, regionZ 6 2 20, regionZ 8 1 20, regionZ 1 8 20)
                         = (2, 2, 2, 3, 5, 4).
Proof. vm_compute. reflexivity. Qed.
