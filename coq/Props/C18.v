(* C18 — the Wang–Landau run obeys the WL update rule and its outputs are self-consistent. *)
From Coq Require Import QArith ZArith List Bool.
From LC Require Import Core.Residue Model.DeltaCheck Model.WL Proofs.WL.
Import ListNotations.

(* the invariant: rearrangement of the input; vector lengths; the occupied bin exists; the histogram
   counts the counted steps since its last reset; g = g at the start of the iteration + ln f x histogram *)
Theorem C18_initial_state c input start idx0 : same_multiset start input = true -> (idx0 < nb_actual c)%nat ->
  WInv c input (wl_init c start idx0).
Proof. exact (init_inv c input start idx0). Qed.

Theorem C18_step_preserves_invariant c input s e : WInv c input s -> side_ok c s e = true -> WInv c input (wl_step c s e).
Proof. exact (step_inv c input s e). Qed.
Print Assumptions C18_step_preserves_invariant.

Theorem C18_invariant_over_any_run c input es s s' : WInv c input s -> wl_run c s es = Some s' -> WInv c input s'.
Proof. exact (run_inv c input es s s'). Qed.
Print Assumptions C18_invariant_over_any_run.

Theorem C18_never_moves_outside_range c s e : side_ok c s e = true -> e_acc e = true -> in_range c (e_idx e) = true.
Proof. exact (accepted_in_range c s e). Qed.
Print Assumptions C18_never_moves_outside_range.

Theorem C18_accept_moves_reject_stays c s e :
  (e_acc e = true -> cur (wl_step c s e) = e_prop e /\ idx_old (wl_step c s e) = e_idx e) /\
  (e_acc e = false -> cur (wl_step c s e) = cur s /\ idx_old (wl_step c s e) = idx_old s).
Proof. exact (conj (accepted_moves_to_proposal c s e) (rejected_stays c s e)). Qed.

Theorem C18_f_and_histogram_schedule c s e :
  let h' := if e_skip e then hv s else upd (hv s) (if e_acc e then e_idx e else idx_old s) (fun x => (x + 1)%Z) in
  (kexp (wl_step c s e) = S (kexp s) /\ hv (wl_step c s e) = zeros (nb_actual c) /\ niter (wl_step c s e) = S (niter s)) \/
  (kexp (wl_step c s e) = kexp s /\ hv (wl_step c s e) = h' /\ niter (wl_step c s e) = niter s).
Proof. exact (f_schedule c s e). Qed.

Theorem C18_f_changes_only_at_a_flat_scheduled_check c s e : kexp (wl_step c s e) <> kexp s ->
  (S (nstep s) mod nflat c = 0)%nat /\
  is_flat c (if e_skip e then hv s else upd (hv s) (if e_acc e then e_idx e else idx_old s) (fun x => (x + 1)%Z)) = true.
Proof. exact (f_changes_only_when_flat c s e). Qed.
Print Assumptions C18_f_changes_only_at_a_flat_scheduled_check.

Theorem C18_flat_means_every_bin_above_criterion c h : is_flat c h = true -> (0 < nb_target c)%nat ->
  List.length (hlocal c h) = nb_target c ->
  forall x, In x (hlocal c h) -> (crit c * inject_Z (sumZ (hlocal c h)) <= inject_Z x * inject_Z (Z.of_nat (nb_target c)))%Q.
Proof. exact (flat_means c h). Qed.
Print Assumptions C18_flat_means_every_bin_above_criterion.

Theorem C18_bin_centres_are_midpoints c i : (0 < nb_actual c)%nat ->
  (centre c i == (inject_Z (Z.of_nat i) + (1 # 2)) / inject_Z (Z.of_nat (nb_actual c)))%Q.
Proof. exact (centre_midpoint c i). Qed.
Print Assumptions C18_bin_centres_are_midpoints.

Theorem C18_relevant_window c : (0 < nb_target c)%nat -> (rmax c - rmin c + 1 = nb_target c)%nat.
Proof. exact (relevant_window_size c). Qed.

(* the requested range: an aligned request [r/N, (r+nb)/N] selects exactly the bins whose centre lies in it, and
   __init__'s arithmetic (geom_of: binWidth, round(1/binWidth), argmin of the centre distances) recovers N and r from
   it for every partition up to 24 bins *)
Theorem C18_relevant_window_is_the_requested_range c (bmin bmax : Q) i : (0 < nb_actual c)%nat -> (0 < nb_target c)%nat ->
  (bmin == (Z.of_nat (rmin c) # Pos.of_nat (nb_actual c)))%Q ->
  (bmax == (Z.of_nat (rmin c + nb_target c) # Pos.of_nat (nb_actual c)))%Q ->
  (in_range c i = true <-> (bmin < centre c i /\ centre c i < bmax)%Q).
Proof. exact (aligned_window c bmin bmax i). Qed.
Print Assumptions C18_relevant_window_is_the_requested_range.

Theorem C18_geometry_of_an_aligned_request na r nb : (1 <= na <= 24)%nat -> (1 <= nb)%nat -> (r + nb <= na)%nat ->
  geom_of nb (Z.of_nat r # Pos.of_nat na) (Z.of_nat (r + nb) # Pos.of_nat na) = (na, r).
Proof. exact (geom_of_aligned na r nb). Qed.
Print Assumptions C18_geometry_of_an_aligned_request.

(* non-vacuity: two events on a small configuration satisfy the side conditions *)
Example C18_nonvacuous :
  let c := {| nb_target := 2; nb_actual := 2; rmin := 0; nflat := 2; crit := 1 # 10 |} in
  exists s', wl_run c (wl_init c [Glu; Lys; Glu; Lys; Gly; Gly; Glu; Lys] 1)
     [ {| e_prop := [Glu; Lys; Glu; Lys; Gly; Gly; Glu; Lys]; e_idx := 0; e_skip := false; e_ap := 1; e_u := 1 # 2; e_acc := true |} ] = Some s'.
Proof. cbn zeta. eexists. vm_compute. reflexivity. Qed.
