(* C13 — sequence strings are normalised or rejected, never silently altered. *)
From Coq Require Import NArith List Bool.
From LC Require Import Core.Residue Model.Normalise Proofs.Normalise.
Import ListNotations.
Local Open Scope N_scope.

Theorem C13_accept_iff upper isspace s w :
  normalise upper isspace s = Some w <->
  (w <> [] /\ map code w = filter is_aa_b (flat_map upper s) /\
   Forall (fun c => is_aa_b c = true \/ isspace c = true) (flat_map upper s)).
Proof. exact (accept_iff upper isspace s w). Qed.
Print Assumptions C13_accept_iff.

Theorem C13_reject_reasons upper isspace s : normalise upper isspace s = None ->
  s = [] \/ (exists c, In c (flat_map upper s) /\ is_aa_b c = false /\ isspace c = false) \/
  filter is_aa_b (flat_map upper s) = [].
Proof. exact (reject_reasons upper isspace s). Qed.
Print Assumptions C13_reject_reasons.

Theorem C13_normalised_word_is_fixed upper isspace :
  (forall a, upper (code a) = [code a]) ->
  forall s w, normalise upper isspace s = Some w -> normalise upper isspace (map code w) = Some w.
Proof. exact (normalise_idempotent upper isspace). Qed.
Print Assumptions C13_normalised_word_is_fixed.

Theorem C13_ascii_upper_fixes_residues a : upper_ascii_N (code a) = [code a].
Proof. exact (ascii_upper_fixes_residues a). Qed.

Theorem C13_ascii_lowercase_accepted a : upper_ascii_N (code a + 32) = [code a].
Proof. exact (ascii_lowercase_accepted a). Qed.

Theorem C13_ascii_other_characters_rejected c : c < 128 ->
  is_aa_b (match upper_ascii_N c with [u] => u | _ => c end) = false -> isspace_ascii_N c = false ->
  forall pre post, normalise upper_ascii_N isspace_ascii_N (pre ++ c :: post) = None.
Proof. exact (ascii_non_letters_rejected c). Qed.
Print Assumptions C13_ascii_other_characters_rejected.

Example C13_example :
  normalise upper_ascii_N isspace_ascii_N [101; 32; 75; 10; 103] = Some [Glu; Lys; Gly] /\
  normalise upper_ascii_N isspace_ascii_N [101; 49] = None /\ normalise upper_ascii_N isspace_ascii_N [32; 9] = None.
Proof. vm_compute. repeat split. Qed.
