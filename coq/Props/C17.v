(* C17 — shuffles and moves only rearrange, keep frozen sites, stay self-consistent. *)
From Coq Require Import QArith ZArith List Bool Arith Permutation.
From LC Require Import Core.Residue Spec.Delta Model.Delta Model.Moves Proofs.Moves Proofs.MovesFrame.
Import ListNotations.

(* any move, any outcome of its random choices accepted by the model: the child is a rearrangement of
   the parent, its charge bookkeeping is that of a fresh object on its sequence, and a carried
   delta-max is the delta-max of that sequence *)
Theorem C17_every_move o m c : MInv o -> apply_move o m = Some c -> Permutation (mseq c) (mseq o) /\ MInv c.
Proof. exact (move_spec o m c). Qed.
Print Assumptions C17_every_move.

Theorem C17_chains_of_moves ms o c : MInv o -> apply_chain o ms = Some c -> Permutation (mseq c) (mseq o) /\ MInv c.
Proof. exact (chain_spec ms o c). Qed.
Print Assumptions C17_chains_of_moves.

Theorem C17_fresh_object_consistent s : MInv (mfresh s).
Proof. exact (mfresh_inv s). Qed.

Theorem C17_pair_swap_keeps_other_positions o i j k : (k < List.length (mseq o))%nat -> k <> i -> k <> j ->
  nth k (mseq (swapRes o i j)) Ala = nth k (mseq o) Ala.
Proof. exact (swapRes_untouched o i j k). Qed.
Print Assumptions C17_pair_swap_keeps_other_positions.

Theorem C17_charge_swap_keeps_frozen o fr ct a b c : MInv o -> swapRand o fr ct a b = Some c ->
  Permutation (mseq c) (mseq o) /\ MInv c /\
  (forall k, In k fr -> (k < List.length (mseq o))%nat -> nth k (mseq c) Ala = nth k (mseq o) Ala).
Proof. exact (swapRand_spec o fr ct a b c). Qed.
Print Assumptions C17_charge_swap_keeps_frozen.

Theorem C17_full_shuffle_keeps_frozen o fr perm c : MInv o -> fullShuffle o fr perm = Some c ->
  Permutation (mseq c) (mseq o) /\ MInv c /\
  (forall k, In k fr -> (k < List.length (mseq o))%nat -> nth k (mseq c) Ala = nth k (mseq o) Ala).
Proof. exact (fullShuffle_spec o fr perm c). Qed.
Print Assumptions C17_full_shuffle_keeps_frozen.

Theorem C17_block_swap o bs i1 i2 c : MInv o -> blockSwap o bs i1 i2 = Some c -> Permutation (mseq c) (mseq o) /\ MInv c.
Proof. exact (blockSwap_spec o bs i1 i2 c). Qed.
Theorem C17_clustering o st sz sw c : MInv o -> clusterMove o st sz sw = Some c -> Permutation (mseq c) (mseq o) /\ MInv c.
Proof. exact (clusterMove_spec o st sz sw c). Qed.
Print Assumptions C17_clustering.

(* what the two remaining moves leave alone: every position outside the two exchanged index ranges (block swap),
   outside the cluster and the sampled swap positions (clustering), keeps its residue *)
Theorem C17_block_swap_keeps_other_positions o bs i1 i2 c k : blockSwap o bs i1 i2 = Some c ->
  (k < List.length (mseq o))%nat ->
  (k < i1 \/ i1 + (bs - 1) <= k)%nat -> (k < i2 + bs - 1 \/ i2 + bs - 1 + (bs - 1) <= k)%nat ->
  nth k (mseq c) Ala = nth k (mseq o) Ala.
Proof. exact (blockSwap_untouched o bs i1 i2 c k). Qed.
Print Assumptions C17_block_swap_keeps_other_positions.

Theorem C17_clustering_keeps_other_positions o st sz sw c k : clusterMove o st sz sw = Some c ->
  (k < List.length (mseq o))%nat -> (k < st \/ st + sz <= k)%nat -> ~ In k sw ->
  nth k (mseq c) Ala = nth k (mseq o) Ala.
Proof. exact (clusterMove_untouched o st sz sw c k). Qed.
Print Assumptions C17_clustering_keeps_other_positions.

(* block swap, completely: the child is the parent read in the order [0,i1) [j,j+L) [i1+L,j) [i1,i1+L) [j+L,n), L = bs-1, j = i2+bs-1
   (the code's min:max slices exchange bs-1 residues of each block, in order) *)
Theorem C17_block_swap_closed_form o bs i1 i2 c : blockSwap o bs i1 i2 = Some c ->
  let n := List.length (mseq o) in let L := (bs - 1)%nat in let j := (i2 + bs - 1)%nat in
  mseq c = rearrange Ala (mseq o)
             (seq 0 i1 ++ seq j L ++ seq (i1 + L) (j - (i1 + L)) ++ seq i1 L ++ seq (j + L) (n - (j + L))).
Proof. exact (blockSwap_closed_form o bs i1 i2 c). Qed.
Print Assumptions C17_block_swap_closed_form.

Example C17_frame_nonvacuous :
  exists c, blockSwap (mfresh [Glu; Lys; Gly; Ser; Asp; Arg; Gly; Ala]) 3 0 2 = Some c /\
            nth 2 (mseq c) Ala = Gly /\ nth 0 (mseq c) Ala <> Glu.
Proof. eexists. split; [vm_compute; reflexivity|]. split; [reflexivity | discriminate]. Qed.

(* the frozen clause is false for block swap (and clustering): known finding D9 *)
Theorem C17_block_swap_frozen_refuted : exists o bs i1 i2 c k,
  blockSwap o bs i1 i2 = Some c /\ nth k (mseq c) Ala <> nth k (mseq o) Ala.
Proof. exact block_swap_moves_frozen_positions. Qed.

Example C17_nonvacuous :
  exists c, apply_chain (mfresh [Glu; Lys; Gly; Ser; Asp; Arg; Gly])
              [MKappa; MSwap 0 3; MShuffle [0%nat] [5; 2; 6; 1; 4; 3]%nat; MBlock 2 0 1; MCluster 1 2 [5%nat; 4%nat]] = Some c.
Proof. eexists. vm_compute. reflexivity. Qed.
