(* C14 — sequence files parse to exactly their residues. *)
From Coq Require Import List Bool String Ascii Arith.
From LC Require Import Core.Residue Model.Parser Proofs.Parser.
Import ListNotations.

(* Any file whose lines are: blank/whitespace lines, at most one header line (optional leading
   whitespace, '>', anything), and sequence lines made of residue letters, blanks, digits (and '*'),
   every line but possibly the last terminated by a newline.  If the residue/star tokens of the
   sequence lines are the residues w, optionally followed by one final '*', the file parses to w. *)
Theorem C14_layout_parses kls ls1 last w :
  Forall (fun kl => line_ok (fst kl) (snd kl)) kls -> Forall plain (map snd kls) -> (nheaders kls <= 1)%nat ->
  map snd kls = ls1 ++ [last] ->
  (List.concat (map line_toks kls) = map Some w \/ List.concat (map line_toks kls) = map Some w ++ [None]) ->
  parse (join ls1 last) = Some w.
Proof. exact (layout_parses kls ls1 last w). Qed.
Print Assumptions C14_layout_parses.

(* The same for Windows files and any whitespace padding: every line may be followed by \n or \r\n (freely mixed), and
   may carry leading / trailing whitespace of any kind str.strip() removes (tabs, form feeds, blanks, \x1c-\x1f ...)
   around a body of one of the three kinds above; the last line with or without its terminator. *)
Theorem C14_layout_parses_padded_crlf (pls : list pline) (lastl : pline) w :
  Forall pline_ok pls -> pline_ok lastl ->
  let kls := map (fun x => (pl_kind x, pl_body x)) (pls ++ [lastl]) in
  (nheaders kls <= 1)%nat ->
  (List.concat (map line_toks kls) = map Some w \/ List.concat (map line_toks kls) = map Some w ++ [None]) ->
  forall final_newline : bool,
  parse (joinT (map (fun x => (pl_text x, pl_term x)) pls ++ (if final_newline then [(pl_text lastl, pl_term lastl)] else []))
               (if final_newline then [] else pl_text lastl)) = Some w.
Proof. exact (layout_parses_padded pls lastl w). Qed.
Print Assumptions C14_layout_parses_padded_crlf.

(* a sequence line of residues, blanks and digits contributes exactly its residues … *)
Theorem C14_line_tokens_are_residues cs : forallb okc cs = true -> toks cs = map Some (res_of cs).
Proof. exact (toks_okc cs). Qed.
Print Assumptions C14_line_tokens_are_residues.
(* … however it is broken up: *)
Theorem C14_tokens_concatenate a b : toks (a ++ b) = toks a ++ toks b.
Proof. exact (toks_app a b). Qed.
Theorem C14_residue_word w : res_of (map aa_char w) = w.
Proof. exact (res_of_word w). Qed.

Theorem C14_second_header_rejected text :
  (2 <= List.length (filter is_header_b (split_nl (unl false text))))%nat -> parse text = None.
Proof. exact (second_header_rejected text). Qed.
Print Assumptions C14_second_header_rejected.

Theorem C14_other_character_rejected text l c : In l (split_nl (unl false text)) -> is_header_b l = false ->
  In c l -> okstar c = false -> is_ws c = false -> parse text = None.
Proof. exact (bad_character_rejected text l c). Qed.
Print Assumptions C14_other_character_rejected.

Theorem C14_repeated_star_rejected acc : (2 <= List.length (filter is_star acc))%nat -> final_validation acc = None.
Proof. exact (final_two_stars acc). Qed.

Theorem C14_non_final_star_rejected a x b : final_validation (a ++ None :: b ++ [Some x]) = None.
Proof. exact (final_nonterminal_star a x b). Qed.
Print Assumptions C14_non_final_star_rejected.

(* non-vacuity: a FASTA file with numbering, 10-residue groups, a blank line and a final '*' *)
Example C14_example_windows_tabs :
  parse (list_ascii_of_string ">sp|X test " ++ [cr; nl; "009"%char] ++ list_ascii_of_string " 1 EKEKGSGSAA TY" ++
         ["009"%char; cr; nl; nl; "012"%char] ++ list_ascii_of_string "13 PP*" ++ [cr; nl])
  = Some [Glu; Lys; Glu; Lys; Gly; Ser; Gly; Ser; Ala; Ala; Thr; Tyr; Pro; Pro].
Proof. exact layout_padded_example. Qed.

Example C14_example :
  parse (list_ascii_of_string
    (">sp|X  test" ++ String nl ("    1 EKEKGSGSAA TY" ++ String nl ("" ++ String nl ("   13 PP*" ++ String nl "")))))
  = Some [Glu; Lys; Glu; Lys; Gly; Ser; Gly; Ser; Ala; Ala; Thr; Tyr; Pro; Pro].
Proof. vm_compute. reflexivity. Qed.
