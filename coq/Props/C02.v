(* C02 — delta is the Das–Pappu blob-averaged charge-asymmetry variance.
   Spec.Delta.delta is the statement; Model.Delta.m_delta is the code-shaped loop that the
   correspondence runs against get_delta(); Tie: charge_tie.v, delta_formulas_tie.v. *)
From Coq Require Import QArith ZArith List.
From LC Require Import Core.Residue Core.Lists Core.QTools Spec.Delta Model.Delta Proofs.Delta Proofs.Permutant.
Import ListNotations.

Theorem C02_model_is_spec l : (m_delta l == delta l)%Q.
Proof. exact (m_delta_spec l). Qed.
Print Assumptions C02_model_is_spec.

Theorem C02_blob_longer_than_sequence_contributes_0 w l : (length l < w)%nat -> (deltaForm w l == 0)%Q.
Proof. exact (deltaForm_too_long w l). Qed.
Print Assumptions C02_blob_longer_than_sequence_contributes_0.

Theorem C02_delta_short l : (length l < 5)%nat -> (delta l == 0)%Q.
Proof. exact (delta_short l). Qed.
Print Assumptions C02_delta_short.

Theorem C02_delta_nonneg l : (0 <= delta l)%Q.
Proof. exact (delta_nonneg l). Qed.
Print Assumptions C02_delta_nonneg.

Theorem C02_sigma_uncharged l : (npos l + nneg l = 0)%Z -> sigma l = 0%Q.
Proof. exact (sigma_uncharged l). Qed.
Print Assumptions C02_sigma_uncharged.

Theorem C02_delta_uncharged l : (npos l + nneg l = 0)%Z -> (delta l == 0)%Q.
Proof. exact (delta_uncharged l). Qed.
Print Assumptions C02_delta_uncharged.

(* non-vacuity / sanity: a charged 10-mer with neutrals has the hand-computed value *)
Example C02_example : Qred (m_delta (pat [Glu; Lys; Glu; Lys; Gly; Gly; Glu; Lys; Glu; Lys])) = (1 # 675)%Q.
Proof. vm_compute. reflexivity. Qed.
