(* C20 — HTML rendering shows each residue once, in order, in its palette colour; palette updates. *)
From Coq Require Import List Bool String Ascii Arith.
From LC Require Import Core.Residue Model.Html Proofs.Html.
Import ListNotations.
Local Open Scope string_scope.

Theorem C20_loop_model_is_spec pal s : m_render pal s = render pal s.
Proof. exact (m_render_spec pal s). Qed.
Print Assumptions C20_loop_model_is_spec.

Theorem C20_structure pal s :
  render pal s = header ++ pieces pal 0 s ++ footer /\
  forall i r, piece pal i r =
    (if (i mod 10 =? 0)%nat then " " else "") ++ (if (i mod 50 =? 0)%nat then "<br>" else "") ++
    "<span style=""color:" ++ pal r ++ """>" ++ aa_str r ++ "</span>".
Proof. exact (render_structure pal s). Qed.

Theorem C20_pieces_in_order pal s t i : pieces pal i (s ++ t) = pieces pal i s ++ pieces pal (i + List.length s) t.
Proof. exact (pieces_app pal s t i). Qed.
Print Assumptions C20_pieces_in_order.

Theorem C20_stripping_markup_recovers_sequence pal s :
  (forall r, no_gt (pal r) = true) -> strip_markup (render pal s) = map aa_char s.
Proof. exact (strip_render pal s). Qed.
Print Assumptions C20_stripping_markup_recovers_sequence.

Theorem C20_accept_iff pal d :
  (exists pal', set_palette pal d = Some pal') <->
  (forall r, exists c, assoc (aa_str r) d = Some c /\ In c colours17).
Proof. exact (palette_accept_iff pal d). Qed.
Print Assumptions C20_accept_iff.

Theorem C20_accepted_dictionary_becomes_palette pal d pal' : set_palette pal d = Some pal' ->
  forall r, assoc (aa_str r) d = Some (pal' r) /\ In (pal' r) colours17.
Proof. exact (palette_accept_sets pal d pal'). Qed.
Print Assumptions C20_accepted_dictionary_becomes_palette.

Theorem C20_rejected_leaves_palette_unchanged pal d : set_palette pal d = None -> pal_step pal d = pal.
Proof. exact (palette_reject_unchanged pal d). Qed.

Theorem C20_palette_always_valid ds pal : pal_valid pal -> pal_valid (fold_left pal_step ds pal).
Proof. exact (palette_inv ds pal). Qed.
Print Assumptions C20_palette_always_valid.

Theorem C20_strip_after_any_history ds s :
  strip_markup (render (fold_left pal_step ds default_palette) s) = map aa_char s.
Proof. exact (strip_render_after_history ds s). Qed.
Print Assumptions C20_strip_after_any_history.

Example C20_example :
  render default_palette [Lys; Gly] =
  "<p style=""font-family:Courier;""> <br><span style=""color:blue"">K</span><span style=""color:green"">G</span></p>".
Proof. vm_compute. reflexivity. Qed.
