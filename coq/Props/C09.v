(* C09 — pH-dependent charge follows Henderson–Hasselbalch; the isoelectric point neutralises the chain. *)
From Coq Require Import Reals QArith Qabs ZArith List Bool.
From LC Require Import Core.Residue Spec.Tables Model.Titration Proofs.Titration.
Import ListNotations.

Theorem C09_NCPR_never_increases_with_pH ts N x y : counts_nonneg ts -> (0 < N)%R -> (x <= y)%R ->
  (NCPR_pH ts N y <= NCPR_pH ts N x)%R.
Proof. exact (NCPR_pH_decreasing ts N x y). Qed.
Print Assumptions C09_NCPR_never_increases_with_pH.

Theorem C09_charge_bounds ts N x : counts_nonneg ts -> (0 < N)%R ->
  (Rabs (NCPR_pH ts N x) <= FCR_pH ts N x /\ FCR_pH ts N x <= ntitR ts / N)%R.
Proof. exact (charge_bounds ts N x). Qed.
Print Assumptions C09_charge_bounds.

Theorem C09_expanding_adds_proline ts nP N x : (0 < N)%R -> (FER_pH ts nP N x = FCR_pH ts N x + nP / N)%R.
Proof. exact (FER_adds_proline ts nP N x). Qed.
Print Assumptions C09_expanding_adds_proline.

Theorem C09_pH_outside_0_14_rejected x : (x < 0 \/ 14 < x)%Q -> pH_ok x = false.
Proof. exact (pH_rejected x). Qed.
Print Assumptions C09_pH_outside_0_14_rejected.

(* the loop, for EVERY charge oracle (the code's float-valued charge function included) *)
Theorem C09_pI_within_threshold f fuel lo hi bc ec prev vis x trace :
  pi_loop f fuel lo hi bc ec prev vis = (Some x, trace) -> (Qabs (f x) <= 2 # 100)%Q.
Proof. exact (pi_returns_within_threshold f fuel lo hi bc ec prev vis x trace). Qed.
Print Assumptions C09_pI_within_threshold.

Theorem C09_pI_terminates_within_221_evaluations f r trace :
  isoelectric f = (r, trace) -> (List.length trace <= 221)%nat.
Proof. exact (iso_evaluations_bounded f r trace). Qed.
Print Assumptions C09_pI_terminates_within_221_evaluations.

Theorem C09_pI_failure_only_by_escape_clause f :
  fst (isoelectric f) = None ->
  exists fuel' lo' hi' prev' vis', fst (pi_loop f (S fuel') lo' hi' 19 10 prev' vis') = None.
Proof. exact (iso_failure_only_by_escape f). Qed.

Theorem C09_pI_is_7_when_nothing_titrates f : (forall x, f x == 0)%Q -> fst (isoelectric f) = Some 7%Q.
Proof. exact (pi_no_titratable f). Qed.
Print Assumptions C09_pI_is_7_when_nothing_titrates.

(* the titratable table of the model: K, R, H positive; E, D, Y, C negative *)
Example C09_terms : map snd (titr_terms [Lys]) = [true; true; true; false; false; false; false] /\
                    map (fun t => fst (fst t)) (titr_terms [Lys; Asp; Lys]) = [2; 0; 0; 0; 1; 0; 0]%Z.
Proof. vm_compute. split; reflexivity. Qed.
