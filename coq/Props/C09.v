(* C09 — pH-dependent charge follows Henderson–Hasselbalch; the isoelectric point neutralises the chain. *)
From Coq Require Import Reals QArith Qabs ZArith List Bool.
From Coq Require Import Qreals.
From LC Require Import Core.Residue Spec.Tables Model.Titration Proofs.Titration Proofs.PiTotal Proofs.PiReal.
Import ListNotations.

Theorem C09_NCPR_never_increases_with_pH ts N x y : counts_nonneg ts -> (0 < N)%R -> (x <= y)%R ->
  (NCPR_pH ts N y <= NCPR_pH ts N x)%R.
Proof. exact (NCPR_pH_decreasing ts N x y). Qed.
Print Assumptions C09_NCPR_never_increases_with_pH.

Theorem C09_charge_bounds ts N x : counts_nonneg ts -> (0 < N)%R ->
  (Rabs (NCPR_pH ts N x) <= FCR_pH ts N x /\ FCR_pH ts N x <= ntitR ts / N)%R.
Proof. exact (charge_bounds ts N x). Qed.
Print Assumptions C09_charge_bounds.

Theorem C09_expanding_adds_proline ts nP N x : (0 < N)%R -> (FER_pH ts nP N x = FCR_pH ts N x + nP / N)%R.
Proof. exact (FER_adds_proline ts nP N x). Qed.
Print Assumptions C09_expanding_adds_proline.

Theorem C09_pH_outside_0_14_rejected x : (x < 0 \/ 14 < x)%Q -> pH_ok x = false.
Proof. exact (pH_rejected x). Qed.
Print Assumptions C09_pH_outside_0_14_rejected.

(* the loop, for EVERY charge oracle (the code's float-valued charge function included) *)
Theorem C09_pI_within_threshold f fuel lo hi bc ec prev vis x trace :
  pi_loop f fuel lo hi bc ec prev vis = (Some x, trace) -> (Qabs (f x) <= 2 # 100)%Q.
Proof. exact (pi_returns_within_threshold f fuel lo hi bc ec prev vis x trace). Qed.
Print Assumptions C09_pI_within_threshold.

Theorem C09_pI_terminates_within_221_evaluations f r trace :
  isoelectric f = (r, trace) -> (List.length trace <= 221)%nat.
Proof. exact (iso_evaluations_bounded f r trace). Qed.
Print Assumptions C09_pI_terminates_within_221_evaluations.

Theorem C09_pI_failure_only_by_escape_clause f :
  fst (isoelectric f) = None ->
  exists fuel' lo' hi' prev' vis', fst (pi_loop f (S fuel') lo' hi' 19 10 prev' vis') = None.
Proof. exact (iso_failure_only_by_escape f). Qed.

Theorem C09_pI_is_7_when_nothing_titrates f : (forall x, f x == 0)%Q -> fst (isoelectric f) = Some 7%Q.
Proof. exact (pi_no_titratable f). Qed.
Print Assumptions C09_pI_is_7_when_nothing_titrates.


(* ---- get_isoelectric_point never raises ----
   (1) pure Q, for EVERY oracle that is approximately non-increasing (slack 2/1000), approximately 1-Lipschitz over
       distances <= 1/16, not below -11/1000 at pH <= 1 and not above 11/1000 at pH >= 15: the loop returns after at
       most 28 evaluations (the escape clause fires at most once). *)
Theorem C09_pI_never_raises_for_any_such_oracle (f : Q -> Q) :
  (forall x y, x <= y -> f y <= f x + (2 # 1000))%Q ->
  (forall x y, x <= y -> y - x <= 1 # 16 -> f x - f y <= (y - x) + (2 # 1000))%Q ->
  (forall x, x <= 1 -> - (11 # 1000) <= f x)%Q ->
  (forall x, 15 <= x -> f x <= 11 # 1000)%Q ->
  exists x tr, isoelectric f = (Some x, tr) /\ (List.length tr <= 28)%nat.
Proof. exact (bisect_total_28 f). Qed.
Print Assumptions C09_pI_never_raises_for_any_such_oracle.

(* (2) over R: for EVERY sequence with a titratable residue, every oracle within 1/1000 of the exact
       Henderson-Hasselbalch mean charge per titratable residue (the float evaluation of
       charge_at_pH(pH, normalize=True) is one; the harness measures its distance on every recorded call)
       meets (1): no exception, at most 28 evaluations, and by C09_pI_within_threshold the result neutralises. *)
Theorem C09_pI_never_raises s (f : Q -> Q) : (0 < ntit s)%Z ->
  (forall q, (Rabs (Q2R (f q) - ncharge (titr_terms s) (Q2R q)) <= 1 / 1000)%R) ->
  exists x tr, isoelectric f = (Some x, tr) /\ (List.length tr <= 28)%nat.
Proof. exact (pi_never_raises s f). Qed.
Print Assumptions C09_pI_never_raises.

Theorem C09_pI_returned_pH_neutralises s (f : Q -> Q) : (0 < ntit s)%Z ->
  (forall q, (Rabs (Q2R (f q) - ncharge (titr_terms s) (Q2R q)) <= 1 / 1000)%R) ->
  exists x tr, isoelectric f = (Some x, tr) /\ (Qabs (f x) <= 2 # 100)%Q /\
               (Rabs (ncharge (titr_terms s) (Q2R x)) <= 21 / 1000)%R.
Proof. exact (pi_result_neutral s f). Qed.
Print Assumptions C09_pI_returned_pH_neutralises.

(* the hypotheses of (1) are satisfiable, and the escape clause is really needed: a linear oracle with its root at
   pH 14.5 (an Arg-only chain has its pI there) is found on the 20th evaluation, after the one escape *)
Example C09_oracle_conditions_satisfiable :
  let f := fun x : Q => ((29 # 2) - x) * (1 # 8) in
  ((forall x y, x <= y -> f y <= f x + (2 # 1000)) /\
   (forall x y, x <= y -> y - x <= 1 # 16 -> f x - f y <= (y - x) + (2 # 1000)) /\
   (forall x, x <= 1 -> - (11 # 1000) <= f x) /\ (forall x, 15 <= x -> f x <= 11 # 1000))%Q /\
  fst (isoelectric f) = Some (7602169 # 524288) /\ List.length (snd (isoelectric f)) = 20%nat.
Proof. exact oracle_example. Qed.

(* the titratable table of the model: K, R, H positive; E, D, Y, C negative *)
Example C09_terms : map snd (titr_terms [Lys]) = [true; true; true; false; false; false; false] /\
                    map (fun t => fst (fst t)) (titr_terms [Lys; Asp; Lys]) = [2; 0; 0; 0; 1; 0; 0]%Z.
Proof. vm_compute. split; reflexivity. Qed.
