(* C10 — sliding-window profiles report each window's statistic at its centre position. *)
From Coq Require Import QArith ZArith List Arith.
From LC Require Import Core.Residue Core.Lists Core.QTools Spec.Delta Spec.Tables Model.Composition
     Model.Windows Proofs.Windows.
Import ListNotations.

Theorem C10_flanks w N : (1 <= w <= N)%nat -> flanks w N = (((w - 1) / 2)%nat, (w / 2)%nat).
Proof. exact (flank_spec w N). Qed.
Print Assumptions C10_flanks.

Theorem C10_one_column_per_residue {A} (stat : list A -> Q) w (l : list A) r :
  (1 <= w <= length l)%nat -> profile stat w l = Some r -> length r = length l.
Proof. intros H. exact (profile_length stat w l H r). Qed.
Print Assumptions C10_one_column_per_residue.

Theorem C10_window_value_at_centre {A} (stat : list A -> Q) w (l : list A) r i :
  (1 <= w <= length l)%nat -> profile stat w l = Some r -> (i < length l + 1 - w)%nat ->
  nth (i + (w - 1) / 2) r 0%Q = stat (blob w i l).
Proof. intros H. exact (profile_nth stat w l H r i). Qed.
Print Assumptions C10_window_value_at_centre.

Theorem C10_leading_positions_zero {A} (stat : list A -> Q) w (l : list A) r j :
  (1 <= w <= length l)%nat -> profile stat w l = Some r -> (j < (w - 1) / 2)%nat -> nth j r 0%Q = 0%Q.
Proof. intros H. exact (profile_leading_zero stat w l H r j). Qed.
Print Assumptions C10_leading_positions_zero.

Theorem C10_trailing_positions_zero {A} (stat : list A -> Q) w (l : list A) r j :
  (1 <= w <= length l)%nat -> profile stat w l = Some r -> (length l - w / 2 <= j)%nat -> nth j r 0%Q = 0%Q.
Proof. intros H. exact (profile_trailing_zero stat w l H r j). Qed.
Print Assumptions C10_trailing_positions_zero.

Theorem C10_longer_window_rejected {A} (stat : list A -> Q) w (l : list A) :
  (length l < w)%nat -> profile stat w l = None.
Proof. exact (profile_rejects stat w l). Qed.
Print Assumptions C10_longer_window_rejected.

Theorem C10_full_window {A} (stat : list A -> Q) (l : list A) : l <> [] ->
  profile stat (length l) l = Some (repeat 0%Q ((length l - 1) / 2) ++ [stat l] ++ repeat 0%Q (length l / 2)).
Proof. exact (profile_full_window stat l). Qed.
Print Assumptions C10_full_window.

Theorem C10_full_window_is_global_parameter s :
  ncpr_w (length s) (pat s) == NCPR s /\ fcr_w (length s) (pat s) == FCR s /\
  sigma_w (length s) (pat s) = sigma (pat s) /\ hydro_w (length s) s = uversky s /\
  forall g, density_w g (length s) s = meanT (fun a => ind (mem_aa a g)) s.
Proof.
  exact (conj (full_window_NCPR s) (conj (full_window_FCR s) (conj (full_window_sigma s)
        (conj (full_window_hydropathy s) (fun g => full_window_density g s))))).
Qed.
Print Assumptions C10_full_window_is_global_parameter.

Theorem C10_delta_from_sigma_profiles w l :
  (deltaForm w l == sumQ (map (fun v => sqQ (sigma l - v)) (map (sigma_w w) (blobs w l)))
                    / inject_Z (len (blobs w l)))%Q.
Proof. exact (deltaForm_from_sigma_profile w l). Qed.
Print Assumptions C10_delta_from_sigma_profiles.

Example C10_example :
  lin_NCPR 4 [Glu; Lys; Glu; Lys; Gly; Gly] = Some [0; 0 # 4; 1 # 4; 0 # 4; 0; 0]%Q.
Proof. vm_compute. reflexivity. Qed.
