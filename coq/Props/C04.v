(* C04 — composition parameters equal their published per-residue definitions. *)
From Coq Require Import QArith Qabs ZArith List Permutation.
From LC Require Import Core.Residue Core.Lists Core.QTools Spec.Delta Spec.Tables Model.Composition Proofs.Composition.
Import ListNotations.
Local Open Scope Q_scope.

(* every mean parameter is (sum of the per-residue table) / N by definition (Model.Composition.meanT);
   hence permutation invariance: *)
Theorem C04_permutation_invariant t s s' : Permutation s s' -> meanT t s == meanT t s'.
Proof. exact (meanT_perm t s s'). Qed.
Print Assumptions C04_permutation_invariant.

Theorem C04_molecular_weight_def s : molw s = sumQ (map mw s) - 18 * (lenQ s - 1).
Proof. reflexivity. Qed.

Theorem C04_molecular_weight_permutation s s' : Permutation s s' -> molw s == molw s'.
Proof. exact (molw_perm s s'). Qed.
Print Assumptions C04_molecular_weight_permutation.

Theorem C04_FCR_is_fpos_plus_fneg s : FCR s == fpos s + fneg s.
Proof. exact (FCR_eq s). Qed.
Print Assumptions C04_FCR_is_fpos_plus_fneg.

Theorem C04_NCPR_is_fpos_minus_fneg s : NCPR s == fpos s - fneg s.
Proof. exact (NCPR_eq s). Qed.
Print Assumptions C04_NCPR_is_fpos_minus_fneg.

Theorem C04_abs_NCPR_le_FCR s : Qabs (NCPR s) <= FCR s.
Proof. exact (abs_NCPR_le_FCR s). Qed.
Print Assumptions C04_abs_NCPR_le_FCR.

Theorem C04_FCR_le_1 s : s <> [] -> FCR s <= 1.
Proof. exact (FCR_le_1 s). Qed.
Print Assumptions C04_FCR_le_1.

Theorem C04_counts_sum_to_length s : (countPos s + countNeg s + countNeut s = Z.of_nat (List.length s))%Z.
Proof. exact (counts_sum s). Qed.
Print Assumptions C04_counts_sum_to_length.

Theorem C04_fractions_are_counts s :
  fpos s == inject_Z (countPos s) / lenQ s /\ fneg s == inject_Z (countNeg s) / lenQ s.
Proof. exact (conj (fpos_is_count s) (fneg_is_count s)). Qed.
Print Assumptions C04_fractions_are_counts.

Theorem C04_amino_acid_fractions_sum_to_1 s : s <> [] -> sumQ (map (fun r => aafrac r s) all20) == 1.
Proof. exact (fractions_sum_1 s). Qed.
Print Assumptions C04_amino_acid_fractions_sum_to_1.

Theorem C04_uversky_is_KD_over_9 s : uversky s == meanKD s / 9.
Proof. exact (uversky_eq s). Qed.
Print Assumptions C04_uversky_is_KD_over_9.

Theorem C04_mean_net_charge s : mean_net_charge s = Qabs (NCPR s).
Proof. reflexivity. Qed.

Theorem C04_expanding_adds_proline s : FER s == FCR s + aafrac Pro s.
Proof. exact (FER_eq s). Qed.
Print Assumptions C04_expanding_adds_proline.

Theorem C04_KD_shifted_to_0_9 a : 0 <= kd_shifted a <= 9.
Proof. exact (kd_shifted_range a). Qed.

Example C04_example : Qred (meanKD [Ala; Arg; Ile]) = (51 # 10) /\ Qred (molw [Gly; Gly]) = (661 # 5).
Proof. vm_compute. split; reflexivity. Qed.
