(* C11 — complexity profiles: window count, positions, range, locality, WF = entropy. *)
From Coq Require Import Reals QArith ZArith List Bool Arith Permutation.
From LC Require Import Core.Residue Core.Lists Model.Alphabets Model.Complexity Proofs.Complexity Proofs.Entropy.
Import ListNotations.

Theorem C11_window_count w s l : (w <= List.length l)%nat ->
  List.length (windows w s l) = ((List.length l - w) / s + 1)%nat.
Proof. exact (windows_count w s l). Qed.
Print Assumptions C11_window_count.

Theorem C11_window_is_its_slice w s l i : (1 <= s)%nat -> (w <= List.length l)%nat -> (i < nwin (List.length l) w s)%nat ->
  List.length (window w s l i) = w /\ window w s l i = firstn w (skipn (i * s) l).
Proof. exact (window_is_slice w s l i). Qed.
Print Assumptions C11_window_is_its_slice.

Theorem C11_value_depends_on_its_window_only {X} (F : list aa -> X) w s l j d : (j < nwin (List.length l) w s)%nat ->
  nth j (map F (windows w s l)) d = F (window w s l j).
Proof. exact (values_are_per_window F w s l j d). Qed.
Print Assumptions C11_value_depends_on_its_window_only.

Theorem C11_positions_count N K : (0 <= K)%Z -> Z.of_nat (List.length (positions N K)) = K.
Proof. exact (positions_length N K). Qed.
Theorem C11_positions_within_1_N N K i : (1 <= K <= N)%Z -> (i < Z.to_nat K)%nat -> (1 <= nth i (positions N K) 0 <= N)%Z.
Proof. exact (positions_in_range N K i). Qed.
Print Assumptions C11_positions_within_1_N.
Theorem C11_positions_strictly_increasing N K i : (1 <= K <= N)%Z -> (S i < Z.to_nat K)%nat ->
  (nth i (positions N K) 0 < nth (S i) (positions N K) 0)%Z.
Proof. exact (positions_strictly_increasing N K i). Qed.
Print Assumptions C11_positions_strictly_increasing.

Theorem C11_LC_in_0_1 alph w ws win : List.length win = w -> (1 <= ws)%nat -> Forall (fun a => In a alph) win ->
  (0 <= lc_value (List.length alph) w ws win <= 1)%Q.
Proof. exact (lc_range alph w ws win). Qed.
Print Assumptions C11_LC_in_0_1.

Theorem C11_LZW_in_0_1 w win : List.length win = w -> (1 <= w)%nat -> (0 <= lzw_value w win <= 1)%Q.
Proof. exact (lzw_range w win). Qed.
Print Assumptions C11_LZW_in_0_1.

(* WF: the counts of the alphabet letters in a window add up to the window length … *)
Theorem C11_counts_sum_to_window alphabet win : NoDup alphabet -> Forall (fun a => In a alphabet) win ->
  fold_right Z.add 0%Z (wf_counts alphabet win) = Z.of_nat (List.length win).
Proof. intros H. exact (sumZ_counts alphabet H win). Qed.
Print Assumptions C11_counts_sum_to_window.

(* … so the Shannon entropy to base k is in [0,1] *)
Theorem C11_WF_nonneg counts w k : (0 < w)%Z -> Forall (fun c => (0 <= c <= w)%Z) counts -> (2 <= k)%nat ->
  (0 <= WF_R counts w k)%R.
Proof. exact (WF_nonneg counts w k). Qed.
Print Assumptions C11_WF_nonneg.
Theorem C11_WF_at_most_1 counts w k : (0 < w)%Z -> Forall (fun c => (0 <= c)%Z) counts ->
  fold_right Z.add 0%Z counts = w -> length counts = k -> (2 <= k)%nat -> (WF_R counts w k <= 1)%R.
Proof. exact (WF_le_1 counts w k). Qed.
Print Assumptions C11_WF_at_most_1.

Theorem C11_WF_homopolymer_is_0 pre post w k : (0 < w)%Z ->
  WF_R (repeat 0%Z pre ++ [w] ++ repeat 0%Z post) w k = 0%R.
Proof. exact (WF_homopolymer pre post w k). Qed.
Theorem C11_homopolymer_counts (x y : aa) n : count_aa y (repeat x n) = if aa_eqb y x then Z.of_nat n else 0%Z.
Proof. exact (wf_counts_homopolymer x y n). Qed.

Theorem C11_WF_permutation_invariant alphabet win win' : Permutation win win' ->
  wf_counts alphabet win = wf_counts alphabet win'.
Proof. exact (wf_counts_perm alphabet win win'). Qed.
Print Assumptions C11_WF_permutation_invariant.

Theorem C11_unknown_type_rejected allowed f alph k ua w s ws l : complexity allowed f alph COther k ua w s ws l = None.
Proof. exact (rejects_unknown_type allowed f alph k ua w s ws l). Qed.
Theorem C11_long_window_rejected allowed f alph ct k ua w s ws l : (List.length l < w)%nat ->
  complexity allowed f alph ct k ua w s ws l = None.
Proof. exact (rejects_long_window allowed f alph ct k ua w s ws l). Qed.
