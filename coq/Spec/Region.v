(* Spec/Region.v — Das–Pappu diagram-of-states region from (n+, n-, N) by exact thresholds (C08). *)
From Coq Require Import ZArith.
Local Open Scope Z_scope.

(* 1: FCR < 1/4;  2: 1/4 <= FCR <= 7/20;  3: FCR > 7/20 and |NCPR| < 7/20;
   otherwise 5 if positives outnumber negatives, 4 if negatives outnumber positives *)
Definition regionZ (p n N : Z) : Z :=
  if 4 * (p + n) <? N then 1
  else if 20 * (p + n) <=? 7 * N then 2
  else if 20 * Z.abs (p - n) <? 7 * N then 3
  else if n <? p then 5 else 4.
