(* Spec/Tables.v — published per-residue values (C04, C09), transcribed by hand:
   Kyte & Doolittle 1982 hydropathy; Wimley & White 1996 octanol scale (sign convention of the
   package documentation); PPII propensities of Elam/Hilser 2013, Rucker/Creamer 2003 and
   Shi/Kallenbach 2005 as tabulated by Tomasso et al. 2016; EMBOSS pKa; average residue masses. *)
From Coq Require Import QArith ZArith List.
From LC Require Import Core.Residue.
Import ListNotations.
Local Open Scope Q_scope.

Definition kd (a : aa) : Q :=
  match a with
  | Ile => 45#10 | Val => 42#10 | Leu => 38#10 | Phe => 28#10 | Cys => 25#10 | Met => 19#10 | Ala => 18#10
  | Gly => -4#10 | Thr => -7#10 | Ser => -8#10 | Trp => -9#10 | Tyr => -13#10 | Pro => -16#10 | His => -32#10
  | Glu => -35#10 | Gln => -35#10 | Asp => -35#10 | Asn => -35#10 | Lys => -39#10 | Arg => -45#10
  end.
(* shifted to 0..9, and Uversky-normalised to 0..1 *)
Definition kd_shifted (a : aa) : Q := kd a + (45#10).
Definition kd_uversky (a : aa) : Q := kd_shifted a / 9.

Definition ww (a : aa) : Q :=
  match a with
  | Ile => 31#100 | Val => -7#100 | Leu => 56#100 | Phe => 113#100 | Cys => 24#100 | Met => 23#100
  | Ala => -17#100 | Gly => -1#100 | Thr => -14#100 | Ser => -13#100 | Trp => 185#100 | Tyr => 94#100
  | Pro => -45#100 | His => -96#100 | Glu => -202#100 | Gln => -58#100 | Asp => -123#100 | Asn => -42#100
  | Lys => -99#100 | Arg => -81#100
  end.

Definition ppii_hilser (a : aa) : Q :=
  match a with
  | Ile => 39#100 | Val => 39#100 | Leu => 24#100 | Phe => 17#100 | Cys => 25#100 | Met => 36#100
  | Ala => 37#100 | Gly => 13#100 | Thr => 32#100 | Ser => 24#100 | Trp => 25#100 | Tyr => 25#100
  | Pro => 1 | His => 20#100 | Glu => 42#100 | Gln => 53#100 | Asp => 30#100 | Asn => 27#100
  | Lys => 56#100 | Arg => 38#100
  end.
Definition ppii_creamer (a : aa) : Q :=
  match a with
  | Ile => 50#100 | Val => 49#100 | Leu => 58#100 | Phe => 58#100 | Cys => 55#100 | Met => 55#100
  | Ala => 61#100 | Gly => 58#100 | Thr => 53#100 | Ser => 58#100 | Trp => 58#100 | Tyr => 58#100
  | Pro => 67#100 | His => 55#100 | Glu => 61#100 | Gln => 66#100 | Asp => 63#100 | Asn => 55#100
  | Lys => 59#100 | Arg => 61#100
  end.
Definition ppii_kallenbach (a : aa) : Q :=
  match a with
  | Ile => 519#1000 | Val => 743#1000 | Leu => 574#1000 | Phe => 639#1000 | Cys => 557#1000 | Met => 498#1000
  | Ala => 818#1000 | Gly => 500#1000 | Thr => 553#1000 | Ser => 774#1000 | Trp => 764#1000 | Tyr => 630#1000
  | Pro => 1 | His => 428#1000 | Glu => 684#1000 | Gln => 654#1000 | Asp => 552#1000 | Asn => 667#1000
  | Lys => 581#1000 | Arg => 638#1000
  end.

(* EMBOSS pKa of the titratable side chains *)
Definition pka (a : aa) : option Q :=
  match a with
  | Cys => Some (85#10) | Tyr => Some (101#10) | His => Some (65#10) | Glu => Some (41#10) | Asp => Some (39#10)
  | Lys => Some 10 | Arg => Some (125#10) | _ => None
  end.

(* free amino-acid masses in Da; one water (18 Da) is lost per peptide bond *)
Definition mw (a : aa) : Q :=
  match a with
  | Ile => 1312#10 | Val => 1171#10 | Leu => 1312#10 | Phe => 1652#10 | Cys => 1212#10 | Met => 1492#10
  | Ala => 891#10 | Gly => 751#10 | Thr => 1191#10 | Ser => 1051#10 | Trp => 2042#10 | Tyr => 1812#10
  | Pro => 1151#10 | His => 1552#10 | Glu => 1471#10 | Gln => 1462#10 | Asp => 1331#10 | Asn => 1321#10
  | Lys => 1462#10 | Arg => 1742#10
  end.
Definition water : Q := 18.

(* disorder-promoting residues (Campen et al. 2008 TOP-IDP classification used by the package) *)
Definition disorder_promoting : list aa := [Thr; Ala; Gly; Arg; Asp; His; Gln; Lys; Ser; Glu; Pro].
(* expanding residues *)
Definition expanding : list aa := [Asp; Glu; Lys; Arg; Pro].
