(* Spec/Alphabets.v — the documented reduced-alphabet partitions (C12), transcribed by
   hand from the docstring table of reduce_alphabet / get_reduced_alphabet_sequence
   (Murphy, Wallqvist & Levy 2000, plus the "eleven" alphabet). *)
From Coq Require Import String ZArith Bool List.
From LC Require Import Core.Residue.
Import ListNotations.
Local Open Scope Z_scope.

Definition grp (s : string) : list aa :=
  match parse_seq s with Some l => l | None => [] end.

Definition sizes : list Z := [2; 3; 4; 5; 6; 8; 10; 11; 12; 15; 18; 20].

Definition groups (k : Z) : list (list aa) :=
  map grp
  (if Z.eqb k 2 then ["LVIMCAGSTPFYW"; "EDNQKRH"] else
   if Z.eqb k 3 then ["LVIMCAGSTP"; "FYW"; "EDNQKRH"] else
   if Z.eqb k 4 then ["LVIMC"; "AGSTP"; "FYW"; "EDNQKRH"] else
   if Z.eqb k 5 then ["LVIMC"; "ASGTP"; "FYW"; "EDNQ"; "KRH"] else
   if Z.eqb k 6 then ["LVIM"; "ASGT"; "PHC"; "FYW"; "EDNQ"; "KR"] else
   if Z.eqb k 8 then ["LVIMC"; "AG"; "ST"; "P"; "FYW"; "EDNQ"; "KR"; "H"] else
   if Z.eqb k 10 then ["LVIM"; "C"; "A"; "G"; "ST"; "P"; "FYW"; "EDNQ"; "KR"; "H"] else
   if Z.eqb k 11 then ["LVIM"; "C"; "A"; "G"; "ST"; "P"; "FYW"; "ED"; "NQ"; "KR"; "H"] else
   if Z.eqb k 12 then ["LVIM"; "C"; "A"; "G"; "ST"; "P"; "FY"; "W"; "EQ"; "DN"; "KR"; "H"] else
   if Z.eqb k 15 then ["LVIM"; "C"; "A"; "G"; "S"; "T"; "P"; "FY"; "W"; "E"; "Q"; "D"; "N"; "KR"; "H"] else
   if Z.eqb k 18 then ["LM"; "VI"; "C"; "A"; "G"; "S"; "T"; "P"; "F"; "Y"; "W"; "E"; "D"; "N"; "Q"; "K"; "R"; "H"] else
   if Z.eqb k 20 then ["A"; "C"; "D"; "E"; "F"; "G"; "H"; "I"; "K"; "L"; "M"; "N"; "P"; "Q"; "R"; "S"; "T"; "V"; "W"; "Y"]
   else [])%string.

Definition group_of (k : Z) (r : aa) : option (list aa) := find (mem_aa r) (groups k).

(* f is a reduction for size k: it sends each residue to one fixed member of its own
   documented group. *)
Definition valid_reduction (k : Z) (f : aa -> aa) : Prop :=
  forall r, exists g, group_of k r = Some g /\ In (f r) g /\ forall r', In r' g -> f r' = f r.

(* boolean version, decidable by evaluation *)
Definition valid_reduction_b (k : Z) (f : aa -> aa) : bool :=
  forallb (fun r =>
    match group_of k r with
    | Some g => mem_aa (f r) g && forallb (fun r' => aa_eqb (f r') (f r)) g
    | None => false
    end) all20.

(* the documented table really is a partition of the 20 residues into k groups *)
Definition partition_b (k : Z) : bool :=
  (Z.of_nat (length (groups k)) =? k) &&
  (Nat.eqb (length (concat (groups k))) 20) &&
  forallb (fun r => mem_aa r (concat (groups k))) all20 &&
  forallb (fun g => negb (Nat.eqb (length g) 0)) (groups k).

(* the alphabet list returned: exactly the representatives, no repeats *)
Definition alphabet_ok_b (k : Z) (f : aa -> aa) (alph : list aa) : bool :=
  Nat.eqb (length alph) (length (groups k)) &&
  forallb (fun g => match g with r :: _ => mem_aa (f r) alph | [] => false end) (groups k) &&
  forallb (fun a => existsb (fun g => match g with r :: _ => aa_eqb (f r) a | [] => false end) (groups k)) alph.
