(* Spec/Delta.v — the Das–Pappu charge-patterning quantities as mathematics (C01–C03, C05).
   A charge pattern is a list over {1,-1,0}; K,R ↦ 1, D,E ↦ -1 (Core.Residue.chg). *)
From Coq Require Import QArith Qabs ZArith List Bool Lia.
From LC Require Import Core.Residue Core.Lists Core.QTools.
Import ListNotations.
Local Open Scope Z_scope.

Definition isposb (x : Z) : bool := 0 <? x.
Definition isnegb (x : Z) : bool := x <? 0.
Definition npos (l : list Z) : Z := cnt isposb l.
Definition nneg (l : list Z) : Z := cnt isnegb l.
Definition len {A} (l : list A) : Z := Z.of_nat (length l).
Definition nneut (l : list Z) : Z := len l - npos l - nneg l.

(* composition (n+, n-, n0) *)
Definition comp (l : list Z) : Z * Z * Z := (npos l, nneg l, nneut l).

(* charge asymmetry sigma = (f+ - f-)^2/(f+ + f-) = (n+ - n-)^2 / (N (n+ + n-)); 0 when uncharged *)
Definition sigma_c (p n N : Z) : Q :=
  if p + n =? 0 then 0%Q else ((p - n) * (p - n)) # Z.to_pos (N * (p + n)).
Definition sigma (l : list Z) : Q := sigma_c (npos l) (nneg l) (len l).

(* mean squared deviation of blob sigmas of width w from the global sigma; 0 if w > N *)
Definition deltaForm (w : nat) (l : list Z) : Q :=
  (sumQ (map (fun b => sqQ (sigma l - sigma b)) (blobs w l)) / inject_Z (len (blobs w l)))%Q.

Definition delta (l : list Z) : Q := ((deltaForm 5 l + deltaForm 6 l) / 2)%Q.

(* ---- the documented family of maximally segregated arrangements (C03) ---- *)
Definition blk (c : Z) (k : nat) : list Z := repeat c k.

Definition cands (p n z : nat) : list (list Z) :=
  if (p + n =? 0)%nat then []
  else if ((p =? 0) || (n =? 0))%nat then
    (* one charge type: the minority block slides through the majority *)
    let c := if (p =? 0)%nat then -1 else 1 in
    let k := if (p =? 0)%nat then n else p in
    if (k <? z)%nat
    then map (fun pos => blk 0 pos ++ blk c k ++ blk 0 (z - pos)) (seq 0 (z + 1))
    else map (fun pos => blk c pos ++ blk 0 z ++ blk c (k - pos)) (seq 0 (k + 1))
  else if (z =? 0)%nat then
    (* no neutrals: the smaller charged block slides through the larger *)
    if (n <? p)%nat
    then map (fun pos => blk 1 pos ++ blk (-1) n ++ blk 1 (p - pos)) (seq 0 (p + 1))
    else map (fun pos => blk (-1) pos ++ blk 1 p ++ blk (-1) (n - pos)) (seq 0 (n + 1))
  else if (18 <=? z)%nat then
    (* many neutrals: at most six at either end *)
    flat_map (fun s => map (fun e =>
       blk 0 s ++ blk 1 p ++ blk 0 (z - s - e) ++ blk (-1) n ++ blk 0 e) (seq 0 7)) (seq 0 7)
  else
    (* all splits of the neutrals between start, middle and end *)
    flat_map (fun m => map (fun s =>
       blk 0 s ++ blk 1 p ++ blk 0 m ++ blk (-1) n ++ blk 0 (z - s - m)) (seq 0 (z - m + 1))) (seq 0 (z + 1)).

(* maximum of f over a list, starting from init; first strict improvement wins *)
Definition qmax_fold (init : Q) (xs : list Q) : Q :=
  fold_left (fun m x => if Qlt_le_dec m x then x else m) xs init.

(* delta-max of a composition: 0 without charges, else the largest delta in the family *)
Definition dmax (p n z : nat) : Q :=
  if (p + n =? 0)%nat then 0%Q else qmax_fold (-1)%Q (map delta (cands p n z)).

Definition natcomp (l : list Z) : nat * nat * nat :=
  (Z.to_nat (npos l), Z.to_nat (nneg l), Z.to_nat (nneut l)).

Definition dmax_of (l : list Z) : Q := let '(p, n, z) := natcomp l in dmax p n z.

(* kappa: -1 iff delta-max is 0, else delta/delta-max with the (1, 1.1) -> 1 rule *)
Definition clamp (r : Q) : Q := if Qlt_le_dec 1 r then (if Qlt_le_dec r (11 # 10) then 1%Q else r) else r.

Definition kappa_c (dl dm : Q) : Q := if Qeq_bool dm 0 then (-1)%Q else clamp (dl / dm)%Q.
Definition kappa (l : list Z) : Q := kappa_c (delta l) (dmax_of l).
