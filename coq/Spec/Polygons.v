(* Spec/Polygons.v — the five coloured regions of the diagram of states as convex polygons in the
   (f+, f-) plane, and what it means for a point to lie inside one (C19). *)
From Coq Require Import QArith List.
Import ListNotations.
Local Open Scope Q_scope.

Definition pt := (Q * Q)%type.

(* vertices as drawn by plt.fill, in order *)
Definition poly (r : Z) : list pt :=
  if (r =? 1)%Z then [(0, 0); (0, 25#100); (25#100, 0)]
  else if (r =? 2)%Z then [(0, 25#100); (0, 35#100); (35#100, 0); (25#100, 0)]
  else if (r =? 3)%Z then [(0, 35#100); (325#1000, 675#1000); (675#1000, 325#1000); (35#100, 0)]
  else if (r =? 4)%Z then [(0, 35#100); (0, 1); (325#1000, 675#1000)]
  else if (r =? 5)%Z then [(35#100, 0); (675#1000, 325#1000); (1, 0)]
  else [].

Definition cross (a b p : pt) : Q :=
  (fst b - fst a) * (snd p - snd a) - (snd b - snd a) * (fst p - fst a).

(* consecutive edges, closing the polygon *)
Fixpoint edges_from (first : pt) (l : list pt) : list (pt * pt) :=
  match l with
  | [] => []
  | [a] => [(a, first)]
  | a :: ((b :: _) as l') => (a, b) :: edges_from first l'
  end.
Definition edges (l : list pt) : list (pt * pt) := match l with [] => [] | a :: _ => edges_from a l end.

(* all five polygons are listed clockwise: a point is inside (boundary included) iff it is on the
   right of, or on, every edge *)
Definition inside (l : list pt) (p : pt) : Prop := forall e, In e (edges l) -> cross (fst e) (snd e) p <= 0.
Definition inside_strict (l : list pt) (p : pt) : Prop := forall e, In e (edges l) -> cross (fst e) (snd e) p < 0.
