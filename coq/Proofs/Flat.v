(* Proofs/Flat.v — clause (iv) of C01: delta-max = 0 exactly for compositions none of whose
   arrangements has any charge-asymmetry variance. *)
From Coq Require Import QArith Qabs Qreduction ZArith List Bool Lia.
From LC Require Import Core.Residue Core.Lists Core.QTools Spec.Delta Model.Delta
     Proofs.Delta Proofs.DeltaMax Proofs.Permutant.
Import ListNotations.
Local Open Scope Z_scope.

(* no charge, or at most 5 residues, or a single charge type and no neutral residue *)
Definition flat_b (p n z : nat) : bool :=
  ((p + n =? 0) || (p + n + z <=? 5) || ((z =? 0) && ((p =? 0) || (n =? 0))))%nat.

Definition all_comps (B : nat) : list (nat * nat * nat) :=
  flat_map (fun N => flat_map (fun p => map (fun n => (p, n, N - p - n)%nat) (seq 0 (N - p + 1))) (seq 0 (N + 1)))
           (seq 1 B).

(* executable delta-max of a composition (Qred-normalised search) *)
Definition m_dmax_c (p n z : nat) : Q :=
  if (p + n =? 0)%nat then 0%Q else fst (m_search (cands p n z)).

Lemma m_dmax_c_spec p n z : (m_dmax_c p n z == dmax p n z)%Q.
Proof.
  unfold m_dmax_c, dmax. destruct (p + n =? 0)%nat; [reflexivity|].
  unfold m_search. apply m_search_fst. reflexivity.
Qed.

(* ---- unbounded converse: flat compositions have delta = 0 in every arrangement ---- *)
Lemma blobs_whole (l : list Z) : blobs (length l) l = [l].
Proof.
  unfold blobs. replace (length l + 1 - length l)%nat with 1%nat by lia.
  cbn [seq map]. unfold blob. cbn [skipn]. rewrite firstn_all. reflexivity.
Qed.

Lemma delta_le5 l : (length l <= 5)%nat -> (delta l == 0)%Q.
Proof.
  intros H. destruct (Nat.eq_dec (length l) 5) as [E|E]; [|apply delta_short; lia].
  unfold delta. rewrite (deltaForm_too_long 6) by lia.
  unfold deltaForm. rewrite <- E at 1 2. rewrite blobs_whole. cbn [map sumQ len length].
  unfold sqQ, Qdiv. ring.
Qed.

Lemma cnt_all_forall {A} (f : A -> bool) l : cnt f l = Z.of_nat (length l) -> Forall (fun x => f x = true) l.
Proof.
  induction l as [|x l IH]; intros H; [constructor|].
  cbn [cnt length] in H. pose proof (cnt_le_length f l).
  destruct (f x) eqn:E; [|lia]. constructor; [exact E | apply IH; lia].
Qed.

Lemma forall_cnt_all {A} (f : A -> bool) l : Forall (fun x => f x = true) l -> cnt f l = Z.of_nat (length l).
Proof. induction 1 as [|x l Hx _ IH]; [reflexivity|]. cbn [cnt length]. rewrite Hx, IH. lia. Qed.

Lemma forall_cnt_none {A} (f g : A -> bool) l : (forall x, f x = true -> g x = false) ->
  Forall (fun x => f x = true) l -> cnt g l = 0.
Proof. intros Hfg. induction 1 as [|x l Hx _ IH]; [reflexivity|]. cbn [cnt]. rewrite (Hfg x Hx), IH. reflexivity. Qed.

Lemma sigma_c_one w : 0 < w -> (sigma_c w 0 w == 1)%Q /\ (sigma_c 0 w w == 1)%Q.
Proof.
  intros Hw. unfold sigma_c. rewrite Z.add_0_r, Z.add_0_l.
  replace (w =? 0) with false by (symmetry; apply Z.eqb_neq; lia).
  rewrite Z.sub_0_r, Z.sub_0_l. split; unfold Qeq; cbn [Qnum Qden]; rewrite Z2Pos.id by nia; nia.
Qed.

Lemma sigma_single_type (f g : Z -> bool) l :
  (f = isposb /\ g = isnegb \/ f = isnegb /\ g = isposb) ->
  l <> [] -> Forall (fun x => f x = true) l -> (sigma l == 1)%Q.
Proof.
  intros Hfg Hne Hall.
  assert (Hex : forall x, f x = true -> g x = false).
  { intros x. destruct Hfg as [[-> ->]|[-> ->]]; unfold isposb, isnegb; lia. }
  pose proof (forall_cnt_all f l Hall) as Hf. pose proof (forall_cnt_none f g l Hex Hall) as Hg.
  assert (Hlen : 0 < len l) by (unfold len; destruct l; [congruence | cbn [length]; lia]).
  unfold sigma. destruct Hfg as [[-> ->]|[-> ->]]; unfold npos, nneg; rewrite Hf, Hg; apply sigma_c_one; exact Hlen.
Qed.

Lemma delta_single_type (f g : Z -> bool) l :
  (f = isposb /\ g = isnegb \/ f = isnegb /\ g = isposb) ->
  Forall (fun x => f x = true) l -> (delta l == 0)%Q.
Proof.
  intros Hfg Hall.
  assert (Hf : forall w, (0 < w)%nat -> (deltaForm w l == 0)%Q).
  { intros w Hw. unfold deltaForm. rewrite sumQ_map_zero; [unfold Qdiv; ring|].
    intros b Hb. apply blobs_In in Hb. destruct Hb as [i [Hi ->]].
    assert (Hbl : length (blob w i l) = w) by (apply blob_length; exact Hi).
    rewrite (sigma_single_type f g l Hfg); [|destruct l; [cbn [length] in Hi; lia | congruence] | exact Hall].
    rewrite (sigma_single_type f g (blob w i l) Hfg).
    - unfold sqQ. ring.
    - intros E. rewrite E in Hbl. cbn [length] in Hbl. lia.
    - unfold blob. apply Forall_forall. intros x Hx.
      assert (Hx0 : In x (skipn i l)) by (rewrite <- (firstn_skipn w (skipn i l)); apply in_or_app; left; exact Hx).
      clear Hx; rename Hx0 into Hx.
      assert (Hx' : In x l) by (rewrite <- (firstn_skipn i l); apply in_or_app; right; exact Hx).
      rewrite Forall_forall in Hall. apply Hall. exact Hx'. }
  unfold delta. rewrite !Hf by lia. reflexivity.
Qed.

Theorem flat_all_arrangements p n z l : flat_b p n z = true -> natcomp l = (p, n, z) -> (delta l == 0)%Q.
Proof.
  intros Hflat Hc. destruct (natcomp_charged _ _ _ _ Hc) as [Hp [Hn Hz]].
  unfold flat_b in Hflat. apply orb_true_iff in Hflat. destruct Hflat as [Hflat|Hflat].
  - apply orb_true_iff in Hflat. destruct Hflat as [H0|H5].
    + apply Nat.eqb_eq in H0. apply delta_uncharged. lia.
    + apply Nat.leb_le in H5. apply delta_le5. unfold nneut, len in Hz. lia.
  - apply andb_true_iff in Hflat. destruct Hflat as [Hz0 Hone]. apply Nat.eqb_eq in Hz0.
    apply orb_true_iff in Hone. unfold nneut, len in Hz.
    destruct Hone as [E|E]; apply Nat.eqb_eq in E.
    + apply (delta_single_type isnegb isposb); [right; split; reflexivity|].
      apply cnt_all_forall. fold (nneg l). lia.
    + apply (delta_single_type isposb isnegb); [left; split; reflexivity|].
      apply cnt_all_forall. fold (npos l). lia.
Qed.
