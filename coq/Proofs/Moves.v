(* Proofs/Moves.v — C17: every move only rearranges, keeps the untouched (frozen) positions, and
   leaves charge bookkeeping and the carried delta-max consistent; chains by induction. *)
From Coq Require Import QArith ZArith List Bool Arith Lia Permutation.
From LC Require Import Core.Residue Core.Lists Spec.Delta Model.Delta Model.Phospho Model.Moves
     Proofs.Delta Proofs.DeltaMax Proofs.Phospho.
Import ListNotations.

(* ---------- the generic device ---------- *)
Section Fill.
  Variables A B : list nat.
  Definition inA (p : nat) : bool := memn p A.
  Definition inB (p : nat) : bool := negb (memn p A) && memn p B.
  Definition neither (p : nat) : bool := negb (memn p A) && negb (memn p B).

  Lemma fill2_length ps : forall sa sb, List.length (fill2 ps A B sa sb) = List.length ps.
  Proof.
    induction ps as [|p ps IH]; intros sa sb; [reflexivity|]. cbn [fill2].
    destruct (memn p A); [destruct sa; cbn [List.length]; now rewrite IH|].
    destruct (memn p B); [destruct sb; cbn [List.length]; now rewrite IH|]. cbn [List.length]. now rewrite IH.
  Qed.

  Lemma fill2_perm ps : forall sa sb,
    List.length (filter inA ps) = List.length sa -> List.length (filter inB ps) = List.length sb ->
    Permutation (fill2 ps A B sa sb) (filter neither ps ++ sa ++ sb).
  Proof.
    induction ps as [|p ps IH]; intros sa sb Ha Hb.
    - destruct sa; [|discriminate]. destruct sb; [|discriminate]. constructor.
    - cbn [fill2 filter] in *. unfold inA, inB, neither in *. destruct (memn p A) eqn:EA; cbn [negb andb] in *.
      + destruct sa as [|x sa]; [discriminate|]. cbn [List.length] in Ha.
        eapply perm_trans; [apply perm_skip; apply IH; [lia | exact Hb]|].
        cbn [app]. apply Permutation_middle.
      + destruct (memn p B) eqn:EB; cbn [negb andb] in *.
        * destruct sb as [|x sb]; [discriminate|]. cbn [List.length] in Hb.
          eapply perm_trans; [apply perm_skip; apply IH; [exact Ha | lia]|].
          rewrite !app_assoc. apply Permutation_middle.
        * cbn [app]. apply perm_skip. apply IH; assumption.
  Qed.

  (* a position in neither index set keeps its own index *)
  Lemma fill2_fixed ps : forall sa sb k, (k < List.length ps)%nat -> neither (nth k ps 0%nat) = true ->
    nth k (fill2 ps A B sa sb) 0%nat = nth k ps 0%nat.
  Proof.
    induction ps as [|p ps IH]; intros sa sb k Hk Hn; [cbn in Hk; lia|].
    cbn [fill2]. destruct k as [|k].
    - cbn [nth] in *. unfold neither in Hn. apply andb_prop in Hn. destruct Hn as [H1 H2].
      apply negb_true_iff in H1. apply negb_true_iff in H2. rewrite H1, H2. reflexivity.
    - cbn [nth List.length] in *.
      destruct (memn p A); [destruct sa; cbn [nth]; (apply IH; [lia | exact Hn])|].
      destruct (memn p B); [destruct sb; cbn [nth]; (apply IH; [lia | exact Hn])|].
      cbn [nth]. apply IH; [lia | exact Hn].
  Qed.
End Fill.

Lemma filter_partition {X} (f : X -> bool) l : Permutation l (filter f l ++ filter (fun x => negb (f x)) l).
Proof.
  induction l as [|x l IH]; [constructor|]. cbn [filter]. destruct (f x); cbn [negb app].
  - apply perm_skip. exact IH.
  - eapply perm_trans; [apply perm_skip; exact IH | apply Permutation_middle].
Qed.

Lemma nodupn_NoDup l : nodupn l = true -> NoDup l.
Proof.
  induction l as [|x l IH]; intros H; [constructor|]. cbn [nodupn] in H. apply andb_prop in H. destruct H as [H1 H2].
  constructor; [|apply IH; exact H2]. intros Hin. apply memn_In in Hin. rewrite Hin in H1. discriminate.
Qed.

Lemma NoDup_filter {X} (f : X -> bool) l : NoDup l -> NoDup (filter f l).
Proof.
  induction 1 as [|x l Hx _ IH]; [constructor|]. cbn [filter]. destruct (f x); [|exact IH].
  constructor; [|exact IH]. intros Hin. apply filter_In in Hin. tauto.
Qed.

(* the positions of seq 0 n selected by membership in a duplicate-free in-range list are that list *)
Lemma select_perm n S : NoDup S -> (forall x, In x S -> (x < n)%nat) ->
  Permutation (filter (fun p => memn p S) (seq 0 n)) S.
Proof.
  intros Hnd Hr. apply NoDup_Permutation; [apply NoDup_filter; apply seq_NoDup | exact Hnd|].
  intros x. rewrite filter_In, in_seq, memn_In. split; [tauto|]. intros H. split; [pose proof (Hr x H); lia | exact H].
Qed.

(* general corollary: if the two stacks together are the selected positions, the result is a permutation *)
Lemma fill2_perm_seq n A B sa sb :
  NoDup A -> NoDup B -> (forall x, In x A -> (x < n)%nat) -> (forall x, In x B -> (x < n)%nat) ->
  (forall x, In x A -> ~ In x B) ->
  List.length sa = List.length A -> List.length sb = List.length B ->
  Permutation (sa ++ sb) (A ++ B) ->
  Permutation (fill2 (seq 0 n) A B sa sb) (seq 0 n).
Proof.
  intros HA HB RA RB Hdis La Lb Hp.
  assert (PA : Permutation (filter (inA A) (seq 0 n)) A) by (apply select_perm; assumption).
  assert (PB : Permutation (filter (inB A B) (seq 0 n)) B).
  { eapply perm_trans; [|apply (select_perm n B HB RB)].
    assert (E : filter (inB A B) (seq 0 n) = filter (fun p => memn p B) (seq 0 n)).
    { apply filter_ext_in. intros x _. unfold inB. destruct (memn x B) eqn:EB; [|now rewrite andb_false_r].
      apply memn_In in EB. destruct (memn x A) eqn:EA; [|reflexivity].
      apply memn_In in EA. exfalso. exact (Hdis x EA EB). }
    rewrite E. apply Permutation_refl. }
  eapply perm_trans; [apply fill2_perm|].
  - rewrite (Permutation_length PA). now symmetry.
  - rewrite (Permutation_length PB). now symmetry.
  - eapply perm_trans; [apply Permutation_app_head; exact Hp|].
    eapply perm_trans; [apply Permutation_app_head; apply Permutation_app; [apply Permutation_sym; exact PA | apply Permutation_sym; exact PB]|].
    (* neither ++ inA ++ inB ~ positions *)
    apply Permutation_sym.
    eapply perm_trans; [apply (filter_partition (inA A) (seq 0 n))|].
    eapply perm_trans; [apply Permutation_app_head; apply (filter_partition (fun p => memn p B))|].
    assert (E1 : filter (fun p => memn p B) (filter (fun x => negb (inA A x)) (seq 0 n)) = filter (inB A B) (seq 0 n)).
    { clear. induction (seq 0 n) as [|x l IH]; [reflexivity|]. cbn [filter]. unfold inA, inB in *.
      destruct (memn x A); cbn [negb andb filter]; [exact IH|]. destruct (memn x B); cbn [filter]; now rewrite IH. }
    assert (E2 : filter (fun x => negb (memn x B)) (filter (fun x => negb (inA A x)) (seq 0 n)) = filter (neither A B) (seq 0 n)).
    { clear. induction (seq 0 n) as [|x l IH]; [reflexivity|]. cbn [filter]. unfold inA, neither in *.
      destruct (memn x A); cbn [negb andb filter]; [exact IH|]. destruct (memn x B); cbn [negb filter]; now rewrite IH. }
    rewrite E1, E2. rewrite app_assoc. apply Permutation_app_comm.
Qed.

(* ---------- rearranging a list by an index list ---------- *)
Lemma rearrange_id {X} (d : X) l : rearrange d l (seq 0 (List.length l)) = l.
Proof.
  unfold rearrange. apply nth_ext with (d := d) (d' := d); [now rewrite map_length, seq_length|].
  intros k Hk. rewrite map_length, seq_length in Hk.
  rewrite (nth_indep _ d (nth 0 l d)) by (rewrite map_length, seq_length; exact Hk).
  rewrite (map_nth (fun j => nth j l d)), seq_nth by exact Hk. reflexivity.
Qed.

Lemma rearrange_perm {X} (d : X) l idx : Permutation idx (seq 0 (List.length l)) -> Permutation (rearrange d l idx) l.
Proof. intros H. rewrite <- (rearrange_id d l) at 2. unfold rearrange. apply Permutation_map. exact H. Qed.

Lemma rearrange_nth {X} (d : X) l idx k : (k < List.length idx)%nat -> nth k (rearrange d l idx) d = nth (nth k idx 0%nat) l d.
Proof.
  intros H. unfold rearrange. rewrite (nth_indep _ d (nth 0 l d)) by (rewrite map_length; exact H).
  now rewrite (map_nth (fun j => nth j l d)).
Qed.

Lemma rearrange_pat s idx : rearrange 0%Z (pat s) idx = pat (rearrange Ala s idx).
Proof.
  unfold rearrange, pat. rewrite map_map. apply map_ext. intros j.
  change 0%Z with (chg Ala). apply map_nth.
Qed.

(* ---------- invariants of objects ---------- *)
Definition MInv (o : mobj) : Prop :=
  mpat o = pat (mseq o) /\ (mdmax o = None \/ mdmax o = Some (m_dmax (pat (mseq o)))).

Lemma m_dmax_perm s t : Permutation s t -> m_dmax (pat s) = m_dmax (pat t).
Proof.
  intros H. unfold m_dmax, m_dmax_arg.
  assert (E : natcomp (pat s) = natcomp (pat t)).
  { assert (Hp : Permutation (pat s) (pat t)) by (unfold pat; apply Permutation_map; exact H).
    pose proof (nneut_perm _ _ Hp) as Hc. unfold comp in Hc. injection Hc as H1 H2 H3.
    unfold natcomp. now rewrite H1, H2, H3. }
  now rewrite E.
Qed.

Lemma rebuilt_inv o s : MInv o -> Permutation s (mseq o) -> MInv (rebuilt o s).
Proof.
  intros [Hp Hd] Hperm. split; [reflexivity|]. cbn [rebuilt mdmax mseq].
  destruct Hd as [Hd|Hd]; [left; exact Hd | right]. rewrite Hd. f_equal. apply m_dmax_perm. apply Permutation_sym. exact Hperm.
Qed.

(* ---------- swapRes ---------- *)
Lemma swap_idx_perm n i j : (i < n)%nat -> (j < n)%nat -> i <> j -> Permutation (swap_idx n i j) (seq 0 n).
Proof.
  intros Hi Hj Hne. unfold swap_idx. apply fill2_perm_seq; try reflexivity.
  - constructor; [intros [] | constructor].
  - constructor; [intros [] | constructor].
  - intros x [<-|[]]. exact Hi.
  - intros x [<-|[]]. exact Hj.
  - intros x [<-|[]] [E|[]]. congruence.
  - cbn [app]. apply perm_swap.
Qed.

Theorem swapRes_perm o i j : (i < List.length (mseq o))%nat -> (j < List.length (mseq o))%nat ->
  Permutation (mseq (swapRes o i j)) (mseq o).
Proof.
  intros Hi Hj. unfold swapRes. destruct (Nat.eqb i j) eqn:E; [apply Permutation_refl|].
  apply Nat.eqb_neq in E. cbn [mseq]. apply rearrange_perm. apply swap_idx_perm; assumption.
Qed.

Theorem swapRes_untouched o i j k : (k < List.length (mseq o))%nat -> k <> i -> k <> j ->
  nth k (mseq (swapRes o i j)) Ala = nth k (mseq o) Ala.
Proof.
  intros Hk Hi Hj. unfold swapRes. destruct (Nat.eqb i j); [reflexivity|]. cbn [mseq].
  rewrite rearrange_nth by (unfold swap_idx; rewrite fill2_length, seq_length; exact Hk).
  unfold swap_idx. rewrite fill2_fixed; [now rewrite seq_nth | now rewrite seq_length|].
  rewrite seq_nth by exact Hk. unfold neither. cbn [memn existsb plus].
  apply Nat.eqb_neq in Hi. apply Nat.eqb_neq in Hj. now rewrite Hi, Hj.
Qed.

Theorem swapRes_inv o i j : (i < List.length (mseq o))%nat -> (j < List.length (mseq o))%nat ->
  MInv o -> MInv (swapRes o i j).
Proof.
  intros Hi Hj [Hp Hd]. pose proof (swapRes_perm o i j Hi Hj) as Hperm. unfold swapRes in *.
  destruct (Nat.eqb i j); [split; [reflexivity | left; reflexivity]|]. unfold MInv. cbn [mseq mpat mdmax] in *. split.
  - rewrite Hp. apply rearrange_pat.
  - destruct Hd as [Hd|Hd]; [left; exact Hd | right]. rewrite Hd. f_equal. apply m_dmax_perm. apply Permutation_sym. exact Hperm.
Qed.

(* ---------- swapRandChargeRes ---------- *)
Lemma idxs_spec f p fr x : In x (idxs f p fr) -> (x < List.length p)%nat /\ ~ In x fr.
Proof.
  unfold idxs. rewrite filter_In, in_seq. intros [H1 H2]. apply andb_prop in H2. destruct H2 as [_ H2].
  split; [lia|]. intros Hin. apply memn_In in Hin. rewrite Hin in H2. discriminate.
Qed.

Lemma pick_spec P Nn Z0 t x f1 f2 f3 p fr : P = idxs f1 p fr -> Nn = idxs f2 p fr -> Z0 = idxs f3 p fr ->
  memn x (pick P Nn Z0 t) = true -> (x < List.length p)%nat /\ ~ In x fr.
Proof.
  intros -> -> -> H. apply memn_In in H. unfold pick in H.
  destruct (Nat.eqb t 1); [eapply idxs_spec; exact H|]. destruct (Nat.eqb t 2); eapply idxs_spec; exact H.
Qed.

Theorem swapRand_spec o fr ct a b c : MInv o -> swapRand o fr ct a b = Some c ->
  Permutation (mseq c) (mseq o) /\ MInv c /\
  (forall k, In k fr -> (k < List.length (mseq o))%nat -> nth k (mseq c) Ala = nth k (mseq o) Ala).
Proof.
  intros HI H. unfold swapRand in H.
  destruct (charge_types _ _ _ ct) as [[[t1 t2]|]|]; [|injection H as <-; repeat split; [apply Permutation_refl | apply HI | apply HI]|discriminate].
  destruct (memn a _ && memn b _) eqn:E; [|discriminate]. injection H as <-.
  apply andb_prop in E. destruct E as [Ea Eb].
  assert (Hlen : List.length (mpat o) = List.length (mseq o)) by (destruct HI as [-> _]; unfold pat; apply map_length).
  destruct (pick_spec _ _ _ t1 a _ _ _ _ _ eq_refl eq_refl eq_refl Ea) as [Ha Hfa].
  destruct (pick_spec _ _ _ t2 b _ _ _ _ _ eq_refl eq_refl eq_refl Eb) as [Hb Hfb].
  rewrite Hlen in Ha, Hb.
  split; [apply swapRes_perm; assumption|]. split; [apply swapRes_inv; assumption|].
  intros k Hk Hkn. apply swapRes_untouched; [exact Hkn | intros ->; contradiction | intros ->; contradiction].
Qed.

(* ---------- full_shuffle ---------- *)
Lemma same_set_perm a b : NoDup b -> same_set a b = true -> Permutation a b.
Proof.
  intros Hb H. unfold same_set in H. apply andb_prop in H. destruct H as [H H4]. apply andb_prop in H. destruct H as [H H3].
  apply andb_prop in H. destruct H as [_ H2].
  apply NoDup_Permutation; [apply nodupn_NoDup; exact H2 | exact Hb|].
  intros x. rewrite forallb_forall in H3, H4. split; intros Hx.
  - apply memn_In. apply H3. exact Hx.
  - apply memn_In. apply H4. exact Hx.
Qed.

Lemma movable_spec n fr x : In x (movable n fr) <-> (x < n)%nat /\ ~ In x fr.
Proof.
  unfold movable. rewrite filter_In, in_seq. split.
  - intros [H1 H2]. split; [lia|]. intros Hin. apply memn_In in Hin. rewrite Hin in H2. discriminate.
  - intros [H1 H2]. split; [lia|]. destruct (memn x fr) eqn:E; [apply memn_In in E; contradiction | reflexivity].
Qed.

Theorem fullShuffle_spec o fr perm c : MInv o -> fullShuffle o fr perm = Some c ->
  Permutation (mseq c) (mseq o) /\ MInv c /\
  (forall k, In k fr -> (k < List.length (mseq o))%nat -> nth k (mseq c) Ala = nth k (mseq o) Ala).
Proof.
  intros HI H. unfold fullShuffle in H. set (n := List.length (mseq o)) in *.
  destruct (same_set perm (movable n fr)) eqn:E; [|discriminate]. injection H as <-.
  assert (Hnd : NoDup (movable n fr)) by (apply NoDup_filter; apply seq_NoDup).
  pose proof (same_set_perm _ _ Hnd E) as Hp.
  assert (Hperm : Permutation (rearrange Ala (mseq o) (fill2 (seq 0 n) (movable n fr) [] (rev perm) [])) (mseq o)).
  { apply rearrange_perm. fold n. apply fill2_perm_seq; try reflexivity; try exact Hnd.
    - constructor.
    - intros x Hx. apply movable_spec in Hx. tauto.
    - intros x [].
    - intros x _ [].
    - rewrite rev_length. apply Permutation_length. exact Hp.
    - rewrite !app_nil_r. eapply perm_trans; [apply Permutation_sym; apply Permutation_rev | exact Hp]. }
  split; [exact Hperm|]. split; [apply rebuilt_inv; assumption|].
  intros k Hk Hkn. cbn [rebuilt mseq].
  rewrite rearrange_nth by (rewrite fill2_length, seq_length; exact Hkn).
  rewrite fill2_fixed; [now rewrite seq_nth | now rewrite seq_length|].
  rewrite seq_nth by exact Hkn. cbn [plus]. unfold neither. cbn [memn existsb negb andb]. rewrite andb_true_r.
  apply negb_true_iff. destruct (memn k (movable n fr)) eqn:Em; [|reflexivity].
  apply memn_In in Em. apply movable_spec in Em. tauto.
Qed.

(* ---------- block swap ---------- *)
Lemma seq_lt a L n x : (a + L <= n)%nat -> In x (seq a L) -> (x < n)%nat.
Proof. intros H Hx. apply in_seq in Hx. lia. Qed.

Theorem blockSwap_spec o bs i1 i2 c : MInv o -> blockSwap o bs i1 i2 = Some c ->
  Permutation (mseq c) (mseq o) /\ MInv c.
Proof.
  intros HI H. unfold blockSwap in H. set (n := List.length (mseq o)) in *.
  destruct (_ && _) eqn:E; [|discriminate]. injection H as <-.
  apply andb_prop in E. destruct E as [E E4]. apply andb_prop in E. destruct E as [E E3]. apply andb_prop in E. destruct E as [E1 E2].
  apply Nat.leb_le in E1. apply Nat.leb_le in E2. apply Nat.ltb_lt in E3. apply Nat.ltb_lt in E4.
  assert (Hperm : Permutation (rearrange Ala (mseq o)
            (fill2 (seq 0 n) (seq i1 (bs - 1)) (seq (i2 + bs - 1) (bs - 1)) (seq (i2 + bs - 1) (bs - 1)) (seq i1 (bs - 1)))) (mseq o)).
  { apply rearrange_perm. fold n. apply fill2_perm_seq; try apply seq_NoDup; try (now rewrite !seq_length).
    - intros x Hx. apply in_seq in Hx. lia.
    - intros x Hx. apply in_seq in Hx. lia.
    - intros x H1 H2. apply in_seq in H1. apply in_seq in H2. lia.
    - apply Permutation_app_comm. }
  split; [exact Hperm | apply rebuilt_inv; assumption].
Qed.

(* ---------- clustering ---------- *)
Lemma insert_sorted_perm x l : Permutation (insert_sorted x l) (x :: l).
Proof.
  induction l as [|y l IH]; [apply Permutation_refl|]. cbn [insert_sorted]. destruct (x <=? y)%nat; [apply Permutation_refl|].
  eapply perm_trans; [apply perm_skip; exact IH | apply perm_swap].
Qed.
Lemma sort_nat_perm l : Permutation (sort_nat l) l.
Proof.
  induction l as [|x l IH]; [constructor|]. cbn [sort_nat fold_right]. fold (sort_nat l).
  eapply perm_trans; [apply insert_sorted_perm | apply perm_skip; exact IH].
Qed.

Theorem clusterMove_spec o st sz sw c : MInv o -> clusterMove o st sz sw = Some c ->
  Permutation (mseq c) (mseq o) /\ MInv c.
Proof.
  intros HI H. unfold clusterMove in H. set (n := List.length (mseq o)) in *.
  destruct (_ && _) eqn:E; [|discriminate]. injection H as <-.
  apply andb_prop in E. destruct E as [E E5]. apply andb_prop in E. destruct E as [E E4]. apply andb_prop in E. destruct E as [E E3].
  apply andb_prop in E. destruct E as [E1 E2].
  apply Nat.leb_le in E2. apply Nat.eqb_eq in E3. apply nodupn_NoDup in E4. rewrite forallb_forall in E5.
  pose proof (sort_nat_perm sw) as Hs.
  assert (Hperm : Permutation (rearrange Ala (mseq o) (fill2 (seq 0 n) (sort_nat sw) (seq st sz) (seq st sz) (sort_nat sw))) (mseq o)).
  { apply rearrange_perm. fold n. apply fill2_perm_seq.
    - eapply Permutation_NoDup; [apply Permutation_sym; exact Hs | exact E4].
    - apply seq_NoDup.
    - intros x Hx. apply (Permutation_in _ Hs) in Hx. specialize (E5 x Hx). apply andb_prop in E5. destruct E5 as [E5 _]. now apply Nat.ltb_lt in E5.
    - intros x Hx. apply in_seq in Hx. lia.
    - intros x Hx Hc. apply (Permutation_in _ Hs) in Hx. specialize (E5 x Hx). apply andb_prop in E5. destruct E5 as [_ E5].
      apply negb_true_iff in E5. apply memn_In in Hc. congruence.
    - rewrite seq_length, (Permutation_length Hs). now symmetry.
    - rewrite seq_length, (Permutation_length Hs). exact E3.
    - apply Permutation_app_comm. }
  split; [exact Hperm | apply rebuilt_inv; assumption].
Qed.

(* ---------- every move, and chains ---------- *)
Theorem move_spec o m c : MInv o -> apply_move o m = Some c -> Permutation (mseq c) (mseq o) /\ MInv c.
Proof.
  intros HI H. destruct m; cbn [apply_move] in H.
  - destruct (_ && _) eqn:E; [|discriminate]. injection H as <-. apply andb_prop in E. destruct E as [E1 E2].
    apply Nat.ltb_lt in E1. apply Nat.ltb_lt in E2. split; [apply swapRes_perm | apply swapRes_inv]; assumption.
  - destruct (swapRand_spec o frozen ct a b c HI H) as [H1 [H2 _]]. split; assumption.
  - destruct (charge_types _ _ _ _) as [[?|]|]; try discriminate. injection H as <-. split; [apply Permutation_refl | exact HI].
  - destruct (fullShuffle_spec o frozen perm c HI H) as [H1 [H2 _]]. split; assumption.
  - apply (blockSwap_spec o bs i1 i2 c HI H).
  - apply (clusterMove_spec o start size sw c HI H).
  - injection H as <-. split; [apply Permutation_refl|]. destruct HI as [Hp _]. split; [exact Hp|].
    right. cbn [with_dmax mdmax mseq]. now rewrite Hp.
Qed.

Fixpoint apply_chain (o : mobj) (ms : list move) : option mobj :=
  match ms with
  | [] => Some o
  | m :: ms' => match apply_move o m with Some c => apply_chain c ms' | None => None end
  end.

Theorem chain_spec ms : forall o c, MInv o -> apply_chain o ms = Some c -> Permutation (mseq c) (mseq o) /\ MInv c.
Proof.
  induction ms as [|m ms IH]; intros o c HI H; cbn [apply_chain] in H.
  - injection H as <-. split; [apply Permutation_refl | exact HI].
  - destruct (apply_move o m) as [c1|] eqn:E; [|discriminate].
    destruct (move_spec o m c1 HI E) as [P1 I1]. destruct (IH c1 c I1 H) as [P2 I2].
    split; [eapply perm_trans; eassumption | exact I2].
Qed.

Lemma mfresh_inv s : MInv (mfresh s).
Proof. split; [reflexivity | left; reflexivity]. Qed.

(* D9: block swap and clustering do move frozen positions (there is no frozen argument in their effect) *)
Theorem block_swap_moves_frozen_positions : exists o bs i1 i2 c k,
  blockSwap o bs i1 i2 = Some c /\ nth k (mseq c) Ala <> nth k (mseq o) Ala.
Proof.
  exists (mfresh [Glu; Lys; Gly; Ser; Asp; Arg]), 2%nat, 0%nat, 1%nat. eexists. exists 0%nat.
  split; [vm_compute; reflexivity | vm_compute; discriminate].
Qed.
