(* Proofs/DeltaMax.v — the candidate family, its maximum, kappa (C01, C03). *)
From Coq Require Import QArith Qabs Qreduction Qfield ZArith List Bool Lia Permutation.
From LC Require Import Core.Residue Core.Lists Core.QTools Spec.Delta Model.Delta Proofs.Delta.
Import ListNotations.
Local Open Scope Z_scope.

Ltac qabsurd H := exfalso; vm_compute in H; first [discriminate H | apply H; reflexivity].

(* ---------- running maximum ---------- *)
Lemma qmax_fold_ge_init xs m : (m <= qmax_fold m xs)%Q.
Proof.
  revert m. induction xs as [|x xs IH]; intros m; cbn [qmax_fold fold_left]; [apply Qle_refl|].
  fold (qmax_fold (if Qlt_le_dec m x then x else m) xs).
  destruct (Qlt_le_dec m x) as [H|H].
  - eapply Qle_trans; [apply Qlt_le_weak; exact H | apply IH].
  - apply IH.
Qed.

Lemma qmax_fold_ge xs m x : In x xs -> (x <= qmax_fold m xs)%Q.
Proof.
  revert m. induction xs as [|y xs IH]; intros m Hin; [destruct Hin|].
  cbn [qmax_fold fold_left]. fold (qmax_fold (if Qlt_le_dec m y then y else m) xs).
  destruct Hin as [->|Hin]; [|apply IH; exact Hin].
  destruct (Qlt_le_dec m x) as [H|H].
  - apply qmax_fold_ge_init.
  - eapply Qle_trans; [exact H | apply qmax_fold_ge_init].
Qed.

Lemma qmax_fold_in xs m : qmax_fold m xs = m \/ In (qmax_fold m xs) xs.
Proof.
  revert m. induction xs as [|y xs IH]; intros m; [left; reflexivity|].
  cbn [qmax_fold fold_left]. fold (qmax_fold (if Qlt_le_dec m y then y else m) xs).
  destruct (IH (if Qlt_le_dec m y then y else m)) as [H|H].
  - rewrite H. destruct (Qlt_le_dec m y); [right; left; reflexivity | left; reflexivity].
  - right; right; exact H.
Qed.

Lemma qmax_fold_compat xs ys m m' :
  Forall2 Qeq xs ys -> (m == m')%Q -> (qmax_fold m xs == qmax_fold m' ys)%Q.
Proof.
  intros H. revert m m'. induction H as [|x y xs ys Hxy _ IH]; intros m m' Hm; [exact Hm|].
  cbn [qmax_fold fold_left].
  fold (qmax_fold (if Qlt_le_dec m x then x else m) xs).
  fold (qmax_fold (if Qlt_le_dec m' y then y else m') ys).
  apply IH.
  destruct (Qlt_le_dec m x) as [H1|H1], (Qlt_le_dec m' y) as [H2|H2]; try assumption.
  - exfalso. rewrite Hm, Hxy in H1. apply (Qlt_not_le _ _ H1 H2).
  - exfalso. rewrite <- Hm, <- Hxy in H2. apply (Qlt_not_le _ _ H2 H1).
Qed.

(* the maximum only depends on the set of values (up to ==) *)
Lemma qmax_fold_le_of_cover xs ys m :
  (forall x, In x xs -> exists y, In y ys /\ (x <= y)%Q) -> (qmax_fold m xs <= qmax_fold m ys)%Q.
Proof.
  intros H. destruct (qmax_fold_in xs m) as [E|E].
  - rewrite E. apply qmax_fold_ge_init.
  - destruct (H _ E) as [y [Hy Hle]]. eapply Qle_trans; [exact Hle | apply qmax_fold_ge; exact Hy].
Qed.

(* ---------- model search = spec maximum ---------- *)
Lemma m_search_fst cs acc m :
  (fst acc == m)%Q ->
  (fst (fold_left (fun (acc : Q * option (list Z)) c =>
          let d := m_delta c in if Qlt_le_dec (fst acc) d then (d, Some c) else acc) cs acc)
   == qmax_fold m (map delta cs))%Q.
Proof.
  revert acc m. induction cs as [|c cs IH]; intros acc m Hm; [exact Hm|].
  cbn [fold_left map qmax_fold].
  fold (qmax_fold (if Qlt_le_dec m (delta c) then delta c else m) (map delta cs)).
  apply IH. pose proof (m_delta_spec c) as Hd.
  destruct (Qlt_le_dec (fst acc) (m_delta c)) as [H1|H1], (Qlt_le_dec m (delta c)) as [H2|H2];
    cbn [fst]; try assumption.
  - exfalso. rewrite Hm, Hd in H1. apply (Qlt_not_le _ _ H1 H2).
  - exfalso. rewrite <- Hm, <- Hd in H2. apply (Qlt_not_le _ _ H2 H1).
Qed.

Theorem m_dmax_spec l : (m_dmax l == dmax_of l)%Q.
Proof.
  unfold m_dmax, m_dmax_arg, dmax_of, dmax. destruct (natcomp l) as [[p n] z].
  destruct (p + n =? 0)%nat; [reflexivity|].
  unfold m_search. apply m_search_fst. reflexivity.
Qed.

Lemma clamp_compat r r' : (r == r')%Q -> (clamp r == clamp r')%Q.
Proof.
  intros H. unfold clamp.
  destruct (Qlt_le_dec 1 r) as [H1|H1], (Qlt_le_dec 1 r') as [H2|H2]; try exact H.
  - destruct (Qlt_le_dec r (11#10)) as [H3|H3], (Qlt_le_dec r' (11#10)) as [H4|H4]; try reflexivity; try exact H.
    + exfalso. rewrite H in H3. apply (Qlt_not_le _ _ H3 H4).
    + exfalso. rewrite <- H in H4. apply (Qlt_not_le _ _ H4 H3).
  - exfalso. rewrite H in H1. apply (Qlt_not_le _ _ H1 H2).
  - exfalso. rewrite <- H in H2. apply (Qlt_not_le _ _ H2 H1).
Qed.

Lemma Qeq_bool_compat a b : (a == b)%Q -> Qeq_bool a 0 = Qeq_bool b 0.
Proof.
  intros H. destruct (Qeq_bool a 0) eqn:E1, (Qeq_bool b 0) eqn:E2; try reflexivity.
  - apply Qeq_bool_iff in E1. apply Qeq_bool_neq in E2. exfalso. apply E2. rewrite <- H. exact E1.
  - apply Qeq_bool_iff in E2. apply Qeq_bool_neq in E1. exfalso. apply E1. rewrite H. exact E2.
Qed.

Theorem m_kappa_spec l : (m_kappa l == kappa l)%Q.
Proof.
  unfold m_kappa, kappa, kappa_c. rewrite (Qeq_bool_compat _ _ (m_dmax_spec l)).
  destruct (Qeq_bool (dmax_of l) 0) eqn:E; [reflexivity|].
  apply Qeq_bool_neq in E.
  change ((clamp (Qred (m_delta l / m_dmax l)) == clamp (delta l / dmax_of l))%Q).
  apply clamp_compat. rewrite Qred_correct, m_delta_spec, m_dmax_spec. reflexivity.
Qed.

(* ---------- the family consists of arrangements of the composition ---------- *)
Lemma npos_app a b : npos (a ++ b) = npos a + npos b.  Proof. apply cnt_app. Qed.
Lemma nneg_app a b : nneg (a ++ b) = nneg a + nneg b.  Proof. apply cnt_app. Qed.

Lemma npos_blk c k : npos (blk c k) = if 0 <? c then Z.of_nat k else 0.
Proof. unfold npos, blk. rewrite cnt_repeat. reflexivity. Qed.
Lemma nneg_blk c k : nneg (blk c k) = if c <? 0 then Z.of_nat k else 0.
Proof. unfold nneg, blk. rewrite cnt_repeat. reflexivity. Qed.
Lemma length_blk c k : length (blk c k) = k.  Proof. apply repeat_length. Qed.

Definition is_arr (p n z : nat) (l : list Z) : Prop :=
  npos l = Z.of_nat p /\ nneg l = Z.of_nat n /\ length l = (p + n + z)%nat.

Ltac arr_solve :=
  unfold is_arr; rewrite ?npos_app, ?nneg_app, ?app_length, ?npos_blk, ?nneg_blk, ?length_blk;
  cbn [Z.ltb Z.compare]; repeat split; lia.

Theorem cands_arrangement p n z l : In l (cands p n z) -> is_arr p n z l.
Proof.
  unfold cands.
  destruct (p + n =? 0)%nat eqn:E0; [intros []|]. apply Nat.eqb_neq in E0.
  destruct ((p =? 0)%nat || (n =? 0)%nat) eqn:E1.
  - destruct (p =? 0)%nat eqn:Ep.
    + apply Nat.eqb_eq in Ep. subst p.
      destruct (n <? z)%nat eqn:Ez; rewrite in_map_iff; intros [pos [<- Hpos]]; apply in_seq in Hpos;
        [apply Nat.ltb_lt in Ez | apply Nat.ltb_ge in Ez]; arr_solve.
    + apply Nat.eqb_neq in Ep. cbn [orb] in E1. apply Nat.eqb_eq in E1. subst n.
      destruct (p <? z)%nat eqn:Ez; rewrite in_map_iff; intros [pos [<- Hpos]]; apply in_seq in Hpos;
        [apply Nat.ltb_lt in Ez | apply Nat.ltb_ge in Ez]; arr_solve.
  - apply orb_false_iff in E1. destruct E1 as [Ep En].
    apply Nat.eqb_neq in Ep. apply Nat.eqb_neq in En.
    destruct (z =? 0)%nat eqn:Ez.
    + apply Nat.eqb_eq in Ez. subst z.
      destruct (n <? p)%nat eqn:Enp; rewrite in_map_iff; intros [pos [<- Hpos]]; apply in_seq in Hpos;
        arr_solve.
    + apply Nat.eqb_neq in Ez.
      destruct (18 <=? z)%nat eqn:E18.
      * apply Nat.leb_le in E18. rewrite in_flat_map. intros [s [Hs Hl]]. apply in_seq in Hs.
        rewrite in_map_iff in Hl. destruct Hl as [e [<- He]]. apply in_seq in He. arr_solve.
      * rewrite in_flat_map. intros [m [Hm Hl]]. apply in_seq in Hm.
        rewrite in_map_iff in Hl. destruct Hl as [s [<- Hs]]. apply in_seq in Hs. arr_solve.
Qed.

Lemma cands_nonempty p n z : (p + n <> 0)%nat -> cands p n z <> [].
Proof.
  intros H. unfold cands. apply Nat.eqb_neq in H. rewrite H.
  destruct ((p =? 0)%nat || (n =? 0)%nat).
  - destruct (_ <? z)%nat; rewrite Nat.add_1_r; cbn [seq map]; discriminate.
  - destruct (z =? 0)%nat.
    + destruct (n <? p)%nat; rewrite Nat.add_1_r; cbn [seq map]; discriminate.
    + destruct (18 <=? z)%nat.
      * cbn [seq flat_map map app]. discriminate.
      * rewrite Nat.add_1_r. cbn [seq flat_map]. rewrite Nat.add_1_r. cbn [seq map app]. discriminate.
Qed.

(* ---------- delta-max is the maximum of delta over the family, and is attained ---------- *)
Theorem dmax_is_max p n z l : In l (cands p n z) -> (delta l <= dmax p n z)%Q.
Proof.
  intros H. unfold dmax. destruct (p + n =? 0)%nat eqn:E.
  - unfold cands in H. rewrite E in H. destruct H.
  - apply qmax_fold_ge. apply in_map. exact H.
Qed.

Theorem dmax_attained p n z : (p + n <> 0)%nat ->
  exists l, In l (cands p n z) /\ dmax p n z = delta l.
Proof.
  intros H. unfold dmax. apply Nat.eqb_neq in H. rewrite H. apply Nat.eqb_neq in H.
  destruct (qmax_fold_in (map delta (cands p n z)) (-1)%Q) as [E|E].
  - exfalso. destruct (cands p n z) as [|c cs] eqn:Ec; [apply (cands_nonempty p n z H Ec)|].
    assert (Hc : (delta c <= qmax_fold (-1) (map delta (c :: cs)))%Q) by (apply qmax_fold_ge; left; reflexivity).
    rewrite E in Hc. pose proof (delta_nonneg c) as H0.
    assert (Hx : (0 <= -1)%Q) by (eapply Qle_trans; eassumption). qabsurd Hx.
  - apply in_map_iff in E. destruct E as [l [Hl Hin]]. exists l. split; [exact Hin | symmetry; exact Hl].
Qed.

Theorem dmax_uncharged z : dmax 0 0 z = 0%Q.
Proof. reflexivity. Qed.

Theorem dmax_nonneg p n z : (0 <= dmax p n z)%Q.
Proof.
  destruct (Nat.eq_dec (p + n) 0) as [E|E].
  - unfold dmax. apply Nat.eqb_eq in E. rewrite E. apply Qle_refl.
  - destruct (dmax_attained p n z E) as [l [_ ->]]. apply delta_nonneg.
Qed.

(* delta-max depends on the sequence only through its composition *)
Theorem dmax_comp_only l l' : comp l = comp l' -> dmax_of l = dmax_of l'.
Proof.
  unfold comp, dmax_of, natcomp. intros H. injection H as H1 H2 H3. rewrite H1, H2, H3. reflexivity.
Qed.

Lemma nneut_perm l l' : Permutation l l' -> comp l = comp l'.
Proof.
  intros H. unfold comp, nneut, npos, nneg, len.
  rewrite (cnt_perm _ _ _ H), (cnt_perm isnegb _ _ H), (Permutation_length H). reflexivity.
Qed.

Theorem dmax_perm l l' : Permutation l l' -> dmax_of l = dmax_of l'.
Proof. intros H. apply dmax_comp_only. apply nneut_perm. exact H. Qed.

(* ---------- kappa ---------- *)
Theorem kappa_sentinel_iff l : (kappa l == -1)%Q <-> (dmax_of l == 0)%Q.
Proof.
  unfold kappa, kappa_c. destruct (Qeq_bool (dmax_of l) 0) eqn:E.
  - apply Qeq_bool_iff in E. split; intros _; [exact E | reflexivity].
  - apply Qeq_bool_neq in E. split; intros H; [|contradiction].
    exfalso.
    assert (Hd : (0 <= dmax_of l)%Q).
    { unfold dmax_of. destruct (natcomp l) as [[p n] z]. apply dmax_nonneg. }
    assert (Hr : (0 <= delta l / dmax_of l)%Q).
    { unfold Qdiv. apply Qmult_le_0_compat; [apply delta_nonneg | apply Qinv_le_0_compat; exact Hd]. }
    unfold clamp in H.
    destruct (Qlt_le_dec 1 (delta l / dmax_of l)) as [H1|H1].
    + destruct (Qlt_le_dec (delta l / dmax_of l) (11#10)); [qabsurd H|].
      rewrite H in Hr. qabsurd Hr.
    + rewrite H in Hr. qabsurd Hr.
Qed.

Theorem kappa_ratio l : ~ (dmax_of l == 0)%Q -> kappa l = clamp (delta l / dmax_of l)%Q.
Proof.
  intros H. unfold kappa, kappa_c. destruct (Qeq_bool (dmax_of l) 0) eqn:E; [|reflexivity].
  apply Qeq_bool_iff in E. contradiction.
Qed.

Lemma clamp_nonneg r : (0 <= r)%Q -> (0 <= clamp r)%Q.
Proof.
  intros H. unfold clamp. destruct (Qlt_le_dec 1 r); [|exact H].
  destruct (Qlt_le_dec r (11#10)); [intros Hx; qabsurd Hx | exact H].
Qed.

Theorem kappa_nonneg_or_sentinel l : kappa l = (-1)%Q \/ (0 <= kappa l)%Q.
Proof.
  unfold kappa, kappa_c. destruct (Qeq_bool (dmax_of l) 0) eqn:E; [left; reflexivity|right].
  apply clamp_nonneg. unfold Qdiv. apply Qmult_le_0_compat; [apply delta_nonneg|].
  apply Qinv_le_0_compat. unfold dmax_of. destruct (natcomp l) as [[p n] z]. apply dmax_nonneg.
Qed.

(* kappa <= 1 exactly when delta stays below 1.1 x delta-max *)
Theorem kappa_le1_iff l : (0 < dmax_of l)%Q ->
  ((kappa l <= 1)%Q <-> (delta l < (11 # 10) * dmax_of l)%Q).
Proof.
  intros Hd. rewrite kappa_ratio by (intros H; rewrite H in Hd; qabsurd Hd).
  set (r := (delta l / dmax_of l)%Q).
  assert (Hr : (delta l == r * dmax_of l)%Q).
  { unfold r. field. intros H; rewrite H in Hd; qabsurd Hd. }
  assert (Hiff : (r < 11 # 10)%Q <-> (delta l < (11 # 10) * dmax_of l)%Q).
  { rewrite Hr. split; intros H.
    - apply Qmult_lt_compat_r; assumption.
    - apply Qmult_lt_r in H; assumption. }
  rewrite <- Hiff. unfold clamp.
  destruct (Qlt_le_dec 1 r) as [H1|H1].
  - destruct (Qlt_le_dec r (11#10)) as [H2|H2].
    + split; intros _; [exact H2 | apply Qle_refl].
    + split; intros H.
      * exfalso. apply (Qlt_not_le _ _ H1 H).
      * exfalso. apply (Qlt_not_le _ _ H H2).
  - split; intros _; [|exact H1]. eapply Qle_lt_trans; [exact H1 | reflexivity].
Qed.

(* every documented arrangement — hence every delta-max permutant — has kappa in range *)
Theorem kappa_family_le1 p n z l : In l (cands p n z) -> (0 < dmax p n z)%Q ->
  natcomp l = (p, n, z) -> (kappa l <= 1)%Q.
Proof.
  intros Hin Hd Hc.
  assert (Hdm : dmax_of l = dmax p n z) by (unfold dmax_of; rewrite Hc; reflexivity).
  apply kappa_le1_iff; rewrite Hdm; [exact Hd|].
  eapply Qle_lt_trans; [apply dmax_is_max; exact Hin|].
  setoid_replace (dmax p n z) with (1 * dmax p n z)%Q at 1 by ring.
  apply Qmult_lt_compat_r; [exact Hd | reflexivity].
Qed.

(* the range claim is false of the documented heuristic: KEEEEK *)
Theorem kappa_range_refuted : exists l, (1 < kappa l)%Q.
Proof. exists [1; -1; -1; -1; -1; 1]. vm_compute. reflexivity. Qed.
