(* Proofs/Html.v — C20: rendering structure, markup stripping, palette acceptance. *)
From Coq Require Import List Bool String Ascii Arith Lia.
From LC Require Import Core.Residue Model.DeltaCheck Model.Html.
Import ListNotations.
Local Open Scope string_scope.

Lemma sapp_assoc (a b c : string) : (a ++ b) ++ c = a ++ b ++ c.
Proof. induction a as [|x a IH]; cbn [append]; [reflexivity | now rewrite IH]. Qed.
Lemma sapp_nil_r (a : string) : a ++ "" = a.
Proof. induction a as [|x a IH]; cbn [append]; [reflexivity | now rewrite IH]. Qed.
Lemma chars_app (a b : string) : list_ascii_of_string (a ++ b) = (list_ascii_of_string a ++ list_ascii_of_string b)%list.
Proof. induction a as [|x a IH]; cbn [append list_ascii_of_string app]; [reflexivity | now rewrite IH]. Qed.

(* the accumulating loop produces header ++ pieces ++ footer *)
Lemma render_fold pal s : forall str i,
  fold_left (fun (acc : string * nat) r =>
               let '(str, count) := acc in
               let str1 := if (count mod 10 =? 0)%nat then str ++ " " else str in
               let str2 := if (count mod 50 =? 0)%nat then str1 ++ "<br>" else str1 in
               (str2 ++ span (pal r) r, S count)) s (str, i)
  = (str ++ pieces pal i s, (i + List.length s)%nat).
Proof.
  induction s as [|r s IH]; intros str i; cbn [fold_left pieces List.length].
  - now rewrite sapp_nil_r, Nat.add_0_r.
  - rewrite IH. f_equal; [|lia]. unfold piece.
    destruct (i mod 10 =? 0)%nat, (i mod 50 =? 0)%nat; cbn [append]; rewrite ?sapp_assoc; cbn [append]; reflexivity.
Qed.

Theorem m_render_spec pal s : m_render pal s = render pal s.
Proof. unfold m_render, render. rewrite render_fold. cbn [fst]. now rewrite sapp_assoc. Qed.

(* structure: one span per residue, in order, in its palette colour; blank before residues
   0,10,20,...; line break (after that blank) before residues 0,50,100,... *)
Theorem render_structure pal s :
  render pal s = header ++ pieces pal 0 s ++ footer /\
  forall i r, piece pal i r =
    (if (i mod 10 =? 0)%nat then " " else "") ++ (if (i mod 50 =? 0)%nat then "<br>" else "") ++
    "<span style=""color:" ++ pal r ++ """>" ++ aa_str r ++ "</span>".
Proof. split; reflexivity. Qed.

Lemma pieces_app pal s t : forall i, pieces pal i (s ++ t) = pieces pal i s ++ pieces pal (i + List.length s) t.
Proof.
  induction s as [|r s IH]; intros i; cbn [app pieces List.length]; [now rewrite Nat.add_0_r|].
  rewrite IH, sapp_assoc. now replace (S i + List.length s)%nat with (i + S (List.length s))%nat by lia.
Qed.

(* ---- stripping the markup recovers the sequence ---- *)
Definition no_gt (s : string) : bool := forallb (fun c => negb (Ascii.eqb c ">")) (list_ascii_of_string s).

Lemma strip_in_tag body rest : forallb (fun c => negb (Ascii.eqb c ">")) body = true ->
  strip true (body ++ ">"%char :: rest) = strip false rest.
Proof.
  induction body as [|c body IH]; intros H; cbn [app strip]; [reflexivity|].
  cbn [forallb] in H. apply andb_prop in H. destruct H as [Hc Hb].
  destruct (Ascii.eqb c ">"); [discriminate Hc | apply IH; exact Hb].
Qed.

Definition span_body (c : string) : list ascii :=
  (list_ascii_of_string "span style=""color:" ++ list_ascii_of_string c ++ [""""%char])%list.
Definition E_chars : list ascii := list_ascii_of_string "/span".

Lemma span_chars c r :
  list_ascii_of_string (span c r) =
  ("<"%char :: span_body c ++ ">"%char :: aa_char r :: "<"%char :: E_chars ++ [">"%char])%list.
Proof.
  unfold span, aa_str, str1, span_body. rewrite !chars_app. cbn [list_ascii_of_string].
  unfold E_chars. cbn [list_ascii_of_string app]. rewrite <- !app_assoc. cbn [app]. reflexivity.
Qed.

Lemma strip_tag body rest : forallb (fun c => negb (Ascii.eqb c ">")) body = true ->
  strip false ("<"%char :: body ++ ">"%char :: rest) = strip false rest.
Proof. intros H. cbn [strip]. change (Ascii.eqb "<" "<") with true. cbn iota. apply strip_in_tag. exact H. Qed.

Lemma aa_char_plain r : Ascii.eqb (aa_char r) "<" = false /\ Ascii.eqb (aa_char r) " " = false.
Proof. destruct r; split; reflexivity. Qed.

Lemma strip_span c r rest : no_gt c = true ->
  strip false (list_ascii_of_string (span c r) ++ rest) = aa_char r :: strip false rest.
Proof.
  intros Hc. rewrite span_chars.
  change (("<"%char :: span_body c ++ ">"%char :: aa_char r :: "<"%char :: E_chars ++ [">"%char]) ++ rest)%list
    with ("<"%char :: (span_body c ++ ">"%char :: aa_char r :: "<"%char :: E_chars ++ [">"%char]) ++ rest)%list.
  rewrite <- app_assoc. cbn [app].
  rewrite strip_tag.
  - cbn [strip]. destruct (aa_char_plain r) as [-> ->]. f_equal.
  - unfold span_body. rewrite !forallb_app. unfold no_gt in Hc. rewrite Hc. reflexivity.
Qed.

Lemma strip_piece pal i r rest : no_gt (pal r) = true ->
  strip false (list_ascii_of_string (piece pal i r) ++ rest) = aa_char r :: strip false rest.
Proof.
  intros H. unfold piece. rewrite !chars_app, <- !app_assoc.
  destruct (i mod 10 =? 0)%nat, (i mod 50 =? 0)%nat; cbn [list_ascii_of_string app strip];
    repeat (change (Ascii.eqb " " "<") with false; change (Ascii.eqb " " " ") with true; cbn iota);
    try (rewrite (strip_tag ["b"; "r"]%char) by reflexivity); apply strip_span; exact H.
Qed.

Lemma strip_pieces pal s : (forall r, no_gt (pal r) = true) -> forall i rest,
  strip false (list_ascii_of_string (pieces pal i s) ++ rest) = (map aa_char s ++ strip false rest)%list.
Proof.
  intros H. induction s as [|r s IH]; intros i rest; cbn [pieces map app]; [reflexivity|].
  rewrite chars_app, <- app_assoc. rewrite strip_piece by apply H. f_equal. apply IH.
Qed.

Theorem strip_render pal s : (forall r, no_gt (pal r) = true) -> strip_markup (render pal s) = map aa_char s.
Proof.
  intros H. unfold strip_markup, render. rewrite !chars_app.
  match goal with |- strip false (_ ++ ?R)%list = _ => change (strip false R = map aa_char s) end.
  rewrite strip_pieces by exact H.
  change (strip false (list_ascii_of_string footer)) with (@nil ascii). apply app_nil_r.
Qed.

(* ---- palette ---- *)
Definition pal_valid (pal : palette) : Prop := forall r, In (pal r) colours17.

Lemma in_strs_In x l : in_strs x l = true <-> In x l.
Proof.
  unfold in_strs. rewrite existsb_exists. split.
  - intros [y [Hy E]]. apply String.eqb_eq in E. now subst.
  - intros H. exists x. split; [exact H | apply String.eqb_refl].
Qed.

Lemma colours_no_gt c : In c colours17 -> no_gt c = true.
Proof. intros H. repeat (destruct H as [<-|H]; [reflexivity|]). destruct H. Qed.

Lemma default_palette_valid : pal_valid default_palette.
Proof. intros r. destruct r; cbn; tauto. Qed.

(* acceptance: exactly the dictionaries giving each of the 20 residues one of the 17 colours *)
Lemma lookup_rs_spec d rs :
  (exists t, lookup_rs d rs = Some t) <-> (forall r, In r rs -> exists c, assoc (aa_str r) d = Some c /\ In c colours17).
Proof.
  induction rs as [|r rs IH]; cbn [lookup_rs].
  - split; [intros _ r [] | intros _; exists []; reflexivity].
  - split.
    + intros [t Ht] r' Hr'. destruct (assoc (aa_str r) d) as [c|] eqn:Ec; [|discriminate Ht].
      destruct (in_strs c colours17) eqn:E; [|discriminate Ht].
      destruct (lookup_rs d rs) as [t'|] eqn:Eg; [|discriminate Ht].
      destruct Hr' as [<-|Hr'].
      * exists c. split; [exact Ec | apply in_strs_In; exact E].
      * apply (proj1 IH); [exists t'; reflexivity | exact Hr'].
    + intros H. destruct (H r (or_introl eq_refl)) as [c [Hc Hin]]. rewrite Hc.
      rewrite (proj2 (in_strs_In c colours17) Hin).
      destruct (proj2 IH (fun r' Hr' => H r' (or_intror Hr'))) as [t' Ht']. rewrite Ht'. eexists. reflexivity.
Qed.

Lemma lookup_rs_sound d rs t : lookup_rs d rs = Some t ->
  map fst t = rs /\ forall r c, In (r, c) t -> assoc (aa_str r) d = Some c /\ In c colours17.
Proof.
  revert t. induction rs as [|r rs IH]; cbn [lookup_rs]; intros t Ht.
  - injection Ht as <-. split; [reflexivity | intros r c []].
  - destruct (assoc (aa_str r) d) as [c|] eqn:Ec; [|discriminate Ht].
    destruct (in_strs c colours17) eqn:E; [|discriminate Ht].
    destruct (lookup_rs d rs) as [t'|] eqn:Eg; [|discriminate Ht]. injection Ht as <-.
    destruct (IH t' eq_refl) as [Hm Hin]. split; [cbn [map fst]; now rewrite Hm|].
    intros r0 c0 [E0|H0]; [injection E0 as <- <-; split; [exact Ec | apply in_strs_In; exact E] | apply Hin; exact H0].
Qed.

Theorem palette_accept_iff pal d :
  (exists pal', set_palette pal d = Some pal') <->
  (forall r, exists c, assoc (aa_str r) d = Some c /\ In c colours17).
Proof.
  unfold set_palette, lookup_all. split.
  - intros [pal' H] r. destruct (lookup_rs d all20) as [t|] eqn:E; [|discriminate H].
    apply (proj1 (lookup_rs_spec d all20)); [exists t; exact E | apply all20_complete].
  - intros H. destruct (proj2 (lookup_rs_spec d all20) (fun r _ => H r)) as [t Ht]. rewrite Ht. eexists. reflexivity.
Qed.

Theorem palette_reject_unchanged pal d : set_palette pal d = None -> pal_step pal d = pal.
Proof. intros H. unfold pal_step. now rewrite H. Qed.

(* an accepted dictionary becomes the palette: every residue gets the colour the dictionary gives it *)
Theorem palette_accept_sets pal d pal' : set_palette pal d = Some pal' ->
  forall r, assoc (aa_str r) d = Some (pal' r) /\ In (pal' r) colours17.
Proof.
  unfold set_palette, lookup_all. destruct (lookup_rs d all20) as [t|] eqn:E; [|discriminate].
  intros H r. injection H as <-. destruct (lookup_rs_sound d all20 t E) as [Hm Hin].
  unfold pal_of. destruct (find (fun p => aa_eqb (fst p) r) t) as [[r' c]|] eqn:F.
  - apply find_some in F. destruct F as [F1 F2]. cbn [fst] in F2. apply aa_eqb_eq in F2. subst r'. cbn [snd].
    apply Hin. exact F1.
  - exfalso. assert (Hr : In r (map fst t)) by (rewrite Hm; apply all20_complete).
    apply in_map_iff in Hr. destruct Hr as [[r' c] [E1 E2]]. cbn [fst] in E1. subst r'.
    pose proof (find_none _ _ F _ E2) as Hn. cbn [fst] in Hn. rewrite aa_eqb_refl in Hn. discriminate.
Qed.

(* over any history of updates the palette stays total over valid colours *)
Theorem palette_inv ds : forall pal, pal_valid pal -> pal_valid (fold_left pal_step ds pal).
Proof.
  induction ds as [|d ds IH]; intros pal H; [exact H|]. cbn [fold_left]. apply IH.
  unfold pal_step. destruct (set_palette pal d) as [p|] eqn:E; [|exact H].
  intros r. apply (palette_accept_sets pal d p E r).
Qed.

Corollary strip_render_after_history ds s :
  strip_markup (render (fold_left pal_step ds default_palette) s) = map aa_char s.
Proof.
  apply strip_render. intros r. apply colours_no_gt. apply (palette_inv ds default_palette default_palette_valid).
Qed.
