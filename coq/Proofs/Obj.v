(* Proofs/Obj.v — C15: read-only queries are history-independent and never change the view. *)
From Coq Require Import QArith ZArith List Bool String.
From LC Require Import Core.Residue Core.Lists Spec.Delta Model.Delta Model.Phospho Model.Html Model.Obj.
Import ListNotations.

Definition Inv (o : obj) : Prop :=
  (odmax o = None \/ odmax o = Some (fst (search (oseq o)))) /\
  (operm o = None \/ operm o = Some (snd (search (oseq o)))).

Definition view (o : obj) : list aa * list nat * palette := (oseq o, ophos o, opal o).

Lemma inv_fresh s ph pal : Inv (fresh s ph pal).
Proof. split; left; reflexivity. Qed.

Lemma dmax_step_view o b : view (fst (dmax_step o b)) = view o.
Proof.
  unfold dmax_step. destruct (odmax o) as [d|], b, (operm o) as [t|]; cbn [fst]; try reflexivity;
    destruct (search (oseq o)) as [d' t']; reflexivity.
Qed.

Lemma dmax_step_indep o b : Inv o -> snd (dmax_step o b) = snd (dmax_step (fresh_of o) b).
Proof.
  intros [Hd Hp]. unfold dmax_step, fresh_of, fresh. cbn [odmax operm oseq ophos opal].
  destruct (search (oseq o)) as [d' t'] eqn:E. cbn [fst snd] in *.
  destruct (odmax o) as [d|], b, (operm o) as [t|]; cbn [snd]; rewrite ?E; cbn [snd]; try reflexivity.
  - destruct Hd as [Hd|Hd]; [discriminate|]. destruct Hp as [Hp|Hp]; [discriminate|]. injection Hd as ->. injection Hp as ->. reflexivity.
  - destruct Hd as [Hd|Hd]; [discriminate|]. injection Hd as ->. reflexivity.
  - destruct Hd as [Hd|Hd]; [discriminate|]. injection Hd as ->. reflexivity.
Qed.

Lemma dmax_step_inv o b : Inv o -> Inv (fst (dmax_step o b)).
Proof.
  intros [Hd Hp]. unfold dmax_step.
  destruct (search (oseq o)) as [d' t'] eqn:E.
  destruct (odmax o) as [d|] eqn:Ed, b, (operm o) as [t|] eqn:Ep; cbn [fst]; unfold Inv; cbn [odmax operm oseq];
    rewrite ?E, ?Ed, ?Ep; cbn [fst snd]; try (split; [right; reflexivity | right; reflexivity]);
    try (split; [right; reflexivity | first [left; reflexivity | exact Hp | rewrite E in Hp; exact Hp]]);
    try (split; [first [exact Hd | rewrite E in Hd; exact Hd] | first [exact Hp | rewrite E in Hp; exact Hp]]).
Qed.

Theorem qstep_view o q : view (fst (qstep o q)) = view o.
Proof.
  destruct q; try reflexivity; unfold qstep, qstep_with.
  - pose proof (dmax_step_view o false) as H. destruct (dmax_step o false) as [o1 r]. exact H.
  - apply dmax_step_view.
Qed.

Theorem qstep_indep o q : Inv o -> snd (qstep o q) = snd (qstep (fresh_of o) q).
Proof.
  intros H. destruct q; try reflexivity; unfold qstep, qstep_with.
  - pose proof (dmax_step_indep o false H) as E.
    destruct (dmax_step o false) as [o1 r]. destruct (dmax_step (fresh_of o) false) as [o2 r2].
    cbn [snd] in *. subst r2. reflexivity.
  - apply dmax_step_indep. exact H.
Qed.

Theorem qstep_inv o q : Inv o -> Inv (fst (qstep o q)).
Proof.
  intros H. destruct q; try exact H; unfold qstep, qstep_with.
  - pose proof (dmax_step_inv o false H) as E. destruct (dmax_step o false) as [o1 r]. exact E.
  - apply dmax_step_inv. exact H.
Qed.

Lemma run_view qs : forall o, view (run qs o) = view o.
Proof.
  induction qs as [|q qs IH]; intros o; [reflexivity|]. unfold run in *. cbn [fold_left].
  rewrite IH. apply qstep_view.
Qed.

Lemma run_inv qs : forall o, Inv o -> Inv (run qs o).
Proof.
  induction qs as [|q qs IH]; intros o H; [exact H|]. unfold run in *. cbn [fold_left]. apply IH. apply qstep_inv. exact H.
Qed.

Lemma fresh_of_view o o' : view o = view o' -> fresh_of o = fresh_of o'.
Proof. unfold view, fresh_of. intros H. injection H as -> -> ->. reflexivity. Qed.

(* whatever was asked before, a query answers as on a freshly constructed object, and the stored
   sequence, phosphosite list and palette are unchanged *)
Theorem query_history_independent o qs q : Inv o ->
  snd (qstep (run qs o) q) = snd (qstep (fresh_of o) q) /\ view (run qs o) = view o.
Proof.
  intros H. split; [|apply run_view].
  rewrite (qstep_indep (run qs o) q (run_inv qs o H)). rewrite (fresh_of_view _ _ (run_view qs o)). reflexivity.
Qed.

(* several live objects: the model has no shared component, so any interleaving of queries on a family
   of objects answers each query as on a fresh copy of its own object *)
Definition step_family (os : list obj) (iq : nat * query) : list obj :=
  let '(i, q) := iq in
  map (fun jo => if Nat.eqb (fst jo) i then fst (qstep (snd jo) q) else snd jo) (combine (seq 0 (List.length os)) os).

Lemma step_family_length os iq : List.length (step_family os iq) = List.length os.
Proof. destruct iq as [i q]. unfold step_family. rewrite map_length, combine_length, seq_length. apply Nat.min_id. Qed.

Lemma step_family_pointwise os iq : Forall Inv os ->
  Forall2 (fun o o' => view o' = view o /\ Inv o') os (step_family os iq).
Proof.
  destruct iq as [i q]. unfold step_family. generalize 0%nat. induction os as [|o os IH]; intros k H; cbn; [constructor|].
  inversion H; subst. constructor; [|apply IH; assumption]. cbn [fst snd].
  destruct (Nat.eqb k i); [split; [apply qstep_view | apply qstep_inv; assumption] | split; [reflexivity | assumption]].
Qed.

(* the pinned (pre-fix) cache short-circuit was observable: D2 *)
Theorem history_dependence_refuted : exists s,
  snd (qstep_pinned (fst (qstep_pinned (fresh s [] default_palette) QKappa)) (QDmax true)) <>
  snd (qstep_pinned (fresh s [] default_palette) (QDmax true)).
Proof. exists [Glu; Lys; Glu; Lys; Gly; Gly; Glu; Lys; Glu; Lys]. vm_compute. discriminate. Qed.

(* a non-trivial state meeting Inv: cache filled half-way by a 5-query history *)
Example inv_nonvacuous :
  let o := run [QKappa; QOmega; QDelta; QHtml; QKappaAfter] (fresh [Glu; Lys; Glu; Lys; Gly; Gly; Glu; Lys; Glu; Lys] [] default_palette) in
  odmax o <> None /\ operm o = None.
Proof. vm_compute. split; [discriminate | reflexivity]. Qed.
