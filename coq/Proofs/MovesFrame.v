(* Proofs/MovesFrame.v — C17: what block swap and charge clustering leave alone.  Besides being rearrangements
   (Proofs/Moves.v), these two moves keep every residue outside the index ranges they exchange; block swap puts
   exactly the other block's residues, in order, into each range. *)
From Coq Require Import QArith ZArith List Bool Arith Lia Permutation.
From LC Require Import Core.Residue Core.Lists Spec.Delta Model.Delta Model.Phospho Model.Moves Proofs.Phospho Proofs.Moves.
Import ListNotations.

Lemma memn_seq_false k a L : (k < a \/ a + L <= k)%nat -> memn k (seq a L) = false.
Proof.
  intros H. destruct (memn k (seq a L)) eqn:E; [|reflexivity]. apply memn_In in E. apply in_seq in E. lia.
Qed.

(* ---------- block swap: every position outside the two exchanged ranges keeps its residue ---------- *)
Theorem blockSwap_untouched o bs i1 i2 c k : blockSwap o bs i1 i2 = Some c ->
  (k < List.length (mseq o))%nat ->
  (k < i1 \/ i1 + (bs - 1) <= k)%nat -> (k < i2 + bs - 1 \/ i2 + bs - 1 + (bs - 1) <= k)%nat ->
  nth k (mseq c) Ala = nth k (mseq o) Ala.
Proof.
  intros H Hk H1 H2. unfold blockSwap in H. set (n := List.length (mseq o)) in *.
  destruct (_ && _) eqn:E; [|discriminate]. injection H as <-. cbn [rebuilt mseq].
  rewrite rearrange_nth by (rewrite fill2_length, seq_length; exact Hk).
  rewrite fill2_fixed; [now rewrite seq_nth | now rewrite seq_length|].
  rewrite seq_nth by exact Hk. cbn [plus]. unfold neither.
  rewrite (memn_seq_false k i1 (bs - 1) H1), (memn_seq_false k (i2 + bs - 1) (bs - 1) H2). reflexivity.
Qed.

(* ---------- clustering: every position outside the cluster and the sampled swap positions keeps its residue ---------- *)
Lemma memn_perm_false k l l' : Permutation l l' -> memn k l' = false -> memn k l = false.
Proof.
  intros Hp H. destruct (memn k l) eqn:E; [|reflexivity]. apply memn_In in E. apply (Permutation_in _ Hp) in E.
  apply memn_In in E. congruence.
Qed.

Theorem clusterMove_untouched o st sz sw c k : clusterMove o st sz sw = Some c ->
  (k < List.length (mseq o))%nat -> (k < st \/ st + sz <= k)%nat -> ~ In k sw ->
  nth k (mseq c) Ala = nth k (mseq o) Ala.
Proof.
  intros H Hk H1 H2. unfold clusterMove in H. set (n := List.length (mseq o)) in *.
  destruct (_ && _) eqn:E; [|discriminate]. injection H as <-. cbn [rebuilt mseq].
  rewrite rearrange_nth by (rewrite fill2_length, seq_length; exact Hk).
  rewrite fill2_fixed; [now rewrite seq_nth | now rewrite seq_length|].
  rewrite seq_nth by exact Hk. cbn [plus]. unfold neither.
  rewrite (memn_seq_false k st sz H1).
  assert (Hsw : memn k sw = false).
  { destruct (memn k sw) eqn:E'; [|reflexivity]. apply memn_In in E'. contradiction. }
  rewrite (memn_perm_false k _ _ (sort_nat_perm sw) Hsw). reflexivity.
Qed.

(* ---------- block swap in closed form ---------- *)
Section Runs.
  Variables A B : list nat.
  Lemma fill2_neither_run ps1 : forall ps2 sa sb, (forall p, In p ps1 -> memn p A = false /\ memn p B = false) ->
    fill2 (ps1 ++ ps2) A B sa sb = ps1 ++ fill2 ps2 A B sa sb.
  Proof.
    induction ps1 as [|p ps IH]; intros ps2 sa sb H; [reflexivity|]. cbn [app fill2].
    destruct (H p (or_introl eq_refl)) as [-> ->]. f_equal. apply IH. intros q Hq. apply H. now right.
  Qed.
  Lemma fill2_A_run ps1 : forall sa1 ps2 sa2 sb, (forall p, In p ps1 -> memn p A = true) -> List.length sa1 = List.length ps1 ->
    fill2 (ps1 ++ ps2) A B (sa1 ++ sa2) sb = sa1 ++ fill2 ps2 A B sa2 sb.
  Proof.
    induction ps1 as [|p ps IH]; intros sa1 ps2 sa2 sb H Hl.
    - destruct sa1; [reflexivity | discriminate].
    - destruct sa1 as [|x sa1]; [discriminate|]. cbn [app fill2]. rewrite (H p (or_introl eq_refl)). f_equal.
      apply IH; [intros q Hq; apply H; now right | cbn in Hl; lia].
  Qed.
  Lemma fill2_B_run ps1 : forall sb1 ps2 sa sb2, (forall p, In p ps1 -> memn p A = false /\ memn p B = true) ->
    List.length sb1 = List.length ps1 ->
    fill2 (ps1 ++ ps2) A B sa (sb1 ++ sb2) = sb1 ++ fill2 ps2 A B sa sb2.
  Proof.
    induction ps1 as [|p ps IH]; intros sb1 ps2 sa sb2 H Hl.
    - destruct sb1; [reflexivity | discriminate].
    - destruct sb1 as [|x sb1]; [discriminate|]. cbn [app fill2]. destruct (H p (or_introl eq_refl)) as [-> ->]. f_equal.
      apply IH; [intros q Hq; apply H; now right | cbn in Hl; lia].
  Qed.
End Runs.

Lemma memn_seq_true k a L : (a <= k < a + L)%nat -> memn k (seq a L) = true.
Proof. intros H. apply memn_In. apply in_seq. lia. Qed.

(* closed form of the index list of two exchanged disjoint runs a..a+L-1 and b..b+L-1 (a+L <= b, b+L <= n) *)
Lemma fill2_two_runs a L g r :
  let b := (a + L + g)%nat in
  fill2 (seq 0 (a + L + g + L + r)) (seq a L) (seq b L) (seq b L) (seq a L)
  = seq 0 a ++ seq b L ++ seq (a + L) g ++ seq a L ++ seq (b + L) r.
Proof.
  intros b.
  replace (a + L + g + L + r)%nat with (a + (L + (g + (L + r))))%nat by lia.
  rewrite (seq_app a), (seq_app L), (seq_app g), (seq_app L). cbn [plus].
  change (a + L + g)%nat with b.
  rewrite fill2_neither_run by (intros p Hp; apply in_seq in Hp; split; apply memn_seq_false; unfold b; lia).
  f_equal.
  match goal with |- fill2 (_ ++ ?ps2) _ _ _ _ = _ =>
    pose proof (fill2_A_run (seq a L) (seq b L) (seq a L) (seq b L) ps2 [] (seq a L)) as HA end.
  rewrite app_nil_r in HA. rewrite HA
    by (try (intros p Hp; apply in_seq in Hp; apply memn_seq_true; lia); now rewrite !seq_length). clear HA.
  f_equal.
  rewrite fill2_neither_run by (intros p Hp; apply in_seq in Hp; split; apply memn_seq_false; unfold b; lia).
  f_equal.
  match goal with |- fill2 (_ ++ ?ps2) _ _ _ _ = _ =>
    pose proof (fill2_B_run (seq a L) (seq b L) (seq b L) (seq a L) ps2 [] []) as HB end.
  rewrite app_nil_r in HB. rewrite HB
    by (try (intros p Hp; apply in_seq in Hp; split; [apply memn_seq_false | apply memn_seq_true]; unfold b in *; lia); now rewrite !seq_length). clear HB.
  f_equal.
  rewrite <- (app_nil_r (seq (b + L) r)) at 1.
  rewrite fill2_neither_run by (intros p Hp; apply in_seq in Hp; split; apply memn_seq_false; unfold b; lia).
  cbn [fill2]. now rewrite app_nil_r.
Qed.

(* block swap in closed form: the child's residues are the parent's read in the order
   [0,i1) ++ [j,j+L) ++ [i1+L,j) ++ [i1,i1+L) ++ [j+L,n), with L = bs-1 and j = i2+bs-1 *)
Theorem blockSwap_closed_form o bs i1 i2 c : blockSwap o bs i1 i2 = Some c ->
  let n := List.length (mseq o) in let L := (bs - 1)%nat in let j := (i2 + bs - 1)%nat in
  mseq c = rearrange Ala (mseq o)
             (seq 0 i1 ++ seq j L ++ seq (i1 + L) (j - (i1 + L)) ++ seq i1 L ++ seq (j + L) (n - (j + L))).
Proof.
  intros H n L j. unfold blockSwap in H. fold n in H.
  destruct (_ && _) eqn:E; [|discriminate]. injection H as <-. cbn [rebuilt mseq].
  apply andb_prop in E. destruct E as [E E4]. apply andb_prop in E. destruct E as [E E3]. apply andb_prop in E. destruct E as [E1 E2].
  apply Nat.leb_le in E1. apply Nat.leb_le in E2. apply Nat.ltb_lt in E3. apply Nat.ltb_lt in E4.
  f_equal.
  pose proof (fill2_two_runs i1 L (j - (i1 + L)) (n - (j + L))) as HF. cbn zeta in HF.
  replace (i1 + L + (j - (i1 + L)))%nat with j in HF by (unfold j, L; lia).
  replace (j + L + (n - (j + L)))%nat with n in HF by (unfold j, L; lia).
  exact HF.
Qed.
