(* Proofs/MovesFrame.v — C17: what block swap and charge clustering leave alone.  Besides being rearrangements
   (Proofs/Moves.v), these two moves keep every residue outside the index ranges they exchange; block swap puts
   exactly the other block's residues, in order, into each range. *)
From Coq Require Import QArith ZArith List Bool Arith Lia Permutation.
From LC Require Import Core.Residue Core.Lists Spec.Delta Model.Delta Model.Phospho Model.Moves Proofs.Phospho Proofs.Moves.
Import ListNotations.

Lemma memn_seq_false k a L : (k < a \/ a + L <= k)%nat -> memn k (seq a L) = false.
Proof.
  intros H. destruct (memn k (seq a L)) eqn:E; [|reflexivity]. apply memn_In in E. apply in_seq in E. lia.
Qed.

(* ---------- block swap: every position outside the two exchanged ranges keeps its residue ---------- *)
Theorem blockSwap_untouched o bs i1 i2 c k : blockSwap o bs i1 i2 = Some c ->
  (k < List.length (mseq o))%nat ->
  (k < i1 \/ i1 + (bs - 1) <= k)%nat -> (k < i2 + bs - 1 \/ i2 + bs - 1 + (bs - 1) <= k)%nat ->
  nth k (mseq c) Ala = nth k (mseq o) Ala.
Proof.
  intros H Hk H1 H2. unfold blockSwap in H. set (n := List.length (mseq o)) in *.
  destruct (_ && _) eqn:E; [|discriminate]. injection H as <-. cbn [rebuilt mseq].
  rewrite rearrange_nth by (rewrite fill2_length, seq_length; exact Hk).
  rewrite fill2_fixed; [now rewrite seq_nth | now rewrite seq_length|].
  rewrite seq_nth by exact Hk. cbn [plus]. unfold neither.
  rewrite (memn_seq_false k i1 (bs - 1) H1), (memn_seq_false k (i2 + bs - 1) (bs - 1) H2). reflexivity.
Qed.

(* ---------- clustering: every position outside the cluster and the sampled swap positions keeps its residue ---------- *)
Lemma memn_perm_false k l l' : Permutation l l' -> memn k l' = false -> memn k l = false.
Proof.
  intros Hp H. destruct (memn k l) eqn:E; [|reflexivity]. apply memn_In in E. apply (Permutation_in _ Hp) in E.
  apply memn_In in E. congruence.
Qed.

Theorem clusterMove_untouched o st sz sw c k : clusterMove o st sz sw = Some c ->
  (k < List.length (mseq o))%nat -> (k < st \/ st + sz <= k)%nat -> ~ In k sw ->
  nth k (mseq c) Ala = nth k (mseq o) Ala.
Proof.
  intros H Hk H1 H2. unfold clusterMove in H. set (n := List.length (mseq o)) in *.
  destruct (_ && _) eqn:E; [|discriminate]. injection H as <-. cbn [rebuilt mseq].
  rewrite rearrange_nth by (rewrite fill2_length, seq_length; exact Hk).
  rewrite fill2_fixed; [now rewrite seq_nth | now rewrite seq_length|].
  rewrite seq_nth by exact Hk. cbn [plus]. unfold neither.
  rewrite (memn_seq_false k st sz H1).
  assert (Hsw : memn k sw = false).
  { destruct (memn k sw) eqn:E'; [|reflexivity]. apply memn_In in E'. contradiction. }
  rewrite (memn_perm_false k _ _ (sort_nat_perm sw) Hsw). reflexivity.
Qed.
