(* Proofs/Complexity.v — C11 (discrete part): window count, window contents, positions, LC/LZW range,
   WF counts (sum to the window length, permutation invariance, homopolymer), rejections. *)
From Coq Require Import QArith ZArith List Bool Arith Lia Permutation.
From LC Require Import Core.Residue Core.Lists Core.QTools Model.Alphabets Model.Complexity.
Import ListNotations.

(* ---------- windows ---------- *)
Theorem nwin_spec N w s : (w <= N)%nat -> nwin N w s = ((N - w) / s + 1)%nat.
Proof. intros H. unfold nwin. replace (N <? w)%nat with false by (symmetry; apply Nat.ltb_ge; exact H). reflexivity. Qed.

Theorem windows_count w s l : (w <= List.length l)%nat ->
  List.length (windows w s l) = ((List.length l - w) / s + 1)%nat.
Proof. intros H. unfold windows. rewrite map_length, seq_length. apply nwin_spec. exact H. Qed.

Theorem window_is_slice w s l i : (1 <= s)%nat -> (w <= List.length l)%nat -> (i < nwin (List.length l) w s)%nat ->
  List.length (window w s l i) = w /\ window w s l i = firstn w (skipn (i * s) l).
Proof.
  intros Hs Hw Hi. split; [|reflexivity]. rewrite nwin_spec in Hi by exact Hw.
  unfold window. rewrite firstn_length, skipn_length.
  assert (i * s <= List.length l - w)%nat.
  { assert (i <= (List.length l - w) / s)%nat by lia.
    eapply Nat.le_trans; [apply Nat.mul_le_mono_r; exact H|]. rewrite Nat.mul_comm. apply Nat.mul_div_le. lia. }
  lia.
Qed.

(* the j-th value is a function of the j-th window only (locality) *)
Theorem values_are_per_window {X} (F : list aa -> X) w s l j d : (j < nwin (List.length l) w s)%nat ->
  nth j (map F (windows w s l)) d = F (window w s l j).
Proof.
  intros Hj. unfold windows. rewrite map_map.
  rewrite (nth_indep _ d (F (window w s l 0))) by (rewrite map_length, seq_length; exact Hj).
  rewrite (map_nth (fun i => F (window w s l i))), seq_nth by exact Hj. reflexivity.
Qed.

(* ---------- positions ---------- *)
Local Open Scope Z_scope.

Theorem positions_length N K : 0 <= K -> Z.of_nat (List.length (positions N K)) = K.
Proof. intros H. unfold positions. rewrite map_length, seq_length. lia. Qed.

Theorem positions_nth N K i : (i < Z.to_nat K)%nat ->
  nth i (positions N K) 0 =
  (let spacing := N / K in let r := N - spacing * K in
   (if r mod 2 =? 0 then r / 2 else (r - 1) / 2) + 1 + spacing / 2 + Z.of_nat i * spacing).
Proof.
  intros Hi. unfold positions. cbn zeta.
  set (st := _ + 1 + _). rewrite (nth_indep _ 0 ((fun i => st + Z.of_nat i * (N / K)) 0%nat)) by (rewrite map_length, seq_length; exact Hi).
  rewrite (map_nth (fun i => st + Z.of_nat i * (N / K))), seq_nth by exact Hi. reflexivity.
Qed.

Theorem positions_in_range N K i : 1 <= K <= N -> (i < Z.to_nat K)%nat -> 1 <= nth i (positions N K) 0 <= N.
Proof.
  intros HK Hi. rewrite positions_nth by exact Hi. cbn zeta.
  set (s := N / K). set (r := N - s * K).
  assert (Hs : 1 <= s) by (unfold s; apply Z.div_le_lower_bound; lia).
  assert (Hr : 0 <= r < K) by (unfold r, s; pose proof (Z.div_mod N K ltac:(lia)); pose proof (Z.mod_pos_bound N K ltac:(lia)); lia).
  assert (Hf : 0 <= (if r mod 2 =? 0 then r / 2 else (r - 1) / 2) <= r).
  { destruct (r mod 2 =? 0) eqn:E; [apply Z.eqb_eq in E | apply Z.eqb_neq in E];
      pose proof (Z.div_mod r 2 ltac:(lia)); pose proof (Z.mod_pos_bound r 2 ltac:(lia));
      pose proof (Z.div_mod (r - 1) 2 ltac:(lia)); pose proof (Z.mod_pos_bound (r - 1) 2 ltac:(lia)); lia. }
  assert (Hh : 0 <= s / 2 /\ 1 + s / 2 <= s).
  { split; [apply Z.div_pos; lia|]. pose proof (Z.div_mod s 2 ltac:(lia)). pose proof (Z.mod_pos_bound s 2 ltac:(lia)). lia. }
  assert (Hi' : 0 <= Z.of_nat i <= K - 1) by lia.
  assert (0 <= Z.of_nat i * s) by nia.
  assert (Z.of_nat i * s <= (K - 1) * s) by nia.
  assert (N = s * K + r) by (unfold r; lia).
  split; nia.
Qed.

Theorem positions_strictly_increasing N K i : 1 <= K <= N -> (S i < Z.to_nat K)%nat ->
  nth i (positions N K) 0 < nth (S i) (positions N K) 0.
Proof.
  intros HK Hi. rewrite !positions_nth by lia. cbn zeta.
  assert (Hs : 1 <= N / K) by (apply Z.div_le_lower_bound; lia). nia.
Qed.

Local Close Scope Z_scope.

(* ---------- WF counts ---------- *)
Lemma count_perm x win win' : Permutation win win' -> count_aa x win = count_aa x win'.
Proof. apply cnt_perm. Qed.

Theorem wf_counts_perm alphabet win win' : Permutation win win' -> wf_counts alphabet win = wf_counts alphabet win'.
Proof. intros H. unfold wf_counts. apply map_ext. intros x. apply count_perm. exact H. Qed.

Lemma sum_map_add {X} (f g : X -> Z) l :
  fold_right Z.add 0%Z (map (fun x => (f x + g x)%Z) l) = (fold_right Z.add 0 (map f l) + fold_right Z.add 0 (map g l))%Z.
Proof. induction l as [|x l IH]; [reflexivity|]. cbn [map fold_right]. rewrite IH. lia. Qed.

Lemma one_hit a al : NoDup al -> In a al -> fold_right Z.add 0%Z (map (fun x => if aa_eqb x a then 1 else 0)%Z al) = 1%Z.
Proof.
  induction 1 as [|x al Hx Hnd IH]; intros Ha; [destruct Ha|]. cbn [map fold_right]. destruct Ha as [->|Ha].
  - rewrite aa_eqb_refl.
    assert (Hz : fold_right Z.add 0%Z (map (fun x => if aa_eqb x a then 1 else 0)%Z al) = 0%Z).
    { clear IH Hnd. induction al as [|y al IHa]; [reflexivity|]. cbn [map fold_right].
      destruct (aa_eqb y a) eqn:E; [apply aa_eqb_eq in E; subst; exfalso; apply Hx; left; reflexivity|].
      rewrite IHa; [reflexivity | intros H; apply Hx; right; exact H]. }
    rewrite Hz. reflexivity.
  - destruct (aa_eqb x a) eqn:E; [apply aa_eqb_eq in E; subst; contradiction|]. rewrite (IH Ha). reflexivity.
Qed.

Lemma sumZ_counts alphabet : NoDup alphabet -> forall win, Forall (fun a => In a alphabet) win ->
  fold_right Z.add 0%Z (wf_counts alphabet win) = Z.of_nat (List.length win).
Proof.
  intros Hnd win. induction win as [|a win IH]; intros H.
  - unfold wf_counts. clear. induction alphabet as [|x al IHa]; [reflexivity|]. cbn [map fold_right]. rewrite IHa. reflexivity.
  - inversion H as [|? ? Ha Hw]; subst. specialize (IH Hw). unfold wf_counts in *.
    assert (E : map (fun x => count_aa x (a :: win)) alphabet =
                map (fun x => ((if aa_eqb x a then 1 else 0) + count_aa x win)%Z) alphabet) by (apply map_ext; reflexivity).
    rewrite E, sum_map_add, (one_hit a alphabet Hnd Ha), IH. cbn [List.length]. lia.
Qed.

(* a homopolymeric window: the one letter present has count w, every other letter 0 *)
Theorem wf_counts_homopolymer (x y : aa) n :
  count_aa y (repeat x n) = if aa_eqb y x then Z.of_nat n else 0%Z.
Proof. unfold count_aa. apply cnt_repeat. Qed.

(* ---------- LC ---------- *)
Lemma laa_eqb2_eq a b : laa_eqb2 a b = true <-> a = b.
Proof.
  revert b. induction a as [|x a IH]; intros [|y b]; cbn [laa_eqb2]; split; intros H; try discriminate; try reflexivity.
  - apply andb_prop in H. destruct H as [H1 H2]. apply aa_eqb_eq in H1. apply IH in H2. now subst.
  - injection H as -> ->. rewrite aa_eqb_refl. now apply IH.
Qed.

Lemma dedup_words_NoDup l : NoDup (dedup_words l).
Proof.
  induction l as [|x l IH]; [constructor|]. cbn [dedup_words]. destruct (existsb (laa_eqb2 x) l) eqn:E; [exact IH|].
  constructor; [|exact IH]. intros Hin.
  assert (Hin' : In x l).
  { clear -Hin. induction l as [|y l IH]; [destruct Hin|]. cbn [dedup_words] in Hin.
    destruct (existsb (laa_eqb2 y) l); [right; apply IH; exact Hin|]. destruct Hin as [->|Hin]; [left; reflexivity | right; apply IH; exact Hin]. }
  assert (existsb (laa_eqb2 x) l = true) by (apply existsb_exists; exists x; split; [exact Hin' | apply laa_eqb2_eq; reflexivity]).
  congruence.
Qed.

Lemma dedup_words_incl l : incl (dedup_words l) l.
Proof.
  induction l as [|x l IH]; [intros y []|]. cbn [dedup_words]. destruct (existsb (laa_eqb2 x) l).
  - intros y Hy. right. apply IH. exact Hy.
  - intros y [->|Hy]; [left; reflexivity | right; apply IH; exact Hy].
Qed.

Lemma dedup_words_length l : (List.length (dedup_words l) <= List.length l)%nat.
Proof. apply NoDup_incl_length; [apply dedup_words_NoDup | apply dedup_words_incl]. Qed.

(* all words of length n over an alphabet *)
Fixpoint all_words (alph : list aa) (n : nat) : list (list aa) :=
  match n with
  | O => [[]]
  | S n' => flat_map (fun a => map (cons a) (all_words alph n')) alph
  end.

Lemma flat_cons_length (al : list aa) (W : list (list aa)) :
  List.length (flat_map (fun a => map (cons a) W) al) = (List.length al * List.length W)%nat.
Proof. induction al as [|a al IH]; [reflexivity|]. cbn [flat_map List.length]. rewrite app_length, map_length, IH. lia. Qed.

Lemma all_words_length alph n : List.length (all_words alph n) = (List.length alph ^ n)%nat.
Proof. induction n as [|n IH]; [reflexivity|]. cbn [all_words Nat.pow]. now rewrite flat_cons_length, IH. Qed.

Lemma all_words_complete alph wd : Forall (fun a => In a alph) wd -> In wd (all_words alph (List.length wd)).
Proof.
  induction 1 as [|a wd Ha _ IH]; [left; reflexivity|]. cbn [List.length all_words].
  apply in_flat_map. exists a. split; [exact Ha|]. apply in_map. exact IH.
Qed.

(* distinct words of length ws over k letters: at most k^ws *)
Lemma distinct_words_bound alph ws (ws_list : list (list aa)) :
  NoDup ws_list -> (forall wd, In wd ws_list -> List.length wd = ws /\ Forall (fun a => In a alph) wd) ->
  (List.length ws_list <= List.length alph ^ ws)%nat.
Proof.
  intros Hnd H. rewrite <- all_words_length. apply NoDup_incl_length; [exact Hnd|].
  intros wd Hwd. destruct (H wd Hwd) as [<- Hf]. apply all_words_complete. exact Hf.
Qed.

Theorem lc_range alph w ws win : List.length win = w -> (1 <= ws)%nat -> Forall (fun a => In a alph) win ->
  (0 <= lc_value (List.length alph) w ws win <= 1)%Q.
Proof.
  intros Hw Hws Hal. unfold lc_value.
  set (v := List.length (dedup_words (lc_words w ws win))).
  set (vmax := Nat.min (List.length alph ^ ws) (w - 1 + ws)).
  assert (Hv1 : (v <= w - ws)%nat).
  { unfold v. eapply Nat.le_trans; [apply dedup_words_length|]. unfold lc_words. now rewrite map_length, seq_length. }
  assert (Hv2 : (v <= List.length alph ^ ws)%nat).
  { unfold v. apply distinct_words_bound; [apply dedup_words_NoDup|].
    intros wd Hwd. apply dedup_words_incl in Hwd. unfold lc_words in Hwd. apply in_map_iff in Hwd.
    destruct Hwd as [i [<- Hi]]. apply in_seq in Hi. split.
    - rewrite firstn_length, skipn_length. lia.
    - apply Forall_forall. intros a Ha.
      assert (Ha' : In a (skipn i win)) by (rewrite <- (firstn_skipn ws (skipn i win)); apply in_or_app; left; exact Ha).
      assert (Ha'' : In a win) by (rewrite <- (firstn_skipn i win); apply in_or_app; right; exact Ha').
      rewrite Forall_forall in Hal. apply Hal. exact Ha''. }
  assert (Hv : (v <= vmax)%nat) by (unfold vmax; apply Nat.min_glb; lia).
  split.
  - unfold Qle. cbn [Qnum Qden]. lia.
  - destruct vmax as [|m] eqn:Em.
    + assert (v = 0)%nat by lia. rewrite H. unfold Qle. cbn. lia.
    + unfold Qle. cbn [Qnum Qden]. rewrite Z.mul_1_r, Z.mul_1_l.
      rewrite <- positive_nat_Z, Nat2Pos.id by lia. lia.
Qed.

(* ---------- LZW ---------- *)
Lemma lzw_fold_bound win : forall dict wd,
  (List.length (fst (fold_left lzw_step win (dict, wd))) <= List.length dict + List.length win)%nat.
Proof.
  induction win as [|c win IH]; intros dict wd; cbn [fold_left List.length fst]; [lia|].
  unfold lzw_step at 2. destruct (existsb (laa_eqb2 (wd ++ [c])) dict).
  - eapply Nat.le_trans; [apply IH | lia].
  - eapply Nat.le_trans; [apply IH | cbn [List.length]; lia].
Qed.

Theorem lzw_range w win : List.length win = w -> (1 <= w)%nat -> (0 <= lzw_value w win <= 1)%Q.
Proof.
  intros Hw H1. unfold lzw_value. pose proof (lzw_fold_bound win [] []) as Hb.
  destruct (fold_left lzw_step win ([], [])) as [dict wd]. cbn [fst List.length] in Hb. rewrite Hw in Hb.
  split; unfold Qle; cbn [Qnum Qden]; [lia|].
  rewrite Z.mul_1_r, Z.mul_1_l. rewrite <- positive_nat_Z, Nat2Pos.id by lia. lia.
Qed.

(* ---------- rejections ---------- *)
Theorem rejects_unknown_type allowed f alph k ua w s ws l : complexity allowed f alph COther k ua w s ws l = None.
Proof. reflexivity. Qed.

Theorem rejects_long_window allowed f alph ct k ua w s ws l : (List.length l < w)%nat ->
  complexity allowed f alph ct k ua w s ws l = None.
Proof.
  intros H. unfold complexity. replace (List.length l <? w)%nat with true by (symmetry; apply Nat.ltb_lt; exact H).
  destruct ct; reflexivity.
Qed.
