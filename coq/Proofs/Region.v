(* Proofs/Region.v — the rational cascade equals the threshold specification for every
   composition (unbounded): total, never raises, composition-only (C08). *)
From Coq Require Import ZArith QArith Qabs Bool Lia String.
From LC Require Import Spec.Region Model.Region.
Local Open Scope Z_scope.

Theorem cascadeQ_eq_spec p n N : 0 < N -> 0 <= p -> 0 <= n -> p + n <= N ->
  regionQ_counts p n N = regionZ p n N.
Proof.
  intros HN Hp Hn Hs. unfold regionQ_counts, m_regionQ, regionZ. cbn zeta.
  unfold Qle_bool, Qabs. cbn [Qnum Qden]. rewrite Z2Pos.id by exact HN.
  destruct (Z.leb_spec (1 * N) ((p + n) * 4)); destruct (Z.ltb_spec (4 * (p + n)) N); cbn [negb andb]; try lia; try reflexivity.
  destruct (Z.leb_spec ((p + n) * 20) (7 * N)); destruct (Z.leb_spec (20 * (p + n)) (7 * N)); cbn [negb andb]; try lia; try reflexivity.
  destruct (Z.leb_spec (7 * N) (Z.abs (p - n) * 20)); destruct (Z.ltb_spec (20 * Z.abs (p - n)) (7 * N)); cbn [negb andb]; try lia; try reflexivity.
  destruct (Z.leb_spec (p * 20) (7 * N)); destruct (Z.leb_spec (n * 20) (7 * N)); destruct (Z.ltb_spec n p);
    cbn [negb]; try lia; try reflexivity.
Qed.

Theorem region_total p n N : 1 <= regionZ p n N <= 5.
Proof.
  unfold regionZ. destruct (_ <? _); [lia|]. destruct (_ <=? _); [lia|]. destruct (_ <? _); [lia|].
  destruct (_ <? _); lia.
Qed.

Corollary region_no_raise p n N : 0 < N -> 0 <= p -> 0 <= n -> p + n <= N ->
  1 <= regionQ_counts p n N <= 5.
Proof. intros. rewrite cascadeQ_eq_spec by assumption. apply region_total. Qed.

(* in regions 4/5 one charge strictly outnumbers the other *)
Theorem region_45_strict p n N : 0 < N -> 0 <= p -> 0 <= n ->
  (regionZ p n N = 5 -> n < p) /\ (regionZ p n N = 4 -> p < n).
Proof.
  intros HN Hp Hn. unfold regionZ.
  destruct (Z.ltb_spec (4 * (p + n)) N); [split; discriminate|].
  destruct (Z.leb_spec (20 * (p + n)) (7 * N)); [split; discriminate|].
  destruct (Z.ltb_spec (20 * Z.abs (p - n)) (7 * N)); [split; discriminate|].
  destruct (Z.ltb_spec n p); split; intros; try discriminate; lia.
Qed.

Theorem annotation_total r : 1 <= r <= 5 -> annotation r <> "ERROR, NOT A REAL REGION"%string.
Proof.
  intros H. assert (E : r = 1 \/ r = 2 \/ r = 3 \/ r = 4 \/ r = 5) by lia.
  destruct E as [E|[E|[E|[E|E]]]]; subst r; discriminate.
Qed.
