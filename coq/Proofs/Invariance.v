(* Proofs/Invariance.v — reversal and charge-inversion invariance of delta, delta-max, kappa (C05). *)
From Coq Require Import QArith Qabs Qreduction ZArith List Bool Lia Permutation.
From LC Require Import Core.Residue Core.Lists Core.QTools Spec.Delta Model.Delta
     Proofs.Delta Proofs.DeltaMax Proofs.Permutant.
Import ListNotations.
Local Open Scope Z_scope.

(* ---------- counts under inversion / reversal ---------- *)
Lemma npos_opp l : npos (map Z.opp l) = nneg l.
Proof. unfold npos, nneg. rewrite cnt_map. apply cnt_ext. intros x. unfold isposb, isnegb. lia. Qed.
Lemma nneg_opp l : nneg (map Z.opp l) = npos l.
Proof. unfold npos, nneg. rewrite cnt_map. apply cnt_ext. intros x. unfold isposb, isnegb. lia. Qed.
Lemma len_map {A B} (f : A -> B) l : len (map f l) = len l.
Proof. unfold len. now rewrite map_length. Qed.
Lemma npos_rev l : npos (rev l) = npos l.  Proof. apply cnt_rev. Qed.
Lemma nneg_rev l : nneg (rev l) = nneg l.  Proof. apply cnt_rev. Qed.
Lemma len_rev {A} (l : list A) : len (rev l) = len l.  Proof. unfold len. now rewrite rev_length. Qed.

Lemma sigma_c_swap p n N : sigma_c n p N = sigma_c p n N.
Proof.
  unfold sigma_c. rewrite (Z.add_comm n p).
  replace ((n - p) * (n - p)) with ((p - n) * (p - n)) by ring. reflexivity.
Qed.

Lemma sigma_opp l : sigma (map Z.opp l) = sigma l.
Proof. unfold sigma. rewrite npos_opp, nneg_opp, len_map. apply sigma_c_swap. Qed.

Lemma sigma_rev l : sigma (rev l) = sigma l.
Proof. unfold sigma. now rewrite npos_rev, nneg_rev, len_rev. Qed.

(* ---------- delta ---------- *)
Lemma deltaForm_opp w l : deltaForm w (map Z.opp l) = deltaForm w l.
Proof.
  unfold deltaForm. rewrite blobs_map, map_map, sigma_opp. unfold len. rewrite map_length.
  f_equal. f_equal. apply map_ext. intros b. now rewrite sigma_opp.
Qed.

Theorem delta_inv l : delta (map Z.opp l) = delta l.
Proof. unfold delta. now rewrite !deltaForm_opp. Qed.

Lemma deltaForm_rev w l : (0 < w)%nat -> (deltaForm w (rev l) == deltaForm w l)%Q.
Proof.
  intros Hw. unfold deltaForm. rewrite blobs_rev by exact Hw. rewrite sigma_rev.
  unfold len. rewrite rev_length, map_length.
  apply Qmult_comp; [|reflexivity].
  rewrite map_rev, sumQ_rev, map_map. apply sumQ_map_ext. intros b _. now rewrite sigma_rev.
Qed.

Theorem delta_rev l : (delta (rev l) == delta l)%Q.
Proof. unfold delta. rewrite !deltaForm_rev by lia. reflexivity. Qed.

(* ---------- block algebra ---------- *)
Lemma opp_blk c k : map Z.opp (blk c k) = blk (- c) k.
Proof. unfold blk. induction k as [|k IH]; [reflexivity|]. cbn [repeat map]. now rewrite IH. Qed.
Lemma rev_blk c k : rev (blk c k) = blk c k.
Proof.
  unfold blk. induction k as [|k IH]; [reflexivity|]. cbn [repeat rev]. rewrite IH.
  clear IH. induction k as [|k IH]; [reflexivity|]. cbn [repeat app]. now rewrite IH.
Qed.

Ltac norm_blk := repeat (rewrite ?map_app, ?rev_app_distr, ?opp_blk, ?rev_blk, <- ?app_assoc); cbn [Z.opp].

(* each candidate of the inverted composition has a delta-equal candidate of the original one *)
Lemma cands_swap_cover p n z l : In l (cands n p z) ->
  exists l', In l' (cands p n z) /\ (delta l' == delta l)%Q.
Proof.
  unfold cands. rewrite (Nat.add_comm n p), (orb_comm (n =? 0)%nat (p =? 0)%nat).
  destruct (p + n =? 0)%nat eqn:E0; [intros []|].
  destruct p as [|p'].
  - (* p = 0: source has only positives (n of them), target only negatives *)
    destruct n as [|n']; [discriminate E0|]. cbn [Nat.eqb orb].
    destruct (S n' <? z)%nat; rewrite in_map_iff; intros [pos [<- Hpos]];
      eexists; (split; [apply in_map_iff; exists pos; split; [reflexivity | exact Hpos]|]);
      rewrite <- (delta_inv (_ ++ _)); norm_blk; reflexivity.
  - destruct n as [|n'].
    + cbn [Nat.eqb orb].
      destruct (S p' <? z)%nat; rewrite in_map_iff; intros [pos [<- Hpos]];
        eexists; (split; [apply in_map_iff; exists pos; split; [reflexivity | exact Hpos]|]);
        rewrite <- (delta_inv (_ ++ _)); norm_blk; reflexivity.
    + cbn [Nat.eqb orb]. set (p := S p'). set (n := S n').
      destruct (z =? 0)%nat eqn:Ez.
      * destruct (lt_eq_lt_dec p n) as [[Hlt|Heq]|Hgt].
        -- replace (p <? n)%nat with true by (symmetry; apply Nat.ltb_lt; exact Hlt).
           replace (n <? p)%nat with false by (symmetry; apply Nat.ltb_ge; lia).
           rewrite in_map_iff; intros [pos [<- Hpos]].
           eexists; (split; [apply in_map_iff; exists pos; split; [reflexivity | exact Hpos]|]).
           rewrite <- (delta_inv (_ ++ _)); norm_blk; reflexivity.
        -- rewrite Heq. rewrite Nat.ltb_irrefl. intros H. exists l. split; [exact H | reflexivity].
        -- replace (p <? n)%nat with false by (symmetry; apply Nat.ltb_ge; lia).
           replace (n <? p)%nat with true by (symmetry; apply Nat.ltb_lt; exact Hgt).
           rewrite in_map_iff; intros [pos [<- Hpos]].
           eexists; (split; [apply in_map_iff; exists pos; split; [reflexivity | exact Hpos]|]).
           rewrite <- (delta_inv (_ ++ _)); norm_blk; reflexivity.
      * destruct (18 <=? z)%nat eqn:E18.
        -- apply Nat.leb_le in E18. rewrite in_flat_map. intros [s [Hs Hl]].
           rewrite in_map_iff in Hl. destruct Hl as [e [<- He]].
           apply in_seq in Hs. apply in_seq in He.
           exists (blk 0 e ++ blk 1 p ++ blk 0 (z - e - s) ++ blk (-1) n ++ blk 0 s). split.
           ++ apply in_flat_map. exists e. split; [apply in_seq; lia|].
              apply in_map_iff. exists s. split; [reflexivity | apply in_seq; lia].
           ++ rewrite <- (delta_rev (blk 0 s ++ _)), <- (delta_inv (rev _)). norm_blk.
              replace (z - s - e)%nat with (z - e - s)%nat by lia. reflexivity.
        -- rewrite in_flat_map. intros [m [Hm Hl]].
           rewrite in_map_iff in Hl. destruct Hl as [s [<- Hs]].
           apply in_seq in Hm. apply in_seq in Hs.
           exists (blk 0 (z - s - m) ++ blk 1 p ++ blk 0 m ++ blk (-1) n ++ blk 0 (z - (z - s - m) - m)). split.
           ++ apply in_flat_map. exists m. split; [apply in_seq; lia|].
              apply in_map_iff. exists (z - s - m)%nat. split; [reflexivity | apply in_seq; lia].
           ++ rewrite <- (delta_rev (blk 0 s ++ _)), <- (delta_inv (rev _)). norm_blk.
              replace (z - (z - s - m) - m)%nat with s by lia. reflexivity.
Qed.

Theorem dmax_swap p n z : (dmax n p z == dmax p n z)%Q.
Proof.
  assert (Hle : forall a b, (dmax a b z <= dmax b a z)%Q).
  { intros a b. unfold dmax. rewrite (Nat.add_comm b a).
    destruct (a + b =? 0)%nat; [apply Qle_refl|].
    apply qmax_fold_le_of_cover. intros x Hx. apply in_map_iff in Hx. destruct Hx as [l [<- Hl]].
    destruct (cands_swap_cover b a z l Hl) as [l' [Hin Heq]].
    exists (delta l'). split; [apply in_map; exact Hin | rewrite Heq; apply Qle_refl]. }
  apply Qle_antisym; apply Hle.
Qed.

(* ---------- delta-max and kappa of a sequence ---------- *)
Lemma natcomp_rev l : natcomp (rev l) = natcomp l.
Proof. unfold natcomp, nneut. now rewrite npos_rev, nneg_rev, len_rev. Qed.

Lemma natcomp_opp l : natcomp (map Z.opp l) = (let '(p, n, z) := natcomp l in (n, p, z)).
Proof.
  unfold natcomp, nneut. rewrite npos_opp, nneg_opp, len_map.
  replace (len l - nneg l - npos l) with (len l - npos l - nneg l) by lia. reflexivity.
Qed.

Theorem dmax_rev l : dmax_of (rev l) = dmax_of l.
Proof. unfold dmax_of. now rewrite natcomp_rev. Qed.

Theorem dmax_inv l : (dmax_of (map Z.opp l) == dmax_of l)%Q.
Proof.
  unfold dmax_of. rewrite natcomp_opp. destruct (natcomp l) as [[p n] z]. apply dmax_swap.
Qed.

Lemma kappa_c_compat a b a' b' : (a == a')%Q -> (b == b')%Q -> (kappa_c a b == kappa_c a' b')%Q.
Proof.
  intros Ha Hb. unfold kappa_c. rewrite (Qeq_bool_compat _ _ Hb).
  destruct (Qeq_bool b' 0); [reflexivity|]. apply clamp_compat. rewrite Ha, Hb. reflexivity.
Qed.

Theorem kappa_rev l : (kappa (rev l) == kappa l)%Q.
Proof. unfold kappa. apply kappa_c_compat; [apply delta_rev | rewrite dmax_rev; reflexivity]. Qed.

Theorem kappa_inv l : (kappa (map Z.opp l) == kappa l)%Q.
Proof. unfold kappa. apply kappa_c_compat; [rewrite delta_inv; reflexivity | apply dmax_inv]. Qed.

(* residues of the same charge class are indistinguishable: everything factors through pat *)
Theorem respell_invariant (s t : list aa) : pat s = pat t ->
  delta (pat s) = delta (pat t) /\ dmax_of (pat s) = dmax_of (pat t) /\ kappa (pat s) = kappa (pat t).
Proof. intros ->. repeat split. Qed.

Lemma pat_rev s : pat (rev s) = rev (pat s).
Proof. unfold pat. now rewrite map_rev. Qed.
