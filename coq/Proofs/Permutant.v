(* Proofs/Permutant.v — the delta-max permutant is a rearrangement of the parent with the
   candidate's charge pattern (C03), and the search returns a maximiser from the family. *)
From Coq Require Import QArith Qabs Qreduction ZArith List Bool Lia Permutation.
From LC Require Import Core.Residue Core.Lists Core.QTools Spec.Delta Model.Delta Proofs.Delta Proofs.DeltaMax.
Import ListNotations.
Local Open Scope Z_scope.

Lemma cnt_filter {A} (f : A -> bool) l : cnt f l = Z.of_nat (length (filter f l)).
Proof. induction l as [|x l IH]; [reflexivity|]. cbn [cnt filter]. destruct (f x); cbn [length]; lia. Qed.

Definition trit (q : Z) : Prop := q = 1 \/ q = -1 \/ q = 0.

Definition iszerob (x : Z) : bool := x =? 0.
Definition nzero (l : list Z) : Z := cnt iszerob l.

Lemma trit_nneut l : Forall trit l -> nzero l = nneut l.
Proof.
  unfold nzero, nneut, npos, nneg, len. induction 1 as [|q l Hq _ IH]; [reflexivity|].
  cbn [cnt length]. unfold iszerob, isposb, isnegb in *.
  destruct Hq as [Hq|[Hq|Hq]]; subst q; cbn [Z.eqb Z.ltb Z.compare]; lia.
Qed.

Lemma refill_perm cand : forall ps ns zs,
  npos cand = len ps -> nneg cand = len ns -> nzero cand = len zs ->
  Forall trit cand ->
  Permutation (refill cand ps ns zs) (ps ++ ns ++ zs).
Proof.
  unfold npos, nneg, nzero, len.
  induction cand as [|q cand IH]; intros ps ns zs Hp Hn Hz Ht.
  - destruct ps; [|cbn [cnt length] in Hp; lia]. destruct ns; [|cbn [cnt length] in Hn; lia]. destruct zs; [|cbn [cnt length] in Hz; lia]. constructor.
  - inversion Ht as [|? ? Hq Ht']; subst. cbn [cnt] in Hp, Hn, Hz. cbn [refill].
    unfold isposb, isnegb, iszerob in *.
    destruct Hq as [Hq|[Hq|Hq]]; subst q; cbn [Z.ltb Z.eqb Z.compare] in *.
    + destruct ps as [|x ps]; [cbn [cnt length] in Hp; pose proof (cnt_nonneg (fun x => 0 <? x) cand); lia|].
      cbn [app]. constructor. apply IH; try assumption. cbn [length] in Hp. lia.
    + destruct ns as [|x ns]; [cbn [cnt length] in Hn; pose proof (cnt_nonneg (fun x => x <? 0) cand); lia|].
      eapply perm_trans; [|apply Permutation_middle]. constructor.
      apply IH; try assumption. cbn [length] in Hn. lia.
    + destruct zs as [|x zs]; [cbn [cnt length] in Hz; pose proof (cnt_nonneg (fun x => x =? 0) cand); lia|].
      rewrite app_assoc. eapply perm_trans; [|apply Permutation_middle]. rewrite <- app_assoc. constructor.
      apply IH; try assumption. cbn [length] in Hz. lia.
Qed.

Lemma refill_pat cand : forall ps ns zs,
  npos cand = len ps -> nneg cand = len ns -> nzero cand = len zs ->
  Forall trit cand ->
  Forall (fun a => chg a = 1) ps -> Forall (fun a => chg a = -1) ns -> Forall (fun a => chg a = 0) zs ->
  pat (refill cand ps ns zs) = cand.
Proof.
  unfold npos, nneg, nzero, len, pat.
  induction cand as [|q cand IH]; intros ps ns zs Hp Hn Hz Ht Fp Fn Fz; [reflexivity|].
  inversion Ht as [|? ? Hq Ht']; subst. cbn [cnt] in Hp, Hn, Hz. cbn [refill].
  unfold isposb, isnegb, iszerob in *.
  destruct Hq as [Hq|[Hq|Hq]]; subst q; cbn [Z.ltb Z.eqb Z.compare] in *.
  - destruct ps as [|x ps]; [cbn [cnt length] in Hp; pose proof (cnt_nonneg (fun x => 0 <? x) cand); lia|].
    inversion Fp; subst. cbn [map]. f_equal; [assumption|]. apply IH; try assumption. cbn [length] in Hp. lia.
  - destruct ns as [|x ns]; [cbn [cnt length] in Hn; pose proof (cnt_nonneg (fun x => x <? 0) cand); lia|].
    inversion Fn; subst. cbn [map]. f_equal; [assumption|]. apply IH; try assumption. cbn [length] in Hn. lia.
  - destruct zs as [|x zs]; [cbn [cnt length] in Hz; pose proof (cnt_nonneg (fun x => x =? 0) cand); lia|].
    inversion Fz; subst. cbn [map]. f_equal; [assumption|]. apply IH; try assumption. cbn [length] in Hz. lia.
Qed.

Lemma three_way_partition (s : list aa) :
  Permutation s (filter (fun a => 0 <? chg a) s ++ filter (fun a => chg a <? 0) s ++ filter (fun a => chg a =? 0) s).
Proof.
  induction s as [|a s IH]; [constructor|]. cbn [filter].
  destruct a; cbn [chg Z.ltb Z.eqb Z.compare app];
    first [ constructor; exact IH
          | eapply perm_trans; [|apply Permutation_middle]; constructor; exact IH
          | rewrite app_assoc; eapply perm_trans; [|apply Permutation_middle]; rewrite <- app_assoc; constructor; exact IH ].
Qed.

Lemma filter_chg_pos s : Forall (fun a => chg a = 1) (filter (fun a => 0 <? chg a) s).
Proof. apply Forall_forall. intros a Ha. apply filter_In in Ha. destruct Ha as [_ H]. destruct a; cbn in *; congruence. Qed.
Lemma filter_chg_neg s : Forall (fun a => chg a = -1) (filter (fun a => chg a <? 0) s).
Proof. apply Forall_forall. intros a Ha. apply filter_In in Ha. destruct Ha as [_ H]. destruct a; cbn in *; congruence. Qed.
Lemma filter_chg_zero s : Forall (fun a => chg a = 0) (filter (fun a => chg a =? 0) s).
Proof. apply Forall_forall. intros a Ha. apply filter_In in Ha. destruct Ha as [_ H]. destruct a; cbn in *; congruence. Qed.

Lemma pat_trit s : Forall trit (pat s).
Proof. unfold pat. apply Forall_forall. intros q Hq. apply in_map_iff in Hq. destruct Hq as [a [<- _]]. destruct a; cbn; unfold trit; auto. Qed.

Lemma pat_counts s :
  npos (pat s) = len (filter (fun a => 0 <? chg a) s) /\
  nneg (pat s) = len (filter (fun a => chg a <? 0) s) /\
  nzero (pat s) = len (filter (fun a => chg a =? 0) s).
Proof.
  unfold npos, nneg, nzero, pat, len. rewrite !cnt_map. rewrite <- !cnt_filter. repeat split.
Qed.

Theorem permutant_perm s cand : Forall trit cand -> comp cand = comp (pat s) ->
  Permutation (permutant s cand) s.
Proof.
  intros Ht Hc. unfold permutant.
  destruct (pat_counts s) as [Hp [Hn Hz]].
  unfold comp in Hc. injection Hc as H1 H2 H3.
  eapply perm_trans; [apply refill_perm | apply Permutation_sym; apply three_way_partition]; try assumption.
  - rewrite H1. exact Hp.
  - rewrite H2. exact Hn.
  - rewrite (trit_nneut _ Ht), H3, <- (trit_nneut _ (pat_trit s)). exact Hz.
Qed.

Theorem permutant_pat s cand : Forall trit cand -> comp cand = comp (pat s) ->
  pat (permutant s cand) = cand.
Proof.
  intros Ht Hc. unfold permutant.
  destruct (pat_counts s) as [Hp [Hn Hz]].
  unfold comp in Hc. injection Hc as H1 H2 H3.
  apply refill_pat; try assumption;
    [rewrite H1; exact Hp | rewrite H2; exact Hn
    | rewrite (trit_nneut _ Ht), H3, <- (trit_nneut _ (pat_trit s)); exact Hz
    | apply filter_chg_pos | apply filter_chg_neg | apply filter_chg_zero].
Qed.

(* candidates only contain 1, -1, 0 *)
Lemma trit_blk c k : trit c -> Forall trit (blk c k).
Proof. intros H. unfold blk. apply Forall_forall. intros x Hx. apply repeat_spec in Hx. subst. exact H. Qed.

Ltac trit_solve := repeat (apply Forall_app; split); apply trit_blk; unfold trit; auto.

Theorem cands_trit p n z l : In l (cands p n z) -> Forall trit l.
Proof.
  unfold cands.
  destruct (p + n =? 0)%nat; [intros []|].
  destruct ((p =? 0)%nat || (n =? 0)%nat).
  - destruct (p =? 0)%nat; destruct (_ <? z)%nat; rewrite in_map_iff; intros [pos [<- _]]; trit_solve.
  - destruct (z =? 0)%nat.
    + destruct (n <? p)%nat; rewrite in_map_iff; intros [pos [<- _]]; trit_solve.
    + destruct (18 <=? z)%nat; rewrite in_flat_map; intros [a [_ Hl]];
        rewrite in_map_iff in Hl; destruct Hl as [b [<- _]]; trit_solve.
Qed.

(* the search returns a member of the list together with its model delta *)
Lemma m_search_inv cs : forall acc,
  (snd acc = None \/ exists c, snd acc = Some c /\ fst acc = m_delta c) ->
  let r := fold_left (fun (acc : Q * option (list Z)) c =>
             let d := m_delta c in if Qlt_le_dec (fst acc) d then (d, Some c) else acc) cs acc in
  (snd r = None /\ r = acc) \/ (exists c, snd r = Some c /\ fst r = m_delta c /\ (In c cs \/ snd acc = Some c)).
Proof.
  induction cs as [|c cs IH]; intros acc Hacc; cbn zeta; cbn [fold_left].
  - destruct Hacc as [H|[c [H1 H2]]]; [left; split; [exact H | reflexivity]|].
    right. exists c. repeat split; try assumption. right. exact H1.
  - set (acc' := (let d := m_delta c in if Qlt_le_dec (fst acc) d then (d, Some c) else acc)).
    assert (Hacc' : snd acc' = None \/ exists c0, snd acc' = Some c0 /\ fst acc' = m_delta c0).
    { unfold acc'. cbn zeta. destruct (Qlt_le_dec (fst acc) (m_delta c)); [|exact Hacc].
      right. exists c. split; reflexivity. }
    specialize (IH acc' Hacc'). cbn zeta in IH. fold acc'.
    destruct IH as [[H1 H2]|[c0 [H1 [H2 H3]]]].
    + assert (Hs : snd acc' = None) by (rewrite <- H2; exact H1).
      unfold acc' in *. cbn zeta in *.
      destruct (Qlt_le_dec (fst acc) (m_delta c)); [discriminate Hs|].
      left. split; assumption.
    + right. exists c0. split; [exact H1|]. split; [exact H2|].
      destruct H3 as [H3|H3]; [left; right; exact H3|].
      unfold acc' in H3. cbn zeta in H3. destruct (Qlt_le_dec (fst acc) (m_delta c)).
      * cbn in H3. injection H3 as <-. left; left; reflexivity.
      * right. exact H3.
Qed.

Lemma natcomp_charged l p n z : natcomp l = (p, n, z) ->
  npos l = Z.of_nat p /\ nneg l = Z.of_nat n /\ nneut l = Z.of_nat z.
Proof.
  unfold natcomp. intros H. injection H as <- <- <-.
  pose proof (npos_nonneg l). pose proof (nneg_nonneg l). pose proof (nneut_nonneg l). lia.
Qed.

Lemma is_arr_comp p n z c l : natcomp l = (p, n, z) -> is_arr p n z c -> comp c = comp l.
Proof.
  intros Hl [H1 [H2 H3]]. destruct (natcomp_charged _ _ _ _ Hl) as [A [B C]].
  unfold comp, nneut, len. rewrite H1, H2, H3, A, B.
  f_equal. unfold nneut, len in C. lia.
Qed.

(* clause (ii) of C03: value and permutant returned together *)
Theorem deltaMax_with_seq s d c : m_dmax_arg (pat s) = (d, Some c) ->
  let t := permutant s c in
  Permutation t s /\ pat t = c /\ (delta (pat t) == d)%Q /\ (d == dmax_of (pat s))%Q.
Proof.
  intros H. cbn zeta.
  pose proof (m_dmax_spec (pat s)) as Hd. unfold m_dmax in Hd. rewrite H in Hd. cbn [fst] in Hd.
  unfold m_dmax_arg in H. destruct (natcomp (pat s)) as [[p n] z] eqn:Hc.
  destruct (p + n =? 0)%nat; [discriminate H|].
  unfold m_search in H.
  pose proof (m_search_inv (cands p n z) ((-1)%Q, None) (or_introl eq_refl)) as Hinv.
  cbn zeta in Hinv. rewrite H in Hinv. cbn [fst snd] in Hinv.
  destruct Hinv as [[Hx _]|[c0 [H1 [H2 H3]]]]; [discriminate Hx|].
  injection H1 as <-. destruct H3 as [Hin|Hx]; [|discriminate Hx].
  pose proof (cands_trit _ _ _ _ Hin) as Ht.
  pose proof (is_arr_comp _ _ _ _ _ Hc (cands_arrangement _ _ _ _ Hin)) as Hcomp.
  split; [apply permutant_perm; assumption|].
  split; [apply permutant_pat; assumption|].
  split; [|exact Hd].
  rewrite (permutant_pat s c Ht Hcomp). rewrite H2. symmetry. apply m_delta_spec.
Qed.

(* an uncharged pattern has delta 0: the (0, sequence itself) answer is attained *)
Lemma cnt_firstn_le {A} (f : A -> bool) k (l : list A) : cnt f (firstn k l) <= cnt f l.
Proof.
  revert k. induction l as [|x l IH]; intros [|k]; cbn [firstn cnt]; try lia.
  - pose proof (cnt_nonneg f l). destruct (f x); lia.
  - specialize (IH k). lia.
Qed.
Lemma cnt_skipn_le {A} (f : A -> bool) k (l : list A) : cnt f (skipn k l) <= cnt f l.
Proof.
  revert k. induction l as [|x l IH]; intros [|k]; cbn [skipn cnt]; try lia.
  specialize (IH k). destruct (f x); lia.
Qed.

Theorem delta_uncharged l : npos l + nneg l = 0 -> (delta l == 0)%Q.
Proof.
  intros H.
  assert (Hb : forall w b, In b (blobs w l) -> sigma b = 0%Q).
  { intros w b Hb. apply blobs_In in Hb. destruct Hb as [i [_ ->]]. apply sigma_uncharged.
    unfold blob, npos, nneg in *.
    pose proof (cnt_firstn_le isposb w (skipn i l)). pose proof (cnt_skipn_le isposb i l).
    pose proof (cnt_firstn_le isnegb w (skipn i l)). pose proof (cnt_skipn_le isnegb i l).
    pose proof (cnt_nonneg isposb (firstn w (skipn i l))). pose proof (cnt_nonneg isnegb (firstn w (skipn i l))).
    pose proof (cnt_nonneg isposb l). pose proof (cnt_nonneg isnegb l). lia. }
  assert (Hf : forall w, (deltaForm w l == 0)%Q).
  { intros w. unfold deltaForm. rewrite sumQ_map_zero; [unfold Qdiv; ring|].
    intros b Hin. rewrite (Hb w b Hin), (sigma_uncharged l H). reflexivity. }
  unfold delta. rewrite !Hf. reflexivity.
Qed.
