(* Proofs/Composition.v — identities and permutation invariance of composition parameters (C04). *)
From Coq Require Import QArith Qabs ZArith List Bool Lia Permutation.
From LC Require Import Core.Residue Core.Lists Core.QTools Spec.Delta Spec.Tables Model.Composition Proofs.Delta.
Import ListNotations.
Local Open Scope Q_scope.

Lemma sumQ_perm a b : Permutation a b -> sumQ a == sumQ b.
Proof. induction 1; cbn [sumQ]; try reflexivity; [rewrite IHPermutation; reflexivity | ring | etransitivity; eassumption]. Qed.

Theorem meanT_perm t s s' : Permutation s s' -> meanT t s == meanT t s'.
Proof.
  intros H. unfold meanT, lenQ. rewrite (Permutation_length H).
  rewrite (sumQ_perm _ _ (Permutation_map t H)). reflexivity.
Qed.

Theorem molw_perm s s' : Permutation s s' -> molw s == molw s'.
Proof.
  intros H. unfold molw, lenQ. rewrite (Permutation_length H), (sumQ_perm _ _ (Permutation_map mw H)). reflexivity.
Qed.

Lemma sumQ_map_plus {A} (f g : A -> Q) l : sumQ (map (fun a => f a + g a) l) == sumQ (map f l) + sumQ (map g l).
Proof. induction l as [|x l IH]; cbn [map sumQ]; [ring | rewrite IH; ring]. Qed.

Lemma sumQ_map_scale {A} (f : A -> Q) c l : sumQ (map (fun a => c * f a) l) == c * sumQ (map f l).
Proof. induction l as [|x l IH]; cbn [map sumQ]; [ring | rewrite IH; ring]. Qed.

Lemma meanT_plus f g s : meanT (fun a => f a + g a) s == meanT f s + meanT g s.
Proof. unfold meanT. rewrite sumQ_map_plus. unfold Qdiv. ring. Qed.

Lemma meanT_ext f g s : (forall a, f a == g a) -> meanT f s == meanT g s.
Proof. intros H. unfold meanT. rewrite (sumQ_map_ext f g s); [reflexivity | intros; apply H]. Qed.

Lemma meanT_scale f c s : meanT (fun a => c * f a) s == c * meanT f s.
Proof. unfold meanT. rewrite sumQ_map_scale. unfold Qdiv. ring. Qed.

Lemma lenQ_pos s : s <> [] -> 0 < lenQ s.
Proof. intros H. unfold lenQ. destruct s; [congruence|]. unfold Qlt. cbn. lia. Qed.

Lemma sumQ_map_le {A} (f g : A -> Q) l : (forall a, f a <= g a) -> sumQ (map f l) <= sumQ (map g l).
Proof. intros H. induction l as [|x l IH]; cbn [map sumQ]; [apply Qle_refl | apply Qplus_le_compat; [apply H | exact IH]]. Qed.

Lemma meanT_le f g s : (forall a, f a <= g a) -> meanT f s <= meanT g s.
Proof.
  intros H. unfold meanT. unfold Qdiv. apply Qmult_le_compat_r; [apply sumQ_map_le; exact H|].
  apply Qinv_le_0_compat. unfold lenQ, Qle. cbn. lia.
Qed.

Lemma meanT_const c s : s <> [] -> meanT (fun _ => c) s == c.
Proof.
  intros H. unfold meanT.
  assert (Hs : sumQ (map (fun _ : aa => c) s) == c * lenQ s).
  { unfold lenQ. induction s as [|x s IH]; [congruence|]. destruct s as [|y s'].
    - cbn. ring.
    - cbn [map sumQ]. rewrite IH by congruence. cbn [List.length]. rewrite !Nat2Z.inj_succ.
      unfold Z.succ. rewrite !inject_Z_plus. ring. }
  rewrite Hs. field. intros E. pose proof (lenQ_pos s H) as P. rewrite E in P. discriminate P.
Qed.

(* ---- the identities of the statement ---- *)
Theorem FCR_eq s : FCR s == fpos s + fneg s.
Proof.
  unfold FCR, fpos, fneg. rewrite <- meanT_plus. apply meanT_ext. intros a. destruct a; reflexivity.
Qed.

Theorem NCPR_eq s : NCPR s == fpos s - fneg s.
Proof.
  unfold NCPR, fpos, fneg.
  setoid_replace (meanT (fun a => ind (isposb (chg a))) s - meanT (fun a => ind (isnegb (chg a))) s)
    with (meanT (fun a => ind (isposb (chg a))) s + meanT (fun a => (-1) * ind (isnegb (chg a))) s)
    by (rewrite meanT_scale; ring).
  rewrite <- meanT_plus. apply meanT_ext. intros a. destruct a; reflexivity.
Qed.

Theorem abs_NCPR_le_FCR s : Qabs (NCPR s) <= FCR s.
Proof.
  apply Qabs_Qle_condition. split.
  - setoid_replace (- FCR s) with (meanT (fun a => (-1) * ind (isposb (chg a) || isnegb (chg a))) s)
      by (rewrite meanT_scale; unfold FCR; ring).
    apply meanT_le. intros a. destruct a; cbn; discriminate.
  - apply meanT_le. intros a. destruct a; cbn; discriminate.
Qed.

Theorem FCR_le_1 s : s <> [] -> FCR s <= 1.
Proof.
  intros H. rewrite <- (meanT_const 1 s H). apply meanT_le. intros a. destruct a; cbn; discriminate.
Qed.

Theorem FCR_nonneg s : 0 <= FCR s.
Proof.
  unfold FCR, meanT, Qdiv. apply Qmult_le_0_compat.
  - apply sumQ_nonneg. intros x Hx. apply in_map_iff in Hx. destruct Hx as [a [<- _]]. destruct a; cbn; discriminate.
  - apply Qinv_le_0_compat. unfold lenQ, Qle. cbn. lia.
Qed.

Theorem counts_sum s : (countPos s + countNeg s + countNeut s = Z.of_nat (List.length s))%Z.
Proof. unfold countPos, countNeg, countNeut, nneut, len, pat. rewrite map_length. lia. Qed.

Lemma sum_ind_cnt (f : aa -> bool) s : sumQ (map (fun a => ind (f a)) s) == inject_Z (cnt f s).
Proof.
  induction s as [|x s IH]; [reflexivity|]. cbn [map sumQ cnt]. rewrite IH, inject_Z_plus.
  destruct (f x); reflexivity.
Qed.

Theorem fpos_is_count s : fpos s == inject_Z (countPos s) / lenQ s.
Proof.
  unfold fpos, meanT, countPos, npos, pat. rewrite cnt_map, sum_ind_cnt. reflexivity.
Qed.
Theorem fneg_is_count s : fneg s == inject_Z (countNeg s) / lenQ s.
Proof.
  unfold fneg, meanT, countNeg, nneg, pat. rewrite cnt_map, sum_ind_cnt. reflexivity.
Qed.

Lemma sum_swap (f : aa -> aa -> Q) rs s :
  sumQ (map (fun r => meanT (f r) s) rs) == meanT (fun a => sumQ (map (fun r => f r a) rs)) s.
Proof.
  induction rs as [|r rs IH]; cbn [map sumQ].
  - unfold meanT. rewrite sumQ_map_zero; [unfold Qdiv; ring | reflexivity].
  - rewrite IH, <- meanT_plus. reflexivity.
Qed.

Theorem fractions_sum_1 s : s <> [] -> sumQ (map (fun r => aafrac r s) all20) == 1.
Proof.
  intros H. unfold aafrac. rewrite (sum_swap (fun r a => ind (aa_eqb a r)) all20 s).
  rewrite <- (meanT_const 1 s H). apply meanT_ext. intros a. destruct a; reflexivity.
Qed.

Theorem uversky_eq s : uversky s == meanKD s / 9.
Proof.
  unfold uversky, meanKD, kd_uversky.
  setoid_replace (meanT kd_shifted s / 9) with ((1 # 9) * meanT kd_shifted s) by field.
  rewrite <- meanT_scale. apply meanT_ext. intros a. field.
Qed.

Theorem FER_eq s : FER s == FCR s + aafrac Pro s.
Proof.
  unfold FER, FCR, aafrac. rewrite <- meanT_plus. apply meanT_ext. intros a. destruct a; reflexivity.
Qed.

(* Kyte-Doolittle shifted to 0..9 *)
Theorem kd_shifted_range a : 0 <= kd_shifted a <= 9.
Proof. destruct a; vm_compute; split; discriminate. Qed.
