(* Proofs/RegionFloat.v — the binary64 cascade agrees with the exact thresholds, including at the
   boundaries, for EVERY composition with N <= 200 (1 373 701 triples, kernel evaluation, ~25 s).
   The bound is part of the statement. *)
From Coq Require Import ZArith List Bool Lia.
From LC Require Import Core.QTools Spec.Region Model.Region.
Import ListNotations.
Local Open Scope Z_scope.

Definition float_ok_N (N : Z) : bool :=
  forallb (fun p => forallb (fun n => Z.eqb (regionF_counts p n N) (regionZ p n N)) (zrange 0 (N - p))) (zrange 0 N).

Lemma cascadeF_eq_spec_b : forallb float_ok_N (zrange 1 200) = true.
Proof. vm_compute. reflexivity. Qed.

Lemma zrange_In lo hi x : lo <= x <= hi -> In x (zrange lo hi).
Proof.
  intros H. unfold zrange. apply in_map_iff. exists (Z.to_nat (x - lo)). split; [lia|].
  apply in_seq. lia.
Qed.

Theorem cascadeF_eq_spec_upto_200 p n N : 0 < N <= 200 -> 0 <= p -> 0 <= n -> p + n <= N ->
  regionF_counts p n N = regionZ p n N.
Proof.
  intros HN Hp Hn Hs. pose proof cascadeF_eq_spec_b as H. rewrite forallb_forall in H.
  specialize (H N (zrange_In 1 200 N ltac:(lia))). unfold float_ok_N in H.
  rewrite forallb_forall in H. specialize (H p (zrange_In 0 N p ltac:(lia))).
  rewrite forallb_forall in H. specialize (H n (zrange_In 0 (N - p) n ltac:(lia))).
  apply Z.eqb_eq. exact H.
Qed.
