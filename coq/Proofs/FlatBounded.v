(* Proofs/FlatBounded.v — bounded half of C01 clause (iv), by kernel evaluation over every
   composition with N <= 16 (969 compositions; about 13 s). *)
From Coq Require Import QArith Qabs Qreduction ZArith List Bool Lia.
From LC Require Import Core.Residue Core.Lists Core.QTools Spec.Delta Model.Delta
     Proofs.Delta Proofs.DeltaMax Proofs.Permutant Proofs.Flat.
Import ListNotations.

Lemma dmax0_flat_model_upto_16 :
  forallb (fun c => let '(p, n, z) := c in implb (Qeq_bool (m_dmax_c p n z) 0) (flat_b p n z)) (all_comps 16) = true.
Proof. vm_compute. reflexivity. Qed.

Lemma dmax0_flat_upto_16 :
  forallb (fun c => let '(p, n, z) := c in implb (Qeq_bool (dmax p n z) 0) (flat_b p n z)) (all_comps 16) = true.
Proof.
  pose proof dmax0_flat_model_upto_16 as H. rewrite forallb_forall in *.
  intros [[p n] z] Hin. specialize (H _ Hin). cbn beta iota in *.
  rewrite <- (Qeq_bool_compat _ _ (m_dmax_c_spec p n z)). exact H.
Qed.

