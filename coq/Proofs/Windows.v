(* Proofs/Windows.v — placement, length, flanks and full-window identities of the profiles (C10). *)
From Coq Require Import QArith Qabs ZArith List Bool Lia Arith.
From LC Require Import Core.Residue Core.Lists Core.QTools Spec.Delta Spec.Tables Model.Composition
     Model.Windows Proofs.Delta Proofs.Composition.
Import ListNotations.

Theorem flank_spec w N : (1 <= w <= N)%nat -> flanks w N = (((w - 1) / 2)%nat, (w / 2)%nat).
Proof.
  intros H. unfold flanks.
  pose proof (Nat.div_mod w 2 ltac:(lia)) as Hw. pose proof (Nat.mod_upper_bound w 2 ltac:(lia)) as Hm.
  pose proof (Nat.div_mod (w - 1) 2 ltac:(lia)) as Hw1. pose proof (Nat.mod_upper_bound (w - 1) 2 ltac:(lia)) as Hm1.
  destruct (2 * (w / 2) + (N + 1 - w) =? N)%nat eqn:E.
  - apply Nat.eqb_eq in E. f_equal. lia.
  - apply Nat.eqb_neq in E. f_equal. lia.
Qed.

Lemma half_sum_gen w : (1 <= w)%nat -> ((w - 1) / 2 + w / 2 = w - 1)%nat.
Proof.
  intros Hw.
  pose proof (Nat.div_mod w 2 ltac:(lia)). pose proof (Nat.mod_upper_bound w 2 ltac:(lia)).
  pose proof (Nat.div_mod (w - 1) 2 ltac:(lia)). pose proof (Nat.mod_upper_bound (w - 1) 2 ltac:(lia)).
  lia.
Qed.

Section Profile.
  Context {A : Type} (stat : list A -> Q) (w : nat) (l : list A).
  Hypothesis Hw : (1 <= w <= length l)%nat.

  Lemma profile_some :
    profile stat w l = Some (repeat 0%Q ((w - 1) / 2) ++ map stat (blobs w l) ++ repeat 0%Q (w / 2)).
  Proof.
    unfold profile. replace (length l <? w)%nat with false by (symmetry; apply Nat.ltb_ge; lia).
    replace (w =? 0)%nat with false by (symmetry; apply Nat.eqb_neq; lia). cbn [orb].
    rewrite flank_spec by exact Hw. reflexivity.
  Qed.

  Theorem profile_length r : profile stat w l = Some r -> length r = length l.
  Proof.
    rewrite profile_some. intros H. assert (Hr : r = repeat 0%Q ((w - 1) / 2) ++ map stat (blobs w l) ++ repeat 0%Q (w / 2)) by congruence.
    subst r. clear H.
    rewrite !app_length, !repeat_length, map_length, blobs_length. pose proof (half_sum_gen w ltac:(lia)). lia.
  Qed.

  (* the statistic of the window starting at residue i (0-based) sits at index i + floor((w-1)/2) *)
  Theorem profile_nth r i : profile stat w l = Some r -> (i < length l + 1 - w)%nat ->
    nth (i + (w - 1) / 2) r 0%Q = stat (blob w i l).
  Proof.
    rewrite profile_some. intros H Hi. assert (Hr : r = repeat 0%Q ((w - 1) / 2) ++ map stat (blobs w l) ++ repeat 0%Q (w / 2)) by congruence.
    subst r. clear H.
    rewrite app_nth2 by (rewrite repeat_length; lia). rewrite repeat_length.
    replace (i + (w - 1) / 2 - (w - 1) / 2)%nat with i by lia.
    rewrite app_nth1 by (rewrite map_length, blobs_length; lia).
    rewrite (nth_indep _ 0%Q (stat [])) by (rewrite map_length, blobs_length; lia).
    rewrite map_nth. f_equal. apply blobs_nth. exact Hi.
  Qed.

  Theorem profile_leading_zero r j : profile stat w l = Some r -> (j < (w - 1) / 2)%nat -> nth j r 0%Q = 0%Q.
  Proof.
    rewrite profile_some. intros H Hj. assert (Hr : r = repeat 0%Q ((w - 1) / 2) ++ map stat (blobs w l) ++ repeat 0%Q (w / 2)) by congruence.
    subst r. clear H.
    rewrite app_nth1 by (rewrite repeat_length; lia). apply nth_repeat.
  Qed.

  Theorem profile_trailing_zero r j : profile stat w l = Some r -> (length l - w / 2 <= j)%nat -> nth j r 0%Q = 0%Q.
  Proof.
    rewrite profile_some. intros H Hj. assert (Hr : r = repeat 0%Q ((w - 1) / 2) ++ map stat (blobs w l) ++ repeat 0%Q (w / 2)) by congruence.
    subst r. clear H. pose proof (half_sum_gen w ltac:(lia)).
    rewrite app_nth2 by (rewrite repeat_length; lia). rewrite repeat_length.
    rewrite app_nth2 by (rewrite map_length, blobs_length; lia). rewrite map_length, blobs_length.
    destruct (le_lt_dec (w / 2) (j - (w - 1) / 2 - (length l + 1 - w))) as [Hge|Hlt].
    - apply nth_overflow. rewrite repeat_length. exact Hge.
    - apply nth_repeat.
  Qed.
End Profile.

Theorem profile_rejects {A} (stat : list A -> Q) w (l : list A) : (length l < w)%nat -> profile stat w l = None.
Proof. intros H. unfold profile. replace (length l <? w)%nat with true by (symmetry; apply Nat.ltb_lt; exact H). reflexivity. Qed.

(* w = N: exactly one value, the statistic of the whole sequence *)
Theorem profile_full_window {A} (stat : list A -> Q) (l : list A) : l <> [] ->
  profile stat (length l) l =
  Some (repeat 0%Q ((length l - 1) / 2) ++ [stat l] ++ repeat 0%Q (length l / 2)).
Proof.
  intros Hne. assert (1 <= length l)%nat by (destruct l; [congruence | cbn [length]; lia]).
  rewrite profile_some by lia. unfold blobs. replace (length l + 1 - length l)%nat with 1%nat by lia.
  cbn [seq map]. unfold blob. cbn [skipn]. rewrite firstn_all. reflexivity.
Qed.

(* ... and that value is the whole-sequence parameter *)
Lemma sum_chg s : sumQ (map (fun a => inject_Z (chg a)) s) == inject_Z (npos (pat s) - nneg (pat s)).
Proof.
  unfold npos, nneg, pat. rewrite !cnt_map.
  induction s as [|a s IH]; [reflexivity|]. cbn [map sumQ cnt]. rewrite IH.
  unfold Zminus. rewrite !inject_Z_plus, !inject_Z_opp, !inject_Z_plus.
  destruct a; cbn; ring.
Qed.

Theorem full_window_NCPR s : ncpr_w (length s) (pat s) == NCPR s.
Proof. unfold ncpr_w, NCPR, meanT, wQ, lenQ. rewrite sum_chg. reflexivity. Qed.

Lemma sum_charged s :
  sumQ (map (fun a => ind (isposb (chg a) || isnegb (chg a))) s) == inject_Z (npos (pat s) + nneg (pat s)).
Proof.
  unfold npos, nneg, pat. rewrite !cnt_map.
  induction s as [|a s IH]; [reflexivity|]. cbn [map sumQ cnt]. rewrite IH.
  rewrite !inject_Z_plus. destruct a; cbn; ring.
Qed.

Theorem full_window_FCR s : fcr_w (length s) (pat s) == FCR s.
Proof. unfold fcr_w, FCR, meanT, wQ, lenQ. rewrite sum_charged. reflexivity. Qed.

Theorem full_window_sigma s : sigma_w (length s) (pat s) = sigma (pat s).
Proof. unfold sigma_w, sigma, len, pat. now rewrite map_length. Qed.

Theorem full_window_hydropathy s : hydro_w (length s) s = uversky s.
Proof. reflexivity. Qed.

Theorem full_window_density g s : density_w g (length s) s = meanT (fun a => ind (mem_aa a g)) s.
Proof. reflexivity. Qed.

(* a window's sigma statistic is the sigma of that blob *)
Lemma sigma_w_blob w b : length b = w -> sigma_w w b = sigma b.
Proof. intros H. unfold sigma_w, sigma, len. now rewrite H. Qed.

(* delta is the mean squared deviation of the (non-flank part of the) w = 5, 6 sigma profiles *)
Theorem deltaForm_from_sigma_profile w l :
  (deltaForm w l == sumQ (map (fun v => sqQ (sigma l - v)) (map (sigma_w w) (blobs w l)))
                    / inject_Z (len (blobs w l)))%Q.
Proof.
  unfold deltaForm. rewrite map_map.
  apply Qmult_comp; [|reflexivity]. apply sumQ_map_ext. intros b Hb.
  apply blobs_In in Hb. destruct Hb as [i [Hi ->]].
  rewrite sigma_w_blob by (apply blob_length; exact Hi). reflexivity.
Qed.
