(* Proofs/Normalise.v — C13: acceptance is exactly "non-empty word over the 20 letters after
   upper-casing and deleting whitespace"; the stored word is that normalised word. *)
From Coq Require Import NArith List Bool Lia.
From LC Require Import Core.Residue Model.Normalise.
Import ListNotations.
Local Open Scope N_scope.

Lemma aa_of_code_code a : aa_of_code (code a) = Some a.
Proof. destruct a; reflexivity. Qed.

Lemma aa_of_code_some c a : aa_of_code c = Some a -> code a = c.
Proof. unfold aa_of_code. intros H. apply find_some in H. destruct H as [_ H]. now apply N.eqb_eq in H. Qed.

Section Norm.
  Variable upper : N -> list N.
  Variable isspace : N -> bool.

  Definition is_aa_b (c : N) : bool := match aa_of_code c with Some _ => true | None => false end.

  (* the characterisation of validate *)
  Lemma validate_some cs w : validate isspace cs = Some w ->
    map code w = filter is_aa_b cs /\ Forall (fun c => is_aa_b c = true \/ isspace c = true) cs.
  Proof.
    revert w. induction cs as [|c cs IH]; intros w H; cbn [validate] in H.
    - injection H as <-. split; [reflexivity | constructor].
    - cbn [filter]. unfold is_aa_b at 1. destruct (aa_of_code c) as [a|] eqn:E.
      + destruct (validate isspace cs) as [w'|]; [|discriminate]. injection H as <-.
        destruct (IH w' eq_refl) as [H1 H2]. split.
        * cbn [map]. rewrite H1, (aa_of_code_some c a E). reflexivity.
        * constructor; [left; unfold is_aa_b; now rewrite E | exact H2].
      + destruct (isspace c) eqn:S; [|discriminate].
        destruct (IH w H) as [H1 H2]. split; [exact H1|].
        constructor; [right; exact S | exact H2].
  Qed.

  Lemma validate_complete cs : Forall (fun c => is_aa_b c = true \/ isspace c = true) cs ->
    exists w, validate isspace cs = Some w.
  Proof.
    induction 1 as [|c cs Hc _ [w IH]]; [exists []; reflexivity|].
    cbn [validate]. unfold is_aa_b in Hc. destruct (aa_of_code c) as [a|].
    - rewrite IH. eexists. reflexivity.
    - destruct Hc as [Hc|Hc]; [discriminate|]. rewrite Hc, IH. eexists. reflexivity.
  Qed.

  Lemma validate_none cs : validate isspace cs = None ->
    exists c, In c cs /\ is_aa_b c = false /\ isspace c = false.
  Proof.
    induction cs as [|c cs IH]; cbn [validate]; [discriminate|]. intros H.
    destruct (aa_of_code c) as [a|] eqn:E.
    - destruct (validate isspace cs); [discriminate|]. destruct (IH eq_refl) as [c' [H1 H2]]. exists c'. split; [right; exact H1 | exact H2].
    - destruct (isspace c) eqn:S.
      + destruct (IH H) as [c' [H1 H2]]. exists c'. split; [right; exact H1 | exact H2].
      + exists c. split; [left; reflexivity|]. split; [unfold is_aa_b; now rewrite E | exact S].
  Qed.

  (* accepted exactly when the upper-cased text, whitespace deleted, is a non-empty word over the 20 letters;
     the object's sequence is then that word *)
  Theorem accept_iff s w :
    normalise upper isspace s = Some w <->
    (w <> [] /\ map code w = filter is_aa_b (flat_map upper s) /\
     Forall (fun c => is_aa_b c = true \/ isspace c = true) (flat_map upper s)).
  Proof.
    unfold normalise. destruct s as [|c0 s0].
    - split; [discriminate|]. intros [Hne [Hm _]]. cbn in Hm. destruct w; [congruence | discriminate].
    - set (up := flat_map upper (c0 :: s0)). split.
      + intros H. destruct (validate isspace up) as [[|a w']|] eqn:E; try discriminate.
        injection H as <-. destruct (validate_some up (a :: w') E) as [H1 H2].
        split; [discriminate | split; assumption].
      + intros [Hne [Hm Hall]]. destruct (validate_complete up Hall) as [w' Hw'].
        destruct (validate_some up w' Hw') as [H1 _].
        assert (w' = w).
        { assert (Hinj : forall a b : list aa, map code a = map code b -> a = b).
          { induction a as [|x a IHa]; intros [|y b] Hab; try discriminate; [reflexivity|].
            cbn [map] in Hab. injection Hab as Hx Hab. f_equal; [|apply IHa; exact Hab].
            pose proof (aa_of_code_code x) as Ex. rewrite Hx, aa_of_code_code in Ex. congruence. }
          apply Hinj. congruence. }
        subst w'. rewrite Hw'. destruct w; [congruence | reflexivity].
  Qed.

  Theorem reject_reasons s : normalise upper isspace s = None ->
    s = [] \/ (exists c, In c (flat_map upper s) /\ is_aa_b c = false /\ isspace c = false) \/
    filter is_aa_b (flat_map upper s) = [].
  Proof.
    unfold normalise. destruct s as [|c0 s0]; [left; reflexivity|]. intros H. right.
    destruct (validate isspace (flat_map upper (c0 :: s0))) as [[|a w]|] eqn:E; [|discriminate H|].
    - right. destruct (validate_some _ _ E) as [H1 _]. now rewrite <- H1.
    - left. apply validate_none. exact E.
  Qed.

  (* a normalised word is accepted unchanged (upper-case residue letters are fixed by upper, and are not spaces) *)
  Hypothesis upper_fixes_residues : forall a, upper (code a) = [code a].

  Lemma validate_word w : validate isspace (map code w) = Some w.
  Proof. induction w as [|a w IH]; [reflexivity|]. cbn [map validate]. now rewrite aa_of_code_code, IH. Qed.

  Lemma flat_map_word w : flat_map upper (map code w) = map code w.
  Proof. induction w as [|a w IH]; [reflexivity|]. cbn [map flat_map]. now rewrite upper_fixes_residues, IH. Qed.

  Theorem normalise_idempotent s w : normalise upper isspace s = Some w ->
    normalise upper isspace (map code w) = Some w.
  Proof.
    intros H. apply accept_iff in H. destruct H as [Hne _].
    unfold normalise. destruct w as [|a w]; [congruence|].
    change (map code (a :: w)) with (code a :: map code w) at 1.
    cbv iota. rewrite flat_map_word, validate_word. reflexivity.
  Qed.
End Norm.

(* ASCII corollaries *)
Theorem ascii_upper_fixes_residues a : upper_ascii_N (code a) = [code a].
Proof. destruct a; reflexivity. Qed.

Theorem ascii_lowercase_accepted a : upper_ascii_N (code a + 32) = [code a].
Proof. destruct a; reflexivity. Qed.

Theorem ascii_non_letters_rejected c : c < 128 -> is_aa_b (match upper_ascii_N c with [u] => u | _ => c end) = false ->
  isspace_ascii_N c = false -> forall pre post,
  normalise upper_ascii_N isspace_ascii_N (pre ++ c :: post) = None.
Proof.
  intros Hc Haa Hsp pre post. destruct (normalise upper_ascii_N isspace_ascii_N (pre ++ c :: post)) as [w|] eqn:E; [|reflexivity].
  exfalso. apply accept_iff in E. destruct E as [_ [_ Hall]].
  rewrite flat_map_app in Hall. apply Forall_app in Hall. destruct Hall as [_ Hall].
  cbn [flat_map] in Hall. unfold upper_ascii_N at 1 in Hall. cbn [app] in Hall.
  inversion Hall as [|x l Hx _]; subst. unfold upper_ascii_N in Haa.
  assert (Hs : isspace_ascii_N (if (97 <=? c) && (c <=? 122) then c - 32 else c) = false).
  { destruct ((97 <=? c) && (c <=? 122)) eqn:B; [|exact Hsp].
    apply andb_prop in B. destruct B as [B1 B2]. apply N.leb_le in B1. apply N.leb_le in B2.
    unfold isspace_ascii_N. 
    replace (9 <=? c - 32) with true by (symmetry; apply N.leb_le; lia).
    replace (c - 32 <=? 13) with false by (symmetry; apply N.leb_gt; lia).
    replace (28 <=? c - 32) with true by (symmetry; apply N.leb_le; lia).
    replace (c - 32 <=? 32) with false by (symmetry; apply N.leb_gt; lia). reflexivity. }
  destruct Hx as [Hx|Hx]; congruence.
Qed.
