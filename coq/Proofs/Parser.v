(* Proofs/Parser.v — C14: files in any of the described layouts parse to exactly their residues;
   second headers, bad characters and misplaced '*' are rejected. *)
From Coq Require Import List Bool String Ascii Arith Lia.
From LC Require Import Core.Residue Model.Parser.
Import ListNotations.

(* ---------- character classes ---------- *)
Definition okc (c : ascii) : bool :=
  match aa_of_char c with Some _ => true | None => Ascii.eqb c " " || is_digit c end.
Definition okstar (c : ascii) : bool := okc c || Ascii.eqb c "*".

(* tokens a sequence line contributes: residues and stars, in order *)
Fixpoint toks (cs : list ascii) : list (option aa) :=
  match cs with
  | [] => []
  | c :: r => match aa_of_char c with
              | Some a => Some a :: toks r
              | None => if Ascii.eqb c "*" then None :: toks r else toks r
              end
  end.

Ltac all_ascii c := destruct c as [[] [] [] [] [] [] [] []].

Lemma ws_not_tok c : is_ws c = true -> aa_of_char c = None /\ Ascii.eqb c "*" = false /\ Ascii.eqb c ">" = false.
Proof. all_ascii c; vm_compute; intros H; try discriminate H; repeat split. Qed.

Lemma okstar_not_gt c : okstar c = true -> Ascii.eqb c ">" = false /\ Ascii.eqb c nl = false /\ Ascii.eqb c cr = false.
Proof. all_ascii c; vm_compute; intros H; try discriminate H; repeat split. Qed.

Lemma valid_seq_ok cs : forallb okstar cs = true -> valid_seq cs = Some (toks cs).
Proof.
  induction cs as [|c cs IH]; intros H; [reflexivity|].
  cbn [forallb] in H. apply andb_prop in H. destruct H as [Hc Hcs]. cbn [valid_seq toks]. rewrite (IH Hcs).
  unfold okstar, okc in Hc. destruct (aa_of_char c) as [a|]; [reflexivity|].
  destruct (Ascii.eqb c " ") eqn:E1.
  - apply Ascii.eqb_eq in E1. subst c. reflexivity.
  - destruct (Ascii.eqb c "*"); [reflexivity|]. cbn [orb] in Hc. rewrite orb_false_r in Hc. rewrite Hc. reflexivity.
Qed.

Lemma valid_seq_bad cs c : In c cs -> okstar c = false -> valid_seq cs = None.
Proof.
  induction cs as [|x cs IH]; intros Hin Hc; [destruct Hin|]. cbn [valid_seq].
  destruct Hin as [->|Hin].
  - unfold okstar, okc in Hc. destruct (aa_of_char c); [discriminate|].
    apply orb_false_elim in Hc. destruct Hc as [Hc1 Hc2]. apply orb_false_elim in Hc1. destruct Hc1 as [H1 H2].
    now rewrite H1, Hc2, H2.
  - rewrite (IH Hin Hc). destruct (aa_of_char x); [reflexivity|].
    destruct (Ascii.eqb x " "); [reflexivity|]. destruct (Ascii.eqb x "*"); [reflexivity|]. destruct (is_digit x); reflexivity.
Qed.

Lemma toks_app a b : toks (a ++ b) = toks a ++ toks b.
Proof.
  induction a as [|c a IH]; [reflexivity|]. cbn [app toks]. rewrite IH.
  destruct (aa_of_char c); [reflexivity|]. destruct (Ascii.eqb c "*"); reflexivity.
Qed.

Lemma toks_ws p : forallb is_ws p = true -> toks p = [].
Proof.
  induction p as [|c p IH]; intros H; [reflexivity|]. cbn [forallb] in H. apply andb_prop in H. destruct H as [Hc Hp].
  cbn [toks]. destruct (ws_not_tok c Hc) as [-> [-> _]]. apply IH. exact Hp.
Qed.

Lemma toks_rev a : toks (rev a) = rev (toks a).
Proof.
  induction a as [|c a IH]; [reflexivity|]. cbn [rev]. rewrite toks_app, IH. cbn [toks].
  destruct (aa_of_char c); [reflexivity|]. destruct (Ascii.eqb c "*"); cbn [rev app]; now rewrite ?app_nil_r.
Qed.

(* ---------- strip ---------- *)
Lemma dropws_split x : exists p, x = p ++ dropws x /\ forallb is_ws p = true.
Proof.
  induction x as [|c x [p [Hx Hp]]]; [exists []; split; reflexivity|]. cbn [dropws].
  destruct (is_ws c) eqn:E.
  - exists (c :: p). cbn [app forallb]. rewrite E, Hp. split; [now f_equal | reflexivity].
  - exists []. split; reflexivity.
Qed.

Lemma dropws_allws p x : forallb is_ws p = true -> dropws (p ++ x) = dropws x.
Proof.
  induction p as [|c p IH]; intros H; [reflexivity|]. cbn [forallb] in H. apply andb_prop in H. destruct H as [Hc Hp].
  cbn [app dropws]. rewrite Hc. apply IH. exact Hp.
Qed.

Lemma strip_split l : exists p q, l = p ++ strip l ++ q /\ forallb is_ws p = true /\ forallb is_ws q = true.
Proof.
  destruct (dropws_split l) as [p [Hl Hp]]. destruct (dropws_split (rev (dropws l))) as [q [Hr Hq]].
  exists p, (rev q). unfold strip. split; [|split; [exact Hp|]].
  - rewrite Hl at 1. f_equal. rewrite <- rev_app_distr, <- Hr, rev_involutive. reflexivity.
  - rewrite forallb_forall in *. intros c Hc. apply Hq. apply in_rev. exact Hc.
Qed.

Lemma strip_allws l : forallb is_ws l = true -> strip l = [].
Proof.
  intros H. unfold strip. rewrite <- (app_nil_r l) at 1. rewrite dropws_allws by exact H. reflexivity.
Qed.

Lemma toks_strip l : toks (strip l) = toks l.
Proof.
  destruct (strip_split l) as [p [q [Hl [Hp Hq]]]]. rewrite Hl at 2.
  rewrite !toks_app, (toks_ws p Hp), (toks_ws q Hq), app_nil_r. reflexivity.
Qed.

Lemma forallb_strip (P : ascii -> bool) l : forallb P l = true -> forallb P (strip l) = true.
Proof.
  intros H. destruct (strip_split l) as [p [q [Hl _]]]. rewrite Hl in H.
  rewrite !forallb_app in H. apply andb_prop in H. destruct H as [_ H]. apply andb_prop in H. tauto.
Qed.

Lemma strip_In l c : In c (strip l) -> In c l.
Proof. intros H. destruct (strip_split l) as [p [q [Hl _]]]. rewrite Hl. apply in_or_app. right. apply in_or_app. now left. Qed.

(* a non-whitespace character of the line survives strip *)
Lemma dropws_keeps x c : In c x -> is_ws c = false -> In c (dropws x).
Proof.
  induction x as [|y x IH]; intros Hin Hc; [destruct Hin|]. cbn [dropws]. destruct (is_ws y) eqn:E.
  - destruct Hin as [->|Hin]; [congruence | apply IH; assumption].
  - exact Hin.
Qed.
Lemma strip_keeps l c : In c l -> is_ws c = false -> In c (strip l).
Proof.
  intros Hin Hc. unfold strip. apply in_rev. rewrite rev_involutive. apply dropws_keeps; [|exact Hc].
  apply -> in_rev. apply dropws_keeps; assumption.
Qed.

(* the first surviving character of a header line is '>' *)
Lemma dropws_hd x c r : dropws x = c :: r -> is_ws c = false.
Proof.
  induction x as [|y x IH]; cbn [dropws]; [discriminate|]. destruct (is_ws y) eqn:E; [exact IH|].
  intros H. injection H as <- _. exact E.
Qed.

Lemma strip_header lead text : forallb is_ws lead = true ->
  exists t, strip (lead ++ ">"%char :: text) = ">"%char :: t.
Proof.
  intros Hl. unfold strip. rewrite dropws_allws by exact Hl. cbn [dropws].
  change (is_ws ">") with false. cbv iota.
  destruct (dropws_split (rev (">"%char :: text))) as [q [Hr Hq]].
  cbn [rev] in *. set (d := dropws (rev text ++ [">"%char])) in *.
  assert (Hin : In ">"%char d).
  { unfold d. apply dropws_keeps; [apply in_or_app; right; left; reflexivity | reflexivity]. }
  assert (Hlast : exists d', d = d' ++ [">"%char]).
  { destruct (dropws_split (rev text ++ [">"%char])) as [p [Hx Hp]]. fold d in Hx.
    destruct d as [|c d0] using rev_ind; [destruct Hin|]. clear IHd0.
    exists d0. f_equal. rewrite app_assoc in Hx. apply app_inj_tail in Hx. destruct Hx as [_ <-]. reflexivity. }
  destruct Hlast as [d' ->]. rewrite rev_app_distr. cbn [rev app]. eexists. reflexivity.
Qed.

(* ---------- lines ---------- *)
Inductive kind := KBlank | KHeader | KSeq.

Definition line_ok (k : kind) (l : list ascii) : Prop :=
  match k with
  | KBlank => forallb is_ws l = true
  | KHeader => exists lead text, l = lead ++ ">"%char :: text /\ forallb is_ws lead = true
  | KSeq => forallb okstar l = true
  end.

Definition line_toks (kl : kind * list ascii) : list (option aa) :=
  match fst kl with KSeq => toks (snd kl) | _ => [] end.

Definition nheaders (ls : list (kind * list ascii)) : nat :=
  List.length (filter (fun kl => match fst kl with KHeader => true | _ => false end) ls).

Lemma parse_lines_spec ls : forall (h : bool) acc,
  Forall (fun kl => line_ok (fst kl) (snd kl)) ls ->
  (nheaders ls + (if h then 1 else 0) <= 1)%nat ->
  parse_lines (map snd ls) h acc = Some (acc ++ List.concat (map line_toks ls)).
Proof.
  induction ls as [|[k l] ls IH]; intros h acc Hok Hh; cbn [map parse_lines List.concat]; [now rewrite app_nil_r|].
  inversion Hok as [|? ? Hl Hrest]; subst. cbn [fst snd] in Hl. unfold nheaders in Hh. cbn [filter fst] in Hh.
  destruct k; cbn [line_ok] in Hl; unfold line_toks at 1; cbn [fst snd].
  - rewrite (strip_allws l Hl). cbn [app]. apply IH; [exact Hrest | exact Hh].
  - destruct Hl as [lead [text [-> Hlead]]]. destruct (strip_header lead text Hlead) as [t ->].
    change (Ascii.eqb ">" ">") with true. cbv iota. cbn [List.length] in Hh.
    destruct h; [lia|]. cbn [app]. apply IH; [exact Hrest | unfold nheaders; lia].
  - destruct (strip l) as [|c sl] eqn:Es.
    + rewrite <- (toks_strip l), Es. cbn [toks app]. apply IH; [exact Hrest | exact Hh].
    + pose proof (forallb_strip okstar l Hl) as Hs. rewrite Es in Hs.
      assert (Hc : okstar c = true) by (cbn [forallb] in Hs; apply andb_prop in Hs; tauto).
      destruct (okstar_not_gt c Hc) as [-> _].
      rewrite (valid_seq_ok (c :: sl) Hs). rewrite <- Es, toks_strip, app_assoc. apply IH; [exact Hrest | exact Hh].
Qed.

(* ---------- text level ---------- *)
Lemma unl_id cs : ~ In cr cs -> unl false cs = cs.
Proof.
  induction cs as [|c cs IH]; intros H; [reflexivity|]. cbn [unl].
  destruct (Ascii.eqb c cr) eqn:E; [apply Ascii.eqb_eq in E; subst; exfalso; apply H; left; reflexivity|].
  destruct (Ascii.eqb c nl) eqn:E2; rewrite IH by (intros Hin; apply H; right; exact Hin); [|reflexivity].
  apply Ascii.eqb_eq in E2. now subst.
Qed.

Lemma split_nl_nonempty cs : split_nl cs <> [].
Proof. induction cs as [|c cs IH]; cbn [split_nl]; [discriminate|]. destruct (Ascii.eqb c nl); [discriminate|]. destruct (split_nl cs); [congruence | discriminate]. Qed.

Lemma split_nl_line l rest : ~ In nl l -> split_nl (l ++ nl :: rest) = l :: split_nl rest.
Proof.
  induction l as [|c l IH]; intros H; cbn [app split_nl].
  - change (Ascii.eqb nl nl) with true. reflexivity.
  - destruct (Ascii.eqb c nl) eqn:E; [apply Ascii.eqb_eq in E; subst; exfalso; apply H; left; reflexivity|].
    rewrite IH by (intros Hin; apply H; right; exact Hin). reflexivity.
Qed.

Lemma split_nl_last l : ~ In nl l -> split_nl l = [l].
Proof.
  induction l as [|c l IH]; intros H; cbn [split_nl]; [reflexivity|].
  destruct (Ascii.eqb c nl) eqn:E; [apply Ascii.eqb_eq in E; subst; exfalso; apply H; left; reflexivity|].
  rewrite IH by (intros Hin; apply H; right; exact Hin). reflexivity.
Qed.

Definition plain (l : list ascii) : Prop := ~ In nl l /\ ~ In cr l.

(* the file: every line followed by \n, then a last line with or without its \n *)
Definition join (ls : list (list ascii)) (last : list ascii) : list ascii :=
  List.concat (map (fun l => l ++ [nl]) ls) ++ last.

Lemma split_join ls last : Forall plain ls -> plain last -> split_nl (join ls last) = ls ++ [last].
Proof.
  intros H [Hl _]. unfold join. induction H as [|l ls [Hn _] _ IH]; cbn [map List.concat app]; [apply split_nl_last; exact Hl|].
  rewrite <- !app_assoc. cbn [app]. rewrite split_nl_line by exact Hn. now rewrite IH.
Qed.

Lemma join_no_cr ls last : Forall plain ls -> plain last -> ~ In cr (join ls last).
Proof.
  intros H [_ Hl]. unfold join. induction H as [|l ls [_ Hc] _ IH]; cbn [map List.concat app]; [exact Hl|].
  rewrite <- !app_assoc. cbn [app]. intros Hin. apply in_app_or in Hin. destruct Hin as [Hin|[E|Hin]];
    [contradiction | discriminate E | apply IH; exact Hin].
Qed.

Theorem parse_join kls : let ls := map snd kls in
  Forall (fun kl => line_ok (fst kl) (snd kl)) kls -> Forall plain ls -> (nheaders kls <= 1)%nat ->
  forall ls1 last, ls = ls1 ++ [last] ->
  parse (join ls1 last) = final_validation (List.concat (map line_toks kls)).
Proof.
  cbn zeta. intros Hok Hpl Hh ls1 last E. unfold parse.
  assert (Hp1 : Forall plain ls1 /\ plain last).
  { rewrite E in Hpl. apply Forall_app in Hpl. destruct Hpl as [H1 H2]. split; [exact H1 | now inversion H2]. }
  destruct Hp1 as [Hp1 Hp2].
  rewrite unl_id by (apply join_no_cr; assumption). rewrite split_join by assumption. rewrite <- E.
  rewrite (parse_lines_spec kls false []); [reflexivity | exact Hok | lia].
Qed.

(* ---------- final validation ---------- *)
Lemma unsome_some w : unsome (map Some w) = w.
Proof. induction w as [|a w IH]; [reflexivity|]. cbn [map unsome]. now rewrite IH. Qed.

Lemma nostar_some w : filter is_star (map Some w) = [].
Proof. induction w as [|a w IH]; [reflexivity | exact IH]. Qed.

Theorem final_no_star w : final_validation (map Some w) = Some w.
Proof. unfold final_validation. rewrite nostar_some. cbn. now rewrite unsome_some. Qed.

Theorem final_terminal_star w : final_validation (map Some w ++ [None]) = Some w.
Proof.
  unfold final_validation. rewrite filter_app, nostar_some. cbn [app filter is_star List.length Nat.eqb Nat.ltb Nat.leb].
  rewrite rev_app_distr. cbn [rev app]. rewrite rev_involutive. now rewrite unsome_some.
Qed.

Lemma count_star_app a b : List.length (filter is_star (a ++ b)) = (List.length (filter is_star a) + List.length (filter is_star b))%nat.
Proof. now rewrite filter_app, app_length. Qed.

Theorem final_two_stars acc : (2 <= List.length (filter is_star acc))%nat -> final_validation acc = None.
Proof.
  intros H. unfold final_validation. destruct (List.length (filter is_star acc)) as [|[|n]] eqn:E; try lia. reflexivity.
Qed.

Theorem final_nonterminal_star a x b : final_validation (a ++ None :: b ++ [Some x]) = None.
Proof.
  unfold final_validation.
  destruct (List.length (filter is_star (a ++ None :: b ++ [Some x]))) as [|[|n]] eqn:E.
  - rewrite count_star_app in E. cbn [filter is_star List.length] in E. lia.
  - cbn [Nat.eqb Nat.ltb Nat.leb]. rewrite app_comm_cons, app_assoc, rev_app_distr. reflexivity.
  - reflexivity.
Qed.

(* ---------- rejections at the line level ---------- *)
Definition is_header_b (l : list ascii) : bool :=
  match strip l with c :: _ => Ascii.eqb c ">" | [] => false end.

Lemma headers_reject ls : forall (h : bool) acc,
  (2 <= List.length (filter is_header_b ls) + (if h then 1 else 0))%nat -> parse_lines ls h acc = None.
Proof.
  induction ls as [|l ls IH]; intros h acc H; [destruct h; cbn in H; lia|].
  cbn [filter] in H. cbn [parse_lines]. destruct (is_header_b l) eqn:Hb; unfold is_header_b in Hb.
  - destruct (strip l) as [|c sl]; [discriminate Hb|]. rewrite Hb.
    destruct h; [reflexivity|]. apply IH. cbn [List.length] in H. lia.
  - destruct (strip l) as [|c sl]; [apply IH; exact H|]. rewrite Hb.
    destruct (valid_seq (c :: sl)); [apply IH; exact H | reflexivity].
Qed.

Lemma bad_char_rejects ls l c : In l ls -> is_header_b l = false -> In c l -> okstar c = false -> is_ws c = false ->
  forall h acc, parse_lines ls h acc = None.
Proof.
  intros Hin Hh Hc Hbad Hws. induction ls as [|x ls IH]; [destruct Hin|]. intros h acc. cbn [parse_lines].
  destruct Hin as [->|Hin].
  - pose proof (strip_keeps l c Hc Hws) as Hk. unfold is_header_b in Hh.
    destruct (strip l) as [|c0 sl] eqn:Es; [destruct Hk|]. rewrite Hh.
    now rewrite (valid_seq_bad (c0 :: sl) c Hk Hbad).
  - destruct (strip x) as [|c0 sl]; [apply IH; exact Hin|].
    destruct (Ascii.eqb c0 ">"); [destruct h; [reflexivity | apply IH; exact Hin]|].
    destruct (valid_seq (c0 :: sl)); [apply IH; exact Hin | reflexivity].
Qed.

Theorem second_header_rejected text :
  (2 <= List.length (filter is_header_b (split_nl (unl false text))))%nat -> parse text = None.
Proof. intros H. unfold parse. rewrite headers_reject; [reflexivity | lia]. Qed.

Theorem bad_character_rejected text l c : In l (split_nl (unl false text)) -> is_header_b l = false ->
  In c l -> okstar c = false -> is_ws c = false -> parse text = None.
Proof. intros H1 H2 H3 H4 H5. unfold parse. now rewrite (bad_char_rejects _ l c H1 H2 H3 H4 H5). Qed.

(* ---------- layouts ---------- *)
Theorem layout_parses kls ls1 last w :
  Forall (fun kl => line_ok (fst kl) (snd kl)) kls -> Forall plain (map snd kls) -> (nheaders kls <= 1)%nat ->
  map snd kls = ls1 ++ [last] ->
  (List.concat (map line_toks kls) = map Some w \/ List.concat (map line_toks kls) = map Some w ++ [None]) ->
  parse (join ls1 last) = Some w.
Proof.
  intros Hok Hpl Hh E Ht. rewrite (parse_join kls Hok Hpl Hh ls1 last E).
  destruct Ht as [-> | ->]; [apply final_no_star | apply final_terminal_star].
Qed.

(* residues of a star-free sequence line *)
Fixpoint res_of (cs : list ascii) : list aa :=
  match cs with [] => [] | c :: r => match aa_of_char c with Some a => a :: res_of r | None => res_of r end end.

Lemma toks_okc cs : forallb okc cs = true -> toks cs = map Some (res_of cs).
Proof.
  induction cs as [|c cs IH]; intros H; [reflexivity|]. cbn [forallb] in H. apply andb_prop in H. destruct H as [Hc Hcs].
  cbn [toks res_of]. unfold okc in Hc. destruct (aa_of_char c) as [a|]; [cbn [map]; now rewrite IH|].
  assert (Ascii.eqb c "*" = false) as ->.
  { apply orb_prop in Hc. destruct Hc as [Hc|Hc].
    - apply Ascii.eqb_eq in Hc. subst. reflexivity.
    - revert Hc. clear. all_ascii c; vm_compute; intros H; try discriminate H; reflexivity. }
  apply IH. exact Hcs.
Qed.

Lemma res_of_word w : res_of (map aa_char w) = w.
Proof. induction w as [|a w IH]; [reflexivity|]. cbn [map res_of]. now rewrite aa_of_char_char, IH. Qed.

(* ---------- padding and Windows line ends ---------- *)
Lemma dropws_nonempty_app x q c r : dropws x = c :: r -> dropws (x ++ q) = dropws x ++ q.
Proof.
  induction x as [|a x IH]; intros H; cbn [dropws] in H; [discriminate|]. cbn [app dropws].
  destruct (is_ws a); [apply IH; exact H | reflexivity].
Qed.

Lemma forallb_rev {X} (P : X -> bool) l : forallb P l = true -> forallb P (rev l) = true.
Proof.
  intros H. apply forallb_forall. intros x Hx. apply in_rev in Hx. rewrite forallb_forall in H. apply H. exact Hx.
Qed.

Lemma strip_pad p x q : forallb is_ws p = true -> forallb is_ws q = true -> strip (p ++ x ++ q) = strip x.
Proof.
  intros Hp Hq. unfold strip. rewrite (dropws_allws p _ Hp).
  destruct (dropws x) as [|c r] eqn:E.
  - assert (Hx : forallb is_ws x = true).
    { clear -E. induction x as [|a x IH]; [reflexivity|]. cbn [dropws] in E. cbn [forallb].
      destruct (is_ws a); [cbn [andb]; apply IH; exact E | discriminate]. }
    replace (dropws (x ++ q)) with (@nil ascii); [reflexivity|].
    symmetry. rewrite <- (app_nil_r (x ++ q)). rewrite (dropws_allws (x ++ q) []); [reflexivity|].
    rewrite forallb_app, Hx, Hq. reflexivity.
  - rewrite (dropws_nonempty_app x q c r E), E. rewrite rev_app_distr.
    rewrite (dropws_allws (rev q) _ (forallb_rev _ _ Hq)). reflexivity.
Qed.

Lemma parse_lines_strip_ext ls ls' : map strip ls = map strip ls' -> forall h acc, parse_lines ls h acc = parse_lines ls' h acc.
Proof.
  revert ls'. induction ls as [|l ls IH]; intros [|l' ls'] E h acc; try discriminate E; [reflexivity|].
  cbn [map] in E. injection E as E1 E2. cbn [parse_lines]. rewrite <- E1.
  destruct (strip l) as [|c sl]; [apply IH; exact E2|].
  destruct (Ascii.eqb c ">"); [destruct h; [reflexivity | apply IH; exact E2]|].
  destruct (valid_seq (c :: sl)); [apply IH; exact E2 | reflexivity].
Qed.

(* line terminators: \n or \r\n, freely mixed *)
Definition term_ok (t : list ascii) : Prop := t = [nl] \/ t = [cr; nl].

Definition joinT (lts : list (list ascii * list ascii)) (last : list ascii) : list ascii :=
  List.concat (map (fun lt => fst lt ++ snd lt) lts) ++ last.

Lemma unl_plain_app l rest : plain l -> unl false (l ++ rest) = l ++ unl false rest.
Proof.
  intros [Hn Hc]. induction l as [|c l IH]; [reflexivity|]. cbn [app unl].
  destruct (Ascii.eqb c cr) eqn:E1; [apply Ascii.eqb_eq in E1; subst; exfalso; apply Hc; left; reflexivity|].
  destruct (Ascii.eqb c nl) eqn:E2; [apply Ascii.eqb_eq in E2; subst; exfalso; apply Hn; left; reflexivity|].
  rewrite IH; [reflexivity | intros H; apply Hn; right; exact H | intros H; apply Hc; right; exact H].
Qed.

Lemma unl_joinT lts last : Forall (fun lt => plain (fst lt) /\ term_ok (snd lt)) lts -> plain last ->
  unl false (joinT lts last) = join (map fst lts) last.
Proof.
  intros H Hl. unfold joinT, join. induction H as [|[l t] lts [Hp Ht] _ IH].
  - cbn [map List.concat app]. rewrite <- (app_nil_r last) at 1. rewrite (unl_plain_app last [] Hl). cbn [unl]. now rewrite app_nil_r.
  - cbn [fst snd] in Hp, Ht. cbn [map List.concat fst snd]. rewrite <- !app_assoc. rewrite (unl_plain_app l _ Hp). f_equal.
    destruct Ht as [-> | ->]; cbn [app unl].
    + change (Ascii.eqb nl cr) with false. change (Ascii.eqb nl nl) with true. cbv iota. f_equal. exact IH.
    + change (Ascii.eqb cr cr) with true. change (Ascii.eqb nl cr) with false. change (Ascii.eqb nl nl) with true. cbv iota.
      f_equal. exact IH.
Qed.

(* a padded line: whitespace (tabs, form feeds, blanks ...) around a body of the plain layout *)
Record pline := { pl_kind : kind; pl_pre : list ascii; pl_body : list ascii; pl_post : list ascii; pl_term : list ascii }.
Definition pl_text (x : pline) : list ascii := pl_pre x ++ pl_body x ++ pl_post x.
Definition pline_ok (x : pline) : Prop :=
  line_ok (pl_kind x) (pl_body x) /\ forallb is_ws (pl_pre x) = true /\ forallb is_ws (pl_post x) = true /\
  plain (pl_text x) /\ term_ok (pl_term x).

Theorem layout_parses_padded (pls : list pline) (lastl : pline) w :
  Forall pline_ok pls -> pline_ok lastl ->
  let kls := map (fun x => (pl_kind x, pl_body x)) (pls ++ [lastl]) in
  (nheaders kls <= 1)%nat ->
  (List.concat (map line_toks kls) = map Some w \/ List.concat (map line_toks kls) = map Some w ++ [None]) ->
  forall final_newline : bool,
  parse (joinT (map (fun x => (pl_text x, pl_term x)) pls ++ (if final_newline then [(pl_text lastl, pl_term lastl)] else []))
               (if final_newline then [] else pl_text lastl)) = Some w.
Proof.
  intros Hok Hlast kls Hh Ht fin. unfold parse.
  set (lines := map pl_text (pls ++ [lastl])).
  assert (Hall : Forall pline_ok (pls ++ [lastl])) by (apply Forall_app; split; [exact Hok | constructor; [exact Hlast | constructor]]).
  assert (Hlines : parse_lines lines false [] = Some ([] ++ List.concat (map line_toks kls))).
  { rewrite (parse_lines_strip_ext lines (map snd kls)).
    - apply parse_lines_spec; [|lia]. unfold kls. apply Forall_forall. intros kl Hin. apply in_map_iff in Hin.
      destruct Hin as [x [<- Hx]]. cbn [fst snd]. rewrite Forall_forall in Hall. apply (Hall x Hx).
    - unfold lines, kls. rewrite !map_map. apply map_ext_in. intros x Hx. cbn [snd]. unfold pl_text.
      rewrite Forall_forall in Hall. destruct (Hall x Hx) as (_ & H1 & H2 & _). apply strip_pad; assumption. }
  assert (Hplain : forall x, In x (pls ++ [lastl]) -> plain (pl_text x) /\ term_ok (pl_term x)).
  { intros x Hx. rewrite Forall_forall in Hall. destruct (Hall x Hx) as (_ & _ & _ & H3 & H4). split; assumption. }
  destruct fin.
  - (* the last line carries its terminator: one more (empty) line after it *)
    rewrite unl_joinT.
    + rewrite map_app, map_map. cbn [map fst]. rewrite split_join.
      * replace (map (fun x : pline => pl_text x) pls ++ [pl_text lastl]) with lines
          by (unfold lines; rewrite map_app; reflexivity).
        assert (E : parse_lines (lines ++ [[]]) false [] = parse_lines lines false []).
        { clear -lines. generalize false, (@nil (option aa)). induction lines as [|l ls IH]; intros h acc; [reflexivity|].
          cbn [app parse_lines]. destruct (strip l) as [|c sl]; [apply IH|].
          destruct (Ascii.eqb c ">"); [destruct h; [reflexivity | apply IH]|]. destruct (valid_seq (c :: sl)); [apply IH | reflexivity]. }
        rewrite E, Hlines. cbn [app]. destruct Ht as [-> | ->]; [apply final_no_star | apply final_terminal_star].
      * apply Forall_forall. intros l Hl. apply in_app_or in Hl. destruct Hl as [Hl|[<-|[]]].
        -- apply in_map_iff in Hl. destruct Hl as [x [<- Hx]]. cbn [fst]. apply Hplain. apply in_or_app. left. exact Hx.
        -- apply Hplain. apply in_or_app. right. left. reflexivity.
      * split; intros [].
    + apply Forall_forall. intros lt Hlt. apply in_app_or in Hlt. destruct Hlt as [Hlt|[<-|[]]].
      * apply in_map_iff in Hlt. destruct Hlt as [x [<- Hx]]. cbn [fst snd]. apply Hplain. apply in_or_app. left. exact Hx.
      * cbn [fst snd]. apply Hplain. apply in_or_app. right. left. reflexivity.
    + split; intros [].
  - rewrite app_nil_r. rewrite unl_joinT.
    + rewrite map_map. cbn [fst]. rewrite split_join.
      * replace (map (fun x => pl_text x) pls ++ [pl_text lastl]) with lines by (unfold lines; rewrite map_app; reflexivity).
        rewrite Hlines. cbn [app]. destruct Ht as [-> | ->]; [apply final_no_star | apply final_terminal_star].
      * apply Forall_forall. intros l Hl. apply in_map_iff in Hl. destruct Hl as [x [<- Hx]]. apply Hplain. apply in_or_app. left. exact Hx.
      * apply Hplain. apply in_or_app. right. left. reflexivity.
    + apply Forall_forall. intros lt Hlt. apply in_map_iff in Hlt. destruct Hlt as [x [<- Hx]]. cbn [fst snd]. apply Hplain. apply in_or_app. left. exact Hx.
    + apply Hplain. apply in_or_app. right. left. reflexivity.
Qed.

(* the hypotheses are satisfiable: a Windows file with a header, tab-padded numbered lines, a blank line and a final '*' *)
Definition ex_lines : list pline :=
  [ {| pl_kind := KHeader; pl_pre := []; pl_body := list_ascii_of_string ">sp|X test"; pl_post := [" "%char]; pl_term := [cr; nl] |};
    {| pl_kind := KSeq; pl_pre := ["009"%char; " "%char]; pl_body := list_ascii_of_string "1 EKEKGSGSAA TY"; pl_post := ["009"%char]; pl_term := [cr; nl] |};
    {| pl_kind := KBlank; pl_pre := []; pl_body := []; pl_post := []; pl_term := [nl] |} ].
Definition ex_last : pline :=
  {| pl_kind := KSeq; pl_pre := ["012"%char]; pl_body := list_ascii_of_string "13 PP*"; pl_post := []; pl_term := [cr; nl] |}.

Lemma ex_ok : Forall pline_ok ex_lines /\ pline_ok ex_last.
Proof.
  assert (P : forall l, forallb (fun c => negb (Ascii.eqb c nl) && negb (Ascii.eqb c cr)) l = true -> plain l).
  { intros l H. rewrite forallb_forall in H. split; intros Hin; specialize (H _ Hin); vm_compute in H; discriminate H. }
  assert (Q : forall x, In x (ex_last :: ex_lines) -> pline_ok x).
  { intros x Hx. cbn [In ex_lines] in Hx.
    destruct Hx as [<-|[<-|[<-|[<-|[]]]]]; unfold pline_ok;
      refine (conj _ (conj _ (conj _ (conj _ _)))); try reflexivity; try (apply P; reflexivity);
      try (right; reflexivity); try (left; reflexivity).
    exists [], (list_ascii_of_string "sp|X test"). split; reflexivity. }
  split; [apply Forall_forall; intros x Hx; apply Q; right; exact Hx | apply Q; left; reflexivity].
Qed.

Example layout_padded_example :
  parse (list_ascii_of_string ">sp|X test " ++ [cr; nl; "009"%char] ++ list_ascii_of_string " 1 EKEKGSGSAA TY" ++
         ["009"%char; cr; nl; nl; "012"%char] ++ list_ascii_of_string "13 PP*" ++ [cr; nl])
  = Some [Glu; Lys; Glu; Lys; Gly; Ser; Gly; Ser; Ala; Ala; Thr; Tyr; Pro; Pro].
Proof.
  destruct ex_ok as [H1 H2].
  exact (layout_parses_padded ex_lines ex_last [Glu; Lys; Glu; Lys; Gly; Ser; Gly; Ser; Ala; Ala; Thr; Tyr; Pro; Pro] H1 H2
           ltac:(vm_compute; lia) ltac:(right; vm_compute; reflexivity) true).
Qed.
