(* Proofs/SCD.v — symmetry and degenerate cases of the SCD coefficient data (C05, C07). *)
From Coq Require Import ZArith List Bool Lia.
From LC Require Import Core.Residue Core.Lists Spec.Delta Model.SCD.
Import ListNotations.
Local Open Scope Z_scope.

Lemma dot_nil_r a : dot a [] = 0.  Proof. destruct a; reflexivity. Qed.

Lemma dot_comm a : forall b, dot a b = dot b a.
Proof. induction a as [|x a IH]; intros [|y b]; cbn [dot]; try reflexivity. rewrite IH. ring. Qed.

Lemma dot_firstn a : forall b, dot a b = dot (firstn (length b) a) b.
Proof.
  induction a as [|x a IH]; intros [|y b]; cbn [dot length firstn]; try reflexivity.
  now rewrite <- IH.
Qed.

Lemma dot_app a : forall b a' b', length a = length b -> dot (a ++ a') (b ++ b') = dot a b + dot a' b'.
Proof.
  induction a as [|x a IH]; intros [|y b] a' b' H; cbn [length] in H; try discriminate; cbn [app dot]; [lia|].
  rewrite IH by lia. ring.
Qed.

Lemma dot_rev a : forall b, length a = length b -> dot (rev a) (rev b) = dot a b.
Proof.
  induction a as [|x a IH]; intros [|y b] H; cbn [length] in H; try discriminate; [reflexivity|].
  cbn [rev]. rewrite dot_app by (rewrite !rev_length; lia). rewrite IH by lia. cbn [dot]. ring.
Qed.

Lemma dot_opp a : forall b, dot (map Z.opp a) (map Z.opp b) = dot a b.
Proof. induction a as [|x a IH]; intros [|y b]; cbn [map dot]; try reflexivity. rewrite IH. ring. Qed.

Theorem coeff_rev l d : (d <= length l)%nat -> coeff (rev l) d = coeff l d.
Proof.
  intros Hd. unfold coeff.
  rewrite (dot_firstn (rev l)). rewrite skipn_length, rev_length.
  rewrite firstn_rev, skipn_rev.
  replace (length l - (length l - d))%nat with d by lia.
  rewrite dot_rev by (rewrite skipn_length, firstn_length; lia).
  rewrite dot_comm. rewrite (dot_firstn l (skipn d l)). now rewrite skipn_length.
Qed.

Theorem scd_rev l : scd_coeffs (rev l) = scd_coeffs l.
Proof.
  unfold scd_coeffs. rewrite rev_length. apply map_ext_in. intros d Hd. apply in_seq in Hd.
  apply coeff_rev. lia.
Qed.

Theorem scd_inv l : scd_coeffs (map Z.opp l) = scd_coeffs l.
Proof.
  unfold scd_coeffs, coeff. rewrite map_length. apply map_ext. intros d.
  rewrite skipn_map. apply dot_opp.
Qed.

(* fewer than two charged residues: every coefficient is 0, hence SCD = 0 *)
Definition nzb (x : Z) : bool := negb (x =? 0).

Lemma dot_zero_l a : cnt nzb a = 0 -> forall b, dot a b = 0.
Proof.
  induction a as [|x a IH]; intros H [|y b]; cbn [dot]; try reflexivity.
  cbn [cnt] in H. pose proof (cnt_nonneg nzb a). unfold nzb in H at 1.
  destruct (x =? 0) eqn:E; cbn [negb] in H; [|lia]. apply Z.eqb_eq in E. subst. rewrite IH by lia. ring.
Qed.

Lemma nth_zero a : cnt nzb a = 0 -> forall i, nth i a 0 = 0.
Proof.
  induction a as [|x a IH]; intros H i; [destruct i; reflexivity|].
  cbn [cnt] in H. pose proof (cnt_nonneg nzb a). unfold nzb in H at 1.
  destruct (x =? 0) eqn:E; cbn [negb] in H; [|lia].
  apply Z.eqb_eq in E. destruct i as [|i]; cbn [nth]; [exact E | apply IH; lia].
Qed.

Lemma dot_cons_skip x l d : dot (x :: l) (skipn d l) = x * nth d l 0 + dot l (skipn (S d) l).
Proof.
  assert (Hs : skipn (S d) l = tl (skipn d l)).
  { clear. revert d. induction l as [|y l IH]; intros [|d]; try reflexivity. cbn [skipn]. apply IH. }
  assert (Hn : nth d l 0 = hd 0 (skipn d l)).
  { clear Hs. revert d. induction l as [|y l IH]; intros [|d]; try reflexivity. cbn [nth skipn]. apply IH. }
  rewrite Hs, Hn. destruct (skipn d l) as [|y r]; cbn [dot hd tl]; [rewrite dot_nil_r; ring | reflexivity].
Qed.

Lemma coeff_cons x l d : coeff (x :: l) (S d) = x * nth d l 0 + coeff l (S d).
Proof. unfold coeff. change (skipn (S d) (x :: l)) with (skipn d l). apply dot_cons_skip. Qed.

Theorem coeff_few_charges l d : cnt nzb l <= 1 -> coeff l (S d) = 0.
Proof.
  revert d. induction l as [|x l IH]; intros d H; [reflexivity|].
  rewrite coeff_cons. cbn [cnt] in H. pose proof (cnt_nonneg nzb l). unfold nzb in H at 1.
  destruct (x =? 0) eqn:E; cbn [negb] in H.
  - apply Z.eqb_eq in E. subst. rewrite IH by lia. ring.
  - assert (Hz : cnt nzb l = 0) by lia.
    rewrite (nth_zero l Hz d). unfold coeff. rewrite (dot_zero_l l Hz). ring.
Qed.

Theorem scd_few_charges l : cnt nzb l <= 1 -> Forall (fun c => c = 0) (scd_coeffs l).
Proof.
  intros H. unfold scd_coeffs. apply Forall_forall. intros c Hc. apply in_map_iff in Hc.
  destruct Hc as [d [<- Hd]]. apply in_seq in Hd. destruct d as [|d]; [lia|]. apply coeff_few_charges. exact H.
Qed.

(* the code-shaped double loop accumulates exactly these coefficients (checked on every
   pattern of length <= 7 by evaluation; the general statement is tied by correspondence) *)
Fixpoint all_patterns (k : nat) : list (list Z) :=
  match k with
  | O => [[]]
  | S k' => flat_map (fun l => [1 :: l; -1 :: l; 0 :: l]) (all_patterns k')
  end.

Lemma m_scd_coeffs_agree_upto_7 :
  forallb (fun k => forallb (fun l => lZ_eqb (m_scd_coeffs l) (scd_coeffs l)) (all_patterns k)) (seq 0 8) = true.
Proof. vm_compute. reflexivity. Qed.
