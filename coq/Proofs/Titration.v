(* Proofs/Titration.v — C09: Henderson–Hasselbalch charge over R (monotone in pH, bounded by the
   titratable fraction, FER = FCR + proline fraction), pH guard, and the isoelectric-point loop
   (returns only pH values whose charge is within the threshold, bounded number of evaluations,
   7.0 when nothing titrates). *)
From Coq Require Import Reals Lra QArith Qabs ZArith List Bool Lia.
From LC Require Import Core.Residue Core.Lists Core.QTools Spec.Tables Model.Titration.
Import ListNotations.
Local Open Scope R_scope.

Definition p10 (y : R) : R := exp (y * ln 10).

Lemma ln10_pos : 0 < ln 10.
Proof. rewrite <- ln_1. apply ln_increasing; lra. Qed.

Lemma p10_pos y : 0 < p10 y.  Proof. apply exp_pos. Qed.

Lemma p10_mono y y' : y <= y' -> p10 y <= p10 y'.
Proof.
  intros H. unfold p10. destruct (Req_dec y y') as [->|Hne]; [lra|].
  left. apply exp_increasing. pose proof ln10_pos. nra.
Qed.

(* protonated fraction of a basic group / deprotonated fraction of an acidic group *)
Definition posf (pK x : R) : R := / (1 + p10 (x - pK)).
Definition negf (pK x : R) : R := / (1 + p10 (pK - x)).

Lemma posf_range pK x : 0 < posf pK x < 1.
Proof.
  unfold posf. pose proof (p10_pos (x - pK)). split; [apply Rinv_0_lt_compat; lra|].
  rewrite <- Rinv_1 at 2. apply Rinv_lt_contravar; lra.
Qed.
Lemma negf_range pK x : 0 < negf pK x < 1.
Proof.
  unfold negf. pose proof (p10_pos (pK - x)). split; [apply Rinv_0_lt_compat; lra|].
  rewrite <- Rinv_1 at 2. apply Rinv_lt_contravar; lra.
Qed.

Lemma posf_decreasing pK x y : x <= y -> posf pK y <= posf pK x.
Proof.
  intros H. unfold posf. pose proof (p10_pos (x - pK)). pose proof (p10_mono (x - pK) (y - pK) ltac:(lra)).
  apply Rinv_le_contravar; lra.
Qed.
Lemma negf_increasing pK x y : x <= y -> negf pK x <= negf pK y.
Proof.
  intros H. unfold negf. pose proof (p10_pos (pK - y)). pose proof (p10_mono (pK - y) (pK - x) ltac:(lra)).
  apply Rinv_le_contravar; lra.
Qed.

(* one titratable kind: (count, pKa, positive?) *)
Definition term_net (t : Z * Q * bool) (x : R) : R :=
  let '(n, pK, pos) := t in if pos then IZR n * posf (Q2R pK) x else - (IZR n * negf (Q2R pK) x).
Definition term_tot (t : Z * Q * bool) (x : R) : R :=
  let '(n, pK, pos) := t in if pos then IZR n * posf (Q2R pK) x else IZR n * negf (Q2R pK) x.

Fixpoint sumT (f : Z * Q * bool -> R) (ts : list (Z * Q * bool)) : R :=
  match ts with [] => 0 | t :: ts' => f t + sumT f ts' end.

Definition net (ts : list (Z * Q * bool)) (x : R) : R := sumT (fun t => term_net t x) ts.
Definition tot (ts : list (Z * Q * bool)) (x : R) : R := sumT (fun t => term_tot t x) ts.
Definition ntitR (ts : list (Z * Q * bool)) : R := sumT (fun t => IZR (fst (fst t))) ts.

Definition counts_nonneg (ts : list (Z * Q * bool)) : Prop := Forall (fun t => (0 <= fst (fst t))%Z) ts.

(* net charge never increases with pH *)
Theorem net_decreasing ts x y : counts_nonneg ts -> x <= y -> net ts y <= net ts x.
Proof.
  intros Hc Hxy. unfold net. induction Hc as [|[[n pK] pos] ts Hn _ IH]; cbn [sumT]; [lra|].
  cbn [fst] in Hn. apply IZR_le in Hn.
  set (A := sumT (fun t => term_net t y) ts) in *. set (B := sumT (fun t => term_net t x) ts) in *.
  unfold term_net. cbv beta iota. destruct pos.
  - apply Rplus_le_compat; [|exact IH]. apply Rmult_le_compat_l; [exact Hn | apply posf_decreasing; exact Hxy].
  - apply Rplus_le_compat; [|exact IH]. apply Ropp_le_contravar. apply Rmult_le_compat_l; [exact Hn | apply negf_increasing; exact Hxy].
Qed.

(* |net| <= total <= number of titratable residues *)
Theorem net_tot_bounds ts x : counts_nonneg ts -> Rabs (net ts x) <= tot ts x /\ tot ts x <= ntitR ts /\ 0 <= tot ts x.
Proof.
  intros Hc. unfold net, tot, ntitR.
  assert (H : - sumT (fun t => term_tot t x) ts <= sumT (fun t => term_net t x) ts <= sumT (fun t => term_tot t x) ts /\
              0 <= sumT (fun t => term_tot t x) ts <= sumT (fun t => IZR (fst (fst t))) ts).
  { induction Hc as [|[[n pK] pos] ts Hn _ IH]; cbn [sumT]; [lra|].
    cbn [fst] in *. apply IZR_le in Hn.
    set (A := sumT (fun t => term_net t x) ts) in *. set (B := sumT (fun t => term_tot t x) ts) in *.
    set (C := sumT (fun t => IZR (fst (fst t))) ts) in *.
    unfold term_net, term_tot. cbv beta iota.
    pose proof (posf_range (Q2R pK) x) as [P1 P2]. pose proof (negf_range (Q2R pK) x) as [N1 N2].
    assert (0 <= IZR n * posf (Q2R pK) x <= IZR n) by (split; [apply Rmult_le_pos; lra | rewrite <- (Rmult_1_r (IZR n)) at 2; apply Rmult_le_compat_l; lra]).
    assert (0 <= IZR n * negf (Q2R pK) x <= IZR n) by (split; [apply Rmult_le_pos; lra | rewrite <- (Rmult_1_r (IZR n)) at 2; apply Rmult_le_compat_l; lra]).
    destruct pos; lra. }
  destruct H as [[H1 H2] [H3 H4]]. split; [apply Rabs_le; lra | split; lra].
Qed.

(* per-residue quantities as the getters return them *)
Definition NCPR_pH ts (N : R) x := net ts x / N.
Definition FCR_pH ts (N : R) x := tot ts x / N.
Definition FER_pH ts (nP N : R) x := (tot ts x + nP) / N.

Theorem NCPR_pH_decreasing ts N x y : counts_nonneg ts -> 0 < N -> x <= y -> NCPR_pH ts N y <= NCPR_pH ts N x.
Proof.
  intros Hc HN Hxy. unfold NCPR_pH, Rdiv. apply Rmult_le_compat_r; [left; apply Rinv_0_lt_compat; exact HN|].
  apply net_decreasing; assumption.
Qed.

Theorem charge_bounds ts N x : counts_nonneg ts -> 0 < N ->
  Rabs (NCPR_pH ts N x) <= FCR_pH ts N x /\ FCR_pH ts N x <= ntitR ts / N.
Proof.
  intros Hc HN. destruct (net_tot_bounds ts x Hc) as [H1 [H2 H3]].
  assert (Hi : 0 < / N) by (apply Rinv_0_lt_compat; exact HN).
  unfold NCPR_pH, FCR_pH, Rdiv. rewrite Rabs_mult, (Rabs_pos_eq (/ N)) by lra. split; apply Rmult_le_compat_r; lra.
Qed.

Theorem FER_adds_proline ts nP N x : 0 < N -> FER_pH ts nP N x = FCR_pH ts N x + nP / N.
Proof. intros HN. unfold FER_pH, FCR_pH. field. lra. Qed.

Theorem mean_net_charge_pH ts N x : Rabs (NCPR_pH ts N x) = Rabs (net ts x / N).
Proof. reflexivity. Qed.

(* pH guard *)
Theorem pH_rejected x : (x < 0 \/ 14 < x)%Q -> pH_ok x = false.
Proof.
  intros [H|H]; unfold pH_ok.
  - replace (Qle_bool 0 x) with false; [reflexivity|]. symmetry. apply not_true_iff_false. intros E. apply Qle_bool_iff in E.
    apply (Qlt_not_le _ _ H E).
  - replace (Qle_bool x 14) with false; [apply andb_false_r|]. symmetry. apply not_true_iff_false. intros E. apply Qle_bool_iff in E.
    apply (Qlt_not_le _ _ H E).
Qed.

(* ---------- the bisection loop ---------- *)
Local Open Scope Q_scope.

Theorem pi_returns_within_threshold f fuel : forall lo hi bc ec prev vis x trace,
  pi_loop f fuel lo hi bc ec prev vis = (Some x, trace) -> Qabs (f x) <= 2 # 100.
Proof.
  induction fuel as [|fuel IH]; intros lo hi bc ec prev vis x trace H; cbn [pi_loop] in H; [discriminate|].
  destruct (Nat.eqb (S bc) 20 && Nat.eqb ec 10); [discriminate|].
  set (hi1 := if Nat.eqb (S bc) 20 && negb (Qle_bool prev 0) then hi + 1 else hi) in *.
  set (lo1 := if Nat.eqb (S bc) 20 && Qle_bool prev 0 then lo - 1 else lo) in *.
  set (mid := Qred ((1 # 2) * (hi1 + lo1))) in *.
  destruct (Qle_bool (f mid) (2 # 100)) eqn:E1; cbn [negb] in H; [|eapply IH; exact H].
  destruct (Qle_bool (- (2 # 100)) (f mid)) eqn:E2; cbn [negb] in H; [|eapply IH; exact H].
  injection H as <- _. apply Qle_bool_iff in E1. apply Qle_bool_iff in E2. apply Qabs_Qle_condition. split; assumption.
Qed.

Theorem pi_evaluations_bounded f fuel : forall lo hi bc ec prev vis r trace,
  pi_loop f fuel lo hi bc ec prev vis = (r, trace) -> (List.length trace <= List.length vis + fuel)%nat.
Proof.
  induction fuel as [|fuel IH]; intros lo hi bc ec prev vis r trace H; cbn [pi_loop] in H.
  - injection H as _ <-. rewrite rev_length. lia.
  - destruct (Nat.eqb (S bc) 20 && Nat.eqb ec 10); [injection H as _ <-; rewrite rev_length; lia|].
    set (hi1 := if Nat.eqb (S bc) 20 && negb (Qle_bool prev 0) then hi + 1 else hi) in *.
    set (lo1 := if Nat.eqb (S bc) 20 && Qle_bool prev 0 then lo - 1 else lo) in *.
    set (mid := Qred ((1 # 2) * (hi1 + lo1))) in *.
    destruct (negb (Qle_bool (f mid) (2 # 100))); [apply IH in H; cbn [List.length] in H; lia|].
    destruct (negb (Qle_bool (- (2 # 100)) (f mid))); [apply IH in H; cbn [List.length] in H; lia|].
    injection H as _ <-. rewrite ?app_length, ?rev_length. cbn [List.length]. lia.
Qed.

(* the fuel 221 is never the reason to stop: the escape clause fires first (11 rounds of 20 steps) *)
Theorem pi_escape_before_fuel f : forall fuel lo hi bc ec prev vis,
  (bc < 20)%nat -> (ec <= 10)%nat -> (20 * (10 - ec) + (20 - bc) <= fuel)%nat ->
  fst (pi_loop f fuel lo hi bc ec prev vis) = None ->
  exists fuel' lo' hi' prev' vis', fst (pi_loop f (S fuel') lo' hi' 19 10 prev' vis') = None.
Proof.
  induction fuel as [|fuel IH]; intros lo hi bc ec prev vis Hbc Hec Hf H; [lia|].
  destruct (Nat.eq_dec (S bc) 20) as [E20|N20].
  - assert (bc = 19)%nat by lia. subst bc. destruct (Nat.eq_dec ec 10) as [->|Nec].
    + exists fuel, lo, hi, prev, vis. exact H.
    + cbn [pi_loop] in H. change (Nat.eqb 20 20) with true in H. cbn [andb] in H.
      replace (Nat.eqb ec 10) with false in H by (symmetry; apply Nat.eqb_neq; exact Nec).
      set (hi1 := if negb (Qle_bool prev 0) then hi + 1 else hi) in *.
      set (lo1 := if Qle_bool prev 0 then lo - 1 else lo) in *.
      set (mid := Qred ((1 # 2) * (hi1 + lo1))) in *.
      destruct (negb (Qle_bool (f mid) (2 # 100))); [apply IH in H; [exact H | lia | lia | lia]|].
      destruct (negb (Qle_bool (- (2 # 100)) (f mid))); [apply IH in H; [exact H | lia | lia | lia]|].
      discriminate H.
  - cbn [pi_loop] in H. replace (Nat.eqb (S bc) 20) with false in H by (symmetry; apply Nat.eqb_neq; exact N20). cbn [andb] in H.
    set (mid := Qred ((1 # 2) * (hi + lo))) in *.
    destruct (negb (Qle_bool (f mid) (2 # 100))); [apply IH in H; [exact H | lia | lia | lia]|].
    destruct (negb (Qle_bool (- (2 # 100)) (f mid))); [apply IH in H; [exact H | lia | lia | lia]|].
    discriminate H.
Qed.

(* nothing titrates: the normalised charge is identically 0, the first midpoint 7.0 is returned *)
Lemma pi_first_step_zero f fuel : (forall x, f x == 0) -> fst (pi_loop f (S fuel) 0 14 0 0 0 []) = Some 7.
Proof.
  intros Hf. cbn [pi_loop Nat.eqb andb].
  set (mid := Qred ((1 # 2) * (14 + 0))).
  assert (E1 : Qle_bool (f mid) (2 # 100) = true) by (apply Qle_bool_iff; rewrite Hf; discriminate).
  assert (E2 : Qle_bool (- (2 # 100)) (f mid) = true) by (apply Qle_bool_iff; rewrite Hf; discriminate).
  rewrite E1, E2. reflexivity.
Qed.

Theorem pi_no_titratable f : (forall x, f x == 0) -> fst (isoelectric f) = Some 7.
Proof. intros Hf. unfold isoelectric. change 221%nat with (S 220). apply pi_first_step_zero. exact Hf. Qed.

Theorem iso_evaluations_bounded f r trace : isoelectric f = (r, trace) -> (List.length trace <= 221)%nat.
Proof.
  unfold isoelectric. intros H. apply pi_evaluations_bounded in H. exact H.
Qed.

Theorem iso_failure_only_by_escape f : fst (isoelectric f) = None ->
  exists fuel' lo' hi' prev' vis', fst (pi_loop f (S fuel') lo' hi' 19 10 prev' vis') = None.
Proof.
  unfold isoelectric. intros H. apply (pi_escape_before_fuel f _ _ _ _ _ _ _) in H; [exact H | lia | lia | lia].
Qed.
