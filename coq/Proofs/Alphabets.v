From Coq Require Import String ZArith Bool Lia List.
From LC Require Import Core.Residue Spec.Alphabets Model.Alphabets.
Import ListNotations.
Local Open Scope Z_scope.

Lemma valid_reduction_b_sound k f : valid_reduction_b k f = true -> valid_reduction k f.
Proof.
  unfold valid_reduction_b, valid_reduction. intros H r.
  rewrite forallb_forall in H. specialize (H r (all20_complete r)).
  destruct (group_of k r) as [g|]; [|discriminate].
  exists g. apply andb_prop in H. destruct H as [H1 H2].
  split; [reflexivity|]. split; [apply mem_aa_In; exact H1|].
  intros r' Hr'. rewrite forallb_forall in H2. apply aa_eqb_eq. apply H2. exact Hr'.
Qed.

Section Laws.
  Variable k : Z.
  Variable f : aa -> aa.
  Hypothesis Hf : valid_reduction k f.

  Lemma f_idem r : f (f r) = f r.
  Proof. destruct (Hf r) as [g [_ [Hin Hall]]]. apply Hall. exact Hin. Qed.

  Lemma f_in_own_group r : exists g, group_of k r = Some g /\ In r g /\ In (f r) g.
  Proof.
    destruct (Hf r) as [g [Hg [Hin _]]]. exists g. split; [exact Hg|]. split; [|exact Hin].
    unfold group_of in Hg. apply find_some in Hg. apply mem_aa_In. tauto.
  Qed.

  Lemma reduce_length s : length (map f s) = length s.
  Proof. apply map_length. Qed.

  Lemma reduce_app s t : map f (s ++ t) = map f s ++ map f t.
  Proof. apply map_app. Qed.

  Lemma reduce_idem s : map f (map f s) = map f s.
  Proof. rewrite map_map. apply map_ext. intros a. apply f_idem. Qed.

  Lemma reduce_pointwise s i d : (i < length s)%nat -> nth i (map f s) (f d) = f (nth i s d).
  Proof. intros _. apply map_nth. Qed.
End Laws.

Lemma predef_rejects allowed f k s : memZ k allowed = false -> reduce_predef allowed f k s = None.
Proof. unfold reduce_predef. intros ->. reflexivity. Qed.

Lemma predef_accepts allowed f k s : memZ k allowed = true ->
  reduce_predef allowed f k s = Some (map (f k) s).
Proof. unfold reduce_predef. intros ->. reflexivity. Qed.

Lemma memZ_In k l : memZ k l = true <-> In k l.
Proof.
  unfold memZ. rewrite existsb_exists. split.
  - intros [y [Hy He]]. apply Z.eqb_eq in He. subst. exact Hy.
  - intros H. exists k. split; [exact H | apply Z.eqb_refl].
Qed.

(* user alphabets *)
Lemma user_accept_iff u :
  user_accepted u = true <-> forall r, exists r', ulookup u r = Some r'.
Proof.
  unfold user_accepted. rewrite forallb_forall. split.
  - intros H r. specialize (H r (all20_complete r)).
    destruct (ulookup u r) as [y|]; [exists y; reflexivity | discriminate].
  - intros H r _. destruct (H r) as [y ->]. reflexivity.
Qed.

Lemma user_apply_is_map u s out alph :
  reduce_user u s = Some (out, alph) ->
  out = map (uapply u) s /\ length out = length s /\
  (forall r, ulookup u r = Some (uapply u r)).
Proof.
  unfold reduce_user. destruct (user_accepted u) eqn:Ha; [|discriminate].
  set (a := map (uapply u) s). set (b := dedup _). intros H.
  assert (out = a /\ alph = b) as [-> ->] by (split; congruence). subst a b.
  split; [reflexivity|]. split; [apply map_length|].
  intros r. apply user_accept_iff with (r := r) in Ha. destruct Ha as [y Hy].
  unfold uapply. rewrite Hy. reflexivity.
Qed.

Lemma user_reject u s : user_accepted u = false -> reduce_user u s = None.
Proof. unfold reduce_user. intros ->. reflexivity. Qed.

Lemma dedup_In x l : In x (dedup l) <-> In x l.
Proof.
  induction l as [|a l IH]; simpl; [tauto|].
  destruct (mem_aa a l) eqn:Hm.
  - rewrite IH. split; [tauto|]. intros [->|H]; [apply mem_aa_In; exact Hm | exact H].
  - simpl. rewrite IH. tauto.
Qed.

Lemma dedup_NoDup l : NoDup (dedup l).
Proof.
  induction l as [|a l IH]; simpl; [constructor|].
  destruct (mem_aa a l) eqn:Hm; [exact IH|].
  constructor; [|exact IH]. rewrite dedup_In. intros H. apply mem_aa_In in H. congruence.
Qed.

Lemma user_alphabet_is_image u s out alph :
  reduce_user u s = Some (out, alph) ->
  NoDup alph /\ forall a, In a alph <-> exists r, uapply u r = a.
Proof.
  unfold reduce_user. destruct (user_accepted u); [|discriminate].
  set (a := map (uapply u) s). set (b := dedup _). intros H.
  assert (out = a /\ alph = b) as [-> ->] by (split; congruence). subst a b.
  split; [apply dedup_NoDup|].
  intros a. rewrite dedup_In, in_map_iff. split.
  - intros [r [Hr _]]. exists r. exact Hr.
  - intros [r Hr]. exists r. split; [exact Hr | apply all20_complete].
Qed.

Lemma predef_rejects_notin allowed f k s : ~ In k allowed -> reduce_predef allowed f k s = None.
Proof.
  intros H. apply predef_rejects. destruct (memZ k allowed) eqn:E; [|reflexivity].
  apply memZ_In in E. contradiction.
Qed.

Lemma predef_accepts_in allowed f k s : In k allowed -> reduce_predef allowed f k s = Some (map (f k) s).
Proof. intros H. apply predef_accepts. apply memZ_In. exact H. Qed.

Lemma C12_example : valid_reduction_b 2 (fun r => if mem_aa r (grp "EDNQKRH") then Glu else Leu) = true.
Proof. vm_compute. reflexivity. Qed.
