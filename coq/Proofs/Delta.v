(* Proofs/Delta.v — the code-shaped model of delta equals the specification; basic facts. *)
From Coq Require Import QArith Qabs Qreduction Qfield ZArith List Bool Lia Permutation.
From LC Require Import Core.Residue Core.Lists Core.QTools Spec.Delta Model.Delta.
Import ListNotations.
Local Open Scope Z_scope.

Lemma Qmake_div x a : 0 < a -> (x # Z.to_pos a == inject_Z x / inject_Z a)%Q.
Proof.
  intros Ha. rewrite Qmake_Qdiv. rewrite Z2Pos.id by exact Ha. reflexivity.
Qed.

Lemma inject_Z_nz a : a <> 0 -> ~ (inject_Z a == 0)%Q.
Proof. intros Ha H. apply Ha. unfold Qeq in H. simpl in H. lia. Qed.

Lemma npos_nonneg l : 0 <= npos l.  Proof. apply cnt_nonneg. Qed.
Lemma nneg_nonneg l : 0 <= nneg l.  Proof. apply cnt_nonneg. Qed.

Lemma pos_neg_le_len l : npos l + nneg l <= len l.
Proof.
  unfold npos, nneg, len. induction l as [|x l IH]; [simpl; lia|].
  cbn [cnt length]. unfold isposb, isnegb in *.
  destruct (0 <? x) eqn:E1, (x <? 0) eqn:E2; lia.
Qed.

Lemma nneut_nonneg l : 0 <= nneut l.
Proof. unfold nneut. pose proof (pos_neg_le_len l). lia. Qed.

Lemma sq_mul (a b : Q) : (sqQ a == a * a)%Q.  Proof. reflexivity. Qed.

Global Instance sqQ_proper : Proper (Qeq ==> Qeq) sqQ.
Proof. intros a b H. unfold sqQ. rewrite H. reflexivity. Qed.

(* the three-fraction form computed by the code equals the closed form *)
Lemma ratio_form (d s N : Z) : 0 < N -> s <> 0 ->
  (((d # Z.to_pos N) * (d # Z.to_pos N) / (s # Z.to_pos N)) == (d * d) # Z.to_pos (N * s))%Q \/ s < 0.
Proof.
  intros HN Hs. destruct (Z_lt_le_dec s 0) as [Hneg|Hpos]; [right; exact Hneg|left].
  assert (0 < s) by lia. assert (0 < N * s) by lia.
  rewrite !Qmake_div by assumption. rewrite !inject_Z_mult.
  field. split; apply inject_Z_nz; lia.
Qed.

Lemma m_sigma_spec l : (m_sigma l == sigma l)%Q.
Proof.
  unfold m_sigma, sigma, sigma_c. pose proof (pos_neg_le_len l) as Hle.
  pose proof (npos_nonneg l). pose proof (nneg_nonneg l).
  destruct (npos l + nneg l =? 0) eqn:E.
  - apply Z.eqb_eq in E. replace (nneut l =? len l) with true; [reflexivity|].
    symmetry. apply Z.eqb_eq. unfold nneut. lia.
  - apply Z.eqb_neq in E. replace (nneut l =? len l) with false
      by (symmetry; apply Z.eqb_neq; unfold nneut; lia).
    rewrite Qred_correct.
    destruct (ratio_form (npos l - nneg l) (npos l + nneg l) (len l)) as [H1|H1]; [lia | exact E | exact H1 | lia].
Qed.

Lemma m_bsigma_spec w b : length b = w -> (m_bsigma (Z.of_nat w) b == sigma b)%Q.
Proof.
  intros Hw. unfold m_bsigma, sigma, sigma_c. pose proof (pos_neg_le_len b) as Hle.
  pose proof (npos_nonneg b). pose proof (nneg_nonneg b).
  destruct (npos b + nneg b =? 0) eqn:E; [reflexivity|].
  apply Z.eqb_neq in E. rewrite Qred_correct. unfold len in *. rewrite Hw in *.
  destruct (ratio_form (npos b - nneg b) (npos b + nneg b) (Z.of_nat w)) as [H1|H1]; [lia | exact E | exact H1 | lia].
Qed.

Lemma fold_sum {A} (g : A -> Q) xs a :
  (fold_left (fun ans i => Qred (ans + g i)%Q) xs a == a + sumQ (map g xs))%Q.
Proof.
  revert a. induction xs as [|x xs IH]; intros a; cbn [fold_left map sumQ]; [ring|].
  rewrite IH, Qred_correct. ring.
Qed.

Lemma sumQ_scale {A} (g : A -> Q) c xs : (sumQ (map (fun x => g x / c) xs) == sumQ (map g xs) / c)%Q.
Proof.
  induction xs as [|x xs IH]; simpl.
  - unfold Qdiv. ring.
  - rewrite IH. unfold Qdiv. ring.
Qed.

Lemma m_deltaForm_spec w l : (0 < w)%nat -> (m_deltaForm w l == deltaForm w l)%Q.
Proof.
  intros Hw. unfold m_deltaForm, deltaForm.
  rewrite (fold_sum (fun i => sqQ (m_sigma l - m_bsigma (Z.of_nat w) (firstn w (skipn i l))) /
                              inject_Z (len l - Z.of_nat w + 1))%Q).
  rewrite Qplus_0_l. rewrite sumQ_scale.
  unfold len at 3. rewrite blobs_length.
  assert (Hn : Z.to_nat (len l - Z.of_nat w + 1) = (length l + 1 - w)%nat) by (unfold len; lia).
  rewrite Hn. unfold blobs. rewrite map_map.
  destruct (le_lt_dec w (length l)) as [Hle|Hlt].
  - replace (len l - Z.of_nat w + 1) with (Z.of_nat (length l + 1 - w)) by (unfold len; lia).
    apply Qmult_comp; [|reflexivity].
    apply sumQ_map_ext. intros i Hi. apply in_seq in Hi.
    rewrite m_sigma_spec. fold (blob w i l).
    rewrite m_bsigma_spec; [reflexivity|]. apply blob_length. lia.
  - replace (length l + 1 - w)%nat with 0%nat by lia. simpl. unfold Qdiv. ring.
Qed.

Theorem m_delta_spec l : (m_delta l == delta l)%Q.
Proof.
  unfold m_delta, delta. rewrite Qred_correct.
  rewrite !m_deltaForm_spec by lia. reflexivity.
Qed.

(* ---- basic facts about the specification ---- *)
Lemma deltaForm_too_long w l : (length l < w)%nat -> (deltaForm w l == 0)%Q.
Proof.
  intros H. unfold deltaForm. rewrite blobs_too_long by exact H. simpl. unfold Qdiv. ring.
Qed.

Theorem delta_short l : (length l < 5)%nat -> (delta l == 0)%Q.
Proof.
  intros H. unfold delta. rewrite !deltaForm_too_long by lia. unfold Qdiv. ring.
Qed.

Lemma deltaForm_nonneg w l : (0 <= deltaForm w l)%Q.
Proof.
  unfold deltaForm. unfold Qdiv. apply Qmult_le_0_compat.
  - apply sumQ_nonneg. intros x Hx. apply in_map_iff in Hx. destruct Hx as [b [<- _]]. apply sqQ_nonneg.
  - apply Qinv_le_0_compat. unfold len. unfold Qle. simpl. lia.
Qed.

Theorem delta_nonneg l : (0 <= delta l)%Q.
Proof.
  unfold delta. unfold Qdiv. apply Qmult_le_0_compat; [|discriminate].
  setoid_replace 0%Q with (0 + 0)%Q by ring.
  apply Qplus_le_compat; apply deltaForm_nonneg.
Qed.

(* an uncharged sequence has delta 0 *)
Lemma sigma_uncharged l : npos l + nneg l = 0 -> sigma l = 0%Q.
Proof. intros H. unfold sigma, sigma_c. rewrite H. reflexivity. Qed.
