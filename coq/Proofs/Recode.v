(* Proofs/Recode.v — Omega / kappa_X identities (C05, C06). *)
From Coq Require Import QArith ZArith List Bool Ascii String Lia.
From LC Require Import Core.Residue Core.Lists Core.QTools Spec.Delta Model.Delta Model.Recode
     Proofs.Delta Proofs.DeltaMax Proofs.Invariance.
Import ListNotations.
Local Open Scope Z_scope.

Theorem Omega_is_kappa_recoded s : Omega s = kappa (recode1 omega_group s).
Proof. reflexivity. Qed.

Theorem Omega_eq_kappaX_PEDKR s : Omega s = kappaX [Pro; Glu; Asp; Lys; Arg] None s.
Proof. reflexivity. Qed.

Lemma recode2_ED_KR s : recode2 [Glu; Asp] [Lys; Arg] s = pat s.
Proof. unfold recode2, pat. apply map_ext. intros a. destruct a; reflexivity. Qed.

Theorem kappa_eq_kappaX_ED_KR s : kappa (pat s) = kappaX [Glu; Asp] (Some [Lys; Arg]) s.
Proof. unfold kappaX. now rewrite recode2_ED_KR. Qed.

(* groups matter only as sets: order, repetition (and, through parse_group, case) are irrelevant *)
Theorem kappaX_members g1 g1' g2 g2' s :
  (forall r, mem_aa r g1 = mem_aa r g1') -> (forall r, mem_aa r g2 = mem_aa r g2') ->
  g2 <> [] -> g2' <> [] ->
  kappaX g1 (Some g2) s = kappaX g1' (Some g2') s /\ kappaX g1 None s = kappaX g1' None s.
Proof.
  intros H1 H2 N2 N2'. destruct g2 as [|x g2]; [contradiction|]. destruct g2' as [|x' g2']; [contradiction|].
  unfold kappaX, recode2, recode1. split; f_equal; apply map_ext; intros r; rewrite H1, ?H2; reflexivity.
Qed.

(* swapping two disjoint groups inverts the recoded pattern *)
Lemma recode2_swap g1 g2 s : (forall r, mem_aa r g1 = true -> mem_aa r g2 = false) ->
  recode2 g2 g1 s = map Z.opp (recode2 g1 g2 s).
Proof.
  intros Hd. unfold recode2. rewrite map_map. apply map_ext. intros r.
  destruct (mem_aa r g1) eqn:E1; [rewrite (Hd r E1); reflexivity|].
  destruct (mem_aa r g2); reflexivity.
Qed.

Theorem kappaX_swap g1 g2 s : g1 <> [] -> g2 <> [] ->
  (forall r, mem_aa r g1 = true -> mem_aa r g2 = false) ->
  (kappaX g2 (Some g1) s == kappaX g1 (Some g2) s)%Q.
Proof.
  intros N1 N2 Hd. destruct g1 as [|x g1]; [contradiction|]. destruct g2 as [|y g2]; [contradiction|].
  unfold kappaX. rewrite (recode2_swap (x :: g1) (y :: g2) s Hd). apply kappa_inv.
Qed.

Lemma mem_complement g r : mem_aa r (complement g) = negb (mem_aa r g).
Proof.
  unfold complement. destruct (mem_aa r g) eqn:E; cbn [negb].
  - destruct (mem_aa r (filter _ all20)) eqn:F; [|reflexivity].
    apply mem_aa_In in F. apply filter_In in F. destruct F as [_ F]. rewrite E in F. discriminate.
  - apply mem_aa_In. apply filter_In. split; [apply all20_complete | rewrite E; reflexivity].
Qed.

Theorem kappaX_complement g s : (kappaX (complement g) None s == kappaX g None s)%Q.
Proof.
  unfold kappaX.
  assert (H : recode1 (complement g) s = map Z.opp (recode1 g s)).
  { unfold recode1. rewrite map_map. apply map_ext. intros r. rewrite mem_complement.
    destruct (mem_aa r g); reflexivity. }
  rewrite H. apply kappa_inv.
Qed.

Theorem Omega_seq_spec (s : list aa) i : (i < List.length s)%nat ->
  nth i (Omega_seq s) false = mem_aa (nth i s Ala) omega_group /\ List.length (Omega_seq s) = List.length s.
Proof.
  intros _. unfold Omega_seq. split; [|apply map_length].
  change false with ((fun r => mem_aa r omega_group) Ala). apply map_nth.
Qed.

(* Omega only sees membership in {P,E,D,K,R} *)
Theorem Omega_respell s t : map (fun r => mem_aa r omega_group) s = map (fun r => mem_aa r omega_group) t ->
  Omega s = Omega t.
Proof.
  intros H. unfold Omega, recode1. f_equal.
  rewrite <- (map_map (fun r => mem_aa r omega_group) (fun b : bool => if b then -1 else 1) s).
  rewrite <- (map_map (fun r => mem_aa r omega_group) (fun b : bool => if b then -1 else 1) t).
  now rewrite H.
Qed.

Lemma recode1_rev g s : recode1 g (rev s) = rev (recode1 g s).
Proof. unfold recode1. now rewrite map_rev. Qed.

Theorem Omega_rev s : (Omega (rev s) == Omega s)%Q.
Proof. unfold Omega. rewrite recode1_rev. apply kappa_rev. Qed.

(* exchanging positive and negative residues keeps every residue inside / outside {P,E,D,K,R} *)
Definition invert_res (a : aa) : aa :=
  match a with Lys => Glu | Arg => Asp | Glu => Lys | Asp => Arg | x => x end.

Theorem Omega_inv s : Omega (map invert_res s) = Omega s.
Proof.
  apply Omega_respell. rewrite map_map. apply map_ext. intros a. destruct a; reflexivity.
Qed.

Lemma pat_invert s : pat (map invert_res s) = map Z.opp (pat s).
Proof. unfold pat. rewrite !map_map. apply map_ext. intros a. destruct a; reflexivity. Qed.

(* group parsing *)
Lemma upper_lower c : upper_ascii (lower_ascii c) = upper_ascii c.
Proof. destruct c as [[] [] [] [] [] [] [] []]; vm_compute; reflexivity. Qed.

Theorem parse_member_case c : parse_member (String (lower_ascii c) EmptyString) = parse_member (String c EmptyString)
                              /\ parse_member (String (upper_ascii c) EmptyString) = parse_member (String c EmptyString).
Proof.
  unfold parse_member. split; [now rewrite upper_lower|].
  f_equal. destruct c as [[] [] [] [] [] [] [] []]; vm_compute; reflexivity.
Qed.

Theorem parse_group_rejects l x : In x l -> parse_member x = None -> parse_group l = None.
Proof.
  induction l as [|y l IH]; intros Hin Hx; [destruct Hin|].
  cbn [parse_group]. destruct Hin as [->|Hin].
  - rewrite Hx. reflexivity.
  - rewrite (IH Hin Hx). destruct (parse_member y); reflexivity.
Qed.

Theorem kappaX_api_rejects g1 g2 s x : In x g1 -> parse_member x = None -> kappaX_api g1 g2 s = None.
Proof. intros Hin Hx. unfold kappaX_api. now rewrite (parse_group_rejects g1 x Hin Hx). Qed.

Theorem kappaX_api_rejects2 g1 g2 s x : In x g2 -> parse_member x = None -> kappaX_api g1 (Some g2) s = None.
Proof.
  intros Hin Hx. unfold kappaX_api. destruct (parse_group g1); [|reflexivity].
  destruct g2 as [|y g2]; [destruct Hin|]. now rewrite (parse_group_rejects (y :: g2) x Hin Hx).
Qed.
