(* Proofs/Entropy.v — the Wootton–Federhen value is the Shannon entropy of the window composition to
   base alphabet-size; it lies in [0,1] (Gibbs), is 0 for a homopolymeric window (C11).  Over R. *)
From Coq Require Import Reals Lra ZArith List Lia.
From LC Require Import Core.Residue Core.Lists Model.Complexity Proofs.Complexity.
Import ListNotations.
Local Open Scope R_scope.

Fixpoint sumR (l : list R) : R := match l with [] => 0 | x :: l' => x + sumR l' end.

(* p ln p with the convention 0 ln 0 = 0 *)
Definition plnp (p : R) : R := if Rle_dec p 0 then 0 else p * ln p.

(* WF of a count vector for window length w over k letters *)
Definition probs (counts : list Z) (w : Z) : list R := map (fun c => IZR c / IZR w) counts.
Definition WF_R (counts : list Z) (w : Z) (k : nat) : R := - sumR (map plnp (probs counts w)) / ln (INR k).

Lemma ln_le_minus1 x : 0 < x -> ln x <= x - 1.
Proof. intros Hx. pose proof (exp_ineq1_le (ln x)) as H. rewrite exp_ln in H by assumption. lra. Qed.

Lemma plnp_le_0 p : 0 <= p <= 1 -> plnp p <= 0.
Proof.
  intros [H0 H1]. unfold plnp. destruct (Rle_dec p 0); [lra|].
  assert (ln p <= 0) by (pose proof (ln_le_minus1 p ltac:(lra)); lra). nra.
Qed.

Lemma plnp_gibbs p k : 0 <= p -> 0 < k -> plnp p >= - p * ln k + p - / k.
Proof.
  intros Hp Hk. unfold plnp. destruct (Rle_dec p 0) as [H0|H0].
  - assert (p = 0) by lra. subst. assert (0 < / k) by (apply Rinv_0_lt_compat; exact Hk). lra.
  - assert (Hp' : 0 < p) by lra.
    assert (Hq : 0 < / (k * p)) by (apply Rinv_0_lt_compat; apply Rmult_lt_0_compat; lra).
    pose proof (ln_le_minus1 (/ (k * p)) Hq) as HL.
    rewrite ln_Rinv in HL by (apply Rmult_lt_0_compat; lra). rewrite ln_mult in HL by lra.
    assert (p * (- (ln k + ln p)) <= p * (/ (k * p) - 1)) by (apply Rmult_le_compat_l; lra).
    assert (p * / (k * p) = / k) by (field; split; lra). nra.
Qed.

Lemma sumR_ge (f g : R -> R) l : (forall x, In x l -> f x >= g x) -> sumR (map f l) >= sumR (map g l).
Proof.
  induction l as [|x l IH]; intros H; cbn [map sumR]; [lra|].
  pose proof (H x (or_introl eq_refl)). pose proof (IH (fun y Hy => H y (or_intror Hy))). lra.
Qed.

Lemma sumR_le0 (f : R -> R) l : (forall x, In x l -> f x <= 0) -> sumR (map f l) <= 0.
Proof.
  induction l as [|x l IH]; intros H; cbn [map sumR]; [lra|].
  pose proof (H x (or_introl eq_refl)). pose proof (IH (fun y Hy => H y (or_intror Hy))). lra.
Qed.

Lemma sumR_affine a b c l : sumR (map (fun p => a * p + b * p + c) l) = (a + b) * sumR l + c * INR (length l).
Proof.
  induction l as [|x l IH]; [cbn; lra|]. cbn [map sumR]. rewrite IH. cbn [length]. rewrite S_INR. lra.
Qed.

Lemma sumR_probs counts w : IZR w <> 0 -> sumR (probs counts w) = IZR (fold_right Z.add 0%Z counts) / IZR w.
Proof.
  intros Hw. unfold probs. induction counts as [|c cs IH]; cbn [map sumR fold_right]; [unfold Rdiv; lra|].
  rewrite IH, plus_IZR. field. exact Hw.
Qed.

Lemma ln_k_pos k : (2 <= k)%nat -> 0 < ln (INR k).
Proof. intros H. rewrite <- ln_1. apply ln_increasing; [lra|]. apply le_INR in H. cbn in H. lra. Qed.

(* 0 <= WF: every probability is in [0,1] *)
Theorem WF_nonneg counts w k : (0 < w)%Z -> Forall (fun c => (0 <= c <= w)%Z) counts -> (2 <= k)%nat ->
  0 <= WF_R counts w k.
Proof.
  intros Hw Hc Hk. unfold WF_R. apply Rmult_le_pos; [|left; apply Rinv_0_lt_compat; apply ln_k_pos; exact Hk].
  assert (Hs : sumR (map plnp (probs counts w)) <= 0).
  { apply sumR_le0. intros p Hp. unfold probs in Hp. apply in_map_iff in Hp. destruct Hp as [c [<- Hcin]].
    rewrite Forall_forall in Hc. specialize (Hc c Hcin). apply plnp_le_0.
    assert (0 < IZR w) by (apply IZR_lt; exact Hw). destruct Hc as [H0 H1]. apply IZR_le in H0. apply IZR_le in H1.
    split; [apply Rmult_le_pos; [exact H0 | left; apply Rinv_0_lt_compat; assumption]|].
    apply Rmult_le_reg_r with (IZR w); [assumption|]. unfold Rdiv. rewrite Rmult_assoc, Rinv_l by lra. lra. }
  lra.
Qed.

(* WF <= 1: Gibbs' inequality; the counts of the k alphabet letters add up to the window length *)
Theorem WF_le_1 counts w k : (0 < w)%Z -> Forall (fun c => (0 <= c)%Z) counts ->
  fold_right Z.add 0%Z counts = w -> length counts = k -> (2 <= k)%nat -> WF_R counts w k <= 1.
Proof.
  intros Hw Hc Hsum Hlen Hk. unfold WF_R.
  assert (Hwr : 0 < IZR w) by (apply IZR_lt; exact Hw).
  assert (Hkr : 0 < INR k) by (apply lt_0_INR; lia).
  pose proof (ln_k_pos k Hk) as Hln.
  assert (Hg : sumR (map plnp (probs counts w)) >= sumR (map (fun p => - ln (INR k) * p + 1 * p + - / INR k) (probs counts w))).
  { apply sumR_ge. intros p Hp. unfold probs in Hp. apply in_map_iff in Hp. destruct Hp as [c [<- Hcin]].
    rewrite Forall_forall in Hc. specialize (Hc c Hcin). apply IZR_le in Hc.
    pose proof (plnp_gibbs (IZR c / IZR w) (INR k)) as G.
    assert (0 <= IZR c / IZR w) by (apply Rmult_le_pos; [exact Hc | left; apply Rinv_0_lt_compat; assumption]).
    specialize (G H Hkr). lra. }
  rewrite sumR_affine in Hg. rewrite sumR_probs in Hg by lra. rewrite Hsum in Hg.
  unfold probs in Hg. rewrite map_length, Hlen in Hg.
  replace (IZR w / IZR w) with 1 in Hg by (field; lra).
  replace (- / INR k * INR k) with (-1) in Hg by (field; lra).
  apply Rmult_le_reg_r with (ln (INR k)); [exact Hln|].
  unfold Rdiv. rewrite Rmult_assoc, Rinv_l by lra. unfold probs. lra.
Qed.

(* a homopolymeric window has WF = 0: one letter has all w occurrences *)
Theorem WF_homopolymer pre post w k : (0 < w)%Z ->
  WF_R (repeat 0%Z pre ++ [w] ++ repeat 0%Z post) w k = 0.
Proof.
  intros Hw. unfold WF_R, probs. assert (Hwr : 0 < IZR w) by (apply IZR_lt; exact Hw).
  assert (Hz : forall n, sumR (map plnp (map (fun c => IZR c / IZR w) (repeat 0%Z n))) = 0).
  { induction n as [|n IH]; [reflexivity|]. cbn [repeat map sumR]. rewrite IH. unfold plnp.
    destruct (Rle_dec (0 / IZR w) 0) as [|N]; [lra|]. exfalso. apply N. unfold Rdiv. lra. }
  rewrite !map_app. assert (Happ : forall a b, sumR (a ++ b) = sumR a + sumR b) by (induction a; intros; cbn [app sumR]; [lra | rewrite IHa; lra]).
  rewrite !Happ, !Hz. cbn [map sumR]. replace (IZR w / IZR w) with 1 by (field; lra).
  unfold plnp. destruct (Rle_dec 1 0); [lra|]. rewrite ln_1. unfold Rdiv. lra.
Qed.
